/-
  Helper lemmas for C03: the simplicial-complex invariant `SCInv` (incidence integrity + fresh counter +
  downward closure + pairwise distinct member sets + no empty simplex) and its preservation by every
  public mutator of the model `SC` (XgiModel/C03/SC.lean), for every value of the order hints.
-/
import XgiModel.Lemmas.HGWF
import XgiModel.C03.SC

namespace Xgi
namespace SC
open HG

/-! ### node sets -/

/-- two member lists denote the same frozenset -/
def SameSet (a b : List PyId) : Prop := ∀ x, x ∈ a ↔ x ∈ b

theorem SameSet.refl (a : List PyId) : SameSet a a := fun _ => Iff.rfl
theorem SameSet.symm {a b : List PyId} (h : SameSet a b) : SameSet b a := fun x => (h x).symm
theorem SameSet.trans {a b c : List PyId} (h : SameSet a b) (h' : SameSet b c) : SameSet a c :=
  fun x => (h x).trans (h' x)

theorem isSubset_iff (a b : List PyId) : isSubset a b = true ↔ ∀ x ∈ a, x ∈ b := by
  unfold isSubset; simp

theorem sameSet_iff (a b : List PyId) : sameSet a b = true ↔ SameSet a b := by
  unfold sameSet SameSet
  simp only [Bool.and_eq_true, List.all_eq_true, decide_eq_true_eq]
  constructor
  · rintro ⟨h1, h2⟩ x; exact ⟨h1 x, h2 x⟩
  · intro h; exact ⟨fun x hx => (h x).1 hx, fun x hx => (h x).2 hx⟩

/-- some simplex has exactly the node set `u` -/
def Has (s : HG) (u : List PyId) : Prop := ∃ f ∈ s.edges, SameSet (s.mem f) u

theorem hasSimplex_iff (s : HG) (ms : List PyId) : hasSimplex s ms = true ↔ Has s ms := by
  unfold hasSimplex Has
  simp only [List.any_eq_true, sameSet_iff]

theorem Has.congr {s : HG} {u v : List PyId} (h : Has s u) (huv : SameSet u v) : Has s v := by
  obtain ⟨f, hf, hs⟩ := h; exact ⟨f, hf, hs.trans huv⟩

theorem sameSet_dedup (l : List PyId) : SameSet (dedup l) l := fun _ => mem_dedup

theorem mem_orderBy (o ms : List PyId) (x : PyId) : x ∈ orderBy o ms ↔ x ∈ ms := by
  unfold orderBy
  simp only [List.mem_append, List.mem_filter, decide_eq_true_eq]
  constructor
  · rintro (⟨_, h⟩ | ⟨h, _⟩) <;> exact h
  · intro h; by_cases hx : x ∈ o
    · exact Or.inl ⟨hx, h⟩
    · exact Or.inr ⟨h, hx⟩

theorem sameSet_order (o ms : List PyId) : SameSet (dedup (orderBy o ms)) ms :=
  fun x => (mem_dedup).trans (mem_orderBy o ms x)

/-! ### combinations: the subset lemma -/

/-- `itertools.combinations(l, r)` enumerates exactly the sub-lists of length `r` -/
theorem mem_combs (r : Nat) (l t : List PyId) : t ∈ combs r l ↔ t.Sublist l ∧ t.length = r := by
  induction l generalizing r t with
  | nil =>
    cases r with
    | zero => simp [combs]
    | succ r => simp [combs]; intro h; subst h; simp
  | cons a l ih =>
    cases r with
    | zero =>
      simp only [combs, List.mem_singleton]
      constructor
      · intro h; subst h; simp
      · intro ⟨_, h⟩; exact List.length_eq_zero_iff.mp h
    | succ r =>
      simp only [combs, List.mem_append, List.mem_map, ih]
      constructor
      · rintro (⟨t', ⟨hs, hl⟩, rfl⟩ | ⟨hs, hl⟩)
        · exact ⟨List.Sublist.cons_cons a hs, by simp [hl]⟩
        · exact ⟨List.Sublist.cons a hs, hl⟩
      · rintro ⟨hs, hl⟩
        cases hs with
        | cons _ hs => exact Or.inr ⟨hs, hl⟩
        | cons_cons _ hs => rename_i t'; exact Or.inl ⟨t', ⟨hs, by simpa using hl⟩, rfl⟩

/-- `_subfaces(l)`: the sub-lists with at least 2 and fewer than `len l` elements -/
theorem mem_subfacesRaw (l t : List PyId) :
    t ∈ subfacesRaw l ↔ t.Sublist l ∧ 2 ≤ t.length ∧ t.length < l.length := by
  unfold subfacesRaw
  simp only [List.mem_flatMap, List.mem_range, mem_combs]
  constructor
  · rintro ⟨i, hi, hs, hl⟩; exact ⟨hs, by omega, by omega⟩
  · rintro ⟨hs, h2, hl⟩; exact ⟨l.length - 1 - t.length, by omega, hs, by omega⟩

/-- `powerset(l, include_singletons=False, max_size=hi)`: the sub-lists with 2 … `hi` elements -/
theorem mem_powersetRaw (l t : List PyId) (hi : Nat) :
    t ∈ powersetRaw l hi ↔ t.Sublist l ∧ 2 ≤ t.length ∧ t.length ≤ hi := by
  unfold powersetRaw
  simp only [List.mem_flatMap, List.mem_range, mem_combs]
  constructor
  · rintro ⟨i, hi', hs, hl⟩; exact ⟨hs, by omega, by omega⟩
  · rintro ⟨hs, h2, hl⟩
    have := hs.length_le
    exact ⟨t.length - 2, by omega, hs, by omega⟩

/-- a duplicate-free list contained in `l` is no longer than `l` -/
theorem nodup_subset_length {u : List PyId} (hu : u.Nodup) : ∀ {l : List PyId}, (∀ x ∈ u, x ∈ l) → u.length ≤ l.length := by
  induction u with
  | nil => intro l _; simp
  | cons a u ih =>
    intro l h
    have hnd := List.nodup_cons.mp hu
    have ha : a ∈ l := h a (by simp)
    have hsub : ∀ x ∈ u, x ∈ l.erase a := by
      intro x hx
      have hxa : x ≠ a := by intro hh; subst hh; exact hnd.1 hx
      exact (List.mem_erase_of_ne hxa).mpr (h x (by simp [hx]))
    have := ih hnd.2 hsub
    rw [List.length_erase_of_mem ha] at this
    have hpos : 0 < l.length := List.length_pos_of_mem ha
    simp only [List.length_cons]; omega

/-- the sub-list of `t` selecting the nodes of `u`: same node set as `u`, at least as long -/
theorem filter_cover {t u : List PyId} (hu : u.Nodup) (hsub : ∀ x ∈ u, x ∈ t) :
    (t.filter (· ∈ u)).Sublist t ∧ SameSet (t.filter (· ∈ u)) u ∧ u.length ≤ (t.filter (· ∈ u)).length := by
  have hs : SameSet (t.filter (· ∈ u)) u := by
    intro x; simp only [List.mem_filter, decide_eq_true_eq]
    exact ⟨fun h => h.2, fun h => ⟨hsub x h, h⟩⟩
  exact ⟨List.filter_sublist, hs, nodup_subset_length hu (fun x hx => (hs x).2 hx)⟩

/-! ### the invariant -/

/-- downward closure: every subset with at least two nodes of every simplex is the node set of a simplex -/
def Closed (s : HG) : Prop :=
  ∀ e ∈ s.edges, ∀ u : List PyId, u.Nodup → (∀ x ∈ u, x ∈ s.mem e) → 2 ≤ u.length → Has s u

/-- no two simplex IDs carry the same node set -/
def NoDupMembers (s : HG) : Prop := ∀ e ∈ s.edges, ∀ f ∈ s.edges, SameSet (s.mem e) (s.mem f) → e = f

/-- no simplex is empty -/
def NoEmpty (s : HG) : Prop := ∀ e ∈ s.edges, s.mem e ≠ []

structure SCInv (s : HG) : Prop where
  wf : WF s
  fresh : UidFresh s
  closed : Closed s
  nodup : NoDupMembers s
  noempty : NoEmpty s

theorem empty_scinv : SCInv HG.empty :=
  ⟨empty_wf, empty_inv.2, (by intro e he; simp [HG.empty] at he), (by intro e he; simp [HG.empty] at he),
   (by intro e he; simp [HG.empty] at he)⟩

/-- `u` is a simplex or is queued for insertion -/
def Cov (s : HG) (Q : List (List PyId)) (u : List PyId) : Prop := Has s u ∨ ∃ t ∈ Q, SameSet t u

/-- closed up to the queued faces `Q` (the loop invariant of the bulk additions) -/
structure Pre (s : HG) (Q : List (List PyId)) : Prop where
  edges : ∀ e ∈ s.edges, ∀ u : List PyId, u.Nodup → (∀ x ∈ u, x ∈ s.mem e) → 2 ≤ u.length → Cov s Q u
  queue : ∀ t ∈ Q, ∀ u : List PyId, u.Nodup → (∀ x ∈ u, x ∈ t) → 2 ≤ u.length → Cov s Q u

theorem pre_nil_iff (s : HG) : Pre s [] ↔ Closed s := by
  constructor
  · intro h e he u hu hs h2
    rcases h.edges e he u hu hs h2 with h | ⟨t, ht, _⟩
    · exact h
    · cases ht
  · intro h
    exact ⟨fun e he u hu hs h2 => Or.inl (h e he u hu hs h2), fun t ht => by cases ht⟩

/-- the invariant carried through the loop of a bulk addition -/
structure Mid (s : HG) (Q : List (List PyId)) : Prop where
  wf : WF s
  fresh : UidFresh s
  pre : Pre s Q
  nodup : NoDupMembers s
  noempty : NoEmpty s
  qnone : ∀ t ∈ Q, PyId.none ∉ t

theorem mid_of_scinv {s : HG} (h : SCInv s) : Mid s [] :=
  ⟨h.wf, h.fresh, (pre_nil_iff s).2 h.closed, h.nodup, h.noempty, fun t ht => by cases ht⟩

theorem scinv_of_mid {s : HG} (h : Mid s []) : SCInv s :=
  ⟨h.wf, h.fresh, (pre_nil_iff s).1 h.pre, h.nodup, h.noempty⟩

/-! ### states with the same simplices -/

theorem scinv_of_frame {s t : HG} (h : SCInv s) (hi : Inv t) (he : t.edges = s.edges) (hm : t.mem = s.mem) :
    SCInv t := by
  obtain ⟨_, _, h3, h4, h5⟩ := h
  refine ⟨hi.1, hi.2, ?_, ?_, ?_⟩
  · intro e he' u hu hs h2
    rw [he] at he'; rw [hm] at hs
    obtain ⟨f, hf, hsf⟩ := h3 e he' u hu hs h2
    exact ⟨f, by rw [he]; exact hf, by rw [hm]; exact hsf⟩
  · intro e he' f hf hs
    rw [he] at he' hf; rw [hm] at hs; exact h4 e he' f hf hs
  · intro e he'; rw [he] at he'; rw [hm]; exact h5 e he'

theorem scinv_of_no_edges {t : HG} (hi : Inv t) (he : t.edges = []) : SCInv t :=
  ⟨hi.1, hi.2, (by intro e h; rw [he] at h; cases h), (by intro e h; rw [he] at h; cases h),
   (by intro e h; rw [he] at h; cases h)⟩

theorem mid_of_frame {s t : HG} {Q : List (List PyId)} (h : Mid s Q) (hw : WF t) (hf : UidFresh t)
    (he : t.edges = s.edges) (hm : t.mem = s.mem) : Mid t Q := by
  obtain ⟨_, _, ⟨p1, p2⟩, h4, h5, h6⟩ := h
  have hh : ∀ u, Has s u → Has t u := by
    rintro u ⟨f, hf, hs⟩; exact ⟨f, by rw [he]; exact hf, by rw [hm]; exact hs⟩
  have hc : ∀ u, Cov s Q u → Cov t Q u := by
    rintro u (h | h)
    · exact Or.inl (hh u h)
    · exact Or.inr h
  refine ⟨hw, hf, ⟨?_, ?_⟩, ?_, ?_, h6⟩
  · intro e he' u hu hs h2
    rw [he] at he'; rw [hm] at hs; exact hc u (p1 e he' u hu hs h2)
  · intro t' ht u hu hs h2; exact hc u (p2 t' ht u hu hs h2)
  · intro e he' f hf' hs
    rw [he] at he' hf'; rw [hm] at hs; exact h4 e he' f hf' hs
  · intro e he'; rw [he] at he'; rw [hm]; exact h5 e he'

/-! ### adding one simplex -/

/-- `s'` is `s` plus the new simplex `e` with node set `ms` -/
structure Ext (s s' : HG) (e : PyId) (ms : List PyId) : Prop where
  edges : s'.edges = s.edges ++ [e]
  fresh : e ∉ s.edges
  old : ∀ f, f ≠ e → s'.mem f = s.mem f
  new : SameSet (s'.mem e) ms

theorem foldl_link_mem (ms : List PyId) (s : HG) (e : PyId) :
    (∀ f, f ≠ e → (ms.foldl (fun s n => link s e n) s).mem f = s.mem f) ∧
    (∀ x, x ∈ (ms.foldl (fun s n => link s e n) s).mem e ↔ x ∈ s.mem e ∨ x ∈ ms) := by
  induction ms generalizing s with
  | nil => simp
  | cons m ms ih =>
    simp only [List.foldl_cons]
    obtain ⟨h1, h2⟩ := ih (link s e m)
    have hm : ∀ f, (link s e m).mem f = if f = e then ins m (s.mem e) else s.mem f := by
      intro f; unfold link linkCore addNodeRaw; split <;> simp
    refine ⟨?_, ?_⟩
    · intro f hf; rw [h1 f hf, hm f]; simp [hf]
    · intro x; rw [h2 x, hm e]; simp; grind

theorem ext_addEdgeAt (s : HG) (e : PyId) (ms : List PyId) (a : Attrs) (he : e ∉ s.edges) :
    Ext s (addEdgeAt s e ms a) e ms := by
  have h := foldl_link_mem ms (updEdgeAttr (newEdgeAttr (newEdgeRaw s e) e) e a) e
  refine ⟨(addEdgeAt_edges s e ms a).1, he, ?_, ?_⟩
  · intro f hf; unfold addEdgeAt; rw [h.1 f hf]; simp [updEdgeAttr, newEdgeAttr, newEdgeRaw, hf]
  · intro x; unfold addEdgeAt; rw [h.2 x]; simp [updEdgeAttr, newEdgeAttr, newEdgeRaw]

theorem Ext.congr {s s' : HG} {e : PyId} {ms ms' : List PyId} (h : Ext s s' e ms) (hs : SameSet ms ms') :
    Ext s s' e ms' := ⟨h.edges, h.fresh, h.old, h.new.trans hs⟩

theorem Ext.has_mono {s s' : HG} {e : PyId} {ms : List PyId} (h : Ext s s' e ms) {u : List PyId} (hu : Has s u) :
    Has s' u := by
  obtain ⟨f, hf, hs⟩ := hu
  have hne : f ≠ e := by intro hh; subst hh; exact h.fresh hf
  exact ⟨f, by rw [h.edges]; simp [hf], by rw [h.old f hne]; exact hs⟩

theorem Ext.has_new {s s' : HG} {e : PyId} {ms : List PyId} (h : Ext s s' e ms) : Has s' ms :=
  ⟨e, by rw [h.edges]; simp, h.new⟩

theorem Ext.nodup {s s' : HG} {e : PyId} {ms : List PyId} (h : Ext s s' e ms) (hn : NoDupMembers s)
    (hnot : ¬ Has s ms) : NoDupMembers s' := by
  intro f hf g hg hs
  rw [h.edges] at hf hg
  simp only [List.mem_append, List.mem_singleton] at hf hg
  by_cases hfe : f = e <;> by_cases hge : g = e
  · rw [hfe, hge]
  · exfalso; apply hnot
    have hg' : g ∈ s.edges := by rcases hg with hg | hg; exact hg; exact absurd hg hge
    subst hfe
    refine ⟨g, hg', ?_⟩
    rw [← h.old g hge]; exact (hs.symm).trans h.new
  · exfalso; apply hnot
    have hf' : f ∈ s.edges := by rcases hf with hf | hf; exact hf; exact absurd hf hfe
    subst hge
    refine ⟨f, hf', ?_⟩
    rw [← h.old f hfe]; exact hs.trans h.new
  · have hf' : f ∈ s.edges := by rcases hf with hf | hf; exact hf; exact absurd hf hfe
    have hg' : g ∈ s.edges := by rcases hg with hg | hg; exact hg; exact absurd hg hge
    rw [h.old f hfe, h.old g hge] at hs
    exact hn f hf' g hg' hs

theorem Ext.noempty {s s' : HG} {e : PyId} {ms : List PyId} (h : Ext s s' e ms) (hn : NoEmpty s)
    (hne : ms ≠ []) : NoEmpty s' := by
  intro f hf
  rw [h.edges] at hf
  simp only [List.mem_append, List.mem_singleton] at hf
  by_cases hfe : f = e
  · subst hfe
    intro hh
    obtain ⟨x, hx⟩ := List.exists_mem_of_ne_nil ms hne
    have := (h.new x).2 hx
    rw [hh] at this; cases this
  · have hf' : f ∈ s.edges := by rcases hf with hf | hf; exact hf; exact absurd hf hfe
    rw [h.old f hfe]; exact hn f hf'

/-! ### families of queued faces -/

/-- every sub-face (≥ 2 nodes) of a member of `F` is the node set of a member of `F` -/
def FaceClosed (F : List (List PyId)) : Prop :=
  ∀ t ∈ F, ∀ u : List PyId, u.Nodup → (∀ x ∈ u, x ∈ t) → 2 ≤ u.length → ∃ t' ∈ F, SameSet t' u

theorem faceClosed_subfacesRaw (l : List PyId) : FaceClosed (subfacesRaw l) := by
  intro t ht u hu hs h2
  rw [mem_subfacesRaw] at ht
  obtain ⟨c1, c2, c3⟩ := filter_cover hu hs
  refine ⟨t.filter (· ∈ u), ?_, c2⟩
  rw [mem_subfacesRaw]
  have := c1.length_le
  exact ⟨c1.trans ht.1, by omega, by omega⟩

theorem faceClosed_powersetRaw (l : List PyId) (hi : Nat) : FaceClosed (powersetRaw l hi) := by
  intro t ht u hu hs h2
  rw [mem_powersetRaw] at ht
  obtain ⟨c1, c2, c3⟩ := filter_cover hu hs
  refine ⟨t.filter (· ∈ u), ?_, c2⟩
  rw [mem_powersetRaw]
  have := c1.length_le
  exact ⟨c1.trans ht.1, by omega, by omega⟩

/-- every subset (≥ 2 nodes) of `l` is all of `l` or the node set of a member of `_subfaces(l)` -/
theorem subfacesRaw_cover (l u : List PyId) (hu : u.Nodup) (hs : ∀ x ∈ u, x ∈ l) (h2 : 2 ≤ u.length) :
    SameSet l u ∨ ∃ t ∈ subfacesRaw l, SameSet t u := by
  obtain ⟨c1, c2, c3⟩ := filter_cover hu hs
  by_cases hlen : (l.filter (· ∈ u)).length < l.length
  · exact Or.inr ⟨l.filter (· ∈ u), by rw [mem_subfacesRaw]; exact ⟨c1, by omega, hlen⟩, c2⟩
  · left
    have : l.filter (· ∈ u) = l := c1.eq_of_length (by have := c1.length_le; omega)
    rw [this] at c2; exact c2

/-- every subset (≥ 2 nodes) of a member of `powerset(l, max_size=hi)` has at most `hi` nodes … (used for max_order) -/
theorem powersetRaw_length {l t : List PyId} {hi : Nat} (h : t ∈ powersetRaw l hi) : t.length ≤ hi :=
  ((mem_powersetRaw l t hi).1 h).2.2

/-! ### the loop invariant `Pre` -/

theorem pre_append {s : HG} {Q F : List (List PyId)} (h : Pre s Q) (hF : FaceClosed F) : Pre s (Q ++ F) := by
  have hc : ∀ u, Cov s Q u → Cov s (Q ++ F) u := by
    rintro u (h | ⟨t, ht, hs⟩)
    · exact Or.inl h
    · exact Or.inr ⟨t, by simp [ht], hs⟩
  refine ⟨fun e he u hu hs h2 => hc u (h.edges e he u hu hs h2), ?_⟩
  intro t ht u hu hs h2
  rcases List.mem_append.mp ht with ht | ht
  · exact hc u (h.queue t ht u hu hs h2)
  · obtain ⟨t', ht', hs'⟩ := hF t ht u hu hs h2
    exact Or.inr ⟨t', by simp [ht'], hs'⟩

theorem pre_addTop {s s' : HG} {e : PyId} {ms : List PyId} {Q F : List (List PyId)} (h : Pre s Q)
    (hx : Ext s s' e ms) (hF : FaceClosed F)
    (hcov : ∀ u : List PyId, u.Nodup → (∀ x ∈ u, x ∈ ms) → 2 ≤ u.length → SameSet ms u ∨ ∃ t ∈ F, SameSet t u) :
    Pre s' (Q ++ F) := by
  have hc : ∀ u, Cov s Q u → Cov s' (Q ++ F) u := by
    rintro u (h | ⟨t, ht, hs⟩)
    · exact Or.inl (hx.has_mono h)
    · exact Or.inr ⟨t, by simp [ht], hs⟩
  refine ⟨?_, ?_⟩
  · intro f hf u hu hs h2
    rw [hx.edges] at hf
    simp only [List.mem_append, List.mem_singleton] at hf
    by_cases hfe : f = e
    · subst hfe
      rcases hcov u hu (fun x hx' => (hx.new x).1 (hs x hx')) h2 with h' | ⟨t, ht, hs'⟩
      · exact Or.inl (hx.has_new.congr h')
      · exact Or.inr ⟨t, by simp [ht], hs'⟩
    · have hf' : f ∈ s.edges := by rcases hf with hf | hf; exact hf; exact absurd hf hfe
      rw [hx.old f hfe] at hs
      exact hc u (h.edges f hf' u hu hs h2)
  · intro t ht u hu hs h2
    rcases List.mem_append.mp ht with ht | ht
    · exact hc u (h.queue t ht u hu hs h2)
    · obtain ⟨t', ht', hs'⟩ := hF t ht u hu hs h2
      exact Or.inr ⟨t', by simp [ht'], hs'⟩

theorem sameSet_nil_length {u : List PyId} (h : SameSet [] u) : u.length = 0 := by
  cases u with
  | nil => rfl
  | cons a u => exact absurd ((h a).2 (by simp)) (by simp)

theorem pre_skip {s : HG} {t : List PyId} {L : List (List PyId)} (h : Pre s (t :: L)) (ht : t = [] ∨ Has s t) :
    Pre s L := by
  have hc : ∀ u : List PyId, 2 ≤ u.length → Cov s (t :: L) u → Cov s L u := by
    rintro u h2 (h | ⟨t', ht', hs⟩)
    · exact Or.inl h
    · rcases List.mem_cons.mp ht' with rfl | ht'
      · rcases ht with rfl | ht
        · have := sameSet_nil_length hs; omega
        · exact Or.inl (ht.congr hs)
      · exact Or.inr ⟨t', ht', hs⟩
  exact ⟨fun e he u hu hs h2 => hc u h2 (h.edges e he u hu hs h2),
         fun t' ht' u hu hs h2 => hc u h2 (h.queue t' (by simp [ht']) u hu hs h2)⟩

theorem pre_ext_face {s s' : HG} {e : PyId} {t : List PyId} {L : List (List PyId)} (h : Pre s (t :: L))
    (hx : Ext s s' e t) : Pre s' L := by
  have hc : ∀ u : List PyId, Cov s (t :: L) u → Cov s' L u := by
    rintro u (h | ⟨t', ht', hs⟩)
    · exact Or.inl (hx.has_mono h)
    · rcases List.mem_cons.mp ht' with rfl | ht'
      · exact Or.inl (hx.has_new.congr hs)
      · exact Or.inr ⟨t', ht', hs⟩
  refine ⟨?_, fun t' ht' u hu hs h2 => hc u (h.queue t' (by simp [ht']) u hu hs h2)⟩
  intro f hf u hu hs h2
  rw [hx.edges] at hf
  simp only [List.mem_append, List.mem_singleton] at hf
  by_cases hfe : f = e
  · subst hfe
    exact hc u (h.queue t (by simp) u hu (fun x hx' => (hx.new x).1 (hs x hx')) h2)
  · have hf' : f ∈ s.edges := by rcases hf with hf | hf; exact hf; exact absurd hf hfe
    rw [hx.old f hfe] at hs
    exact hc u (h.edges f hf' u hu hs h2)

/-- visiting first some lists that denote queued faces changes nothing -/
theorem pre_hint {s : HG} {Q H : List (List PyId)} (h : Pre s Q) (hH : ∀ x ∈ H, ∃ t ∈ Q, SameSet x t) :
    Pre s (H ++ Q) := by
  have hc : ∀ u, Cov s Q u → Cov s (H ++ Q) u := by
    rintro u (h | ⟨t, ht, hs⟩)
    · exact Or.inl h
    · exact Or.inr ⟨t, by simp [ht], hs⟩
  refine ⟨fun e he u hu hs h2 => hc u (h.edges e he u hu hs h2), ?_⟩
  intro t ht u hu hs h2
  rcases List.mem_append.mp ht with ht | ht
  · obtain ⟨t', ht', hs'⟩ := hH t ht
    exact hc u (h.queue t' ht' u hu (fun x hx => (hs' x).1 (hs x hx)) h2)
  · exact hc u (h.queue t ht u hu hs h2)

/-! ### the loop invariant `Mid` through the primitives -/

theorem Ext.frame {s s' t : HG} {e : PyId} {ms : List PyId} (h : Ext s s' e ms) (he : t.edges = s'.edges)
    (hm : t.mem = s'.mem) : Ext s t e ms :=
  ⟨by rw [he]; exact h.edges, h.fresh, by intro f hf; rw [hm]; exact h.old f hf, by rw [hm]; exact h.new⟩

@[simp] theorem bumpUid_mem (s : HG) (i : PyId) : (bumpUid s i).mem = s.mem := by
  unfold bumpUid; split
  · split <;> rfl
  · rfl

theorem none_not_mem_sublist {t l : List PyId} (h : t.Sublist l) (hl : PyId.none ∉ l) : PyId.none ∉ t :=
  fun ht => hl (h.subset ht)

theorem none_subfacesRaw {l : List PyId} (hl : PyId.none ∉ l) : ∀ t ∈ subfacesRaw l, PyId.none ∉ t :=
  fun t ht => none_not_mem_sublist ((mem_subfacesRaw l t).1 ht).1 hl

theorem none_powersetRaw {l : List PyId} (hi : Nat) (hl : PyId.none ∉ l) : ∀ t ∈ powersetRaw l hi, PyId.none ∉ t :=
  fun t ht => none_not_mem_sublist ((mem_powersetRaw l t hi).1 ht).1 hl

theorem mid_uid_succ {s : HG} {Q : List (List PyId)} (h : Mid s Q) : Mid { s with uid := s.uid + 1 } Q :=
  mid_of_frame h (wf_uid_succ h.wf) (fresh_of_subset h.fresh (fun _ x => x) (by simp)) rfl rfl

theorem mid_append {s : HG} {Q F : List (List PyId)} (h : Mid s Q) (hF : FaceClosed F)
    (hn : ∀ t ∈ F, PyId.none ∉ t) : Mid s (Q ++ F) :=
  ⟨h.wf, h.fresh, pre_append h.pre hF, h.nodup, h.noempty, by
    intro t ht; rcases List.mem_append.mp ht with ht | ht
    · exact h.qnone t ht
    · exact hn t ht⟩

theorem mid_addTop {s : HG} {Q F : List (List PyId)} (h : Mid s Q) (idx : PyId) (ms : List PyId) (a : Attrs)
    (hh : Hints) (hidx : idx ∉ s.edges) (hnone : idx ≠ .none) (hms : PyId.none ∉ ms) (hne : ms ≠ [])
    (hhas : ¬ Has s ms) (hF : FaceClosed F)
    (hcov : ∀ u : List PyId, u.Nodup → (∀ x ∈ u, x ∈ ms) → 2 ≤ u.length → SameSet ms u ∨ ∃ t ∈ F, SameSet t u)
    (hn : ∀ t ∈ F, PyId.none ∉ t) : Mid (addTop s idx ms a hh) (Q ++ F) := by
  have hss := sameSet_order hh.nodes ms
  have hms' : PyId.none ∉ dedup (orderBy hh.nodes ms) := fun hx => hms ((hss _).1 hx)
  have hx : Ext s (addTop s idx ms a hh) idx ms :=
    ((ext_addEdgeAt s idx _ a hidx).congr hss).frame (by unfold addTop; simp) (by unfold addTop; simp)
  refine ⟨?_, ?_, pre_addTop h.pre hx hF hcov, hx.nodup h.nodup hhas, hx.noempty h.noempty hne, ?_⟩
  · exact bumpUid_wf (addEdgeAt_wf h.wf idx _ a hidx hnone hms') idx
  · exact bump_add_fresh h.fresh idx _ a
  · intro t ht; rcases List.mem_append.mp ht with ht | ht
    · exact h.qnone t ht
    · exact hn t ht

theorem mid_face {s : HG} {t : List PyId} {L : List (List PyId)} (hh : Hints) (h : Mid s (t :: L)) :
    Mid (addFaceIfMissing hh s t) L := by
  have hq : ∀ t' ∈ L, PyId.none ∉ t' := fun t' ht' => h.qnone t' (by simp [ht'])
  unfold addFaceIfMissing
  split
  · rename_i hc
    refine ⟨h.wf, h.fresh, pre_skip h.pre ?_, h.nodup, h.noempty, hq⟩
    rcases hc with hc | hc
    · left; simpa using hc
    · right; exact (hasSimplex_iff s t).1 hc
  · rename_i hc
    have hne : t ≠ [] := by intro hh'; apply hc; left; simp [hh']
    have hhas : ¬ Has s t := by intro hh'; apply hc; right; exact (hasSimplex_iff s t).2 hh'
    have hss := sameSet_order hh.nodes t
    have hms' : PyId.none ∉ dedup (orderBy hh.nodes t) := fun hx => h.qnone t (by simp) ((hss _).1 hx)
    have hfr : PyId.int (s.uid : Int) ∉ s.edges := uid_not_mem h.fresh
    have hx1 := (ext_addEdgeAt { s with uid := s.uid + 1 } (PyId.int s.uid) (dedup (orderBy hh.nodes t)) [] hfr).congr hss
    have hx : Ext s (addFace s t hh) (PyId.int s.uid) t := ⟨hx1.edges, hx1.fresh, hx1.old, hx1.new⟩
    refine ⟨?_, ?_, pre_ext_face h.pre hx, hx.nodup h.nodup hhas, hx.noempty h.noempty hne, hq⟩
    · exact addEdgeAt_wf (wf_uid_succ h.wf) _ _ [] hfr (by intro hh'; cases hh') hms'
    · exact auto_add_fresh h.fresh _ []

theorem mid_foldl_faces (hh : Hints) (L : List (List PyId)) {s : HG} (h : Mid s L) :
    Mid (L.foldl (addFaceIfMissing hh) s) [] := by
  induction L generalizing s with
  | nil => exact h
  | cons t L ih => exact ih (mid_face hh h)

theorem mid_faceOrder {s : HG} {Q : List (List PyId)} (hh : Hints) (h : Mid s Q) : Mid s (faceOrder Q hh) := by
  have hH : ∀ x ∈ hh.faces.filter (fun t => Q.any (sameSet t)), ∃ t ∈ Q, SameSet x t := by
    intro x hx
    simp only [List.mem_filter, List.any_eq_true, sameSet_iff] at hx
    exact hx.2
  refine ⟨h.wf, h.fresh, pre_hint h.pre hH, h.nodup, h.noempty, ?_⟩
  intro t ht
  unfold faceOrder at ht
  rcases List.mem_append.mp ht with ht | ht
  · obtain ⟨t', ht', hs⟩ := hH t ht
    exact fun hx => h.qnone t' ht' ((hs _).1 hx)
  · exact h.qnone t ht

/-- the deferred insertion of the queued faces closes the complex -/
theorem addFaces_scinv {s : HG} {Q : List (List PyId)} (hh : Hints) (h : Mid s Q) : SCInv (addFaces s Q hh) :=
  scinv_of_mid (mid_foldl_faces hh _ (mid_faceOrder hh h))

/-! ### additions -/

theorem cover_dedup (ms u : List PyId) (hu : u.Nodup) (hs : ∀ x ∈ u, x ∈ ms) (h2 : 2 ≤ u.length) :
    SameSet ms u ∨ ∃ t ∈ subfacesRaw (dedup ms), SameSet t u := by
  rcases subfacesRaw_cover (dedup ms) u hu (fun x hx => mem_dedup.2 (hs x hx)) h2 with h | h
  · exact Or.inl ((sameSet_dedup ms).symm.trans h)
  · exact Or.inr h

theorem addSimplex_inv {s : HG} (h : SCInv s) (ms : List PyId) (idx : Option PyId) (a : Attrs) (hh : Hints) :
    SCInv (addSimplex s ms idx a hh).1 := by
  unfold addSimplex
  split
  · exact h
  · rename_i hhas
    have hhas' : ¬ Has s ms := fun hx => hhas ((hasSimplex_iff s ms).2 hx)
    have auto : ¬ ms.isEmpty = true → PyId.none ∉ ms →
        SCInv (addFaces (addTop { s with uid := s.uid + 1 } (PyId.int s.uid) ms a hh) (subfacesRaw (dedup ms)) hh) := by
      intro hne hnone
      have hne' : ms ≠ [] := by intro hx; apply hne; simp [hx]
      have hnd : PyId.none ∉ dedup ms := fun hx => hnone (mem_dedup.1 hx)
      have hm := mid_addTop (mid_uid_succ (mid_of_scinv h)) (PyId.int s.uid) ms a hh (uid_not_mem h.fresh)
        (by intro hx; cases hx) hnone hne' hhas' (faceClosed_subfacesRaw (dedup ms)) (cover_dedup ms)
        (none_subfacesRaw hnd)
      rw [List.nil_append] at hm
      exact addFaces_scinv hh hm
    have auto' : SCInv (if ms.isEmpty = true then (s, Outcome.ok) else
        if PyId.none ∈ ms then (s, Outcome.err ErrKind.lib) else
        (addFaces (addTop { s with uid := s.uid + 1 } (PyId.int s.uid) ms a hh) (subfacesRaw (dedup ms)) hh, Outcome.ok)).1 := by
      split
      · exact h
      · split
        · exact h
        · exact auto (by assumption) (by assumption)
    split
    · exact auto'
    · exact auto'
    · rename_i i hin
      split
      · exact h
      · rename_i hi
        split
        · exact h
        · rename_i hne
          split
          · exact h
          · rename_i hnone
            have hne' : ms ≠ [] := by intro hx; apply hne; simp [hx]
            have hnd : PyId.none ∉ dedup ms := fun hx => hnone (mem_dedup.1 hx)
            have hm := mid_addTop (mid_of_scinv h) i ms a hh hi hin hnone hne' hhas'
              (faceClosed_subfacesRaw (dedup ms)) (cover_dedup ms) (none_subfacesRaw hnd)
            rw [List.nil_append] at hm
            exact addFaces_scinv hh hm

theorem truncQ_some {k : Option Nat} {ms : List PyId} {fs : List (List PyId)} (h : truncQ k ms = some fs) :
    ∃ n, fs = powersetRaw ms (n + 1) := by
  unfold truncQ at h
  split at h
  · rename_i n
    split at h
    · exact ⟨n, by injection h with h; exact h.symm⟩
    · cases h
  · cases h

theorem bulkS_inv {σ α : Type} (P : σ → Prop) (f : σ → α → σ × Outcome)
    (hf : ∀ s a, P s → P (f s a).1) (l : List α) {s : σ} (h : P s) : P (bulkS f s l).1 := by
  induction l generalizing s with
  | nil => simpa [bulkS]
  | cons a t ih =>
    simp only [bulkS]
    have h1 := hf s a h
    split
    · rename_i s' k heq; rw [heq] at h1; exact h1
    · rename_i s' o _ heq; rw [heq] at h1; exact ih h1

theorem addSimplicesItem_mid (fmt : Fmt) (attr : Attrs) (k : Option Nat) (hh : Hints)
    (st : HG × List (List PyId)) (it : EdgeItem) (h : Mid st.1 st.2) :
    Mid (addSimplicesItem fmt attr k hh st it).1.1 (addSimplicesItem fmt attr k hh st it).1.2 := by
  obtain ⟨s, q⟩ := st
  simp only [] at h
  unfold addSimplicesItem
  simp only []
  split
  · exact h
  · rename_i hc
    have hne : it.members ≠ [] := by intro hx; apply hc; left; simp [hx]
    have hhas : ¬ Has s it.members := fun hx => hc (Or.inr ((hasSimplex_iff s _).2 hx))
    split
    · -- format 5
      split
      · exact h
      · rename_i hidx
        split
        · exact h
        · rename_i hnone
          split
          · rename_i fs hfs
            obtain ⟨n, rfl⟩ := truncQ_some hfs
            exact mid_append h (faceClosed_powersetRaw _ _) (none_powersetRaw _ hnone)
          · split
            · exact h
            · rename_i hin
              exact mid_addTop h _ _ [] hh hidx hin hnone hne hhas (faceClosed_subfacesRaw _)
                (subfacesRaw_cover _) (none_subfacesRaw hnone)
    · -- formats 1-4
      split
      · exact h
      · rename_i hnone
        have h1 : Mid (if fmt.explicit = true then s else { s with uid := s.uid + 1 }) q := by
          split
          · exact h
          · exact mid_uid_succ h
        have hhas1 : ¬ Has (if fmt.explicit = true then s else { s with uid := s.uid + 1 }) it.members := by
          split
          · exact hhas
          · exact hhas
        generalize (if fmt.explicit = true then it.idx.getD PyId.none else PyId.int s.uid) = idx
        generalize (if fmt.explicit = true then s else { s with uid := s.uid + 1 }) = s1 at *
        split
        · rename_i fs hfs
          obtain ⟨n, rfl⟩ := truncQ_some hfs
          exact mid_append h1 (faceClosed_powersetRaw _ _) (none_powersetRaw _ hnone)
        · split
          · exact h1
          · rename_i hidx
            split
            · exact h1
            · rename_i hin
              exact mid_addTop h1 _ _ _ hh hidx hin hnone hne hhas1 (faceClosed_subfacesRaw _)
                (subfacesRaw_cover _) (none_subfacesRaw hnone)

theorem addSimplicesFrom_inv {s : HG} (h : SCInv s) (fmt : Fmt) (items : List EdgeItem) (k : Option Nat)
    (attr : Attrs) (hh : Hints) : SCInv (addSimplicesFrom s fmt items k attr hh).1 := by
  have key : SCInv (addFaces (bulkS (addSimplicesItem fmt attr k hh) (s, []) items).1.1
      (bulkS (addSimplicesItem fmt attr k hh) (s, []) items).1.2 hh) := by
    apply addFaces_scinv
    exact bulkS_inv (fun st : HG × List (List PyId) => Mid st.1 st.2) _
      (fun st it hst => addSimplicesItem_mid fmt attr k hh st it hst) items (mid_of_scinv h)
  unfold addSimplicesFrom
  simp only []
  split
  · split
    · exact key
    · split
      · exact h
      · exact key
  · exact key

theorem addWeightedSimplicesFrom_inv {s : HG} (h : SCInv s) (items : List EdgeItem) (k : Option Nat)
    (attr : Attrs) (hh : Hints) : SCInv (addWeightedSimplicesFrom s items k attr hh).1 :=
  addSimplicesFrom_inv h .f3 items k attr hh

/-! ### max_order: everything a bulk addition creates has at most `k + 1` nodes -/

/-- the node set `t` has at most `k + 1` elements -/
def Small (k : Nat) (t : List PyId) : Prop := ∀ u : List PyId, u.Nodup → (∀ x ∈ u, x ∈ t) → u.length ≤ k + 1

theorem small_of_length {k : Nat} {t : List PyId} (h : t.length ≤ k + 1) : Small k t :=
  fun _ hu hs => Nat.le_trans (nodup_subset_length hu hs) h

theorem Small.congr {k : Nat} {t t' : List PyId} (h : Small k t) (hs : SameSet t' t) : Small k t' :=
  fun u hu hsub => h u hu (fun x hx => (hs x).1 (hsub x hx))

/-- every simplex is an untouched simplex of `s0` or has at most `k + 1` nodes -/
def Bnd (s0 : HG) (k : Nat) (t : HG) : Prop :=
  ∀ f ∈ t.edges, (f ∈ s0.edges ∧ t.mem f = s0.mem f) ∨ (t.mem f).length ≤ k + 1

theorem bnd_refl (s : HG) (k : Nat) : Bnd s k s := fun _ hf => Or.inl ⟨hf, rfl⟩

theorem bnd_ext {s0 s s' : HG} {k : Nat} {e : PyId} {ms : List PyId} (hx : Ext s s' e ms) (hw : WF s')
    (hs : Small k ms) (h : Bnd s0 k s) : Bnd s0 k s' := by
  intro f hf
  by_cases hfe : f = e
  · subst hfe
    exact Or.inr (hs _ (hw.setE f hf) (fun x hx' => (hx.new x).1 hx'))
  · have hf' : f ∈ s.edges := by
      rw [hx.edges] at hf; simp only [List.mem_append, List.mem_singleton] at hf
      rcases hf with hf | hf; exact hf; exact absurd hf hfe
    rw [hx.old f hfe]; exact h f hf'

theorem addTop_ext (s : HG) (idx : PyId) (ms : List PyId) (a : Attrs) (hh : Hints) (hidx : idx ∉ s.edges) :
    Ext s (addTop s idx ms a hh) idx ms :=
  ((ext_addEdgeAt s idx _ a hidx).congr (sameSet_order hh.nodes ms)).frame (by unfold addTop; simp) (by unfold addTop; simp)

theorem addFace_ext {s : HG} (hf : UidFresh s) (t : List PyId) (hh : Hints) :
    Ext s (addFace s t hh) (PyId.int s.uid) t := by
  have hx1 := (ext_addEdgeAt { s with uid := s.uid + 1 } (PyId.int s.uid) (dedup (orderBy hh.nodes t)) []
    (uid_not_mem hf)).congr (sameSet_order hh.nodes t)
  exact ⟨hx1.edges, hx1.fresh, hx1.old, hx1.new⟩

theorem truncQ_some_k {k : Nat} {ms : List PyId} {fs : List (List PyId)} (h : truncQ (some k) ms = some fs) :
    fs = powersetRaw ms (k + 1) := by
  unfold truncQ at h; simp only [] at h
  split at h
  · injection h with h; exact h.symm
  · cases h

theorem truncQ_none_k {k : Nat} {ms : List PyId} (h : truncQ (some k) ms = none) : ms.length ≤ k + 1 := by
  unfold truncQ at h; simp only [] at h
  split at h
  · cases h
  · omega

theorem small_subfacesRaw {k : Nat} {ms : List PyId} (h : ms.length ≤ k + 1) : ∀ t ∈ subfacesRaw ms, Small k t :=
  fun t ht => small_of_length (by have := ((mem_subfacesRaw ms t).1 ht).2.2; omega)

theorem small_powersetRaw (k : Nat) (ms : List PyId) : ∀ t ∈ powersetRaw ms (k + 1), Small k t :=
  fun _ ht => small_of_length (powersetRaw_length ht)

theorem small_append {k : Nat} {Q F : List (List PyId)} (hq : ∀ t ∈ Q, Small k t) (hf : ∀ t ∈ F, Small k t) :
    ∀ t ∈ Q ++ F, Small k t := by
  intro t ht; rcases List.mem_append.mp ht with ht | ht
  · exact hq t ht
  · exact hf t ht

theorem addSimplicesItem_bnd (s0 : HG) (fmt : Fmt) (attr : Attrs) (k : Nat) (hh : Hints)
    (st : HG × List (List PyId)) (it : EdgeItem) (h : Mid st.1 st.2) (hb : Bnd s0 k st.1)
    (hq : ∀ t ∈ st.2, Small k t) :
    Bnd s0 k (addSimplicesItem fmt attr (some k) hh st it).1.1 ∧
    ∀ t ∈ (addSimplicesItem fmt attr (some k) hh st it).1.2, Small k t := by
  have hmid := addSimplicesItem_mid fmt attr (some k) hh st it h
  revert hmid
  obtain ⟨s, q⟩ := st
  simp only [] at h hb hq
  unfold addSimplicesItem
  simp only []
  split
  · intro _; exact ⟨hb, hq⟩
  · split
    · -- format 5
      split
      · intro _; exact ⟨hb, hq⟩
      · rename_i hidx
        split
        · intro _; exact ⟨hb, hq⟩
        · split
          · rename_i fs hfs
            rw [truncQ_some_k hfs]
            intro _; exact ⟨hb, small_append hq (small_powersetRaw k _)⟩
          · rename_i hfs
            split
            · intro _; exact ⟨hb, hq⟩
            · intro hmid
              have hlen := truncQ_none_k hfs
              exact ⟨bnd_ext (addTop_ext s _ _ [] hh hidx) hmid.wf (small_of_length hlen) hb,
                     small_append hq (small_subfacesRaw hlen)⟩
    · -- formats 1-4
      split
      · intro _; exact ⟨hb, hq⟩
      · have hb1 : Bnd s0 k (if fmt.explicit = true then s else { s with uid := s.uid + 1 }) := by
          split
          · exact hb
          · exact hb
        generalize (if fmt.explicit = true then it.idx.getD PyId.none else PyId.int s.uid) = idx
        generalize (if fmt.explicit = true then s else { s with uid := s.uid + 1 }) = s1 at *
        split
        · rename_i fs hfs
          rw [truncQ_some_k hfs]
          intro _; exact ⟨hb1, small_append hq (small_powersetRaw k _)⟩
        · rename_i hfs
          split
          · intro _; exact ⟨hb1, hq⟩
          · rename_i hidx
            split
            · intro _; exact ⟨hb1, hq⟩
            · intro hmid
              have hlen := truncQ_none_k hfs
              exact ⟨bnd_ext (addTop_ext s1 _ _ _ hh hidx) hmid.wf (small_of_length hlen) hb1,
                     small_append hq (small_subfacesRaw hlen)⟩

theorem bulkS_bnd (s0 : HG) (fmt : Fmt) (attr : Attrs) (k : Nat) (hh : Hints) (items : List EdgeItem)
    (st : HG × List (List PyId)) (h : Mid st.1 st.2) (hb : Bnd s0 k st.1) (hq : ∀ t ∈ st.2, Small k t) :
    let r := (bulkS (addSimplicesItem fmt attr (some k) hh) st items).1
    Mid r.1 r.2 ∧ Bnd s0 k r.1 ∧ ∀ t ∈ r.2, Small k t := by
  induction items generalizing st with
  | nil => exact ⟨h, hb, hq⟩
  | cons it items ih =>
    simp only [bulkS]
    have h1 := addSimplicesItem_mid fmt attr (some k) hh st it h
    have h2 := addSimplicesItem_bnd s0 fmt attr k hh st it h hb hq
    split
    · rename_i s' kk heq; rw [heq] at h1 h2; exact ⟨h1, h2.1, h2.2⟩
    · rename_i s' o _ heq; rw [heq] at h1 h2; exact ih s' h1 h2.1 h2.2

theorem foldl_faces_bnd (s0 : HG) (k : Nat) (hh : Hints) (L : List (List PyId)) {s : HG} (h : Mid s L)
    (hb : Bnd s0 k s) (hq : ∀ t ∈ L, Small k t) : Bnd s0 k (L.foldl (addFaceIfMissing hh) s) := by
  induction L generalizing s with
  | nil => exact hb
  | cons t L ih =>
    simp only [List.foldl_cons]
    have hm := mid_face hh h
    refine ih hm ?_ (fun t' ht' => hq t' (by simp [ht']))
    revert hm
    unfold addFaceIfMissing
    split
    · intro _; exact hb
    · intro hm; exact bnd_ext (addFace_ext h.fresh t hh) hm.wf (hq t (by simp)) hb

/-- `add_simplices_from(…, max_order=k)`: whatever it creates has at most `k + 1` nodes -/
theorem addSimplicesFrom_bnd {s : HG} (h : SCInv s) (fmt : Fmt) (items : List EdgeItem) (k : Nat) (attr : Attrs)
    (hh : Hints) : Bnd s k (addSimplicesFrom s fmt items (some k) attr hh).1 := by
  have key : Bnd s k (addFaces (bulkS (addSimplicesItem fmt attr (some k) hh) (s, []) items).1.1
      (bulkS (addSimplicesItem fmt attr (some k) hh) (s, []) items).1.2 hh) := by
    obtain ⟨h1, h2, h3⟩ := bulkS_bnd s fmt attr k hh items (s, []) (mid_of_scinv h) (bnd_refl s k)
      (fun t ht => by cases ht)
    unfold addFaces
    refine foldl_faces_bnd s k hh _ (mid_faceOrder hh h1) h2 ?_
    intro t ht
    unfold faceOrder at ht
    rcases List.mem_append.mp ht with ht | ht
    · simp only [List.mem_filter, List.any_eq_true, sameSet_iff] at ht
      obtain ⟨_, t', ht', hs⟩ := ht
      exact (h3 t' ht').congr hs
    · exact h3 t ht
  unfold addSimplicesFrom
  simp only []
  split
  · split
    · exact key
    · split
      · exact bnd_refl s k
      · exact key
  · exact key

/-! ### an added simplex is present afterwards -/

theorem foldl_faces_has (hh : Hints) (L : List (List PyId)) {s : HG} (h : Mid s L) {u : List PyId} (hu : Has s u) :
    Has (L.foldl (addFaceIfMissing hh) s) u := by
  induction L generalizing s with
  | nil => exact hu
  | cons t L ih =>
    simp only [List.foldl_cons]
    refine ih (mid_face hh h) ?_
    unfold addFaceIfMissing
    split
    · exact hu
    · exact (addFace_ext h.fresh t hh).has_mono hu

theorem addFaces_has {s : HG} {Q : List (List PyId)} (hh : Hints) (h : Mid s Q) {u : List PyId} (hu : Has s u) :
    Has (addFaces s Q hh) u :=
  foldl_faces_has hh _ (mid_faceOrder hh h) hu

/-- a call of `add_simplex` that returns without warning on a non-empty member list leaves that simplex present -/
theorem addSimplex_has {s : HG} (h : SCInv s) (ms : List PyId) (idx : Option PyId) (a : Attrs) (hh : Hints)
    (hne : ms ≠ []) (hok : (addSimplex s ms idx a hh).2 = .ok) : Has (addSimplex s ms idx a hh).1 ms := by
  revert hok
  unfold addSimplex
  split
  · rename_i hhas; intro _; exact (hasSimplex_iff s ms).1 hhas
  · rename_i hhas
    have hhas' : ¬ Has s ms := fun hx => hhas ((hasSimplex_iff s ms).2 hx)
    have hemp : ¬ ms.isEmpty = true := by intro he; exact hne (by simpa using he)
    have auto' : (if ms.isEmpty = true then (s, Outcome.ok) else
        if PyId.none ∈ ms then (s, Outcome.err ErrKind.lib) else
        (addFaces (addTop { s with uid := s.uid + 1 } (PyId.int s.uid) ms a hh) (subfacesRaw (dedup ms)) hh, Outcome.ok)).2 = .ok →
        Has (if ms.isEmpty = true then (s, Outcome.ok) else
        if PyId.none ∈ ms then (s, Outcome.err ErrKind.lib) else
        (addFaces (addTop { s with uid := s.uid + 1 } (PyId.int s.uid) ms a hh) (subfacesRaw (dedup ms)) hh, Outcome.ok)).1 ms := by
      rw [if_neg hemp]
      split
      · intro hx; cases hx
      · rename_i hnone
        intro _
        have hnd : PyId.none ∉ dedup ms := fun hx => hnone (mem_dedup.1 hx)
        have hm := mid_addTop (mid_uid_succ (mid_of_scinv h)) (PyId.int s.uid) ms a hh (uid_not_mem h.fresh)
          (by intro hx; cases hx) hnone hne hhas' (faceClosed_subfacesRaw (dedup ms)) (cover_dedup ms)
          (none_subfacesRaw hnd)
        rw [List.nil_append] at hm
        exact addFaces_has hh hm (addTop_ext { s with uid := s.uid + 1 } (PyId.int s.uid) ms a hh
          (show PyId.int (s.uid : Int) ∉ s.edges from uid_not_mem h.fresh)).has_new
    split
    · exact auto'
    · exact auto'
    · rename_i i hin
      by_cases hi : i ∈ s.edges
      · rw [if_pos hi]; intro hx; cases hx
      · rw [if_neg hi, if_neg hemp]
        by_cases hnone : PyId.none ∈ ms
        · rw [if_pos hnone]; intro hx; cases hx
        · rw [if_neg hnone]
          intro _
          have hnd : PyId.none ∉ dedup ms := fun hx => hnone (mem_dedup.1 hx)
          have hm := mid_addTop (mid_of_scinv h) i ms a hh hi hin hnone hne hhas'
            (faceClosed_subfacesRaw (dedup ms)) (cover_dedup ms) (none_subfacesRaw hnd)
          rw [List.nil_append] at hm
          exact addFaces_has hh hm (addTop_ext s i ms a hh hi).has_new

/-! ### removals: sub-complexes whose removed part is closed upwards -/

theorem scinv_sub {s t : HG} (h : SCInv s) (hi : Inv t) (hm : t.mem = s.mem) (hsub : ∀ f ∈ t.edges, f ∈ s.edges)
    (hup : ∀ f ∈ s.edges, f ∉ t.edges → ∀ g ∈ s.edges, (∀ x ∈ s.mem f, x ∈ s.mem g) → g ∉ t.edges) :
    SCInv t := by
  refine ⟨hi.1, hi.2, ?_, ?_, ?_⟩
  · intro e he u hu hs h2
    rw [hm] at hs
    obtain ⟨f, hf, hsf⟩ := h.closed e (hsub e he) u hu hs h2
    refine ⟨f, ?_, by rw [hm]; exact hsf⟩
    apply Classical.byContradiction
    intro hnf
    exact hup f hf hnf e (hsub e he) (fun x hx => hs x ((hsf x).1 hx)) he
  · intro e he f hf hs
    rw [hm] at hs; exact h.nodup e (hsub e he) f (hsub f hf) hs
  · intro e he; rw [hm]; exact h.noempty e (hsub e he)

theorem foldl_dropEdge (L : List PyId) (s : HG) :
    (L.foldl dropEdge s).mem = s.mem ∧ (L.foldl dropEdge s).uid = s.uid ∧
    (L.foldl dropEdge s).edges = s.edges.filter (fun f => decide (f ∉ L)) := by
  induction L generalizing s with
  | nil => exact ⟨rfl, rfl, (List.filter_eq_self.2 (by simp)).symm⟩
  | cons a L ih =>
    simp only [List.foldl_cons]
    obtain ⟨h1, h2, h3⟩ := ih (dropEdge s a)
    refine ⟨by rw [h1]; rfl, by rw [h2]; rfl, ?_⟩
    rw [h3]
    show List.filter _ (rm a s.edges) = _
    unfold rm
    rw [List.filter_filter]
    apply List.filter_congr
    intro x _
    by_cases hxa : x = a <;> by_cases hxL : x ∈ L <;> simp [hxa, hxL]

theorem foldl_dropEdge_wf (L : List PyId) {s : HG} (h : WF s) : WF (L.foldl dropEdge s) :=
  foldl_inv WF dropEdge (fun _ a hs => dropEdge_wf hs a) L h

/-- what `remove_simplex_id` leaves: the simplices that do not contain the removed one -/
theorem removeSimplexId_spec {s : HG} (h : SCInv s) {e : PyId} (he : e ∈ s.edges) :
    (removeSimplexId s e).2 = .ok ∧ (removeSimplexId s e).1.mem = s.mem ∧ (removeSimplexId s e).1.uid = s.uid ∧
    (removeSimplexId s e).1.edges = s.edges.filter (fun f => !isSubset (s.mem e) (s.mem f)) := by
  unfold removeSimplexId
  rw [if_neg (by simpa using he)]
  generalize hL : s.edges.filter (fun f => isSubset (s.mem e) (s.mem f) && !isSubset (s.mem f) (s.mem e)) = L
  obtain ⟨h1, h2, h3⟩ := foldl_dropEdge L s
  refine ⟨rfl, by show (List.foldl dropEdge s L).mem = _; exact h1, by show (List.foldl dropEdge s L).uid = _; exact h2, ?_⟩
  show rm e (List.foldl dropEdge s L).edges = _
  rw [h3]; unfold rm; rw [List.filter_filter]
  apply List.filter_congr
  intro f hf
  have hmemL : f ∈ L ↔ (isSubset (s.mem e) (s.mem f) = true ∧ isSubset (s.mem f) (s.mem e) = false) := by
    rw [← hL]; simp [hf]
  by_cases hsub : isSubset (s.mem e) (s.mem f) = true
  · by_cases hsup : isSubset (s.mem f) (s.mem e) = true
    · have : f = e := by
        apply h.nodup f hf e he
        intro x; exact ⟨(isSubset_iff _ _).1 hsup x, (isSubset_iff _ _).1 hsub x⟩
      subst this; simp [hsub]
    · have hL' : f ∈ L := hmemL.2 ⟨hsub, by simpa using hsup⟩
      simp [hsub, hL']
  · have hL' : f ∉ L := fun hx => hsub (hmemL.1 hx).1
    have hne : f ≠ e := by
      intro hx; subst hx; apply hsub; rw [isSubset_iff]; exact fun _ hx => hx
    simp [hsub, hL', hne]

theorem removeSimplexId_inv (s : HG) (e : PyId) (h : SCInv s) : SCInv (removeSimplexId s e).1 := by
  by_cases he : e ∈ s.edges
  · obtain ⟨_, h1, h2, h3⟩ := removeSimplexId_spec h he
    have hw : WF (removeSimplexId s e).1 := by
      unfold removeSimplexId; rw [if_neg (by simpa using he)]
      exact dropEdge_wf (foldl_dropEdge_wf _ h.wf) e
    have hmem : ∀ f, f ∈ (removeSimplexId s e).1.edges ↔ f ∈ s.edges ∧ ¬ isSubset (s.mem e) (s.mem f) = true := by
      intro f; rw [h3]; simp
    refine scinv_sub h ⟨hw, fresh_of_subset h.fresh (fun f hf => ((hmem f).1 hf).1) (by omega)⟩ h1
      (fun f hf => ((hmem f).1 hf).1) ?_
    intro f hf hnf g hg hfg hgin
    have hef : isSubset (s.mem e) (s.mem f) = true := by
      apply Classical.byContradiction; intro hx; exact hnf ((hmem f).2 ⟨hf, hx⟩)
    apply ((hmem g).1 hgin).2
    rw [isSubset_iff] at hef ⊢
    exact fun x hx => hfg x (hef x hx)
  · unfold removeSimplexId; rw [if_pos (by simpa using he)]; exact h

theorem removeSimplexIdsFrom_inv {s : HG} (h : SCInv s) (es : List PyId) : SCInv (removeSimplexIdsFrom s es).1 := by
  unfold removeSimplexIdsFrom
  exact bulk_inv SCInv _ (fun t i ht => by
    split
    · exact ht
    · exact removeSimplexId_inv t i ht) es h

/-- what the (always strong) node removal leaves -/
theorem removeNode_spec {s : HG} (n : PyId) (hn : n ∈ s.nodes) :
    (removeNode s n).2 = .ok ∧ (removeNode s n).1.mem = s.mem ∧ (removeNode s n).1.uid = s.uid ∧
    (removeNode s n).1.edges = s.edges.filter (fun e => e ∉ s.memb n) ∧ (removeNode s n).1.nodes = rm n s.nodes := by
  unfold removeNode
  rw [if_neg (by simpa using hn)]
  exact ⟨rfl, rfl, rfl, rfl, rfl⟩

theorem removeNode_inv (s : HG) (n : PyId) (h : SCInv s) : SCInv (removeNode s n).1 := by
  by_cases hn : n ∈ s.nodes
  · obtain ⟨_, h1, h2, h3, _⟩ := removeNode_spec n hn
    have hw : WF (removeNode s n).1 := by
      unfold removeNode; rw [if_neg (by simpa using hn)]; exact removeNodeStrong_wf h.wf n
    have hmem : ∀ f, f ∈ (removeNode s n).1.edges ↔ f ∈ s.edges ∧ f ∉ s.memb n := by
      intro f; rw [h3]; simp
    refine scinv_sub h ⟨hw, fresh_of_subset h.fresh (fun f hf => ((hmem f).1 hf).1) (by omega)⟩ h1
      (fun f hf => ((hmem f).1 hf).1) ?_
    intro f hf hnf g hg hfg hgin
    have hfn : f ∈ s.memb n := by
      apply Classical.byContradiction; intro hx; exact hnf ((hmem f).2 ⟨hf, hx⟩)
    have hnf' : n ∈ s.mem f := (h.wf.n2e n hn f hfn).2
    exact ((hmem g).1 hgin).2 (h.wf.e2n g hg n (hfg n hnf')).2
  · unfold removeNode; rw [if_pos (by simpa using hn)]; exact h

theorem removeNodesFrom_inv {s : HG} (h : SCInv s) (ns : List PyId) : SCInv (removeNodesFrom s ns).1 := by
  unfold removeNodesFrom
  exact bulk_inv SCInv _ (fun t n ht => by
    unfold removeNodesItem; split
    · exact ht
    · exact removeNode_inv t n ht) ns h

/-! ### inherited mutators that do not touch the simplices -/

/-- same simplices -/
def Frame (s t : HG) : Prop := t.edges = s.edges ∧ t.mem = s.mem

theorem Frame.refl (s : HG) : Frame s s := ⟨rfl, rfl⟩
theorem Frame.trans {s t u : HG} (h : Frame s t) (h' : Frame t u) : Frame s u :=
  ⟨h'.1.trans h.1, h'.2.trans h.2⟩

theorem scinv_frame {s t : HG} (h : SCInv s) (hi : Inv t) (hf : Frame s t) : SCInv t :=
  scinv_of_frame h hi hf.1 hf.2

theorem bulk_frame {α : Type} (f : HG → α → HG × Outcome) (hf : ∀ s a, Frame s (f s a).1) (l : List α) (s : HG) :
    Frame s (bulk f s l).1 :=
  bulk_inv (fun t => Frame s t) f (fun t a ht => ht.trans (hf t a)) l (Frame.refl s)

theorem foldl_frame {α : Type} (f : HG → α → HG) (hf : ∀ s a, Frame s (f s a)) (l : List α) (s : HG) :
    Frame s (l.foldl f s) :=
  foldl_inv (fun t => Frame s t) f (fun t a ht => ht.trans (hf t a)) l (Frame.refl s)

theorem addNodeRaw_frame (s : HG) (n : PyId) : Frame s (addNodeRaw s n) := by
  unfold addNodeRaw; split
  · exact Frame.refl s
  · exact ⟨rfl, rfl⟩

theorem addNode_frame (s : HG) (n : PyId) (a : Attrs) : Frame s (addNode s n a).1 := by
  unfold addNode; split
  · exact Frame.refl s
  · exact (addNodeRaw_frame s n).trans ⟨rfl, rfl⟩

theorem addNodesFrom_frame (s : HG) (items : List (PyId × Option Attrs)) (attr : Attrs) :
    Frame s (addNodesFrom s items attr).1 := by
  unfold addNodesFrom
  apply bulk_frame
  intro t it
  obtain ⟨n, od⟩ := it
  unfold addNodesItem; simp only []; split
  · exact Frame.refl t
  · exact (addNodeRaw_frame t n).trans ⟨rfl, rfl⟩

theorem setNodeAttrs_frame (s : HG) (arg : AttrArg) : Frame s (setNodeAttrs s arg).1 := by
  unfold setNodeAttrs
  cases arg with
  | dictName vals name =>
    exact bulk_frame _ (fun t p => by split <;> first | exact ⟨rfl, rfl⟩ | exact Frame.refl t) vals s
  | constName v name => exact foldl_frame (fun s n => updNodeAttr s n [(name, v)]) (fun t n => ⟨rfl, rfl⟩) _ s
  | dictOfDict vals =>
    exact bulk_frame _ (fun t p => by split <;> first | exact ⟨rfl, rfl⟩ | exact Frame.refl t) vals s
  | badNoName => exact Frame.refl s

theorem setEdgeAttrs_frame (s : HG) (arg : AttrArg) : Frame s (setEdgeAttrs s arg).1 := by
  unfold setEdgeAttrs
  cases arg with
  | dictName vals name =>
    exact bulk_frame _ (fun t p => by split <;> first | exact ⟨rfl, rfl⟩ | exact Frame.refl t) vals s
  | constName v name => exact foldl_frame (fun s e => updEdgeAttr s e [(name, v)]) (fun t n => ⟨rfl, rfl⟩) _ s
  | dictOfDict vals =>
    exact bulk_frame _ (fun t p => by split <;> first | exact ⟨rfl, rfl⟩ | exact Frame.refl t) vals s
  | badNoName => exact Frame.refl s

theorem scinv_inv {s : HG} (h : SCInv s) : Inv s := ⟨h.wf, h.fresh⟩

theorem addNode_scinv {s : HG} (h : SCInv s) (n : PyId) (a : Attrs) : SCInv (addNode s n a).1 :=
  scinv_frame h (addNode_inv (scinv_inv h) n a) (addNode_frame s n a)

theorem addNodesFrom_scinv {s : HG} (h : SCInv s) (items : List (PyId × Option Attrs)) (a : Attrs) :
    SCInv (addNodesFrom s items a).1 :=
  scinv_frame h (addNodesFrom_inv (scinv_inv h) items a) (addNodesFrom_frame s items a)

theorem clear_scinv {s : HG} (h : SCInv s) (b : Bool) : SCInv (clear s b).1 :=
  scinv_of_no_edges (clear_inv (scinv_inv h) b) rfl

theorem clearEdges_scinv {s : HG} (h : SCInv s) : SCInv (clearEdges s).1 :=
  scinv_of_no_edges (clearEdges_inv (scinv_inv h)) rfl

theorem frozen_scinv {s : HG} (h : SCInv s) : SCInv { s with frozen := true } :=
  scinv_of_frame h (frozen_inv (scinv_inv h)) rfl rfl

/-! ### close, cleanup -/

theorem close_inv {s : HG} (h : SCInv s) (orders : List (List PyId)) (hh : Hints) : SCInv (close s orders hh).1 := by
  unfold close
  exact bulk_inv SCInv _ (fun t l ht => by
    unfold closeItem; split
    · exact ht
    · exact guardF_inv SCInv _ _ ht (addSimplicesFrom_inv ht _ _ _ _ _)) _ h

theorem lccInPlace_inv {s : HG} (h : SCInv s) : SCInv (SC.lccInPlace s).1 := by
  unfold SC.lccInPlace
  exact guardF_inv SCInv _ _ h (removeNodesFrom_inv h _)

theorem relabel_inv {s : HG} (h : SCInv s) (l : String) (hh : Hints) : SCInv (SC.relabel s l hh).1 := by
  unfold SC.relabel
  simp only []
  split
  · exact h
  · have h1 := clear_scinv h false
    have h2 := addNodesFrom_scinv h1 (s.nodes.map (fun n => (PyId.int (indexOf s.nodes n), some (s.nattr n)))) []
    generalize (addNodesFrom (clear s false).1 (s.nodes.map (fun n => (PyId.int (indexOf s.nodes n), some (s.nattr n)))) []).1 = t2 at h2
    have h3 : ∀ arg, SCInv (setNodeAttrs t2 arg).1 :=
      fun arg => scinv_frame h2 (setNodeAttrs_inv (scinv_inv h2) arg) (setNodeAttrs_frame t2 arg)
    refine scinv_frame (addSimplicesFrom_inv (h3 _) _ _ _ _ _) (setEdgeAttrs_inv (scinv_inv (addSimplicesFrom_inv (h3 _) _ _ _ _ _)) _)
      (setEdgeAttrs_frame _ _)

theorem cleanup_inv {s : HG} (h : SCInv s) (a c r : Bool) (hh : Hints) : SCInv (SC.cleanup s a c r hh).1 := by
  unfold SC.cleanup
  apply andThen_inv SCInv
  · apply andThen_inv SCInv
    · split
      · exact h
      · exact guardF_inv SCInv _ _ h (removeNodesFrom_inv h _)
    · intro t ht; split
      · exact lccInPlace_inv ht
      · exact ht
  · intro t ht; split
    · exact relabel_inv ht _ _
    · exact ht

/-! ### every public call -/

theorem deprecated_inv (r : HG × Outcome) (h : SCInv r.1) : SCInv (deprecated r).1 := h

theorem stepCore_inv {s : HG} (h : SCInv s) (op : Op) : SCInv (stepCore s op).1 := by
  cases op <;> simp only [stepCore]
  case addNode n a => exact addNode_scinv h n a
  case addNodesFrom items a => exact addNodesFrom_scinv h items a
  case removeNode n => exact removeNode_inv s n h
  case removeNodesFrom ns => exact removeNodesFrom_inv h ns
  case addSimplex ms idx a hh => exact addSimplex_inv h ms idx a hh
  case addSimplicesFrom fmt items k a hh => exact addSimplicesFrom_inv h fmt items k a hh
  case addWeightedSimplicesFrom items k a hh => exact addWeightedSimplicesFrom_inv h items k a hh
  case removeSimplexId e => exact removeSimplexId_inv s e h
  case removeSimplexIdsFrom es => exact removeSimplexIdsFrom_inv h es
  case close orders hh => exact close_inv h orders hh
  case cleanup a c r hh => exact cleanup_inv h a c r hh
  case addEdge ms idx a hh => exact guardF_inv SCInv _ _ h (addSimplex_inv h ms idx a hh)
  case addEdgesFrom fmt items k a hh => exact guardF_inv SCInv _ _ h (addSimplicesFrom_inv h fmt items k a hh)
  case addWeightedEdgesFrom items k a hh => exact guardF_inv SCInv _ _ h (addWeightedSimplicesFrom_inv h items k a hh)
  case removeEdge e => exact guardF_inv SCInv _ _ h (removeSimplexId_inv s e h)
  case removeEdgesFrom es => exact guardF_inv SCInv _ _ h (removeSimplexIdsFrom_inv h es)
  case clear b => exact clear_scinv h b
  case clearEdges => exact clearEdges_scinv h
  case freeze => exact frozen_scinv h

theorem step_inv {s : HG} (h : SCInv s) (op : Op) : SCInv (step s op).1 := by
  unfold step
  split
  · exact h
  · exact stepCore_inv h op

end SC
end Xgi
