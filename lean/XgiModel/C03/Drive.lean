/-
  JSON request → `SC.Op`, state → JSON snapshot (same snapshot layout as Drive/HG.lean).
  Used by Drivers/SC.lean.  `has_simplex` is a query: the state is unchanged and the answer is in "res".
  `copy` / `pickle` / `construct` (`SimplicialComplex(S, **attr)`) are queries too: the state is unchanged, "out" is
  the outcome of the cloning call and "clone" is the snapshot of the clone (null when the call raised).
-/
import XgiModel.Proto
import XgiModel.Drive.HG
import XgiModel.C03.SC
import XgiModel.C03.Copy
open Lean Xgi.Proto

namespace Xgi.SC.Drive
open Xgi.HG Xgi.HG.Drive

def lists? (j : Json) (k : String) : Option (List (List PyId)) :=
  match getField? j k with
  | none => some []
  | some (.arr a) => a.toList.mapM idsOfJson?
  | some _ => none

def hints? (j : Json) : Option Hints := do
  let faces ← lists? j "hint"
  let nodes ← match getField? j "norder" with
    | none => pure []
    | some x => idsOfJson? x
  pure { faces := faces, nodes := nodes }

/-- `max_order`: absent or null = None -/
def maxOrder? (j : Json) : Option (Option Nat) :=
  match getField? j "max_order" with
  | none => some none
  | some .null => some none
  | some _ => (getNat? j "max_order").map some

def idx? (j : Json) : Option (Option PyId) :=
  match getField? j "idx" with
  | some (.str "$auto") => some none
  | some i => (idOfJson? i).map some
  | none => none

def op? (j : Json) : Option Op := do
  let name ← getStr? j "op"
  match name with
  | "add_node" => pure (.addNode (← getId? j "n") (← getAttrs? j "attr"))
  | "add_nodes_from" => do
    let items ← (← getArr? j "items").mapM nodeItem?
    pure (.addNodesFrom items (← getAttrs? j "attr"))
  | "remove_node" => pure (.removeNode (← getId? j "n"))
  | "remove_nodes_from" => pure (.removeNodesFrom (← getIds? j "ns"))
  | "add_simplex" => pure (.addSimplex (← getIds? j "members") (← idx? j) (← getAttrs? j "attr") (← hints? j))
  | "add_edge" => pure (.addEdge (← getIds? j "members") (← idx? j) (← getAttrs? j "attr") (← hints? j))
  | "add_simplices_from" => do
    let items ← (← getArr? j "items").mapM edgeItem?
    pure (.addSimplicesFrom (← fmt? j) items (← maxOrder? j) (← getAttrs? j "attr") (← hints? j))
  | "add_edges_from" => do
    let items ← (← getArr? j "items").mapM edgeItem?
    pure (.addEdgesFrom (← fmt? j) items (← maxOrder? j) (← getAttrs? j "attr") (← hints? j))
  | "add_weighted_simplices_from" => do
    let items ← (← getArr? j "items").mapM edgeItem?
    pure (.addWeightedSimplicesFrom items (← maxOrder? j) (← getAttrs? j "attr") (← hints? j))
  | "add_weighted_edges_from" => do
    let items ← (← getArr? j "items").mapM edgeItem?
    pure (.addWeightedEdgesFrom items (← maxOrder? j) (← getAttrs? j "attr") (← hints? j))
  | "remove_simplex_id" => pure (.removeSimplexId (← getId? j "e"))
  | "remove_edge" => pure (.removeEdge (← getId? j "e"))
  | "remove_simplex_ids_from" => pure (.removeSimplexIdsFrom (← getIds? j "es"))
  | "remove_edges_from" => pure (.removeEdgesFrom (← getIds? j "es"))
  | "close" => pure (.close (← lists? j "orders") (← hints? j))
  | "cleanup" => pure (.cleanup (← getBool? j "isolates") (← getBool? j "connected") (← getBool? j "relabel") (← hints? j))
  | "clear" => pure (.clear (← getBool? j "remove_net_attr"))
  | "clear_edges" => pure .clearEdges
  | "freeze" => pure .freeze
  | _ => none

/-- answer of a cloning query: the source's snapshot, the outcome of the call, the clone's snapshot -/
def cloneJson (s : HG) (r : HG × Outcome) : Json :=
  Json.mkObj (("out", outcomeJson r.2) ::
    ("clone", if r.2.isErr then Json.null else Json.mkObj (snapshot r.1)) :: snapshot s)

def handle (s : HG) (j : Json) : HG × Json :=
  match getStr? j "op" with
  | some "reset" => (HG.empty, respond HG.empty .ok)
  | some "snapshot" => (s, respond s .ok)
  -- a request whose arguments are outside the model's ID domain (uuid / float / bytes / huge-int IDs …): no answer
  | some "outside-model" => (s, Json.mkObj [("out", "unmodelled")])
  -- the inherited Hypergraph mutators a SimplicialComplex refuses (`add_node_to_edge`, `random_edge_shuffle`,
  -- `double_edge_swap`, `remove_node_from_edge`: "… is not implemented in SimplicialComplex", raised before anything
  -- is read or written).  Not an `Op` of the model: the state is the argument itself, so `SCInv` needs no theorem.
  | some "inherited_refused" => (s, respond s (.err .lib))
  | some "has_simplex" =>
    match getIds? j "members" with
    | none => (s, badOp)
    | some ms => (s, Json.mkObj (("out", outcomeJson .ok) :: ("res", Json.bool (hasSimplex s ms)) :: snapshot s))
  | some "copy" =>
    match hints? j with
    | none => (s, badOp)
    | some h => (s, cloneJson s (SC.copy s h))
  | some "pickle" => (s, cloneJson s (HG.pickleRoundTrip s, .ok))
  | some "construct" =>
    match hints? j, (match getField? j "attr" with | none => some [] | some a => attrsOfJson? a) with
    | some h, some attr => (s, cloneJson s (SC.ofComplex s attr h))
    | _, _ => (s, badOp)
  | _ =>
    match op? j with
    | none => (s, badOp)
    | some op =>
      let r := SC.step s op
      (r.1, respond r.1 r.2)

end Xgi.SC.Drive
