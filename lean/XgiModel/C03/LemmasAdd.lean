/-
  Helper lemmas for C04 on the simplicial model (XgiModel/C03/SC.lean): every adding call keeps every existing
  simplex (`HG.Keeps`: position, members, attribute dict, attribute record) — the new simplex and the missing
  faces are only appended — for every value of the order hints, whether the call returns, warns or raises.
-/
import XgiModel.Lemmas.HGAdd
import XgiModel.C03.Lemmas

namespace Xgi
namespace SC
open HG

/-! ### primitives -/

theorem keeps_uid_succ (s : HG) : Keeps s { s with uid := s.uid + 1 } := keeps_of_eq_edges rfl rfl rfl rfl

theorem addTop_keeps (s : HG) (idx : PyId) (ms : List PyId) (a : Attrs) (hh : Hints) (hidx : idx ∉ s.edges) :
    Keeps s (addTop s idx ms a hh) := by
  unfold addTop
  exact keeps_trans (addEdgeAt_keeps s idx _ a hidx) (bumpUid_keeps _ idx)

theorem addFace_keeps {s : HG} (hf : UidFresh s) (t : List PyId) (hh : Hints) : Keeps s (addFace s t hh) := by
  unfold addFace
  exact keeps_trans (keeps_uid_succ s)
    (addEdgeAt_keeps { s with uid := s.uid + 1 } _ _ [] (show PyId.int (s.uid : Int) ∉ s.edges from uid_not_mem hf))

theorem addFaceIfMissing_keeps (hh : Hints) {s : HG} (hf : UidFresh s) (t : List PyId) :
    Keeps s (addFaceIfMissing hh s t) := by
  unfold addFaceIfMissing; split
  · exact keeps_refl s
  · exact addFace_keeps hf t hh

theorem foldl_faces_keeps (hh : Hints) (L : List (List PyId)) {s : HG} (h : Mid s L) :
    Keeps s (L.foldl (addFaceIfMissing hh) s) := by
  induction L generalizing s with
  | nil => exact keeps_refl s
  | cons t L ih => exact keeps_trans (addFaceIfMissing_keeps hh h.fresh t) (ih (mid_face hh h))

/-- the deferred insertion of the queued faces only appends -/
theorem addFaces_keeps {s : HG} {Q : List (List PyId)} (hh : Hints) (h : Mid s Q) : Keeps s (addFaces s Q hh) :=
  foldl_faces_keeps hh _ (mid_faceOrder hh h)

/-! ### what the new top simplex looks like -/

theorem foldl_link_eattr' (ms : List PyId) (s : HG) (e : PyId) :
    (ms.foldl (fun s n => link s e n) s).eattr = s.eattr := by
  induction ms generalizing s with
  | nil => rfl
  | cons m ms ih => simp only [List.foldl_cons]; rw [ih, (link_eattr s e m).1]

theorem bumpUid_eattr (s : HG) (i : PyId) : (bumpUid s i).eattr = s.eattr := by
  unfold bumpUid; split
  · split <;> rfl
  · rfl

/-- the attribute dict of the simplex `add_simplex` / `add_simplices_from` creates: `{}` updated with the given
    attributes -/
theorem addTop_eattr (s : HG) (idx : PyId) (ms : List PyId) (a : Attrs) (hh : Hints) :
    (addTop s idx ms a hh).eattr idx = Attrs.update [] a := by
  unfold addTop addEdgeAt
  rw [bumpUid_eattr, foldl_link_eattr']
  simp [updEdgeAttr, newEdgeAttr, newEdgeRaw]

/-- the state after the checks of `add_simplex` have passed: the loop invariant for its faces -/
theorem addTop_mid {s : HG} (h : Mid s []) (i : PyId) (ms : List PyId) (a : Attrs) (hh : Hints)
    (hi : i ∉ s.edges) (hin : i ≠ .none) (hnone : PyId.none ∉ ms) (hne : ms ≠ []) (hhas : ¬ Has s ms) :
    Mid (addTop s i ms a hh) (subfacesRaw (dedup ms)) := by
  have hnd : PyId.none ∉ dedup ms := fun hx => hnone (mem_dedup.1 hx)
  have hm := mid_addTop h i ms a hh hi hin hnone hne hhas (faceClosed_subfacesRaw (dedup ms)) (cover_dedup ms)
    (none_subfacesRaw hnd)
  rw [List.nil_append] at hm
  exact hm

theorem addTopFaces_keeps {s : HG} (h : Mid s []) (i : PyId) (ms : List PyId) (a : Attrs) (hh : Hints)
    (hi : i ∉ s.edges) (hin : i ≠ .none) (hnone : PyId.none ∉ ms) (hne : ms ≠ []) (hhas : ¬ Has s ms) :
    Keeps s (addFaces (addTop s i ms a hh) (subfacesRaw (dedup ms)) hh) :=
  keeps_trans (addTop_keeps s i ms a hh hi) (addFaces_keeps hh (addTop_mid h i ms a hh hi hin hnone hne hhas))

/-- the new simplex sits directly after the old ones under exactly the ID `i`, with the given node set and
    attributes; the faces come after it -/
theorem addTopFaces_shape {s : HG} (h : Mid s []) (i : PyId) (ms : List PyId) (a : Attrs) (hh : Hints)
    (hi : i ∉ s.edges) (hin : i ≠ .none) (hnone : PyId.none ∉ ms) (hne : ms ≠ []) (hhas : ¬ Has s ms) :
    ∃ l, (addFaces (addTop s i ms a hh) (subfacesRaw (dedup ms)) hh).edges = s.edges ++ i :: l ∧
      SameSet ((addFaces (addTop s i ms a hh) (subfacesRaw (dedup ms)) hh).mem i) ms ∧
      (addFaces (addTop s i ms a hh) (subfacesRaw (dedup ms)) hh).eattr i = Attrs.update [] a := by
  have hx := addTop_ext s i ms a hh hi
  obtain ⟨⟨l, hl⟩, hk⟩ := addFaces_keeps hh (addTop_mid h i ms a hh hi hin hnone hne hhas)
  have hmem : i ∈ (addTop s i ms a hh).edges := by rw [hx.edges]; simp
  obtain ⟨k1, k2, _⟩ := hk i hmem
  refine ⟨l, ?_, ?_, ?_⟩
  · rw [hl, hx.edges, List.append_assoc]; rfl
  · rw [k1]; exact hx.new
  · rw [k2]; exact addTop_eattr s i ms a hh

/-! ### add_simplex -/

theorem addSimplex_keeps {s : HG} (h : SCInv s) (ms : List PyId) (idx : Option PyId) (a : Attrs) (hh : Hints) :
    Keeps s (addSimplex s ms idx a hh).1 := by
  unfold addSimplex
  split
  · exact keeps_refl s
  · rename_i hhas
    have hhas' : ¬ Has s ms := fun hx => hhas ((hasSimplex_iff s ms).2 hx)
    have auto' : Keeps s (if ms.isEmpty = true then (s, Outcome.ok) else
        if PyId.none ∈ ms then (s, Outcome.err ErrKind.lib) else
        (addFaces (addTop { s with uid := s.uid + 1 } (PyId.int s.uid) ms a hh) (subfacesRaw (dedup ms)) hh, Outcome.ok)).1 := by
      split
      · exact keeps_refl s
      · rename_i hne
        split
        · exact keeps_refl s
        · rename_i hnone
          have hne' : ms ≠ [] := by intro hx; apply hne; simp [hx]
          exact keeps_trans (keeps_uid_succ s)
            (addTopFaces_keeps (mid_uid_succ (mid_of_scinv h)) (PyId.int s.uid) ms a hh
              (show PyId.int (s.uid : Int) ∉ s.edges from uid_not_mem h.fresh) (by intro hx; cases hx) hnone hne' hhas')
    split
    · exact auto'
    · exact auto'
    · rename_i i hin
      split
      · exact keeps_refl s
      · rename_i hi
        split
        · exact keeps_refl s
        · rename_i hne
          split
          · exact keeps_refl s
          · rename_i hnone
            have hne' : ms ≠ [] := by intro hx; apply hne; simp [hx]
            exact addTopFaces_keeps (mid_of_scinv h) i ms a hh hi hin hnone hne' hhas'

/-! ### add_simplices_from -/

/-- one element of the bulk loop only appends (the queued faces are inserted later) -/
theorem addSimplicesItem_keeps (fmt : Fmt) (attr : Attrs) (k : Option Nat) (hh : Hints)
    (st : HG × List (List PyId)) (it : EdgeItem) :
    Keeps st.1 (addSimplicesItem fmt attr k hh st it).1.1 := by
  obtain ⟨s, q⟩ := st
  unfold addSimplicesItem
  simp only []
  split
  · exact keeps_refl s
  · split
    · -- format 5
      split
      · exact keeps_refl s
      · rename_i hidx
        split
        · exact keeps_refl s
        · split
          · exact keeps_refl s
          · split
            · exact keeps_refl s
            · exact addTop_keeps s _ _ [] hh hidx
    · -- formats 1-4
      split
      · exact keeps_refl s
      · have k1 : Keeps s (if fmt.explicit = true then s else { s with uid := s.uid + 1 }) := by
          split
          · exact keeps_refl s
          · exact keeps_uid_succ s
        generalize (if fmt.explicit = true then it.idx.getD PyId.none else PyId.int s.uid) = idx
        generalize (if fmt.explicit = true then s else { s with uid := s.uid + 1 }) = s1 at *
        split
        · exact k1
        · split
          · exact k1
          · rename_i hidx
            split
            · exact k1
            · exact keeps_trans k1 (addTop_keeps s1 _ _ _ hh hidx)

theorem addSimplicesFrom_keeps {s : HG} (h : SCInv s) (fmt : Fmt) (items : List EdgeItem) (k : Option Nat)
    (attr : Attrs) (hh : Hints) : Keeps s (addSimplicesFrom s fmt items k attr hh).1 := by
  have key : Keeps s (addFaces (bulkS (addSimplicesItem fmt attr k hh) (s, []) items).1.1
      (bulkS (addSimplicesItem fmt attr k hh) (s, []) items).1.2 hh) := by
    have hb := bulkS_inv (fun st : HG × List (List PyId) => Mid st.1 st.2 ∧ Keeps s st.1) _
      (fun st it hst => ⟨addSimplicesItem_mid fmt attr k hh st it hst.1,
        keeps_trans hst.2 (addSimplicesItem_keeps fmt attr k hh st it)⟩) items
      (s := (s, [])) ⟨mid_of_scinv h, keeps_refl s⟩
    exact keeps_trans hb.2 (addFaces_keeps hh hb.1)
  unfold addSimplicesFrom
  simp only []
  split
  · split
    · exact key
    · split
      · exact keeps_refl s
      · exact key
  · exact key

theorem addWeightedSimplicesFrom_keeps {s : HG} (h : SCInv s) (items : List EdgeItem) (k : Option Nat)
    (attr : Attrs) (hh : Hints) : Keeps s (addWeightedSimplicesFrom s items k attr hh).1 :=
  addSimplicesFrom_keeps h .f3 items k attr hh

/-! ### close, nodes -/

theorem close_keeps {s : HG} (h : SCInv s) (orders : List (List PyId)) (hh : Hints) : Keeps s (close s orders hh).1 := by
  unfold close
  have := bulk_inv (fun t => SCInv t ∧ Keeps s t) (closeItem hh) (fun t l ht => by
    unfold closeItem; split
    · exact ht
    · unfold guardF; split
      · exact ht
      · exact ⟨addSimplicesFrom_inv ht.1 _ _ _ _ _, keeps_trans ht.2 (addSimplicesFrom_keeps ht.1 _ _ _ _ _)⟩)
    (closeLists s.mem s.edges orders) (s := s) ⟨h, keeps_refl s⟩
  exact this.2

theorem addNode_keeps (s : HG) (n : PyId) (a : Attrs) : Keeps s (addNode s n a).1 := by
  unfold addNode; split
  · exact keeps_refl s
  · unfold updNodeAttr addNodeRaw; split <;> exact keeps_of_eq_edges rfl rfl rfl rfl

/-! ### every adding call of the alphabet, on a frozen or unfrozen complex -/

/-- the calls that add: simplices (by their new names and through the deprecated aliases), the missing faces
    (`close`), nodes -/
def Op.isAdd : Op → Bool
  | .addSimplex .. | .addSimplicesFrom .. | .addWeightedSimplicesFrom .. | .addEdge .. | .addEdgesFrom ..
  | .addWeightedEdgesFrom .. | .close .. | .addNode .. | .addNodesFrom .. => true
  | _ => false

theorem guardF_keeps (s : HG) (r : HG × Outcome) (hr : Keeps s r.1) : Keeps s (guardF s r).1 := by
  unfold guardF; split
  · exact keeps_refl s
  · exact hr

theorem step_keeps {s : HG} (h : SCInv s) (op : Op) (ha : op.isAdd = true) : Keeps s (step s op).1 := by
  unfold step
  split
  · exact keeps_refl s
  · rename_i hfz
    cases op <;> simp only [Op.isAdd, Bool.false_eq_true] at ha <;> simp only [stepCore, deprecated]
    case addNode n a => exact addNode_keeps s n a
    case addNodesFrom items a => exact addNodesFrom_keeps (scinv_inv h) items a
    case addSimplex ms idx a hh => exact addSimplex_keeps h ms idx a hh
    case addSimplicesFrom fmt items k a hh => exact addSimplicesFrom_keeps h fmt items k a hh
    case addWeightedSimplicesFrom items k a hh => exact addWeightedSimplicesFrom_keeps h items k a hh
    case close orders hh => exact close_keeps h orders hh
    case addEdge ms idx a hh => exact guardF_keeps s _ (addSimplex_keeps h ms idx a hh)
    case addEdgesFrom fmt items k a hh => exact guardF_keeps s _ (addSimplicesFrom_keeps h fmt items k a hh)
    case addWeightedEdgesFrom items k a hh => exact guardF_keeps s _ (addWeightedSimplicesFrom_keeps h items k a hh)

/-- what `Keeps` and duplicate-free ID lists give together: the IDs that were added are new and pairwise distinct -/
theorem keeps_new_ids {s t : HG} (k : Keeps s t) (hn : t.edges.Nodup) :
    ∃ l, t.edges = s.edges ++ l ∧ l.Nodup ∧ ∀ e ∈ l, e ∉ s.edges := by
  obtain ⟨⟨l, hl⟩, _⟩ := k
  rw [hl, List.nodup_append] at hn
  exact ⟨l, hl, hn.2.1, fun e he hs => hn.2.2 e hs e he rfl⟩

end SC
end Xgi
