/-
  Helper definitions and lemmas for C18 on the simplicial model (XgiModel/C03/SC.lean): the Python name of every op,
  the method a deprecated alias forwards to, and "a frozen complex is a fixed point of every call".
-/
import XgiModel.C03.SC

namespace Xgi
namespace SC
open HG

/-- the Python method each op stands for -/
def pyName : Op → String
  | .addNode .. => "add_node" | .addNodesFrom .. => "add_nodes_from" | .removeNode .. => "remove_node"
  | .removeNodesFrom .. => "remove_nodes_from" | .addSimplex .. => "add_simplex"
  | .addSimplicesFrom .. => "add_simplices_from" | .addWeightedSimplicesFrom .. => "add_weighted_simplices_from"
  | .removeSimplexId .. => "remove_simplex_id" | .removeSimplexIdsFrom .. => "remove_simplex_ids_from"
  | .close .. => "close" | .cleanup .. => "cleanup" | .addEdge .. => "add_edge" | .addEdgesFrom .. => "add_edges_from"
  | .addWeightedEdgesFrom .. => "add_weighted_edges_from" | .removeEdge .. => "remove_edge"
  | .removeEdgesFrom .. => "remove_edges_from" | .clear .. => "clear" | .clearEdges => "clear_edges" | .freeze => "freeze"

/-- the public call a deprecated alias ends in (`warn(…); return self.<new name>(…)`, every argument forwarded) -/
def Op.forwardsTo : Op → Option Op
  | .addEdge ms idx a h => some (.addSimplex ms idx a h)
  | .addEdgesFrom fmt items k a h => some (.addSimplicesFrom fmt items k a h)
  | .addWeightedEdgesFrom items k a h => some (.addWeightedSimplicesFrom items k a h)
  | .removeEdge e => some (.removeSimplexId e)
  | .removeEdgesFrom es => some (.removeSimplexIdsFrom es)
  | _ => none

theorem guardF_frozen (s : HG) (r : HG × Outcome) (hf : s.frozen = true) : guardF s r = (s, .err .lib) := by
  unfold guardF; simp [hf]

/-- `freeze()` on a frozen complex writes the value the flag already has -/
theorem frozen_eta (s : HG) (hf : s.frozen = true) : { s with frozen := true } = s := by
  cases s; simp_all

/-- a loop whose body leaves `s` as it is leaves `s` as it is (it may stop early with a raise) -/
theorem bulk_fixed {α : Type} (f : HG → α → HG × Outcome) (s : HG) (hf : ∀ a, (f s a).1 = s) (l : List α) :
    (bulk f s l).1 = s := by
  induction l with
  | nil => rfl
  | cons a t ih =>
    simp only [bulk]
    have h1 := hf a
    split
    · rename_i s' k heq; rw [heq] at h1; exact h1
    · rename_i s' o _ heq; rw [heq] at h1; simp only [] at h1; subst h1; exact ih

theorem andThen_fixed (s : HG) (r : HG × Outcome) (f : HG → HG × Outcome) (hr : r.1 = s) (hf : (f s).1 = s) :
    (andThen r f).1 = s := by
  unfold andThen; split
  · exact hr
  · simp only []; rw [hr]; exact hf

theorem closeItem_frozen (hh : Hints) (s : HG) (hf : s.frozen = true) (l : List PyId) : (closeItem hh s l).1 = s := by
  unfold closeItem; split
  · rfl
  · rw [guardF_frozen s _ hf]

theorem close_frozen (s : HG) (hf : s.frozen = true) (orders : List (List PyId)) (hh : Hints) : (close s orders hh).1 = s := by
  unfold close; exact bulk_fixed _ s (closeItem_frozen hh s hf) _

theorem lccInPlace_frozen (s : HG) (hf : s.frozen = true) : (SC.lccInPlace s).1 = s := by
  unfold SC.lccInPlace; simp only [guardF_frozen s _ hf]

theorem relabel_frozen (s : HG) (hf : s.frozen = true) (l : String) (hh : Hints) : (SC.relabel s l hh).1 = s := by
  unfold SC.relabel; simp [hf]

theorem cleanup_frozen (s : HG) (hf : s.frozen = true) (a c r : Bool) (hh : Hints) : (SC.cleanup s a c r hh).1 = s := by
  unfold SC.cleanup
  apply andThen_fixed
  · apply andThen_fixed
    · split
      · rfl
      · rw [guardF_frozen s _ hf]
    · split
      · exact lccInPlace_frozen s hf
      · rfl
  · split
    · exact relabel_frozen s hf _ hh
    · rfl

end SC
end Xgi
