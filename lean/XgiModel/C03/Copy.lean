/-
  C07 on the simplicial model — the three ways of cloning a `SimplicialComplex`, transcribed on the `HG` state with
  the mutators of XgiModel/C03/SC.lean:

    * `SC.copy`        `SimplicialComplex.copy`                                  (xgi/core/simplicialcomplex.py)
    * `SC.ofComplex`   `SimplicialComplex(S, **attr)`, i.e. `__init__` → `to_simplicial_complex(S, create_using=self)`
                       (xgi/convert/higher_order_network.py, branch "data is a SimplicialComplex")
    * `HG.pickleRoundTrip` (XgiModel/C07/Copy.lean) — `__getstate__` / `__setstate__` are inherited from `Hypergraph`
                       unchanged, so the pickle model of the undirected class *is* the pickle model of this class

  `copy` and the constructor rebuild the clone through the public mutators exactly as the Python does:
  `add_nodes_from((n, attr) …)`, then `add_simplices_from((members, id, attr) …)` — format 4, no `max_order`.
  `add_simplices_from` queues the sub-faces of every simplex it inserts and adds the missing ones afterwards under
  automatic IDs; that the queue finds nothing missing (so the clone has exactly the source's IDs, in the source's
  order) is a theorem about closed sources (Props/C07S.lean), not part of the transcription.
  The order hints are those of `add_simplices_from`; the theorems hold for all of them.  No Mathlib.
-/
import XgiModel.C03.SC
import XgiModel.C07.Copy

namespace Xgi
namespace SC
open HG

/-- `SimplicialComplex.copy`:
    ```
    cp = self.__class__()
    cp.add_nodes_from((n, deepcopy(attr)) for n, attr in nn.items())
    cp.add_simplices_from((e, idx, deepcopy(self.edges[idx])) for idx, e in ee.members(dtype=dict).items())
    cp._net_attr = deepcopy(self._net_attr)
    cp._edge_uid = copy(self._edge_uid)
    ``` -/
def copy (s : HG) (h : Hints := {}) : HG × Outcome :=
  let cp := HG.empty
  let r := andThen (addNodesFrom cp (nodeItems s) [])
    (fun cp => addSimplicesFrom cp .f4 (edgeItems s) none [] h)
  ({ r.1 with net := s.net, uid := s.uid }, r.2)

/-- `SimplicialComplex(S, **attr)`:
    ```
    __init__:               six fresh tables, self._edge_uid = count()
    to_simplicial_complex:  H = empty_simplicial_complex(create_using=self)        -- self.clear(); H is self
                            H.add_nodes_from((n, attr) for n, attr in data.nodes.items())
                            H.add_simplices_from((ee.members(e), e, deepcopy(attr)) for e, attr in ee.items())
                            H._net_attr = deepcopy(data._net_attr)
    __init__:               self._net_attr.update(attr)
    ```
    The counter is **not** copied: it starts at 0 and is advanced by `update_uid_counter` for every explicit ID. -/
def ofComplex (s : HG) (attr : Attrs := []) (h : Hints := {}) : HG × Outcome :=
  let t := (clear HG.empty true).1
  let r := andThen (addNodesFrom t (nodeItems s) [])
    (fun t => addSimplicesFrom t .f4 (edgeItems s) none [] h)
  ({ r.1 with net := s.net.update attr }, r.2)

end SC
end Xgi
