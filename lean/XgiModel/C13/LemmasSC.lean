/-
  C13 helper lemmas, part 2: well-formed complexes — sorted vertex lists are canonical, faces are found,
  and the entry of the boundary matrix in closed form (`entry_eq`).
-/
import XgiModel.C13.LemmasList

open Finset

namespace Xgi.C13

/-- the reference orientation of a simplex: its vertices sorted by the code's key -/
def ss (p : PyId × List Atom) : List Atom := sortMembers p.2

/-- (id, sorted vertex list) of the simplices labelling the rows of `boundary s k o`, in row order
    (for k = 1 the rows are the nodes) -/
def rowSimp (s : SC) : Nat → List (PyId × List Atom)
  | 0 => []
  | 1 => s.nodes.map (fun a => (PyId.atom a, [a]))
  | n + 2 => (s.ofOrder ((n + 1 : Nat) : Int)).map (fun p => (p.1, ss p))

/-- (id, sorted vertex list) of the simplices labelling the columns of `boundary s k o` (k ≥ 1) -/
def colSimp (s : SC) (k : Nat) : List (PyId × List Atom) := (s.ofOrder (k : Int)).map (fun p => (p.1, ss p))

/-- orientation of a row simplex: nodes carry none -/
def rowOr (o : PyId → Nat) (k : Nat) (i : PyId) : Nat := if k = 1 then 0 else o i

variable {s : SC}

theorem mem_ofOrder {p : PyId × List Atom} {k : Int} : p ∈ s.ofOrder k ↔ p ∈ s.simplices ∧ order p = k := by
  simp [SC.ofOrder]

theorem length_of_order {p : PyId × List Atom} {k : Nat} (h : order p = (k : Int)) : p.2.length = k + 1 := by
  unfold order at h; omega

theorem downIds_one : downIds s 1 = (rowSimp s 1).map (·.1) := by
  simp [downIds, rowSimp, Function.comp_def]
theorem downIds_succ (n : Nat) : downIds s (n + 2) = (rowSimp s (n + 2)).map (·.1) := by
  have : ((n + 2 : Nat) : Int) - 1 = ((n + 1 : Nat) : Int) := by push_cast; ring
  unfold downIds rowSimp
  rw [if_neg (by omega), this]
  simp [Function.comp_def]
theorem downIds_eq (n : Nat) : downIds s (n + 1) = (rowSimp s (n + 1)).map (·.1) := by
  cases n with
  | zero => exact downIds_one
  | succ n => exact downIds_succ n
theorem downIds_zero (h : WF s) : downIds s 0 = [] := by
  unfold downIds
  rw [if_neg (by omega)]
  have : s.ofOrder (((0 : Nat) : Int) - 1) = [] := by
    simp only [SC.ofOrder, List.filter_eq_nil_iff]
    intro p hp
    have := h.nonempty p hp
    have : p.2.length ≠ 0 := by simpa using this
    simp [order]; omega
  rw [this]; rfl
theorem upIds_succ (n : Nat) : upIds s (n + 1) = (colSimp s (n + 1)).map (·.1) := by
  simp [upIds, colSimp, Function.comp_def]
theorem rowSimp_succ (n : Nat) : rowSimp s (n + 2) = colSimp s (n + 1) := rfl

theorem ss_nodup (h : WF s) {p} (hp : p ∈ s.simplices) : (ss p).Nodup := nodup_sort (h.memNodup p hp)
theorem ss_sorted (p : PyId × List Atom) : Sorted (ss p) := sort_sorted _
@[simp] theorem mem_ss {p : PyId × List Atom} {a : Atom} : a ∈ ss p ↔ a ∈ p.2 := mem_sort
@[simp] theorem length_ss (p : PyId × List Atom) : (ss p).length = p.2.length := length_sort _

theorem ss_inj (h : WF s) {p q} (hp : p ∈ s.simplices) (hq : q ∈ s.simplices) (e : ss p = ss q) : p = q := by
  apply h.distinct p hp q hq
  · intro a ha; have : a ∈ ss p := mem_ss.mpr ha; rw [e] at this; exact mem_ss.mp this
  · intro a ha; have : a ∈ ss q := mem_ss.mpr ha; rw [← e] at this; exact mem_ss.mp this

theorem eq_of_fst_eq (h : WF s) {p q} (hp : p ∈ s.simplices) (hq : q ∈ s.simplices) (e : p.1 = q.1) : p = q :=
  List.inj_on_of_nodup_map h.idsNodup hp hq e

theorem simplices_nodup (h : WF s) : s.simplices.Nodup := List.Nodup.of_map _ h.idsNodup

theorem ofOrder_nodup (h : WF s) (k : Int) : (s.ofOrder k).Nodup :=
  (simplices_nodup h).sublist List.filter_sublist

theorem ofOrder_ss_nodup (h : WF s) (k : Int) : ((s.ofOrder k).map ss).Nodup :=
  List.Nodup.map_on (fun x hx y hy e => ss_inj h (mem_ofOrder.mp hx).1 (mem_ofOrder.mp hy).1 e) (ofOrder_nodup h k)

/-- downward closure in terms of sorted vertex lists -/
theorem face_exists (h : WF s) {p} (hp : p ∈ s.simplices) (h3 : 3 ≤ p.2.length) {t : Nat} (ht : t < p.2.length) :
    ∃ q ∈ s.simplices, ss q = (ss p).eraseIdx t ∧ q.2.length + 1 = p.2.length := by
  have htl : t < (ss p).length := by simpa using ht
  obtain ⟨q, hq, h1, h2⟩ := h.closed p hp h3 ((ss p)[t]) (mem_ss.mp (List.getElem_mem htl))
  have e : ss q = (ss p).eraseIdx t := by
    apply sorted_unique (ss_nodup h hq) (nodup_eraseIdx (ss_nodup h hp) t) _ (ss_sorted q) (sorted_eraseIdx (ss_sorted p) t)
    intro a
    rw [mem_eraseIdx_nodup (ss_nodup h hp) htl, mem_ss, mem_ss]
    constructor
    · intro ha; exact h1 a ha
    · rintro ⟨ha, hne⟩
      rcases h2 a ha with h | h
      · exact absurd h hne
      · exact h
  refine ⟨q, hq, e, ?_⟩
  have := congrArg List.length e
  simp [List.length_eraseIdx, ht] at this
  omega

theorem sameSet_iff {q : PyId × List Atom} (hq : q.2.Nodup) {face : List Atom} (hf : face.Nodup) (sf : Sorted face) :
    sameSet q.2 face = true ↔ ss q = face := by
  simp only [sameSet, Bool.and_eq_true, List.all_eq_true, decide_eq_true_eq]
  constructor
  · rintro ⟨h1, h2⟩
    exact sorted_unique (nodup_sort hq) hf (fun x => by rw [mem_sort]; exact ⟨h1 x, h2 x⟩ : ∀ x, x ∈ sortMembers q.2 ↔ x ∈ face) (sort_sorted _) sf
  · intro e; subst e
    exact ⟨fun x hx => mem_ss.mpr hx, fun x hx => mem_ss.mp hx⟩

/-- `list(S.edges)[S.edges.members().index(frozenset(face))]` finds the simplex whose sorted vertex list is `face` -/
theorem faceId?_eq (h : WF s) {q} (hq : q ∈ s.simplices) {face : List Atom} (e : ss q = face) :
    faceId? s face = some q.1 := by
  have hf : face.Nodup := e ▸ ss_nodup h hq
  have sf : Sorted face := e ▸ ss_sorted q
  have hs : sameSet q.2 face = true := (sameSet_iff (h.memNodup q hq) hf sf).mpr e
  unfold faceId?
  cases hfind : s.simplices.find? (fun p => sameSet p.2 face) with
  | none =>
    have := List.find?_eq_none.mp hfind q hq
    simp [hs] at this
  | some p' =>
    have hp' := List.mem_of_find?_eq_some hfind
    have hs' : sameSet p'.2 face = true := List.find?_some (p := fun (p : PyId × List Atom) => sameSet p.2 face) hfind
    have h2 : ss p' = face := (sameSet_iff (h.memNodup p' hp') hf sf).mp hs'
    have : p' = q := ss_inj h hp' hq (h2.trans e.symm)
    simp [this]

/-- `simplices_d_dict[q.id]` is the position of `q` among the simplices of its order -/
theorem idxOf_ofOrder (h : WF s) {k : Int} {q} (hq : q ∈ s.ofOrder k) :
    ∃ m, ∃ hm : m < (s.ofOrder k).length, (s.ofOrder k)[m] = q ∧ idxOf? ((s.ofOrder k).map (·.1)) q.1 = some m := by
  have hmem : q.1 ∈ (s.ofOrder k).map (·.1) := List.mem_map_of_mem hq
  have hlt := List.idxOf_lt_length_iff.mpr hmem
  have hm : List.idxOf q.1 ((s.ofOrder k).map (·.1)) < (s.ofOrder k).length := by simpa using hlt
  refine ⟨_, hm, ?_, ?_⟩
  · apply eq_of_fst_eq h (mem_ofOrder.mp (List.getElem_mem hm)).1 (mem_ofOrder.mp hq).1
    have := List.getElem_idxOf hlt
    rw [List.getElem_map] at this
    exact this
  · simp [idxOf?, hmem]

theorem idxOf_nodes (h : WF s) {a : Atom} (ha : a ∈ s.nodes) :
    ∃ m, ∃ hm : m < s.nodes.length, s.nodes[m] = a ∧ idxOf? (s.nodes.map PyId.atom) (.atom a) = some m := by
  have hmem : PyId.atom a ∈ s.nodes.map PyId.atom := List.mem_map_of_mem ha
  have hlt := List.idxOf_lt_length_iff.mpr hmem
  have hm : List.idxOf (PyId.atom a) (s.nodes.map PyId.atom) < s.nodes.length := by simpa using hlt
  refine ⟨_, hm, ?_, ?_⟩
  · have := List.getElem_idxOf hlt
    rw [List.getElem_map] at this
    exact PyId.atom.inj this
  · simp [idxOf?, hmem]

/-! ### unfolding `boundary` inside its dimensions -/

theorem boundary_r (k : Nat) (o : PyId → Nat) : (boundary s k o).r = (downIds s k).length := rfl
theorem boundary_c (k : Nat) (o : PyId → Nat) : (boundary s k o).c = (upIds s k).length := rfl

theorem boundary_e (o : PyId → Nat) (n : Nat) {i j : Nat} (hi : i < (downIds s (n + 1)).length)
    (hj : j < (s.ofOrder ((n + 1 : Nat) : Int)).length) :
    (boundary s (n + 1) o).e i j = colFn (writes s (n + 1) o (downIds s (n + 1)) (s.ofOrder ((n + 1 : Nat) : Int))[j]) i := by
  have h1 : (downIds s (n + 1)).length ≠ 0 := by omega
  have h2 : (upIds s (n + 1)).length ≠ 0 := by
    unfold upIds; rw [if_neg (by omega), List.length_map]; omega
  simp only [boundary, h1, h2, false_or, Nat.succ_ne_zero, if_false, List.getElem?_map,
    List.getElem?_eq_getElem hj, Option.map_some]

/-! ### the writes of the general branch -/

theorem gen_write (h : WF s) (o : PyId → Nat) (n : Nat) {p : PyId × List Atom} (hp : p ∈ s.simplices)
    (hl : p.2.length = n + 3) {c : Nat} (hc : c ≤ n + 2) :
    ∃ q ∈ s.ofOrder ((n + 1 : Nat) : Int), ∃ m, ∃ hm : m < (s.ofOrder ((n + 1 : Nat) : Int)).length,
      (s.ofOrder ((n + 1 : Nat) : Int))[m] = q ∧ ss q = (ss p).eraseIdx (n + 2 - c) ∧
      (writesGen s (n + 2) o ((s.ofOrder ((n + 1 : Nat) : Int)).map (·.1)) p.1 (ss p))[c]? =
        some (some (m, sgn ((o p.1 + (n + 2) - c) % 2 + o q.1))) := by
  obtain ⟨q, hq, e, hlen⟩ := face_exists h hp (by omega) (t := n + 2 - c) (by omega)
  have hqo : q ∈ s.ofOrder ((n + 1 : Nat) : Int) := mem_ofOrder.mpr ⟨hq, by unfold order; omega⟩
  obtain ⟨m, hm, hmq, hidx⟩ := idxOf_ofOrder h hqo
  refine ⟨q, hqo, m, hm, hmq, e, ?_⟩
  have hne : ss p ≠ [] := by
    intro h0; have := congrArg List.length h0; simp [hl] at this
  unfold writesGen
  rw [subfaces_zipIdx (ss p) hne]
  have hlen' : (ss p).length = n + 3 := by simp [hl]
  simp only [hlen', List.map_map, List.getElem?_map, List.getElem?_range (show c < n + 3 by omega),
    Option.map_some, Function.comp]
  rw [show n + 3 - 1 - c = n + 2 - c by omega, faceId?_eq h hq e]
  simp only [Option.bind_some, hidx, Option.map_some]

theorem gen_write_length (n : Nat) (o : PyId → Nat) (rows : List PyId) (u : PyId) {cs : List Atom} (hl : cs.length = n + 3) :
    (writesGen s (n + 2) o rows u cs).length = n + 3 := by
  have hne : cs ≠ [] := by intro h0; simp [h0] at hl
  unfold writesGen
  rw [subfaces_zipIdx cs hne]; simp [hl]

end Xgi.C13
