/-
  C13 helper lemmas, part 7: steps used by the property theorems of XgiModel/Props/C13.lean that are not themselves
  clauses of C13 (moved out of the Props file so that its theorem count is the count of property statements):
    * `entry_value`, `face_iff_subset` — used by `column_support`;
    * `boundary_one_transpose_apply`, `boundary_one_entry`, `boundary_one_transpose_apply_field` — the closed form of
      `B_1` by end-point positions, used by the kernel theorems.
-/
import XgiModel.C13.LemmasKer

open Finset

namespace Xgi.C13

variable {s : SC}

theorem boundary_r_rowSimp (n : Nat) (o : PyId → Nat) : (boundary s (n + 1) o).r = (rowSimp s (n + 1)).length := by
  rw [boundary_r, downIds_eq, List.length_map]
theorem boundary_c_colSimp (n : Nat) (o : PyId → Nat) : (boundary s (n + 1) o).c = (colSimp s (n + 1)).length := by
  rw [boundary_c, upIds_succ, List.length_map]

/-- value of an entry of `B_{n+1}`: `±1` exactly when the row simplex is the column simplex minus one vertex -/
theorem entry_value (h : WF s) (o : PyId → Nat) (n : Nat) {i j : Nat}
    (hi : i < (rowSimp s (n + 1)).length) (hj : j < (colSimp s (n + 1)).length) :
    (∃ t < n + 2, ((colSimp s (n + 1))[j].2).eraseIdx t = (rowSimp s (n + 1))[i].2 ∧
        (boundary s (n + 1) o).e i j = sgn (o (colSimp s (n + 1))[j].1 + t + rowOr o (n + 1) (rowSimp s (n + 1))[i].1)) ∨
    ((∀ t < n + 2, ((colSimp s (n + 1))[j].2).eraseIdx t ≠ (rowSimp s (n + 1))[i].2) ∧
        (boundary s (n + 1) o).e i j = 0) := by
  obtain ⟨hnd, _, hlen, _⟩ := colSimp_props h (n + 1) hj
  rw [entry_eq h o n hi hj]
  by_cases hex : ∃ t < n + 2, ((colSimp s (n + 1))[j].2).eraseIdx t = (rowSimp s (n + 1))[i].2
  · left
    obtain ⟨t, ht, het⟩ := hex
    refine ⟨t, ht, het, ?_⟩
    rw [Finset.sum_eq_single t]
    · rw [if_pos het]
    · intro b hb hne
      rw [if_neg]
      intro hb'
      exact hne (eraseIdx_inj hnd (by rw [hlen]; exact mem_range.mp hb) (by omega) (hb'.trans het.symm))
    · intro hnot; exact absurd (mem_range.mpr ht) hnot
  · right
    have hall : ∀ t < n + 2, ((colSimp s (n + 1))[j].2).eraseIdx t ≠ (rowSimp s (n + 1))[i].2 :=
      fun t ht e => hex ⟨t, ht, e⟩
    refine ⟨hall, Finset.sum_eq_zero ?_⟩
    intro t ht
    rw [if_neg (hall t (mem_range.mp ht))]

/-- for duplicate-free sorted lists of lengths n+1 and n+2: "ρ is σ with one position erased" says exactly
    that every vertex of ρ is a vertex of σ -/
theorem face_iff_subset {ρ σ : List Atom} {n : Nat} (hρ : ρ.Nodup) (sρ : Sorted ρ) (lρ : ρ.length = n + 1)
    (hσ : σ.Nodup) (sσ : Sorted σ) (lσ : σ.length = n + 2) :
    (∃ t < n + 2, σ.eraseIdx t = ρ) ↔ ∀ a ∈ ρ, a ∈ σ := by
  constructor
  · rintro ⟨t, _, rfl⟩ a ha
    exact (List.eraseIdx_sublist σ t).subset ha
  · intro hsub
    -- some vertex of σ is not in ρ
    have hx : ∃ x ∈ σ, x ∉ ρ := by
      by_contra hno
      have hsub2 : σ ⊆ ρ := fun x hx => by
        by_contra hxρ; exact hno ⟨x, hx, hxρ⟩
      have := List.Subperm.length_le (List.subperm_of_subset hσ hsub2)
      omega
    obtain ⟨x, hxσ, hxρ⟩ := hx
    obtain ⟨t, ht, rfl⟩ := List.mem_iff_getElem.mp hxσ
    refine ⟨t, by omega, ?_⟩
    -- ρ ⊆ σ.eraseIdx t, same length, hence equal as sets
    have hsub3 : ρ ⊆ σ.eraseIdx t := fun a ha => by
      rw [mem_eraseIdx_nodup hσ ht]
      exact ⟨hsub a ha, fun e => hxρ (e ▸ ha)⟩
    have hlen : (σ.eraseIdx t).length = ρ.length := by rw [List.length_eraseIdx, if_pos ht]; omega
    have hperm : ρ.Perm (σ.eraseIdx t) :=
      (List.subperm_of_subset hρ hsub3).perm_of_length_le (by omega)
    exact (sorted_unique hρ (nodup_eraseIdx hσ t) (fun a => hperm.mem_iff) sρ (sorted_eraseIdx sσ t)).symm

/-- `B_1ᵀ x` at the edge whose sorted vertex list is `[nodes[ia], nodes[ib]]` is `(-1)^o · (x ib − x ia)` -/
theorem boundary_one_transpose_apply (h : WF s) (o : PyId → Nat) (x : Nat → Int) {m : Nat}
    (hm : m < (colSimp s (0 + 1)).length) {ia ib : Nat} (hia : ia < s.nodes.length) (hib : ib < s.nodes.length)
    (hab : (colSimp s (0 + 1))[m].2 = [s.nodes[ia], s.nodes[ib]]) :
    (boundary s (0 + 1) o).transpose.mulVec x m = sgn (o (colSimp s (0 + 1))[m].1) * (x ib - x ia) := by
  rw [mulVec_eq]
  simp only [Mat.transpose]
  rw [boundary_r_rowSimp 0 o]
  have hlen : (rowSimp s (0 + 1)).length = s.nodes.length := by simp [rowSimp]
  have hterm : ∀ i ∈ range (rowSimp s (0 + 1)).length, (boundary s (0 + 1) o).e i m * x i =
      (if i = ib then sgn (o (colSimp s (0 + 1))[m].1) * x i else 0) +
      (if i = ia then - sgn (o (colSimp s (0 + 1))[m].1) * x i else 0) := by
    intro i hi
    have hi' := mem_range.mp hi
    have hin : i < s.nodes.length := hlen ▸ hi'
    have hrow : (rowSimp s (0 + 1))[i].2 = [s.nodes[i]] := by simp [rowSimp]
    have e1 : (s.nodes[ib] = s.nodes[i]) ↔ i = ib := by
      rw [h.nodesNodup.getElem_inj_iff]; exact eq_comm
    have e2 : (s.nodes[ia] = s.nodes[i]) ↔ i = ia := by
      rw [h.nodesNodup.getElem_inj_iff]; exact eq_comm
    rw [entry_eq h o 0 hi' hm, hab, hrow]
    simp only [Finset.sum_range_succ, Finset.sum_range_zero, zero_add, List.eraseIdx_zero, List.tail_cons,
      List.eraseIdx_cons_succ, List.cons.injEq, and_true, add_zero, sgn_succ, rowOr, if_true, e1, e2]
    split_ifs <;> ring
  rw [Finset.sum_congr rfl hterm, Finset.sum_add_distrib, Finset.sum_ite_eq', Finset.sum_ite_eq']
  rw [if_pos (mem_range.mpr (hlen ▸ hib)), if_pos (mem_range.mpr (hlen ▸ hia))]
  ring

/-- entries of `B_1` in the column of the edge whose sorted vertex list is `[nodes[ia], nodes[ib]]`:
    `(-1)^o` at the head `ib`, `-(-1)^o` at the tail `ia`, zero elsewhere -/
theorem boundary_one_entry (h : WF s) (o : PyId → Nat) {m : Nat}
    (hm : m < (colSimp s (0 + 1)).length) {ia ib : Nat} (hia : ia < s.nodes.length) (hib : ib < s.nodes.length)
    (hab : (colSimp s (0 + 1))[m].2 = [s.nodes[ia], s.nodes[ib]]) {i : Nat} (hi : i < s.nodes.length) :
    (boundary s (0 + 1) o).e i m =
      sgn (o (colSimp s (0 + 1))[m].1) * ((if i = ib then 1 else 0) - (if i = ia then 1 else 0)) := by
  have key := boundary_one_transpose_apply h o (fun k => if k = i then 1 else 0) hm hia hib hab
  rw [mulVec_eq] at key
  simp only [Mat.transpose, mul_ite, mul_one, mul_zero, Finset.sum_ite_eq', mem_range] at key
  have hr : i < (boundary s (0 + 1) o).r := by rw [boundary_r_rowSimp 0 o]; simpa [rowSimp] using hi
  rw [if_pos hr] at key
  rw [key]
  simp only [eq_comm]

/-- `B_1ᵀ x` for a vector over an ordered field, at the edge `[nodes[ia], nodes[ib]]` -/
theorem boundary_one_transpose_apply_field {K : Type} [Field K] (h : WF s) (o : PyId → Nat) (x : Nat → K) {m : Nat}
    (hm : m < (colSimp s (0 + 1)).length) {ia ib : Nat} (hia : ia < s.nodes.length) (hib : ib < s.nodes.length)
    (hab : (colSimp s (0 + 1))[m].2 = [s.nodes[ia], s.nodes[ib]]) :
    (∑ i ∈ range s.nodes.length, ((boundary s (0 + 1) o).e i m : K) * x i) =
      (sgn (o (colSimp s (0 + 1))[m].1) : K) * (x ib - x ia) := by
  have hterm : ∀ i ∈ range s.nodes.length, ((boundary s (0 + 1) o).e i m : K) * x i =
      (if i = ib then (sgn (o (colSimp s (0 + 1))[m].1) : K) * x i else 0) -
      (if i = ia then (sgn (o (colSimp s (0 + 1))[m].1) : K) * x i else 0) := by
    intro i hi
    rw [boundary_one_entry h o hm hia hib hab (mem_range.mp hi)]
    push_cast
    split_ifs <;> ring
  rw [Finset.sum_congr rfl hterm, Finset.sum_sub_distrib, Finset.sum_ite_eq', Finset.sum_ite_eq',
    if_pos (mem_range.mpr hib), if_pos (mem_range.mpr hia)]
  ring

end Xgi.C13
