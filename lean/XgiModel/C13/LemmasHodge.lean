/-
  C13 helper lemmas, part 5: Gram-matrix algebra for the Hodge Laplacian (any matrices, no well-formedness).
-/
import Mathlib.Algebra.Order.BigOperators.Ring.Finset
import Mathlib.Algebra.Order.Ring.Rat
import Mathlib.Data.Rat.Cast.Defs
import XgiModel.C13.LemmasFace

open Finset

namespace Xgi.C13

/-- `xᵀ (FᵀF) x = ‖F x‖²` for `F = (f m j)` with `r` rows and `n` columns -/
theorem quad_gram {R : Type} [CommRing R] (f : Nat → Nat → R) (x : Nat → R) (n r : Nat) :
    (∑ i ∈ range n, ∑ j ∈ range n, x i * (∑ m ∈ range r, f m i * f m j) * x j) =
    ∑ m ∈ range r, (∑ j ∈ range n, f m j * x j) ^ 2 := by
  have h1 : ∀ m, (∑ j ∈ range n, f m j * x j) ^ 2 = ∑ i ∈ range n, ∑ j ∈ range n, x i * (f m i * f m j) * x j := by
    intro m
    rw [sq, Finset.sum_mul_sum]
    apply Finset.sum_congr rfl; intro i _
    apply Finset.sum_congr rfl; intro j _
    ring
  simp_rw [h1]
  symm
  rw [Finset.sum_comm]
  apply Finset.sum_congr rfl; intro i _
  rw [Finset.sum_comm]
  apply Finset.sum_congr rfl; intro j _
  rw [Finset.mul_sum, Finset.sum_mul]

/-- entries of the Hodge Laplacian as Finset sums -/
theorem hodge_e (s : SC) (k : Nat) (o : PyId → Nat) (i j : Nat) :
    (hodge s k o).e i j =
      (∑ m ∈ range (boundary s k o).r, (boundary s k o).e m i * (boundary s k o).e m j) +
      (∑ m ∈ range (boundary s (k + 1) o).c, (boundary s (k + 1) o).e i m * (boundary s (k + 1) o).e j m) := by
  simp only [hodge, Mat.memo_eq, Mat.add, Mat.mul, Mat.transpose, list_sum_range]

theorem mulVec_eq (m : Mat) (x : Nat → Int) (i : Nat) : m.mulVec x i = ∑ j ∈ range m.c, m.e i j * x j := by
  simp only [Mat.mulVec, list_sum_range]

theorem hodge_r (s : SC) (k : Nat) (o : PyId → Nat) : (hodge s k o).r = (boundary s k o).c := by
  simp only [hodge, Mat.memo_eq]; rfl
theorem hodge_c (s : SC) (k : Nat) (o : PyId → Nat) : (hodge s k o).c = (boundary s k o).c := by
  simp only [hodge, Mat.memo_eq]; rfl

end Xgi.C13
