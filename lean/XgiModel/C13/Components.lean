/-
  C13 model, part 2: the number of connected components of the 1-skeleton of a complex, as an executable
  function (the count that `dim ker L_0` is compared with).  No Mathlib.

  There is no xgi code to mirror here (the property speaks of "the number of connected components"); the count is
  computed by merging classes edge by edge: every node starts as its own representative, and an edge `{a, b}`
  redirects everything represented by `rep b` to `rep a`.  `XgiModel/C13/LemmasKer.lean` proves that two nodes end
  with the same representative exactly when they are joined by a path of 1-simplices, and that `nComponents` is the
  number of such classes; the harness compares the count with its own union-find over all simplices and with
  `xgi.number_connected_components`.
-/
import XgiModel.C13.Hodge

namespace Xgi.C13

/-- `a` and `b` are the two vertices of a 1-simplex -/
def Adj (s : SC) (a b : Atom) : Prop := a ≠ b ∧ ∃ p ∈ s.simplices, p.2.length = 2 ∧ a ∈ p.2 ∧ b ∈ p.2

/-- the 1-simplices as vertex pairs (in the listing order of the members) -/
def edgePairs (s : SC) : List (Atom × Atom) :=
  s.simplices.filterMap (fun p => match p.2 with
    | [a, b] => some (a, b)
    | _ => none)

/-- process one edge: whatever was represented by `rep e.2` is now represented by `rep e.1` -/
def merge (rep : Atom → Atom) (e : Atom × Atom) : Atom → Atom :=
  let ra := rep e.1
  let rb := rep e.2
  fun c => let rc := rep c; if rc = rb then ra else rc

/-- representative of every vertex after all edges are processed -/
def labels : List (Atom × Atom) → Atom → Atom
  | [] => id
  | e :: es => merge (labels es) e

/-- number of connected components of the 1-skeleton: distinct representatives among the nodes -/
def nComponents (s : SC) : Nat := (dedup (s.nodes.map (labels (edgePairs s)))).length

end Xgi.C13
