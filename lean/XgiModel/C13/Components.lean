/-
  C13 model, part 2: the number of connected components of the 1-skeleton of a complex, as an executable
  function (the count that `dim ker L_0` is compared with).  No Mathlib.

  There is no xgi code to mirror here (the property speaks of "the number of connected components"); the count is
  computed by merging classes edge by edge: every vertex starts as its own representative, and an edge `{a, b}`
  redirects everything represented by `rep b` to `rep a`.

  Two descriptions of that merging:
    * `labels` — the specification: the representative as a function `Atom → Atom` (`merge` composes one more
      edge).  It is what `XgiModel/C13/LemmasKer.lean` reasons about (`labels_spec`: same representative ⇔ joined by
      a path of listed edges).  It is NOT run: as compiled code a bare function returned from a recursion re-evaluates
      the previous level three times per lookup, i.e. 3^(#edges) steps.
    * `labelTab` — what the driver runs: the same merging on an explicit association list `vertex ↦ representative`
      (one `List.map` over the table per edge: #vertices × #edges steps).  `labelTab_eq` (below, no Mathlib needed)
      proves that the table is exactly `labels` tabulated on its domain, and `nComponents_eq_spec` that the count
      `nComponents` read off the table is the count `nComponentsSpec` read off `labels`, for every `SC` (no hypothesis).
  `XgiModel/C13/LemmasKer.lean` proves that `nComponents` is the number of classes of "joined by a path of
  1-simplices"; the harness compares the count with its own union-find over all simplices and with
  `xgi.number_connected_components`.
-/
import XgiModel.C13.Hodge

namespace Xgi.C13

/-- `a` and `b` are the two vertices of a 1-simplex -/
def Adj (s : SC) (a b : Atom) : Prop := a ≠ b ∧ ∃ p ∈ s.simplices, p.2.length = 2 ∧ a ∈ p.2 ∧ b ∈ p.2

/-- the 1-simplices as vertex pairs (in the listing order of the members) -/
def edgePairs (s : SC) : List (Atom × Atom) :=
  s.simplices.filterMap (fun p => match p.2 with
    | [a, b] => some (a, b)
    | _ => none)

/-! ### specification: representatives as a function -/

/-- process one edge: whatever was represented by `rep e.2` is now represented by `rep e.1` -/
def merge (rep : Atom → Atom) (e : Atom × Atom) : Atom → Atom :=
  let ra := rep e.1
  let rb := rep e.2
  fun c => let rc := rep c; if rc = rb then ra else rc

/-- representative of every vertex after all edges are processed (specification; see the file header) -/
def labels : List (Atom × Atom) → Atom → Atom
  | [] => id
  | e :: es => merge (labels es) e

/-- the count read off the specification -/
def nComponentsSpec (s : SC) : Nat := (dedup (s.nodes.map (labels (edgePairs s)))).length

/-! ### executable: representatives as a table -/

/-- `tab[c]`, a vertex without an entry represents itself -/
def look (tab : List (Atom × Atom)) (c : Atom) : Atom :=
  match tab.find? (fun p => p.1 = c) with
  | some p => p.2
  | none => c

/-- process one edge on the table: entries equal to `tab[e.2]` become `tab[e.1]` -/
def mergeTab (tab : List (Atom × Atom)) (e : Atom × Atom) : List (Atom × Atom) :=
  let ra := look tab e.1
  let rb := look tab e.2
  tab.map (fun p => (p.1, if p.2 = rb then ra else p.2))

/-- the table `vertex ↦ representative` over the vertices `dom` after all edges are processed -/
def labelTab (dom : List Atom) : List (Atom × Atom) → List (Atom × Atom)
  | [] => dom.map (fun c => (c, c))
  | e :: es => mergeTab (labelTab dom es) e

/-- every end point of a listed edge -/
def endPoints (es : List (Atom × Atom)) : List Atom := es.flatMap (fun e => [e.1, e.2])

/-- the table the driver builds: over the nodes followed by the end points of the edges (on a well-formed complex
    these are nodes anyway), so that the entries of the nodes are the first `#nodes` ones -/
def repTab (s : SC) : List (Atom × Atom) :=
  let es := edgePairs s
  labelTab (s.nodes ++ endPoints es) es

/-- number of connected components of the 1-skeleton: distinct representatives among the nodes -/
def nComponents (s : SC) : Nat := (dedup (((repTab s).take s.nodes.length).map (·.2))).length

/-! ### the table is the specification, tabulated -/

theorem look_map (f : Atom → Atom) (dom : List Atom) {c : Atom} (hc : c ∈ dom) :
    look (dom.map (fun x => (x, f x))) c = f c := by
  induction dom with
  | nil => cases hc
  | cons d ds ih =>
    unfold look
    by_cases hd : d = c
    · subst hd; simp
    · have hc' : c ∈ ds := by
        cases hc with
        | head => exact absurd rfl hd
        | tail _ h => exact h
      have := ih hc'
      unfold look at this
      simpa [List.find?_cons, hd] using this

theorem mem_endPoints {es : List (Atom × Atom)} {e : Atom × Atom} (h : e ∈ es) :
    e.1 ∈ endPoints es ∧ e.2 ∈ endPoints es := by
  unfold endPoints
  constructor <;> exact List.mem_flatMap.mpr ⟨e, h, by simp⟩

theorem labelTab_eq (dom : List Atom) (es : List (Atom × Atom)) (h : ∀ e ∈ es, e.1 ∈ dom ∧ e.2 ∈ dom) :
    labelTab dom es = dom.map (fun c => (c, labels es c)) := by
  induction es with
  | nil => simp [labelTab, labels]
  | cons e es ih =>
    have ih := ih (fun e' he' => h e' (List.mem_cons_of_mem _ he'))
    obtain ⟨h1, h2⟩ := h e List.mem_cons_self
    simp only [labelTab, mergeTab, ih, look_map (labels es) dom h1, look_map (labels es) dom h2, List.map_map]
    apply List.map_congr_left
    intro c _
    simp [labels, merge]

theorem repTab_eq (s : SC) :
    repTab s = (s.nodes ++ endPoints (edgePairs s)).map (fun c => (c, labels (edgePairs s) c)) :=
  labelTab_eq _ _ (fun _ he => ⟨List.mem_append_right _ (mem_endPoints he).1,
    List.mem_append_right _ (mem_endPoints he).2⟩)

/-- the table entry of a node is its specified representative -/
theorem look_repTab (s : SC) {a : Atom} (ha : a ∈ s.nodes) : look (repTab s) a = labels (edgePairs s) a := by
  rw [repTab_eq, look_map _ _ (List.mem_append_left _ ha)]

/-- **the executable count is the specified count**, for every complex -/
theorem nComponents_eq_spec (s : SC) : nComponents s = nComponentsSpec s := by
  unfold nComponents nComponentsSpec
  rw [repTab_eq, List.map_append, List.take_left' (by simp), List.map_map]
  rfl

end Xgi.C13
