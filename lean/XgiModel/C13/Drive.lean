/-
  C13 driver: JSON request → `boundary` / `hodge` of XgiModel/C13/Hodge.lean → JSON.
  request  {"f":"boundary_matrix"|"hodge_laplacian", "nodes":[ids], "simplices":[[id,[members]],…] (view order),
            "order":k, "orient": null | [[id, 0|1|…],…]}
  response {"out":"ok","wf":bool,"shape":[r,c],"rows":[ids],"cols":[ids],"M":[[…]]}   (boundary_matrix)
           {"out":"ok","wf":bool,"shape":[n,n],"keys":[ids],"M":[[…]]}               (hodge_laplacian)
             for order 0 additionally "ncomp": `nComponents s` (XgiModel/C13/Components.lean), the number of connected
             components of the 1-skeleton, which `ker_L0_finrank` proves to be dim ker L_0
           {"out":"err"}         a lookup of the Python loops fails (the call raises)
           {"out":"unmodelled"}  labels that are not int/str, orientation dict not covering every simplex of order ≥ 1,
                                 a negative orientation value
           {"out":"bad-op"}      ill-typed request (unknown "f", missing field, non-integer orientation value)
-/
import XgiModel.Proto
import XgiModel.C13.Hodge
import XgiModel.C13.Components
open Lean Xgi.Proto

namespace Xgi.C13.Drive

def atomOf? : PyId → Option Atom
  | .atom a => some a
  | _ => none

inductive Parsed (α : Type) where
  | bad | unmodelled | ok (a : α)

def scOfJson (j : Json) : Parsed SC :=
  match getIds? j "nodes", getArr? j "simplices" with
  | some ns, some ss =>
    match ss.mapM (fun p => match p with
        | .arr #[i, ms] => do pure ((← idOfJson? i), (← idsOfJson? ms))
        | _ => none) with
    | none => .bad
    | some ss =>
      match ns.mapM atomOf?, ss.mapM (fun p => (p.2.mapM atomOf?).map (fun ms => (p.1, ms))) with
      | some ns, some ss => .ok { nodes := ns, simplices := ss }
      | _, _ => .unmodelled
  | _, _ => .bad

/-- `.bad` = ill-typed; `.unmodelled` = a negative value (the model's orientations are naturals; xgi documents
    boolean orientations); `.ok none` = `orientations=None`; `.ok (some d)` = a dict -/
def orientOfJson (j : Json) : Parsed (Option (List (PyId × Nat))) :=
  match getField? j "orient" with
  | some .null => .ok none
  | some (.arr a) =>
    match a.toList.mapM (fun (p : Json) => match p with
      | Json.arr #[i, Json.num n] => if n.exponent = 0 then (idOfJson? i).map (fun i => (i, n.mantissa)) else none
      | _ => none) with
    | none => .bad
    | some l =>
      if l.all (fun p => decide (p.2 ≥ 0)) then .ok (some (l.map (fun p => (p.1, p.2.toNat)))) else .unmodelled
  | _ => .bad

def matJson (m : Mat) : List (String × Json) :=
  [("shape", Json.arr #[natJson m.r, natJson m.c]),
   ("M", Json.arr (m.toLists.map (fun row => Json.arr (row.map intJson).toArray)).toArray)]

/-- driver state: the complex of the previous request and the decision `WF` for it (the harness sends the requests of
    one complex consecutively — every order, both functions — and `decide (WF s)` is the same for all of them) -/
abbrev St := Option (SC × Bool)

def wfOf (st : St) (s : SC) : Bool :=
  match st with
  | some (s', b) => if s'.nodes = s.nodes ∧ s'.simplices = s.simplices then b else decide (WF s)
  | none => decide (WF s)

def handle (st : St) (j : Json) : St × Json :=
  match getStr? j "f", getNat? j "order" with
  | some f, some k =>
    if f ≠ "boundary_matrix" ∧ f ≠ "hodge_laplacian" then (st, badOp) else
    match scOfJson j, orientOfJson j with
    | .bad, _ => (st, badOp)
    | _, .bad => (st, badOp)
    | .unmodelled, _ => (st, Json.mkObj [("out", "unmodelled")])
    | _, .unmodelled => (st, Json.mkObj [("out", "unmodelled")])
    | .ok s, .ok od =>
      let d := od.getD (defaultOrient s)
      if !orientCovers d s then (st, Json.mkObj [("out", "unmodelled")]) else
      let o := orientOf d
      let b := wfOf st s
      let st' : St := some (s, b)
      let wf : String × Json := ("wf", Json.bool b)
      let ok : String × Json := ("out", Json.str "ok")
      (st', if f = "boundary_matrix" then
        if !boundaryDefined s k o then Json.mkObj [("out", "err")] else
        Json.mkObj ([ok, wf, ("rows", idsToJson (downIds s k)), ("cols", idsToJson (upIds s k))]
          ++ matJson (boundary s k o))
      else
        if !hodgeDefined s k o then Json.mkObj [("out", "err")] else
        Json.mkObj ([ok, wf, ("keys", idsToJson (upIds s k))] ++ matJson (hodge s k o)
          ++ (if k = 0 then [("ncomp", natJson (nComponents s))] else [])))
  | _, _ => (st, badOp)

end Xgi.C13.Drive
