/-
  C13 helper lemmas, part 4: rows and columns as sorted vertex lists; every face of a column simplex labels
  exactly one row; value of an entry.
-/
import XgiModel.C13.LemmasEntry

open Finset

namespace Xgi.C13

variable {s : SC}

theorem colSimp_props (h : WF s) (k : Nat) {j : Nat} (hj : j < (colSimp s k).length) :
    ((colSimp s k)[j].2).Nodup ∧ Sorted (colSimp s k)[j].2 ∧ ((colSimp s k)[j].2).length = k + 1 ∧
    ∃ p ∈ s.simplices, p.2.length = k + 1 ∧ (colSimp s k)[j] = (p.1, ss p) := by
  have hj' : j < (s.ofOrder (k : Int)).length := by simpa [colSimp] using hj
  have hp := List.getElem_mem hj'
  obtain ⟨hps, hpo⟩ := mem_ofOrder.mp hp
  have e : (colSimp s k)[j] = ((s.ofOrder (k : Int))[j].1, ss (s.ofOrder (k : Int))[j]) := by
    simp [colSimp]
  rw [e]
  exact ⟨ss_nodup h hps, ss_sorted _, by rw [length_ss]; exact length_of_order hpo, _, hps, length_of_order hpo, rfl⟩

theorem rowSimp_props (h : WF s) (n : Nat) {i : Nat} (hi : i < (rowSimp s (n + 1)).length) :
    ((rowSimp s (n + 1))[i].2).Nodup ∧ Sorted (rowSimp s (n + 1))[i].2 ∧ ((rowSimp s (n + 1))[i].2).length = n + 1 := by
  cases n with
  | zero => simp [rowSimp, Sorted]
  | succ n =>
    have := colSimp_props h (n + 1) (j := i) hi
    exact ⟨this.1, this.2.1, this.2.2.1⟩

theorem rowSimp_snd_nodup (h : WF s) (n : Nat) : ((rowSimp s (n + 1)).map (·.2)).Nodup := by
  cases n with
  | zero =>
    simp only [rowSimp, List.map_map, Function.comp_def]
    exact List.Nodup.map_on (fun x _ y _ e => by simpa using e) h.nodesNodup
  | succ n =>
    simp only [rowSimp, List.map_map, Function.comp_def]
    exact ofOrder_ss_nodup h _

/-- every codimension-one face of a column simplex labels a row -/
theorem face_row (h : WF s) (n : Nat) {j : Nat} (hj : j < (colSimp s (n + 1)).length) {t : Nat} (ht : t < n + 2) :
    ∃ m, ∃ hm : m < (rowSimp s (n + 1)).length, (rowSimp s (n + 1))[m].2 = ((colSimp s (n + 1))[j].2).eraseIdx t := by
  obtain ⟨hnd, _, hlen, p, hps, hpl, hpe⟩ := colSimp_props h (n + 1) hj
  rw [hpe] at hnd hlen ⊢
  simp only at hnd hlen ⊢
  cases n with
  | zero =>
    have hmem : (ss p)[t]'(by omega) ∈ (ss p) := List.getElem_mem _
    obtain ⟨a, b, hab⟩ := List.length_eq_two.mp hlen
    have hsub : ∀ x ∈ ss p, x ∈ s.nodes := fun x hx => h.memNodes p hps x (mem_ss.mp hx)
    rw [hab] at hsub ⊢
    have hcase : t = 0 ∨ t = 1 := by omega
    rcases hcase with rfl | rfl
    · obtain ⟨m, hm, hmb, _⟩ := idxOf_nodes h (hsub b (by simp))
      exact ⟨m, by simpa [rowSimp] using hm, by simp [rowSimp, hmb]⟩
    · obtain ⟨m, hm, hma, _⟩ := idxOf_nodes h (hsub a (by simp))
      exact ⟨m, by simpa [rowSimp] using hm, by simp [rowSimp, hma]⟩
  | succ n =>
    obtain ⟨q, hq, e, hql⟩ := face_exists h hps (by omega) (t := t) (by omega)
    have hqo : q ∈ s.ofOrder ((n + 1 : Nat) : Int) := mem_ofOrder.mpr ⟨hq, by unfold order; omega⟩
    obtain ⟨m, hm, hmq, _⟩ := idxOf_ofOrder h hqo
    refine ⟨m, by simpa [rowSimp] using hm, ?_⟩
    simp only [rowSimp, List.getElem_map, hmq]
    exact e

/-! ### total accessors (so that sums over all indices can mention them) -/

def rowL (s : SC) (k m : Nat) : List Atom := ((rowSimp s k)[m]?.map (·.2)).getD []
def rowI (s : SC) (k m : Nat) : PyId := ((rowSimp s k)[m]?.map (·.1)).getD .none
def colL (s : SC) (k m : Nat) : List Atom := ((colSimp s k)[m]?.map (·.2)).getD []
def colI (s : SC) (k m : Nat) : PyId := ((colSimp s k)[m]?.map (·.1)).getD .none

theorem rowL_eq {k m : Nat} (hm : m < (rowSimp s k).length) : rowL s k m = (rowSimp s k)[m].2 := by
  simp [rowL, List.getElem?_eq_getElem hm]
theorem rowI_eq {k m : Nat} (hm : m < (rowSimp s k).length) : rowI s k m = (rowSimp s k)[m].1 := by
  simp [rowI, List.getElem?_eq_getElem hm]
theorem colL_eq {k m : Nat} (hm : m < (colSimp s k).length) : colL s k m = (colSimp s k)[m].2 := by
  simp [colL, List.getElem?_eq_getElem hm]
theorem colI_eq {k m : Nat} (hm : m < (colSimp s k).length) : colI s k m = (colSimp s k)[m].1 := by
  simp [colI, List.getElem?_eq_getElem hm]
theorem rowL_succ (n m : Nat) : rowL s (n + 2) m = colL s (n + 1) m := rfl
theorem rowI_succ (n m : Nat) : rowI s (n + 2) m = colI s (n + 1) m := rfl

/-- `entry_eq` with total accessors -/
theorem entry_eq' (h : WF s) (o : PyId → Nat) (n : Nat) {i j : Nat}
    (hi : i < (rowSimp s (n + 1)).length) (hj : j < (colSimp s (n + 1)).length) :
    (boundary s (n + 1) o).e i j =
      ∑ t ∈ range (n + 2), if (colL s (n + 1) j).eraseIdx t = rowL s (n + 1) i
        then sgn (o (colI s (n + 1) j) + t + rowOr o (n + 1) (rowI s (n + 1) i)) else 0 := by
  rw [entry_eq h o n hi hj, rowL_eq hi, rowI_eq hi, colL_eq hj, colI_eq hj]

/-- each face of a column simplex labels exactly one row -/
theorem face_row_count (h : WF s) (n : Nat) {j : Nat} (hj : j < (colSimp s (n + 1)).length) {t : Nat} (ht : t < n + 2) :
    (∑ m ∈ range (rowSimp s (n + 1)).length,
      if (colL s (n + 1) j).eraseIdx t = rowL s (n + 1) m then (1 : Int) else 0) = 1 := by
  obtain ⟨m0, hm0, e0⟩ := face_row h n hj ht
  rw [Finset.sum_eq_single m0]
  · rw [rowL_eq hm0, colL_eq hj, if_pos e0.symm]
  · intro b hb hne
    have hb' : b < (rowSimp s (n + 1)).length := mem_range.mp hb
    rw [if_neg]
    intro e
    rw [rowL_eq hb', colL_eq hj, ← e0] at e
    apply hne
    have hnd := rowSimp_snd_nodup h n
    have := (hnd.getElem_inj_iff (i := b) (j := m0) (hi := by simpa using hb') (hj := by simpa using hm0)).mp
      (by simpa using e.symm)
    exact this
  · intro hnot; exact absurd (mem_range.mpr hm0) hnot

/-! ### the algebra of ∂∂ = 0 -/

theorem dd_sum {α : Type} [DecidableEq α] (M n : Nat) (τ : Nat → List α) (σ ρ : List α) (oi : Nat → Nat) (c0 c1 : Nat)
    (hcount : ∀ t < n + 3, (∑ m ∈ range M, if σ.eraseIdx t = τ m then (1 : Int) else 0) = 1) :
    (∑ m ∈ range M,
      (∑ t' ∈ range (n + 2), if (τ m).eraseIdx t' = ρ then sgn (oi m + t' + c0) else 0) *
      (∑ t ∈ range (n + 3), if σ.eraseIdx t = τ m then sgn (c1 + t + oi m) else 0)) = 0 := by
  have key : ∀ m t' t, (if (τ m).eraseIdx t' = ρ then sgn (oi m + t' + c0) else 0) *
      (if σ.eraseIdx t = τ m then sgn (c1 + t + oi m) else 0) =
      (if σ.eraseIdx t = τ m then (1 : Int) else 0) * (sgn (c1 + c0) * term σ ρ (t, t')) := by
    intro m t' t
    unfold term
    by_cases h1 : σ.eraseIdx t = τ m
    · simp only [h1, if_true, one_mul]
      by_cases h2 : (τ m).eraseIdx t' = ρ
      · simp only [h2, if_true, sgn_add]
        have := sgn_mul_self (oi m)
        calc sgn (oi m) * sgn t' * sgn c0 * (sgn c1 * sgn t * sgn (oi m))
            = (sgn (oi m) * sgn (oi m)) * (sgn c1 * sgn c0 * (sgn t * sgn t')) := by ring
          _ = sgn c1 * sgn c0 * (sgn t * sgn t') := by rw [this, one_mul]
      · simp [h2]
    · simp [h1]
  simp_rw [Finset.sum_mul_sum, key]
  rw [Finset.sum_comm]
  have step : ∀ t' ∈ range (n + 2), (∑ m ∈ range M, ∑ t ∈ range (n + 3),
      (if σ.eraseIdx t = τ m then (1 : Int) else 0) * (sgn (c1 + c0) * term σ ρ (t, t'))) =
      ∑ t ∈ range (n + 3), sgn (c1 + c0) * term σ ρ (t, t') := by
    intro t' _
    rw [Finset.sum_comm]
    apply Finset.sum_congr rfl
    intro t ht
    rw [← Finset.sum_mul, hcount t (mem_range.mp ht), one_mul]
  rw [Finset.sum_congr rfl step, Finset.sum_comm]
  simp_rw [← Finset.mul_sum]
  have := dd_core σ ρ (n + 1)
  rw [idx, Finset.sum_product] at this
  rw [this, mul_zero]

end Xgi.C13
