/-
  C13 helper lemmas, part 1: pure list facts (sort key order, sorted-list uniqueness, combinations order,
  last-write-wins columns, the core identity of ∂∂ = 0).
-/
import Mathlib.Data.List.Nodup
import Mathlib.Algebra.BigOperators.Group.Finset.Basic
import Mathlib.Algebra.BigOperators.Group.Finset.Sigma
import Mathlib.Algebra.BigOperators.Ring.Finset
import Mathlib.Tactic.Ring
import Mathlib.Tactic.Linarith
import XgiModel.C13.Hodge

open Finset

namespace Xgi.C13

/-! ### signs -/

theorem sgn_succ (k : Nat) : sgn (k + 1) = - sgn k := by
  unfold sgn; split <;> split <;> omega

theorem sgn_add (a b : Nat) : sgn (a + b) = sgn a * sgn b := by
  unfold sgn; split <;> split <;> split <;> simp <;> omega

theorem sgn_mod (a b : Nat) : sgn (a % 2 + b) = sgn (a + b) := by
  unfold sgn; split <;> split <;> omega

theorem sgn_mul_self (a : Nat) : sgn a * sgn a = 1 := by
  unfold sgn; split <;> simp

theorem sgn_ne_zero (a : Nat) : sgn a ≠ 0 := by
  unfold sgn; split <;> simp

theorem sgn_cases (a : Nat) : sgn a = 1 ∨ sgn a = -1 := by
  unfold sgn; split <;> simp

/-! ### the sort key is a total order on atoms -/

theorem keyLe_trans (a b c : Atom) : keyLe a b = true → keyLe b c = true → keyLe a c = true := by
  cases a <;> cases b <;> cases c <;> simp [keyLe]
  · intro h1 h2; exact Int.le_trans h1 h2
  · intro h1 h2; exact String.le_trans h1 h2

theorem keyLe_total (a b : Atom) : (keyLe a b || keyLe b a) = true := by
  cases a <;> cases b <;> simp [keyLe]
  · exact Int.le_total _ _
  · exact String.le_total _ _

theorem keyLe_antisymm (a b : Atom) : keyLe a b = true → keyLe b a = true → a = b := by
  cases a <;> cases b <;> simp [keyLe]
  · intro h1 h2; exact Int.le_antisymm h1 h2
  · intro h1 h2; exact String.le_antisymm h1 h2

abbrev Sorted (l : List Atom) : Prop := l.Pairwise (fun a b => keyLe a b = true)

theorem insertKey_perm (a : Atom) (l : List Atom) : (insertKey a l).Perm (a :: l) := by
  induction l with
  | nil => exact List.Perm.refl _
  | cons b t ih =>
    unfold insertKey
    split
    · exact List.Perm.refl _
    · exact (List.Perm.cons b ih).trans (List.Perm.swap a b t)

theorem insertKey_sorted (a : Atom) {l : List Atom} (h : Sorted l) : Sorted (insertKey a l) := by
  induction l with
  | nil => simp [insertKey, Sorted]
  | cons b t ih =>
    unfold insertKey
    have hb := List.pairwise_cons.mp h
    split
    · rename_i hab
      refine List.pairwise_cons.mpr ⟨?_, h⟩
      intro x hx
      rcases List.mem_cons.mp hx with rfl | hx
      · exact hab
      · exact keyLe_trans a b x hab (hb.1 x hx)
    · rename_i hab
      have hba : keyLe b a = true := by
        have := keyLe_total a b
        simp only [Bool.or_eq_true] at this
        rcases this with h1 | h1
        · exact absurd h1 hab
        · exact h1
      refine List.pairwise_cons.mpr ⟨?_, ih hb.2⟩
      intro x hx
      rcases List.mem_cons.mp ((insertKey_perm a t).mem_iff.mp hx) with rfl | hx
      · exact hba
      · exact hb.1 x hx

theorem sort_perm (l : List Atom) : (sortMembers l).Perm l := by
  induction l with
  | nil => exact List.Perm.refl _
  | cons a t ih => exact (insertKey_perm a _).trans (List.Perm.cons a ih)
theorem sort_sorted (l : List Atom) : Sorted (sortMembers l) := by
  induction l with
  | nil => simp [sortMembers, Sorted]
  | cons a t ih => exact insertKey_sorted a ih
@[simp] theorem mem_sort {l : List Atom} {a : Atom} : a ∈ sortMembers l ↔ a ∈ l := (sort_perm l).mem_iff
@[simp] theorem length_sort (l : List Atom) : (sortMembers l).length = l.length := (sort_perm l).length_eq
theorem nodup_sort {l : List Atom} (h : l.Nodup) : (sortMembers l).Nodup := (sort_perm l).nodup_iff.mpr h

/-- a duplicate-free sorted list is determined by its set of elements -/
theorem sorted_unique {a b : List Atom} (ha : a.Nodup) (hb : b.Nodup) (hm : ∀ x, x ∈ a ↔ x ∈ b)
    (sa : Sorted a) (sb : Sorted b) : a = b :=
  List.Perm.eq_of_pairwise (fun x y _ _ h1 h2 => keyLe_antisymm x y h1 h2) sa sb
    ((List.perm_ext_iff_of_nodup ha hb).mpr hm)

theorem sorted_eraseIdx {l : List Atom} (h : Sorted l) (t : Nat) : Sorted (l.eraseIdx t) :=
  List.Pairwise.sublist (List.eraseIdx_sublist l t) h
theorem nodup_eraseIdx {α} {l : List α} (h : l.Nodup) (t : Nat) : (l.eraseIdx t).Nodup :=
  List.Nodup.sublist (List.eraseIdx_sublist l t) h

theorem mem_eraseIdx_nodup {α} [DecidableEq α] {l : List α} (h : l.Nodup) {t : Nat} (ht : t < l.length) (a : α) :
    a ∈ l.eraseIdx t ↔ a ∈ l ∧ a ≠ l[t] := by
  rw [← h.erase_getElem t ht, h.mem_erase_iff]; tauto

/-- on a duplicate-free list, erasing different positions gives different lists -/
theorem eraseIdx_inj {α} [DecidableEq α] {l : List α} (h : l.Nodup) {t u : Nat} (ht : t < l.length) (hu : u < l.length)
    (e : l.eraseIdx t = l.eraseIdx u) : t = u := by
  by_contra hne
  have h1 : l[t] ∈ l.eraseIdx u := by
    rw [mem_eraseIdx_nodup h hu]
    exact ⟨List.getElem_mem ht, fun e2 => hne ((h.getElem_inj_iff).mp e2)⟩
  rw [← e, mem_eraseIdx_nodup h ht] at h1
  exact h1.2 rfl

/-! ### `itertools.combinations(l, len(l) - 1)` erases positions from the back -/

theorem combs_length_self {α : Type} (l : List α) : combs l l.length = [l] := by
  induction l with
  | nil => rfl
  | cons a t ih =>
    have h2 : ∀ (t : List α) (r : Nat), t.length < r → combs t r = [] := by
      intro t; induction t with
      | nil => intro r hr; cases r with
        | zero => simp at hr
        | succ r => rfl
      | cons b u ihu => intro r hr; cases r with
        | zero => simp at hr
        | succ r =>
          simp only [combs, List.length_cons] at hr ⊢
          rw [ihu r (by omega), ihu (r + 1) (by omega)]; rfl
    simp only [List.length_cons, combs, ih, h2 t (t.length + 1) (by omega)]; rfl

theorem subfaces_eq (l : List Atom) (hl : l ≠ []) :
    subfaces l = (List.range l.length).map (fun i => l.eraseIdx (l.length - 1 - i)) := by
  unfold subfaces
  induction l with
  | nil => exact absurd rfl hl
  | cons a t ih =>
    cases t with
    | nil => rfl
    | cons b u =>
      have ih' := ih (by simp)
      simp only [List.length_cons, Nat.add_sub_cancel] at ih' ⊢
      rw [show u.length + 1 = (u.length) + 1 from rfl, combs]
      rw [ih']
      have hs := combs_length_self (b :: u)
      simp only [List.length_cons] at hs
      rw [hs, List.range_succ (n := u.length + 1), List.map_append, List.map_map]
      congr 1
      · apply List.map_congr_left
        intro i hi
        simp only [List.mem_range] at hi
        simp only [Function.comp]
        rw [show u.length + 1 - i = (u.length - i) + 1 by omega]
        rfl
      · simp

theorem subfaces_zipIdx (l : List Atom) (hl : l ≠ []) :
    (subfaces l).zipIdx = (List.range l.length).map (fun i => (l.eraseIdx (l.length - 1 - i), i)) := by
  rw [subfaces_eq l hl]
  apply List.ext_getElem
  · simp
  · intro i h1 h2
    simp at h1 h2 ⊢

/-! ### columns: the last write to a cell wins -/

theorem colFn_fold (ws : List (Option (Nat × Int))) (r : Nat) (v0 : Int) (f : Nat → Int)
    (agree : ∀ v, some (r, v) ∈ ws → v = v0) (h : (∃ v, some (r, v) ∈ ws) ∨ f r = v0) :
    (ws.foldl (fun f w => match w with
      | some (r, v) => upd f r v
      | none => f) f) r = v0 := by
  induction ws generalizing f with
  | nil => rcases h with ⟨v, hv⟩ | h
           · simp at hv
           · simpa using h
  | cons w ws ih =>
    simp only [List.foldl_cons]
    apply ih
    · intro v hv; exact agree v (List.mem_cons_of_mem _ hv)
    · rcases w with _ | ⟨r', v'⟩
      · rcases h with ⟨v, hv⟩ | h
        · left; simp at hv; exact ⟨v, hv⟩
        · right; exact h
      · by_cases hr : r' = r
        · subst hr
          right
          have := agree v' (by simp)
          simp [upd, this]
        · rcases h with ⟨v, hv⟩ | h
          · left
            simp only [List.mem_cons, Option.some.injEq, Prod.mk.injEq] at hv
            rcases hv with ⟨h1, _⟩ | hv
            · exact absurd h1.symm hr
            · exact ⟨v, hv⟩
          · right; simp [upd, Ne.symm hr, h]

theorem colFn_of_mem {ws : List (Option (Nat × Int))} {r : Nat} {v : Int}
    (agree : ∀ v', some (r, v') ∈ ws → v' = v) (h : some (r, v) ∈ ws) : colFn ws r = v :=
  colFn_fold ws r v _ agree (Or.inl ⟨v, h⟩)

theorem colFn_of_not_mem {ws : List (Option (Nat × Int))} {r : Nat}
    (h : ∀ v, some (r, v) ∉ ws) : colFn ws r = 0 :=
  colFn_fold ws r 0 _ (fun v hv => absurd hv (h v)) (Or.inr rfl)

/-! ### list sums as Finset sums -/

theorem list_sum_range (f : Nat → Int) (n : Nat) : ((List.range n).map f).sum = ∑ i ∈ range n, f i := by
  induction n with
  | zero => simp
  | succ n ih => rw [List.sum_range_succ, Finset.sum_range_succ, ih]

/-! ### the core identity of ∂∂ = 0 (DESIGN Appendix A.8) -/

theorem eraseIdx_comm {α : Type} (l : List α) {i j : Nat} (h : i ≤ j) :
    (l.eraseIdx (j+1)).eraseIdx i = (l.eraseIdx i).eraseIdx j := by
  induction l generalizing i j with
  | nil => simp
  | cons a t ih =>
    cases i with
    | zero => cases j <;> simp [List.eraseIdx]
    | succ i =>
      cases j with
      | zero => omega
      | succ j => simp [List.eraseIdx]; exact ih (by omega)

/-- term of (∂∂σ)(ρ) indexed by (j,i) -/
def term {α : Type} [DecidableEq α] (l ρ : List α) (p : Nat × Nat) : Int :=
  if (l.eraseIdx p.1).eraseIdx p.2 = ρ then sgn (p.1 + p.2) else 0

/-- the index set: j < n+2 (faces of σ, |σ| = n+2), i < n+1 (faces of a face) -/
def idx (n : Nat) : Finset (Nat × Nat) := (range (n+2)) ×ˢ (range (n+1))

def inv (p : Nat × Nat) : Nat × Nat := if p.2 < p.1 then (p.2, p.1 - 1) else (p.2 + 1, p.1)

theorem dd_core {α : Type} [DecidableEq α] (l ρ : List α) (n : Nat) : ∑ p ∈ idx n, term l ρ p = 0 := by
  apply Finset.sum_involution (fun p _ => inv p)
  · -- cancel
    rintro ⟨j, i⟩ hp
    simp only [idx, mem_product, mem_range] at hp
    unfold inv term
    by_cases h : i < j
    · simp only [h, if_true]
      obtain ⟨j, rfl⟩ : ∃ k, j = k + 1 := ⟨j - 1, by omega⟩
      have := eraseIdx_comm l (i := i) (j := j) (by omega)
      simp only [Nat.add_sub_cancel, this]
      split
      · have : sgn (j + 1 + i) = - sgn (i + j) := by rw [show j + 1 + i = (i + j) + 1 by omega, sgn_succ]
        omega
      · simp
    · simp only [h, if_false]
      have := eraseIdx_comm l (i := j) (j := i) (by omega)
      simp only [this]
      split
      · have : sgn (i + 1 + j) = - sgn (j + i) := by rw [show i + 1 + j = (j + i) + 1 by omega, sgn_succ]
        omega
      · simp
  · -- no fixed points when term ≠ 0
    rintro ⟨j, i⟩ _ _
    unfold inv
    by_cases h : i < j <;> simp [h] <;> omega
  · -- maps into idx
    rintro ⟨j, i⟩ hp
    simp only [idx, mem_product, mem_range] at hp ⊢
    unfold inv
    by_cases h : i < j <;> simp [h] <;> omega
  · -- involutive
    rintro ⟨j, i⟩ _
    unfold inv
    by_cases h : i < j
    · have h2 : ¬ (j - 1 < i) := by omega
      simp only [h, if_true, h2, if_false]
      ext <;> simp <;> omega
    · have h2 : j < i + 1 := by omega
      simp only [h, if_false, h2, if_true]
      ext <;> simp

end Xgi.C13
