/-
  C13 helper lemmas, part 6: connected components of the 1-skeleton.
    * `Reach s` = reflexive-transitive closure of `Adj s` (two vertices of a 1-simplex);
    * `labels_spec`: the merging `labels` of `XgiModel/C13/Components.lean` (the specification that the executable
      table `repTab` is proved to tabulate: `repTab_eq`, `look_repTab`) gives two vertices the same representative
      exactly when they are joined by a path of 1-simplices;
    * `nComponents_eq_card`: the executable count `nComponents s` (read off the table; `nComponents_eq_spec`) is the
      number of reachability classes of node positions;
    * `const_on_edges_iff_const_on_reach`: a vector indexed by node positions is equal at the end points of every
      column of `B_1` exactly when it is constant on reachability classes;
    * `finrank_ker_of_const_on_classes`: a matrix whose kernel is "the vectors constant on the classes of a setoid"
      has nullity = number of classes (linear equivalence kernel ≃ functions on the quotient).
-/
import Mathlib.Logic.Relation
import Mathlib.Data.Fintype.Quotient
import Mathlib.SetTheory.Cardinal.Finite
import Mathlib.LinearAlgebra.Matrix.ToLin
import Mathlib.LinearAlgebra.Dimension.Constructions
import Mathlib.LinearAlgebra.Dimension.Free
import XgiModel.C13.Components
import XgiModel.C13.LemmasHodge

open Finset

namespace Xgi.C13

/-! ### merging classes edge by edge -/

/-- joined by an edge of the list, in either direction -/
def Link (es : List (Atom × Atom)) (x y : Atom) : Prop := (x, y) ∈ es ∨ (y, x) ∈ es

/-- joined by a path of edges of the list -/
abbrev Conn (es : List (Atom × Atom)) : Atom → Atom → Prop := Relation.ReflTransGen (Link es)

theorem link_symm {es : List (Atom × Atom)} {x y : Atom} (h : Link es x y) : Link es y x := Or.symm h

theorem conn_symm {es : List (Atom × Atom)} {x y : Atom} (h : Conn es x y) : Conn es y x := by
  induction h with
  | refl => exact Relation.ReflTransGen.refl
  | tail _ hl ih => exact Relation.ReflTransGen.head (link_symm hl) ih

theorem conn_cons {e : Atom × Atom} {es : List (Atom × Atom)} {x y : Atom} (h : Conn es x y) : Conn (e :: es) x y :=
  Relation.ReflTransGen.mono (fun _ _ hl => hl.imp (List.mem_cons_of_mem _) (List.mem_cons_of_mem _)) _ _ h

theorem conn_head (a b : Atom) (es : List (Atom × Atom)) : Conn ((a, b) :: es) a b :=
  Relation.ReflTransGen.single (Or.inl List.mem_cons_self)

theorem merge_apply (rep : Atom → Atom) (e : Atom × Atom) (c : Atom) :
    merge rep e c = if rep c = rep e.2 then rep e.1 else rep c := rfl

/-- the merged labelling identifies two vertices exactly when a path of listed edges joins them -/
theorem labels_spec (es : List (Atom × Atom)) (c d : Atom) : labels es c = labels es d ↔ Conn es c d := by
  induction es generalizing c d with
  | nil =>
    simp only [labels, id]
    constructor
    · rintro rfl; exact Relation.ReflTransGen.refl
    · intro h
      induction h with
      | refl => rfl
      | tail _ hl _ => rcases hl with hl | hl <;> simp at hl
  | cons e es ih =>
    obtain ⟨a, b⟩ := e
    constructor
    · intro h
      simp only [labels, merge_apply] at h
      have hab : Conn ((a, b) :: es) a b := conn_head a b es
      have up : ∀ {x y}, labels es x = labels es y → Conn ((a, b) :: es) x y := fun hxy => conn_cons ((ih _ _).mp hxy)
      split_ifs at h with h1 h2 h2
      · exact (up h1).trans (conn_symm (up h2))
      · exact ((up h1).trans (conn_symm hab)).trans (up h)
      · exact ((up h).trans hab).trans (conn_symm (up h2))
      · exact up h
    · intro h
      induction h with
      | refl => rfl
      | tail _ hl ihp =>
        rw [ihp]
        have key : ∀ x y, (x, y) ∈ (a, b) :: es → labels ((a, b) :: es) x = labels ((a, b) :: es) y := by
          intro x y hxy
          simp only [labels, merge_apply]
          rcases List.mem_cons.mp hxy with hxy | hxy
          · obtain ⟨rfl, rfl⟩ := Prod.mk.inj hxy
            simp
          · have : labels es x = labels es y := (ih _ _).mpr (Relation.ReflTransGen.single (Or.inl hxy))
            rw [this]
        rcases hl with hl | hl
        · exact key _ _ hl
        · exact (key _ _ hl).symm

/-! ### reachability through 1-simplices -/

/-- joined by a path of 1-simplices -/
abbrev Reach (s : SC) : Atom → Atom → Prop := Relation.ReflTransGen (Adj s)

variable {s : SC}

theorem adj_symm {a b : Atom} (h : Adj s a b) : Adj s b a := by
  obtain ⟨hne, p, hp, hl, ha, hb⟩ := h
  exact ⟨hne.symm, p, hp, hl, hb, ha⟩

theorem reach_symm {a b : Atom} (h : Reach s a b) : Reach s b a := by
  induction h with
  | refl => exact Relation.ReflTransGen.refl
  | tail _ hl ih => exact Relation.ReflTransGen.head (adj_symm hl) ih

theorem mem_edgePairs {a b : Atom} : (a, b) ∈ edgePairs s ↔ ∃ p ∈ s.simplices, p.2 = [a, b] := by
  simp only [edgePairs, List.mem_filterMap]
  constructor
  · rintro ⟨p, hp, hm⟩
    refine ⟨p, hp, ?_⟩
    split at hm
    · rename_i x y hxy
      simp only [Option.some.injEq, Prod.mk.injEq] at hm
      rw [hxy, hm.1, hm.2]
    · simp at hm
  · rintro ⟨p, hp, hm⟩
    exact ⟨p, hp, by rw [hm]⟩

/-- an edge of the list is a 1-simplex and conversely (members are duplicate-free) -/
theorem link_iff_adj (h : ∀ p ∈ s.simplices, p.2.Nodup) {a b : Atom} : Link (edgePairs s) a b ↔ Adj s a b := by
  constructor
  · intro hl
    have one : ∀ {x y}, (x, y) ∈ edgePairs s → Adj s x y := by
      intro x y hxy
      obtain ⟨p, hp, hm⟩ := mem_edgePairs.mp hxy
      have hnd := h p hp
      rw [hm] at hnd
      exact ⟨by simpa using hnd, p, hp, by rw [hm]; rfl, by rw [hm]; simp, by rw [hm]; simp⟩
    rcases hl with hl | hl
    · exact one hl
    · exact adj_symm (one hl)
  · rintro ⟨hne, p, hp, hl, ha, hb⟩
    obtain ⟨x, y, hxy⟩ := List.length_eq_two.mp hl
    rw [hxy] at ha hb
    simp only [List.mem_cons, List.not_mem_nil, or_false] at ha hb
    rcases ha with rfl | rfl <;> rcases hb with rfl | rfl
    · exact absurd rfl hne
    · exact Or.inl (mem_edgePairs.mpr ⟨p, hp, hxy⟩)
    · exact Or.inr (mem_edgePairs.mpr ⟨p, hp, hxy⟩)
    · exact absurd rfl hne

theorem conn_iff_reach (h : ∀ p ∈ s.simplices, p.2.Nodup) {a b : Atom} : Conn (edgePairs s) a b ↔ Reach s a b := by
  constructor
  · exact Relation.ReflTransGen.mono (fun _ _ hl => (link_iff_adj h).mp hl) _ _
  · exact Relation.ReflTransGen.mono (fun _ _ hl => (link_iff_adj h).mpr hl) _ _

/-- **specification of the executable labelling**: same representative ⇔ joined by a path of 1-simplices -/
theorem labels_reach (h : ∀ p ∈ s.simplices, p.2.Nodup) (a b : Atom) :
    labels (edgePairs s) a = labels (edgePairs s) b ↔ Reach s a b :=
  (labels_spec _ a b).trans (conn_iff_reach h)

/-! ### the classes of node positions -/

/-- node positions `i`, `j` are equivalent when `nodes[i]` and `nodes[j]` are joined by a path of 1-simplices -/
def compSetoid (s : SC) : Setoid (Fin s.nodes.length) where
  r i j := Reach s s.nodes[i] s.nodes[j]
  iseqv := ⟨fun _ => Relation.ReflTransGen.refl, reach_symm, Relation.ReflTransGen.trans⟩

theorem compSetoid_r {i j : Fin s.nodes.length} : (compSetoid s).r i j ↔ Reach s s.nodes[i] s.nodes[j] := Iff.rfl

theorem dedup_length_eq_card {α : Type} [DecidableEq α] (l : List α) : (dedup l).length = l.toFinset.card := by
  rw [← List.toFinset_card_of_nodup (nodup_dedup l)]
  congr 1
  ext x; simp

/-- **the executable count is the number of reachability classes** -/
theorem nComponents_eq_card (h : ∀ p ∈ s.simplices, p.2.Nodup) : nComponents s = Nat.card (Quotient (compSetoid s)) := by
  classical
  rw [Nat.card_eq_fintype_card, nComponents_eq_spec]
  unfold nComponentsSpec
  rw [dedup_length_eq_card]
  let f : Quotient (compSetoid s) → Atom :=
    Quotient.lift (fun i : Fin s.nodes.length => labels (edgePairs s) s.nodes[i])
      (fun i j hij => (labels_reach h _ _).mpr hij)
  have hf : Function.Injective f := by
    intro q1 q2
    induction q1 using Quotient.ind
    induction q2 using Quotient.ind
    intro e
    exact Quotient.sound ((labels_reach h _ _).mp e)
  rw [← Finset.card_univ, ← Finset.card_image_of_injective Finset.univ hf]
  congr 1
  ext x
  simp only [List.mem_toFinset, List.mem_map, Finset.mem_image, Finset.mem_univ, true_and]
  constructor
  · rintro ⟨a, ha, rfl⟩
    obtain ⟨i, hi, rfl⟩ := List.mem_iff_getElem.mp ha
    exact ⟨Quotient.mk _ ⟨i, hi⟩, rfl⟩
  · rintro ⟨q, rfl⟩
    induction q using Quotient.ind
    rename_i i
    exact ⟨s.nodes[i], List.getElem_mem _, rfl⟩

/-! ### constant along the columns of `B_1` ⇔ constant on reachability classes -/

/-- the columns of `B_1` are the 1-simplices: every column joins two adjacent nodes … -/
theorem adj_of_col (h : WF s) {m : Nat} (hm : m < (colSimp s (0 + 1)).length) {a b : Atom}
    (hab : (colSimp s (0 + 1))[m].2 = [a, b]) : Adj s a b := by
  obtain ⟨hnd, _, _, p, hps, hpl, hpe⟩ := colSimp_props h (0 + 1) hm
  rw [hab] at hnd
  have hmem : ∀ y, y ∈ [a, b] → y ∈ p.2 := by
    intro y hy
    rw [← hab, hpe] at hy
    exact mem_ss.mp hy
  exact ⟨by simpa using hnd, p, hps, hpl, hmem a (by simp), hmem b (by simp)⟩

/-- … and every pair of adjacent nodes is a column, in one of the two orders -/
theorem col_of_adj {a b : Atom} (hab : Adj s a b) :
    ∃ m, ∃ hm : m < (colSimp s (0 + 1)).length, (colSimp s (0 + 1))[m].2 = [a, b] ∨ (colSimp s (0 + 1))[m].2 = [b, a] := by
  obtain ⟨hne, p, hp, hl, ha, hb⟩ := hab
  have hpo : p ∈ s.ofOrder ((0 + 1 : Nat) : Int) := mem_ofOrder.mpr ⟨hp, by unfold order; rw [hl]; rfl⟩
  obtain ⟨m, hm, hmp⟩ := List.mem_iff_getElem.mp hpo
  have hm' : m < (colSimp s (0 + 1)).length := by simpa [colSimp] using hm
  refine ⟨m, hm', ?_⟩
  have e : (colSimp s (0 + 1))[m].2 = ss p := by
    simp only [colSimp, List.getElem_map]; rw [hmp]
  rw [e]
  have hl2 : (ss p).length = 2 := by rw [length_ss]; exact hl
  obtain ⟨x, y, hxy⟩ := List.length_eq_two.mp hl2
  have ha' : a ∈ ss p := mem_ss.mpr ha
  have hb' : b ∈ ss p := mem_ss.mpr hb
  rw [hxy] at ha' hb' ⊢
  simp only [List.mem_cons, List.not_mem_nil, or_false] at ha' hb'
  rcases ha' with rfl | rfl <;> rcases hb' with rfl | rfl
  · exact absurd rfl hne
  · exact Or.inl rfl
  · exact Or.inr rfl
  · exact absurd rfl hne

theorem adj_nodes (h : WF s) {a b : Atom} (hab : Adj s a b) : a ∈ s.nodes ∧ b ∈ s.nodes := by
  obtain ⟨_, p, hp, _, ha, hb⟩ := hab
  exact ⟨h.memNodes p hp a ha, h.memNodes p hp b hb⟩

/-- a vector indexed by node positions takes the same value at the two end points of every column of `B_1`
    exactly when it is constant on every reachability class (induction along the path one way; an edge is a path
    of length one the other way) -/
theorem const_on_edges_iff_const_on_reach {α : Type} (h : WF s) (x : Nat → α) :
    (∀ m (hm : m < (colSimp s (0 + 1)).length) (ia ib : Nat) (hia : ia < s.nodes.length) (hib : ib < s.nodes.length),
      (colSimp s (0 + 1))[m].2 = [s.nodes[ia], s.nodes[ib]] → x ia = x ib) ↔
    (∀ (ia ib : Nat) (hia : ia < s.nodes.length) (hib : ib < s.nodes.length),
      Reach s s.nodes[ia] s.nodes[ib] → x ia = x ib) := by
  constructor
  · intro hE ia ib hia hib hr
    -- generalise the end point to an arbitrary atom with a position
    suffices hgen : ∀ b, Reach s s.nodes[ia] b → ∀ ib (hib : ib < s.nodes.length), s.nodes[ib] = b → x ia = x ib from
      hgen _ hr ib hib rfl
    intro b hr
    induction hr with
    | refl =>
      intro ib hib e
      rw [(h.nodesNodup.getElem_inj_iff).mp e]
    | tail _ hadj ih =>
      rename_i c d
      intro id hid e
      obtain ⟨hc, _⟩ := adj_nodes h hadj
      obtain ⟨ic, hic, hcc⟩ := List.mem_iff_getElem.mp hc
      rw [ih ic hic hcc]
      obtain ⟨m, hm, hcol | hcol⟩ := col_of_adj hadj
      · exact hE m hm ic id hic hid (by rw [hcol, hcc, e])
      · exact (hE m hm id ic hid hic (by rw [hcol, hcc, e])).symm
  · intro hR m hm ia ib hia hib hab
    exact hR ia ib hia hib (Relation.ReflTransGen.single (adj_of_col h hm hab))

/-! ### nullity of a matrix whose kernel is "constant on the classes of a setoid" -/

section linalg
open Module

variable {K : Type} [Field K] {ι κ : Type} [Fintype ι] [DecidableEq ι]

/-- the kernel is linearly equivalent to the functions on the quotient -/
noncomputable def kerEquivQuotientFun (M : Matrix κ ι K) (S : Setoid ι)
    (hker : ∀ x : ι → K, M.mulVec x = 0 ↔ ∀ i j, S.r i j → x i = x j) :
    LinearMap.ker (Matrix.toLin' M) ≃ₗ[K] (Quotient S → K) where
  toFun x := Quotient.lift x.1 (fun i j hij => (hker x.1).mp (by
    have := x.2; rwa [LinearMap.mem_ker, Matrix.toLin'_apply] at this) i j hij)
  map_add' x y := by
    ext q; induction q using Quotient.ind; rfl
  map_smul' c x := by
    ext q; induction q using Quotient.ind; rfl
  invFun f := ⟨fun i => f (Quotient.mk S i), by
    rw [LinearMap.mem_ker, Matrix.toLin'_apply, hker]
    intro i j hij
    exact congrArg f (Quotient.sound hij)⟩
  left_inv x := by
    ext i; rfl
  right_inv f := by
    ext q; induction q using Quotient.ind; rfl

/-- hence its dimension is the number of classes -/
theorem finrank_ker_of_const_on_classes (M : Matrix κ ι K) (S : Setoid ι)
    (hker : ∀ x : ι → K, M.mulVec x = 0 ↔ ∀ i j, S.r i j → x i = x j) :
    finrank K (LinearMap.ker (Matrix.toLin' M)) = Nat.card (Quotient S) := by
  classical
  rw [(kerEquivQuotientFun M S hker).finrank_eq, Module.finrank_fintype_fun_eq_card, Nat.card_eq_fintype_card]

end linalg

/-! ### the model's `L_0` as a Mathlib matrix -/

/-- `hodge s 0 o` (an integer matrix of shape #nodes × #nodes, see `hodge_zero_shape`) with entries cast to `K`,
    indexed by node positions -/
def L0Matrix (K : Type) [IntCast K] (s : SC) (o : PyId → Nat) : Matrix (Fin s.nodes.length) (Fin s.nodes.length) K :=
  Matrix.of fun i j => (((hodge s 0 o).e i j : Int) : K)

end Xgi.C13
