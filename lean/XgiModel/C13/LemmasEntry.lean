/-
  C13 helper lemmas, part 3: closed form of the entries of `boundary` on a well-formed complex.
-/
import XgiModel.C13.LemmasSC

open Finset

namespace Xgi.C13

variable {s : SC}

theorem gen_write_mem (h : WF s) (o : PyId → Nat) (n : Nat) {p : PyId × List Atom} (hp : p ∈ s.simplices)
    (hl : p.2.length = n + 3) {i : Nat} {v : Int}
    (hv : some (i, v) ∈ writesGen s (n + 2) o ((s.ofOrder ((n + 1 : Nat) : Int)).map (·.1)) p.1 (ss p)) :
    ∃ hi : i < (s.ofOrder ((n + 1 : Nat) : Int)).length, ∃ c, c ≤ n + 2 ∧
      ss (s.ofOrder ((n + 1 : Nat) : Int))[i] = (ss p).eraseIdx (n + 2 - c) ∧
      v = sgn ((o p.1 + (n + 2) - c) % 2 + o (s.ofOrder ((n + 1 : Nat) : Int))[i].1) := by
  obtain ⟨c, hc, hgc⟩ := List.mem_iff_getElem.mp hv
  have hc' : c < n + 3 := by rwa [gen_write_length n o _ _ (by simp [hl])] at hc
  obtain ⟨q, _, m, hm, hmq, e, hget⟩ := gen_write h o n hp hl (c := c) (by omega)
  rw [List.getElem?_eq_getElem hc, hgc] at hget
  simp only [Option.some.injEq, Prod.mk.injEq] at hget
  obtain ⟨rfl, rfl⟩ := hget
  exact ⟨hm, c, by omega, by rw [hmq]; exact e, by rw [hmq]⟩

/-- entries of `B_k`, k ≥ 2: the (row ρ, column σ) entry is `(-1)^(o σ + t + o ρ)` when ρ is σ without its
    t-th vertex (in the sorted order), and 0 when ρ is not a face of σ -/
theorem entry_gen (h : WF s) (o : PyId → Nat) (n : Nat) {i j : Nat}
    (hi : i < (s.ofOrder ((n + 1 : Nat) : Int)).length) (hj : j < (s.ofOrder ((n + 2 : Nat) : Int)).length) :
    (boundary s (n + 2) o).e i j =
      ∑ t ∈ range (n + 3), if (ss (s.ofOrder ((n + 2 : Nat) : Int))[j]).eraseIdx t = ss (s.ofOrder ((n + 1 : Nat) : Int))[i]
        then sgn (o (s.ofOrder ((n + 2 : Nat) : Int))[j].1 + t + o (s.ofOrder ((n + 1 : Nat) : Int))[i].1) else 0 := by
  have hrows : downIds s (n + 2) = (s.ofOrder ((n + 1 : Nat) : Int)).map (·.1) := by
    rw [downIds_succ]; simp [rowSimp, Function.comp_def]
  have hbe : (boundary s (n + 2) o).e i j =
      colFn (writes s (n + 2) o (downIds s (n + 2)) (s.ofOrder ((n + 2 : Nat) : Int))[j]) i :=
    boundary_e (s := s) o (n + 1) (i := i) (j := j) (by rw [hrows]; simpa using hi) hj
  rw [hbe]
  have hp := List.getElem_mem hj
  have hρ := List.getElem_mem hi
  generalize (s.ofOrder ((n + 2 : Nat) : Int))[j] = p at hp ⊢
  generalize hρdef : (s.ofOrder ((n + 1 : Nat) : Int))[i] = ρ at hρ ⊢
  obtain ⟨hps, hpo⟩ := mem_ofOrder.mp hp
  have hl : p.2.length = n + 3 := length_of_order hpo
  have hρs := (mem_ofOrder.mp hρ).1
  have hw : writes s (n + 2) o (downIds s (n + 2)) p =
      writesGen s (n + 2) o ((s.ofOrder ((n + 1 : Nat) : Int)).map (·.1)) p.1 (ss p) := by
    unfold writes; rw [if_neg (by omega), hrows]; rfl
  rw [hw]
  by_cases hex : ∃ t, t ≤ n + 2 ∧ (ss p).eraseIdx t = ss ρ
  · obtain ⟨t, ht, het⟩ := hex
    rw [Finset.sum_eq_single t]
    · rw [if_pos het]
      obtain ⟨q, hqo, m, hm, hmq, e, hget⟩ := gen_write h o n hps hl (c := n + 2 - t) (by omega)
      have e' : ss q = ss ρ := by rw [e, show n + 2 - (n + 2 - t) = t by omega, het]
      have hqρ : q = ρ := ss_inj h (mem_ofOrder.mp hqo).1 hρs e'
      have hmi : m = i := (ofOrder_nodup h _).getElem_inj_iff.mp (hmq.trans (hqρ.trans hρdef.symm))
      subst hmi
      have hval : sgn ((o p.1 + (n + 2) - (n + 2 - t)) % 2 + o q.1) = sgn (o p.1 + t + o ρ.1) := by
        rw [sgn_mod, hqρ, show o p.1 + (n + 2) - (n + 2 - t) = o p.1 + t by omega]
      rw [hval] at hget
      apply colFn_of_mem
      · intro v' hv'
        obtain ⟨hi', c, hc, hce, hcv⟩ := gen_write_mem h o n hps hl hv'
        rw [hρdef] at hce hcv
        have : n + 2 - c = t := eraseIdx_inj (ss_nodup h hps) (by simp [hl]; omega) (by simp [hl]; omega) (hce.symm.trans het.symm)
        rw [hcv, sgn_mod, show o p.1 + (n + 2) - c = o p.1 + t by omega]
      · exact List.mem_of_getElem? hget
    · intro b hb hne
      rw [if_neg]
      intro hb'
      simp only [mem_range] at hb
      exact hne (eraseIdx_inj (ss_nodup h hps) (by simp [hl]; omega) (by simp [hl]; omega) (hb'.trans het.symm))
    · intro hnot; exfalso; apply hnot; simp only [mem_range]; omega
  · rw [Finset.sum_eq_zero]
    · apply colFn_of_not_mem
      intro v hv
      obtain ⟨hi', c, hc, hce, hcv⟩ := gen_write_mem h o n hps hl hv
      rw [hρdef] at hce
      exact hex ⟨n + 2 - c, by omega, hce.symm⟩
    · intro t ht
      rw [if_neg]
      intro het
      simp only [mem_range] at ht
      exact hex ⟨t, by omega, het⟩

/-- entries of `B_1`: head vertex gets `(-1)^o`, tail vertex `-(-1)^o` -/
theorem entry_one (h : WF s) (o : PyId → Nat) {i j : Nat}
    (hi : i < s.nodes.length) (hj : j < (s.ofOrder ((0 + 1 : Nat) : Int)).length) :
    (boundary s 1 o).e i j =
      ∑ t ∈ range 2, if (ss (s.ofOrder ((0 + 1 : Nat) : Int))[j]).eraseIdx t = [s.nodes[i]]
        then sgn (o (s.ofOrder ((0 + 1 : Nat) : Int))[j].1 + t + 0) else 0 := by
  have hrows : downIds s 1 = s.nodes.map PyId.atom := by simp [downIds]
  have hbe : (boundary s 1 o).e i j =
      colFn (writes s 1 o (downIds s 1) (s.ofOrder ((0 + 1 : Nat) : Int))[j]) i :=
    boundary_e (s := s) o 0 (i := i) (j := j) (by rw [hrows]; simpa using hi) hj
  rw [hbe]
  have hp := List.getElem_mem hj
  generalize (s.ofOrder ((0 + 1 : Nat) : Int))[j] = p at hp ⊢
  obtain ⟨hps, hpo⟩ := mem_ofOrder.mp hp
  have hl : (ss p).length = 2 := by rw [length_ss]; exact length_of_order hpo
  obtain ⟨a, b, hab⟩ := List.length_eq_two.mp hl
  have hnd := ss_nodup h hps
  rw [hab] at hnd
  have hne : a ≠ b := by simpa using hnd
  have ha : a ∈ s.nodes := h.memNodes p hps a (mem_ss.mp (by rw [hab]; simp))
  have hb : b ∈ s.nodes := h.memNodes p hps b (mem_ss.mp (by rw [hab]; simp))
  obtain ⟨ia, hia, hiaa, hxa⟩ := idxOf_nodes h ha
  obtain ⟨ib, hib, hibb, hxb⟩ := idxOf_nodes h hb
  have hw : writes s 1 o (downIds s 1) p = [some (ib, sgn (o p.1)), some (ia, - sgn (o p.1))] := by
    unfold writes writesOne
    rw [if_pos rfl, hrows]
    change [ ((ss p)[1]?).bind _, ((ss p)[0]?).bind _ ] = _
    rw [hab]
    simp [hxa, hxb]
  rw [hw]
  have e1 : (s.nodes[i] = b) ↔ i = ib := by
    rw [← hibb]; exact h.nodesNodup.getElem_inj_iff
  have e2 : (s.nodes[i] = a) ↔ i = ia := by
    rw [← hiaa]; exact h.nodesNodup.getElem_inj_iff
  have hiab : ia ≠ ib := by
    intro e; apply hne; rw [← hiaa, ← hibb]; simp [e]
  simp only [hab, Finset.sum_range_succ, Finset.sum_range_zero, zero_add, List.eraseIdx_zero, List.tail_cons,
    List.eraseIdx_cons_succ, List.cons.injEq, and_true, add_zero, sgn_succ]
  have e1' : (b = s.nodes[i]) ↔ i = ib := eq_comm.trans e1
  have e2' : (a = s.nodes[i]) ↔ i = ia := eq_comm.trans e2
  simp only [e1', e2']
  unfold colFn
  simp only [List.foldl_cons, List.foldl_nil, upd]
  by_cases h1 : i = ia
  · subst h1; simp [hiab]
  · by_cases h2 : i = ib
    · subst h2; simp [h1]
    · simp [h1, h2]

/-- entries of `B_{n+1}` in terms of the row / column simplices -/
theorem entry_eq (h : WF s) (o : PyId → Nat) (n : Nat) {i j : Nat}
    (hi : i < (rowSimp s (n + 1)).length) (hj : j < (colSimp s (n + 1)).length) :
    (boundary s (n + 1) o).e i j =
      ∑ t ∈ range (n + 2), if ((colSimp s (n + 1))[j].2).eraseIdx t = ((rowSimp s (n + 1))[i]).2
        then sgn (o ((colSimp s (n + 1))[j]).1 + t + rowOr o (n + 1) ((rowSimp s (n + 1))[i]).1) else 0 := by
  cases n with
  | zero =>
    have hi' : i < s.nodes.length := by simpa [rowSimp] using hi
    have hj' : j < (s.ofOrder ((0 + 1 : Nat) : Int)).length := by simpa [colSimp] using hj
    rw [entry_one h o hi' hj']
    simp [rowSimp, colSimp, rowOr]
  | succ n =>
    have hi' : i < (s.ofOrder ((n + 1 : Nat) : Int)).length := by
      have := hi; simp only [rowSimp, List.length_map] at this; exact this
    have hj' : j < (s.ofOrder ((n + 2 : Nat) : Int)).length := by
      have := hj; simp only [colSimp, List.length_map] at this; exact this
    rw [entry_gen h o n hi' hj']
    simp only [rowSimp, colSimp, rowOr, List.getElem_map, if_neg (show ¬ (n + 1 + 1 = 1) by omega)]

end Xgi.C13
