/-
  C13 model: `xgi.boundary_matrix` and `xgi.hodge_laplacian` (xgi/linalg/hodge_matrix.py) as the Python
  computes them.  No Mathlib.

  What is modelled, statement for statement:
    * `simplices_d_ids` / `simplices_u_ids`  (nodes for order 1 rows / order 0 columns, otherwise
      `S.edges.filterby("order", ·)` in view order)                         → `downIds` / `upIds`
    * `u_simplex.sort(key=lambda e: (isinstance(e, str), e))`                → `sortMembers` (stable insertion sort by `keyLe`)
    * `S._subfaces(u_simplex, all=False)` = `itertools.combinations(u, len-1)` → `subfaces` (= `combs l (len-1)`)
    * `list(S.edges)[S.edges.members().index(frozenset(subf))]`              → `faceId?` (first simplex with that member set)
    * `simplices_d_dict[…]`                                                  → `idxOf?` in the row id list
    * the two writes of the order-1 branch, the `enumerate` loop of the general branch, the sign
      `(-1) ** ((orientations[u] + order - i) % 2 + orientations[subface])`   → `writesOne` / `writesGen`
    * `B = np.zeros(…)`, item assignment (a later write to the same cell wins) → `colFn` (fold of `upd`)
    * `if not (nu == 0 or nd == 0)`                                          → the guard in `boundary`
    * `np.transpose`, `@`, `+` in `hodge_laplacian`                           → `Mat.transpose`, `Mat.mul`, `Mat.add`
  Orientation values are naturals, used exactly as the code uses its ints/bools (`(-1) ** o`, `(o + order - i) % 2`,
  `True` = 1): values ≥ 2 act through their parity.
  Outside the model (driver answers "unmodelled"): node labels other than int/str (floats in particular),
  orientation dicts that do not cover every simplex of order ≥ 1 (KeyError), negative orientation values;
  negative orders and non-integer orientation values are ill-typed requests ("bad-op", never generated).  A face that is missing from the complex
  (`ValueError` from `.index`) or not among the rows (`KeyError`) makes `boundaryDefined` false ("err").
-/
import XgiModel.Base

namespace Xgi.C13

/-! ### matrices: dimensions + total entry function (meaningful inside the dimensions) -/

structure Mat where
  r : Nat
  c : Nat
  e : Nat → Nat → Int

namespace Mat
def toLists (m : Mat) : List (List Int) :=
  (List.range m.r).map (fun i => (List.range m.c).map (fun j => m.e i j))
/-- `np.transpose` -/
def transpose (m : Mat) : Mat := { r := m.c, c := m.r, e := fun i j => m.e j i }
/-- `a @ b` (numpy requires `a.c = b.r`; true wherever the code multiplies) -/
def mul (a b : Mat) : Mat :=
  { r := a.r, c := b.c, e := fun i j => ((List.range a.c).map (fun m => a.e i m * b.e m j)).sum }
/-- `a + b` (same shape) -/
def add (a b : Mat) : Mat := { r := a.r, c := a.c, e := fun i j => a.e i j + b.e i j }
/-- `m @ x` for a vector -/
def mulVec (m : Mat) (x : Nat → Int) : Nat → Int :=
  fun i => ((List.range m.c).map (fun j => m.e i j * x j)).sum

/-- the same matrix with the entries inside its dimensions computed once and stored in a table (`memo_eq`: it IS the
    same matrix; the only purpose is run-time sharing — `hodge` reads every entry of a boundary matrix many times, and a
    bare entry function would recompute the whole column loop on every read) -/
def memo (m : Mat) : Mat :=
  let t : List (List Int) := m.toLists
  { r := m.r, c := m.c, e := fun i j =>
      match t[i]? with
      | some row => (match row[j]? with
        | some v => v
        | none => m.e i j)
      | none => m.e i j }

theorem memo_eq (m : Mat) : m.memo = m := by
  cases m with
  | mk r c e =>
    simp only [memo, toLists, Mat.mk.injEq, true_and]
    funext i j
    by_cases hi : i < r
    · by_cases hj : j < c
      · simp [hi, hj]
      · simp [hi, hj]
    · simp [hi]
end Mat

/-! ### simplicial complex as the views present it -/

/-- `S.nodes` in view order; `S.edges.members(dtype=dict)` in view order (members: a set, any listing order) -/
structure SC where
  nodes : List Atom
  simplices : List (PyId × List Atom)
  deriving Repr, Inhabited

/-- `len(members) - 1` -/
def order (p : PyId × List Atom) : Int := (p.2.length : Int) - 1

/-- `S.edges.filterby("order", k)` (with its members) -/
def SC.ofOrder (s : SC) (k : Int) : List (PyId × List Atom) := s.simplices.filter (fun p => order p = k)

/-- ids of the rows: `S.nodes if order == 1 else S.edges.filterby("order", order - 1)` -/
def downIds (s : SC) (k : Nat) : List PyId :=
  if k = 1 then s.nodes.map PyId.atom else (s.ofOrder ((k : Int) - 1)).map (·.1)
/-- ids of the columns: `S.nodes if order == 0 else S.edges.filterby("order", order)` -/
def upIds (s : SC) (k : Nat) : List PyId :=
  if k = 0 then s.nodes.map PyId.atom else (s.ofOrder (k : Int)).map (·.1)

/-! ### the reference orientation: sort by `(isinstance(e, str), e)` -/

/-- `key(a) <= key(b)` for `key = lambda e: (isinstance(e, str), e)`: numbers before strings,
    numbers by value, strings by code points -/
def keyLe : Atom → Atom → Bool
  | .int a, .int b => decide (a ≤ b)
  | .int _, .str _ => true
  | .str _, .int _ => false
  | .str a, .str b => decide (a ≤ b)

/-- insert `a` before the first element whose key is not smaller -/
def insertKey (a : Atom) : List Atom → List Atom
  | [] => [a]
  | b :: t => if keyLe a b then a :: b :: t else b :: insertKey a t

/-- `list.sort(key=…)`: a stable sort (insertion sort from the right: equal keys keep their order; every
    stable sort computes the same list) -/
def sortMembers (ms : List Atom) : List Atom := ms.foldr insertKey []

/-! ### faces -/

/-- `itertools.combinations(l, r)` in its emission order -/
def combs {α : Type} : List α → Nat → List (List α)
  | _, 0 => [[]]
  | [], _ + 1 => []
  | a :: t, r + 1 => (combs t r).map (a :: ·) ++ combs t (r + 1)

/-- `S._subfaces(simplex, all=False)` -/
def subfaces (l : List Atom) : List (List Atom) := combs l (l.length - 1)

/-- `frozenset(subf) == members` -/
def sameSet (a b : List Atom) : Bool := a.all (fun x => decide (x ∈ b)) && b.all (fun x => decide (x ∈ a))

/-- `list(S.edges)[S.edges.members().index(frozenset(subf))]` (`none` = ValueError) -/
def faceId? (s : SC) (face : List Atom) : Option PyId :=
  (s.simplices.find? (fun p => sameSet p.2 face)).map (·.1)

/-- `simplices_d_dict[x]` (`none` = KeyError) -/
def idxOf? (l : List PyId) (x : PyId) : Option Nat := if x ∈ l then some (l.idxOf x) else none

/-- `(-1) ** n` -/
def sgn (n : Nat) : Int := if n % 2 = 0 then 1 else -1

/-! ### the writes into one column -/

/-- order-1 branch: `B[d[u[1]], col] = (-1)**o[u]` then `B[d[u[0]], col] = -((-1)**o[u])` -/
def writesOne (o : PyId → Nat) (rows : List PyId) (u : PyId) (cs : List Atom) : List (Option (Nat × Int)) :=
  [ (cs[1]?).bind (fun h => (idxOf? rows (.atom h)).map (fun r => (r, sgn (o u)))),
    (cs[0]?).bind (fun t => (idxOf? rows (.atom t)).map (fun r => (r, - sgn (o u)))) ]

/-- general branch: `for count, subf in enumerate(subfaces): B[d[id(subf)], col] =
    (-1) ** ((o[u] + order - count) % 2 + o[id(subf)])` -/
def writesGen (s : SC) (k : Nat) (o : PyId → Nat) (rows : List PyId) (u : PyId) (cs : List Atom) :
    List (Option (Nat × Int)) :=
  (subfaces cs).zipIdx.map (fun fc =>
    (faceId? s fc.1).bind (fun fid =>
      (idxOf? rows fid).map (fun r => (r, sgn ((o u + k - fc.2) % 2 + o fid)))))

/-- the loop body for one column simplex `p = (id, members)` -/
def writes (s : SC) (k : Nat) (o : PyId → Nat) (rows : List PyId) (p : PyId × List Atom) :
    List (Option (Nat × Int)) :=
  if k = 1 then writesOne o rows p.1 (sortMembers p.2) else writesGen s k o rows p.1 (sortMembers p.2)

/-- a zero column after the item assignments, in order (the last write to a cell wins) -/
def colFn (ws : List (Option (Nat × Int))) : Nat → Int :=
  ws.foldl (fun f w => match w with
    | some (r, v) => upd f r v
    | none => f) (fun _ => 0)

/-- `boundary_matrix(S, order=k, orientations=o)`.  The loop body of every column simplex (`writes`: sorting, faces,
    look-ups) is evaluated once when the matrix is built and its list of item assignments is kept; the `e` field
    replays the assignments of column `j` on a zero column (`colFn`) and reads row `i`.  (The assignments are stored as
    data on purpose: a stored *function* per column would be re-evaluated, loop body included, on every read.) -/
def boundary (s : SC) (k : Nat) (o : PyId → Nat) : Mat :=
  let rows := downIds s k
  let nc := (upIds s k).length
  let cols : List (List (Option (Nat × Int))) :=
    if rows.length = 0 ∨ nc = 0 ∨ k = 0 then []                       -- `if not (nu == 0 or nd == 0)`: stays zero
    else (s.ofOrder (k : Int)).map (fun p => writes s k o rows p)
  { r := rows.length
    c := nc
    e := fun i j =>
      match cols[j]? with
      | some ws => colFn ws i
      | none => 0 }

/-- no lookup of the loops fails (`false` = the Python call raises, or — for order 0 with an empty
    simplex present — takes a path that is not modelled) -/
def boundaryDefined (s : SC) (k : Nat) (o : PyId → Nat) : Bool :=
  if (downIds s k).length = 0 ∨ (upIds s k).length = 0 then true
  else if k = 0 then false
  else (s.ofOrder (k : Int)).all (fun p => (writes s k o (downIds s k) p).all Option.isSome)

/-- `hodge_laplacian(S, order=k, orientations=o)`: `B_k^T @ B_k + B_{k+1} @ B_{k+1}^T` -/
def hodge (s : SC) (k : Nat) (o : PyId → Nat) : Mat :=
  let b := (boundary s k o).memo          -- `B_o`, computed once (`Mat.memo_eq`: equal to `boundary s k o`)
  let b1 := (boundary s (k + 1) o).memo   -- `B_op1`
  (b.transpose.mul b).add (b1.mul b1.transpose)

def hodgeDefined (s : SC) (k : Nat) (o : PyId → Nat) : Bool :=
  boundaryDefined s k o && boundaryDefined s (k + 1) o

/-! ### orientation dicts -/

/-- `orientations[i]` for a dict given as key/value pairs (meaningful on its keys) -/
def orientOf (d : List (PyId × Nat)) : PyId → Nat := fun i => ((d.find? (fun p => p.1 = i)).map (·.2)).getD 0

/-- `orientations=None`: `{idd: 0 for idd in S.edges.filterby("order", 1, mode="geq")}` -/
def defaultOrient (s : SC) : List (PyId × Nat) :=
  (s.simplices.filter (fun p => order p ≥ 1)).map (fun p => (p.1, 0))

/-- every simplex of order ≥ 1 is a key (no KeyError possible) -/
def orientCovers (d : List (PyId × Nat)) (s : SC) : Bool :=
  (s.simplices.filter (fun p => order p ≥ 1)).all (fun p => (d.map (·.1)).contains p.1)

/-! ### well-formedness: what `xgi.SimplicialComplex` guarantees (C03), as explicit hypotheses -/

structure WF (s : SC) : Prop where
  /-- node ids are dict keys -/
  nodesNodup : s.nodes.Nodup
  /-- simplex ids are dict keys -/
  idsNodup : (s.simplices.map (·.1)).Nodup
  /-- members are sets -/
  memNodup : ∀ p ∈ s.simplices, p.2.Nodup
  /-- members are nodes -/
  memNodes : ∀ p ∈ s.simplices, ∀ a ∈ p.2, a ∈ s.nodes
  /-- no empty simplex -/
  nonempty : ∀ p ∈ s.simplices, p.2 ≠ []
  /-- no two simplices with the same member set -/
  distinct : ∀ p ∈ s.simplices, ∀ q ∈ s.simplices,
    (∀ a ∈ p.2, a ∈ q.2) → (∀ a ∈ q.2, a ∈ p.2) → p = q
  /-- downward closed: removing one vertex from a simplex with ≥ 3 vertices gives a simplex
      (faces with one vertex are the nodes, see `memNodes`) -/
  closed : ∀ p ∈ s.simplices, 3 ≤ p.2.length → ∀ x ∈ p.2, ∃ q ∈ s.simplices,
    (∀ a ∈ q.2, a ∈ p.2 ∧ a ≠ x) ∧ (∀ a ∈ p.2, a = x ∨ a ∈ q.2)

/-- the last two fields of `WF`, named so that the `Decidable` instance is found in two steps -/
def ClosedP (s : SC) : Prop := ∀ p ∈ s.simplices, 3 ≤ p.2.length → ∀ x ∈ p.2, ∃ q ∈ s.simplices,
    (∀ a ∈ q.2, a ∈ p.2 ∧ a ≠ x) ∧ (∀ a ∈ p.2, a = x ∨ a ∈ q.2)
def DistinctP (s : SC) : Prop := ∀ p ∈ s.simplices, ∀ q ∈ s.simplices,
    (∀ a ∈ p.2, a ∈ q.2) → (∀ a ∈ q.2, a ∈ p.2) → p = q
instance (s : SC) : Decidable (ClosedP s) := by unfold ClosedP; infer_instance
instance (s : SC) : Decidable (DistinctP s) := by unfold DistinctP; infer_instance

instance (s : SC) : Decidable (WF s) :=
  decidable_of_iff
    (s.nodes.Nodup ∧ (s.simplices.map (·.1)).Nodup ∧ (∀ p ∈ s.simplices, p.2.Nodup) ∧
     (∀ p ∈ s.simplices, ∀ a ∈ p.2, a ∈ s.nodes) ∧ (∀ p ∈ s.simplices, p.2 ≠ []) ∧ DistinctP s ∧ ClosedP s)
    ⟨fun ⟨a, b, c, d, e, f, g⟩ => ⟨a, b, c, d, e, f, g⟩, fun ⟨a, b, c, d, e, f, g⟩ => ⟨a, b, c, d, e, f, g⟩⟩

end Xgi.C13
