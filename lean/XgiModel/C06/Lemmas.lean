/-
  C06 helper lemmas: list facts (double counting, filters, lookups in association lists) and the
  symmetric reading of `HG.WF` used by the view theorems.
-/
import XgiModel.C06.Views
import XgiModel.Lemmas.HGWF

namespace Xgi.C06
open Xgi Xgi.HG

/-! ### generic list facts -/

theorem sameSet_iff {a b : List PyId} : sameSet a b = true ↔ ∀ x, x ∈ a ↔ x ∈ b := by
  unfold sameSet
  simp only [Bool.and_eq_true, List.all_eq_true, decide_eq_true_eq]
  constructor
  · intro h x; exact ⟨h.1 x, h.2 x⟩
  · intro h; exact ⟨fun x hx => (h x).1 hx, fun x hx => (h x).2 hx⟩

theorem sameSet_refl (a : List PyId) : sameSet a a = true := sameSet_iff.2 (fun _ => Iff.rfl)

/-- `from_view` applied to a bunch that was itself produced by filtering the dict keys -/
theorem filter_mem_filter {α} [DecidableEq α] (l : List α) (p : α → Bool) :
    l.filter (fun i => decide (i ∈ l.filter p)) = l.filter p := by
  apply List.filter_congr
  intro x hx
  simp [List.mem_filter, hx]

/-- `from_view` of a bunch that is a sub-list of the (duplicate-free) dict keys gives the bunch back,
    in the same order -/
theorem filter_mem_of_sublist {α} [DecidableEq α] {l ks : List α} (h : l.Sublist ks) (hk : ks.Nodup) :
    ks.filter (fun i => decide (i ∈ l)) = l := by
  induction h with
  | slnil => rfl
  | @cons l ks a hs ih =>
    have hk' := (List.nodup_cons.1 hk)
    have ha : a ∉ l := fun hm => hk'.1 (hs.subset hm)
    simp [ha, ih hk'.2]
  | @cons_cons l ks a hs ih =>
    have hk' := (List.nodup_cons.1 hk)
    have ha : a ∉ l := fun hm => hk'.1 (hs.subset hm)
    simp only [List.filter_cons, List.mem_cons, true_or, decide_true, if_true]
    congr 1
    refine Eq.trans ?_ (ih hk'.2)
    apply List.filter_congr
    intro x hx
    have : x ≠ a := fun hxa => hk'.1 (hxa ▸ hx)
    simp [this]

theorem length_eq_of_nodup_of_mem_iff {α} {l₁ l₂ : List α} (h₁ : l₁.Nodup) (h₂ : l₂.Nodup)
    (h : ∀ a, a ∈ l₁ ↔ a ∈ l₂) : l₁.length = l₂.length :=
  ((List.perm_ext_iff_of_nodup h₁ h₂).2 h).length_eq

theorem sum_map_add {β} (l : List β) (f g : β → Nat) :
    (l.map (fun b => f b + g b)).sum = (l.map f).sum + (l.map g).sum := by
  induction l with
  | nil => simp
  | cons a t ih => simp [ih]; omega

theorem sum_map_ite_eq_countP {β} (l : List β) (p : β → Bool) :
    (l.map (fun b => if p b = true then 1 else 0)).sum = l.countP p := by
  induction l with
  | nil => simp
  | cons a t ih => simp [List.countP_cons, ih]; omega

/-- double counting over a relation given as a Boolean matrix -/
theorem sum_countP_comm {α β} (l₁ : List α) (l₂ : List β) (p : α → β → Bool) :
    (l₁.map (fun a => l₂.countP (fun b => p a b))).sum = (l₂.map (fun b => l₁.countP (fun a => p a b))).sum := by
  induction l₁ with
  | nil =>
    have : ∀ l : List β, (l.map (fun _ => 0)).sum = 0 := by
      intro l; induction l with
      | nil => rfl
      | cons _ _ ih => simp [ih]
    simp [this]
  | cons a t ih =>
    simp only [List.map_cons, List.sum_cons, List.countP_cons, ih]
    rw [sum_map_add, sum_map_ite_eq_countP]
    exact Nat.add_comm _ _

theorem sum_map_congr {β} (l : List β) (f g : β → Nat) (h : ∀ b ∈ l, f b = g b) :
    (l.map f).sum = (l.map g).sum := by
  rw [List.map_congr_left h]

/-! ### association lists -/

section formats
variable {α : Type} [Inhabited α]

omit [Inhabited α] in
theorem find_map_self (g : PyId → α) {l : List PyId} {i : PyId} (hi : i ∈ l) :
    (l.map (fun n => (n, g n))).find? (fun p => decide (p.1 = i)) = some (i, g i) := by
  induction l with
  | nil => cases hi
  | cons a t ih =>
    simp only [List.map_cons, List.find?_cons]
    by_cases ha : a = i
    · subst ha; simp
    · have : i ∈ t := by
        rcases List.mem_cons.1 hi with h | h
        · exact absurd h.symm ha
        · exact h
      simp only [ha, decide_false]
      exact ih this

theorem dget_evalStat (f : PyId → α) {order : List PyId} {i : PyId} (hi : i ∈ order) :
    dget (evalStat f order) i = f i := by
  unfold dget evalStat
  rw [find_map_self f hi]; rfl

theorem dget_map_self (g : PyId → α) {view : List PyId} {i : PyId} (hi : i ∈ view) :
    dget (view.map (fun n => (n, g n))) i = g i := dget_evalStat g hi

theorem dget_asdict (d : List (PyId × α)) {view : List PyId} {i : PyId} (hi : i ∈ view) :
    dget (asdict view d) i = dget d i := dget_map_self (fun n => dget d n) hi

theorem sget_map_self {β : Type} (g : β → String) (v : β → α) {cols : List β} {c : β} (hc : c ∈ cols)
    (hn : (cols.map g).Nodup) : sget (cols.map (fun c => (g c, v c))) (g c) = v c := by
  unfold sget
  have key : (cols.map (fun c => (g c, v c))).find? (fun p => decide (p.1 = g c)) = some (g c, v c) := by
    induction cols with
    | nil => cases hc
    | cons a t ih =>
      simp only [List.map_cons, List.find?_cons]
      rw [List.map_cons, List.nodup_cons] at hn
      by_cases ha : a = c
      · subst ha; simp
      · have hct : c ∈ t := by
          rcases List.mem_cons.1 hc with h | h
          · exact absurd h.symm ha
          · exact h
        have hg : g a ≠ g c := fun e => hn.1 (e ▸ List.mem_map.2 ⟨c, hct, rfl⟩)
        simp only [hg, decide_false]
        exact ih hct hn.2
  rw [key]; rfl

end formats

/-! ### the invariant, read symmetrically for the two views -/

theorem wf_keys_nodup {s : HG} (h : WF s) (k : Kind) : (keys s k).Nodup := by
  cases k <;> simp only [keys]
  · exact h.nodupN
  · exact h.nodupE

theorem wf_tab_nodup {s : HG} (h : WF s) (k : Kind) {i : PyId} (hi : i ∈ keys s k) : (tab s k i).Nodup := by
  cases k <;> simp only [keys, tab] at *
  · exact h.setN i hi
  · exact h.setE i hi

/-- every bipartite neighbour listed for `i` exists and lists `i` back -/
theorem wf_tab {s : HG} (h : WF s) (k : Kind) {i j : PyId} (hi : i ∈ keys s k) (hj : j ∈ tab s k i) :
    j ∈ keys s k.bi ∧ i ∈ tab s k.bi j := by
  cases k <;> simp only [keys, tab, Kind.bi] at *
  · exact h.n2e i hi j hj
  · exact h.e2n i hi j hj

theorem wf_tab_iff {s : HG} (h : WF s) (k : Kind) {i j : PyId} (hi : i ∈ keys s k) (hj : j ∈ keys s k.bi) :
    j ∈ tab s k i ↔ i ∈ tab s k.bi j := by
  constructor
  · intro hm; exact (wf_tab h k hi hm).2
  · intro hm
    have := wf_tab h k.bi hj hm
    cases k <;> exact this.2

theorem bi_bi (k : Kind) : k.bi.bi = k := by cases k <;> rfl

/-- number of bipartite neighbours = number of IDs on the other side that list `i` -/
theorem tab_length_eq_count {s : HG} (h : WF s) (k : Kind) {i : PyId} (hi : i ∈ keys s k) :
    (tab s k i).length = (keys s k.bi).countP (fun j => decide (i ∈ tab s k.bi j)) := by
  rw [List.countP_eq_length_filter]
  apply length_eq_of_nodup_of_mem_iff (wf_tab_nodup h k hi) (nodup_filter _ (wf_keys_nodup h k.bi))
  intro j
  simp only [List.mem_filter, decide_eq_true_eq]
  constructor
  · intro hj; exact wf_tab h k hi hj
  · intro ⟨hj, hm⟩; exact (wf_tab_iff h k hi hj).2 hm

/-! ### classes of IDs with equal bipartite neighbourhoods -/

theorem mem_classOf {s : HG} {k : Kind} {i j : PyId} :
    j ∈ classOf s k i ↔ j ∈ keys s k ∧ ∀ x, x ∈ tab s k j ↔ x ∈ tab s k i := by
  unfold classOf; simp [List.mem_filter, sameSet_iff]

theorem self_mem_classOf {s : HG} {k : Kind} {i : PyId} (hi : i ∈ keys s k) : i ∈ classOf s k i :=
  mem_classOf.2 ⟨hi, fun _ => Iff.rfl⟩

theorem classOf_congr {s : HG} {k : Kind} {i j : PyId} (h : ∀ x, x ∈ tab s k j ↔ x ∈ tab s k i) :
    classOf s k j = classOf s k i := by
  unfold classOf
  apply List.filter_congr
  intro a _
  have e1 : sameSet (tab s k a) (tab s k j) = true ↔ sameSet (tab s k a) (tab s k i) = true := by
    rw [sameSet_iff, sameSet_iff]
    constructor
    · intro q x; rw [q x, h x]
    · intro q x; rw [q x, h x]
  cases hb : sameSet (tab s k a) (tab s k j) <;> cases hc : sameSet (tab s k a) (tab s k i) <;> simp_all

theorem classOf_nodup {s : HG} (h : WF s) (k : Kind) (i : PyId) : (classOf s k i).Nodup :=
  nodup_filter _ (wf_keys_nodup h k)

/-! ### sorting IDs -/

theorem insertSorted_perm (x : PyId) (l : List PyId) : (insertSorted x l).Perm (x :: l) := by
  induction l with
  | nil => simp [insertSorted]
  | cons y t ih =>
    simp only [insertSorted]
    split
    · exact List.Perm.refl _
    · exact (List.Perm.cons y ih).trans (List.Perm.swap x y t)

theorem foldr_insertSorted_perm (l : List PyId) : (l.foldr insertSorted []).Perm l := by
  induction l with
  | nil => simp
  | cons x t ih => exact (insertSorted_perm x _).trans (List.Perm.cons x ih)

theorem sortedIds_perm {g l : List PyId} (h : sortedIds g = some l) : l.Perm g := by
  unfold sortedIds at h
  cases g with
  | nil => simp at h; subst h; exact List.Perm.refl _
  | cons x t =>
    simp only at h
    split at h
    · split at h
      · cases h; exact List.Perm.refl _
      · cases h
    · cases h; exact foldr_insertSorted_perm _

/-- in a duplicate-free list, "all but the first" = "different from the first" -/
theorem mem_drop_one {l : List PyId} (hn : l.Nodup) (i : PyId) :
    i ∈ l.drop 1 ↔ i ∈ l ∧ l.head? ≠ some i := by
  cases l with
  | nil => simp
  | cons a t =>
    have hk := List.nodup_cons.1 hn
    simp only [List.drop_succ_cons, List.drop_zero, List.mem_cons, List.head?_cons, ne_eq, Option.some.injEq]
    constructor
    · intro hi; exact ⟨Or.inr hi, fun e => hk.1 (e ▸ hi)⟩
    · intro ⟨hi, hne⟩
      rcases hi with e | hi
      · exact absurd e.symm hne
      · exact hi

theorem length_eq_one_iff_of_nodup {l : List PyId} (hnd : l.Nodup) :
    l.length = 1 ↔ ∃ n, ∀ m, m ∈ l ↔ m = n := by
  match l, hnd with
  | [], _ => simp
  | [a], _ => simp; exact ⟨a, fun m => Iff.rfl⟩
  | a :: b :: t, hnd =>
    simp only [List.length_cons]
    constructor
    · intro hl; omega
    · intro ⟨n, hn⟩
      have ha : a = n := (hn a).1 (by simp)
      have hb : b = n := (hn b).1 (by simp)
      have : a ∉ b :: t := (List.nodup_cons.1 hnd).1
      exact absurd (by simp [ha, hb]) this

/-! ### `inter`: the edges containing every member of `e` -/

theorem mem_foldl_filter {s : HG} (t : List PyId) (init : List PyId) (f : PyId) :
    f ∈ t.foldl (fun acc m => acc.filter (fun f => decide (f ∈ s.memb m))) init ↔
      f ∈ init ∧ ∀ m ∈ t, f ∈ s.memb m := by
  induction t generalizing init with
  | nil => simp
  | cons a t ih =>
    simp only [List.foldl_cons, ih, List.mem_filter, decide_eq_true_eq, List.mem_cons, forall_eq_or_imp]
    constructor
    · intro ⟨⟨h1, h2⟩, h3⟩; exact ⟨h1, h2, h3⟩
    · intro ⟨h1, h2, h3⟩; exact ⟨⟨h1, h2⟩, h3⟩

theorem mem_inter {s : HG} (h : WF s) {e : PyId} (he : e ∈ s.edges) (f : PyId) :
    f ∈ inter s e ↔ f ∈ s.edges ∧ ∀ n ∈ s.mem e, n ∈ s.mem f := by
  unfold inter
  cases hm : s.mem e with
  | nil => simp
  | cons n t =>
    simp only [mem_foldl_filter]
    have hn : ∀ m ∈ n :: t, m ∈ s.nodes := fun m hmm => (h.e2n e he m (hm ▸ hmm)).1
    constructor
    · intro ⟨h1, h2⟩
      have hf : f ∈ s.edges := (h.n2e n (hn n (by simp)) f h1).1
      refine ⟨hf, ?_⟩
      intro m hmm
      rcases List.mem_cons.1 hmm with e1 | e1
      · subst e1; exact (h.n2e m (hn m (by simp)) f h1).2
      · exact (h.n2e m (hn m hmm) f (h2 m e1)).2
    · intro ⟨hf, h2⟩
      exact ⟨(h.e2n f hf n (h2 n (by simp))).2, fun m hmm => (h.e2n f hf m (h2 m (by simp [hmm]))).2⟩

end Xgi.C06
