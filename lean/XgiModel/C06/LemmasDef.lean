/-
  C06 — definitional facts.  Everything here holds by unfolding the model (`rfl`, `simp [def]`, or a
  two-line case split): it documents what the model functions of Views.lean / DiViews.lean compute and is
  used by the property theorems, but it is NOT counted as a proof obligation of the property — these
  statements restate definitions (e.g. `asnumpy := aslist`, `order := size - 1`), so their assurance
  comes from the correspondence run (model vs implementation on the same inputs), not from a proof.
-/
import XgiModel.C06.Lemmas
import XgiModel.C06.LemmasDi

namespace Xgi.C06
open Xgi Xgi.HG

/-! ### views, from_view, comparison modes -/

/-- `H.nodes` / `H.edges` iterate exactly the current IDs, in dict insertion order, each once -/
theorem views_list_current_ids {s : HG} (h : WF s) :
    keys s .node = s.nodes ∧ keys s .edge = s.edges ∧ (keys s .node).Nodup ∧ (keys s .edge).Nodup :=
  ⟨rfl, rfl, h.nodupN, h.nodupE⟩

/-- `from_view` raises exactly when the bunch names an absent ID -/
theorem fromView_none_iff (s : HG) (k : Kind) (b : List PyId) :
    fromView s k b = none ↔ ∃ i ∈ b, i ∉ keys s k := by
  unfold fromView
  by_cases hall : (b.all (fun i => decide (i ∈ keys s k))) = true
  · rw [if_pos hall]
    simp only [List.all_eq_true, decide_eq_true_eq] at hall
    constructor
    · intro h; cases h
    · intro ⟨i, hi, hn⟩; exact absurd (hall i hi) hn
  · rw [if_neg hall]
    simp only [List.all_eq_true, decide_eq_true_eq] at hall
    refine ⟨fun _ => ?_, fun _ => rfl⟩
    apply Classical.byContradiction; intro hne
    apply hall; intro i hi
    apply Classical.byContradiction; intro hn; exact hne ⟨i, hi, hn⟩

/-- … and otherwise lists the IDs of the bunch that are current, in view order -/
theorem fromView_spec {s : HG} {k : Kind} {b l : List PyId} (h : fromView s k b = some l) :
    (∀ i, i ∈ l ↔ i ∈ keys s k ∧ i ∈ b) ∧ l.Sublist (keys s k) := by
  unfold fromView at h
  split at h
  · cases h
    exact ⟨fun i => by simp [List.mem_filter], List.filter_sublist⟩
  · cases h

/-- order is size minus one, for every `degree` argument -/
theorem order_eq_size_sub_one (s : HG) (d : Option Int) (e : PyId) : order s d e = (size s d e : Int) - 1 := rfl

/-- an absent ID raises `IDNotFound` -/
theorem neighbors_absent (s : HG) (k : Kind) {i : PyId} (hi : i ∉ keys s k) (sp : Int) :
    neighbors s k i sp = none := by
  unfold neighbors; rw [if_pos hi]

/-- what each mode means -/
theorem cmp_spec (m : Mode) (v x y : Int) :
    cmp m v x y = true ↔ match m with
      | .eq => v = x | .neq => v ≠ x | .lt => v < x | .gt => v > x | .leq => v ≤ x | .geq => v ≥ x
      | .between => x ≤ v ∧ v ≤ y := by
  cases m <;> simp [cmp]

/-- on integer attribute values `filterby_attr` compares like `filterby` -/
theorem cmpVal_int (m : Mode) (v x y : Int) :
    cmpVal m (.sc (.int v)) (.sc (.int x)) (.sc (.int y)) = some (cmp m v x y) := by
  cases m <;> simp [cmpVal, cmp, valLe, valLt]
  · by_cases hxv : x ≤ v <;> simp [hxv]

/-- the unreported member is a member of the class -/
theorem rep_mem {g : List PyId} {r : PyId} (h : rep g = some r) : r ∈ g := by
  unfold rep at h
  split at h
  · rename_i l hs
    exact (sortedIds_perm hs).subset (List.mem_of_mem_head? h)
  · exact List.mem_of_mem_head? h

/-- size = |tail ∪ head|, tail_size = |tail|, head_size = |head|; every order is the size minus one -/
theorem di_size_spec (s : DiSt) (d : Option Int) (e : PyId) :
    s.size none e = (dedup (s.tail e ++ s.head e)).length ∧ s.tailSize none e = (s.tail e).length ∧
    s.headSize none e = (s.head e).length ∧ s.order d e = (s.size d e : Int) - 1 ∧
    s.tailOrder d e = (s.tailSize d e : Int) - 1 ∧ s.headOrder d e = (s.headSize d e : Int) - 1 :=
  ⟨rfl, rfl, rfl, rfl, rfl, rfl⟩

/-! ### output formats: each is a re-reading of the one evaluation `d` in view order -/

section formats
variable {α : Type} [Inhabited α]

theorem asdict_keys_view_order (view : List PyId) (d : List (PyId × α)) : (asdict view d).map (·.1) = view := by
  unfold asdict; simp [List.map_map, Function.comp_def]

theorem aslist_eq_asdict_values (view : List PyId) (d : List (PyId × α)) :
    aslist view d = (asdict view d).map (·.2) := by
  unfold aslist asdict; simp [List.map_map, Function.comp_def]

theorem asnumpy_eq_aslist (view : List PyId) (d : List (PyId × α)) : asnumpy view d = aslist view d := rfl

theorem aspandas_spec (view : List PyId) (d : List (PyId × α)) :
    (aspandas view d).1 = view ∧ (aspandas view d).2 = aslist view d := by
  unfold aspandas
  exact ⟨asdict_keys_view_order view d, (aslist_eq_asdict_values view d).symm⟩

theorem multi_asdict_keys_view_order (view : List PyId) (cols : List (String × List (PyId × α))) :
    (multiAsdict view cols).map (·.1) = view := by
  unfold multiAsdict; simp [List.map_map, Function.comp_def]

/-- the table, cell by cell -/
theorem multiVal_eq (view : List PyId) (cols : List (String × List (PyId × α))) :
    multiVal view cols = view.map (fun n => (n, cols.map (fun c => (c.1, dget (asdict view c.2) n)))) := by
  unfold multiVal; simp [List.map_map, Function.comp_def]

/-- rows of `aslist()` list the stats in the order given; the transposed forms are the single stats -/
theorem multi_rows {view : List PyId} (cols : List (String × List (PyId × α))) :
    multiAslist view cols = view.map (fun n => cols.map (fun c => dget (asdict view c.2) n)) ∧
    multiAslistT view cols = cols.map (fun c => aslist view c.2) ∧
    multiAsdictT view cols = cols.map (fun c => (c.1, asdict view c.2)) := by
  refine ⟨?_, rfl, rfl⟩
  unfold multiAslist
  simp only []
  apply List.map_congr_left
  intro n hn
  rw [multiVal_eq, dget_map_self (fun n => cols.map (fun c => (c.1, dget (asdict view c.2) n))) hn]
  simp [List.map_map, Function.comp_def]

/-- the data frame: index = view order, columns = the stat names, rows = `aslist()` -/
theorem multi_aspandas_spec {view : List PyId} (cols : List (String × List (PyId × α))) :
    (multiAspandas view cols).1 = view ∧ (multiAspandas view cols).2.1 = cols.map (·.1) ∧
    (multiAspandas view cols).2.2 = multiAslist view cols := by
  refine ⟨rfl, ?_, ?_⟩
  · unfold multiAspandas; simp [List.map_map, Function.comp_def]
  · rw [(multi_rows cols).1]; unfold multiAspandas; simp [List.map_map, Function.comp_def]

/-- `MultiIDStat.asnumpy()` is the table of `aslist()` (numpy is an oracle: an array is the list of its rows) -/
theorem multi_asnumpy_eq_aslist (view : List PyId) (cols : List (String × List (PyId × α))) :
    multiAsnumpy view cols = multiAslist view cols := rfl

end formats

end Xgi.C06
