/-
  C06, directed twin: DiNodeView / DiEdgeView and `dinodestats.py` / `diedgestats.py` on a directed
  incidence state.  The state has the four lookup functions of `DiHypergraph` under the names of
  C02/DHG.lean (`membIn n = _node[n]["in"]`, `membOut n = _node[n]["out"]`, `tail e = _edge[e]["in"]`,
  `head e = _edge[e]["out"]`); it is installed by the driver from the tables the implementation shows
  (the directed state machine itself is property C02's model; C06/Bridge.lean maps its states into
  `DiSt` and transfers C02's invariant, so the directed theorems hold at every state reachable there).

  Every directed statistic reads one node-side table and one edge-side table, so each is the undirected
  function of Views.lean on a *projection* of the state:
     `degree`            memberships in ∪ out,   edge size |tail ∪ head|         → `tot`
     `in_degree`         memberships in,         edge size |tail ∪ head|         → `inStat`
     `out_degree`        memberships out,        edge size |tail ∪ head|         → `outStat`
     `size`/`order`      members tail ∪ head,    node degree |in ∪ out|          → `tot`
     `tail_size`/…       members tail,           node degree |in ∪ out|          → `tailStat`
     `head_size`/…       members head,           node degree |in ∪ out|          → `headStat`
  The view queries (neighbors, lookup, duplicates, isolates, empty, filters) are the undirected ones on
  `tot` — the code after fix 0818101 (finding F6c), where the bipartite
  neighbours of a directed ID are its members / memberships regardless of direction.
  No Mathlib.
-/
import XgiModel.C06.Views

namespace Xgi.C06
open Xgi

structure DiSt where
  nodes : List PyId
  edges : List PyId
  membIn  : PyId → List PyId   -- `_node[n]["in"]`  : edges with n in the head
  membOut : PyId → List PyId   -- `_node[n]["out"]` : edges with n in the tail
  tail : PyId → List PyId      -- `_edge[e]["in"]`
  head : PyId → List PyId      -- `_edge[e]["out"]`
  nattr : PyId → Attrs
  eattr : PyId → Attrs

def DiSt.empty : DiSt :=
  { nodes := [], edges := [], membIn := fun _ => [], membOut := fun _ => [], tail := fun _ => [],
    head := fun _ => [], nattr := fun _ => [], eattr := fun _ => [] }
instance : Inhabited DiSt := ⟨DiSt.empty⟩

namespace DiSt

/-- `_edge[e]["in"].union(_edge[e]["out"])` -/
def mem (s : DiSt) (e : PyId) : List PyId := dedup (s.tail e ++ s.head e)
/-- `_node[n]["in"].union(_node[n]["out"])` -/
def memb (s : DiSt) (n : PyId) : List PyId := dedup (s.membIn n ++ s.membOut n)

/-- the undirected reading of the state through one node-side and one edge-side table -/
def proj (s : DiSt) (memb mem : PyId → List PyId) : HG :=
  { HG.empty with nodes := s.nodes, edges := s.edges, memb := memb, mem := mem,
                  nattrK := s.nodes, eattrK := s.edges, nattr := s.nattr, eattr := s.eattr }

def tot (s : DiSt) : HG := s.proj s.memb s.mem
def inP (s : DiSt) : HG := s.proj s.membIn s.head
def outP (s : DiSt) : HG := s.proj s.membOut s.tail
def inStat (s : DiSt) : HG := s.proj s.membIn s.mem
def outStat (s : DiSt) : HG := s.proj s.membOut s.mem
def tailStat (s : DiSt) : HG := s.proj s.memb s.tail
def headStat (s : DiSt) : HG := s.proj s.memb s.head

/-! ### dinodestats -/

def degree (s : DiSt) (order : Option Int) (n : PyId) : Nat := C06.degree s.tot order n
def inDegree (s : DiSt) (order : Option Int) (n : PyId) : Nat := C06.degree s.inStat order n
def outDegree (s : DiSt) (order : Option Int) (n : PyId) : Nat := C06.degree s.outStat order n
def degreeW (s : DiSt) (order : Option Int) (w : String) (n : PyId) : Except StatErr Int := C06.degreeW s.tot order w n
def inDegreeW (s : DiSt) (order : Option Int) (w : String) (n : PyId) : Except StatErr Int := C06.degreeW s.inStat order w n
def outDegreeW (s : DiSt) (order : Option Int) (w : String) (n : PyId) : Except StatErr Int := C06.degreeW s.outStat order w n

/-! ### diedgestats -/

def size (s : DiSt) (deg : Option Int) (e : PyId) : Nat := C06.size s.tot deg e
def tailSize (s : DiSt) (deg : Option Int) (e : PyId) : Nat := C06.size s.tailStat deg e
def headSize (s : DiSt) (deg : Option Int) (e : PyId) : Nat := C06.size s.headStat deg e
def order (s : DiSt) (deg : Option Int) (e : PyId) : Int := C06.order s.tot deg e
def tailOrder (s : DiSt) (deg : Option Int) (e : PyId) : Int := C06.order s.tailStat deg e
def headOrder (s : DiSt) (deg : Option Int) (e : PyId) : Int := C06.order s.headStat deg e

end DiSt
end Xgi.C06
