/-
  C06 — model of the views (`xgi/core/views.py`: IDView / NodeView / EdgeView) and of the statistics
  machinery (`xgi/stats/__init__.py`: IDStat / MultiIDStat, `xgi/stats/nodestats.py`, `edgestats.py`)
  on the undirected state-machine model `HG`.

  Nothing here has a cache: a view is "which table" (`Kind`) plus, for a filtered view, the list of IDs
  that `from_view` computed; every statistic is a plain function of the CURRENT state `s : HG`.
  (That the Python objects behave like this when they are held across mutations is a fact about object
  aliasing; it is exhibited by the correspondence check, which keeps the Python objects alive over a
  whole edit history and compares them with these functions after every call.)

  Python sets are duplicate-free lists whose order is never observed (the comparer sorts them).
  `IDStat._val` evaluates `func(net, set(view ids))`, i.e. it builds a dict in *set-iteration order*:
  that order is an explicit oracle argument (`evalStat f order`); the output formats read the dict back
  in view order, and the theorems in Props/C06.lean state that no format depends on the oracle.

  The model describes the code after the fixes of finding F6 (in /repo since f2218c9, 8eb4626):
    (a) `aspandas()` (single stat and multi) is indexed in view order;
    (b) `EdgeView.maximal()` treats an empty edge by the definition (it is contained in every edge).
  No Mathlib.
-/
import XgiModel.Core.HG

namespace Xgi.C06
open Xgi Xgi.HG

/-- which of the two views: `H.nodes` (NodeView) or `H.edges` (EdgeView) -/
inductive Kind where
  | node
  | edge
  deriving DecidableEq, Repr, Inhabited

/-- the other side of the bipartite incidence (`_bi_id_dict`) -/
def Kind.bi : Kind → Kind
  | .node => .edge
  | .edge => .node

/-- keys of the view's `_id_dict`, in insertion order: what `iter(H.nodes)` / `iter(H.edges)` yields -/
def keys (s : HG) : Kind → List PyId
  | .node => s.nodes
  | .edge => s.edges

/-- `_id_dict[i]`: memberships of a node / members of an edge -/
def tab (s : HG) : Kind → PyId → List PyId
  | .node => s.memb
  | .edge => s.mem

/-- `_id_attr[i]` -/
def attrOf (s : HG) : Kind → PyId → Attrs
  | .node => s.nattr
  | .edge => s.eattr

/-- `IDView.from_view(view, bunch)`: `IDNotFound` (`none`) when the bunch names an ID that is not a key of
    the network's dict; otherwise `[i for i in view._id_dict if i in bunch]` -/
def fromView (s : HG) (k : Kind) (bunch : List PyId) : Option (List PyId) :=
  if bunch.all (fun i => decide (i ∈ keys s k)) then some ((keys s k).filter (fun i => decide (i ∈ bunch))) else none

/-! ### statistics: plain functions of the current state -/

/-- `nodestats.degree(net, bunch, order, weight=None)[n]` -/
def degree (s : HG) (order : Option Int) (n : PyId) : Nat :=
  match order with
  | none => (s.memb n).length
  | some k => ((s.memb n).filter (fun e => decide (((s.mem e).length : Int) = k + 1))).length

/-- a weighted degree can raise (`sum` over non-numbers); bool/float attribute values are outside the
    attribute domain of the models -/
inductive StatErr where
  | typeError
  | unmodelled
  deriving DecidableEq, Repr, Inhabited

/-- `net._edge_attr[e].get(weight, 1)` as a summand of `sum(…)` -/
def weightOf (s : HG) (w : String) (e : PyId) : Except StatErr Int :=
  match (s.eattr e).get? w with
  | none => .ok 1
  | some (.sc (.int i)) => .ok i
  | some (.sc (.opaque _)) => .error .unmodelled
  | some _ => .error .typeError

/-- the edges that `degree(order=…)` ranges over -/
def degEdges (s : HG) (order : Option Int) (n : PyId) : List PyId :=
  match order with
  | none => s.memb n
  | some k => (s.memb n).filter (fun e => decide (((s.mem e).length : Int) = k + 1))

/-- `nodestats.degree(net, bunch, order, weight=w)[n]` for a non-empty attribute name `w`
    (the set-iteration order of the summation is not observable except through which error comes first:
    `unmodelled` wins) -/
def degreeW (s : HG) (order : Option Int) (w : String) (n : PyId) : Except StatErr Int :=
  let ws := (degEdges s order n).map (weightOf s w)
  if ws.any (fun r => match r with | .error .unmodelled => true | _ => false) then .error .unmodelled
  else if ws.any (fun r => match r with | .error _ => true | _ => false) then .error .typeError
  else .ok ((ws.map (fun r => match r with | .ok i => i | .error _ => 0)).sum)

/-- `edgestats.size(net, bunch, degree)[e]` -/
def size (s : HG) (deg : Option Int) (e : PyId) : Nat :=
  match deg with
  | none => (s.mem e).length
  | some d => ((s.mem e).filter (fun n => decide (((s.memb n).length : Int) = d))).length

/-- `edgestats.order(net, bunch, degree)[e]` -/
def order (s : HG) (deg : Option Int) (e : PyId) : Int := (size s deg e : Int) - 1

/-- `attrs(net, bunch, attr, missing)[i] = _id_attr[i].get(attr, missing)` -/
def attrGet (s : HG) (k : Kind) (a : String) (missing : Val) (i : PyId) : Val :=
  ((attrOf s k i).get? a).getD missing

/-! ### set-theoretic queries of IDView -/

/-- `IDView.neighbors(idx, s)`; `none` = `IDNotFound` (`_id_dict[idx]` of an absent ID).
    For `s = 1` every ID sharing a bipartite neighbour; otherwise only those whose bipartite
    neighbourhoods intersect in at least `s` IDs. -/
def neighbors (s : HG) (k : Kind) (idx : PyId) (sp : Int) : Option (List PyId) :=
  if idx ∉ keys s k then none else
  some (rm idx (dedup (((tab s k idx).flatMap (tab s k.bi)).filter (fun i =>
    decide (sp = 1) || decide ((((tab s k idx).filter (fun x => decide (x ∈ tab s k i))).length : Int) ≥ sp)))))

/-- `nodestats.average_neighbor_degree(net, bunch)[n]` -/
def avgNbrDeg (s : HG) (n : PyId) : Rat :=
  let nb := (neighbors s .node n 1).getD []
  if nb.isEmpty then 0 else (nb.map (fun m => ((s.memb m).length : Rat))).sum / (nb.length : Rat)

/-- the list `hashes[frozenset(_id_dict[i])]` of `duplicates()` / `dups[frozenset(e)]` of `maximal()`:
    the IDs with the same bipartite neighbours as `i`, in dict order -/
def classOf (s : HG) (k : Kind) (i : PyId) : List PyId :=
  (keys s k).filter (fun j => sameSet (tab s k j) (tab s k i))

/-- `sorted(edges)[1:]`, or `edges[1:]` when the IDs cannot be sorted (`TypeError`) -/
def dupsOfGroup (g : List PyId) : List PyId :=
  match sortedIds g with
  | some l => l.drop 1
  | none => g.drop 1

/-- `IDView.duplicates()`: loop over the groups in first-occurrence order, then `from_view` -/
def duplicates (s : HG) (k : Kind) : List PyId :=
  let firsts := (keys s k).filter (fun i => (classOf s k i).head? = some i)
  let dups := firsts.flatMap (fun i => let g := classOf s k i; if g.length > 1 then dupsOfGroup g else [])
  (keys s k).filter (fun i => decide (i ∈ dups))

/-- `IDView.lookup(neighbors)` -/
def lookup (s : HG) (k : Kind) (sought : List PyId) : List PyId :=
  let found := (keys s k).filter (fun i => sameSet (tab s k i) sought)
  (keys s k).filter (fun i => decide (i ∈ found))

/-- `NodeView.isolates(ignore_singletons)` -/
def isolates (s : HG) (ignoreSingletons : Bool) : List PyId :=
  if ignoreSingletons then
    let nodesInEdges := (s.edges.filter (fun e => (s.mem e).length ≠ 1)).flatMap s.mem
    let iso := s.nodes.filter (fun n => decide (n ∉ nodesInEdges))
    s.nodes.filter (fun n => decide (n ∈ iso))
  else
    -- `self.filterby("degree", 0)`
    let bunch := s.nodes.filter (fun n => decide (degree s none n = 0))
    s.nodes.filter (fun n => decide (n ∈ bunch))

/-- `EdgeView.singletons()` = `filterby("size", 1)` -/
def singletons (s : HG) : List PyId :=
  let bunch := s.edges.filter (fun e => decide (size s none e = 1))
  s.edges.filter (fun e => decide (e ∈ bunch))

/-- `EdgeView.empty()` = `filterby("size", 0)` -/
def empty (s : HG) : List PyId :=
  let bunch := s.edges.filter (fun e => decide (size s none e = 0))
  s.edges.filter (fun e => decide (e ∈ bunch))

/-- `reduce(lambda x, y: x & y, (nodes[n] for n in e))`, with the repaired treatment of an empty edge:
    the intersection over no node at all is the set of all edge IDs -/
def inter (s : HG) (e : PyId) : List PyId :=
  match s.mem e with
  | [] => s.edges
  | n :: t => t.foldl (fun acc m => acc.filter (fun f => decide (f ∈ s.memb m))) (s.memb n)

/-- `EdgeView.maximal(strict)`: strict — the only edge containing all members of `e` is `e` itself;
    non-strict — the edges containing all members of `e` are exactly the copies of `e` (the loop adds all
    copies at once and skips IDs already added; every copy passes the same test, so this is a filter) -/
def maximal (s : HG) (strict : Bool) : List PyId :=
  let maxEdges :=
    if strict then s.edges.filter (fun e => sameSet (inter s e) [e])
    else s.edges.filter (fun e => sameSet (inter s e) (classOf s .edge e))
  s.edges.filter (fun e => decide (e ∈ maxEdges))

/-! ### output formats of one statistic (`IDStat`) -/

section formats
variable {α : Type} [Inhabited α]

/-- `IDStat._val = func(net, set(view ids))`: a dict built in set-iteration order `order` -/
def evalStat (f : PyId → α) (order : List PyId) : List (PyId × α) := order.map (fun i => (i, f i))

/-- `d[i]` -/
def dget (d : List (PyId × α)) (i : PyId) : α := ((d.find? (fun p => p.1 = i)).map (·.2)).getD default

/-- `asdict()`: `{n: val[n] for n in self.view}` -/
def asdict (view : List PyId) (d : List (PyId × α)) : List (PyId × α) := view.map (fun n => (n, dget d n))
/-- `aslist()`: `[val[n] for n in self.view]` -/
def aslist (view : List PyId) (d : List (PyId × α)) : List α := view.map (fun n => dget d n)
/-- `asnumpy()`: `np.array(self.aslist())` (a numpy array is the list of its entries) -/
def asnumpy (view : List PyId) (d : List (PyId × α)) : List α := aslist view d
/-- `aspandas()` with the repair: `pd.Series(self.asdict(), name=self.name)` = (index, values) -/
def aspandas (view : List PyId) (d : List (PyId × α)) : List PyId × List α :=
  let dict := asdict view d
  (dict.map (·.1), dict.map (·.2))

/-! ### `MultiIDStat`: a table derived from the `asdict()` of each stat -/

/-- `_val`: `{n: {s.name: result[s.name][n] for s in stats} for n in view}` with
    `result = {s.name: s.asdict()}`; `cols` = (name, `_val` of that stat) -/
def multiVal (view : List PyId) (cols : List (String × List (PyId × α))) : List (PyId × List (String × α)) :=
  let result := cols.map (fun c => (c.1, asdict view c.2))
  view.map (fun n => (n, result.map (fun c => (c.1, dget c.2 n))))

/-- `d[name]` on an inner dict -/
def sget (d : List (String × α)) (k : String) : α := ((d.find? (fun p => p.1 = k)).map (·.2)).getD default

/-- `asdict(inner=dict)` -/
def multiAsdict (view : List PyId) (cols : List (String × List (PyId × α))) : List (PyId × List (String × α)) :=
  let val := multiVal view cols
  view.map (fun n => (n, dget val n))
/-- `asdict(transpose=True)`: `{s.name: s.asdict() for s in stats}` -/
def multiAsdictT (view : List PyId) (cols : List (String × List (PyId × α))) : List (String × List (PyId × α)) :=
  cols.map (fun c => (c.1, asdict view c.2))
/-- `aslist(inner=list)`: `[list(val[n].values()) for n in view]` -/
def multiAslist (view : List PyId) (cols : List (String × List (PyId × α))) : List (List α) :=
  let val := multiVal view cols
  view.map (fun n => (dget val n).map (·.2))
/-- `aslist(transpose=True)`: `[s.aslist() for s in stats]` -/
def multiAslistT (view : List PyId) (cols : List (String × List (PyId × α))) : List (List α) :=
  cols.map (fun c => aslist view c.2)
/-- `aspandas()` with the repair: one Series per stat built from `s.asdict()`, concatenated on the
    columns axis = (index, column names, rows) -/
def multiAspandas (view : List PyId) (cols : List (String × List (PyId × α))) :
    List PyId × List String × List (List α) :=
  let result := cols.map (fun c => (c.1, asdict view c.2))
  (view, result.map (·.1), view.map (fun n => result.map (fun c => dget c.2 n)))

/-- `MultiIDStat.asnumpy()`: `np.array(self.aslist(inner=list))` — a 2-d array is the list of its rows
    (rows = IDs of the view, columns = stats); definitional, numpy is an oracle -/
def multiAsnumpy (view : List PyId) (cols : List (String × List (PyId × α))) : List (List α) :=
  multiAslist view cols

end formats

/-! ### aggregates of one numeric statistic (`IDStat.max/min/sum/mean/median/var/moment/argmax/argmin/argsort/unique`)

  All of them read `asdict()` / `asnumpy()`; `vals` is `aslist()` as rationals, `f` the value per ID.
  numpy's reductions appear as the pure functions they are documented to be (exact arithmetic; the
  correspondence check compares floats by the float rule).  `std` is the square root of `var` and is
  compared at run time only. -/

/-- insert `x` in front of the first element it is `le` to -/
def insertBy {α : Type} (le : α → α → Bool) (x : α) : List α → List α
  | [] => [x]
  | y :: t => if le x y then x :: y :: t else y :: insertBy le x t

/-- stable insertion sort: what `sorted` / `np.sort` return for a total preorder `le` (every stable sort
    returns the same list; structural recursion, so it evaluates by `decide`) -/
def sortBy {α : Type} (le : α → α → Bool) (l : List α) : List α := l.foldr (insertBy le) []

/-- `max(...)`: the first largest element (Python's `max` keeps the first maximum) -/
def aggMax (vals : List Rat) : Option Rat :=
  vals.foldl (fun acc v => match acc with | none => some v | some m => if m < v then some v else some m) none
def aggMin (vals : List Rat) : Option Rat :=
  vals.foldl (fun acc v => match acc with | none => some v | some m => if v < m then some v else some m) none
def aggSum (vals : List Rat) : Rat := vals.sum
/-- `np.mean` -/
def aggMean (vals : List Rat) : Rat := vals.sum / (vals.length : Rat)
/-- `np.mean(arr ** k)`: the raw moment (`moment(order=k, center=False)`) -/
def aggMoment (k : Nat) (vals : List Rat) : Rat := aggMean (vals.map (· ^ k))
/-- `scipy.stats.moment(arr, moment=k)`: the central moment (`moment(order=k, center=True)`); `var` is `k = 2` -/
def aggCMoment (k : Nat) (vals : List Rat) : Rat := aggMean (vals.map (fun v => (v - aggMean vals) ^ k))
def aggVar (vals : List Rat) : Rat := aggCMoment 2 vals
/-- `np.median`: middle element of the sorted values, or the mean of the two middle ones -/
def aggMedian (vals : List Rat) : Rat :=
  let s := sortBy (fun a b => decide (a ≤ b)) vals
  let n := s.length
  if n % 2 = 1 then s.getD (n / 2) 0 else (s.getD (n / 2 - 1) 0 + s.getD (n / 2) 0) / 2
/-- `np.unique`: the sorted distinct values -/
def aggUnique (vals : List Rat) : List Rat := (sortBy (fun a b => decide (a ≤ b)) vals).eraseDups
/-- `np.unique(return_counts=True)[1]` -/
def aggCounts (vals : List Rat) : List Nat := (aggUnique vals).map (fun u => vals.count u)

/-- `argmax()`: `max(d, key=d.get)` over `d = asdict()` — the FIRST ID in view order with the largest value -/
def argmax (view : List PyId) (f : PyId → Rat) : Option PyId :=
  view.foldl (fun acc i => match acc with | none => some i | some b => if f b < f i then some i else some b) none
/-- `argmin()`: `min(d, key=d.get)` — the first ID in view order with the smallest value -/
def argmin (view : List PyId) (f : PyId → Rat) : Option PyId :=
  view.foldl (fun acc i => match acc with | none => some i | some b => if f i < f b then some i else some b) none
/-- the comparison `sorted(d, key=d.get, reverse=rev)` sorts by -/
def argsortLe (f : PyId → Rat) (rev : Bool) (a b : PyId) : Bool :=
  if rev then decide (f b ≤ f a) else decide (f a ≤ f b)
/-- `argsort(reverse)`: `sorted` is stable, also with `reverse=True` -/
def argsort (view : List PyId) (f : PyId → Rat) (rev : Bool) : List PyId := sortBy (argsortLe f rev) view

/-- the member of a class of equal IDs that `duplicates()` does not report (specification only, used by
    the statement of `duplicates_spec`; the driver runs `duplicates`): the smallest under Python's
    ordering when the IDs can be sorted, else the first in dict order -/
def rep (g : List PyId) : Option PyId :=
  match sortedIds g with
  | some l => l.head?
  | none => g.head?

/-! ### filterby / filterby_attr -/

inductive Mode where
  | eq | neq | lt | gt | leq | geq | between
  deriving DecidableEq, Repr, Inhabited

/-- the comparison a mode stands for (`y` is the second bound of `between`) -/
def cmp {α : Type} [DecidableEq α] [LT α] [LE α] [DecidableLT α] [DecidableLE α]
    (m : Mode) (v x y : α) : Bool :=
  match m with
  | .eq => decide (v = x)
  | .neq => decide (v ≠ x)
  | .lt => decide (v < x)
  | .gt => decide (x < v)
  | .leq => decide (v ≤ x)
  | .geq => decide (x ≤ v)
  | .between => decide (x ≤ v) && decide (v ≤ y)

/-- `IDView.filterby(stat, val, mode)`: `values = stat.asdict()` (passed as `d`), the comprehension over
    the view, then `from_view`; `none` = `IDNotFound` raised by `from_view` -/
def filterby {α : Type} [Inhabited α] [DecidableEq α] [LT α] [LE α] [DecidableLT α] [DecidableLE α]
    (s : HG) (k : Kind) (view : List PyId) (d : List (PyId × α)) (m : Mode) (x y : α) : Option (List PyId) :=
  let values := asdict view d
  fromView s k (view.filter (fun i => cmp m (dget values i) x y))

/-- Python's `<=` between attribute values: defined between two ints and between two strings,
    `TypeError` (`none`) otherwise -/
def valLe (a b : Val) : Option Bool :=
  match a, b with
  | .sc (.int i), .sc (.int j) => some (decide (i ≤ j))
  | .sc (.str i), .sc (.str j) => some (decide (i ≤ j))
  | _, _ => none
def valLt (a b : Val) : Option Bool :=
  match a, b with
  | .sc (.int i), .sc (.int j) => some (decide (i < j))
  | .sc (.str i), .sc (.str j) => some (decide (i < j))
  | _, _ => none

/-- the comparison of `filterby_attr` on a non-`None` value; `none` = `TypeError`.
    `between` is the chained comparison `val[0] <= v <= val[1]`: the second half is evaluated only when
    the first holds. -/
def cmpVal (m : Mode) (v x y : Val) : Option Bool :=
  match m with
  | .eq => some (decide (v = x))
  | .neq => some (decide (v ≠ x))
  | .lt => valLt v x
  | .gt => valLt x v
  | .leq => valLe v x
  | .geq => valLe x v
  | .between => match valLe x v with
    | none => none
    | some false => some false
    | some true => valLe v y

def isNoneVal (v : Val) : Bool := decide (v = .sc .none)

/-- `IDView.filterby_attr(attr, val, mode, missing)`: values `None` are skipped; a comparison that raises
    makes the call raise (`typeError`); `lib` = `IDNotFound` from `from_view` -/
def filterbyAttr (s : HG) (k : Kind) (view : List PyId) (a : String) (m : Mode) (x y : Val) (missing : Val) :
    Except ErrKind (List PyId) :=
  let values := asdict view (evalStat (attrGet s k a missing) view)
  let cand := view.filter (fun i => !isNoneVal (dget values i))
  if cand.any (fun i => (cmpVal m (dget values i) x y).isNone) then .error .typeError else
  match fromView s k (cand.filter (fun i => cmpVal m (dget values i) x y = some true)) with
  | none => .error .lib
  | some l => .ok l

end Xgi.C06
