/-
  C06 helper lemmas for the IDStat aggregates: the `max(d, key=d.get)` / `min` folds keep the first extremum,
  the comparison `sorted` uses is a total preorder.
-/
import XgiModel.C06.Lemmas

namespace Xgi.C06
open Xgi Xgi.HG

theorem argmax_fold (f : PyId → Rat) (l : List PyId) (b : PyId) :
    ∃ i, l.foldl (fun acc i => match acc with | none => some i | some b => if f b < f i then some i else some b) (some b) = some i ∧
      ((i = b ∧ ∀ j ∈ l, f j ≤ f b) ∨
       (∃ pre post, l = pre ++ i :: post ∧ f b < f i ∧ (∀ j ∈ pre, f j < f i) ∧ ∀ j ∈ post, f j ≤ f i)) := by
  induction l generalizing b with
  | nil => exact ⟨b, rfl, Or.inl ⟨rfl, by simp⟩⟩
  | cons a t ih =>
    simp only [List.foldl_cons]
    by_cases hlt : f b < f a
    · simp only [hlt, if_true]
      obtain ⟨i, hi, hc⟩ := ih a
      refine ⟨i, hi, Or.inr ?_⟩
      rcases hc with ⟨rfl, hall⟩ | ⟨pre, post, rfl, h1, h2, h3⟩
      · exact ⟨[], t, rfl, hlt, by simp, hall⟩
      · refine ⟨a :: pre, post, rfl, by grind, ?_, h3⟩
        intro j hj
        rcases List.mem_cons.1 hj with rfl | hj
        · exact h1
        · exact h2 j hj
    · simp only [hlt, if_false]
      obtain ⟨i, hi, hc⟩ := ih b
      refine ⟨i, hi, ?_⟩
      rcases hc with ⟨rfl, hall⟩ | ⟨pre, post, rfl, h1, h2, h3⟩
      · refine Or.inl ⟨rfl, ?_⟩
        intro j hj
        rcases List.mem_cons.1 hj with rfl | hj
        · grind
        · exact hall j hj
      · refine Or.inr ⟨a :: pre, post, rfl, h1, ?_, h3⟩
        intro j hj
        rcases List.mem_cons.1 hj with rfl | hj
        · grind
        · exact h2 j hj

theorem argmin_fold (f : PyId → Rat) (l : List PyId) (b : PyId) :
    ∃ i, l.foldl (fun acc i => match acc with | none => some i | some b => if f i < f b then some i else some b) (some b) = some i ∧
      ((i = b ∧ ∀ j ∈ l, f b ≤ f j) ∨
       (∃ pre post, l = pre ++ i :: post ∧ f i < f b ∧ (∀ j ∈ pre, f i < f j) ∧ ∀ j ∈ post, f i ≤ f j)) := by
  induction l generalizing b with
  | nil => exact ⟨b, rfl, Or.inl ⟨rfl, by simp⟩⟩
  | cons a t ih =>
    simp only [List.foldl_cons]
    by_cases hlt : f a < f b
    · simp only [hlt, if_true]
      obtain ⟨i, hi, hc⟩ := ih a
      refine ⟨i, hi, Or.inr ?_⟩
      rcases hc with ⟨rfl, hall⟩ | ⟨pre, post, rfl, h1, h2, h3⟩
      · exact ⟨[], t, rfl, hlt, by simp, hall⟩
      · refine ⟨a :: pre, post, rfl, by grind, ?_, h3⟩
        intro j hj
        rcases List.mem_cons.1 hj with rfl | hj
        · exact h1
        · exact h2 j hj
    · simp only [hlt, if_false]
      obtain ⟨i, hi, hc⟩ := ih b
      refine ⟨i, hi, ?_⟩
      rcases hc with ⟨rfl, hall⟩ | ⟨pre, post, rfl, h1, h2, h3⟩
      · refine Or.inl ⟨rfl, ?_⟩
        intro j hj
        rcases List.mem_cons.1 hj with rfl | hj
        · grind
        · exact hall j hj
      · refine Or.inr ⟨a :: pre, post, rfl, h1, ?_, h3⟩
        intro j hj
        rcases List.mem_cons.1 hj with rfl | hj
        · grind
        · exact h2 j hj

theorem argsortLe_trans (f : PyId → Rat) (rev : Bool) (a b c : PyId) :
    argsortLe f rev a b = true → argsortLe f rev b c = true → argsortLe f rev a c = true := by
  unfold argsortLe; cases rev <;> simp <;> grind

theorem argsortLe_total (f : PyId → Rat) (rev : Bool) (a b : PyId) :
    (argsortLe f rev a b || argsortLe f rev b a) = true := by
  unfold argsortLe; cases rev <;> simp <;> grind

theorem aggMax_fold (l : List Rat) (m : Rat) :
    ∃ r, l.foldl (fun acc v => match acc with | none => some v | some m => if m < v then some v else some m) (some m) = some r ∧
      (r = m ∨ r ∈ l) ∧ m ≤ r ∧ ∀ v ∈ l, v ≤ r := by
  induction l generalizing m with
  | nil => exact ⟨m, rfl, Or.inl rfl, by grind, by simp⟩
  | cons a t ih =>
    simp only [List.foldl_cons]
    by_cases hlt : m < a
    · simp only [hlt, if_true]
      obtain ⟨r, hr, hm, hle, hall⟩ := ih a
      refine ⟨r, hr, Or.inr ?_, by grind, ?_⟩
      · rcases hm with rfl | hm
        · simp
        · simp [hm]
      · intro v hv
        rcases List.mem_cons.1 hv with rfl | hv
        · exact hle
        · exact hall v hv
    · simp only [hlt, if_false]
      obtain ⟨r, hr, hm, hle, hall⟩ := ih m
      refine ⟨r, hr, ?_, hle, ?_⟩
      · rcases hm with rfl | hm
        · exact Or.inl rfl
        · exact Or.inr (by simp [hm])
      · intro v hv
        rcases List.mem_cons.1 hv with rfl | hv
        · grind
        · exact hall v hv

theorem aggMin_fold (l : List Rat) (m : Rat) :
    ∃ r, l.foldl (fun acc v => match acc with | none => some v | some m => if v < m then some v else some m) (some m) = some r ∧
      (r = m ∨ r ∈ l) ∧ r ≤ m ∧ ∀ v ∈ l, r ≤ v := by
  induction l generalizing m with
  | nil => exact ⟨m, rfl, Or.inl rfl, by grind, by simp⟩
  | cons a t ih =>
    simp only [List.foldl_cons]
    by_cases hlt : a < m
    · simp only [hlt, if_true]
      obtain ⟨r, hr, hm, hle, hall⟩ := ih a
      refine ⟨r, hr, Or.inr ?_, by grind, ?_⟩
      · rcases hm with rfl | hm
        · simp
        · simp [hm]
      · intro v hv
        rcases List.mem_cons.1 hv with rfl | hv
        · exact hle
        · exact hall v hv
    · simp only [hlt, if_false]
      obtain ⟨r, hr, hm, hle, hall⟩ := ih m
      refine ⟨r, hr, ?_, hle, ?_⟩
      · rcases hm with rfl | hm
        · exact Or.inl rfl
        · exact Or.inr (by simp [hm])
      · intro v hv
        rcases List.mem_cons.1 hv with rfl | hv
        · grind
        · exact hall v hv

theorem argmax_value (f : PyId → Rat) (view : List PyId) : (argmax view f).map f = aggMax (view.map f) := by
  unfold argmax aggMax
  have : ∀ (l : List PyId) (acc : Option PyId),
      (l.foldl (fun acc i => match acc with | none => some i | some b => if f b < f i then some i else some b) acc).map f
      = (l.map f).foldl (fun acc v => match acc with | none => some v | some m => if m < v then some v else some m) (acc.map f) := by
    intro l
    induction l with
    | nil => intro acc; rfl
    | cons a t ih =>
      intro acc
      simp only [List.foldl_cons, List.map_cons]
      rw [ih]
      congr 1
      cases acc with
      | none => rfl
      | some b => by_cases h : f b < f a <;> simp [h]
  exact this view none

theorem argmin_value (f : PyId → Rat) (view : List PyId) : (argmin view f).map f = aggMin (view.map f) := by
  unfold argmin aggMin
  have : ∀ (l : List PyId) (acc : Option PyId),
      (l.foldl (fun acc i => match acc with | none => some i | some b => if f i < f b then some i else some b) acc).map f
      = (l.map f).foldl (fun acc v => match acc with | none => some v | some m => if v < m then some v else some m) (acc.map f) := by
    intro l
    induction l with
    | nil => intro acc; rfl
    | cons a t ih =>
      intro acc
      simp only [List.foldl_cons, List.map_cons]
      rw [ih]
      congr 1
      cases acc with
      | none => rfl
      | some b => by_cases h : f a < f b <;> simp [h]
  exact this view none

/-! ### the stable insertion sort -/

section sort
variable {α : Type} {le : α → α → Bool}

theorem insertBy_perm (x : α) (l : List α) : (insertBy le x l).Perm (x :: l) := by
  induction l with
  | nil => simp [insertBy]
  | cons y t ih =>
    simp only [insertBy]
    split
    · exact List.Perm.refl _
    · exact (List.Perm.cons y ih).trans (List.Perm.swap x y t)

theorem sortBy_perm (l : List α) : (sortBy le l).Perm l := by
  induction l with
  | nil => exact List.Perm.refl _
  | cons x t ih => exact (insertBy_perm x _).trans (List.Perm.cons x ih)

theorem sublist_insertBy (x : α) (l : List α) : l.Sublist (insertBy le x l) := by
  induction l with
  | nil => simp [insertBy]
  | cons y t ih =>
    simp only [insertBy]
    split
    · exact List.sublist_cons_self _ _
    · exact List.Sublist.cons_cons y ih

theorem insertBy_pairwise (htr : ∀ a b c, le a b = true → le b c = true → le a c = true)
    (htot : ∀ a b, (le a b || le b a) = true) (x : α) {l : List α} (h : l.Pairwise (fun a b => le a b = true)) :
    (insertBy le x l).Pairwise (fun a b => le a b = true) := by
  induction l with
  | nil => simp [insertBy]
  | cons y t ih =>
    have hy := List.pairwise_cons.1 h
    simp only [insertBy]
    split
    · rename_i hxy
      refine List.pairwise_cons.2 ⟨?_, h⟩
      intro z hz
      rcases List.mem_cons.1 hz with rfl | hz
      · exact hxy
      · exact htr _ _ _ hxy (hy.1 z hz)
    · rename_i hxy
      have hyx : le y x = true := by
        have := htot x y
        simp only [Bool.or_eq_true] at this
        rcases this with h1 | h1
        · exact absurd h1 hxy
        · exact h1
      refine List.pairwise_cons.2 ⟨?_, ih hy.2⟩
      intro z hz
      rcases List.mem_cons.1 ((insertBy_perm x t).subset hz) with rfl | hz
      · exact hyx
      · exact hy.1 z hz

theorem sortBy_pairwise (htr : ∀ a b c, le a b = true → le b c = true → le a c = true)
    (htot : ∀ a b, (le a b || le b a) = true) (l : List α) : (sortBy le l).Pairwise (fun a b => le a b = true) := by
  induction l with
  | nil => simp [sortBy]
  | cons x t ih => exact insertBy_pairwise htr htot x ih

/-- inserting `x` into a sorted list puts it before every element it is `le` to -/
theorem pair_sublist_insertBy (x b : α) {l : List α} (hb : b ∈ l) (hxb : le x b = true)
    (hs : l.Pairwise (fun a b => le a b = true)) :
    [x, b].Sublist (insertBy le x l) := by
  induction l with
  | nil => cases hb
  | cons y t ih =>
    have hy := List.pairwise_cons.1 hs
    simp only [insertBy]
    split
    · exact List.Sublist.cons_cons x (List.singleton_sublist.2 hb)
    · rename_i hxy
      rcases List.mem_cons.1 hb with rfl | hbt
      · exact absurd hxb hxy
      · exact List.Sublist.cons y (ih hbt hy.2)

/-- stability: two elements in `le` order that occur in this order in `l` keep their order -/
theorem pair_sublist_sortBy (htr : ∀ a b c, le a b = true → le b c = true → le a c = true)
    (htot : ∀ a b, (le a b || le b a) = true) {a b : α} (hab : le a b = true) {l : List α}
    (h : [a, b].Sublist l) : [a, b].Sublist (sortBy le l) := by
  induction l with
  | nil => cases h
  | cons x t ih =>
    show [a, b].Sublist (insertBy le x (sortBy le t))
    cases h with
    | cons _ h' => exact (ih h').trans (sublist_insertBy x _)
    | cons_cons _ h' =>
      have hb : b ∈ sortBy le t := (sortBy_perm t).mem_iff.2 (List.singleton_sublist.1 h')
      exact pair_sublist_insertBy a b hb hab (sortBy_pairwise htr htot t)

end sort

end Xgi.C06
