/-
  C06 helper lemmas for the directed twin: the directed incidence invariant (the clauses of C02's `WFd`
  that concern the incidence) and the fact that each projection used by a handshake is well-formed.
-/
import XgiModel.C06.DiViews
import XgiModel.C06.Lemmas

namespace Xgi.C06
open Xgi Xgi.HG

/-- two-way directed incidence: out-memberships pair with tails, in-memberships with heads — the clauses of
    `DHG.WFd` (C02/Lemmas.lean) that the views read.  C06/Bridge.lean derives it from `DHG.WFd` (`wfd_of_dhg`),
    which C02 proves for every reachable directed state; Props/C06.lean (`reachable_wf`, `di_*_reachable`) uses
    that to state the directed theorems at every reachable state. -/
structure WFd (s : DiSt) : Prop where
  nodupN : s.nodes.Nodup
  nodupE : s.edges.Nodup
  noNoneN : PyId.none ∉ s.nodes
  noNoneE : PyId.none ∉ s.edges
  out2tail : ∀ n ∈ s.nodes, ∀ e ∈ s.membOut n, e ∈ s.edges ∧ n ∈ s.tail e
  in2head : ∀ n ∈ s.nodes, ∀ e ∈ s.membIn n, e ∈ s.edges ∧ n ∈ s.head e
  tail2out : ∀ e ∈ s.edges, ∀ n ∈ s.tail e, n ∈ s.nodes ∧ e ∈ s.membOut n
  head2in : ∀ e ∈ s.edges, ∀ n ∈ s.head e, n ∈ s.nodes ∧ e ∈ s.membIn n
  setOut : ∀ n ∈ s.nodes, (s.membOut n).Nodup
  setIn : ∀ n ∈ s.nodes, (s.membIn n).Nodup
  setTail : ∀ e ∈ s.edges, (s.tail e).Nodup
  setHead : ∀ e ∈ s.edges, (s.head e).Nodup

theorem wf_outP {s : DiSt} (h : WFd s) : WF s.outP := by
  obtain ⟨h1, h2, h3, h4, h5, h6, h7, h8, h9, h10, h11, h12⟩ := h
  constructor <;> simp only [DiSt.outP, DiSt.proj] <;> first | assumption | simp

theorem wf_inP {s : DiSt} (h : WFd s) : WF s.inP := by
  obtain ⟨h1, h2, h3, h4, h5, h6, h7, h8, h9, h10, h11, h12⟩ := h
  constructor <;> simp only [DiSt.inP, DiSt.proj] <;> first | assumption | simp

theorem wf_tot {s : DiSt} (h : WFd s) : WF s.tot := by
  obtain ⟨h1, h2, h3, h4, h5, h6, h7, h8, h9, h10, h11, h12⟩ := h
  constructor <;> simp only [DiSt.tot, DiSt.proj, DiSt.mem, DiSt.memb]
  · exact h1
  · exact h2
  · exact h3
  · exact h4
  · intro n hn e he
    rw [mem_dedup, List.mem_append] at he
    rw [mem_dedup, List.mem_append]
    rcases he with he | he
    · exact ⟨(h6 n hn e he).1, Or.inr (h6 n hn e he).2⟩
    · exact ⟨(h5 n hn e he).1, Or.inl (h5 n hn e he).2⟩
  · intro e he n hn
    rw [mem_dedup, List.mem_append] at hn
    rw [mem_dedup, List.mem_append]
    rcases hn with hn | hn
    · exact ⟨(h7 e he n hn).1, Or.inr (h7 e he n hn).2⟩
    · exact ⟨(h8 e he n hn).1, Or.inl (h8 e he n hn).2⟩
  · simp
  · simp
  · exact h1
  · exact h2
  · intro n _; exact nodup_dedup _
  · intro e _; exact nodup_dedup _

end Xgi.C06
