/-
  C06 driver: replays `HG` history requests (decoder and `HG.step` of Drive/HG.lean, unchanged) and answers
  `{"op":"observe", …}` with the model's evaluation of every view / stat / format / filter / query of
  C06/Views.lean at the current state.  `{"op":"load", …}` installs a state given by its tables (used for
  SimplicialComplex states, which share NodeView/EdgeView with Hypergraph).
-/
import XgiModel.Proto
import XgiModel.Drive.HG
import XgiModel.C06.Views
import XgiModel.C06.DiViews
open Lean Xgi.Proto

namespace Xgi.C06.Drive
open Xgi Xgi.C06

/-- a statistic's value -/
inductive SV where
  | int (i : Int)
  | rat (q : Rat)
  | val (v : Val)
  | attrs (a : Attrs)
  deriving DecidableEq, Repr
instance : Inhabited SV := ⟨.int 0⟩

def ratJson (q : Rat) : Json := Json.mkObj [("$q", Json.str s!"{q.num}/{q.den}")]
def svJson : SV → Json
  | .int i => intJson i
  | .rat q => ratJson q
  | .val v => valToJson v
  | .attrs a => Json.mkObj [("$attrs", attrsToJson a)]

def pairsJson {α} (f : α → Json) (l : List (PyId × α)) : Json :=
  Json.arr (l.map (fun p => Json.arr #[idToJson p.1, f p.2])).toArray
def listJson {α} (f : α → Json) (l : List α) : Json := Json.arr (l.map f).toArray
def optIds : Option (List PyId) → Json
  | none => Json.str "err:lib"
  | some l => idsToJson l
def optSet : Option (List PyId) → Json
  | none => Json.str "err:lib"
  | some l => setToJson l

/-- the four output formats of one stat, all derived from the one evaluation `d` -/
def statJson (view : List PyId) (d : List (PyId × SV)) : Json :=
  let p := aspandas view d
  Json.mkObj [("asdict", pairsJson svJson (asdict view d)),
    ("aslist", listJson svJson (aslist view d)),
    ("asnumpy", listJson svJson (asnumpy view d)),
    ("aspandas", Json.mkObj [("index", idsToJson p.1), ("values", listJson svJson p.2)])]

def errJson : StatErr → Json
  | .typeError => Json.str "err:type"
  | .unmodelled => Json.str "unmodelled"

/-- a stat that may raise as a whole -/
abbrev StatF := Except StatErr (PyId → SV)

def statFJson (view order : List PyId) : StatF → Json
  | .error e => errJson e
  | .ok f => statJson view (evalStat f order)

/-- `degree(order, weight=w)` over a view: raises as a whole when one value raises -/
def degreeWF (s : HG) (k : Option Int) (w : String) (view : List PyId) : StatF :=
  let rs := view.map (degreeW s k w)
  if rs.any (fun r => match r with | .error .unmodelled => true | _ => false) then .error .unmodelled
  else if rs.any (fun r => match r with | .error _ => true | _ => false) then .error .typeError
  else .ok (fun n => match degreeW s k w n with | .ok i => .int i | .error _ => .int 0)

structure Params where
  norder : Option (List PyId)
  eorder : Option (List PyId)
  k : Option Int
  w : Option String
  d : Option Int
  attr : String
  missing : Val
  x : Int
  y : Int
  qx : Rat
  qy : Rat
  ax : Val
  ay : Val
  sp : Int
  mo : Nat
  nbunch : List PyId
  ebunch : List PyId
  nlookup : List PyId
  elookup : List PyId

def optInt? (j : Json) (k : String) : Option (Option Int) :=
  match getField? j k with
  | some .null => some none
  | some (.num n) => if n.exponent = 0 then some (some n.mantissa) else none
  | _ => none
def optStr? (j : Json) (k : String) : Option (Option String) :=
  match getField? j k with
  | some .null => some none
  | some (.str s) => some (some s)
  | _ => none
def optIds? (j : Json) (k : String) : Option (Option (List PyId)) :=
  match getField? j k with
  | none => some none
  | some .null => some none
  | some v => (idsOfJson? v).map some
def rat? (j : Json) (k : String) : Option Rat :=
  match getField? j k with
  | some (.arr #[.num a, .num b]) =>
    if a.exponent = 0 ∧ b.exponent = 0 ∧ b.mantissa > 0 then some ((a.mantissa : Rat) / (b.mantissa : Rat)) else none
  | _ => none

def params? (j : Json) : Option Params := do
  pure { norder := ← optIds? j "norder", eorder := ← optIds? j "eorder",
         k := ← optInt? j "k", w := ← optStr? j "w", d := ← optInt? j "d",
         attr := ← getStr? j "attr", missing := ← (getField? j "missing").bind valOfJson?,
         x := ← getInt? j "x", y := ← getInt? j "y", qx := ← rat? j "qx", qy := ← rat? j "qy",
         ax := ← (getField? j "ax").bind valOfJson?, ay := ← (getField? j "ay").bind valOfJson?,
         sp := ← getInt? j "sp", mo := ← getNat? j "mo", nbunch := ← getIds? j "nbunch", ebunch := ← getIds? j "ebunch",
         nlookup := ← getIds? j "nlookup", elookup := ← getIds? j "elookup" }

def isPermOf (o v : List PyId) : Bool := o.length = v.length && v.all (· ∈ o) && o.all (· ∈ v)

def modes : List (String × Mode) :=
  [("eq", .eq), ("neq", .neq), ("lt", .lt), ("gt", .gt), ("leq", .leq), ("geq", .geq), ("between", .between)]

def intOf (f : PyId → SV) (i : PyId) : Int := match f i with | .int v => v | _ => 0
def ratOf (f : PyId → SV) (i : PyId) : Rat := match f i with | .rat v => v | _ => 0

/-- `view.filterby(stat, x, mode)` for every mode, on an Int-valued stat -/
def filterIntJson (s : HG) (k : Kind) (view : List PyId) (f : PyId → SV) (x y : Int) : Json :=
  let d := evalStat (intOf f) view
  Json.mkObj (modes.map (fun m => (m.1, optIds (filterby s k view d m.2 x y))))
def filterRatJson (s : HG) (k : Kind) (view : List PyId) (f : PyId → SV) (x y : Rat) : Json :=
  let d := evalStat (ratOf f) view
  Json.mkObj (modes.map (fun m => (m.1, optIds (filterby s k view d m.2 x y))))

def filterAttrJson (s : HG) (k : Kind) (view : List PyId) (p : Params) : Json :=
  Json.mkObj (modes.map (fun m => (m.1, match filterbyAttr s k view p.attr m.2 p.ax p.ay p.missing with
    | .ok l => idsToJson l
    | .error .typeError => Json.str "err:type"
    | .error _ => Json.str "err:lib")))

def multiJson (view : List PyId) (cols : List (String × List (PyId × SV))) : Json :=
  let p := multiAspandas view cols
  Json.mkObj [
    ("asdict", Json.arr ((multiAsdict view cols).map (fun r => Json.arr #[idToJson r.1,
        Json.arr (r.2.map (fun c => Json.arr #[Json.str c.1, svJson c.2])).toArray])).toArray),
    ("asdict_t", Json.arr ((multiAsdictT view cols).map (fun c => Json.arr #[Json.str c.1, pairsJson svJson c.2])).toArray),
    ("aslist", listJson (listJson svJson) (multiAslist view cols)),
    ("aslist_t", listJson (listJson svJson) (multiAslistT view cols)),
    ("asnumpy", listJson (listJson svJson) (multiAsnumpy view cols)),
    ("aspandas", Json.mkObj [("index", idsToJson p.1), ("columns", listJson Json.str p.2.1),
        ("rows", listJson (listJson svJson) p.2.2)])]

def nodeStats (s : HG) (p : Params) (view : List PyId) : List (String × StatF) :=
  [ ("degree", .ok (fun n => .int (degree s none n))),
    ("degree_o", .ok (fun n => .int (degree s p.k n))),
    ("and", .ok (fun n => .rat (avgNbrDeg s n))),
    ("attr", .ok (fun n => .val (attrGet s .node p.attr p.missing n))),
    ("attr_d", .ok (fun n => .val (attrGet s .node p.attr (.sc .none) n))),
    ("attrs", .ok (fun n => .attrs (s.nattr n))) ] ++
  (match p.w with
   | none => []
   | some w => [("degree_w", degreeWF s none w view), ("degree_ow", degreeWF s p.k w view)])

def edgeStats (s : HG) (p : Params) : List (String × StatF) :=
  [ ("size", .ok (fun e => .int (size s none e))),
    ("order", .ok (fun e => .int (order s none e))),
    ("size_d", .ok (fun e => .int (size s p.d e))),
    ("order_d", .ok (fun e => .int (order s p.d e))),
    ("attr", .ok (fun e => .val (attrGet s .edge p.attr p.missing e))),
    ("attr_d", .ok (fun e => .val (attrGet s .edge p.attr (.sc .none) e))),
    ("attrs", .ok (fun e => .attrs (s.eattr e))) ]

def okCols (order : List PyId) (names : List String) (stats : List (String × StatF)) : List (String × List (PyId × SV)) :=
  names.filterMap (fun nm => match stats.find? (·.1 = nm) with
    | some (_, .ok f) => some (nm, evalStat f order)
    | _ => none)

/-- the value of a numeric stat as a rational -/
def ratVal : SV → Rat
  | .int i => (i : Rat)
  | .rat q => q
  | _ => 0

def optIdJson : Option PyId → Json
  | none => Json.null
  | some i => idToJson i
def optRatJson : Option Rat → Json
  | none => Json.null
  | some q => ratJson q

/-- every aggregate of one numeric stat over a view (`IDStat.max()` … `unique()`) -/
def aggJson (view : List PyId) (mo : Nat) (f : PyId → SV) : Json :=
  let g : PyId → Rat := fun i => ratVal (f i)
  let vals := view.map g
  Json.mkObj [
    ("max", optRatJson (aggMax vals)), ("min", optRatJson (aggMin vals)), ("sum", ratJson (aggSum vals)),
    ("mean", ratJson (aggMean vals)), ("median", ratJson (aggMedian vals)), ("var", ratJson (aggVar vals)),
    ("moment", ratJson (aggMoment mo vals)), ("cmoment", ratJson (aggCMoment mo vals)),
    ("argmax", optIdJson (argmax view g)), ("argmin", optIdJson (argmin view g)),
    ("argsort", idsToJson (argsort view g false)), ("argsort_r", idsToJson (argsort view g true)),
    ("unique", listJson ratJson (aggUnique vals)), ("counts", listJson (fun n : Nat => intJson (n : Int)) (aggCounts vals)) ]

def aggsJson (view : List PyId) (mo : Nat) (names : List String) (stats : List (String × StatF)) : Json :=
  Json.mkObj (names.filterMap (fun nm => match stats.find? (·.1 = nm) with
    | some (_, .ok f) => some (nm, aggJson view mo f)
    | _ => none))

def observe (s : HG) (p : Params) : Json :=
  let nodes := keys s .node
  let edges := keys s .edge
  let no := p.norder.getD nodes
  let eo := p.eorder.getD edges
  if ¬ (isPermOf no nodes ∧ isPermOf eo edges) then badOp else
  let nst := nodeStats s p nodes
  let est := edgeStats s p
  let nview := fromView s .node p.nbunch
  let eview := fromView s .edge p.ebunch
  let deg : PyId → SV := fun n => .int (degree s none n)
  let dego : PyId → SV := fun n => .int (degree s p.k n)
  let and : PyId → SV := fun n => .rat (avgNbrDeg s n)
  let sz : PyId → SV := fun e => .int (size s none e)
  let ord : PyId → SV := fun e => .int (order s none e)
  let szd : PyId → SV := fun e => .int (size s p.d e)
  Json.mkObj [
    ("out", "ok"),
    ("nodes", idsToJson nodes), ("edges", idsToJson edges),
    ("nview", optIds nview), ("eview", optIds eview),
    ("nstats", Json.mkObj (nst.map (fun st => (st.1, statFJson nodes no st.2)))),
    ("estats", Json.mkObj (est.map (fun st => (st.1, statFJson edges eo st.2)))),
    ("nvstats", match nview with
      | none => Json.str "err:lib"
      | some v => Json.mkObj ((nodeStats s p v).map (fun st => (st.1, statFJson v v.reverse st.2)))),
    ("evstats", match eview with
      | none => Json.str "err:lib"
      | some v => Json.mkObj (est.map (fun st => (st.1, statFJson v v.reverse st.2)))),
    ("nmulti", multiJson nodes (okCols no ["degree", "degree_o", "attr"] nst)),
    ("emulti", multiJson edges (okCols eo ["size", "order_d", "attr"] est)),
    ("nmulti2", multiJson nodes (okCols no ["degree", "degree_o", "and"] nst)),
    ("emulti2", multiJson edges (okCols eo ["size", "order_d", "order"] est)),
    ("nagg", aggsJson nodes p.mo ["degree", "degree_o", "and"] nst),
    ("eagg", aggsJson edges p.mo ["size", "order_d"] est),
    ("nfilter", Json.mkObj [("degree", filterIntJson s .node nodes deg p.x p.y),
                            ("degree_o", filterIntJson s .node nodes dego p.x p.y),
                            ("and", filterRatJson s .node nodes and p.qx p.qy)]),
    ("efilter", Json.mkObj [("size", filterIntJson s .edge edges sz p.x p.y),
                            ("order", filterIntJson s .edge edges ord p.x p.y),
                            ("size_d", filterIntJson s .edge edges szd p.x p.y)]),
    ("nvfilter", match nview with
      | none => Json.str "err:lib"
      | some v => Json.mkObj [("degree", filterIntJson s .node v deg p.x p.y)]),
    ("evfilter", match eview with
      | none => Json.str "err:lib"
      | some v => Json.mkObj [("size", filterIntJson s .edge v sz p.x p.y)]),
    ("nfattr", filterAttrJson s .node nodes p),
    ("efattr", filterAttrJson s .edge edges p),
    ("nvfattr", match nview with
      | none => Json.str "err:lib"
      | some v => filterAttrJson s .node v p),
    ("nnbr", Json.arr (nodes.map (fun n => Json.arr #[idToJson n, optSet (neighbors s .node n 1),
        optSet (neighbors s .node n p.sp)])).toArray),
    ("enbr", Json.arr (edges.map (fun e => Json.arr #[idToJson e, optSet (neighbors s .edge e 1),
        optSet (neighbors s .edge e p.sp)])).toArray),
    ("nbr_missing", Json.arr #[optSet (neighbors s .node (.str "$absent") 1), optSet (neighbors s .edge (.str "$absent") 1)]),
    ("nlookup", idsToJson (lookup s .node p.nlookup)),
    ("elookup", idsToJson (lookup s .edge p.elookup)),
    ("ndups", idsToJson (duplicates s .node)),
    ("edups", idsToJson (duplicates s .edge)),
    ("isolates", idsToJson (isolates s false)),
    ("isolates_is", idsToJson (isolates s true)),
    ("singletons", idsToJson (singletons s)),
    ("empty", idsToJson (empty s)),
    ("maximal", idsToJson (maximal s false)),
    ("maximal_strict", idsToJson (maximal s true)) ]

/-- `[[id, [ids]], …]` → lookup function -/
def tableOf? (j : Json) (k : String) : Option (PyId → List PyId) := do
  let rows ← getArr? j k
  let rows ← rows.mapM (fun r => match r with
    | .arr #[i, l] => do pure ((← idOfJson? i), (← idsOfJson? l))
    | _ => none)
  pure (fun i => ((rows.find? (·.1 = i)).map (·.2)).getD [])
def attrTableOf? (j : Json) (k : String) : Option (PyId → Attrs) := do
  let rows ← getArr? j k
  let rows ← rows.mapM (fun r => match r with
    | .arr #[i, a] => do pure ((← idOfJson? i), (← attrsOfJson? a))
    | _ => none)
  pure (fun i => ((rows.find? (·.1 = i)).map (·.2)).getD [])

/-- install a state from its tables (`nodes`, `edges`, `mem`, `memb`, `nattr`, `eattr`) -/
def load? (j : Json) : Option HG := do
  let nodes ← getIds? j "nodes"
  let edges ← getIds? j "edges"
  pure { HG.empty with nodes := nodes, edges := edges, mem := ← tableOf? j "mem", memb := ← tableOf? j "memb",
                       nattrK := nodes, eattrK := edges, nattr := ← attrTableOf? j "nattr",
                       eattr := ← attrTableOf? j "eattr" }

/-! ### directed -/

def diNodeStats (s : DiSt) (p : Params) (view : List PyId) : List (String × StatF) :=
  [ ("degree", .ok (fun n => .int (s.degree none n))),
    ("degree_o", .ok (fun n => .int (s.degree p.k n))),
    ("in_degree", .ok (fun n => .int (s.inDegree none n))),
    ("in_degree_o", .ok (fun n => .int (s.inDegree p.k n))),
    ("out_degree", .ok (fun n => .int (s.outDegree none n))),
    ("out_degree_o", .ok (fun n => .int (s.outDegree p.k n))),
    ("attr", .ok (fun n => .val (attrGet s.tot .node p.attr p.missing n))),
    ("attr_d", .ok (fun n => .val (attrGet s.tot .node p.attr (.sc .none) n))),
    ("attrs", .ok (fun n => .attrs (s.nattr n))) ] ++
  (match p.w with
   | none => []
   | some w => [("degree_w", degreeWF s.tot none w view), ("degree_ow", degreeWF s.tot p.k w view),
                ("in_degree_w", degreeWF s.inStat none w view), ("in_degree_ow", degreeWF s.inStat p.k w view),
                ("out_degree_w", degreeWF s.outStat none w view), ("out_degree_ow", degreeWF s.outStat p.k w view)])

def diEdgeStats (s : DiSt) (p : Params) : List (String × StatF) :=
  [ ("size", .ok (fun e => .int (s.size none e))),
    ("order", .ok (fun e => .int (s.order none e))),
    ("size_d", .ok (fun e => .int (s.size p.d e))),
    ("order_d", .ok (fun e => .int (s.order p.d e))),
    ("tail_size", .ok (fun e => .int (s.tailSize none e))),
    ("tail_order", .ok (fun e => .int (s.tailOrder none e))),
    ("head_size", .ok (fun e => .int (s.headSize none e))),
    ("head_order", .ok (fun e => .int (s.headOrder none e))),
    ("tail_size_d", .ok (fun e => .int (s.tailSize p.d e))),
    ("head_size_d", .ok (fun e => .int (s.headSize p.d e))),
    ("tail_order_d", .ok (fun e => .int (s.tailOrder p.d e))),
    ("head_order_d", .ok (fun e => .int (s.headOrder p.d e))),
    ("attr", .ok (fun e => .val (attrGet s.tot .edge p.attr p.missing e))),
    ("attr_d", .ok (fun e => .val (attrGet s.tot .edge p.attr (.sc .none) e))),
    ("attrs", .ok (fun e => .attrs (s.eattr e))) ]

/-- the directed observation: views, filters and set-theoretic queries are those of the member-union
    projection `tot`; the directed stats read their own projections -/
def dobserve (d : DiSt) (p : Params) : Json :=
  let s := d.tot
  let nodes := keys s .node
  let edges := keys s .edge
  let no := p.norder.getD nodes
  let eo := p.eorder.getD edges
  if ¬ (isPermOf no nodes ∧ isPermOf eo edges) then badOp else
  let nst := diNodeStats d p nodes
  let est := diEdgeStats d p
  let nview := fromView s .node p.nbunch
  let eview := fromView s .edge p.ebunch
  let deg : PyId → SV := fun n => .int (d.degree none n)
  let dego : PyId → SV := fun n => .int (d.degree p.k n)
  let indeg : PyId → SV := fun n => .int (d.inDegree none n)
  let outdego : PyId → SV := fun n => .int (d.outDegree p.k n)
  let sz : PyId → SV := fun e => .int (d.size none e)
  let ord : PyId → SV := fun e => .int (d.order none e)
  let szd : PyId → SV := fun e => .int (d.size p.d e)
  let tsz : PyId → SV := fun e => .int (d.tailSize none e)
  let hord : PyId → SV := fun e => .int (d.headOrder none e)
  Json.mkObj [
    ("out", "ok"),
    ("nodes", idsToJson nodes), ("edges", idsToJson edges),
    ("nview", optIds nview), ("eview", optIds eview),
    ("nstats", Json.mkObj (nst.map (fun st => (st.1, statFJson nodes no st.2)))),
    ("estats", Json.mkObj (est.map (fun st => (st.1, statFJson edges eo st.2)))),
    ("nvstats", match nview with
      | none => Json.str "err:lib"
      | some v => Json.mkObj ((diNodeStats d p v).map (fun st => (st.1, statFJson v v.reverse st.2)))),
    ("evstats", match eview with
      | none => Json.str "err:lib"
      | some v => Json.mkObj (est.map (fun st => (st.1, statFJson v v.reverse st.2)))),
    ("nmulti", multiJson nodes (okCols no ["degree", "degree_o", "attr"] nst)),
    ("emulti", multiJson edges (okCols eo ["size", "order_d", "attr"] est)),
    ("nmulti2", multiJson nodes (okCols no ["in_degree", "out_degree_o", "degree"] nst)),
    ("emulti2", multiJson edges (okCols eo ["tail_size", "head_order_d", "size"] est)),
    ("nagg", aggsJson nodes p.mo ["degree", "in_degree", "out_degree_o"] nst),
    ("eagg", aggsJson edges p.mo ["size", "tail_size", "head_order_d"] est),
    ("nfilter", Json.mkObj [("degree", filterIntJson s .node nodes deg p.x p.y),
                            ("degree_o", filterIntJson s .node nodes dego p.x p.y),
                            ("in_degree", filterIntJson s .node nodes indeg p.x p.y),
                            ("out_degree_o", filterIntJson s .node nodes outdego p.x p.y)]),
    ("efilter", Json.mkObj [("size", filterIntJson s .edge edges sz p.x p.y),
                            ("order", filterIntJson s .edge edges ord p.x p.y),
                            ("size_d", filterIntJson s .edge edges szd p.x p.y),
                            ("tail_size", filterIntJson s .edge edges tsz p.x p.y),
                            ("head_order", filterIntJson s .edge edges hord p.x p.y)]),
    ("nvfilter", match nview with
      | none => Json.str "err:lib"
      | some v => Json.mkObj [("degree", filterIntJson s .node v deg p.x p.y)]),
    ("evfilter", match eview with
      | none => Json.str "err:lib"
      | some v => Json.mkObj [("size", filterIntJson s .edge v sz p.x p.y)]),
    ("nfattr", filterAttrJson s .node nodes p),
    ("efattr", filterAttrJson s .edge edges p),
    ("nvfattr", match nview with
      | none => Json.str "err:lib"
      | some v => filterAttrJson s .node v p),
    ("nnbr", Json.arr (nodes.map (fun n => Json.arr #[idToJson n, optSet (neighbors s .node n 1),
        optSet (neighbors s .node n p.sp)])).toArray),
    ("enbr", Json.arr (edges.map (fun e => Json.arr #[idToJson e, optSet (neighbors s .edge e 1),
        optSet (neighbors s .edge e p.sp)])).toArray),
    ("nbr_missing", Json.arr #[optSet (neighbors s .node (.str "$absent") 1), optSet (neighbors s .edge (.str "$absent") 1)]),
    ("nlookup", idsToJson (lookup s .node p.nlookup)),
    ("elookup", idsToJson (lookup s .edge p.elookup)),
    ("ndups", idsToJson (duplicates s .node)),
    ("edups", idsToJson (duplicates s .edge)),
    ("isolates", idsToJson (isolates s false)),
    ("singletons", idsToJson (singletons s)),
    ("empty", idsToJson (empty s)) ]

/-- install a directed state from its tables -/
def dload? (j : Json) : Option DiSt := do
  pure { nodes := ← getIds? j "nodes", edges := ← getIds? j "edges",
         membIn := ← tableOf? j "membIn", membOut := ← tableOf? j "membOut",
         tail := ← tableOf? j "tail", head := ← tableOf? j "head",
         nattr := ← attrTableOf? j "nattr", eattr := ← attrTableOf? j "eattr" }

/-- driver state: the undirected state machine and the installed directed state -/
structure St where
  hg : HG
  di : DiSt
instance : Inhabited St := ⟨⟨HG.empty, DiSt.empty⟩⟩
def St.init : St := ⟨HG.empty, DiSt.empty⟩

def handle (st : St) (j : Json) : St × Json :=
  match getStr? j "op" with
  | some "observe" =>
    match params? j with
    | none => (st, badOp)
    | some p => (st, observe st.hg p)
  | some "dobserve" =>
    match params? j with
    | none => (st, badOp)
    | some p => (st, dobserve st.di p)
  | some "load" =>
    match load? j with
    | none => (st, badOp)
    | some s' => ({ st with hg := s' }, Xgi.HG.Drive.respond s' .ok)
  | some "dload" =>
    match dload? j with
    | none => (st, badOp)
    | some d => ({ st with di := d }, Json.mkObj [("out", "ok")])
  | _ =>
    let r := Xgi.HG.Drive.handle st.hg j
    ({ st with hg := r.1 }, r.2)

end Xgi.C06.Drive
