/-
  C06 helper lemmas for degree(order, weight): the edges a degree ranges over, as a duplicate-free
  selection from the current edges; sums over permutations.
-/
import XgiModel.C06.Lemmas

namespace Xgi.C06
open Xgi Xgi.HG

/-- whether `degree(order=…)` counts the edge `e` (specification helper for the degree theorems) -/
def orderOk (s : HG) (order : Option Int) (e : PyId) : Bool :=
  match order with
  | none => true
  | some k => decide (((s.mem e).length : Int) = k + 1)
theorem degEdges_eq (s : HG) (order : Option Int) (n : PyId) :
    degEdges s order n = (s.memb n).filter (orderOk s order) := by
  cases order with
  | none => simp only [degEdges]; exact (List.filter_eq_self.2 (fun _ _ => rfl)).symm
  | some k => rfl
theorem degree_eq_degEdges (s : HG) (order : Option Int) (n : PyId) :
    degree s order n = (degEdges s order n).length := by
  cases order <;> rfl
theorem degEdges_perm {s : HG} {n : PyId} (order : Option Int) (p : PyId → Bool) (hN : (s.memb n).Nodup)
    (hE : s.edges.Nodup) (hiff : ∀ e, e ∈ s.memb n ↔ e ∈ s.edges ∧ p e = true) :
    (degEdges s order n).Perm (s.edges.filter (fun e => p e && orderOk s order e)) := by
  rw [degEdges_eq]
  apply (List.perm_ext_iff_of_nodup (nodup_filter _ hN) (nodup_filter _ hE)).2
  intro e
  simp only [List.mem_filter, Bool.and_eq_true, hiff e]
  constructor
  · intro ⟨⟨h1, h2⟩, h3⟩; exact ⟨h1, h2, h3⟩
  · intro ⟨h1, h2, h3⟩; exact ⟨⟨h1, h2⟩, h3⟩
theorem perm_sum_int {l₁ l₂ : List Int} (h : l₁.Perm l₂) : l₁.sum = l₂.sum := by
  induction h with
  | nil => rfl
  | cons x _ ih => simp [ih]
  | swap x y l => simp; omega
  | trans _ _ ih1 ih2 => exact ih1.trans ih2
theorem degreeW_ok {s : HG} {n : PyId} (order : Option Int) (w : String) (wt : PyId → Int)
    (hw : ∀ e ∈ degEdges s order n, weightOf s w e = .ok (wt e)) :
    degreeW s order w n = .ok (((degEdges s order n).map wt).sum) := by
  unfold degreeW
  have hmap : (degEdges s order n).map (weightOf s w) = (degEdges s order n).map (fun e => (Except.ok (wt e) : Except StatErr Int)) :=
    List.map_congr_left hw
  simp only [hmap]
  simp [List.any_map, Function.comp_def]

/-- `degree(order, weight)` and `degree(order)` at `n`, for any state whose memberships of `n` are a
    duplicate-free selection `p` of the current edges -/
theorem degree_gen {s : HG} {n : PyId} (order : Option Int) (w : String) (wt : PyId → Int) (p : PyId → Bool)
    (hN : (s.memb n).Nodup) (hE : s.edges.Nodup) (hiff : ∀ e, e ∈ s.memb n ↔ e ∈ s.edges ∧ p e = true)
    (hw : ∀ e ∈ s.edges, weightOf s w e = .ok (wt e)) :
    degree s order n = (s.edges.filter (fun e => p e && orderOk s order e)).length ∧
    degreeW s order w n = .ok (((s.edges.filter (fun e => p e && orderOk s order e)).map wt).sum) := by
  have hp := degEdges_perm order p hN hE hiff
  refine ⟨by rw [degree_eq_degEdges]; exact hp.length_eq, ?_⟩
  rw [degreeW_ok order w wt]
  · rw [perm_sum_int (hp.map wt)]
  · intro e he
    exact hw e (List.mem_filter.1 (hp.subset he)).1

end Xgi.C06
