/-
  C06 — bridge from the state machines of C02 (DiHypergraph) and C03 (SimplicialComplex) to the states the
  view / stat functions take.  C02 proves `DHG.WFd` for every state reachable by public calls of its model
  (`C02.C02_reachable`); `toDiSt` forgets the fields the views never read (attribute-key lists, network
  attributes, the edge counter, the frozen flag), and `DHG.WFd` implies the hypothesis `WFd` of the directed
  C06 theorems.  C03's model runs on `HG` itself and its invariant contains `HG.WF`.
-/
import XgiModel.C06.LemmasDi
import XgiModel.C02.Lemmas
import XgiModel.C03.Lemmas

namespace Xgi.C06
open Xgi Xgi.HG

/-- the directed state of property C02's state machine, read as the state the C06 view functions take
    (same six tables, same names) -/
def toDiSt (s : DHG) : DiSt :=
  { nodes := s.nodes, edges := s.edges, membIn := s.membIn, membOut := s.membOut, tail := s.tail, head := s.head,
    nattr := s.nattr, eattr := s.eattr }

/-- C02's directed incidence invariant implies the hypothesis of the directed C06 theorems -/
theorem wfd_of_dhg {s : DHG} (h : DHG.WFd s) : WFd (toDiSt s) :=
  { nodupN := h.nodupN, nodupE := h.nodupE, noNoneN := h.noNoneN, noNoneE := h.noNoneE,
    out2tail := h.out2tail, in2head := h.in2head, tail2out := h.tail2out, head2in := h.head2in,
    setOut := h.setOut, setIn := h.setIn, setTail := h.setTail, setHead := h.setHead }

end Xgi.C06
