/-
  C10 — `from_bipartite_pandas_dataframe(df, create_using=SimplicialComplex)` (also `SimplicialComplex(df)` and
  `to_simplicial_complex(df, create_using=…)`): the branch of the dataframe reader that builds a simplicial complex.

  The code groups the rows by edge label (first appearance order, a node listed once per edge) — exactly the edge
  table `fromDataframe` builds — and hands the groups to `add_simplices_from` as a dict `{edge ID: members}`
  (proposed fix `C10-dataframe-to-simplicial-complex-keeps-edge-ids.diff`: the unfixed code passed the member lists
  only and so dropped the edge labels the dataframe carries).  `add_simplices_from` on a dict is the loop
  `toSimplicialComplex` models (`scStep` per entry, collected faces added at the end with IDs from the counter).
  Nodes enter the complex as members of the simplices; the model takes them in row order (node order is compared
  as a set by the correspondence).
-/
import XgiModel.C10.Convert

namespace Xgi.C10

def fromDataframeSC (rows : List (PyId × PyId)) : ANet :=
  toSimplicialComplex { emptyANet .hg with net := fromDataframe rows }

end Xgi.C10
