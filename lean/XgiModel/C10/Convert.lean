/-
  C10 — model of `xgi/convert/*`: every `to_*` / `from_*` pair and the class-to-class constructors,
  over the static networks `Xgi.Net` / `Xgi.DiNet` extended with attributes (`ANet`, `ADiNet`).

  The model describes the code *with the proposed fixes applied* (proposed_fixes/C10-*.diff):
  `from_bipartite_graph` orients an undirected edge by the `bipartite` flag, `to_simplicial_complex`
  accepts a directed source (and copies the network attributes — already fixed in /repo),
  `from_bipartite_edgelist([])` is the empty hypergraph, `add_edges_from` treats a set as a member set
  whatever its first element is; `from_hif_dict` / `from_hypergraph_dict` pass attribute dicts as values
  (`set_node_attributes` / `set_edge_attributes`), never as `**attr`, so attribute keys are arbitrary strings.

  External libraries appear as the pure functions they are documented to be: numpy/scipy (`coo_array`:
  the row-major list of non-zero coordinates), networkx (`G.nodes(data=True)`: vertices in insertion
  order with their `bipartite` attribute; `G.edges`: a list of pairs in *some* order and, for an
  undirected graph, *some* orientation), pandas (`itertuples`: the rows in order), Python `sorted`
  (total on all-int / all-str lists, `TypeError` on mixed ones), `str` / `int` (the abstract
  `cast` / `uncast` arguments).  No Mathlib.
-/
import XgiModel.Net

namespace Xgi.C10

inductive Cls where | hg | dhg | sc
  deriving DecidableEq, Repr, Inhabited

inductive Err where | lib | type | value
  deriving DecidableEq, Repr, Inhabited

/-- direction of an incidence: `tail` = xgi's "in", `head` = xgi's "out" -/
inductive Dir where | tail | head
  deriving DecidableEq, Repr, Inhabited

/-! ### incidence relations (the observable the property is about) -/

/-- `n` is a member of the edge with ID `e` -/
def Inc (h : Net) (n e : PyId) : Prop := ∃ p ∈ h.edges, p.1 = e ∧ n ∈ p.2

/-- directed incidence -/
def DInc (h : DiNet) (n e : PyId) (d : Dir) : Prop :=
  ∃ p ∈ h.edges, p.1 = e ∧ (match d with | .tail => n ∈ p.2.1 | .head => n ∈ p.2.2)

def dEdgeIds (h : DiNet) : List PyId := h.edges.map (·.1)

/-- well-formed directed network -/
def DWF (h : DiNet) : Prop :=
  h.nodes.Nodup ∧ (h.edges.map (·.1)).Nodup ∧
    ∀ p ∈ h.edges, p.2.1.Nodup ∧ p.2.2.Nodup ∧ (∀ n ∈ p.2.1, n ∈ h.nodes) ∧ (∀ n ∈ p.2.2, n ∈ h.nodes)

/-! ### the mutators the converters call -/

def emptyNet : Net := { nodes := [], edges := [] }
def emptyDiNet : DiNet := { nodes := [], edges := [] }

/-- `if n not in H._node: H._node[n] = set()` -/
def addNode (h : Net) (n : PyId) : Net := { h with nodes := ins n h.nodes }
/-- `H.add_nodes_from(ns)` (no attributes) -/
def addNodes (ns : List PyId) (h : Net) : Net := ns.foldl addNode h
/-- `if e not in H._edge: H._edge[e] = set()` -/
def ensureEdge (h : Net) (e : PyId) : Net :=
  if e ∈ h.edgeIds then h else { h with edges := h.edges ++ [(e, [])] }
/-- `H._edge[e].add(n)` -/
def putMember (h : Net) (e n : PyId) : Net :=
  { h with edges := h.edges.map (fun p => if p.1 = e then (p.1, ins n p.2) else p) }
/-- `Hypergraph.add_node_to_edge(e, n)` -/
def link (h : Net) (e n : PyId) : Net := putMember (addNode (ensureEdge h e) n) e n
/-- a loop of `add_node_to_edge` over rows `(node, edge)` -/
def linkAll (l : List (PyId × PyId)) (h : Net) : Net := l.foldl (fun h r => link h r.2 r.1) h

/-- `Hypergraph.add_edge(ms, idx=e)` / one step of `add_edges_from` with an explicit ID:
    an existing ID is skipped with a warning -/
def addEdge (h : Net) (e : PyId) (ms : List PyId) : Net :=
  if e ∈ h.edgeIds then h
  else { nodes := ms.foldl (fun acc x => ins x acc) h.nodes, edges := h.edges ++ [(e, dedup ms)] }

def dAddNode (h : DiNet) (n : PyId) : DiNet := { h with nodes := ins n h.nodes }
def dAddNodes (ns : List PyId) (h : DiNet) : DiNet := ns.foldl dAddNode h
def dEnsureEdge (h : DiNet) (e : PyId) : DiNet :=
  if e ∈ dEdgeIds h then h else { h with edges := h.edges ++ [(e, [], [])] }
def dPutMember (h : DiNet) (e n : PyId) (d : Dir) : DiNet :=
  { h with edges := h.edges.map (fun p => if p.1 = e then
      (match d with | .tail => (p.1, ins n p.2.1, p.2.2) | .head => (p.1, p.2.1, ins n p.2.2)) else p) }
/-- `DiHypergraph.add_node_to_edge(e, n, direction)` -/
def dLink (h : DiNet) (e n : PyId) (d : Dir) : DiNet := dPutMember (dAddNode (dEnsureEdge h e) n) e n d
def dLinkAll (l : List (PyId × PyId × Dir)) (h : DiNet) : DiNet := l.foldl (fun h r => dLink h r.2.1 r.1 r.2.2) h

/-- `DiHypergraph.add_edge((tail, head), idx=e)` -/
def dAddEdge (h : DiNet) (e : PyId) (t hd : List PyId) : DiNet :=
  if e ∈ dEdgeIds h then h
  else { nodes := hd.foldl (fun acc x => ins x acc) (t.foldl (fun acc x => ins x acc) h.nodes),
         edges := h.edges ++ [(e, dedup t, dedup hd)] }

/-! ### hyperedge list / dict -/

/-- `to_hyperedge_list` = `H.edges.members()` -/
def toHyperedgeList (h : Net) : List (List PyId) := h.edges.map (·.2)

/-- `from_hyperedge_list` = `add_edges_from` Format 1: IDs from the counter of a fresh hypergraph -/
def fromHyperedgeList (l : List (List PyId)) : Net :=
  (l.foldl (fun (s : Net × Nat) ms => (addEdge s.1 (.int s.2) ms, s.2 + 1)) (emptyNet, 0)).1

/-- `to_hyperedge_dict` = `H.edges.members(dtype=dict)` -/
def toHyperedgeDict (h : Net) : List (PyId × List PyId) := h.edges

/-- `from_hyperedge_dict` = `add_edges_from((members, uid) …)` Format 2 -/
def fromHyperedgeDict (d : List (PyId × List PyId)) : Net := d.foldl (fun h p => addEdge h p.1 p.2) emptyNet

/-! ### bipartite edge list -/

/-- rows `(node, edge)`, edge by edge -/
def toBipartiteEdgelist (h : Net) : List (PyId × PyId) := h.edges.flatMap (fun p => p.2.map (fun n => (n, p.1)))
/-- rows `(node, edge, direction)`: tail ("in") rows, then head ("out") rows of each edge -/
def toBipartiteEdgelistDi (h : DiNet) : List (PyId × PyId × Dir) :=
  h.edges.flatMap (fun p => p.2.1.map (fun n => (n, p.1, Dir.tail)) ++ p.2.2.map (fun n => (n, p.1, Dir.head)))
def fromBipartiteEdgelist (l : List (PyId × PyId)) : Net := linkAll l emptyNet
def fromBipartiteEdgelistDi (l : List (PyId × PyId × Dir)) : DiNet := dLinkAll l emptyDiNet

/-! ### incidence matrix -/

structure IncMat where
  M : List (List Int)
  rows : List PyId
  cols : List PyId
  deriving Repr, Inhabited

/-- `to_incidence_matrix(H, index=True)`: rows = nodes, columns = edges; the 0×0 matrix with empty index
    maps when there are no nodes or no edges -/
def toIncidence (h : Net) : IncMat :=
  if h.nodes = [] ∨ h.edges = [] then { M := [], rows := [], cols := [] }
  else { M := h.nodes.map (fun n => h.edges.map (fun p => if n ∈ p.2 then (1 : Int) else 0)),
         rows := h.nodes, cols := h.edgeIds }

/-- `zip(I.row, I.col)` of `coo_array(d)` mapped through the label dicts: non-zero coordinates in
    row-major order -/
def entries (fn fe : Nat → PyId) (M : List (List Int)) : List (PyId × PyId) :=
  M.zipIdx.flatMap (fun ri => ri.1.zipIdx.filterMap (fun vj => if vj.1 ≠ 0 then some (fn ri.2, fe vj.2) else none))

/-- `dict(zip(range(n), labels))[i]`, or `i` itself without labels -/
def labelFn (labels : Option (List PyId)) (i : Nat) : PyId :=
  match labels with
  | none => .int i
  | some l => l.getD i .none

def shape (M : List (List Int)) : Nat × Nat := (M.length, (M.head?.map List.length).getD 0)

/-- `labels is not None and len(labels) != n` -/
def lenBad (l : Option (List PyId)) (k : Nat) : Bool :=
  match l with
  | some l => l.length != k
  | none => false

/-- `from_incidence_matrix(d, nodelabels=…, edgelabels=…)` -/
def fromIncidence (M : List (List Int)) (nl el : Option (List PyId)) : Except Err Net :=
  if lenBad nl (shape M).1 then .error .lib
  else if lenBad el (shape M).2 then .error .lib
  else .ok (linkAll (entries (labelFn nl) (labelFn el) M) emptyNet)

/-! ### bipartite graph (networkx) -/

/-- what `from_bipartite_graph` reads from a networkx graph -/
structure BGraph where
  directed : Bool
  /-- `G.nodes(data=True)`: vertex and its `bipartite` attribute (`none` = not set) -/
  verts : List (PyId × Option Int)
  /-- `G.edges`: for an undirected graph each edge once, in an orientation chosen by networkx -/
  edges : List (PyId × PyId)
  deriving Repr, Inhabited

def nodeVerts (G : BGraph) : List PyId := G.verts.filterMap (fun p => if p.2 = some 0 then some p.1 else none)
def edgeVerts (G : BGraph) : List PyId := G.verts.filterMap (fun p => if p.2 = some 1 then some p.1 else none)
/-- every vertex carries `bipartite` ∈ {0, 1} (otherwise `XGIError`) -/
def flagsOk (G : BGraph) : Bool := G.verts.all (fun p => p.2 = some 0 || p.2 = some 1)
/-- `_is_bipartite(G, nodes, edges)` -/
def isBipartite (G : BGraph) : Bool :=
  G.edges.all (fun p => decide (p.1 ∈ nodeVerts G) == decide (p.2 ∈ edgeVerts G))

/-- undirected: `if u in edges: u, v = v, u; H.add_node_to_edge(v, u)` (the proposed fix) -/
def orient (ev : List PyId) (p : PyId × PyId) : PyId × PyId := if p.1 ∈ ev then (p.2, p.1) else (p.1, p.2)
/-- directed: `(u, v)` with `v` an edge-vertex is a tail incidence of `v`, otherwise a head incidence of `u` -/
def orientDi (ev : List PyId) (p : PyId × PyId) : PyId × PyId × Dir :=
  if p.2 ∈ ev then (p.1, p.2, .tail) else (p.2, p.1, .head)

def fromBipartiteGraph (G : BGraph) : Except Err Net :=
  if !flagsOk G then .error .lib
  else if !isBipartite G then .error .lib
  else .ok (linkAll (G.edges.map (orient (edgeVerts G))) (addNodes (nodeVerts G) emptyNet))

def fromBipartiteGraphDi (G : BGraph) : Except Err DiNet :=
  if !flagsOk G then .error .lib
  else if !isBipartite G then .error .lib
  else .ok (dLinkAll (G.edges.map (orientDi (edgeVerts G))) (dAddNodes (nodeVerts G) emptyDiNet))

/-- index maps of `to_bipartite_graph(H, index=True)` -/
structure BGIndexed where
  G : BGraph
  itn : List (PyId × PyId)
  ite : List (PyId × PyId)
  deriving Repr, Inhabited

/-- `to_bipartite_graph`: node `i` ↦ vertex `i`, edge `j` ↦ vertex `n + j`; an edge of the graph per
    incidence.  `G.edges` of the result: networkx walks the vertices in insertion order, so every pair
    comes out as (node-vertex, edge-vertex), grouped by node. -/
def toBipartiteGraph (h : Net) : BGIndexed :=
  let n := h.nodes.length
  { G := { directed := false,
           verts := h.nodes.zipIdx.map (fun vi => (PyId.int vi.2, some 0)) ++
                    h.edges.zipIdx.map (fun pj => (PyId.int (n + pj.2 : Nat), some 1)),
           edges := h.nodes.zipIdx.flatMap (fun vi => h.edges.zipIdx.filterMap (fun pj =>
                      if vi.1 ∈ pj.1.2 then some (PyId.int vi.2, PyId.int (n + pj.2 : Nat)) else none)) },
    itn := h.nodes.zipIdx.map (fun vi => (PyId.int vi.2, vi.1)),
    ite := h.edges.zipIdx.map (fun pj => (PyId.int (n + pj.2 : Nat), pj.1.1)) }

/-- directed: node → edge for tail members, edge → node for head members; `DiGraph.edges` lists the
    out-edges of every vertex in insertion order -/
def toBipartiteGraphDi (h : DiNet) : BGIndexed :=
  let n := h.nodes.length
  { G := { directed := true,
           verts := h.nodes.zipIdx.map (fun vi => (PyId.int vi.2, some 0)) ++
                    h.edges.zipIdx.map (fun pj => (PyId.int (n + pj.2 : Nat), some 1)),
           edges := h.nodes.zipIdx.flatMap (fun vi => h.edges.zipIdx.filterMap (fun pj =>
                      if vi.1 ∈ pj.1.2.1 then some (PyId.int vi.2, PyId.int (n + pj.2 : Nat)) else none)) ++
                    h.edges.zipIdx.flatMap (fun pj => h.nodes.zipIdx.filterMap (fun vi =>
                      if vi.1 ∈ pj.1.2.2 then some (PyId.int (n + pj.2 : Nat), PyId.int vi.2) else none)) },
    itn := h.nodes.zipIdx.map (fun vi => (PyId.int vi.2, vi.1)),
    ite := h.edges.zipIdx.map (fun pj => (PyId.int (n + pj.2 : Nat), pj.1.1)) }

/-! ### two-column dataframe -/

/-- rows `(node, edge)` in `H._node` order -/
def toDataframe (h : Net) : List (PyId × PyId) := h.nodes.flatMap (fun n => (h.memberships n).map (fun e => (n, e)))
def fromDataframe (rows : List (PyId × PyId)) : Net := linkAll rows emptyNet

/-! ### attributed networks -/

structure ANet where
  cls : Cls
  net : Net
  nattr : PyId → Attrs
  eattr : PyId → Attrs
  gattr : Attrs

structure ADiNet where
  net : DiNet
  nattr : PyId → Attrs
  eattr : PyId → Attrs
  gattr : Attrs

def emptyANet (c : Cls) : ANet := { cls := c, net := emptyNet, nattr := fun _ => [], eattr := fun _ => [], gattr := [] }
def emptyADiNet : ADiNet := { net := emptyDiNet, nattr := fun _ => [], eattr := fun _ => [], gattr := [] }

/-- `H.add_node(n, **attr)`: a new node starts with `{}`; attributes are updated either way -/
def aAddNode (a : ANet) (n : PyId) (av : Attrs) : ANet :=
  if n ∈ a.net.nodes then { a with nattr := upd a.nattr n (Attrs.update (a.nattr n) av) }
  else { a with net := addNode a.net n, nattr := upd a.nattr n (Attrs.update [] av) }
/-- `H.add_edge(ms, e, **attr)` / `add_edges_from` Format 4 step -/
def aAddEdge (a : ANet) (e : PyId) (ms : List PyId) (av : Attrs) : ANet :=
  if e ∈ a.net.edgeIds then a
  else { a with net := addEdge a.net e ms, eattr := upd a.eattr e (Attrs.update [] av) }
/-- `H.set_edge_attributes({e: attr})`: unknown IDs are ignored -/
def aSetEdgeAttr (a : ANet) (e : PyId) (av : Attrs) : ANet :=
  if e ∈ a.net.edgeIds then { a with eattr := upd a.eattr e (Attrs.update (a.eattr e) av) } else a
/-- `H.set_node_attributes({n: attr})` -/
def aSetNodeAttr (a : ANet) (n : PyId) (av : Attrs) : ANet :=
  if n ∈ a.net.nodes then { a with nattr := upd a.nattr n (Attrs.update (a.nattr n) av) } else a
def aLink (a : ANet) (e n : PyId) : ANet := { a with net := link a.net e n }

def dAAddNode (a : ADiNet) (n : PyId) (av : Attrs) : ADiNet :=
  if n ∈ a.net.nodes then { a with nattr := upd a.nattr n (Attrs.update (a.nattr n) av) }
  else { a with net := dAddNode a.net n, nattr := upd a.nattr n (Attrs.update [] av) }
def dAAddEdge (a : ADiNet) (e : PyId) (t hd : List PyId) (av : Attrs) : ADiNet :=
  if e ∈ dEdgeIds a.net then a
  else { a with net := dAddEdge a.net e t hd, eattr := upd a.eattr e (Attrs.update [] av) }
def dASetEdgeAttr (a : ADiNet) (e : PyId) (av : Attrs) : ADiNet :=
  if e ∈ dEdgeIds a.net then { a with eattr := upd a.eattr e (Attrs.update (a.eattr e) av) } else a
def dASetNodeAttr (a : ADiNet) (n : PyId) (av : Attrs) : ADiNet :=
  if n ∈ a.net.nodes then { a with nattr := upd a.nattr n (Attrs.update (a.nattr n) av) } else a

/-! ### attribute records of the readers (repaired: no `**attr` call is left)

  On the unchanged tree `from_hif_dict` called `H.add_node(n, **attr)` / `H.add_edge(members, e, **attr)` and
  `from_hypergraph_dict` called `H.add_node(idx, **dd)`: an attribute *key* spelled like a parameter (`node`,
  `idx`, `members`) raised `TypeError`.  The repaired readers (proposed_fixes/C10-*.diff) first add the bare
  node / edge when it is absent and then hand the attribute dict over as a *value*
  (`H.set_node_attributes({n: attr})` / `H.set_edge_attributes({e: attr})`), so attribute keys are arbitrary
  strings.  The steps below are these statements, literally. -/

/-- one node record of `from_hif_dict`:
    `if n not in H._node: H.add_node(n)` ; `H.set_node_attributes({n: attr})` -/
def hifNodeRec (a : ANet) (n : PyId) (av : Attrs) : ANet :=
  aSetNodeAttr (if n ∈ a.net.nodes then a else aAddNode a n []) n av

/-- one edge record of `from_hif_dict` (undirected / asc):
    `if e not in H._edge: H.add_edge(set(), e)` ; `H.set_edge_attributes({e: attr})` -/
def hifEdgeRec (a : ANet) (e : PyId) (av : Attrs) : ANet :=
  aSetEdgeAttr (if e ∈ a.net.edgeIds then a else aAddEdge a e [] []) e av

/-- one node record of `from_hif_dict` (directed) -/
def dHifNodeRec (a : ADiNet) (n : PyId) (av : Attrs) : ADiNet :=
  dASetNodeAttr (if n ∈ a.net.nodes then a else dAAddNode a n []) n av

/-- one edge record of `from_hif_dict` (directed):
    `if e not in H._edge: H.add_edge((set(), set()), e)` ; `H.set_edge_attributes({e: attr})` -/
def dHifEdgeRec (a : ADiNet) (e : PyId) (av : Attrs) : ADiNet :=
  dASetEdgeAttr (if e ∈ dEdgeIds a.net then a else dAAddEdge a e [] [] []) e av

/-- one entry of `data["node-data"]` in `from_hypergraph_dict`:
    `H.add_node(idx)` ; `H.set_node_attributes({idx: dd})` -/
def hdNodeRec (a : ANet) (n : PyId) (av : Attrs) : ANet :=
  aSetNodeAttr (aAddNode a n []) n av

/-! ### the standard hypergraph dict (xgi-data JSON layout) -/

structure HDict where
  gattr : Attrs
  nodeData : List (String × Attrs)
  edgeData : List (String × Attrs)
  edgeDict : List (String × List String)
  deriving Repr, Inhabited

def atomInt? : PyId → Option Int
  | .atom (.int i) => some i
  | _ => none
def atomStr? : PyId → Option String
  | .atom (.str s) => some s
  | _ => none

/-- Python `sorted` on a member set: by value for all-int, by code point for all-str lists;
    `TypeError` (= `none`) when the types are mixed (or not atoms) and there are at least two members -/
def sortIds (l : List PyId) : Option (List PyId) :=
  if l.length ≤ 1 then some l
  else if l.all (fun x => (atomInt? x).isSome) then
    some (l.mergeSort (fun x y => decide ((atomInt? x).getD 0 ≤ (atomInt? y).getD 0)))
  else if l.all (fun x => (atomStr? x).isSome) then
    some (l.mergeSort (fun x y => decide ((atomStr? x).getD "" ≤ (atomStr? y).getD "")))
  else none

def mapO {α β} (f : α → Option β) : List α → Option (List β)
  | [] => some []
  | a :: t => match f a, mapO f t with
    | some b, some bs => some (b :: bs)
    | _, _ => none

def mapE {α β} (f : α → Except Err β) : List α → Except Err (List β)
  | [] => .ok []
  | a :: t => match f a, mapE f t with
    | .ok b, .ok bs => .ok (b :: bs)
    | .error e, _ => .error e
    | _, .error e => .error e

/-- `str(id)` for atomic IDs: the decimal numeral of an int, a string itself (what the driver passes as `cast`) -/
def strCast : PyId → String
  | .atom (.int i) => toString i
  | .atom (.str s) => s
  | _ => "?"

/-- `nodetype=int` / `edgetype=int`: `int(s)`, a `TypeError`-class failure on a non-numeral -/
def uncastInt (s : String) : Except Err PyId :=
  match s.toInt? with
  | some i => .ok (.int i)
  | none => .error .type

/-- `nodetype=None` / `edgetype=None`: the JSON key stays the string it is -/
def uncastStr (s : String) : Except Err PyId := .ok (.str s)

/-- the ID type a reader is told to expect: `int` or `None` -/
inductive IdType where | int | str
  deriving DecidableEq, Repr, Inhabited

def IdType.uncast : IdType → String → Except Err PyId
  | .int => uncastInt
  | .str => uncastStr

/-- the ID has the given type -/
def IdType.Holds (t : IdType) (x : PyId) : Prop :=
  match t with
  | .int => ∃ i : Int, x = .int i
  | .str => ∃ s : String, x = .str s

/-- `to_hypergraph_dict`: IDs are cast to strings; colliding casts are refused (`XGIError`) -/
def toHypergraphDict (cast : PyId → String) (a : ANet) : Except Err HDict :=
  if ¬ (a.net.nodes.map cast).Nodup then .error .lib
  else if ¬ (a.net.edgeIds.map cast).Nodup then .error .lib
  else match mapO (fun (p : PyId × List PyId) => (sortIds p.2).map (fun ms => (cast p.1, ms.map cast))) a.net.edges with
    | none => .error .type
    | some ed => .ok { gattr := Attrs.update [] a.gattr,
                       nodeData := a.net.nodes.map (fun n => (cast n, a.nattr n)),
                       edgeData := a.net.edgeIds.map (fun e => (cast e, a.eattr e)),
                       edgeDict := ed }

/-- the construction part of `from_hypergraph_dict`, after the ID casts -/
def buildHD (g : Attrs) (nd : List (PyId × Attrs)) (ed : List (PyId × List PyId)) (ea : List (PyId × Attrs)) : ANet :=
  let a0 := { emptyANet .hg with gattr := Attrs.update [] g }
  let a1 := nd.foldl (fun a p => hdNodeRec a p.1 p.2) a0
  let a2 := ed.foldl (fun a p => aAddEdge a p.1 p.2 []) a1
  ea.foldl (fun a p => aSetEdgeAttr a p.1 p.2) a2

/-- one entry of `data["edge-dict"]`: `edgetype(idx)` and `{nodetype(n) for n in edge}` -/
def uncastEdge (uncastN uncastE : String → Except Err PyId) (p : String × List String) : Except Err (PyId × List PyId) :=
  match uncastE p.1, mapE uncastN p.2 with
  | .ok e, .ok ms => .ok (e, ms)
  | .error x, _ => .error x
  | _, .error x => .error x

/-- `from_hypergraph_dict(data, nodetype, edgetype)`; `uncastN` / `uncastE` are `nodetype` / `edgetype`
    (a failed cast is a `TypeError`) -/
def fromHypergraphDict (uncastN uncastE : String → Except Err PyId) (d : HDict) : Except Err ANet :=
  match mapE (fun (p : String × Attrs) => (uncastN p.1).map (fun n => (n, p.2))) d.nodeData,
        mapE (uncastEdge uncastN uncastE) d.edgeDict,
        mapE (fun (p : String × Attrs) => (uncastE p.1).map (fun e => (e, p.2))) d.edgeData with
  | .ok nd, .ok ed, .ok ea => .ok (buildHD d.gattr nd ed ea)
  | .error x, _, _ => .error x
  | _, .error x, _ => .error x
  | _, _, .error x => .error x

/-! ### HIF dict -/

structure Hif where
  ntype : Cls
  metadata : Attrs
  /-- records `{"node": n}` / `{"node": n, "attrs": …}` -/
  nodes : List (PyId × Option Attrs)
  edges : List (PyId × Option Attrs)
  /-- records `{"edge": e, "node": n[, "direction": …]}` -/
  incs : List (PyId × PyId × Option Dir)

def isolated (h : Net) (n : PyId) : Bool := h.edges.all (fun p => n ∉ p.2)
def dIsolated (h : DiNet) (n : PyId) : Bool := h.edges.all (fun p => n ∉ p.2.1 ∧ n ∉ p.2.2)

def recOf (av : Attrs) : Option Attrs := if av = [] then none else some av

/-- `to_hif_dict` for a Hypergraph / SimplicialComplex: node records only for isolated or attributed nodes,
    edge records only for empty or attributed edges -/
def toHif (a : ANet) : Hif :=
  { ntype := a.cls, metadata := Attrs.update [] a.gattr,
    nodes := (a.net.nodes.filter (fun n => isolated a.net n || a.nattr n ≠ [])).map (fun n => (n, recOf (a.nattr n))),
    edges := (a.net.edges.filter (fun p => p.2 = [] || a.eattr p.1 ≠ [])).map (fun p => (p.1, recOf (a.eattr p.1))),
    incs := (toBipartiteEdgelist a.net).map (fun r => (r.2, r.1, none)) }

def toHifDi (a : ADiNet) : Hif :=
  { ntype := .dhg, metadata := Attrs.update [] a.gattr,
    nodes := (a.net.nodes.filter (fun n => dIsolated a.net n || a.nattr n ≠ [])).map (fun n => (n, recOf (a.nattr n))),
    edges := (a.net.edges.filter (fun p => (p.2.1 = [] && p.2.2 = []) || a.eattr p.1 ≠ [])).map (fun p => (p.1, recOf (a.eattr p.1))),
    incs := (toBipartiteEdgelistDi a.net).map (fun r => (r.2.1, r.1, some r.2.2)) }

/-- `from_hif_dict` for network types "undirected" / "asc", before the final `SimplicialComplex(H)` -/
def fromHifU (d : Hif) : ANet :=
  let a0 : ANet := { emptyANet .hg with gattr := Attrs.update [] d.metadata }
  let a1 := d.incs.foldl (fun a r => aLink a r.1 r.2.1) a0
  let a2 := d.nodes.foldl (fun a r => hifNodeRec a r.1 (r.2.getD [])) a1
  d.edges.foldl (fun a r => hifEdgeRec a r.1 (r.2.getD [])) a2

def fromHifD (d : Hif) : ADiNet :=
  let a0 : ADiNet := { emptyADiNet with gattr := Attrs.update [] d.metadata }
  let a1 := d.incs.foldl (fun a r => { a with net := dLink a.net r.1 r.2.1 (r.2.2.getD .head) }) a0
  let a2 := d.nodes.foldl (fun a r => dHifNodeRec a r.1 (r.2.getD [])) a1
  d.edges.foldl (fun a r => dHifEdgeRec a r.1 (r.2.getD [])) a2

/-! ### class-to-class constructors -/

/-- `tail | head` -/
def union (t hd : List PyId) : List PyId := hd.foldl (fun acc x => ins x acc) t

/-- `DiEdgeView.members`: every edge as the union of its tail and head -/
def dFlat (h : DiNet) : Net := { nodes := h.nodes, edges := h.edges.map (fun p => (p.1, union p.2.1 p.2.2)) }
def ADiNet.flat (a : ADiNet) (c : Cls) : ANet := { cls := c, net := dFlat a.net, nattr := a.nattr, eattr := a.eattr, gattr := a.gattr }

/-- `to_hypergraph(data)` for a network source: nodes with attributes, then edges (Format 4), then the
    network attributes -/
def toHypergraph (src : ANet) : ANet :=
  let a1 := src.net.nodes.foldl (fun a n => aAddNode a n (src.nattr n)) (emptyANet .hg)
  let a2 := src.net.edges.foldl (fun a p => aAddEdge a p.1 p.2 (src.eattr p.1)) a1
  { a2 with gattr := src.gattr }

/-- `to_dihypergraph(data)` for a DiHypergraph source -/
def toDiHypergraph (src : ADiNet) : ADiNet :=
  let a1 := src.net.nodes.foldl (fun a n => dAAddNode a n (src.nattr n)) emptyADiNet
  let a2 := src.net.edges.foldl (fun a p => dAAddEdge a p.1 p.2.1 p.2.2 (src.eattr p.1)) a1
  { a2 with gattr := src.gattr }

/-- set equality of two member lists -/
def sameSet (x y : List PyId) : Bool := x.all (· ∈ y) && y.all (· ∈ x)
/-- `SimplicialComplex.has_simplex` -/
def hasSimplex (es : List (PyId × List PyId)) (ms : List PyId) : Bool := es.any (fun p => sameSet p.2 ms)

/-- all sublists -/
def subs {α} : List α → List (List α)
  | [] => [[]]
  | a :: t => subs t ++ (subs t).map (a :: ·)

/-- `_subfaces(simplex)`: the proper faces with at least two nodes -/
def subfaces (ms : List PyId) : List (List PyId) := (subs ms).filter (fun f => 2 ≤ f.length ∧ f.length < ms.length)

/-- `update_uid_counter` -/
def bump (uid : Nat) (e : PyId) : Nat :=
  match e with
  | .atom (.int i) => if (uid : Int) ≤ i then (i + 1).toNat else uid
  | _ => uid

structure SCState where
  a : ANet
  uid : Nat
  faces : List (List PyId)

/-- one step of `add_simplices_from` Format 4: skip empty and already-present simplices and taken IDs;
    the faces are collected and added at the end -/
def scStep (s : SCState) (e : PyId) (ms : List PyId) (av : Attrs) : SCState :=
  if ms = [] ∨ hasSimplex s.a.net.edges ms then s
  else if e ∈ s.a.net.edgeIds then s
  else { a := aAddEdge s.a e ms av, uid := bump s.uid e, faces := s.faces ++ subfaces (dedup ms) }

/-- `_add_face` for every collected face that is not present yet (IDs from the counter) -/
def addFace (s : ANet × Nat) (f : List PyId) : ANet × Nat :=
  if f = [] ∨ hasSimplex s.1.net.edges f then s
  else ({ s.1 with net := addEdge s.1.net (.int s.2) f, eattr := upd s.1.eattr (.int s.2) [] }, s.2 + 1)

/-- `to_simplicial_complex(data)` for a network source (with the proposed fixes: network attributes are
    copied; a directed source contributes `tail | head`) -/
def toSimplicialComplex (src : ANet) : ANet :=
  let a1 := src.net.nodes.foldl (fun a n => aAddNode a n (src.nattr n)) (emptyANet .sc)
  let s2 := src.net.edges.foldl (fun s p => scStep s p.1 p.2 (src.eattr p.1)) { a := a1, uid := 0, faces := [] }
  let r := s2.faces.foldl addFace (s2.a, s2.uid)
  { r.1 with gattr := src.gattr }

/-- number of edges the target keeps by ID (the rest of its edge list are automatically created faces) -/
def keptCount (src : ANet) : Nat :=
  let a1 := src.net.nodes.foldl (fun a n => aAddNode a n (src.nattr n)) (emptyANet .sc)
  (src.net.edges.foldl (fun s p => scStep s p.1 p.2 (src.eattr p.1)) { a := a1, uid := 0, faces := [] }).a.net.edges.length

/-- `from_hif_dict`: network type "asc" finishes with `SimplicialComplex(H)` -/
def fromHif (d : Hif) : ANet ⊕ ADiNet :=
  match d.ntype with
  | .hg => .inl (fromHifU d)
  | .sc => .inl (toSimplicialComplex (fromHifU d))
  | .dhg => .inr (fromHifD d)

/-- `Hypergraph(N)`, `DiHypergraph(N)`, `SimplicialComplex(N)` for a network `N` -/
def ofClass (src : ANet ⊕ ADiNet) (target : Cls) : Except Err (ANet ⊕ ADiNet) :=
  match target, src with
  | .hg, .inl a => .ok (.inl (toHypergraph a))
  | .hg, .inr a => .ok (.inl (toHypergraph (a.flat .hg)))
  | .dhg, .inr a => .ok (.inr (toDiHypergraph a))
  | .dhg, .inl _ => .error .lib
  | .sc, .inl a => .ok (.inl (toSimplicialComplex a))
  | .sc, .inr a => .ok (.inl (toSimplicialComplex (a.flat .hg)))

end Xgi.C10
