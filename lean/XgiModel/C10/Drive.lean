/-
  JSON request → C10 model call → JSON.  Used by Drivers/C10.lean.
  Requests: {"f": <converter pair>, "net": <attributed network>, …options} or
            {"f": "from_bipartite_graph", "nx": {"directed", "verts", "edges"}}.
-/
import XgiModel.Proto
import XgiModel.C10.Convert
import XgiModel.C10.DataframeSC
open Lean Xgi.Proto

namespace Xgi.C10.Drive

def errJson : Err → Json
  | .lib => Json.mkObj [("out", "err:lib")]
  | .type => Json.mkObj [("out", "err:type")]
  | .value => Json.mkObj [("out", "err:value")]

def unmodelled : Json := Json.mkObj [("out", "unmodelled")]
def attrsJ (a : Attrs) : Json := Json.mkObj [("$attrs", attrsToJson a)]
def clsJson : Cls → Json
  | .hg => "hg" | .dhg => "dhg" | .sc => "sc"
def cls? : String → Option Cls
  | "hg" => some .hg | "dhg" => some .dhg | "sc" => some .sc | _ => none
def dirJson : Dir → Json
  | .tail => "in" | .head => "out"

def lookupAttrs (l : List (PyId × Attrs)) (k : PyId) : Attrs := ((l.find? (·.1 = k)).map (·.2)).getD []

def idAttrs? (j : Json) (k : String) : Option (List (PyId × Attrs)) := do
  let arr ← getArr? j k
  arr.mapM (fun p => match p with
    | .arr #[i, a] => do pure ((← idOfJson? i), (← attrsOfJson? a))
    | _ => none)

def isAtom : PyId → Bool
  | .atom _ => true
  | _ => false

/-- the encoded network of a request: undirected / simplicial, or directed -/
def src? (j : Json) : Option (ANet ⊕ ADiNet) := do
  let c ← (getStr? j "cls").bind cls?
  let na ← idAttrs? j "nattr"
  let ea ← idAttrs? j "eattr"
  let g ← getAttrs? j "gattr"
  match c with
  | .dhg => do
    let h ← diNetOfJson? j
    pure (.inr { net := h, nattr := lookupAttrs na, eattr := lookupAttrs ea, gattr := g })
  | c => do
    let h ← netOfJson? j
    pure (.inl { cls := c, net := h, nattr := lookupAttrs na, eattr := lookupAttrs ea, gattr := g })

def atomsOnly : ANet ⊕ ADiNet → Bool
  | .inl a => a.net.nodes.all isAtom && a.net.edges.all (fun p => isAtom p.1 && p.2.all isAtom)
  | .inr a => a.net.nodes.all isAtom && a.net.edges.all (fun p => isAtom p.1 && p.2.1.all isAtom && p.2.2.all isAtom)

def aNetJson (a : ANet) (extra : List (String × Json) := []) : Json :=
  Json.mkObj ([("cls", clsJson a.cls), ("nodes", idsToJson a.net.nodes),
    ("edges", Json.arr (a.net.edges.map (fun p => Json.arr #[idToJson p.1, setToJson p.2])).toArray),
    ("nattr", Json.arr (a.net.nodes.map (fun n => Json.arr #[idToJson n, attrsJ (a.nattr n)])).toArray),
    ("eattr", Json.arr (a.net.edges.map (fun p => Json.arr #[idToJson p.1, attrsJ (a.eattr p.1)])).toArray),
    ("gattr", attrsJ a.gattr)] ++ extra)

def aDiNetJson (a : ADiNet) : Json :=
  Json.mkObj [("cls", "dhg"), ("nodes", idsToJson a.net.nodes),
    ("edges", Json.arr (a.net.edges.map (fun p => Json.arr #[idToJson p.1, setToJson p.2.1, setToJson p.2.2])).toArray),
    ("nattr", Json.arr (a.net.nodes.map (fun n => Json.arr #[idToJson n, attrsJ (a.nattr n)])).toArray),
    ("eattr", Json.arr (a.net.edges.map (fun p => Json.arr #[idToJson p.1, attrsJ (a.eattr p.1)])).toArray),
    ("gattr", attrsJ a.gattr)]

/-- a bare network returned by a converter: every attribute dict is empty -/
def bare (h : Net) : ANet := { emptyANet .hg with net := h }
def bareDi (h : DiNet) : ADiNet := { emptyADiNet with net := h }

def ok (rep : Json) (rt : Json) : Json := Json.mkObj [("out", "ok"), ("rep", rep), ("rt", rt)]

def pairsJson (l : List (PyId × PyId)) : Json := Json.arr (l.map (fun p => Json.arr #[idToJson p.1, idToJson p.2])).toArray

def graphJson (G : BGraph) : List (String × Json) :=
  [("directed", Json.bool G.directed),
   ("verts", Json.arr (G.verts.map (fun p => Json.arr #[idToJson p.1, match p.2 with | some f => intJson f | none => Json.null])).toArray),
   ("edges", pairsJson G.edges)]

def graph? (j : Json) : Option BGraph := do
  let d ← getBool? j "directed"
  let vs ← getArr? j "verts"
  let vs ← vs.mapM (fun p => match p with
    | .arr #[v, .null] => do pure ((← idOfJson? v), (none : Option Int))
    | .arr #[v, .num n] => do if n.exponent = 0 then pure ((← idOfJson? v), some n.mantissa) else none
    | _ => none)
  let es ← getArr? j "edges"
  let es ← es.mapM (fun p => match p with
    | .arr #[u, v] => do pure ((← idOfJson? u), (← idOfJson? v))
    | _ => none)
  pure { directed := d, verts := vs, edges := es }

/-- `str(id)` for atomic IDs: `Xgi.C10.strCast` (Convert.lean; theorem `hypergraphDict_rt_int_str`) -/
def cast : PyId → String := strCast

/-- `nodetype` / `edgetype`: `int` (`uncastInt`) or `None` (`uncastStr`); "mixed" = `None` on IDs of both types -/
def uncast? : String → Option (String → Except Err PyId)
  | "int" => some uncastInt
  | "none" => some uncastStr
  | "mixed" => some uncastStr
  | _ => none

def hdictJson (d : HDict) : Json :=
  Json.mkObj [("gattr", attrsJ d.gattr),
    ("node-data", Json.arr (d.nodeData.map (fun p => Json.arr #[Json.str p.1, attrsJ p.2])).toArray),
    ("edge-data", Json.arr (d.edgeData.map (fun p => Json.arr #[Json.str p.1, attrsJ p.2])).toArray),
    ("edge-dict", Json.arr (d.edgeDict.map (fun p => Json.arr #[Json.str p.1, Json.arr (p.2.map Json.str).toArray])).toArray)]

def recJson (r : PyId × Option Attrs) : Json :=
  Json.arr #[idToJson r.1, match r.2 with | some a => attrsJ a | none => Json.str "$none"]

def incJson (r : PyId × PyId × Option Dir) : Json :=
  match r.2.2 with
  | some .tail => Json.arr #[idToJson r.1, idToJson r.2.1, Json.str "tail"]
  | some .head => Json.arr #[idToJson r.1, idToJson r.2.1, Json.str "head"]
  | none => Json.arr #[idToJson r.1, idToJson r.2.1]

def hifJson (d : Hif) : Json :=
  Json.mkObj [("ntype", match d.ntype with | .hg => "undirected" | .dhg => "directed" | .sc => "asc"),
    ("gattr", attrsJ d.metadata),
    ("nodes", Json.arr (d.nodes.map recJson).toArray),
    ("edges", Json.arr (d.edges.map recJson).toArray),
    ("incidences", Json.arr (d.incs.map incJson).toArray)]

def resultJson : ANet ⊕ ADiNet → Json
  | .inl a => aNetJson a
  | .inr a => aDiNetJson a

def handleNet (f : String) (j : Json) (src : ANet ⊕ ADiNet) : Json :=
  match f, src with
  | "hyperedge_list", .inl a =>
    let l := toHyperedgeList a.net
    ok (Json.arr (l.map setToJson).toArray) (aNetJson (bare (fromHyperedgeList l)))
  | "hyperedge_dict", .inl a =>
    let d := toHyperedgeDict a.net
    ok (Json.arr (d.map (fun p => Json.arr #[idToJson p.1, setToJson p.2])).toArray) (aNetJson (bare (fromHyperedgeDict d)))
  | "bipartite_edgelist", .inl a =>
    let l := toBipartiteEdgelist a.net
    ok (pairsJson l) (aNetJson (bare (fromBipartiteEdgelist l)))
  | "bipartite_edgelist", .inr a =>
    let l := toBipartiteEdgelistDi a.net
    -- with no rows nothing tells directed from undirected: the empty Hypergraph
    ok (Json.arr (l.map (fun r => Json.arr #[idToJson r.1, idToJson r.2.1, dirJson r.2.2])).toArray)
      (if l.isEmpty then aNetJson (bare emptyNet) else aDiNetJson (bareDi (fromBipartiteEdgelistDi l)))
  | "incidence_labelled", .inl a =>
    let m := toIncidence a.net
    let rep := Json.mkObj [("M", Json.arr (m.M.map (fun r => Json.arr (r.map intJson).toArray)).toArray),
      ("rows", idsToJson m.rows), ("cols", idsToJson m.cols)]
    match fromIncidence m.M (some m.rows) (some m.cols) with
    | .ok h => ok rep (aNetJson (bare h))
    | .error e => errJson e
  | "incidence_unlabelled", .inl a =>
    let m := toIncidence a.net
    let rep := Json.mkObj [("M", Json.arr (m.M.map (fun r => Json.arr (r.map intJson).toArray)).toArray),
      ("rows", idsToJson m.rows), ("cols", idsToJson m.cols)]
    match fromIncidence m.M none none with
    | .ok h => ok rep (aNetJson (bare h))
    | .error e => errJson e
  | "bipartite_graph", .inl a =>
    let g := toBipartiteGraph a.net
    let rep := Json.mkObj (graphJson g.G ++ [("itn", pairsJson g.itn), ("ite", pairsJson g.ite)])
    match fromBipartiteGraph g.G with
    | .ok h => ok rep (aNetJson (bare h))
    | .error e => errJson e
  | "bipartite_graph", .inr a =>
    let g := toBipartiteGraphDi a.net
    let rep := Json.mkObj (graphJson g.G ++ [("itn", pairsJson g.itn), ("ite", pairsJson g.ite)])
    match fromBipartiteGraphDi g.G with
    | .ok h => ok rep (aDiNetJson (bareDi h))
    | .error e => errJson e
  | "dataframe", .inl a =>
    let rows := toDataframe a.net
    ok (pairsJson rows) (aNetJson (bare (fromDataframe rows)))
  | "dataframe_sc", .inl a =>
    -- read back with create_using=SimplicialComplex (from_bipartite_pandas_dataframe / SimplicialComplex(df))
    let rows := toDataframe a.net
    ok (pairsJson rows) (aNetJson (fromDataframeSC rows) [("kept", natJson (keptCount (bare (fromDataframe rows))))])
  | "hypergraph_dict", .inl a =>
    match (getStr? j "nodetype").bind uncast?, (getStr? j "edgetype").bind uncast? with
    | some un, some ue =>
      match toHypergraphDict cast a with
      | .error e => errJson e
      | .ok d => match fromHypergraphDict un ue d with
        | .error e => errJson e
        | .ok r => ok (hdictJson d) (aNetJson r)
    | _, _ => badOp
  | "hif_dict", .inl a =>
    let d := toHif a
    let rt := match d.ntype with
      | .sc => aNetJson (toSimplicialComplex (fromHifU d)) [("kept", natJson (keptCount (fromHifU d)))]
      | _ => resultJson (fromHif d)
    ok (hifJson d) rt
  | "hif_dict", .inr a =>
    let d := toHifDi a
    ok (hifJson d) (resultJson (fromHif d))
  | "class", src =>
    match (getStr? j "target").bind cls? with
    | none => badOp
    | some t => match ofClass src t with
      | .error e => errJson e
      | .ok (.inr r) => ok Json.null (aDiNetJson r)
      | .ok (.inl r) =>
        if t = .sc then
          let flatSrc : ANet := match src with | .inl a => a | .inr a => a.flat .hg
          ok Json.null (aNetJson r [("kept", natJson (keptCount flatSrc))])
        else ok Json.null (aNetJson r)
  | _, _ => badOp

def handle (_ : Unit) (j : Json) : Unit × Json :=
  ((), match getStr? j "f" with
    | none => badOp
    | some "from_bipartite_graph" =>
      match (getField? j "nx").bind graph? with
      | none => badOp
      | some G =>
        if G.directed then
          match fromBipartiteGraphDi G with
          | .ok h => ok (Json.mkObj (graphJson G)) (aDiNetJson (bareDi h))
          | .error e => errJson e
        else
          match fromBipartiteGraph G with
          | .ok h => ok (Json.mkObj (graphJson G)) (aNetJson (bare h))
          | .error e => errJson e
    | some f =>
      if (getField? j "using").isSome && (getField? j "using") != some Json.null then unmodelled else
      match (getField? j "net").bind src? with
      | none => badOp
      | some src => if !atomsOnly src then unmodelled else handleNet f j src)

end Xgi.C10.Drive
