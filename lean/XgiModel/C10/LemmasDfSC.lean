/-
  C10 — helper lemmas for the simplicial-complex branch of the dataframe reader: a stored simplicial complex `a`
  read through any intermediate hypergraph `b` with the same edge IDs and the same labelled incidences, then
  `SimplicialComplex(b)` (`toSimplicialComplex`), keeps every simplex under its ID and, when closed, is exactly `a`.
-/
import XgiModel.C10.Lemmas
import XgiModel.C10.DataframeSC

namespace Xgi.C10

theorem awf_bare (h : Net) (hw : h.WF) : AWF { emptyANet .hg with net := h } :=
  ⟨hw, by simp [emptyANet, AttrsWF], fun _ _ => by simp [emptyANet, AttrsWF], fun _ _ => by simp [emptyANet, AttrsWF]⟩

/-- the edge IDs of the dataframe round trip: the edges that have a member -/
theorem edgeIds_dataframe_rt (h : Net) (hw : h.WF) (hne : ∀ p ∈ h.edges, p.2 ≠ []) (e : PyId) :
    e ∈ (fromDataframe (toDataframe h)).edgeIds ↔ e ∈ h.edgeIds := by
  unfold fromDataframe
  rw [mem_edgeIds_linkAll]
  simp only [mem_toDataframe, emptyNet, Net.edgeIds, List.map_nil, List.not_mem_nil, false_or, List.mem_map]
  constructor
  · rintro ⟨n, _, p, hp, he, _⟩; exact ⟨p, hp, he⟩
  · rintro ⟨p, hp, he⟩
    cases hms : p.2 with
    | nil => exact absurd hms (hne p hp)
    | cons x t =>
      have hx : x ∈ p.2 := by rw [hms]; simp
      exact ⟨x, (hw.2.2 p hp).2 x hx, p, hp, he, hx⟩

theorem sc_transport (a : Net) (b : ANet) (hwa : a.WF) (hwb : AWF b) (hsc : SCWF a)
    (r2 : ∀ e, e ∈ b.net.edgeIds ↔ e ∈ a.edgeIds) (r3 : ∀ n e, Inc b.net n e ↔ Inc a n e) :
    (∀ p ∈ a.edges, ∃ q ∈ (toSimplicialComplex b).net.edges, q.1 = p.1 ∧ ∀ x, x ∈ q.2 ↔ x ∈ p.2) ∧
    (∀ q ∈ (toSimplicialComplex b).net.edges, ∃ p ∈ a.edges, ∀ x ∈ q.2, x ∈ p.2) ∧
    (SCClosed a → (∀ e, e ∈ (toSimplicialComplex b).net.edgeIds ↔ e ∈ a.edgeIds) ∧
      (∀ n e, Inc (toSimplicialComplex b).net n e ↔ Inc a n e)) := by
  have r7 := hwb.net
  obtain ⟨_, _, _, _, _, _, t7⟩ := toSimplicialComplex_spec _ hwb
  have hsame : ∀ p' ∈ b.net.edges, ∃ p ∈ a.edges, p.1 = p'.1 ∧ ∀ x, x ∈ p'.2 ↔ x ∈ p.2 := by
    intro p' hp'
    have : p'.1 ∈ a.edgeIds := (r2 _).mp (by unfold Net.edgeIds; rw [List.mem_map]; exact ⟨p', hp', rfl⟩)
    unfold Net.edgeIds at this; rw [List.mem_map] at this
    obtain ⟨p, hp, hpe⟩ := this
    refine ⟨p, hp, hpe, fun x => ?_⟩
    rw [← inc_iff_of_wf r7 hp', ← inc_iff_of_wf hwa hp, hpe]
    exact r3 x p'.1
  have hsame' : ∀ p ∈ a.edges, ∃ p' ∈ b.net.edges, p'.1 = p.1 ∧ ∀ x, x ∈ p'.2 ↔ x ∈ p.2 := by
    intro p hp
    have : p.1 ∈ b.net.edgeIds := (r2 _).mpr (by unfold Net.edgeIds; rw [List.mem_map]; exact ⟨p, hp, rfl⟩)
    unfold Net.edgeIds at this; rw [List.mem_map] at this
    obtain ⟨p', hp', hpe⟩ := this
    refine ⟨p', hp', hpe, fun x => ?_⟩
    rw [← inc_iff_of_wf r7 hp', ← inc_iff_of_wf hwa hp, hpe]
    exact r3 x p.1
  have hsc' : SCWF b.net := by
    constructor
    · intro p' hp' h0
      obtain ⟨p, hp, _, hm⟩ := hsame p' hp'
      cases hms : p.2 with
      | nil => exact hsc.ne p hp hms
      | cons x t =>
        have : x ∈ p'.2 := (hm x).mpr (by rw [hms]; simp)
        rw [h0] at this; simp at this
    · intro p' hp' q' hq' hs
      obtain ⟨p, hp, hpe, hm⟩ := hsame p' hp'
      obtain ⟨q, hq, hqe, hmq⟩ := hsame q' hq'
      rw [sameSet_iff] at hs
      have : p = q := hsc.distinct p hp q hq ((sameSet_iff _ _).mpr (fun z => by rw [← hm z, hs z, hmq z]))
      exact eq_of_key_eq r7.2.1 hp' hq' (by rw [← hpe, ← hqe, this])
  obtain ⟨⟨extra, k1⟩, _, k3⟩ := toSimplicialComplex_kept _ hwb hsc'
  have hcl' : SCClosed a → SCClosed b.net := by
    intro hcl p' hp' f hf
    obtain ⟨p, hp, _, hm⟩ := hsame p' hp'
    rw [mem_subfaces] at hf
    obtain ⟨hsub, hlen2, hlt⟩ := hf
    have hp'd : p'.2.Nodup := (r7.2.2 p' hp').1
    have hpd : p.2.Nodup := (hwa.2.2 p hp).1
    have hfd : f.Nodup := List.Nodup.sublist hsub hp'd
    have hf'd : (p.2.filter (fun x => decide (x ∈ f))).Nodup := List.Nodup.sublist List.filter_sublist hpd
    have hmem : ∀ x, x ∈ p.2.filter (fun x => decide (x ∈ f)) ↔ x ∈ f := by
      intro x
      simp only [List.mem_filter, decide_eq_true_eq]
      exact ⟨fun h => h.2, fun h => ⟨(hm x).mp (hsub.subset h), h⟩⟩
    have hl1 : (p.2.filter (fun x => decide (x ∈ f))).length = f.length :=
      ((List.perm_ext_iff_of_nodup hf'd hfd).mpr hmem).length_eq
    have hl2 : p'.2.length = p.2.length := ((List.perm_ext_iff_of_nodup hp'd hpd).mpr hm).length_eq
    have := hcl p hp (p.2.filter (fun x => decide (x ∈ f)))
      ((mem_subfaces _ _).mpr ⟨List.filter_sublist, by rw [hl1]; exact hlen2, by rw [hl1, ← hl2]; exact hlt⟩)
    rw [hasSimplex_iff] at this ⊢
    obtain ⟨q, hq, hqm⟩ := this
    obtain ⟨q', hq', _, hmq⟩ := hsame' q hq
    exact ⟨q', hq', fun z => by rw [hmq z, hqm z, hmem z]⟩
  refine ⟨?_, ?_, ?_⟩
  · intro p hp
    obtain ⟨p', hp', hpe, hm⟩ := hsame' p hp
    exact ⟨p', by rw [k1]; exact List.mem_append_left _ hp', hpe, hm⟩
  · intro q hq
    rcases t7 q hq with ⟨h, _⟩ | ⟨_, p', hp', hf⟩
    · obtain ⟨p, hp, _, hm⟩ := hsame q h
      exact ⟨p, hp, fun x hx => (hm x).mp hx⟩
    · obtain ⟨p, hp, _, hm⟩ := hsame p' hp'
      rw [mem_subfaces] at hf
      exact ⟨p, hp, fun x hx => (hm x).mp (hf.1.subset hx)⟩
  · intro hcl
    have hk := k3 (hcl' hcl)
    refine ⟨fun e => ?_, fun n e => ?_⟩
    · unfold Net.edgeIds; rw [hk]; exact r2 e
    · unfold Inc; rw [hk]; exact r3 n e

end Xgi.C10
