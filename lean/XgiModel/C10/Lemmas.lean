/-
  C10 helper lemmas: the `link` / `addEdge` mutators and their folds.
-/
import XgiModel.C10.Convert

namespace Xgi.C10

/-! ### link -/

@[simp] theorem nodes_ensureEdge (h : Net) (e : PyId) : (ensureEdge h e).nodes = h.nodes := by
  unfold ensureEdge; split <;> rfl

theorem edgeIds_ensureEdge (h : Net) (e : PyId) : (ensureEdge h e).edgeIds = ins e h.edgeIds := by
  unfold ensureEdge ins; split <;> simp [Net.edgeIds]

theorem edgeIds_putMember (h : Net) (e n : PyId) : (putMember h e n).edgeIds = h.edgeIds := by
  unfold putMember Net.edgeIds
  simp only [List.map_map]
  apply List.map_congr_left
  intro p _; simp only [Function.comp]; split <;> rfl

@[simp] theorem nodes_link (h : Net) (e n : PyId) : (link h e n).nodes = ins n h.nodes := by
  simp [link, putMember, addNode]

@[simp] theorem edgeIds_link (h : Net) (e n : PyId) : (link h e n).edgeIds = ins e h.edgeIds := by
  unfold link
  rw [edgeIds_putMember]
  show (ensureEdge h e).edgeIds = _
  exact edgeIds_ensureEdge h e

theorem inc_link (h : Net) (e n n' e' : PyId) :
    Inc (link h e n) n' e' ↔ Inc h n' e' ∨ (n' = n ∧ e' = e) := by
  unfold Inc link putMember addNode ensureEdge Net.edgeIds
  by_cases he : e ∈ h.edges.map (·.1)
  · simp only [he, if_true, List.mem_map]
    constructor
    · rintro ⟨p, ⟨q, hq, rfl⟩, h1, h2⟩
      by_cases hqe : q.1 = e
      · simp only [hqe, if_true] at h1 h2
        rw [mem_ins] at h2
        rcases h2 with h2 | h2
        · right; exact ⟨h2, h1.symm⟩
        · left; exact ⟨q, hq, by rw [hqe]; exact h1, h2⟩
      · simp only [hqe, if_false] at h1 h2
        left; exact ⟨q, hq, h1, h2⟩
    · rintro (⟨q, hq, h1, h2⟩ | ⟨rfl, rfl⟩)
      · refine ⟨_, ⟨q, hq, rfl⟩, ?_⟩
        by_cases hqe : q.1 = e
        · simp only [hqe, if_true]; exact ⟨by rw [← hqe]; exact h1, by rw [mem_ins]; right; exact h2⟩
        · simp only [hqe, if_false]; exact ⟨h1, h2⟩
      · rw [List.mem_map] at he
        obtain ⟨q, hq, hqe⟩ := he
        refine ⟨_, ⟨q, hq, rfl⟩, ?_⟩
        simp only [hqe, if_true]; exact ⟨trivial, by rw [mem_ins]; left; rfl⟩
  · simp only [he, if_false, List.map_append, List.mem_append, List.mem_map, List.map_cons, List.map_nil,
      List.mem_singleton]
    constructor
    · rintro ⟨p, (⟨q, hq, rfl⟩ | rfl), h1, h2⟩
      · have hqe : q.1 ≠ e := by
          intro hqe; apply he; rw [List.mem_map]; exact ⟨q, hq, hqe⟩
        simp only [hqe, if_false] at h1 h2
        left; exact ⟨q, hq, h1, h2⟩
      · simp only [if_true] at h1 h2
        rw [mem_ins] at h2
        rcases h2 with h2 | h2
        · right; exact ⟨h2, h1.symm⟩
        · simp at h2
    · rintro (⟨q, hq, h1, h2⟩ | ⟨rfl, rfl⟩)
      · have hqe : q.1 ≠ e := by
          intro hqe; apply he; rw [List.mem_map]; exact ⟨q, hq, hqe⟩
        refine ⟨_, Or.inl ⟨q, hq, rfl⟩, ?_⟩
        simp only [hqe, if_false]; exact ⟨h1, h2⟩
      · refine ⟨_, Or.inr rfl, ?_⟩
        simp only [if_true]; exact ⟨trivial, by rw [mem_ins]; left; rfl⟩

theorem wf_link {h : Net} (hw : h.WF) (e n : PyId) : (link h e n).WF := by
  obtain ⟨h1, h2, h3⟩ := hw
  refine ⟨?_, ?_, ?_⟩
  · rw [nodes_link]; exact nodup_ins h1
  · have := edgeIds_link h e n
    unfold Net.edgeIds at this; rw [this]; exact nodup_ins h2
  · intro p hp
    rw [nodes_link]
    unfold link putMember addNode ensureEdge at hp
    simp only [List.mem_map] at hp
    obtain ⟨q, hq, rfl⟩ := hp
    have hq' : q ∈ h.edges ∨ q = (e, []) := by
      split at hq
      · left; exact hq
      · simp only [List.mem_append, List.mem_singleton] at hq; exact hq
    have hq3 : q.2.Nodup ∧ ∀ m ∈ q.2, m ∈ h.nodes := by
      rcases hq' with hq' | rfl
      · exact h3 q hq'
      · simp
    split
    · exact ⟨nodup_ins hq3.1, by intro m hm; rw [mem_ins] at hm ⊢; rcases hm with hm | hm; exact Or.inl hm; exact Or.inr (hq3.2 m hm)⟩
    · exact ⟨hq3.1, by intro m hm; rw [mem_ins]; exact Or.inr (hq3.2 m hm)⟩

/-! ### linkAll -/

theorem inc_linkAll (l : List (PyId × PyId)) (h : Net) (n e : PyId) :
    Inc (linkAll l h) n e ↔ Inc h n e ∨ (n, e) ∈ l := by
  induction l generalizing h with
  | nil => simp [linkAll]
  | cons r t ih =>
    have : linkAll (r :: t) h = linkAll t (link h r.2 r.1) := rfl
    rw [this, ih, inc_link]
    simp only [List.mem_cons, Prod.ext_iff]
    constructor
    · rintro ((h1 | h1) | h1)
      · exact Or.inl h1
      · exact Or.inr (Or.inl h1)
      · exact Or.inr (Or.inr h1)
    · rintro (h1 | h1 | h1)
      · exact Or.inl (Or.inl h1)
      · exact Or.inl (Or.inr h1)
      · exact Or.inr h1

theorem mem_nodes_linkAll (l : List (PyId × PyId)) (h : Net) (n : PyId) :
    n ∈ (linkAll l h).nodes ↔ n ∈ h.nodes ∨ ∃ e, (n, e) ∈ l := by
  induction l generalizing h with
  | nil => simp [linkAll]
  | cons r t ih =>
    have : linkAll (r :: t) h = linkAll t (link h r.2 r.1) := rfl
    rw [this, ih, nodes_link, mem_ins]
    simp only [List.mem_cons, Prod.ext_iff]
    constructor
    · rintro ((h1 | h1) | ⟨e, h1⟩)
      · exact Or.inr ⟨r.2, Or.inl ⟨h1, rfl⟩⟩
      · exact Or.inl h1
      · exact Or.inr ⟨e, Or.inr h1⟩
    · rintro (h1 | ⟨e, (⟨h1, _⟩ | h1)⟩)
      · exact Or.inl (Or.inr h1)
      · exact Or.inl (Or.inl h1)
      · exact Or.inr ⟨e, h1⟩

theorem mem_edgeIds_linkAll (l : List (PyId × PyId)) (h : Net) (e : PyId) :
    e ∈ (linkAll l h).edgeIds ↔ e ∈ h.edgeIds ∨ ∃ n, (n, e) ∈ l := by
  induction l generalizing h with
  | nil => simp [linkAll]
  | cons r t ih =>
    have : linkAll (r :: t) h = linkAll t (link h r.2 r.1) := rfl
    rw [this, ih, edgeIds_link, mem_ins]
    simp only [List.mem_cons, Prod.ext_iff]
    constructor
    · rintro ((h1 | h1) | ⟨n, h1⟩)
      · exact Or.inr ⟨r.1, Or.inl ⟨rfl, h1⟩⟩
      · exact Or.inl h1
      · exact Or.inr ⟨n, Or.inr h1⟩
    · rintro (h1 | ⟨n, (⟨_, h1⟩ | h1)⟩)
      · exact Or.inl (Or.inr h1)
      · exact Or.inl (Or.inl h1)
      · exact Or.inr ⟨n, h1⟩

theorem wf_linkAll (l : List (PyId × PyId)) {h : Net} (hw : h.WF) : (linkAll l h).WF := by
  induction l generalizing h with
  | nil => exact hw
  | cons r t ih => exact ih (wf_link hw r.2 r.1)

theorem wf_emptyNet : emptyNet.WF := by
  unfold emptyNet Net.WF; simp

theorem inc_emptyNet (n e : PyId) : ¬ Inc emptyNet n e := by
  unfold Inc emptyNet; simp

/-! ### incidence matrix -/

theorem mem_entries (fn fe : Nat → PyId) (M : List (List Int)) (n e : PyId) :
    (n, e) ∈ entries fn fe M ↔
      ∃ i j row v, M[i]? = some row ∧ row[j]? = some v ∧ v ≠ 0 ∧ n = fn i ∧ e = fe j := by
  unfold entries
  simp only [List.mem_flatMap, List.mem_filterMap, List.mem_zipIdx_iff_getElem?]
  constructor
  · rintro ⟨⟨row, i⟩, hri, ⟨v, j⟩, hvj, hv⟩
    simp only at hri hvj hv
    split at hv
    · simp only [Option.some.injEq, Prod.mk.injEq] at hv
      exact ⟨i, j, row, v, hri, hvj, by assumption, hv.1.symm, hv.2.symm⟩
    · simp at hv
  · rintro ⟨i, j, row, v, hri, hvj, hv, rfl, rfl⟩
    exact ⟨(row, i), hri, (v, j), hvj, by simp [hv]⟩

theorem toIncidence_entries (h : Net) (hw : h.WF) (n e : PyId) :
    (n, e) ∈ entries (labelFn (some (toIncidence h).rows)) (labelFn (some (toIncidence h).cols)) (toIncidence h).M
      ↔ Inc h n e := by
  rw [mem_entries]
  unfold toIncidence
  by_cases hd : h.nodes = [] ∨ h.edges = []
  · simp only [hd, if_true, List.getElem?_nil, reduceCtorEq, false_and, exists_false, false_iff]
    rintro ⟨p, hp, _, hn⟩
    rcases hd with hd | hd
    · have := (hw.2.2 p hp).2 n hn; rw [hd] at this; simp at this
    · rw [hd] at hp; simp at hp
  · simp only [hd, if_false, labelFn, List.getElem?_map, Net.edgeIds, List.getD_eq_getElem?_getD]
    constructor
    · rintro ⟨i, j, row, v, hri, hvj, hv, rfl, rfl⟩
      cases hi : h.nodes[i]? with
      | none => simp [hi] at hri
      | some m =>
        simp only [hi, Option.map_some, Option.some.injEq] at hri
        subst hri
        simp only [List.getElem?_map] at hvj
        cases hj : h.edges[j]? with
        | none => simp [hj] at hvj
        | some p =>
          simp only [hj, Option.map_some, Option.some.injEq] at hvj
          have hm : m ∈ p.2 := by
            by_cases hm : m ∈ p.2
            · exact hm
            · simp only [hm, if_false] at hvj; exact absurd hvj.symm hv
          exact ⟨p, List.mem_of_getElem? hj, by simp, by simpa using hm⟩
    · rintro ⟨p, hp, rfl, hn⟩
      have hn' := (hw.2.2 p hp).2 n hn
      obtain ⟨i, hi⟩ := List.getElem?_of_mem hn'
      obtain ⟨j, hj⟩ := List.getElem?_of_mem hp
      refine ⟨i, j, _, 1, by rw [hi]; rfl, ?_, by decide, by simp [hi], by simp [hj]⟩
      simp [List.getElem?_map, hj, hn]


theorem toIncidence_entries_pos (h : Net) (x y : PyId) :
    (x, y) ∈ entries (labelFn none) (labelFn none) (toIncidence h).M ↔
      ∃ i j n p, x = PyId.int (i : Nat) ∧ y = PyId.int (j : Nat) ∧ h.nodes[i]? = some n ∧ h.edges[j]? = some p ∧ n ∈ p.2 := by
  rw [mem_entries]
  unfold toIncidence
  by_cases hd : h.nodes = [] ∨ h.edges = []
  · simp only [hd, if_true, List.getElem?_nil, reduceCtorEq, false_and, exists_false, false_iff]
    rintro ⟨i, j, n, p, _, _, hi, hj, _⟩
    rcases hd with hd | hd
    · rw [hd] at hi; simp at hi
    · rw [hd] at hj; simp at hj
  · simp only [hd, if_false, labelFn, List.getElem?_map]
    constructor
    · rintro ⟨i, j, row, v, hri, hvj, hv, rfl, rfl⟩
      cases hi : h.nodes[i]? with
      | none => simp [hi] at hri
      | some m =>
        simp only [hi, Option.map_some, Option.some.injEq] at hri
        subst hri
        simp only [List.getElem?_map] at hvj
        cases hj : h.edges[j]? with
        | none => simp [hj] at hvj
        | some p =>
          simp only [hj, Option.map_some, Option.some.injEq] at hvj
          have hm : m ∈ p.2 := by
            by_cases hm : m ∈ p.2
            · exact hm
            · simp only [hm, if_false] at hvj; exact absurd hvj.symm hv
          exact ⟨i, j, m, p, rfl, rfl, hi, hj, hm⟩
    · rintro ⟨i, j, n, p, rfl, rfl, hi, hj, hn⟩
      refine ⟨i, j, _, 1, by rw [hi]; rfl, ?_, by decide, rfl, rfl⟩
      simp [List.getElem?_map, hj, hn]

theorem shape_toIncidence (h : Net) :
    (toIncidence h).rows.length = (shape (toIncidence h).M).1 ∧ (toIncidence h).cols.length = (shape (toIncidence h).M).2 := by
  unfold toIncidence shape
  by_cases hd : h.nodes = [] ∨ h.edges = []
  · simp [hd]
  · simp only [hd, if_false, List.length_map, Net.edgeIds, true_and]
    cases hn : h.nodes with
    | nil => simp [hn] at hd
    | cons a t => simp

/-! ### hyperedge list / dict -/

theorem foldl_ins_append {α : Type} [DecidableEq α] (l acc : List α) (h : (acc ++ l).Nodup) :
    l.foldl (fun acc x => ins x acc) acc = acc ++ l := by
  induction l generalizing acc with
  | nil => simp
  | cons a t ih =>
    have ha : a ∉ acc := by
      intro ha
      rw [List.nodup_append] at h
      exact h.2.2 a ha a (by simp) rfl
    simp only [List.foldl_cons]
    have : ins a acc = acc ++ [a] := by unfold ins; simp [ha]
    rw [this, ih]
    · simp
    · simpa using h

theorem dedup_of_nodup {α : Type} [DecidableEq α] {l : List α} (h : l.Nodup) : dedup l = l := by
  unfold dedup; rw [foldl_ins_append l [] (by simpa using h)]; simp

/-! ### addEdge folds -/

theorem addEdge_fresh (h : Net) (e : PyId) (ms : List PyId) (he : e ∉ h.edgeIds) :
    addEdge h e ms = { nodes := ms.foldl (fun acc x => ins x acc) h.nodes, edges := h.edges ++ [(e, dedup ms)] } := by
  unfold addEdge; simp [he]

theorem edges_foldl_addEdge (d : List (PyId × List PyId)) (h : Net)
    (hd : (h.edgeIds ++ d.map (·.1)).Nodup) :
    (d.foldl (fun h p => addEdge h p.1 p.2) h).edges = h.edges ++ d.map (fun p => (p.1, dedup p.2)) := by
  induction d generalizing h with
  | nil => simp
  | cons p t ih =>
    have hp : p.1 ∉ h.edgeIds := by
      intro hp
      rw [List.nodup_append] at hd
      exact hd.2.2 p.1 hp p.1 (by simp) rfl
    simp only [List.foldl_cons]
    rw [addEdge_fresh h p.1 p.2 hp, ih]
    · simp
    · simpa [Net.edgeIds] using hd

theorem mem_nodes_foldl_addEdge (d : List (PyId × List PyId)) (h : Net)
    (hd : (h.edgeIds ++ d.map (·.1)).Nodup) (n : PyId) :
    n ∈ (d.foldl (fun h p => addEdge h p.1 p.2) h).nodes ↔ n ∈ h.nodes ∨ ∃ p ∈ d, n ∈ p.2 := by
  induction d generalizing h with
  | nil => simp
  | cons p t ih =>
    have hp : p.1 ∉ h.edgeIds := by
      intro hp
      rw [List.nodup_append] at hd
      exact hd.2.2 p.1 hp p.1 (by simp) rfl
    simp only [List.foldl_cons]
    rw [addEdge_fresh h p.1 p.2 hp, ih]
    · simp only [foldl_ins_mem, List.mem_cons, exists_eq_or_imp]
      constructor
      · rintro ((h1 | h1) | h1)
        · exact Or.inl h1
        · exact Or.inr (Or.inl h1)
        · exact Or.inr (Or.inr h1)
      · rintro (h1 | h1 | h1)
        · exact Or.inl (Or.inl h1)
        · exact Or.inl (Or.inr h1)
        · exact Or.inr h1
    · simpa [Net.edgeIds] using hd

/-- `from_hyperedge_list`: the counter only ever produces fresh IDs -/
theorem edges_foldl_addEdge_auto (l : List (List PyId)) (h : Net) (k : Nat)
    (hk : ∀ e ∈ h.edgeIds, ∃ j : Nat, j < k ∧ e = PyId.int j) :
    (l.foldl (fun (s : Net × Nat) ms => (addEdge s.1 (.int s.2) ms, s.2 + 1)) (h, k)).1.edges =
      h.edges ++ (l.zipIdx k).map (fun mi => (PyId.int mi.2, dedup mi.1)) := by
  induction l generalizing h k with
  | nil => simp
  | cons ms t ih =>
    have hp : PyId.int (k : Nat) ∉ h.edgeIds := by
      intro hp
      obtain ⟨j, hj, he⟩ := hk _ hp
      simp only [PyId.int, PyId.atom.injEq, Atom.int.injEq, Int.natCast_inj] at he
      omega
    simp only [List.foldl_cons, List.zipIdx_cons, List.map_cons]
    rw [addEdge_fresh h _ ms hp, ih]
    · simp
    · intro e he
      simp only [Net.edgeIds, List.map_append, List.map_cons, List.map_nil, List.mem_append, List.mem_singleton] at he
      rcases he with he | he
      · obtain ⟨j, hj, rfl⟩ := hk e he; exact ⟨j, by omega, rfl⟩
      · exact ⟨k, by omega, he⟩

/-! ### directed link -/

@[simp] theorem nodes_dEnsureEdge (h : DiNet) (e : PyId) : (dEnsureEdge h e).nodes = h.nodes := by
  unfold dEnsureEdge; split <;> rfl

theorem dEdgeIds_dEnsureEdge (h : DiNet) (e : PyId) : dEdgeIds (dEnsureEdge h e) = ins e (dEdgeIds h) := by
  unfold dEnsureEdge ins; split <;> simp_all [dEdgeIds]

theorem dEdgeIds_dPutMember (h : DiNet) (e n : PyId) (d : Dir) : dEdgeIds (dPutMember h e n d) = dEdgeIds h := by
  unfold dPutMember dEdgeIds
  simp only [List.map_map]
  apply List.map_congr_left
  intro p _; simp only [Function.comp]; split
  · cases d <;> rfl
  · rfl

@[simp] theorem nodes_dLink (h : DiNet) (e n : PyId) (d : Dir) : (dLink h e n d).nodes = ins n h.nodes := by
  simp [dLink, dPutMember, dAddNode]

@[simp] theorem dEdgeIds_dLink (h : DiNet) (e n : PyId) (d : Dir) : dEdgeIds (dLink h e n d) = ins e (dEdgeIds h) := by
  unfold dLink
  rw [dEdgeIds_dPutMember]
  show dEdgeIds (dEnsureEdge h e) = _
  exact dEdgeIds_dEnsureEdge h e

/-- members of an edge on one side -/
def side (d : Dir) (p : PyId × List PyId × List PyId) : List PyId := match d with | .tail => p.2.1 | .head => p.2.2

theorem dInc_iff (h : DiNet) (n e : PyId) (d : Dir) : DInc h n e d ↔ ∃ p ∈ h.edges, p.1 = e ∧ n ∈ side d p := by
  unfold DInc side; cases d <;> rfl

theorem dInc_dLink (h : DiNet) (e n n' e' : PyId) (d d' : Dir) :
    DInc (dLink h e n d) n' e' d' ↔ DInc h n' e' d' ∨ (n' = n ∧ e' = e ∧ d' = d) := by
  simp only [dInc_iff]
  unfold dLink dPutMember dAddNode dEnsureEdge dEdgeIds
  by_cases he : e ∈ h.edges.map (·.1)
  · simp only [he, if_true, List.mem_map]
    constructor
    · rintro ⟨p, ⟨q, hq, rfl⟩, h1, h2⟩
      by_cases hqe : q.1 = e
      · simp only [hqe, if_true] at h1 h2
        cases d <;> cases d' <;> simp only [side, mem_ins] at h1 h2 ⊢
        · rcases h2 with h2 | h2
          · right; exact ⟨h2, h1.symm, trivial⟩
          · left; exact ⟨q, hq, by rw [hqe]; exact h1, h2⟩
        · left; exact ⟨q, hq, by rw [hqe]; exact h1, h2⟩
        · left; exact ⟨q, hq, by rw [hqe]; exact h1, h2⟩
        · rcases h2 with h2 | h2
          · right; exact ⟨h2, h1.symm, trivial⟩
          · left; exact ⟨q, hq, by rw [hqe]; exact h1, h2⟩
      · simp only [hqe, if_false] at h1 h2
        left; exact ⟨q, hq, h1, h2⟩
    · rintro (⟨q, hq, h1, h2⟩ | ⟨rfl, rfl, rfl⟩)
      · refine ⟨_, ⟨q, hq, rfl⟩, ?_⟩
        by_cases hqe : q.1 = e
        · simp only [hqe, if_true]
          refine ⟨by cases d <;> (simp only []; rw [← hqe]; exact h1), ?_⟩
          cases d <;> cases d' <;> simp only [side, mem_ins] at h2 ⊢ <;> first | exact Or.inr h2 | exact h2
        · simp only [hqe, if_false]; exact ⟨h1, h2⟩
      · rw [List.mem_map] at he
        obtain ⟨q, hq, hqe⟩ := he
        refine ⟨_, ⟨q, hq, rfl⟩, ?_⟩
        simp only [hqe, if_true]
        cases d' <;> simp [side]
  · simp only [he, if_false, List.map_append, List.mem_append, List.mem_map, List.map_cons, List.map_nil,
      List.mem_singleton]
    constructor
    · rintro ⟨p, (⟨q, hq, rfl⟩ | rfl), h1, h2⟩
      · have hqe : q.1 ≠ e := by
          intro hqe; apply he; rw [List.mem_map]; exact ⟨q, hq, hqe⟩
        simp only [hqe, if_false] at h1 h2
        left; exact ⟨q, hq, h1, h2⟩
      · simp only [if_true] at h1 h2
        cases d <;> cases d' <;> simp [side] at h2 <;> (right; exact ⟨h2, h1.symm, rfl⟩)
    · rintro (⟨q, hq, h1, h2⟩ | ⟨rfl, rfl, rfl⟩)
      · have hqe : q.1 ≠ e := by
          intro hqe; apply he; rw [List.mem_map]; exact ⟨q, hq, hqe⟩
        refine ⟨_, Or.inl ⟨q, hq, rfl⟩, ?_⟩
        simp only [hqe, if_false]; exact ⟨h1, h2⟩
      · refine ⟨_, Or.inr rfl, ?_⟩
        simp only [if_true]
        cases d' <;> simp [side]


theorem dwf_dLink {h : DiNet} (hw : DWF h) (e n : PyId) (d : Dir) : DWF (dLink h e n d) := by
  obtain ⟨h1, h2, h3⟩ := hw
  refine ⟨?_, ?_, ?_⟩
  · rw [nodes_dLink]; exact nodup_ins h1
  · have := dEdgeIds_dLink h e n d
    unfold dEdgeIds at this; rw [this]; exact nodup_ins h2
  · intro p hp
    rw [nodes_dLink]
    unfold dLink dPutMember dAddNode dEnsureEdge at hp
    simp only [List.mem_map] at hp
    obtain ⟨q, hq, rfl⟩ := hp
    have hq' : q ∈ h.edges ∨ q = (e, [], []) := by
      split at hq
      · left; exact hq
      · simp only [List.mem_append, List.mem_singleton] at hq; exact hq
    have hq3 : q.2.1.Nodup ∧ q.2.2.Nodup ∧ (∀ m ∈ q.2.1, m ∈ h.nodes) ∧ (∀ m ∈ q.2.2, m ∈ h.nodes) := by
      rcases hq' with hq' | rfl
      · exact h3 q hq'
      · simp
    obtain ⟨a1, a2, a3, a4⟩ := hq3
    split
    · cases d
      · exact ⟨nodup_ins a1, a2, by intro m hm; rw [mem_ins] at hm ⊢; rcases hm with hm | hm; exact Or.inl hm; exact Or.inr (a3 m hm),
          by intro m hm; rw [mem_ins]; exact Or.inr (a4 m hm)⟩
      · exact ⟨a1, nodup_ins a2, by intro m hm; rw [mem_ins]; exact Or.inr (a3 m hm),
          by intro m hm; rw [mem_ins] at hm ⊢; rcases hm with hm | hm; exact Or.inl hm; exact Or.inr (a4 m hm)⟩
    · exact ⟨a1, a2, by intro m hm; rw [mem_ins]; exact Or.inr (a3 m hm), by intro m hm; rw [mem_ins]; exact Or.inr (a4 m hm)⟩

theorem dInc_dLinkAll (l : List (PyId × PyId × Dir)) (h : DiNet) (n e : PyId) (d : Dir) :
    DInc (dLinkAll l h) n e d ↔ DInc h n e d ∨ (n, e, d) ∈ l := by
  induction l generalizing h with
  | nil => simp [dLinkAll]
  | cons r t ih =>
    have : dLinkAll (r :: t) h = dLinkAll t (dLink h r.2.1 r.1 r.2.2) := rfl
    rw [this, ih, dInc_dLink]
    simp only [List.mem_cons, Prod.ext_iff]
    constructor
    · rintro ((h1 | h1) | h1)
      · exact Or.inl h1
      · exact Or.inr (Or.inl h1)
      · exact Or.inr (Or.inr h1)
    · rintro (h1 | h1 | h1)
      · exact Or.inl (Or.inl h1)
      · exact Or.inl (Or.inr h1)
      · exact Or.inr h1

theorem mem_nodes_dLinkAll (l : List (PyId × PyId × Dir)) (h : DiNet) (n : PyId) :
    n ∈ (dLinkAll l h).nodes ↔ n ∈ h.nodes ∨ ∃ e d, (n, e, d) ∈ l := by
  induction l generalizing h with
  | nil => simp [dLinkAll]
  | cons r t ih =>
    have : dLinkAll (r :: t) h = dLinkAll t (dLink h r.2.1 r.1 r.2.2) := rfl
    rw [this, ih, nodes_dLink, mem_ins]
    simp only [List.mem_cons, Prod.ext_iff]
    constructor
    · rintro ((h1 | h1) | ⟨e, d, h1⟩)
      · exact Or.inr ⟨r.2.1, r.2.2, Or.inl ⟨h1, rfl, rfl⟩⟩
      · exact Or.inl h1
      · exact Or.inr ⟨e, d, Or.inr h1⟩
    · rintro (h1 | ⟨e, d, (⟨h1, _⟩ | h1)⟩)
      · exact Or.inl (Or.inr h1)
      · exact Or.inl (Or.inl h1)
      · exact Or.inr ⟨e, d, h1⟩

theorem mem_dEdgeIds_dLinkAll (l : List (PyId × PyId × Dir)) (h : DiNet) (e : PyId) :
    e ∈ dEdgeIds (dLinkAll l h) ↔ e ∈ dEdgeIds h ∨ ∃ n d, (n, e, d) ∈ l := by
  induction l generalizing h with
  | nil => simp [dLinkAll]
  | cons r t ih =>
    have : dLinkAll (r :: t) h = dLinkAll t (dLink h r.2.1 r.1 r.2.2) := rfl
    rw [this, ih, dEdgeIds_dLink, mem_ins]
    simp only [List.mem_cons, Prod.ext_iff]
    constructor
    · rintro ((h1 | h1) | ⟨n, d, h1⟩)
      · exact Or.inr ⟨r.1, r.2.2, Or.inl ⟨rfl, h1, rfl⟩⟩
      · exact Or.inl h1
      · exact Or.inr ⟨n, d, Or.inr h1⟩
    · rintro (h1 | ⟨n, d, (⟨_, h1, _⟩ | h1)⟩)
      · exact Or.inl (Or.inr h1)
      · exact Or.inl (Or.inl h1)
      · exact Or.inr ⟨n, d, h1⟩

theorem dwf_dLinkAll (l : List (PyId × PyId × Dir)) {h : DiNet} (hw : DWF h) : DWF (dLinkAll l h) := by
  induction l generalizing h with
  | nil => exact hw
  | cons r t ih => exact ih (dwf_dLink hw r.2.1 r.1 r.2.2)

theorem dwf_emptyDiNet : DWF emptyDiNet := by
  unfold emptyDiNet DWF; simp

theorem dInc_emptyDiNet (n e : PyId) (d : Dir) : ¬ DInc emptyDiNet n e d := by
  unfold DInc emptyDiNet; simp

theorem mem_toBipartiteEdgelistDi (h : DiNet) (n e : PyId) (d : Dir) :
    (n, e, d) ∈ toBipartiteEdgelistDi h ↔ DInc h n e d := by
  rw [dInc_iff]
  unfold toBipartiteEdgelistDi
  simp only [List.mem_flatMap, List.mem_append, List.mem_map, Prod.mk.injEq]
  constructor
  · rintro ⟨p, hp, (⟨m, hm, rfl, rfl, rfl⟩ | ⟨m, hm, rfl, rfl, rfl⟩)⟩
    · exact ⟨p, hp, rfl, hm⟩
    · exact ⟨p, hp, rfl, hm⟩
  · rintro ⟨p, hp, rfl, hm⟩
    cases d
    · exact ⟨p, hp, Or.inl ⟨n, hm, rfl, rfl, rfl⟩⟩
    · exact ⟨p, hp, Or.inr ⟨n, hm, rfl, rfl, rfl⟩⟩

/-! ### bipartite graphs -/

/-- a networkx graph as data: vertex keys distinct, edge endpoints are vertices -/
def GWF (G : BGraph) : Prop :=
  (G.verts.map (·.1)).Nodup ∧ ∀ p ∈ G.edges, p.1 ∈ G.verts.map (·.1) ∧ p.2 ∈ G.verts.map (·.1)

theorem mem_nodeVerts (G : BGraph) (x : PyId) : x ∈ nodeVerts G ↔ (x, some 0) ∈ G.verts := by
  unfold nodeVerts
  simp only [List.mem_filterMap]
  constructor
  · rintro ⟨p, hp, h⟩
    split at h
    · rename_i h0; simp only [Option.some.injEq] at h; subst h
      have : p = (p.1, some 0) := by rw [← h0]
      rw [← this]; exact hp
    · simp at h
  · intro h; exact ⟨_, h, by simp⟩

theorem mem_edgeVerts (G : BGraph) (x : PyId) : x ∈ edgeVerts G ↔ (x, some 1) ∈ G.verts := by
  unfold edgeVerts
  simp only [List.mem_filterMap]
  constructor
  · rintro ⟨p, hp, h⟩
    split at h
    · rename_i h0; simp only [Option.some.injEq] at h; subst h
      have : p = (p.1, some 1) := by rw [← h0]
      rw [← this]; exact hp
    · simp at h
  · intro h; exact ⟨_, h, by simp⟩

theorem flagsOk_iff (G : BGraph) : flagsOk G = true ↔ ∀ p ∈ G.verts, p.2 = some 0 ∨ p.2 = some 1 := by
  unfold flagsOk; simp

theorem isBipartite_iff (G : BGraph) :
    isBipartite G = true ↔ ∀ p ∈ G.edges, (p.1 ∈ nodeVerts G ↔ p.2 ∈ edgeVerts G) := by
  unfold isBipartite; simp

/-- with distinct keys a vertex has one flag -/
theorem flag_unique {l : List (PyId × Option Int)} (hn : (l.map (·.1)).Nodup) {x : PyId} {a b : Option Int}
    (ha : (x, a) ∈ l) (hb : (x, b) ∈ l) : a = b := by
  induction l with
  | nil => simp at ha
  | cons p t ih =>
    simp only [List.map_cons, List.nodup_cons, List.mem_map, not_exists, not_and] at hn
    simp only [List.mem_cons] at ha hb
    rcases ha with ha | ha <;> rcases hb with hb | hb
    · rw [← ha] at hb; simp only [Prod.mk.injEq] at hb; exact hb.2.symm
    · exact absurd (by rw [← ha]) (hn.1 _ hb)
    · exact absurd (by rw [← hb]) (hn.1 _ ha)
    · exact ih hn.2 ha hb

/-- a vertex of a valid graph is a node-vertex or an edge-vertex, never both -/
theorem vertex_dichotomy {G : BGraph} (hw : GWF G) (hf : flagsOk G = true) {x : PyId}
    (hx : x ∈ G.verts.map (·.1)) : (x ∈ nodeVerts G ↔ ¬ x ∈ edgeVerts G) := by
  rw [mem_nodeVerts, mem_edgeVerts]
  rw [List.mem_map] at hx
  obtain ⟨p, hp, rfl⟩ := hx
  have h01 := (flagsOk_iff G).mp hf p hp
  constructor
  · intro h0 h1
    have := flag_unique hw.1 h0 h1
    simp at this
  · intro h1
    rcases h01 with h | h
    · have : p = (p.1, some 0) := by rw [← h]
      rw [← this]; exact hp
    · exfalso; apply h1
      have : p = (p.1, some 1) := by rw [← h]
      rw [← this]; exact hp

theorem nodeVert_is_vertex (G : BGraph) {x : PyId} (h : x ∈ nodeVerts G) : x ∈ G.verts.map (·.1) := by
  rw [mem_nodeVerts] at h; rw [List.mem_map]; exact ⟨_, h, rfl⟩
theorem edgeVert_is_vertex (G : BGraph) {x : PyId} (h : x ∈ edgeVerts G) : x ∈ G.verts.map (·.1) := by
  rw [mem_edgeVerts] at h; rw [List.mem_map]; exact ⟨_, h, rfl⟩

/-! addNodes -/
@[simp] theorem edges_addNodes (ns : List PyId) (h : Net) : (addNodes ns h).edges = h.edges := by
  induction ns generalizing h with
  | nil => rfl
  | cons a t ih => simp only [addNodes, List.foldl_cons] at ih ⊢; rw [ih]; rfl

theorem mem_nodes_addNodes (ns : List PyId) (h : Net) (n : PyId) : n ∈ (addNodes ns h).nodes ↔ n ∈ h.nodes ∨ n ∈ ns := by
  induction ns generalizing h with
  | nil => simp [addNodes]
  | cons a t ih =>
    simp only [addNodes, List.foldl_cons] at ih ⊢
    rw [ih]; simp only [addNode, mem_ins, List.mem_cons]
    constructor
    · rintro ((h1 | h1) | h1)
      · exact Or.inr (Or.inl h1)
      · exact Or.inl h1
      · exact Or.inr (Or.inr h1)
    · rintro (h1 | h1 | h1)
      · exact Or.inl (Or.inr h1)
      · exact Or.inl (Or.inl h1)
      · exact Or.inr h1

theorem wf_addNodes (ns : List PyId) {h : Net} (hw : h.WF) : (addNodes ns h).WF := by
  induction ns generalizing h with
  | nil => exact hw
  | cons a t ih =>
    simp only [addNodes, List.foldl_cons] at ih ⊢
    apply ih
    obtain ⟨h1, h2, h3⟩ := hw
    refine ⟨nodup_ins h1, h2, fun p hp => ⟨(h3 p hp).1, fun m hm => ?_⟩⟩
    simp only [addNode, mem_ins]; exact Or.inr ((h3 p hp).2 m hm)

theorem inc_addNodes (ns : List PyId) (h : Net) (n e : PyId) : Inc (addNodes ns h) n e ↔ Inc h n e := by
  unfold Inc; rw [edges_addNodes]

theorem fromBipartiteGraph_ok_iff (G : BGraph) :
    (∃ r, fromBipartiteGraph G = .ok r) ↔ flagsOk G = true ∧ isBipartite G = true := by
  unfold fromBipartiteGraph
  cases flagsOk G <;> cases isBipartite G <;> simp

theorem fromBipartiteGraph_eq {G : BGraph} {r : Net} (h : fromBipartiteGraph G = .ok r) :
    flagsOk G = true ∧ isBipartite G = true ∧
      r = linkAll (G.edges.map (orient (edgeVerts G))) (addNodes (nodeVerts G) emptyNet) := by
  unfold fromBipartiteGraph at h
  cases hf : flagsOk G <;> cases hb : isBipartite G <;> simp [hf, hb] at h
  exact ⟨rfl, rfl, h.symm⟩

/-- the incidences of `from_bipartite_graph(G)`: node-vertex `n` is in edge-vertex `e` iff the graph joins
    them — in whichever orientation the pair is handed over -/
theorem fromBipartiteGraph_inc {G : BGraph} {r : Net} (hr : fromBipartiteGraph G = .ok r) (hw : GWF G) (n e : PyId) :
    Inc r n e ↔ n ∈ nodeVerts G ∧ e ∈ edgeVerts G ∧ ((n, e) ∈ G.edges ∨ (e, n) ∈ G.edges) := by
  obtain ⟨hf, hb, rfl⟩ := fromBipartiteGraph_eq hr
  rw [isBipartite_iff] at hb
  rw [inc_linkAll, inc_addNodes]
  simp only [inc_emptyNet, false_or, List.mem_map]
  constructor
  · rintro ⟨⟨u, v⟩, hp, ho⟩
    have hb' := hb _ hp
    obtain ⟨hu, hv⟩ := hw.2 _ hp
    simp only at hb' hu hv
    unfold orient at ho
    simp only at ho
    split at ho
    · rename_i hue
      simp only [Prod.mk.injEq] at ho
      obtain ⟨rfl, rfl⟩ := ho
      have h1 : ¬ u ∈ nodeVerts G := fun h => ((vertex_dichotomy hw hf hu).mp h) hue
      have h2 : ¬ v ∈ edgeVerts G := fun h => h1 (hb'.mpr h)
      have h3 : v ∈ nodeVerts G := (vertex_dichotomy hw hf hv).mpr h2
      exact ⟨h3, hue, Or.inr hp⟩
    · rename_i hue
      simp only [Prod.mk.injEq] at ho
      obtain ⟨rfl, rfl⟩ := ho
      have h3 : u ∈ nodeVerts G := (vertex_dichotomy hw hf hu).mpr hue
      exact ⟨h3, hb'.mp h3, Or.inl hp⟩
  · rintro ⟨hn, he, (hp | hp)⟩
    · refine ⟨(n, e), hp, ?_⟩
      have : ¬ n ∈ edgeVerts G := (vertex_dichotomy hw hf (nodeVert_is_vertex G hn)).mp hn
      simp [orient, this]
    · refine ⟨(e, n), hp, ?_⟩
      simp [orient, he]

theorem fromBipartiteGraph_nodes {G : BGraph} {r : Net} (hr : fromBipartiteGraph G = .ok r) (hw : GWF G) (n : PyId) :
    n ∈ r.nodes ↔ n ∈ nodeVerts G := by
  constructor
  · intro hn
    obtain ⟨hf, hb, rfl⟩ := fromBipartiteGraph_eq hr
    rw [mem_nodes_linkAll, mem_nodes_addNodes] at hn
    rcases hn with (hn | hn) | ⟨e, hn⟩
    · simp [emptyNet] at hn
    · exact hn
    · have : Inc (linkAll (G.edges.map (orient (edgeVerts G))) (addNodes (nodeVerts G) emptyNet)) n e := by
        rw [inc_linkAll]; exact Or.inr hn
      exact ((fromBipartiteGraph_inc hr hw n e).mp this).1
  · intro hn
    obtain ⟨hf, hb, rfl⟩ := fromBipartiteGraph_eq hr
    rw [mem_nodes_linkAll, mem_nodes_addNodes]
    exact Or.inl (Or.inr hn)

theorem gwf_transfer {G G' : BGraph} (hw : GWF G) (hv : G.verts.Perm G'.verts)
    (he : ∀ u v, ((u, v) ∈ G.edges ∨ (v, u) ∈ G.edges) ↔ ((u, v) ∈ G'.edges ∨ (v, u) ∈ G'.edges)) : GWF G' := by
  refine ⟨(hv.map _).nodup_iff.mp hw.1, ?_⟩
  rintro ⟨u, v⟩ hp
  have hm : ∀ x, x ∈ G.verts.map (·.1) ↔ x ∈ G'.verts.map (·.1) := fun x => (hv.map _).mem_iff
  rcases (he u v).mpr (Or.inl hp) with h | h
  · have := hw.2 _ h; exact ⟨(hm _).mp this.1, (hm _).mp this.2⟩
  · have := hw.2 _ h; exact ⟨(hm _).mp this.2, (hm _).mp this.1⟩

theorem ok_transfer {G G' : BGraph} (hw : GWF G) (hv : G.verts.Perm G'.verts)
    (he : ∀ u v, ((u, v) ∈ G.edges ∨ (v, u) ∈ G.edges) ↔ ((u, v) ∈ G'.edges ∨ (v, u) ∈ G'.edges))
    (hf : flagsOk G = true) (hb : isBipartite G = true) : flagsOk G' = true ∧ isBipartite G' = true := by
  have hw' := gwf_transfer hw hv he
  have hf' : flagsOk G' = true := by
    rw [flagsOk_iff] at hf ⊢
    intro p hp; exact hf p (hv.mem_iff.mpr hp)
  refine ⟨hf', ?_⟩
  have hN : ∀ x, x ∈ nodeVerts G ↔ x ∈ nodeVerts G' := fun x => by
    rw [mem_nodeVerts, mem_nodeVerts]; exact hv.mem_iff
  have hE : ∀ x, x ∈ edgeVerts G ↔ x ∈ edgeVerts G' := fun x => by
    rw [mem_edgeVerts, mem_edgeVerts]; exact hv.mem_iff
  rw [isBipartite_iff] at hb ⊢
  rintro ⟨u, v⟩ hp
  simp only
  rw [← hN, ← hE]
  rcases (he u v).mpr (Or.inl hp) with h | h
  · exact hb _ h
  · have h1 := hb _ h
    obtain ⟨hv', hu'⟩ := hw.2 _ h
    simp only at h1 hv' hu'
    rw [vertex_dichotomy hw hf hu']
    constructor
    · intro h2
      by_cases h3 : v ∈ edgeVerts G
      · exact h3
      · exact absurd (h1.mp ((vertex_dichotomy hw hf hv').mpr h3)) h2
    · intro h2 h3
      exact ((vertex_dichotomy hw hf hv').mp (h1.mpr h3)) h2

end Xgi.C10
