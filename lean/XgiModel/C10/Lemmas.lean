/-
  C10 helper lemmas: the `link` / `addEdge` mutators and their folds.
-/
import Std.Data.String.ToInt
import XgiModel.C10.Convert

namespace Xgi.C10

/-! ### link -/

@[simp] theorem nodes_ensureEdge (h : Net) (e : PyId) : (ensureEdge h e).nodes = h.nodes := by
  unfold ensureEdge; split <;> rfl

theorem edgeIds_ensureEdge (h : Net) (e : PyId) : (ensureEdge h e).edgeIds = ins e h.edgeIds := by
  unfold ensureEdge ins; split <;> simp [Net.edgeIds]

theorem edgeIds_putMember (h : Net) (e n : PyId) : (putMember h e n).edgeIds = h.edgeIds := by
  unfold putMember Net.edgeIds
  simp only [List.map_map]
  apply List.map_congr_left
  intro p _; simp only [Function.comp]; split <;> rfl

@[simp] theorem nodes_link (h : Net) (e n : PyId) : (link h e n).nodes = ins n h.nodes := by
  simp [link, putMember, addNode]

@[simp] theorem edgeIds_link (h : Net) (e n : PyId) : (link h e n).edgeIds = ins e h.edgeIds := by
  unfold link
  rw [edgeIds_putMember]
  show (ensureEdge h e).edgeIds = _
  exact edgeIds_ensureEdge h e

theorem inc_link (h : Net) (e n n' e' : PyId) :
    Inc (link h e n) n' e' ↔ Inc h n' e' ∨ (n' = n ∧ e' = e) := by
  unfold Inc link putMember addNode ensureEdge Net.edgeIds
  by_cases he : e ∈ h.edges.map (·.1)
  · simp only [he, if_true, List.mem_map]
    constructor
    · rintro ⟨p, ⟨q, hq, rfl⟩, h1, h2⟩
      by_cases hqe : q.1 = e
      · simp only [hqe, if_true] at h1 h2
        rw [mem_ins] at h2
        rcases h2 with h2 | h2
        · right; exact ⟨h2, h1.symm⟩
        · left; exact ⟨q, hq, by rw [hqe]; exact h1, h2⟩
      · simp only [hqe, if_false] at h1 h2
        left; exact ⟨q, hq, h1, h2⟩
    · rintro (⟨q, hq, h1, h2⟩ | ⟨rfl, rfl⟩)
      · refine ⟨_, ⟨q, hq, rfl⟩, ?_⟩
        by_cases hqe : q.1 = e
        · simp only [hqe, if_true]; exact ⟨by rw [← hqe]; exact h1, by rw [mem_ins]; right; exact h2⟩
        · simp only [hqe, if_false]; exact ⟨h1, h2⟩
      · rw [List.mem_map] at he
        obtain ⟨q, hq, hqe⟩ := he
        refine ⟨_, ⟨q, hq, rfl⟩, ?_⟩
        simp only [hqe, if_true]; exact ⟨trivial, by rw [mem_ins]; left; rfl⟩
  · simp only [he, if_false, List.map_append, List.mem_append, List.mem_map, List.map_cons, List.map_nil,
      List.mem_singleton]
    constructor
    · rintro ⟨p, (⟨q, hq, rfl⟩ | rfl), h1, h2⟩
      · have hqe : q.1 ≠ e := by
          intro hqe; apply he; rw [List.mem_map]; exact ⟨q, hq, hqe⟩
        simp only [hqe, if_false] at h1 h2
        left; exact ⟨q, hq, h1, h2⟩
      · simp only [if_true] at h1 h2
        rw [mem_ins] at h2
        rcases h2 with h2 | h2
        · right; exact ⟨h2, h1.symm⟩
        · simp at h2
    · rintro (⟨q, hq, h1, h2⟩ | ⟨rfl, rfl⟩)
      · have hqe : q.1 ≠ e := by
          intro hqe; apply he; rw [List.mem_map]; exact ⟨q, hq, hqe⟩
        refine ⟨_, Or.inl ⟨q, hq, rfl⟩, ?_⟩
        simp only [hqe, if_false]; exact ⟨h1, h2⟩
      · refine ⟨_, Or.inr rfl, ?_⟩
        simp only [if_true]; exact ⟨trivial, by rw [mem_ins]; left; rfl⟩

theorem wf_link {h : Net} (hw : h.WF) (e n : PyId) : (link h e n).WF := by
  obtain ⟨h1, h2, h3⟩ := hw
  refine ⟨?_, ?_, ?_⟩
  · rw [nodes_link]; exact nodup_ins h1
  · have := edgeIds_link h e n
    unfold Net.edgeIds at this; rw [this]; exact nodup_ins h2
  · intro p hp
    rw [nodes_link]
    unfold link putMember addNode ensureEdge at hp
    simp only [List.mem_map] at hp
    obtain ⟨q, hq, rfl⟩ := hp
    have hq' : q ∈ h.edges ∨ q = (e, []) := by
      split at hq
      · left; exact hq
      · simp only [List.mem_append, List.mem_singleton] at hq; exact hq
    have hq3 : q.2.Nodup ∧ ∀ m ∈ q.2, m ∈ h.nodes := by
      rcases hq' with hq' | rfl
      · exact h3 q hq'
      · simp
    split
    · exact ⟨nodup_ins hq3.1, by intro m hm; rw [mem_ins] at hm ⊢; rcases hm with hm | hm; exact Or.inl hm; exact Or.inr (hq3.2 m hm)⟩
    · exact ⟨hq3.1, by intro m hm; rw [mem_ins]; exact Or.inr (hq3.2 m hm)⟩

/-! ### linkAll -/

theorem inc_linkAll (l : List (PyId × PyId)) (h : Net) (n e : PyId) :
    Inc (linkAll l h) n e ↔ Inc h n e ∨ (n, e) ∈ l := by
  induction l generalizing h with
  | nil => simp [linkAll]
  | cons r t ih =>
    have : linkAll (r :: t) h = linkAll t (link h r.2 r.1) := rfl
    rw [this, ih, inc_link]
    simp only [List.mem_cons, Prod.ext_iff]
    constructor
    · rintro ((h1 | h1) | h1)
      · exact Or.inl h1
      · exact Or.inr (Or.inl h1)
      · exact Or.inr (Or.inr h1)
    · rintro (h1 | h1 | h1)
      · exact Or.inl (Or.inl h1)
      · exact Or.inl (Or.inr h1)
      · exact Or.inr h1

theorem mem_nodes_linkAll (l : List (PyId × PyId)) (h : Net) (n : PyId) :
    n ∈ (linkAll l h).nodes ↔ n ∈ h.nodes ∨ ∃ e, (n, e) ∈ l := by
  induction l generalizing h with
  | nil => simp [linkAll]
  | cons r t ih =>
    have : linkAll (r :: t) h = linkAll t (link h r.2 r.1) := rfl
    rw [this, ih, nodes_link, mem_ins]
    simp only [List.mem_cons, Prod.ext_iff]
    constructor
    · rintro ((h1 | h1) | ⟨e, h1⟩)
      · exact Or.inr ⟨r.2, Or.inl ⟨h1, rfl⟩⟩
      · exact Or.inl h1
      · exact Or.inr ⟨e, Or.inr h1⟩
    · rintro (h1 | ⟨e, (⟨h1, _⟩ | h1)⟩)
      · exact Or.inl (Or.inr h1)
      · exact Or.inl (Or.inl h1)
      · exact Or.inr ⟨e, h1⟩

theorem mem_edgeIds_linkAll (l : List (PyId × PyId)) (h : Net) (e : PyId) :
    e ∈ (linkAll l h).edgeIds ↔ e ∈ h.edgeIds ∨ ∃ n, (n, e) ∈ l := by
  induction l generalizing h with
  | nil => simp [linkAll]
  | cons r t ih =>
    have : linkAll (r :: t) h = linkAll t (link h r.2 r.1) := rfl
    rw [this, ih, edgeIds_link, mem_ins]
    simp only [List.mem_cons, Prod.ext_iff]
    constructor
    · rintro ((h1 | h1) | ⟨n, h1⟩)
      · exact Or.inr ⟨r.1, Or.inl ⟨rfl, h1⟩⟩
      · exact Or.inl h1
      · exact Or.inr ⟨n, Or.inr h1⟩
    · rintro (h1 | ⟨n, (⟨_, h1⟩ | h1)⟩)
      · exact Or.inl (Or.inr h1)
      · exact Or.inl (Or.inl h1)
      · exact Or.inr ⟨n, h1⟩

theorem wf_linkAll (l : List (PyId × PyId)) {h : Net} (hw : h.WF) : (linkAll l h).WF := by
  induction l generalizing h with
  | nil => exact hw
  | cons r t ih => exact ih (wf_link hw r.2 r.1)

theorem wf_emptyNet : emptyNet.WF := by
  unfold emptyNet Net.WF; simp

theorem inc_emptyNet (n e : PyId) : ¬ Inc emptyNet n e := by
  unfold Inc emptyNet; simp

/-! ### incidence matrix -/

theorem mem_entries (fn fe : Nat → PyId) (M : List (List Int)) (n e : PyId) :
    (n, e) ∈ entries fn fe M ↔
      ∃ i j row v, M[i]? = some row ∧ row[j]? = some v ∧ v ≠ 0 ∧ n = fn i ∧ e = fe j := by
  unfold entries
  simp only [List.mem_flatMap, List.mem_filterMap, List.mem_zipIdx_iff_getElem?]
  constructor
  · rintro ⟨⟨row, i⟩, hri, ⟨v, j⟩, hvj, hv⟩
    simp only at hri hvj hv
    split at hv
    · simp only [Option.some.injEq, Prod.mk.injEq] at hv
      exact ⟨i, j, row, v, hri, hvj, by assumption, hv.1.symm, hv.2.symm⟩
    · simp at hv
  · rintro ⟨i, j, row, v, hri, hvj, hv, rfl, rfl⟩
    exact ⟨(row, i), hri, (v, j), hvj, by simp [hv]⟩

theorem toIncidence_entries (h : Net) (hw : h.WF) (n e : PyId) :
    (n, e) ∈ entries (labelFn (some (toIncidence h).rows)) (labelFn (some (toIncidence h).cols)) (toIncidence h).M
      ↔ Inc h n e := by
  rw [mem_entries]
  unfold toIncidence
  by_cases hd : h.nodes = [] ∨ h.edges = []
  · simp only [hd, if_true, List.getElem?_nil, reduceCtorEq, false_and, exists_false, false_iff]
    rintro ⟨p, hp, _, hn⟩
    rcases hd with hd | hd
    · have := (hw.2.2 p hp).2 n hn; rw [hd] at this; simp at this
    · rw [hd] at hp; simp at hp
  · simp only [hd, if_false, labelFn, List.getElem?_map, Net.edgeIds, List.getD_eq_getElem?_getD]
    constructor
    · rintro ⟨i, j, row, v, hri, hvj, hv, rfl, rfl⟩
      cases hi : h.nodes[i]? with
      | none => simp [hi] at hri
      | some m =>
        simp only [hi, Option.map_some, Option.some.injEq] at hri
        subst hri
        simp only [List.getElem?_map] at hvj
        cases hj : h.edges[j]? with
        | none => simp [hj] at hvj
        | some p =>
          simp only [hj, Option.map_some, Option.some.injEq] at hvj
          have hm : m ∈ p.2 := by
            by_cases hm : m ∈ p.2
            · exact hm
            · simp only [hm, if_false] at hvj; exact absurd hvj.symm hv
          exact ⟨p, List.mem_of_getElem? hj, by simp, by simpa using hm⟩
    · rintro ⟨p, hp, rfl, hn⟩
      have hn' := (hw.2.2 p hp).2 n hn
      obtain ⟨i, hi⟩ := List.getElem?_of_mem hn'
      obtain ⟨j, hj⟩ := List.getElem?_of_mem hp
      refine ⟨i, j, _, 1, by rw [hi]; rfl, ?_, by decide, by simp [hi], by simp [hj]⟩
      simp [List.getElem?_map, hj, hn]


theorem toIncidence_entries_pos (h : Net) (x y : PyId) :
    (x, y) ∈ entries (labelFn none) (labelFn none) (toIncidence h).M ↔
      ∃ i j n p, x = PyId.int (i : Nat) ∧ y = PyId.int (j : Nat) ∧ h.nodes[i]? = some n ∧ h.edges[j]? = some p ∧ n ∈ p.2 := by
  rw [mem_entries]
  unfold toIncidence
  by_cases hd : h.nodes = [] ∨ h.edges = []
  · simp only [hd, if_true, List.getElem?_nil, reduceCtorEq, false_and, exists_false, false_iff]
    rintro ⟨i, j, n, p, _, _, hi, hj, _⟩
    rcases hd with hd | hd
    · rw [hd] at hi; simp at hi
    · rw [hd] at hj; simp at hj
  · simp only [hd, if_false, labelFn, List.getElem?_map]
    constructor
    · rintro ⟨i, j, row, v, hri, hvj, hv, rfl, rfl⟩
      cases hi : h.nodes[i]? with
      | none => simp [hi] at hri
      | some m =>
        simp only [hi, Option.map_some, Option.some.injEq] at hri
        subst hri
        simp only [List.getElem?_map] at hvj
        cases hj : h.edges[j]? with
        | none => simp [hj] at hvj
        | some p =>
          simp only [hj, Option.map_some, Option.some.injEq] at hvj
          have hm : m ∈ p.2 := by
            by_cases hm : m ∈ p.2
            · exact hm
            · simp only [hm, if_false] at hvj; exact absurd hvj.symm hv
          exact ⟨i, j, m, p, rfl, rfl, hi, hj, hm⟩
    · rintro ⟨i, j, n, p, rfl, rfl, hi, hj, hn⟩
      refine ⟨i, j, _, 1, by rw [hi]; rfl, ?_, by decide, rfl, rfl⟩
      simp [List.getElem?_map, hj, hn]

theorem shape_toIncidence (h : Net) :
    (toIncidence h).rows.length = (shape (toIncidence h).M).1 ∧ (toIncidence h).cols.length = (shape (toIncidence h).M).2 := by
  unfold toIncidence shape
  by_cases hd : h.nodes = [] ∨ h.edges = []
  · simp [hd]
  · simp only [hd, if_false, List.length_map, Net.edgeIds, true_and]
    cases hn : h.nodes with
    | nil => simp [hn] at hd
    | cons a t => simp

/-! ### hyperedge list / dict -/

theorem foldl_ins_append {α : Type} [DecidableEq α] (l acc : List α) (h : (acc ++ l).Nodup) :
    l.foldl (fun acc x => ins x acc) acc = acc ++ l := by
  induction l generalizing acc with
  | nil => simp
  | cons a t ih =>
    have ha : a ∉ acc := by
      intro ha
      rw [List.nodup_append] at h
      exact h.2.2 a ha a (by simp) rfl
    simp only [List.foldl_cons]
    have : ins a acc = acc ++ [a] := by unfold ins; simp [ha]
    rw [this, ih]
    · simp
    · simpa using h

theorem dedup_of_nodup {α : Type} [DecidableEq α] {l : List α} (h : l.Nodup) : dedup l = l := by
  unfold dedup; rw [foldl_ins_append l [] (by simpa using h)]; simp

/-! ### addEdge folds -/

theorem addEdge_fresh (h : Net) (e : PyId) (ms : List PyId) (he : e ∉ h.edgeIds) :
    addEdge h e ms = { nodes := ms.foldl (fun acc x => ins x acc) h.nodes, edges := h.edges ++ [(e, dedup ms)] } := by
  unfold addEdge; simp [he]

theorem edges_foldl_addEdge (d : List (PyId × List PyId)) (h : Net)
    (hd : (h.edgeIds ++ d.map (·.1)).Nodup) :
    (d.foldl (fun h p => addEdge h p.1 p.2) h).edges = h.edges ++ d.map (fun p => (p.1, dedup p.2)) := by
  induction d generalizing h with
  | nil => simp
  | cons p t ih =>
    have hp : p.1 ∉ h.edgeIds := by
      intro hp
      rw [List.nodup_append] at hd
      exact hd.2.2 p.1 hp p.1 (by simp) rfl
    simp only [List.foldl_cons]
    rw [addEdge_fresh h p.1 p.2 hp, ih]
    · simp
    · simpa [Net.edgeIds] using hd

theorem mem_nodes_foldl_addEdge (d : List (PyId × List PyId)) (h : Net)
    (hd : (h.edgeIds ++ d.map (·.1)).Nodup) (n : PyId) :
    n ∈ (d.foldl (fun h p => addEdge h p.1 p.2) h).nodes ↔ n ∈ h.nodes ∨ ∃ p ∈ d, n ∈ p.2 := by
  induction d generalizing h with
  | nil => simp
  | cons p t ih =>
    have hp : p.1 ∉ h.edgeIds := by
      intro hp
      rw [List.nodup_append] at hd
      exact hd.2.2 p.1 hp p.1 (by simp) rfl
    simp only [List.foldl_cons]
    rw [addEdge_fresh h p.1 p.2 hp, ih]
    · simp only [foldl_ins_mem, List.mem_cons, exists_eq_or_imp]
      constructor
      · rintro ((h1 | h1) | h1)
        · exact Or.inl h1
        · exact Or.inr (Or.inl h1)
        · exact Or.inr (Or.inr h1)
      · rintro (h1 | h1 | h1)
        · exact Or.inl (Or.inl h1)
        · exact Or.inl (Or.inr h1)
        · exact Or.inr h1
    · simpa [Net.edgeIds] using hd

/-- `from_hyperedge_list`: the counter only ever produces fresh IDs -/
theorem edges_foldl_addEdge_auto (l : List (List PyId)) (h : Net) (k : Nat)
    (hk : ∀ e ∈ h.edgeIds, ∃ j : Nat, j < k ∧ e = PyId.int j) :
    (l.foldl (fun (s : Net × Nat) ms => (addEdge s.1 (.int s.2) ms, s.2 + 1)) (h, k)).1.edges =
      h.edges ++ (l.zipIdx k).map (fun mi => (PyId.int mi.2, dedup mi.1)) := by
  induction l generalizing h k with
  | nil => simp
  | cons ms t ih =>
    have hp : PyId.int (k : Nat) ∉ h.edgeIds := by
      intro hp
      obtain ⟨j, hj, he⟩ := hk _ hp
      simp only [PyId.int, PyId.atom.injEq, Atom.int.injEq, Int.natCast_inj] at he
      omega
    simp only [List.foldl_cons, List.zipIdx_cons, List.map_cons]
    rw [addEdge_fresh h _ ms hp, ih]
    · simp
    · intro e he
      simp only [Net.edgeIds, List.map_append, List.map_cons, List.map_nil, List.mem_append, List.mem_singleton] at he
      rcases he with he | he
      · obtain ⟨j, hj, rfl⟩ := hk e he; exact ⟨j, by omega, rfl⟩
      · exact ⟨k, by omega, he⟩

/-! ### directed link -/

@[simp] theorem nodes_dEnsureEdge (h : DiNet) (e : PyId) : (dEnsureEdge h e).nodes = h.nodes := by
  unfold dEnsureEdge; split <;> rfl

theorem dEdgeIds_dEnsureEdge (h : DiNet) (e : PyId) : dEdgeIds (dEnsureEdge h e) = ins e (dEdgeIds h) := by
  unfold dEnsureEdge ins; split <;> simp_all [dEdgeIds]

theorem dEdgeIds_dPutMember (h : DiNet) (e n : PyId) (d : Dir) : dEdgeIds (dPutMember h e n d) = dEdgeIds h := by
  unfold dPutMember dEdgeIds
  simp only [List.map_map]
  apply List.map_congr_left
  intro p _; simp only [Function.comp]; split
  · cases d <;> rfl
  · rfl

@[simp] theorem nodes_dLink (h : DiNet) (e n : PyId) (d : Dir) : (dLink h e n d).nodes = ins n h.nodes := by
  simp [dLink, dPutMember, dAddNode]

@[simp] theorem dEdgeIds_dLink (h : DiNet) (e n : PyId) (d : Dir) : dEdgeIds (dLink h e n d) = ins e (dEdgeIds h) := by
  unfold dLink
  rw [dEdgeIds_dPutMember]
  show dEdgeIds (dEnsureEdge h e) = _
  exact dEdgeIds_dEnsureEdge h e

/-- members of an edge on one side -/
def side (d : Dir) (p : PyId × List PyId × List PyId) : List PyId := match d with | .tail => p.2.1 | .head => p.2.2

theorem dInc_iff (h : DiNet) (n e : PyId) (d : Dir) : DInc h n e d ↔ ∃ p ∈ h.edges, p.1 = e ∧ n ∈ side d p := by
  unfold DInc side; cases d <;> rfl

theorem dInc_dLink (h : DiNet) (e n n' e' : PyId) (d d' : Dir) :
    DInc (dLink h e n d) n' e' d' ↔ DInc h n' e' d' ∨ (n' = n ∧ e' = e ∧ d' = d) := by
  simp only [dInc_iff]
  unfold dLink dPutMember dAddNode dEnsureEdge dEdgeIds
  by_cases he : e ∈ h.edges.map (·.1)
  · simp only [he, if_true, List.mem_map]
    constructor
    · rintro ⟨p, ⟨q, hq, rfl⟩, h1, h2⟩
      by_cases hqe : q.1 = e
      · simp only [hqe, if_true] at h1 h2
        cases d <;> cases d' <;> simp only [side, mem_ins] at h1 h2 ⊢
        · rcases h2 with h2 | h2
          · right; exact ⟨h2, h1.symm, trivial⟩
          · left; exact ⟨q, hq, by rw [hqe]; exact h1, h2⟩
        · left; exact ⟨q, hq, by rw [hqe]; exact h1, h2⟩
        · left; exact ⟨q, hq, by rw [hqe]; exact h1, h2⟩
        · rcases h2 with h2 | h2
          · right; exact ⟨h2, h1.symm, trivial⟩
          · left; exact ⟨q, hq, by rw [hqe]; exact h1, h2⟩
      · simp only [hqe, if_false] at h1 h2
        left; exact ⟨q, hq, h1, h2⟩
    · rintro (⟨q, hq, h1, h2⟩ | ⟨rfl, rfl, rfl⟩)
      · refine ⟨_, ⟨q, hq, rfl⟩, ?_⟩
        by_cases hqe : q.1 = e
        · simp only [hqe, if_true]
          refine ⟨by cases d <;> (simp only []; rw [← hqe]; exact h1), ?_⟩
          cases d <;> cases d' <;> simp only [side, mem_ins] at h2 ⊢ <;> first | exact Or.inr h2 | exact h2
        · simp only [hqe, if_false]; exact ⟨h1, h2⟩
      · rw [List.mem_map] at he
        obtain ⟨q, hq, hqe⟩ := he
        refine ⟨_, ⟨q, hq, rfl⟩, ?_⟩
        simp only [hqe, if_true]
        cases d' <;> simp [side]
  · simp only [he, if_false, List.map_append, List.mem_append, List.mem_map, List.map_cons, List.map_nil,
      List.mem_singleton]
    constructor
    · rintro ⟨p, (⟨q, hq, rfl⟩ | rfl), h1, h2⟩
      · have hqe : q.1 ≠ e := by
          intro hqe; apply he; rw [List.mem_map]; exact ⟨q, hq, hqe⟩
        simp only [hqe, if_false] at h1 h2
        left; exact ⟨q, hq, h1, h2⟩
      · simp only [if_true] at h1 h2
        cases d <;> cases d' <;> simp [side] at h2 <;> (right; exact ⟨h2, h1.symm, rfl⟩)
    · rintro (⟨q, hq, h1, h2⟩ | ⟨rfl, rfl, rfl⟩)
      · have hqe : q.1 ≠ e := by
          intro hqe; apply he; rw [List.mem_map]; exact ⟨q, hq, hqe⟩
        refine ⟨_, Or.inl ⟨q, hq, rfl⟩, ?_⟩
        simp only [hqe, if_false]; exact ⟨h1, h2⟩
      · refine ⟨_, Or.inr rfl, ?_⟩
        simp only [if_true]
        cases d' <;> simp [side]


theorem dwf_dLink {h : DiNet} (hw : DWF h) (e n : PyId) (d : Dir) : DWF (dLink h e n d) := by
  obtain ⟨h1, h2, h3⟩ := hw
  refine ⟨?_, ?_, ?_⟩
  · rw [nodes_dLink]; exact nodup_ins h1
  · have := dEdgeIds_dLink h e n d
    unfold dEdgeIds at this; rw [this]; exact nodup_ins h2
  · intro p hp
    rw [nodes_dLink]
    unfold dLink dPutMember dAddNode dEnsureEdge at hp
    simp only [List.mem_map] at hp
    obtain ⟨q, hq, rfl⟩ := hp
    have hq' : q ∈ h.edges ∨ q = (e, [], []) := by
      split at hq
      · left; exact hq
      · simp only [List.mem_append, List.mem_singleton] at hq; exact hq
    have hq3 : q.2.1.Nodup ∧ q.2.2.Nodup ∧ (∀ m ∈ q.2.1, m ∈ h.nodes) ∧ (∀ m ∈ q.2.2, m ∈ h.nodes) := by
      rcases hq' with hq' | rfl
      · exact h3 q hq'
      · simp
    obtain ⟨a1, a2, a3, a4⟩ := hq3
    split
    · cases d
      · exact ⟨nodup_ins a1, a2, by intro m hm; rw [mem_ins] at hm ⊢; rcases hm with hm | hm; exact Or.inl hm; exact Or.inr (a3 m hm),
          by intro m hm; rw [mem_ins]; exact Or.inr (a4 m hm)⟩
      · exact ⟨a1, nodup_ins a2, by intro m hm; rw [mem_ins]; exact Or.inr (a3 m hm),
          by intro m hm; rw [mem_ins] at hm ⊢; rcases hm with hm | hm; exact Or.inl hm; exact Or.inr (a4 m hm)⟩
    · exact ⟨a1, a2, by intro m hm; rw [mem_ins]; exact Or.inr (a3 m hm), by intro m hm; rw [mem_ins]; exact Or.inr (a4 m hm)⟩

theorem dInc_dLinkAll (l : List (PyId × PyId × Dir)) (h : DiNet) (n e : PyId) (d : Dir) :
    DInc (dLinkAll l h) n e d ↔ DInc h n e d ∨ (n, e, d) ∈ l := by
  induction l generalizing h with
  | nil => simp [dLinkAll]
  | cons r t ih =>
    have : dLinkAll (r :: t) h = dLinkAll t (dLink h r.2.1 r.1 r.2.2) := rfl
    rw [this, ih, dInc_dLink]
    simp only [List.mem_cons, Prod.ext_iff]
    constructor
    · rintro ((h1 | h1) | h1)
      · exact Or.inl h1
      · exact Or.inr (Or.inl h1)
      · exact Or.inr (Or.inr h1)
    · rintro (h1 | h1 | h1)
      · exact Or.inl (Or.inl h1)
      · exact Or.inl (Or.inr h1)
      · exact Or.inr h1

theorem mem_nodes_dLinkAll (l : List (PyId × PyId × Dir)) (h : DiNet) (n : PyId) :
    n ∈ (dLinkAll l h).nodes ↔ n ∈ h.nodes ∨ ∃ e d, (n, e, d) ∈ l := by
  induction l generalizing h with
  | nil => simp [dLinkAll]
  | cons r t ih =>
    have : dLinkAll (r :: t) h = dLinkAll t (dLink h r.2.1 r.1 r.2.2) := rfl
    rw [this, ih, nodes_dLink, mem_ins]
    simp only [List.mem_cons, Prod.ext_iff]
    constructor
    · rintro ((h1 | h1) | ⟨e, d, h1⟩)
      · exact Or.inr ⟨r.2.1, r.2.2, Or.inl ⟨h1, rfl, rfl⟩⟩
      · exact Or.inl h1
      · exact Or.inr ⟨e, d, Or.inr h1⟩
    · rintro (h1 | ⟨e, d, (⟨h1, _⟩ | h1)⟩)
      · exact Or.inl (Or.inr h1)
      · exact Or.inl (Or.inl h1)
      · exact Or.inr ⟨e, d, h1⟩

theorem mem_dEdgeIds_dLinkAll (l : List (PyId × PyId × Dir)) (h : DiNet) (e : PyId) :
    e ∈ dEdgeIds (dLinkAll l h) ↔ e ∈ dEdgeIds h ∨ ∃ n d, (n, e, d) ∈ l := by
  induction l generalizing h with
  | nil => simp [dLinkAll]
  | cons r t ih =>
    have : dLinkAll (r :: t) h = dLinkAll t (dLink h r.2.1 r.1 r.2.2) := rfl
    rw [this, ih, dEdgeIds_dLink, mem_ins]
    simp only [List.mem_cons, Prod.ext_iff]
    constructor
    · rintro ((h1 | h1) | ⟨n, d, h1⟩)
      · exact Or.inr ⟨r.1, r.2.2, Or.inl ⟨rfl, h1, rfl⟩⟩
      · exact Or.inl h1
      · exact Or.inr ⟨n, d, Or.inr h1⟩
    · rintro (h1 | ⟨n, d, (⟨_, h1, _⟩ | h1)⟩)
      · exact Or.inl (Or.inr h1)
      · exact Or.inl (Or.inl h1)
      · exact Or.inr ⟨n, d, h1⟩

theorem dwf_dLinkAll (l : List (PyId × PyId × Dir)) {h : DiNet} (hw : DWF h) : DWF (dLinkAll l h) := by
  induction l generalizing h with
  | nil => exact hw
  | cons r t ih => exact ih (dwf_dLink hw r.2.1 r.1 r.2.2)

theorem dwf_emptyDiNet : DWF emptyDiNet := by
  unfold emptyDiNet DWF; simp

theorem dInc_emptyDiNet (n e : PyId) (d : Dir) : ¬ DInc emptyDiNet n e d := by
  unfold DInc emptyDiNet; simp

theorem mem_toBipartiteEdgelistDi (h : DiNet) (n e : PyId) (d : Dir) :
    (n, e, d) ∈ toBipartiteEdgelistDi h ↔ DInc h n e d := by
  rw [dInc_iff]
  unfold toBipartiteEdgelistDi
  simp only [List.mem_flatMap, List.mem_append, List.mem_map, Prod.mk.injEq]
  constructor
  · rintro ⟨p, hp, (⟨m, hm, rfl, rfl, rfl⟩ | ⟨m, hm, rfl, rfl, rfl⟩)⟩
    · exact ⟨p, hp, rfl, hm⟩
    · exact ⟨p, hp, rfl, hm⟩
  · rintro ⟨p, hp, rfl, hm⟩
    cases d
    · exact ⟨p, hp, Or.inl ⟨n, hm, rfl, rfl, rfl⟩⟩
    · exact ⟨p, hp, Or.inr ⟨n, hm, rfl, rfl, rfl⟩⟩

/-! ### bipartite graphs -/

/-- a networkx graph as data: vertex keys distinct, edge endpoints are vertices -/
def GWF (G : BGraph) : Prop :=
  (G.verts.map (·.1)).Nodup ∧ ∀ p ∈ G.edges, p.1 ∈ G.verts.map (·.1) ∧ p.2 ∈ G.verts.map (·.1)

theorem mem_nodeVerts (G : BGraph) (x : PyId) : x ∈ nodeVerts G ↔ (x, some 0) ∈ G.verts := by
  unfold nodeVerts
  simp only [List.mem_filterMap]
  constructor
  · rintro ⟨p, hp, h⟩
    split at h
    · rename_i h0; simp only [Option.some.injEq] at h; subst h
      have : p = (p.1, some 0) := by rw [← h0]
      rw [← this]; exact hp
    · simp at h
  · intro h; exact ⟨_, h, by simp⟩

theorem mem_edgeVerts (G : BGraph) (x : PyId) : x ∈ edgeVerts G ↔ (x, some 1) ∈ G.verts := by
  unfold edgeVerts
  simp only [List.mem_filterMap]
  constructor
  · rintro ⟨p, hp, h⟩
    split at h
    · rename_i h0; simp only [Option.some.injEq] at h; subst h
      have : p = (p.1, some 1) := by rw [← h0]
      rw [← this]; exact hp
    · simp at h
  · intro h; exact ⟨_, h, by simp⟩

theorem flagsOk_iff (G : BGraph) : flagsOk G = true ↔ ∀ p ∈ G.verts, p.2 = some 0 ∨ p.2 = some 1 := by
  unfold flagsOk; simp

theorem isBipartite_iff (G : BGraph) :
    isBipartite G = true ↔ ∀ p ∈ G.edges, (p.1 ∈ nodeVerts G ↔ p.2 ∈ edgeVerts G) := by
  unfold isBipartite; simp

/-- with distinct keys a vertex has one flag -/
theorem flag_unique {l : List (PyId × Option Int)} (hn : (l.map (·.1)).Nodup) {x : PyId} {a b : Option Int}
    (ha : (x, a) ∈ l) (hb : (x, b) ∈ l) : a = b := by
  induction l with
  | nil => simp at ha
  | cons p t ih =>
    simp only [List.map_cons, List.nodup_cons, List.mem_map, not_exists, not_and] at hn
    simp only [List.mem_cons] at ha hb
    rcases ha with ha | ha <;> rcases hb with hb | hb
    · rw [← ha] at hb; simp only [Prod.mk.injEq] at hb; exact hb.2.symm
    · exact absurd (by rw [← ha]) (hn.1 _ hb)
    · exact absurd (by rw [← hb]) (hn.1 _ ha)
    · exact ih hn.2 ha hb

/-- a vertex of a valid graph is a node-vertex or an edge-vertex, never both -/
theorem vertex_dichotomy {G : BGraph} (hw : GWF G) (hf : flagsOk G = true) {x : PyId}
    (hx : x ∈ G.verts.map (·.1)) : (x ∈ nodeVerts G ↔ ¬ x ∈ edgeVerts G) := by
  rw [mem_nodeVerts, mem_edgeVerts]
  rw [List.mem_map] at hx
  obtain ⟨p, hp, rfl⟩ := hx
  have h01 := (flagsOk_iff G).mp hf p hp
  constructor
  · intro h0 h1
    have := flag_unique hw.1 h0 h1
    simp at this
  · intro h1
    rcases h01 with h | h
    · have : p = (p.1, some 0) := by rw [← h]
      rw [← this]; exact hp
    · exfalso; apply h1
      have : p = (p.1, some 1) := by rw [← h]
      rw [← this]; exact hp

theorem nodeVert_is_vertex (G : BGraph) {x : PyId} (h : x ∈ nodeVerts G) : x ∈ G.verts.map (·.1) := by
  rw [mem_nodeVerts] at h; rw [List.mem_map]; exact ⟨_, h, rfl⟩
theorem edgeVert_is_vertex (G : BGraph) {x : PyId} (h : x ∈ edgeVerts G) : x ∈ G.verts.map (·.1) := by
  rw [mem_edgeVerts] at h; rw [List.mem_map]; exact ⟨_, h, rfl⟩

/-! addNodes -/
@[simp] theorem edges_addNodes (ns : List PyId) (h : Net) : (addNodes ns h).edges = h.edges := by
  induction ns generalizing h with
  | nil => rfl
  | cons a t ih => simp only [addNodes, List.foldl_cons] at ih ⊢; rw [ih]; rfl

theorem mem_nodes_addNodes (ns : List PyId) (h : Net) (n : PyId) : n ∈ (addNodes ns h).nodes ↔ n ∈ h.nodes ∨ n ∈ ns := by
  induction ns generalizing h with
  | nil => simp [addNodes]
  | cons a t ih =>
    simp only [addNodes, List.foldl_cons] at ih ⊢
    rw [ih]; simp only [addNode, mem_ins, List.mem_cons]
    constructor
    · rintro ((h1 | h1) | h1)
      · exact Or.inr (Or.inl h1)
      · exact Or.inl h1
      · exact Or.inr (Or.inr h1)
    · rintro (h1 | h1 | h1)
      · exact Or.inl (Or.inr h1)
      · exact Or.inl (Or.inl h1)
      · exact Or.inr h1

theorem wf_addNodes (ns : List PyId) {h : Net} (hw : h.WF) : (addNodes ns h).WF := by
  induction ns generalizing h with
  | nil => exact hw
  | cons a t ih =>
    simp only [addNodes, List.foldl_cons] at ih ⊢
    apply ih
    obtain ⟨h1, h2, h3⟩ := hw
    refine ⟨nodup_ins h1, h2, fun p hp => ⟨(h3 p hp).1, fun m hm => ?_⟩⟩
    simp only [addNode, mem_ins]; exact Or.inr ((h3 p hp).2 m hm)

theorem inc_addNodes (ns : List PyId) (h : Net) (n e : PyId) : Inc (addNodes ns h) n e ↔ Inc h n e := by
  unfold Inc; rw [edges_addNodes]

theorem fromBipartiteGraph_ok_iff (G : BGraph) :
    (∃ r, fromBipartiteGraph G = .ok r) ↔ flagsOk G = true ∧ isBipartite G = true := by
  unfold fromBipartiteGraph
  cases flagsOk G <;> cases isBipartite G <;> simp

theorem fromBipartiteGraph_eq {G : BGraph} {r : Net} (h : fromBipartiteGraph G = .ok r) :
    flagsOk G = true ∧ isBipartite G = true ∧
      r = linkAll (G.edges.map (orient (edgeVerts G))) (addNodes (nodeVerts G) emptyNet) := by
  unfold fromBipartiteGraph at h
  cases hf : flagsOk G <;> cases hb : isBipartite G <;> simp [hf, hb] at h
  exact ⟨rfl, rfl, h.symm⟩

/-- the incidences of `from_bipartite_graph(G)`: node-vertex `n` is in edge-vertex `e` iff the graph joins
    them — in whichever orientation the pair is handed over -/
theorem fromBipartiteGraph_inc {G : BGraph} {r : Net} (hr : fromBipartiteGraph G = .ok r) (hw : GWF G) (n e : PyId) :
    Inc r n e ↔ n ∈ nodeVerts G ∧ e ∈ edgeVerts G ∧ ((n, e) ∈ G.edges ∨ (e, n) ∈ G.edges) := by
  obtain ⟨hf, hb, rfl⟩ := fromBipartiteGraph_eq hr
  rw [isBipartite_iff] at hb
  rw [inc_linkAll, inc_addNodes]
  simp only [inc_emptyNet, false_or, List.mem_map]
  constructor
  · rintro ⟨⟨u, v⟩, hp, ho⟩
    have hb' := hb _ hp
    obtain ⟨hu, hv⟩ := hw.2 _ hp
    simp only at hb' hu hv
    unfold orient at ho
    simp only at ho
    split at ho
    · rename_i hue
      simp only [Prod.mk.injEq] at ho
      obtain ⟨rfl, rfl⟩ := ho
      have h1 : ¬ u ∈ nodeVerts G := fun h => ((vertex_dichotomy hw hf hu).mp h) hue
      have h2 : ¬ v ∈ edgeVerts G := fun h => h1 (hb'.mpr h)
      have h3 : v ∈ nodeVerts G := (vertex_dichotomy hw hf hv).mpr h2
      exact ⟨h3, hue, Or.inr hp⟩
    · rename_i hue
      simp only [Prod.mk.injEq] at ho
      obtain ⟨rfl, rfl⟩ := ho
      have h3 : u ∈ nodeVerts G := (vertex_dichotomy hw hf hu).mpr hue
      exact ⟨h3, hb'.mp h3, Or.inl hp⟩
  · rintro ⟨hn, he, (hp | hp)⟩
    · refine ⟨(n, e), hp, ?_⟩
      have : ¬ n ∈ edgeVerts G := (vertex_dichotomy hw hf (nodeVert_is_vertex G hn)).mp hn
      simp [orient, this]
    · refine ⟨(e, n), hp, ?_⟩
      simp [orient, he]

theorem fromBipartiteGraph_nodes {G : BGraph} {r : Net} (hr : fromBipartiteGraph G = .ok r) (hw : GWF G) (n : PyId) :
    n ∈ r.nodes ↔ n ∈ nodeVerts G := by
  constructor
  · intro hn
    obtain ⟨hf, hb, rfl⟩ := fromBipartiteGraph_eq hr
    rw [mem_nodes_linkAll, mem_nodes_addNodes] at hn
    rcases hn with (hn | hn) | ⟨e, hn⟩
    · simp [emptyNet] at hn
    · exact hn
    · have : Inc (linkAll (G.edges.map (orient (edgeVerts G))) (addNodes (nodeVerts G) emptyNet)) n e := by
        rw [inc_linkAll]; exact Or.inr hn
      exact ((fromBipartiteGraph_inc hr hw n e).mp this).1
  · intro hn
    obtain ⟨hf, hb, rfl⟩ := fromBipartiteGraph_eq hr
    rw [mem_nodes_linkAll, mem_nodes_addNodes]
    exact Or.inl (Or.inr hn)

theorem gwf_transfer {G G' : BGraph} (hw : GWF G) (hv : G.verts.Perm G'.verts)
    (he : ∀ u v, ((u, v) ∈ G.edges ∨ (v, u) ∈ G.edges) ↔ ((u, v) ∈ G'.edges ∨ (v, u) ∈ G'.edges)) : GWF G' := by
  refine ⟨(hv.map _).nodup_iff.mp hw.1, ?_⟩
  rintro ⟨u, v⟩ hp
  have hm : ∀ x, x ∈ G.verts.map (·.1) ↔ x ∈ G'.verts.map (·.1) := fun x => (hv.map _).mem_iff
  rcases (he u v).mpr (Or.inl hp) with h | h
  · have := hw.2 _ h; exact ⟨(hm _).mp this.1, (hm _).mp this.2⟩
  · have := hw.2 _ h; exact ⟨(hm _).mp this.2, (hm _).mp this.1⟩

theorem ok_transfer {G G' : BGraph} (hw : GWF G) (hv : G.verts.Perm G'.verts)
    (he : ∀ u v, ((u, v) ∈ G.edges ∨ (v, u) ∈ G.edges) ↔ ((u, v) ∈ G'.edges ∨ (v, u) ∈ G'.edges))
    (hf : flagsOk G = true) (hb : isBipartite G = true) : flagsOk G' = true ∧ isBipartite G' = true := by
  have hw' := gwf_transfer hw hv he
  have hf' : flagsOk G' = true := by
    rw [flagsOk_iff] at hf ⊢
    intro p hp; exact hf p (hv.mem_iff.mpr hp)
  refine ⟨hf', ?_⟩
  have hN : ∀ x, x ∈ nodeVerts G ↔ x ∈ nodeVerts G' := fun x => by
    rw [mem_nodeVerts, mem_nodeVerts]; exact hv.mem_iff
  have hE : ∀ x, x ∈ edgeVerts G ↔ x ∈ edgeVerts G' := fun x => by
    rw [mem_edgeVerts, mem_edgeVerts]; exact hv.mem_iff
  rw [isBipartite_iff] at hb ⊢
  rintro ⟨u, v⟩ hp
  simp only
  rw [← hN, ← hE]
  rcases (he u v).mpr (Or.inl hp) with h | h
  · exact hb _ h
  · have h1 := hb _ h
    obtain ⟨hv', hu'⟩ := hw.2 _ h
    simp only at h1 hv' hu'
    rw [vertex_dichotomy hw hf hu']
    constructor
    · intro h2
      by_cases h3 : v ∈ edgeVerts G
      · exact h3
      · exact absurd (h1.mp ((vertex_dichotomy hw hf hv').mpr h3)) h2
    · intro h2 h3
      exact ((vertex_dichotomy hw hf hv').mp (h1.mpr h3)) h2

theorem nodup_zipIdx_map {α : Type} (l : List α) (f : Nat → PyId) (hf : ∀ a b, f a = f b → a = b) :
    (l.zipIdx.map (fun vi => f vi.2)).Nodup := by
  have : l.zipIdx.map (fun vi => f vi.2) = (l.zipIdx.map Prod.snd).map f := by
    rw [List.map_map]; rfl
  rw [this, List.zipIdx_map_snd]
  exact List.Pairwise.map f (fun a b hab h => hab (hf a b h)) (List.nodup_range' 1)

theorem int_inj (a b : Nat) (h : PyId.int (a : Nat) = PyId.int (b : Nat)) : a = b := by
  simp only [PyId.int, PyId.atom.injEq, Atom.int.injEq, Int.natCast_inj] at h; exact h

theorem mem_verts_toBG (h : Net) (x : PyId) (f : Option Int) :
    (x, f) ∈ (toBipartiteGraph h).G.verts ↔
      (∃ i v, h.nodes[i]? = some v ∧ x = PyId.int (i : Nat) ∧ f = some 0) ∨
      (∃ j p, h.edges[j]? = some p ∧ x = PyId.int (h.nodes.length + j : Nat) ∧ f = some 1) := by
  unfold toBipartiteGraph
  simp only [List.mem_append, List.mem_map, Prod.mk.injEq, List.mem_zipIdx_iff_getElem?]
  constructor
  · rintro (⟨⟨v, i⟩, hv, rfl, rfl⟩ | ⟨⟨p, j⟩, hp, rfl, rfl⟩)
    · exact Or.inl ⟨i, v, hv, rfl, rfl⟩
    · exact Or.inr ⟨j, p, hp, rfl, rfl⟩
  · rintro (⟨i, v, hv, rfl, rfl⟩ | ⟨j, p, hp, rfl, rfl⟩)
    · exact Or.inl ⟨(v, i), hv, rfl, rfl⟩
    · exact Or.inr ⟨(p, j), hp, rfl, rfl⟩

theorem mem_nodeVerts_toBG (h : Net) (x : PyId) :
    x ∈ nodeVerts (toBipartiteGraph h).G ↔ ∃ i v, h.nodes[i]? = some v ∧ x = PyId.int (i : Nat) := by
  rw [mem_nodeVerts, mem_verts_toBG]
  constructor
  · rintro (⟨i, v, hv, rfl, _⟩ | ⟨j, p, hp, rfl, hf⟩)
    · exact ⟨i, v, hv, rfl⟩
    · simp at hf
  · rintro ⟨i, v, hv, rfl⟩; exact Or.inl ⟨i, v, hv, rfl, rfl⟩

theorem mem_edgeVerts_toBG (h : Net) (x : PyId) :
    x ∈ edgeVerts (toBipartiteGraph h).G ↔ ∃ j p, h.edges[j]? = some p ∧ x = PyId.int (h.nodes.length + j : Nat) := by
  rw [mem_edgeVerts, mem_verts_toBG]
  constructor
  · rintro (⟨i, v, hv, rfl, hf⟩ | ⟨j, p, hp, rfl, _⟩)
    · simp at hf
    · exact ⟨j, p, hp, rfl⟩
  · rintro ⟨j, p, hp, rfl⟩; exact Or.inr ⟨j, p, hp, rfl, rfl⟩

theorem mem_edges_toBG (h : Net) (x y : PyId) :
    (x, y) ∈ (toBipartiteGraph h).G.edges ↔
      ∃ i v j p, h.nodes[i]? = some v ∧ h.edges[j]? = some p ∧ v ∈ p.2 ∧
        x = PyId.int (i : Nat) ∧ y = PyId.int (h.nodes.length + j : Nat) := by
  unfold toBipartiteGraph
  simp only [List.mem_flatMap, List.mem_filterMap, List.mem_zipIdx_iff_getElem?]
  constructor
  · rintro ⟨⟨v, i⟩, hv, ⟨p, j⟩, hp, h1⟩
    simp only at hv hp h1
    split at h1
    · rename_i hm
      simp only [Option.some.injEq, Prod.mk.injEq] at h1
      exact ⟨i, v, j, p, hv, hp, hm, h1.1.symm, h1.2.symm⟩
    · simp at h1
  · rintro ⟨i, v, j, p, hv, hp, hm, rfl, rfl⟩
    exact ⟨(v, i), hv, (p, j), hp, by simp [hm]⟩

theorem getElem?_lt {α : Type} {l : List α} {i : Nat} {a : α} (h : l[i]? = some a) : i < l.length := by
  by_cases hi : i < l.length
  · exact hi
  · rw [List.getElem?_eq_none (by omega)] at h; simp at h

theorem gwf_toBG (h : Net) : GWF (toBipartiteGraph h).G := by
  constructor
  · have : (toBipartiteGraph h).G.verts.map (·.1) =
        h.nodes.zipIdx.map (fun vi => PyId.int (vi.2 : Nat)) ++
        h.edges.zipIdx.map (fun pj => PyId.int (h.nodes.length + pj.2 : Nat)) := by
      unfold toBipartiteGraph; simp [List.map_map, Function.comp_def]
    rw [this, List.nodup_append]
    refine ⟨nodup_zipIdx_map _ _ int_inj, nodup_zipIdx_map _ (fun j => PyId.int (h.nodes.length + j : Nat)) ?_, ?_⟩
    · intro a b hab; have := int_inj _ _ hab; omega
    · intro a ha b hb hab
      simp only [List.mem_map, List.mem_zipIdx_iff_getElem?] at ha hb
      obtain ⟨⟨v, i⟩, hv, rfl⟩ := ha
      obtain ⟨⟨p, j⟩, hp, rfl⟩ := hb
      have := int_inj _ _ hab
      have := getElem?_lt hv
      simp only at *
      omega
  · rintro ⟨x, y⟩ hp
    rw [mem_edges_toBG] at hp
    obtain ⟨i, v, j, p, hv, hp, _, rfl, rfl⟩ := hp
    simp only [List.mem_map]
    exact ⟨⟨_, (mem_verts_toBG h _ _).mpr (Or.inl ⟨i, v, hv, rfl, rfl⟩), rfl⟩,
           ⟨_, (mem_verts_toBG h _ _).mpr (Or.inr ⟨j, p, hp, rfl, rfl⟩), rfl⟩⟩

theorem ok_toBG (h : Net) : flagsOk (toBipartiteGraph h).G = true ∧ isBipartite (toBipartiteGraph h).G = true := by
  constructor
  · rw [flagsOk_iff]
    rintro ⟨x, f⟩ hp
    rw [mem_verts_toBG] at hp
    rcases hp with ⟨_, _, _, _, rfl⟩ | ⟨_, _, _, _, rfl⟩
    · exact Or.inl rfl
    · exact Or.inr rfl
  · rw [isBipartite_iff]
    rintro ⟨x, y⟩ hp
    rw [mem_edges_toBG] at hp
    obtain ⟨i, v, j, p, hv, hp, _, rfl, rfl⟩ := hp
    simp only [mem_nodeVerts_toBG, mem_edgeVerts_toBG]
    exact ⟨fun _ => ⟨j, p, hp, rfl⟩, fun _ => ⟨i, v, hv, rfl⟩⟩

/-- two entries of a list with distinct keys and the same key are the same entry -/
theorem eq_of_key_eq {l : List (PyId × List PyId)} (hn : (l.map (·.1)).Nodup) {p q : PyId × List PyId}
    (hp : p ∈ l) (hq : q ∈ l) (h : p.1 = q.1) : p = q := by
  induction l with
  | nil => simp at hp
  | cons a t ih =>
    simp only [List.map_cons, List.nodup_cons, List.mem_map, not_exists, not_and] at hn
    simp only [List.mem_cons] at hp hq
    rcases hp with hp | hp <;> rcases hq with hq | hq
    · rw [hp, hq]
    · exact absurd (by rw [← hp, h]) (hn.1 _ hq)
    · exact absurd (by rw [← hq, ← h]) (hn.1 _ hp)
    · exact ih hn.2 hp hq

theorem mem_itn_toBG (h : Net) (x n : PyId) :
    (x, n) ∈ (toBipartiteGraph h).itn ↔ ∃ i, h.nodes[i]? = some n ∧ x = PyId.int (i : Nat) := by
  unfold toBipartiteGraph
  simp only [List.mem_map, Prod.mk.injEq, List.mem_zipIdx_iff_getElem?]
  constructor
  · rintro ⟨⟨v, i⟩, hv, rfl, rfl⟩; exact ⟨i, hv, rfl⟩
  · rintro ⟨i, hv, rfl⟩; exact ⟨(n, i), hv, rfl, rfl⟩

theorem mem_ite_toBG (h : Net) (y e : PyId) :
    (y, e) ∈ (toBipartiteGraph h).ite ↔ ∃ j p, h.edges[j]? = some p ∧ y = PyId.int (h.nodes.length + j : Nat) ∧ e = p.1 := by
  unfold toBipartiteGraph
  simp only [List.mem_map, Prod.mk.injEq, List.mem_zipIdx_iff_getElem?]
  constructor
  · rintro ⟨⟨p, j⟩, hp, rfl, rfl⟩; exact ⟨j, p, hp, rfl, rfl⟩
  · rintro ⟨j, p, hp, rfl, rfl⟩; exact ⟨(p, j), hp, rfl, rfl⟩

/-! ### attribute dicts -/

/-- an attribute dict has distinct keys -/
def AttrsWF (av : Attrs) : Prop := (av.map (·.1)).Nodup

theorem attrs_set_fresh (a : Attrs) (k : String) (v : Val) (hk : k ∉ a.map (·.1)) : Attrs.set a k v = a ++ [(k, v)] := by
  unfold Attrs.set
  have : a.any (fun p => p.1 = k) = false := by
    rw [List.any_eq_false]
    intro p hp h
    simp only [decide_eq_true_eq] at h
    exact hk (by rw [List.mem_map]; exact ⟨p, hp, h⟩)
  simp [this]

theorem attrs_update_append (b a : Attrs) (h : (a.map (·.1) ++ b.map (·.1)).Nodup) : Attrs.update a b = a ++ b := by
  unfold Attrs.update
  induction b generalizing a with
  | nil => simp
  | cons p t ih =>
    have hp : p.1 ∉ a.map (·.1) := by
      intro hp
      rw [List.nodup_append] at h
      exact h.2.2 p.1 hp p.1 (by simp) rfl
    simp only [List.foldl_cons]
    rw [attrs_set_fresh a p.1 p.2 hp, ih]
    · simp
    · simpa using h

theorem attrs_update_nil {b : Attrs} (h : AttrsWF b) : Attrs.update [] b = b := by
  rw [attrs_update_append b [] (by simpa [AttrsWF] using h)]; simp

theorem attrs_update_nil_right (a : Attrs) : Attrs.update a [] = a := rfl

theorem foldl_ins_noop {α : Type} [DecidableEq α] (ms acc : List α) (h : ∀ x ∈ ms, x ∈ acc) :
    ms.foldl (fun acc x => ins x acc) acc = acc := by
  induction ms with
  | nil => rfl
  | cons a t ih =>
    simp only [List.foldl_cons]
    have : ins a acc = acc := by unfold ins; simp [h a (by simp)]
    rw [this]; exact ih (fun x hx => h x (by simp [hx]))

/-! ### folds over attributed networks -/

theorem aAddNode_fresh (a : ANet) (n : PyId) (av : Attrs) (hn : n ∉ a.net.nodes) :
    aAddNode a n av = { a with net := { nodes := a.net.nodes ++ [n], edges := a.net.edges },
                               nattr := upd a.nattr n (Attrs.update [] av) } := by
  unfold aAddNode addNode ins; simp [hn]

theorem nodeFold_spec (ns : List PyId) (f : PyId → Attrs) (a0 : ANet) (hn : (a0.net.nodes ++ ns).Nodup) :
    (ns.foldl (fun a n => aAddNode a n (f n)) a0).net.nodes = a0.net.nodes ++ ns ∧
    (ns.foldl (fun a n => aAddNode a n (f n)) a0).net.edges = a0.net.edges ∧
    (ns.foldl (fun a n => aAddNode a n (f n)) a0).eattr = a0.eattr ∧
    (ns.foldl (fun a n => aAddNode a n (f n)) a0).gattr = a0.gattr ∧
    (ns.foldl (fun a n => aAddNode a n (f n)) a0).cls = a0.cls ∧
    (∀ n ∈ ns, (ns.foldl (fun a n => aAddNode a n (f n)) a0).nattr n = Attrs.update [] (f n)) ∧
    (∀ n, n ∉ ns → (ns.foldl (fun a n => aAddNode a n (f n)) a0).nattr n = a0.nattr n) := by
  induction ns generalizing a0 with
  | nil => simp
  | cons m t ih =>
    have hm : m ∉ a0.net.nodes := by
      intro hm
      rw [List.nodup_append] at hn
      exact hn.2.2 m hm m (by simp) rfl
    have hmt : m ∉ t := by
      rw [List.nodup_append] at hn
      have := hn.2.1
      simp only [List.nodup_cons] at this
      exact this.1
    simp only [List.foldl_cons]
    rw [aAddNode_fresh a0 m (f m) hm]
    obtain ⟨i1, i2, i3, i4, i5, i6, i7⟩ := ih
      { a0 with net := { nodes := a0.net.nodes ++ [m], edges := a0.net.edges },
                nattr := upd a0.nattr m (Attrs.update [] (f m)) } (by simpa using hn)
    refine ⟨by rw [i1]; simp, i2, i3, i4, i5, ?_, ?_⟩
    · intro n hn'
      simp only [List.mem_cons] at hn'
      rcases hn' with rfl | hn'
      · rw [i7 n hmt]; simp
      · exact i6 n hn'
    · intro n hn'
      simp only [List.mem_cons, not_or] at hn'
      rw [i7 n hn'.2]; simp [hn'.1]

theorem aAddEdge_fresh (a : ANet) (e : PyId) (ms : List PyId) (av : Attrs) (he : e ∉ a.net.edgeIds)
    (hm : ∀ x ∈ ms, x ∈ a.net.nodes) :
    aAddEdge a e ms av = { a with net := { nodes := a.net.nodes, edges := a.net.edges ++ [(e, dedup ms)] },
                                  eattr := upd a.eattr e (Attrs.update [] av) } := by
  unfold aAddEdge; simp only [he, if_false]
  rw [addEdge_fresh _ _ _ he, foldl_ins_noop ms _ hm]

theorem edgeFold_spec {β : Type} (es : List β) (k : β → PyId) (m : β → List PyId) (g : β → Attrs) (a0 : ANet)
    (hn : (a0.net.edgeIds ++ es.map k).Nodup) (hm : ∀ p ∈ es, ∀ x ∈ m p, x ∈ a0.net.nodes) :
    (es.foldl (fun a p => aAddEdge a (k p) (m p) (g p)) a0).net.nodes = a0.net.nodes ∧
    (es.foldl (fun a p => aAddEdge a (k p) (m p) (g p)) a0).net.edges = a0.net.edges ++ es.map (fun p => (k p, dedup (m p))) ∧
    (es.foldl (fun a p => aAddEdge a (k p) (m p) (g p)) a0).nattr = a0.nattr ∧
    (es.foldl (fun a p => aAddEdge a (k p) (m p) (g p)) a0).gattr = a0.gattr ∧
    (es.foldl (fun a p => aAddEdge a (k p) (m p) (g p)) a0).cls = a0.cls ∧
    (∀ p ∈ es, (es.foldl (fun a p => aAddEdge a (k p) (m p) (g p)) a0).eattr (k p) = Attrs.update [] (g p)) ∧
    (∀ e, e ∉ es.map k → (es.foldl (fun a p => aAddEdge a (k p) (m p) (g p)) a0).eattr e = a0.eattr e) := by
  induction es generalizing a0 with
  | nil => simp
  | cons q t ih =>
    have hq : k q ∉ a0.net.edgeIds := by
      intro hq
      rw [List.nodup_append] at hn
      exact hn.2.2 _ hq (k q) (by simp) rfl
    have hqt : k q ∉ t.map k := by
      rw [List.nodup_append] at hn
      have := hn.2.1
      simp only [List.map_cons, List.nodup_cons] at this
      exact this.1
    simp only [List.foldl_cons]
    rw [aAddEdge_fresh a0 (k q) (m q) (g q) hq (hm q (by simp))]
    obtain ⟨i1, i2, i3, i4, i5, i6, i7⟩ := ih
      { a0 with net := { nodes := a0.net.nodes, edges := a0.net.edges ++ [(k q, dedup (m q))] },
                eattr := upd a0.eattr (k q) (Attrs.update [] (g q)) }
      (by simpa [Net.edgeIds] using hn) (fun p hp => hm p (by simp [hp]))
    refine ⟨i1, by rw [i2]; simp, i3, i4, i5, ?_, ?_⟩
    · intro p hp
      simp only [List.mem_cons] at hp
      rcases hp with rfl | hp
      · rw [i7 _ hqt]; simp
      · exact i6 p hp
    · intro e he
      simp only [List.map_cons, List.mem_cons, not_or] at he
      rw [i7 e he.2]; simp [he.1]

theorem setEdgeAttrFold_spec (es : List PyId) (f : PyId → Attrs) (a0 : ANet)
    (hn : es.Nodup) (hp : ∀ e ∈ es, e ∈ a0.net.edgeIds) :
    (es.foldl (fun a e => aSetEdgeAttr a e (f e)) a0).net = a0.net ∧
    (es.foldl (fun a e => aSetEdgeAttr a e (f e)) a0).nattr = a0.nattr ∧
    (es.foldl (fun a e => aSetEdgeAttr a e (f e)) a0).gattr = a0.gattr ∧
    (es.foldl (fun a e => aSetEdgeAttr a e (f e)) a0).cls = a0.cls ∧
    (∀ e ∈ es, (es.foldl (fun a e => aSetEdgeAttr a e (f e)) a0).eattr e = Attrs.update (a0.eattr e) (f e)) ∧
    (∀ e, e ∉ es → (es.foldl (fun a e => aSetEdgeAttr a e (f e)) a0).eattr e = a0.eattr e) := by
  induction es generalizing a0 with
  | nil => simp
  | cons q t ih =>
    simp only [List.nodup_cons] at hn
    have hq : q ∈ a0.net.edgeIds := hp q (by simp)
    simp only [List.foldl_cons]
    have h1 : aSetEdgeAttr a0 q (f q) = { a0 with eattr := upd a0.eattr q (Attrs.update (a0.eattr q) (f q)) } := by
      unfold aSetEdgeAttr; simp [hq]
    rw [h1]
    obtain ⟨i1, i2, i3, i4, i5, i6⟩ := ih { a0 with eattr := upd a0.eattr q (Attrs.update (a0.eattr q) (f q)) }
      hn.2 (fun e he => hp e (by simp [he]))
    refine ⟨i1, i2, i3, i4, ?_, ?_⟩
    · intro e he
      simp only [List.mem_cons] at he
      rcases he with rfl | he
      · rw [i6 _ hn.1]; simp
      · rw [i5 e he]
        have : e ≠ q := fun h => hn.1 (h ▸ he)
        simp [this]
    · intro e he
      simp only [List.mem_cons, not_or] at he
      rw [i6 e he.2]; simp [he.1]

theorem mapO_eq {α β : Type} (f : α → Option β) (g : α → β) (l : List α) (h : ∀ x ∈ l, f x = some (g x)) :
    mapO f l = some (l.map g) := by
  induction l with
  | nil => rfl
  | cons a t ih =>
    simp only [mapO, h a (by simp), ih (fun x hx => h x (by simp [hx])), List.map_cons]

theorem mapE_eq {α β : Type} (f : α → Except Err β) (g : α → β) (l : List α) (h : ∀ x ∈ l, f x = .ok (g x)) :
    mapE f l = .ok (l.map g) := by
  induction l with
  | nil => rfl
  | cons a t ih =>
    simp only [mapE, h a (by simp), ih (fun x hx => h x (by simp [hx])), List.map_cons]

theorem sortIds_perm {l l' : List PyId} (h : sortIds l = some l') : l'.Perm l := by
  unfold sortIds at h
  split at h
  · simp only [Option.some.injEq] at h; subst h; exact List.Perm.refl _
  · split at h
    · simp only [Option.some.injEq] at h; subst h; exact List.mergeSort_perm _ _
    · split at h
      · simp only [Option.some.injEq] at h; subst h; exact List.mergeSort_perm _ _
      · simp at h

theorem mapE_map_eq {α β γ : Type} (f : β → Except Err γ) (c : α → β) (g : α → γ) (l : List α)
    (h : ∀ x ∈ l, f (c x) = .ok (g x)) : mapE f (l.map c) = .ok (l.map g) := by
  induction l with
  | nil => rfl
  | cons a t ih =>
    simp only [List.map_cons, mapE, h a (by simp), ih (fun x hx => h x (by simp [hx]))]

theorem nodup_map_of_leftInv {l : List PyId} (c : PyId → String) (u : String → Except Err PyId)
    (hu : ∀ x ∈ l, u (c x) = .ok x) (hn : l.Nodup) : (l.map c).Nodup := by
  induction l with
  | nil => simp
  | cons a t ih =>
    simp only [List.nodup_cons] at hn
    simp only [List.map_cons, List.nodup_cons, List.mem_map, not_exists, not_and]
    refine ⟨fun b hb hcb => ?_, ih (fun x hx => hu x (by simp [hx])) hn.2⟩
    have h1 := hu a (by simp)
    have h2 := hu b (by simp [hb])
    rw [← hcb, h2] at h1
    simp only [Except.ok.injEq] at h1
    exact hn.1 (h1 ▸ hb)

/-- attribute dicts of a network have distinct keys (they are Python dicts) -/
structure AWF (a : ANet) : Prop where
  net : a.net.WF
  g : AttrsWF a.gattr
  n : ∀ n ∈ a.net.nodes, AttrsWF (a.nattr n)
  e : ∀ e ∈ a.net.edgeIds, AttrsWF (a.eattr e)

/-! ### the concrete string casts of the driver (`strCast`, `uncastInt`, `uncastStr`) -/

/-- `int(str(i)) == i` -/
theorem toInt?_toString (i : Int) : (toString i).toInt? = some i := by
  simp only [Int.toString_eq_repr, Int.toInt?_repr]

theorem uncastInt_strCast (i : Int) : uncastInt (strCast (.int i)) = .ok (.int i) := by
  simp only [uncastInt, strCast, toInt?_toString]

theorem uncastStr_strCast (s : String) : uncastStr (strCast (.str s)) = .ok (.str s) := rfl

/-- the reader's cast undoes `str` on an ID of the type the reader is told to expect -/
theorem uncast_strCast (t : IdType) (x : PyId) (h : t.Holds x) : t.uncast (strCast x) = .ok x := by
  cases t
  · obtain ⟨i, rfl⟩ := h; exact uncastInt_strCast i
  · obtain ⟨s, rfl⟩ := h; exact uncastStr_strCast s

/-- a member list whose IDs all have one type can be sorted -/
theorem sortIds_isSome_of_holds (t : IdType) (l : List PyId) (h : ∀ x ∈ l, t.Holds x) : (sortIds l).isSome = true := by
  unfold sortIds
  split
  · rfl
  · cases t
    · have : l.all (fun x => (atomInt? x).isSome) = true := by
        rw [List.all_eq_true]; intro x hx; obtain ⟨i, rfl⟩ := h x hx; rfl
      simp only [this, if_true, Option.isSome_some]
    · have : l.all (fun x => (atomStr? x).isSome) = true := by
        rw [List.all_eq_true]; intro x hx; obtain ⟨i, rfl⟩ := h x hx; rfl
      simp only [this, if_true]
      split <;> rfl

/-- colliding string casts are refused with the library's error (`XGIError`); restates the two guards of
    `toHypergraphDict` (kept as a lemma, not a property theorem) -/
theorem hypergraphDict_collision (cast : PyId → String) (a : ANet)
    (h : ¬ (a.net.nodes.map cast).Nodup ∨ ¬ (a.net.edgeIds.map cast).Nodup) :
    toHypergraphDict cast a = .error .lib := by
  unfold toHypergraphDict
  by_cases h1 : (a.net.nodes.map cast).Nodup
  · rcases h with h | h
    · exact absurd h1 h
    · simp [h1, h]
  · simp [h1]

/-- no conversion from an undirected network to a directed one is offered (`XGIError`); definitional -/
theorem ofClass_dhg_of_undirected (a : ANet) : ofClass (.inl a) .dhg = .error .lib := rfl

/-- a DiHypergraph comes back from HIF as a DiHypergraph; definitional (`match d.ntype`) -/
theorem hif_class_directed (a : ADiNet) : ∃ r, fromHif (toHifDi a) = .inr r :=
  ⟨fromHifD (toHifDi a), by unfold fromHif; simp [toHifDi]⟩

/-! ### HIF -/

theorem addNode_of_mem (h : Net) (n : PyId) (hn : n ∈ h.nodes) : addNode h n = h := by
  unfold addNode ins; simp [hn]

theorem aAddNode_of_nil (a : ANet) (n : PyId) (av : Attrs) (h0 : a.nattr n = []) :
    aAddNode a n av = { a with net := addNode a.net n, nattr := upd a.nattr n (Attrs.update [] av) } := by
  unfold aAddNode
  split
  · rename_i hn; rw [addNode_of_mem _ _ hn, h0]
  · rfl

/-- the node-record loop of `from_hif_dict` -/
theorem nodeRecFold_spec (ns : List PyId) (f : PyId → Attrs) (a0 : ANet) (hk : ns.Nodup)
    (h0 : ∀ n ∈ ns, a0.nattr n = []) :
    (∀ n, n ∈ (ns.foldl (fun a n => aAddNode a n (f n)) a0).net.nodes ↔ n ∈ a0.net.nodes ∨ n ∈ ns) ∧
    (ns.foldl (fun a n => aAddNode a n (f n)) a0).net.edges = a0.net.edges ∧
    (ns.foldl (fun a n => aAddNode a n (f n)) a0).eattr = a0.eattr ∧
    (ns.foldl (fun a n => aAddNode a n (f n)) a0).gattr = a0.gattr ∧
    (ns.foldl (fun a n => aAddNode a n (f n)) a0).cls = a0.cls ∧
    (∀ n ∈ ns, (ns.foldl (fun a n => aAddNode a n (f n)) a0).nattr n = Attrs.update [] (f n)) ∧
    (∀ n, n ∉ ns → (ns.foldl (fun a n => aAddNode a n (f n)) a0).nattr n = a0.nattr n) ∧
    (a0.net.nodes.Nodup → (ns.foldl (fun a n => aAddNode a n (f n)) a0).net.nodes.Nodup) := by
  induction ns generalizing a0 with
  | nil => simp
  | cons m t ih =>
    simp only [List.nodup_cons] at hk
    simp only [List.foldl_cons]
    rw [aAddNode_of_nil a0 m (f m) (h0 m (by simp))]
    obtain ⟨i1, i2, i3, i4, i5, i6, i7, i8⟩ := ih
      { a0 with net := addNode a0.net m, nattr := upd a0.nattr m (Attrs.update [] (f m)) } hk.2
      (fun n hn => by
        have : n ≠ m := fun h => hk.1 (h ▸ hn)
        simp only [upd_apply, this, if_false]; exact h0 n (by simp [hn]))
    refine ⟨?_, i2, i3, i4, i5, ?_, ?_, ?_⟩
    · intro n; rw [i1 n]; simp only [addNode, mem_ins, List.mem_cons]
      constructor
      · rintro ((h | h) | h)
        · exact Or.inr (Or.inl h)
        · exact Or.inl h
        · exact Or.inr (Or.inr h)
      · rintro (h | h | h)
        · exact Or.inl (Or.inr h)
        · exact Or.inl (Or.inl h)
        · exact Or.inr h
    · intro n hn
      simp only [List.mem_cons] at hn
      rcases hn with rfl | hn
      · rw [i7 n hk.1]; simp
      · exact i6 n hn
    · intro n hn
      simp only [List.mem_cons, not_or] at hn
      rw [i7 n hn.2]; simp [hn.1]
    · intro hnd; exact i8 (by simp only [addNode]; exact nodup_ins hnd)

/-- one step of the edge-record loop of `from_hif_dict` -/
def edgeRecStep (f : PyId → Attrs) (a : ANet) (e : PyId) : ANet :=
  if e ∈ a.net.edgeIds then aSetEdgeAttr a e (f e) else aAddEdge a e [] (f e)

theorem edgeRecStep_of_nil (f : PyId → Attrs) (a : ANet) (e : PyId) (h0 : a.eattr e = []) :
    edgeRecStep f a e = { a with net := ensureEdge a.net e, eattr := upd a.eattr e (Attrs.update [] (f e)) } := by
  unfold edgeRecStep
  split
  · rename_i he
    unfold aSetEdgeAttr ensureEdge; simp [he, h0]
  · rename_i he
    unfold aAddEdge ensureEdge; simp only [he, if_false]
    rw [addEdge_fresh _ _ _ he]
    simp [dedup]

theorem inc_ensureEdge (h : Net) (e n e' : PyId) : Inc (ensureEdge h e) n e' ↔ Inc h n e' := by
  unfold ensureEdge Inc
  split
  · rfl
  · simp only [List.mem_append, List.mem_singleton]
    constructor
    · rintro ⟨p, (hp | rfl), h1, h2⟩
      · exact ⟨p, hp, h1, h2⟩
      · simp at h2
    · rintro ⟨p, hp, h1, h2⟩; exact ⟨p, Or.inl hp, h1, h2⟩

theorem wf_ensureEdge {h : Net} (hw : h.WF) (e : PyId) : (ensureEdge h e).WF := by
  obtain ⟨h1, h2, h3⟩ := hw
  refine ⟨by simpa using h1, ?_, ?_⟩
  · have := edgeIds_ensureEdge h e
    unfold Net.edgeIds at this; rw [this]; exact nodup_ins h2
  · intro p hp
    rw [nodes_ensureEdge]
    unfold ensureEdge at hp
    split at hp
    · exact h3 p hp
    · simp only [List.mem_append, List.mem_singleton] at hp
      rcases hp with hp | rfl
      · exact h3 p hp
      · simp

theorem edgeRecFold_spec (es : List PyId) (f : PyId → Attrs) (a0 : ANet) (hk : es.Nodup)
    (h0 : ∀ e ∈ es, a0.eattr e = []) :
    (∀ e, e ∈ (es.foldl (edgeRecStep f) a0).net.edgeIds ↔ e ∈ a0.net.edgeIds ∨ e ∈ es) ∧
    (es.foldl (edgeRecStep f) a0).net.nodes = a0.net.nodes ∧
    (∀ n e, Inc (es.foldl (edgeRecStep f) a0).net n e ↔ Inc a0.net n e) ∧
    (es.foldl (edgeRecStep f) a0).nattr = a0.nattr ∧
    (es.foldl (edgeRecStep f) a0).gattr = a0.gattr ∧
    (es.foldl (edgeRecStep f) a0).cls = a0.cls ∧
    (∀ e ∈ es, (es.foldl (edgeRecStep f) a0).eattr e = Attrs.update [] (f e)) ∧
    (∀ e, e ∉ es → (es.foldl (edgeRecStep f) a0).eattr e = a0.eattr e) ∧
    (a0.net.WF → (es.foldl (edgeRecStep f) a0).net.WF) := by
  induction es generalizing a0 with
  | nil => simp
  | cons m t ih =>
    simp only [List.nodup_cons] at hk
    simp only [List.foldl_cons]
    rw [edgeRecStep_of_nil f a0 m (h0 m (by simp))]
    obtain ⟨i1, i2, i3, i4, i5, i6, i7, i8, i9⟩ := ih
      { a0 with net := ensureEdge a0.net m, eattr := upd a0.eattr m (Attrs.update [] (f m)) } hk.2
      (fun e he => by
        have : e ≠ m := fun h => hk.1 (h ▸ he)
        simp only [upd_apply, this, if_false]; exact h0 e (by simp [he]))
    refine ⟨?_, by rw [i2]; simp, ?_, i4, i5, i6, ?_, ?_, ?_⟩
    · intro e; rw [i1 e]; simp only [edgeIds_ensureEdge, mem_ins, List.mem_cons]
      constructor
      · rintro ((h | h) | h)
        · exact Or.inr (Or.inl h)
        · exact Or.inl h
        · exact Or.inr (Or.inr h)
      · rintro (h | h | h)
        · exact Or.inl (Or.inr h)
        · exact Or.inl (Or.inl h)
        · exact Or.inr h
    · intro n e; rw [i3 n e]; exact inc_ensureEdge _ _ _ _
    · intro e he
      simp only [List.mem_cons] at he
      rcases he with rfl | he
      · rw [i8 e hk.1]; simp
      · exact i7 e he
    · intro e he
      simp only [List.mem_cons, not_or] at he
      rw [i8 e he.2]; simp [he.1]
    · intro hwf; exact i9 (wf_ensureEdge hwf m)

theorem aLinkFold_eq (rows : List (PyId × PyId)) (a0 : ANet) :
    rows.foldl (fun a r => aLink a r.2 r.1) a0 = { a0 with net := linkAll rows a0.net } := by
  induction rows generalizing a0 with
  | nil => rfl
  | cons r t ih => simp only [List.foldl_cons]; rw [ih]; rfl

theorem recOf_getD (av : Attrs) : (recOf av).getD [] = av := by
  unfold recOf; split <;> simp_all

theorem hifNodeStep_eq (a : ANet) (n : PyId) (av : Attrs) :
    (if n ∈ a.net.nodes then aSetNodeAttr a n av else aAddNode a n av) = aAddNode a n av := by
  unfold aSetNodeAttr aAddNode; split <;> rfl

theorem upd_upd {κ β : Type} [DecidableEq κ] (f : κ → β) (k : κ) (x y : β) : upd (upd f k x) k y = upd f k y := by
  funext j; simp only [upd_apply]; split <;> rfl

theorem upd_self {κ β : Type} [DecidableEq κ] (f : κ → β) (k : κ) : upd f k (f k) = f := by
  funext j; simp only [upd_apply]; split
  · rename_i h; rw [h]
  · rfl

/-- the repaired node-record step of `from_hif_dict` (bare `add_node` when absent, then
    `set_node_attributes`) is the step of the unrepaired code with `**attr` read as a dict -/
theorem hifNodeRec_eq (a : ANet) (n : PyId) (av : Attrs) : hifNodeRec a n av = aAddNode a n av := by
  unfold hifNodeRec
  split
  · rename_i hn; unfold aSetNodeAttr aAddNode; simp only [hn, if_true]
  · rename_i hn
    unfold aSetNodeAttr aAddNode
    simp only [hn, if_false, addNode, mem_ins, true_or, if_true, upd_apply, attrs_update_nil_right, upd_upd]

/-- the repaired edge-record step of `from_hif_dict` (bare `add_edge` when absent, then
    `set_edge_attributes`) is the step of the unrepaired code with `**attr` read as a dict -/
theorem hifEdgeRec_eq (a : ANet) (e : PyId) (av : Attrs) :
    hifEdgeRec a e av = if e ∈ a.net.edgeIds then aSetEdgeAttr a e av else aAddEdge a e [] av := by
  unfold hifEdgeRec
  split
  · rfl
  · rename_i he
    have h1 : e ∈ (addEdge a.net e []).edgeIds := by
      rw [addEdge_fresh _ _ _ he]; simp [Net.edgeIds]
    unfold aSetEdgeAttr aAddEdge
    simp only [he, if_false, h1, if_true, upd_apply, attrs_update_nil_right, upd_upd]

/-- the repaired node step of `from_hypergraph_dict` (`add_node(idx)` then `set_node_attributes`) -/
theorem hdNodeRec_eq (a : ANet) (n : PyId) (av : Attrs) : hdNodeRec a n av = aAddNode a n av := by
  unfold hdNodeRec
  by_cases hn : n ∈ a.net.nodes
  · unfold aSetNodeAttr aAddNode
    simp only [hn, if_true, attrs_update_nil_right, upd_self]
  · unfold aSetNodeAttr aAddNode
    simp only [hn, if_false, addNode, mem_ins, true_or, if_true, upd_apply, attrs_update_nil_right, upd_upd]

theorem isolated_iff (h : Net) (n : PyId) : isolated h n = true ↔ ¬ ∃ e, Inc h n e := by
  unfold isolated Inc
  simp only [List.all_eq_true, decide_eq_true_eq]
  constructor
  · rintro h1 ⟨e, p, hp, _, hn⟩; exact h1 p hp hn
  · intro h1 p hp hn; exact h1 ⟨p.1, p, hp, rfl, hn⟩


theorem foldl_preserve {α β γ : Type} (f : α → β → α) (proj : α → γ) (h : ∀ a b, proj (f a b) = proj a)
    (l : List β) (a : α) : proj (l.foldl f a) = proj a := by
  induction l generalizing a with
  | nil => rfl
  | cons b t ih => simp only [List.foldl_cons]; rw [ih, h]

theorem cls_aAddNode (a : ANet) (n : PyId) (av : Attrs) : (aAddNode a n av).cls = a.cls := by
  unfold aAddNode; split <;> rfl
theorem cls_aAddEdge (a : ANet) (e : PyId) (ms : List PyId) (av : Attrs) : (aAddEdge a e ms av).cls = a.cls := by
  unfold aAddEdge; split <;> rfl
theorem cls_scStep (s : SCState) (e : PyId) (ms : List PyId) (av : Attrs) : (scStep s e ms av).a.cls = s.a.cls := by
  unfold scStep; split
  · rfl
  · split
    · rfl
    · exact cls_aAddEdge _ _ _ _
theorem cls_addFace (s : ANet × Nat) (f : List PyId) : (addFace s f).1.cls = s.1.cls := by
  unfold addFace; split <;> rfl

theorem cls_toSimplicialComplex (src : ANet) : (toSimplicialComplex src).cls = .sc := by
  unfold toSimplicialComplex
  simp only
  rw [foldl_preserve addFace (fun s => s.1.cls) cls_addFace]
  simp only
  rw [foldl_preserve (fun s (p : PyId × List PyId) => scStep s p.1 p.2 (src.eattr p.1)) (fun s => s.a.cls)
    (fun s p => cls_scStep s p.1 p.2 _)]
  simp only
  rw [foldl_preserve (fun a n => aAddNode a n (src.nattr n)) (fun a => a.cls) (fun a n => cls_aAddNode a n _)]
  rfl

theorem foldl_inv {α β : Type} (P : α → Prop) (f : α → β → α) (h : ∀ a b, P a → P (f a b))
    (l : List β) (a : α) (ha : P a) : P (l.foldl f a) := by
  induction l generalizing a with
  | nil => exact ha
  | cons b t ih => exact ih _ (h a b ha)

theorem cls_fromHifU (d : Hif) : (fromHifU d).cls = .hg := by
  unfold fromHifU
  simp only
  refine foldl_inv (fun (a : ANet) => a.cls = Cls.hg) _ (fun a r ha => ?_) _ _ ?_
  · rw [hifEdgeRec_eq]
    split
    · unfold aSetEdgeAttr; split <;> exact ha
    · rw [cls_aAddEdge]; exact ha
  refine foldl_inv (fun (a : ANet) => a.cls = Cls.hg) _ (fun a r ha => ?_) _ _ ?_
  · rw [hifNodeRec_eq, cls_aAddNode]; exact ha
  refine foldl_inv (fun (a : ANet) => a.cls = Cls.hg) _ (fun a r ha => ?_) _ _ ?_
  · exact ha
  · rfl

/-! ### class-to-class -/

theorem mem_union (t hd : List PyId) (x : PyId) : x ∈ union t hd ↔ x ∈ t ∨ x ∈ hd := by
  unfold union; exact foldl_ins_mem hd t x

theorem nodup_union {t : List PyId} (hd : List PyId) (h : t.Nodup) : (union t hd).Nodup := by
  unfold union; exact foldl_ins_nodup hd t h

/-- attribute dicts of a directed network have distinct keys -/
structure ADWF (a : ADiNet) : Prop where
  net : DWF a.net
  g : AttrsWF a.gattr
  n : ∀ n ∈ a.net.nodes, AttrsWF (a.nattr n)
  e : ∀ e ∈ dEdgeIds a.net, AttrsWF (a.eattr e)

theorem awf_flat {a : ADiNet} (hw : ADWF a) (c : Cls) : AWF (a.flat c) := by
  obtain ⟨⟨w1, w2, w3⟩, wg, wn, we⟩ := hw
  refine ⟨⟨w1, ?_, ?_⟩, wg, wn, ?_⟩
  · simp only [ADiNet.flat, dFlat, List.map_map]; exact w2
  · intro p hp
    simp only [ADiNet.flat, dFlat, List.mem_map] at hp
    obtain ⟨q, hq, rfl⟩ := hp
    obtain ⟨q1, q2, q3, q4⟩ := w3 q hq
    refine ⟨nodup_union _ q1, fun n hn => ?_⟩
    rw [mem_union] at hn
    rcases hn with hn | hn
    · exact q3 n hn
    · exact q4 n hn
  · intro e he
    apply we
    simpa [ADiNet.flat, dFlat, Net.edgeIds, dEdgeIds, List.map_map] using he

theorem toHypergraph_spec (src : ANet) (hw : AWF src) :
    (toHypergraph src).net = src.net ∧ (toHypergraph src).cls = .hg ∧ (toHypergraph src).gattr = src.gattr ∧
    (∀ n ∈ src.net.nodes, (toHypergraph src).nattr n = src.nattr n) ∧
    (∀ e ∈ src.net.edgeIds, (toHypergraph src).eattr e = src.eattr e) := by
  obtain ⟨⟨w1, w2, w3⟩, wg, wn, we⟩ := hw
  unfold toHypergraph
  simp only
  obtain ⟨n1, n2, n3, n4, n5, n6, _⟩ := nodeFold_spec src.net.nodes src.nattr (emptyANet .hg) (by simpa [emptyANet, emptyNet] using w1)
  generalize (src.net.nodes.foldl (fun a n => aAddNode a n (src.nattr n)) (emptyANet .hg)) = a1 at n1 n2 n3 n4 n5 n6 ⊢
  simp only [emptyANet, emptyNet, List.nil_append] at n1 n2 n3 n5
  obtain ⟨m1, m2, m3, m4, m5, m6, _⟩ := edgeFold_spec src.net.edges (·.1) (·.2) (fun p => src.eattr p.1) a1
    (by simp only [Net.edgeIds, n2, List.map_nil, List.nil_append]; exact w2)
    (fun p hp x hx => by rw [n1]; exact (w3 p hp).2 x hx)
  generalize (src.net.edges.foldl (fun a p => aAddEdge a p.1 p.2 (src.eattr p.1)) a1) = a2 at m1 m2 m3 m4 m5 m6 ⊢
  rw [n2, List.nil_append] at m2
  have hedges : a2.net.edges = src.net.edges := by
    rw [m2]
    conv => rhs; rw [← List.map_id src.net.edges]
    apply List.map_congr_left
    intro p hp
    rw [dedup_of_nodup (w3 p hp).1]; rfl
  refine ⟨?_, by rw [m5, n5], trivial, ?_, ?_⟩
  · show a2.net = src.net
    have e1 : a2.net.nodes = src.net.nodes := by rw [m1, n1]
    cases hx : a2.net with
    | mk ns es =>
      cases hy : src.net with
      | mk ns' es' =>
        rw [hx] at e1 hedges; rw [hy] at e1 hedges
        simp only at e1 hedges
        rw [e1, hedges]
  · intro n hn
    show a2.nattr n = _
    rw [m3, n6 n hn, attrs_update_nil (wn n hn)]
  · intro e he
    show a2.eattr e = _
    unfold Net.edgeIds at he; rw [List.mem_map] at he
    obtain ⟨p, hp, rfl⟩ := he
    rw [m6 p hp, attrs_update_nil (we p.1 (by unfold Net.edgeIds; rw [List.mem_map]; exact ⟨p, hp, rfl⟩))]

/-! ### simplicial-complex target -/

theorem mem_subs {α : Type} (l f : List α) : f ∈ subs l ↔ f.Sublist l := by
  induction l generalizing f with
  | nil => simp [subs]
  | cons a t ih =>
    simp only [subs, List.mem_append, List.mem_map, ih]
    constructor
    · rintro (h | ⟨g, hg, rfl⟩)
      · exact List.Sublist.cons a h
      · exact List.Sublist.cons_cons a hg
    · intro h
      cases h with
      | cons _ h => exact Or.inl h
      | cons_cons _ h => exact Or.inr ⟨_, h, rfl⟩

theorem mem_subfaces (ms f : List PyId) : f ∈ subfaces ms ↔ f.Sublist ms ∧ 2 ≤ f.length ∧ f.length < ms.length := by
  unfold subfaces; simp [mem_subs]

theorem sameSet_iff (x y : List PyId) : sameSet x y = true ↔ ∀ z, z ∈ x ↔ z ∈ y := by
  unfold sameSet
  simp only [Bool.and_eq_true, List.all_eq_true, decide_eq_true_eq]
  constructor
  · rintro ⟨h1, h2⟩ z; exact ⟨h1 z, h2 z⟩
  · intro h; exact ⟨fun z hz => (h z).mp hz, fun z hz => (h z).mpr hz⟩

theorem hasSimplex_iff (es : List (PyId × List PyId)) (ms : List PyId) :
    hasSimplex es ms = true ↔ ∃ q ∈ es, ∀ z, z ∈ q.2 ↔ z ∈ ms := by
  unfold hasSimplex; simp [sameSet_iff]

theorem hasSimplex_mono {es es' : List (PyId × List PyId)} (h : ∀ q ∈ es, q ∈ es') {ms : List PyId}
    (hs : hasSimplex es ms = true) : hasSimplex es' ms = true := by
  rw [hasSimplex_iff] at hs ⊢
  obtain ⟨q, hq, h1⟩ := hs
  exact ⟨q, h q hq, h1⟩

/-- all non-negative integer IDs in use are below the counter -/
def Fresh (es : List (PyId × List PyId)) (uid : Nat) : Prop := ∀ i : Nat, PyId.int (i : Nat) ∈ es.map (·.1) → i < uid

theorem fresh_bump {es : List (PyId × List PyId)} {uid : Nat} (h : Fresh es uid) (e : PyId) (ms : List PyId) :
    Fresh (es ++ [(e, ms)]) (bump uid e) := by
  intro i hi
  simp only [List.map_append, List.map_cons, List.map_nil, List.mem_append, List.mem_singleton] at hi
  have hmono : uid ≤ bump uid e := by
    unfold bump; split
    · split <;> omega
    · exact Nat.le_refl _
  rcases hi with hi | hi
  · exact Nat.lt_of_lt_of_le (h i hi) hmono
  · subst hi
    simp only [bump]
    split <;> omega

theorem hasSimplex_self (es : List (PyId × List PyId)) (q : PyId × List PyId) (hq : q ∈ es) : hasSimplex es q.2 = true := by
  rw [hasSimplex_iff]; exact ⟨q, hq, fun _ => Iff.rfl⟩

theorem addFace_skip (s : ANet × Nat) (f : List PyId) (h : f = [] ∨ hasSimplex s.1.net.edges f = true) : addFace s f = s := by
  unfold addFace; simp [h]

theorem addFace_add (a : ANet) (uid : Nat) (f : List PyId) (h1 : f ≠ []) (h2 : hasSimplex a.net.edges f = false)
    (hf : Fresh a.net.edges uid) (hn : ∀ x ∈ f, x ∈ a.net.nodes) (hd : f.Nodup) :
    addFace (a, uid) f = ({ a with net := { nodes := a.net.nodes, edges := a.net.edges ++ [(PyId.int (uid : Nat), f)] },
                                   eattr := upd a.eattr (PyId.int (uid : Nat)) [] }, uid + 1) := by
  have hid : PyId.int (uid : Nat) ∉ a.net.edgeIds := fun h => Nat.lt_irrefl _ (hf uid h)
  unfold addFace
  simp only [h1, h2, false_or, Bool.false_eq_true, if_false]
  rw [addEdge_fresh _ _ _ hid, foldl_ins_noop f _ hn, dedup_of_nodup hd]

theorem faceFold_spec (faces : List (List PyId)) (a : ANet) (uid : Nat)
    (hf : Fresh a.net.edges uid) (hn : ∀ f ∈ faces, ∀ x ∈ f, x ∈ a.net.nodes) (hd : ∀ f ∈ faces, f.Nodup) :
    (∀ q ∈ a.net.edges, q ∈ (faces.foldl addFace (a, uid)).1.net.edges) ∧
    (∀ f ∈ faces, f ≠ [] → hasSimplex (faces.foldl addFace (a, uid)).1.net.edges f = true) ∧
    (∀ q ∈ (faces.foldl addFace (a, uid)).1.net.edges, q ∈ a.net.edges ∨
        (q.2 ∈ faces ∧ (faces.foldl addFace (a, uid)).1.eattr q.1 = [] ∧ q.1 ∉ a.net.edgeIds)) ∧
    (faces.foldl addFace (a, uid)).1.net.nodes = a.net.nodes ∧
    (faces.foldl addFace (a, uid)).1.nattr = a.nattr ∧
    (faces.foldl addFace (a, uid)).1.gattr = a.gattr ∧
    (∀ e ∈ a.net.edgeIds, (faces.foldl addFace (a, uid)).1.eattr e = a.eattr e) := by
  induction faces generalizing a uid with
  | nil => simp
  | cons f t ih =>
    simp only [List.foldl_cons]
    by_cases hskip : f = [] ∨ hasSimplex a.net.edges f = true
    · rw [addFace_skip (a, uid) f hskip]
      obtain ⟨i1, i2, i3, i4, i5, i6, i7⟩ := ih a uid hf (fun g hg => hn g (by simp [hg])) (fun g hg => hd g (by simp [hg]))
      refine ⟨i1, ?_, ?_, i4, i5, i6, i7⟩
      · intro g hg hne
        simp only [List.mem_cons] at hg
        rcases hg with rfl | hg
        · rcases hskip with h | h
          · exact absurd h hne
          · exact hasSimplex_mono i1 h
        · exact i2 g hg hne
      · intro q hq
        rcases i3 q hq with h | ⟨h1, h2, h3⟩
        · exact Or.inl h
        · exact Or.inr ⟨by simp [h1], h2, h3⟩
    · simp only [not_or, Bool.not_eq_true] at hskip
      rw [addFace_add a uid f hskip.1 hskip.2 hf (hn f (by simp)) (hd f (by simp))]
      have hf' : Fresh (a.net.edges ++ [(PyId.int (uid : Nat), f)]) (uid + 1) := by
        intro i hi
        simp only [List.map_append, List.map_cons, List.map_nil, List.mem_append, List.mem_singleton] at hi
        rcases hi with hi | hi
        · exact Nat.lt_succ_of_lt (hf i hi)
        · have := int_inj _ _ hi; omega
      obtain ⟨i1, i2, i3, i4, i5, i6, i7⟩ := ih
        { a with net := { nodes := a.net.nodes, edges := a.net.edges ++ [(PyId.int (uid : Nat), f)] },
                 eattr := upd a.eattr (PyId.int (uid : Nat)) [] } (uid + 1) hf'
        (fun g hg => hn g (by simp [hg])) (fun g hg => hd g (by simp [hg]))
      have hid : PyId.int (uid : Nat) ∉ a.net.edgeIds := fun h => Nat.lt_irrefl _ (hf uid h)
      refine ⟨fun q hq => i1 q (by simp [hq]), ?_, ?_, i4, i5, i6, ?_⟩
      · intro g hg hne
        simp only [List.mem_cons] at hg
        rcases hg with rfl | hg
        · exact hasSimplex_mono i1 (hasSimplex_self _ (PyId.int (uid : Nat), g) (by simp))
        · exact i2 g hg hne
      · intro q hq
        rcases i3 q hq with h | ⟨h1, h2, h3⟩
        · simp only [List.mem_append, List.mem_singleton] at h
          rcases h with h | rfl
          · exact Or.inl h
          · right
            refine ⟨by simp, ?_, hid⟩
            rw [i7 _ (by simp [Net.edgeIds])]; simp
        · right
          refine ⟨by simp [h1], h2, ?_⟩
          intro hq1; apply h3
          simp only [Net.edgeIds, List.map_append, List.mem_append] at hq1 ⊢
          exact Or.inl hq1
      · intro e he
        rw [i7 e (by simp only [Net.edgeIds, List.map_append, List.mem_append] at he ⊢; exact Or.inl he)]
        have : e ≠ PyId.int (uid : Nat) := fun h => hid (h ▸ he)
        simp [this]

theorem scStep_skip (s : SCState) (e : PyId) (ms : List PyId) (av : Attrs)
    (h : ms = [] ∨ hasSimplex s.a.net.edges ms = true) : scStep s e ms av = s := by
  unfold scStep; simp [h]

theorem scStep_add (s : SCState) (e : PyId) (ms : List PyId) (av : Attrs)
    (h1 : ms ≠ []) (h2 : hasSimplex s.a.net.edges ms = false) (h3 : e ∉ s.a.net.edgeIds)
    (hn : ∀ x ∈ ms, x ∈ s.a.net.nodes) (hd : ms.Nodup) :
    scStep s e ms av =
      { a := { s.a with net := { nodes := s.a.net.nodes, edges := s.a.net.edges ++ [(e, ms)] },
                        eattr := upd s.a.eattr e (Attrs.update [] av) },
        uid := bump s.uid e, faces := s.faces ++ subfaces ms } := by
  unfold scStep
  simp only [h1, h2, false_or, Bool.false_eq_true, if_false, h3]
  rw [aAddEdge_fresh _ _ _ _ h3 hn, dedup_of_nodup hd]

theorem edgeStage_spec (es : List (PyId × List PyId)) (g : PyId → Attrs) (s : SCState)
    (hk : (s.a.net.edgeIds ++ es.map (·.1)).Nodup)
    (hm : ∀ p ∈ es, p.2.Nodup ∧ ∀ x ∈ p.2, x ∈ s.a.net.nodes) (hf : Fresh s.a.net.edges s.uid) :
    (∀ q ∈ s.a.net.edges, q ∈ (es.foldl (fun s p => scStep s p.1 p.2 (g p.1)) s).a.net.edges) ∧
    (∀ q ∈ (es.foldl (fun s p => scStep s p.1 p.2 (g p.1)) s).a.net.edges, q ∈ s.a.net.edges ∨
        (q ∈ es ∧ (es.foldl (fun s p => scStep s p.1 p.2 (g p.1)) s).a.eattr q.1 = Attrs.update [] (g q.1))) ∧
    (∀ p ∈ es, p.2 ≠ [] → hasSimplex (es.foldl (fun s p => scStep s p.1 p.2 (g p.1)) s).a.net.edges p.2 = true) ∧
    (∀ f ∈ s.faces, f ∈ (es.foldl (fun s p => scStep s p.1 p.2 (g p.1)) s).faces) ∧
    (∀ q ∈ (es.foldl (fun s p => scStep s p.1 p.2 (g p.1)) s).a.net.edges, q ∈ s.a.net.edges ∨
        ∀ f ∈ subfaces q.2, f ∈ (es.foldl (fun s p => scStep s p.1 p.2 (g p.1)) s).faces) ∧
    (∀ f ∈ (es.foldl (fun s p => scStep s p.1 p.2 (g p.1)) s).faces, f ∈ s.faces ∨
        ∃ q ∈ (es.foldl (fun s p => scStep s p.1 p.2 (g p.1)) s).a.net.edges, f ∈ subfaces q.2) ∧
    Fresh (es.foldl (fun s p => scStep s p.1 p.2 (g p.1)) s).a.net.edges (es.foldl (fun s p => scStep s p.1 p.2 (g p.1)) s).uid ∧
    (es.foldl (fun s p => scStep s p.1 p.2 (g p.1)) s).a.net.nodes = s.a.net.nodes ∧
    (es.foldl (fun s p => scStep s p.1 p.2 (g p.1)) s).a.nattr = s.a.nattr ∧
    (es.foldl (fun s p => scStep s p.1 p.2 (g p.1)) s).a.gattr = s.a.gattr ∧
    (∀ e ∈ s.a.net.edgeIds, (es.foldl (fun s p => scStep s p.1 p.2 (g p.1)) s).a.eattr e = s.a.eattr e) := by
  induction es generalizing s with
  | nil =>
    simp only [List.foldl_nil, List.not_mem_nil, false_and, or_false, false_implies, implies_true, true_and, and_true]
    exact ⟨fun q hq => hq, fun q hq => hq, fun f hf' => hf', fun q hq => Or.inl hq, fun f hf' => Or.inl hf', hf⟩
  | cons p t ih =>
    have hp : p.1 ∉ s.a.net.edgeIds := by
      intro hp
      rw [List.nodup_append] at hk
      exact hk.2.2 _ hp p.1 (by simp) rfl
    have hkt : (s.a.net.edgeIds ++ t.map (·.1)).Nodup := by
      rw [List.nodup_append] at hk ⊢
      refine ⟨hk.1, ?_, fun a ha b hb => hk.2.2 a ha b (by simp [hb])⟩
      have := hk.2.1; simp only [List.map_cons, List.nodup_cons] at this; exact this.2
    simp only [List.foldl_cons]
    by_cases hskip : p.2 = [] ∨ hasSimplex s.a.net.edges p.2 = true
    · rw [scStep_skip s p.1 p.2 _ hskip]
      obtain ⟨i1, i2, i3, i4, i5, i6, i7, i8, i9, i10, i11⟩ := ih s hkt (fun q hq => hm q (by simp [hq])) hf
      refine ⟨i1, ?_, ?_, i4, i5, i6, i7, i8, i9, i10, i11⟩
      · intro q hq
        rcases i2 q hq with h | ⟨h1, h2⟩
        · exact Or.inl h
        · exact Or.inr ⟨by simp [h1], h2⟩
      · intro q hq hne
        simp only [List.mem_cons] at hq
        rcases hq with rfl | hq
        · rcases hskip with h | h
          · exact absurd h hne
          · exact hasSimplex_mono i1 h
        · exact i3 q hq hne
    · simp only [not_or, Bool.not_eq_true] at hskip
      obtain ⟨hpd, hpn⟩ := hm p (by simp)
      rw [scStep_add s p.1 p.2 _ hskip.1 hskip.2 hp hpn hpd]
      obtain ⟨i1, i2, i3, i4, i5, i6, i7, i8, i9, i10, i11⟩ := ih
        { a := { s.a with net := { nodes := s.a.net.nodes, edges := s.a.net.edges ++ [(p.1, p.2)] },
                          eattr := upd s.a.eattr p.1 (Attrs.update [] (g p.1)) },
          uid := bump s.uid p.1, faces := s.faces ++ subfaces p.2 }
        (by simpa [Net.edgeIds] using hk)
        (fun q hq => hm q (by simp [hq])) (fresh_bump hf p.1 p.2)
      refine ⟨fun q hq => i1 q (by simp [hq]), ?_, ?_, fun f hf' => i4 f (by simp [hf']), ?_, ?_, i7, i8, i9, i10, ?_⟩
      · intro q hq
        rcases i2 q hq with h | ⟨h1, h2⟩
        · simp only [List.mem_append, List.mem_singleton] at h
          rcases h with h | rfl
          · exact Or.inl h
          · right
            refine ⟨by simp, ?_⟩
            rw [i11 _ (by simp [Net.edgeIds])]; simp
        · exact Or.inr ⟨by simp [h1], h2⟩
      · intro q hq hne
        simp only [List.mem_cons] at hq
        rcases hq with rfl | hq
        · exact hasSimplex_mono i1 (hasSimplex_self _ (q.1, q.2) (by simp))
        · exact i3 q hq hne
      · intro q hq
        rcases i5 q hq with h | h
        · simp only [List.mem_append, List.mem_singleton] at h
          rcases h with h | rfl
          · exact Or.inl h
          · right; intro f hf'; exact i4 f (by simp [hf'])
        · exact Or.inr h
      · intro f hf'
        rcases i6 f hf' with h | ⟨q, hq, h⟩
        · simp only [List.mem_append] at h
          rcases h with h | h
          · exact Or.inl h
          · exact Or.inr ⟨(p.1, p.2), i1 _ (by simp), h⟩
        · exact Or.inr ⟨q, hq, h⟩
      · intro e he
        rw [i11 e (by simp only [Net.edgeIds, List.map_append, List.mem_append] at he ⊢; exact Or.inl he)]
        have : e ≠ p.1 := fun h => hp (h ▸ he)
        simp [this]

theorem toSimplicialComplex_spec (src : ANet) (hw : AWF src) :
    (toSimplicialComplex src).cls = .sc ∧ (toSimplicialComplex src).net.nodes = src.net.nodes ∧
    (toSimplicialComplex src).gattr = src.gattr ∧
    (∀ n ∈ src.net.nodes, (toSimplicialComplex src).nattr n = src.nattr n) ∧
    -- every non-empty source edge's member set is a simplex of the result
    (∀ p ∈ src.net.edges, p.2 ≠ [] → hasSimplex (toSimplicialComplex src).net.edges p.2 = true) ∧
    -- the result is closed under taking faces with at least two nodes
    (∀ q ∈ (toSimplicialComplex src).net.edges, ∀ f : List PyId, f.Sublist q.2 → 2 ≤ f.length →
        hasSimplex (toSimplicialComplex src).net.edges f = true) ∧
    -- every simplex of the result is a source edge (ID, members and attributes kept) or an attribute-less
    -- proper face of one
    (∀ q ∈ (toSimplicialComplex src).net.edges,
        (q ∈ src.net.edges ∧ (toSimplicialComplex src).eattr q.1 = src.eattr q.1) ∨
        ((toSimplicialComplex src).eattr q.1 = [] ∧ ∃ p ∈ src.net.edges, q.2 ∈ subfaces p.2)) := by
  obtain ⟨⟨w1, w2, w3⟩, wg, wn, we⟩ := hw
  refine ⟨cls_toSimplicialComplex src, ?_⟩
  unfold toSimplicialComplex
  simp only
  obtain ⟨n1, n2, n3, n4, n5, n6, _⟩ := nodeFold_spec src.net.nodes src.nattr (emptyANet .sc) (by simpa [emptyANet, emptyNet] using w1)
  generalize (src.net.nodes.foldl (fun a n => aAddNode a n (src.nattr n)) (emptyANet .sc)) = a1 at n1 n2 n3 n4 n5 n6 ⊢
  simp only [emptyANet, emptyNet, List.nil_append] at n1 n2 n3 n4 n5
  obtain ⟨s1, s2, s3, s4, s5, s6, s7, s8, s9, s10, s11⟩ := edgeStage_spec src.net.edges src.eattr
    { a := a1, uid := 0, faces := [] }
    (by simp only [Net.edgeIds, n2, List.map_nil, List.nil_append]; exact w2)
    (fun p hp => ⟨(w3 p hp).1, fun x hx => by simp only; rw [n1]; exact (w3 p hp).2 x hx⟩)
    (by intro i hi; simp only [n2, List.map_nil, List.not_mem_nil] at hi)
  generalize (src.net.edges.foldl (fun s p => scStep s p.1 p.2 (src.eattr p.1)) { a := a1, uid := 0, faces := [] }) = st
    at s1 s2 s3 s4 s5 s6 s7 s8 s9 s10 s11 ⊢
  simp only [n2, List.not_mem_nil, false_or] at s2 s5 s6
  -- the collected faces are proper faces of kept edges, which are source edges
  have hface : ∀ f ∈ st.faces, ∃ p ∈ src.net.edges, p ∈ st.a.net.edges ∧ f ∈ subfaces p.2 := by
    intro f hf
    obtain ⟨q, hq, hfq⟩ := s6 f hf
    exact ⟨q, (s2 q hq).1, hq, hfq⟩
  obtain ⟨j1, j2, j3, j4, j5, j6, j7⟩ := faceFold_spec st.faces st.a st.uid s7
    (fun f hf x hx => by
      obtain ⟨p, hp, _, hfp⟩ := hface f hf
      rw [mem_subfaces] at hfp
      rw [s8]; simp only; rw [n1]
      exact (w3 p hp).2 x (hfp.1.subset hx))
    (fun f hf => by
      obtain ⟨p, hp, _, hfp⟩ := hface f hf
      rw [mem_subfaces] at hfp
      exact List.Nodup.sublist hfp.1 (w3 p hp).1)
  generalize (st.faces.foldl addFace (st.a, st.uid)) = r at j1 j2 j3 j4 j5 j6 j7 ⊢
  refine ⟨by show r.1.net.nodes = _; rw [j4, s8]; exact n1, trivial, ?_, ?_, ?_, ?_⟩
  · intro n hn
    show r.1.nattr n = _
    rw [j5, s9]; simp only; rw [n6 n hn, attrs_update_nil (wn n hn)]
  · intro p hp hne
    exact hasSimplex_mono j1 (s3 p hp hne)
  · intro q hq f hfq hlen
    show hasSimplex r.1.net.edges f = true
    have hq' : q ∈ r.1.net.edges := hq
    by_cases hl : f.length = q.2.length
    · have : f = q.2 := hfq.eq_of_length hl
      rw [this]; exact hasSimplex_self _ q hq'
    · have hlt : f.length < q.2.length := Nat.lt_of_le_of_ne hfq.length_le hl
      have hfne : f ≠ [] := by intro h; rw [h] at hlen; simp at hlen
      rcases j3 q hq' with h | ⟨h1, _, _⟩
      · exact j2 f (s5 q h f ((mem_subfaces _ _).mpr ⟨hfq, hlen, hlt⟩)) hfne
      · obtain ⟨p, hp, hpst, hfp⟩ := hface q.2 h1
        rw [mem_subfaces] at hfp
        exact j2 f (s5 p hpst f ((mem_subfaces _ _).mpr ⟨hfq.trans hfp.1, hlen, Nat.lt_trans hlt hfp.2.2⟩)) hfne
  · intro q hq
    have hq' : q ∈ r.1.net.edges := hq
    show (q ∈ src.net.edges ∧ r.1.eattr q.1 = src.eattr q.1) ∨ (r.1.eattr q.1 = [] ∧ _)
    rcases j3 q hq' with h | ⟨h1, h2, _⟩
    · left
      obtain ⟨hqs, hqa⟩ := s2 q h
      refine ⟨hqs, ?_⟩
      rw [j7 q.1 (by unfold Net.edgeIds; rw [List.mem_map]; exact ⟨q, h, rfl⟩), hqa]
      exact attrs_update_nil (we q.1 (by unfold Net.edgeIds; rw [List.mem_map]; exact ⟨q, hqs, rfl⟩))
    · right
      obtain ⟨p, hp, _, hfp⟩ := hface q.2 h1
      exact ⟨h2, p, hp, hfp⟩


theorem inc_iff_of_wf {h : Net} (hw : h.WF) {p : PyId × List PyId} (hp : p ∈ h.edges) (x : PyId) :
    Inc h x p.1 ↔ x ∈ p.2 := by
  constructor
  · rintro ⟨q, hq, hqe, hx⟩
    have := eq_of_key_eq hw.2.1 hq hp hqe
    rw [← this]; exact hx
  · intro hx; exact ⟨p, hp, rfl, hx⟩

theorem hasSimplex_congr (es : List (PyId × List PyId)) {ms ms' : List PyId} (h : ∀ z, z ∈ ms ↔ z ∈ ms') :
    hasSimplex es ms = true → hasSimplex es ms' = true := by
  rw [hasSimplex_iff, hasSimplex_iff]
  rintro ⟨q, hq, h1⟩
  exact ⟨q, hq, fun z => (h1 z).trans (h z)⟩

/-! ### a simplicial complex as xgi stores it, read by `SimplicialComplex(H)` -/

/-- what `SimplicialComplex.add_simplex` guarantees of the stored simplices: none is empty and no two have the
    same member set -/
structure SCWF (h : Net) : Prop where
  ne : ∀ p ∈ h.edges, p.2 ≠ []
  distinct : ∀ p ∈ h.edges, ∀ q ∈ h.edges, sameSet p.2 q.2 = true → p = q

/-- closed under taking faces (`_subfaces`, at least two nodes), up to `has_simplex` -/
def SCClosed (h : Net) : Prop := ∀ p ∈ h.edges, ∀ f ∈ subfaces p.2, hasSimplex h.edges f = true

theorem hasSimplex_append (es es' : List (PyId × List PyId)) (ms : List PyId) :
    hasSimplex (es ++ es') ms = (hasSimplex es ms || hasSimplex es' ms) := by
  unfold hasSimplex; rw [List.any_append]

theorem sameSet_symm (x y : List PyId) : sameSet x y = sameSet y x := by
  unfold sameSet; rw [Bool.and_comm]

/-- the edge loop of `add_simplices_from` keeps every edge under its own ID and members, in order, when no
    edge is empty and no member set occurs twice (nor is present before) -/
theorem edgeStage_kept (es : List (PyId × List PyId)) (g : PyId → Attrs) (s : SCState)
    (hk : (s.a.net.edgeIds ++ es.map (·.1)).Nodup)
    (hm : ∀ p ∈ es, p.2.Nodup ∧ ∀ x ∈ p.2, x ∈ s.a.net.nodes)
    (hne : ∀ p ∈ es, p.2 ≠ [])
    (hdist : ∀ p ∈ es, hasSimplex s.a.net.edges p.2 = false)
    (hpair : es.Pairwise (fun p q => sameSet p.2 q.2 = false)) :
    (es.foldl (fun s p => scStep s p.1 p.2 (g p.1)) s).a.net.edges = s.a.net.edges ++ es := by
  induction es generalizing s with
  | nil => simp
  | cons p t ih =>
    have hp : p.1 ∉ s.a.net.edgeIds := by
      intro hp
      rw [List.nodup_append] at hk
      exact hk.2.2 _ hp p.1 (by simp) rfl
    rw [List.pairwise_cons] at hpair
    obtain ⟨hpd, hpn⟩ := hm p (by simp)
    have h2 : hasSimplex s.a.net.edges p.2 = false := hdist p (by simp)
    simp only [List.foldl_cons]
    rw [scStep_add s p.1 p.2 _ (hne p (by simp)) h2 hp hpn hpd]
    have := ih
      { a := { s.a with net := { nodes := s.a.net.nodes, edges := s.a.net.edges ++ [(p.1, p.2)] },
                        eattr := upd s.a.eattr p.1 (Attrs.update [] (g p.1)) },
        uid := bump s.uid p.1, faces := s.faces ++ subfaces p.2 }
      (by simpa [Net.edgeIds] using hk) (fun q hq => hm q (by simp [hq])) (fun q hq => hne q (by simp [hq]))
      (fun q hq => by
        show hasSimplex (s.a.net.edges ++ [(p.1, p.2)]) q.2 = false
        rw [hasSimplex_append, hdist q (by simp [hq]), Bool.false_or]
        simp only [hasSimplex, List.any_cons, List.any_nil, Bool.or_false]
        exact hpair.1 q hq)
      hpair.2
    rw [this]
    simp

theorem addFace_prefix (s : ANet × Nat) (f : List PyId) :
    ∃ extra, (addFace s f).1.net.edges = s.1.net.edges ++ extra := by
  unfold addFace
  split
  · exact ⟨[], by simp⟩
  · simp only
    unfold addEdge
    split
    · exact ⟨[], by simp⟩
    · exact ⟨[_], rfl⟩

theorem faceFold_prefix (faces : List (List PyId)) (s : ANet × Nat) :
    ∃ extra, (faces.foldl addFace s).1.net.edges = s.1.net.edges ++ extra := by
  induction faces generalizing s with
  | nil => exact ⟨[], by simp⟩
  | cons f t ih =>
    simp only [List.foldl_cons]
    obtain ⟨x1, h1⟩ := addFace_prefix s f
    obtain ⟨x2, h2⟩ := ih (addFace s f)
    exact ⟨x1 ++ x2, by rw [h2, h1, List.append_assoc]⟩

/-- no face is added when every collected face is present already -/
theorem faceFold_noop (faces : List (List PyId)) (s : ANet × Nat)
    (h : ∀ f ∈ faces, hasSimplex s.1.net.edges f = true) : faces.foldl addFace s = s := by
  induction faces with
  | nil => rfl
  | cons f t ih =>
    simp only [List.foldl_cons]
    rw [addFace_skip s f (Or.inr (h f (by simp)))]
    exact ih (fun g hg => h g (by simp [hg]))

/-- `SimplicialComplex(H)` for a source that is a stored simplicial complex (`SCWF`): every source edge is kept
    under its own ID with its members and attributes, in order, before the automatically created faces; when the
    source is closed under faces nothing is created at all -/
theorem toSimplicialComplex_kept (src : ANet) (hw : AWF src) (hsc : SCWF src.net) :
    (∃ extra, (toSimplicialComplex src).net.edges = src.net.edges ++ extra) ∧
    (∀ e ∈ src.net.edgeIds, (toSimplicialComplex src).eattr e = src.eattr e) ∧
    (SCClosed src.net → (toSimplicialComplex src).net.edges = src.net.edges) := by
  obtain ⟨⟨w1, w2, w3⟩, wg, wn, we⟩ := hw
  unfold toSimplicialComplex
  simp only
  obtain ⟨n1, n2, n3, n4, n5, n6, _⟩ := nodeFold_spec src.net.nodes src.nattr (emptyANet .sc) (by simpa [emptyANet, emptyNet] using w1)
  generalize (src.net.nodes.foldl (fun a n => aAddNode a n (src.nattr n)) (emptyANet .sc)) = a1 at n1 n2 n3 n4 n5 n6 ⊢
  simp only [emptyANet, emptyNet, List.nil_append] at n1 n2 n3 n4 n5
  have hk : (({ a := a1, uid := 0, faces := [] } : SCState).a.net.edgeIds ++ src.net.edges.map (·.1)).Nodup := by
    simp only [Net.edgeIds, n2, List.map_nil, List.nil_append]; exact w2
  have hm : ∀ p ∈ src.net.edges, p.2.Nodup ∧ ∀ x ∈ p.2, x ∈ ({ a := a1, uid := 0, faces := [] } : SCState).a.net.nodes :=
    fun p hp => ⟨(w3 p hp).1, fun x hx => by simp only; rw [n1]; exact (w3 p hp).2 x hx⟩
  obtain ⟨s1, s2, s3, s4, s5, s6, s7, s8, s9, s10, s11⟩ := edgeStage_spec src.net.edges src.eattr
    { a := a1, uid := 0, faces := [] } hk hm
    (by intro i hi; simp only [n2, List.map_nil, List.not_mem_nil] at hi)
  have hedges := edgeStage_kept src.net.edges src.eattr { a := a1, uid := 0, faces := [] } hk hm hsc.ne
    (fun p _ => by simp only [n2, hasSimplex, List.any_nil])
    (by
      have hnd : src.net.edges.Pairwise (fun p q => p.1 ≠ q.1) := List.pairwise_map.mp w2
      refine List.Pairwise.imp_of_mem ?_ hnd
      intro p q hp hq hpq
      cases h : sameSet p.2 q.2 with
      | false => rfl
      | true => exact absurd (congrArg Prod.fst (hsc.distinct p hp q hq h)) hpq)
  generalize (src.net.edges.foldl (fun s p => scStep s p.1 p.2 (src.eattr p.1)) { a := a1, uid := 0, faces := [] }) = st
    at s1 s2 s3 s4 s5 s6 s7 s8 s9 s10 s11 hedges ⊢
  simp only [n2, List.not_mem_nil, false_or, List.nil_append] at s2 s5 s6 hedges
  have hface : ∀ f ∈ st.faces, ∃ p ∈ src.net.edges, f ∈ subfaces p.2 := by
    intro f hf
    obtain ⟨q, hq, hfq⟩ := s6 f hf
    exact ⟨q, (s2 q hq).1, hfq⟩
  obtain ⟨j1, j2, j3, j4, j5, j6, j7⟩ := faceFold_spec st.faces st.a st.uid s7
    (fun f hf x hx => by
      obtain ⟨p, hp, hfp⟩ := hface f hf
      rw [mem_subfaces] at hfp
      rw [s8]; simp only; rw [n1]
      exact (w3 p hp).2 x (hfp.1.subset hx))
    (fun f hf => by
      obtain ⟨p, hp, hfp⟩ := hface f hf
      rw [mem_subfaces] at hfp
      exact List.Nodup.sublist hfp.1 (w3 p hp).1)
  obtain ⟨extra, hx⟩ := faceFold_prefix st.faces (st.a, st.uid)
  have hnoop : SCClosed src.net → st.faces.foldl addFace (st.a, st.uid) = (st.a, st.uid) := fun hcl =>
    faceFold_noop st.faces (st.a, st.uid) (fun f hf => by
      obtain ⟨p, hp, hfp⟩ := hface f hf
      simp only [hedges]; exact hcl p hp f hfp)
  generalize (st.faces.foldl addFace (st.a, st.uid)) = r at j1 j2 j3 j4 j5 j6 j7 hx hnoop ⊢
  refine ⟨⟨extra, by show r.1.net.edges = _; rw [hx]; simp only [hedges]⟩, ?_, ?_⟩
  · intro e he
    show r.1.eattr e = _
    have he' : e ∈ st.a.net.edgeIds := by unfold Net.edgeIds; rw [hedges]; exact he
    rw [j7 e he']
    unfold Net.edgeIds at he; rw [List.mem_map] at he
    obtain ⟨p, hp, rfl⟩ := he
    rw [(s2 p (by rw [hedges]; exact hp)).2]
    exact attrs_update_nil (we p.1 (by unfold Net.edgeIds; rw [List.mem_map]; exact ⟨p, hp, rfl⟩))
  · intro hcl
    show r.1.net.edges = _
    rw [hnoop hcl]; exact hedges

theorem mem_toBipartiteEdgelist (h : Net) (n e : PyId) : (n, e) ∈ toBipartiteEdgelist h ↔ Inc h n e := by
  unfold toBipartiteEdgelist Inc
  simp only [List.mem_flatMap, List.mem_map, Prod.mk.injEq]
  constructor
  · rintro ⟨p, hp, m, hm, rfl, rfl⟩; exact ⟨p, hp, rfl, hm⟩
  · rintro ⟨p, hp, rfl, hm⟩; exact ⟨p, hp, n, hm, rfl, rfl⟩

theorem mem_toDataframe (h : Net) (n e : PyId) : (n, e) ∈ toDataframe h ↔ n ∈ h.nodes ∧ Inc h n e := by
  unfold toDataframe Inc Net.memberships
  simp only [List.mem_flatMap, List.mem_map, List.mem_filter, Prod.mk.injEq, decide_eq_true_eq]
  constructor
  · rintro ⟨m, hm, e', ⟨p, ⟨hp, hmp⟩, rfl⟩, rfl, rfl⟩; exact ⟨hm, p, hp, rfl, hmp⟩
  · rintro ⟨hn, p, hp, rfl, hnp⟩; exact ⟨n, hn, p.1, ⟨p, ⟨hp, hnp⟩, rfl⟩, rfl, rfl⟩

/-! ### directed bipartite graph -/

@[simp] theorem edges_dAddNodes (ns : List PyId) (h : DiNet) : (dAddNodes ns h).edges = h.edges := by
  induction ns generalizing h with
  | nil => rfl
  | cons a t ih => simp only [dAddNodes, List.foldl_cons] at ih ⊢; rw [ih]; rfl

theorem mem_nodes_dAddNodes (ns : List PyId) (h : DiNet) (n : PyId) : n ∈ (dAddNodes ns h).nodes ↔ n ∈ h.nodes ∨ n ∈ ns := by
  induction ns generalizing h with
  | nil => simp [dAddNodes]
  | cons a t ih =>
    simp only [dAddNodes, List.foldl_cons] at ih ⊢
    rw [ih]; simp only [dAddNode, mem_ins, List.mem_cons]
    constructor
    · rintro ((h1 | h1) | h1)
      · exact Or.inr (Or.inl h1)
      · exact Or.inl h1
      · exact Or.inr (Or.inr h1)
    · rintro (h1 | h1 | h1)
      · exact Or.inl (Or.inr h1)
      · exact Or.inl (Or.inl h1)
      · exact Or.inr h1

theorem dInc_dAddNodes (ns : List PyId) (h : DiNet) (n e : PyId) (d : Dir) : DInc (dAddNodes ns h) n e d ↔ DInc h n e d := by
  unfold DInc; rw [edges_dAddNodes]

theorem fromBipartiteGraphDi_ok_iff (G : BGraph) :
    (∃ r, fromBipartiteGraphDi G = .ok r) ↔ flagsOk G = true ∧ isBipartite G = true := by
  unfold fromBipartiteGraphDi
  cases flagsOk G <;> cases isBipartite G <;> simp

theorem fromBipartiteGraphDi_eq {G : BGraph} {r : DiNet} (h : fromBipartiteGraphDi G = .ok r) :
    flagsOk G = true ∧ isBipartite G = true ∧
      r = dLinkAll (G.edges.map (orientDi (edgeVerts G))) (dAddNodes (nodeVerts G) emptyDiNet) := by
  unfold fromBipartiteGraphDi at h
  cases hf : flagsOk G <;> cases hb : isBipartite G <;> simp [hf, hb] at h
  exact ⟨rfl, rfl, h.symm⟩

/-- directed graph: an arc node-vertex → edge-vertex is a tail incidence, edge-vertex → node-vertex a head
    incidence -/
theorem fromBipartiteGraphDi_inc {G : BGraph} {r : DiNet} (hr : fromBipartiteGraphDi G = .ok r) (hw : GWF G)
    (n e : PyId) (d : Dir) :
    DInc r n e d ↔ n ∈ nodeVerts G ∧ e ∈ edgeVerts G ∧
      (match d with | .tail => (n, e) ∈ G.edges | .head => (e, n) ∈ G.edges) := by
  obtain ⟨hf, hb, rfl⟩ := fromBipartiteGraphDi_eq hr
  rw [isBipartite_iff] at hb
  rw [dInc_dLinkAll, dInc_dAddNodes]
  simp only [dInc_emptyDiNet, false_or, List.mem_map]
  constructor
  · rintro ⟨⟨u, v⟩, hp, ho⟩
    have hb' := hb _ hp
    obtain ⟨hu, hv⟩ := hw.2 _ hp
    simp only at hb' hu hv
    unfold orientDi at ho
    simp only at ho
    split at ho
    · rename_i hve
      simp only [Prod.mk.injEq] at ho
      obtain ⟨rfl, rfl, rfl⟩ := ho
      exact ⟨hb'.mpr hve, hve, hp⟩
    · rename_i hve
      simp only [Prod.mk.injEq] at ho
      obtain ⟨rfl, rfl, rfl⟩ := ho
      have h3 : v ∈ nodeVerts G := (vertex_dichotomy hw hf hv).mpr hve
      have h4 : ¬ u ∈ nodeVerts G := fun h => hve (hb'.mp h)
      have h5 : u ∈ edgeVerts G := by
        by_cases h : u ∈ edgeVerts G
        · exact h
        · exact absurd ((vertex_dichotomy hw hf hu).mpr h) h4
      exact ⟨h3, h5, hp⟩
  · rintro ⟨hn, he, hp⟩
    cases d
    · refine ⟨(n, e), hp, ?_⟩
      simp [orientDi, he]
    · refine ⟨(e, n), hp, ?_⟩
      have : ¬ n ∈ edgeVerts G := (vertex_dichotomy hw hf (nodeVert_is_vertex G hn)).mp hn
      simp [orientDi, this]

theorem fromBipartiteGraphDi_nodes {G : BGraph} {r : DiNet} (hr : fromBipartiteGraphDi G = .ok r) (hw : GWF G) (n : PyId) :
    n ∈ r.nodes ↔ n ∈ nodeVerts G := by
  constructor
  · intro hn
    obtain ⟨hf, hb, rfl⟩ := fromBipartiteGraphDi_eq hr
    rw [mem_nodes_dLinkAll, mem_nodes_dAddNodes] at hn
    rcases hn with (hn | hn) | ⟨e, d, hn⟩
    · simp [emptyDiNet] at hn
    · exact hn
    · have : DInc (dLinkAll (G.edges.map (orientDi (edgeVerts G))) (dAddNodes (nodeVerts G) emptyDiNet)) n e d := by
        rw [dInc_dLinkAll]; exact Or.inr hn
      exact ((fromBipartiteGraphDi_inc hr hw n e d).mp this).1
  · intro hn
    obtain ⟨hf, hb, rfl⟩ := fromBipartiteGraphDi_eq hr
    rw [mem_nodes_dLinkAll, mem_nodes_dAddNodes]
    exact Or.inl (Or.inr hn)

theorem mem_verts_toBGDi (h : DiNet) (x : PyId) (f : Option Int) :
    (x, f) ∈ (toBipartiteGraphDi h).G.verts ↔
      (∃ i v, h.nodes[i]? = some v ∧ x = PyId.int (i : Nat) ∧ f = some 0) ∨
      (∃ j p, h.edges[j]? = some p ∧ x = PyId.int (h.nodes.length + j : Nat) ∧ f = some 1) := by
  unfold toBipartiteGraphDi
  simp only [List.mem_append, List.mem_map, Prod.mk.injEq, List.mem_zipIdx_iff_getElem?]
  constructor
  · rintro (⟨⟨v, i⟩, hv, rfl, rfl⟩ | ⟨⟨p, j⟩, hp, rfl, rfl⟩)
    · exact Or.inl ⟨i, v, hv, rfl, rfl⟩
    · exact Or.inr ⟨j, p, hp, rfl, rfl⟩
  · rintro (⟨i, v, hv, rfl, rfl⟩ | ⟨j, p, hp, rfl, rfl⟩)
    · exact Or.inl ⟨(v, i), hv, rfl, rfl⟩
    · exact Or.inr ⟨(p, j), hp, rfl, rfl⟩

theorem mem_nodeVerts_toBGDi (h : DiNet) (x : PyId) :
    x ∈ nodeVerts (toBipartiteGraphDi h).G ↔ ∃ i v, h.nodes[i]? = some v ∧ x = PyId.int (i : Nat) := by
  rw [mem_nodeVerts, mem_verts_toBGDi]
  constructor
  · rintro (⟨i, v, hv, rfl, _⟩ | ⟨j, p, hp, rfl, hf⟩)
    · exact ⟨i, v, hv, rfl⟩
    · simp at hf
  · rintro ⟨i, v, hv, rfl⟩; exact Or.inl ⟨i, v, hv, rfl, rfl⟩

theorem mem_edgeVerts_toBGDi (h : DiNet) (x : PyId) :
    x ∈ edgeVerts (toBipartiteGraphDi h).G ↔ ∃ j p, h.edges[j]? = some p ∧ x = PyId.int (h.nodes.length + j : Nat) := by
  rw [mem_edgeVerts, mem_verts_toBGDi]
  constructor
  · rintro (⟨i, v, hv, rfl, hf⟩ | ⟨j, p, hp, rfl, _⟩)
    · simp at hf
    · exact ⟨j, p, hp, rfl⟩
  · rintro ⟨j, p, hp, rfl⟩; exact Or.inr ⟨j, p, hp, rfl, rfl⟩

theorem mem_edges_toBGDi (h : DiNet) (x y : PyId) :
    (x, y) ∈ (toBipartiteGraphDi h).G.edges ↔
      (∃ i v j p, h.nodes[i]? = some v ∧ h.edges[j]? = some p ∧ v ∈ p.2.1 ∧
        x = PyId.int (i : Nat) ∧ y = PyId.int (h.nodes.length + j : Nat)) ∨
      (∃ i v j p, h.nodes[i]? = some v ∧ h.edges[j]? = some p ∧ v ∈ p.2.2 ∧
        y = PyId.int (i : Nat) ∧ x = PyId.int (h.nodes.length + j : Nat)) := by
  unfold toBipartiteGraphDi
  simp only [List.mem_append, List.mem_flatMap, List.mem_filterMap, List.mem_zipIdx_iff_getElem?]
  constructor
  · rintro (⟨⟨v, i⟩, hv, ⟨p, j⟩, hp, h1⟩ | ⟨⟨p, j⟩, hp, ⟨v, i⟩, hv, h1⟩)
    · simp only at hv hp h1
      split at h1
      · rename_i hm
        simp only [Option.some.injEq, Prod.mk.injEq] at h1
        exact Or.inl ⟨i, v, j, p, hv, hp, hm, h1.1.symm, h1.2.symm⟩
      · simp at h1
    · simp only at hv hp h1
      split at h1
      · rename_i hm
        simp only [Option.some.injEq, Prod.mk.injEq] at h1
        exact Or.inr ⟨i, v, j, p, hv, hp, hm, h1.2.symm, h1.1.symm⟩
      · simp at h1
  · rintro (⟨i, v, j, p, hv, hp, hm, rfl, rfl⟩ | ⟨i, v, j, p, hv, hp, hm, rfl, rfl⟩)
    · exact Or.inl ⟨(v, i), hv, (p, j), hp, by simp [hm]⟩
    · exact Or.inr ⟨(p, j), hp, (v, i), hv, by simp [hm]⟩

theorem gwf_toBGDi (h : DiNet) : GWF (toBipartiteGraphDi h).G := by
  constructor
  · have : (toBipartiteGraphDi h).G.verts.map (·.1) =
        h.nodes.zipIdx.map (fun vi => PyId.int (vi.2 : Nat)) ++
        h.edges.zipIdx.map (fun pj => PyId.int (h.nodes.length + pj.2 : Nat)) := by
      unfold toBipartiteGraphDi; simp [List.map_map, Function.comp_def]
    rw [this, List.nodup_append]
    refine ⟨nodup_zipIdx_map _ _ int_inj, nodup_zipIdx_map _ (fun j => PyId.int (h.nodes.length + j : Nat)) ?_, ?_⟩
    · intro a b hab; have := int_inj _ _ hab; omega
    · intro a ha b hb hab
      simp only [List.mem_map, List.mem_zipIdx_iff_getElem?] at ha hb
      obtain ⟨⟨v, i⟩, hv, rfl⟩ := ha
      obtain ⟨⟨p, j⟩, hp, rfl⟩ := hb
      have := int_inj _ _ hab
      have := getElem?_lt hv
      simp only at *
      omega
  · rintro ⟨x, y⟩ hp
    rw [mem_edges_toBGDi] at hp
    simp only [List.mem_map]
    rcases hp with ⟨i, v, j, p, hv, hp, _, rfl, rfl⟩ | ⟨i, v, j, p, hv, hp, _, rfl, rfl⟩
    · exact ⟨⟨_, (mem_verts_toBGDi h _ _).mpr (Or.inl ⟨i, v, hv, rfl, rfl⟩), rfl⟩,
             ⟨_, (mem_verts_toBGDi h _ _).mpr (Or.inr ⟨j, p, hp, rfl, rfl⟩), rfl⟩⟩
    · exact ⟨⟨_, (mem_verts_toBGDi h _ _).mpr (Or.inr ⟨j, p, hp, rfl, rfl⟩), rfl⟩,
             ⟨_, (mem_verts_toBGDi h _ _).mpr (Or.inl ⟨i, v, hv, rfl, rfl⟩), rfl⟩⟩

theorem ok_toBGDi (h : DiNet) : flagsOk (toBipartiteGraphDi h).G = true ∧ isBipartite (toBipartiteGraphDi h).G = true := by
  constructor
  · rw [flagsOk_iff]
    rintro ⟨x, f⟩ hp
    rw [mem_verts_toBGDi] at hp
    rcases hp with ⟨_, _, _, _, rfl⟩ | ⟨_, _, _, _, rfl⟩
    · exact Or.inl rfl
    · exact Or.inr rfl
  · rw [isBipartite_iff]
    rintro ⟨x, y⟩ hp
    rw [mem_edges_toBGDi] at hp
    simp only [mem_nodeVerts_toBGDi, mem_edgeVerts_toBGDi]
    rcases hp with ⟨i, v, j, p, hv, hp, _, rfl, rfl⟩ | ⟨i, v, j, p, hv, hp, _, rfl, rfl⟩
    · exact ⟨fun _ => ⟨j, p, hp, rfl⟩, fun _ => ⟨i, v, hv, rfl⟩⟩
    · constructor
      · rintro ⟨i', v', hv', h1⟩
        have := int_inj _ _ h1
        have := getElem?_lt hv'
        omega
      · rintro ⟨j', p', hp', h1⟩
        have := int_inj _ _ h1
        have := getElem?_lt hv
        omega

theorem mem_itn_toBGDi (h : DiNet) (x n : PyId) :
    (x, n) ∈ (toBipartiteGraphDi h).itn ↔ ∃ i, h.nodes[i]? = some n ∧ x = PyId.int (i : Nat) := by
  unfold toBipartiteGraphDi
  simp only [List.mem_map, Prod.mk.injEq, List.mem_zipIdx_iff_getElem?]
  constructor
  · rintro ⟨⟨v, i⟩, hv, rfl, rfl⟩; exact ⟨i, hv, rfl⟩
  · rintro ⟨i, hv, rfl⟩; exact ⟨(n, i), hv, rfl, rfl⟩

theorem mem_ite_toBGDi (h : DiNet) (y e : PyId) :
    (y, e) ∈ (toBipartiteGraphDi h).ite ↔ ∃ j p, h.edges[j]? = some p ∧ y = PyId.int (h.nodes.length + j : Nat) ∧ e = p.1 := by
  unfold toBipartiteGraphDi
  simp only [List.mem_map, Prod.mk.injEq, List.mem_zipIdx_iff_getElem?]
  constructor
  · rintro ⟨⟨p, j⟩, hp, rfl, rfl⟩; exact ⟨j, p, hp, rfl, rfl⟩
  · rintro ⟨j, p, hp, rfl, rfl⟩; exact ⟨(p, j), hp, rfl, rfl⟩

theorem eq_of_key_eq_di {l : List (PyId × List PyId × List PyId)} (hn : (l.map (·.1)).Nodup) {p q : PyId × List PyId × List PyId}
    (hp : p ∈ l) (hq : q ∈ l) (h : p.1 = q.1) : p = q := by
  induction l with
  | nil => simp at hp
  | cons a t ih =>
    simp only [List.map_cons, List.nodup_cons, List.mem_map, not_exists, not_and] at hn
    simp only [List.mem_cons] at hp hq
    rcases hp with hp | hp <;> rcases hq with hq | hq
    · rw [hp, hq]
    · exact absurd (by rw [← hp, h]) (hn.1 _ hq)
    · exact absurd (by rw [← hq, ← h]) (hn.1 _ hp)
    · exact ih hn.2 hp hq

/-! ### directed HIF -/

theorem dAddNode_of_mem (h : DiNet) (n : PyId) (hn : n ∈ h.nodes) : dAddNode h n = h := by
  unfold dAddNode ins; simp [hn]

theorem dAAddNode_of_nil (a : ADiNet) (n : PyId) (av : Attrs) (h0 : a.nattr n = []) :
    dAAddNode a n av = { a with net := dAddNode a.net n, nattr := upd a.nattr n (Attrs.update [] av) } := by
  unfold dAAddNode
  split
  · rename_i hn; rw [dAddNode_of_mem _ _ hn, h0]
  · rfl

theorem dNodeRecFold_spec (ns : List PyId) (f : PyId → Attrs) (a0 : ADiNet) (hk : ns.Nodup)
    (h0 : ∀ n ∈ ns, a0.nattr n = []) :
    (∀ n, n ∈ (ns.foldl (fun a n => dAAddNode a n (f n)) a0).net.nodes ↔ n ∈ a0.net.nodes ∨ n ∈ ns) ∧
    (ns.foldl (fun a n => dAAddNode a n (f n)) a0).net.edges = a0.net.edges ∧
    (ns.foldl (fun a n => dAAddNode a n (f n)) a0).eattr = a0.eattr ∧
    (ns.foldl (fun a n => dAAddNode a n (f n)) a0).gattr = a0.gattr ∧
    (∀ n ∈ ns, (ns.foldl (fun a n => dAAddNode a n (f n)) a0).nattr n = Attrs.update [] (f n)) ∧
    (∀ n, n ∉ ns → (ns.foldl (fun a n => dAAddNode a n (f n)) a0).nattr n = a0.nattr n) ∧
    (a0.net.nodes.Nodup → (ns.foldl (fun a n => dAAddNode a n (f n)) a0).net.nodes.Nodup) := by
  induction ns generalizing a0 with
  | nil => simp
  | cons m t ih =>
    simp only [List.nodup_cons] at hk
    simp only [List.foldl_cons]
    rw [dAAddNode_of_nil a0 m (f m) (h0 m (by simp))]
    obtain ⟨i1, i2, i3, i4, i6, i7, i8⟩ := ih
      { a0 with net := dAddNode a0.net m, nattr := upd a0.nattr m (Attrs.update [] (f m)) } hk.2
      (fun n hn => by
        have : n ≠ m := fun h => hk.1 (h ▸ hn)
        simp only [upd_apply, this, if_false]; exact h0 n (by simp [hn]))
    refine ⟨?_, i2, i3, i4, ?_, ?_, ?_⟩
    · intro n; rw [i1 n]; simp only [dAddNode, mem_ins, List.mem_cons]
      constructor
      · rintro ((h | h) | h)
        · exact Or.inr (Or.inl h)
        · exact Or.inl h
        · exact Or.inr (Or.inr h)
      · rintro (h | h | h)
        · exact Or.inl (Or.inr h)
        · exact Or.inl (Or.inl h)
        · exact Or.inr h
    · intro n hn
      simp only [List.mem_cons] at hn
      rcases hn with rfl | hn
      · rw [i7 n hk.1]; simp
      · exact i6 n hn
    · intro n hn
      simp only [List.mem_cons, not_or] at hn
      rw [i7 n hn.2]; simp [hn.1]
    · intro hnd; exact i8 (by simp only [dAddNode]; exact nodup_ins hnd)

def dEdgeRecStep (f : PyId → Attrs) (a : ADiNet) (e : PyId) : ADiNet :=
  if e ∈ dEdgeIds a.net then dASetEdgeAttr a e (f e) else dAAddEdge a e [] [] (f e)

theorem dEdgeRecStep_of_nil (f : PyId → Attrs) (a : ADiNet) (e : PyId) (h0 : a.eattr e = []) :
    dEdgeRecStep f a e = { a with net := dEnsureEdge a.net e, eattr := upd a.eattr e (Attrs.update [] (f e)) } := by
  unfold dEdgeRecStep
  split
  · rename_i he
    unfold dASetEdgeAttr dEnsureEdge; simp [he, h0]
  · rename_i he
    unfold dAAddEdge dEnsureEdge dAddEdge; simp [he, dedup]

theorem dInc_dEnsureEdge (h : DiNet) (e n e' : PyId) (d : Dir) : DInc (dEnsureEdge h e) n e' d ↔ DInc h n e' d := by
  simp only [dInc_iff]
  unfold dEnsureEdge
  split
  · rfl
  · simp only [List.mem_append, List.mem_singleton]
    constructor
    · rintro ⟨p, (hp | rfl), h1, h2⟩
      · exact ⟨p, hp, h1, h2⟩
      · cases d <;> simp [side] at h2
    · rintro ⟨p, hp, h1, h2⟩; exact ⟨p, Or.inl hp, h1, h2⟩

theorem dwf_dEnsureEdge {h : DiNet} (hw : DWF h) (e : PyId) : DWF (dEnsureEdge h e) := by
  obtain ⟨h1, h2, h3⟩ := hw
  refine ⟨by simpa using h1, ?_, ?_⟩
  · have := dEdgeIds_dEnsureEdge h e
    unfold dEdgeIds at this; rw [this]; exact nodup_ins h2
  · intro p hp
    rw [nodes_dEnsureEdge]
    unfold dEnsureEdge at hp
    split at hp
    · exact h3 p hp
    · simp only [List.mem_append, List.mem_singleton] at hp
      rcases hp with hp | rfl
      · exact h3 p hp
      · simp

theorem dEdgeRecFold_spec (es : List PyId) (f : PyId → Attrs) (a0 : ADiNet) (hk : es.Nodup)
    (h0 : ∀ e ∈ es, a0.eattr e = []) :
    (∀ e, e ∈ dEdgeIds (es.foldl (dEdgeRecStep f) a0).net ↔ e ∈ dEdgeIds a0.net ∨ e ∈ es) ∧
    (es.foldl (dEdgeRecStep f) a0).net.nodes = a0.net.nodes ∧
    (∀ n e d, DInc (es.foldl (dEdgeRecStep f) a0).net n e d ↔ DInc a0.net n e d) ∧
    (es.foldl (dEdgeRecStep f) a0).nattr = a0.nattr ∧
    (es.foldl (dEdgeRecStep f) a0).gattr = a0.gattr ∧
    (∀ e ∈ es, (es.foldl (dEdgeRecStep f) a0).eattr e = Attrs.update [] (f e)) ∧
    (∀ e, e ∉ es → (es.foldl (dEdgeRecStep f) a0).eattr e = a0.eattr e) ∧
    (DWF a0.net → DWF (es.foldl (dEdgeRecStep f) a0).net) := by
  induction es generalizing a0 with
  | nil => simp
  | cons m t ih =>
    simp only [List.nodup_cons] at hk
    simp only [List.foldl_cons]
    rw [dEdgeRecStep_of_nil f a0 m (h0 m (by simp))]
    obtain ⟨i1, i2, i3, i4, i5, i7, i8, i9⟩ := ih
      { a0 with net := dEnsureEdge a0.net m, eattr := upd a0.eattr m (Attrs.update [] (f m)) } hk.2
      (fun e he => by
        have : e ≠ m := fun h => hk.1 (h ▸ he)
        simp only [upd_apply, this, if_false]; exact h0 e (by simp [he]))
    refine ⟨?_, by rw [i2]; simp, ?_, i4, i5, ?_, ?_, ?_⟩
    · intro e; rw [i1 e]; simp only [dEdgeIds_dEnsureEdge, mem_ins, List.mem_cons]
      constructor
      · rintro ((h | h) | h)
        · exact Or.inr (Or.inl h)
        · exact Or.inl h
        · exact Or.inr (Or.inr h)
      · rintro (h | h | h)
        · exact Or.inl (Or.inr h)
        · exact Or.inl (Or.inl h)
        · exact Or.inr h
    · intro n e d; rw [i3 n e d]; exact dInc_dEnsureEdge _ _ _ _ _
    · intro e he
      simp only [List.mem_cons] at he
      rcases he with rfl | he
      · rw [i8 e hk.1]; simp
      · exact i7 e he
    · intro e he
      simp only [List.mem_cons, not_or] at he
      rw [i8 e he.2]; simp [he.1]
    · intro hwf; exact i9 (dwf_dEnsureEdge hwf m)

theorem dLinkFold_eq (rows : List (PyId × PyId × Dir)) (a0 : ADiNet) :
    rows.foldl (fun a r => { a with net := dLink a.net r.2.1 r.1 r.2.2 }) a0 = { a0 with net := dLinkAll rows a0.net } := by
  induction rows generalizing a0 with
  | nil => rfl
  | cons r t ih => simp only [List.foldl_cons]; rw [ih]; rfl

theorem dIsolated_iff (h : DiNet) (n : PyId) : dIsolated h n = true ↔ ¬ ∃ e d, DInc h n e d := by
  unfold dIsolated
  simp only [List.all_eq_true, decide_eq_true_eq, dInc_iff]
  constructor
  · rintro h1 ⟨e, d, p, hp, _, hn⟩
    cases d
    · exact (h1 p hp).1 hn
    · exact (h1 p hp).2 hn
  · intro h1 p hp
    exact ⟨fun hn => h1 ⟨p.1, .tail, p, hp, rfl, hn⟩, fun hn => h1 ⟨p.1, .head, p, hp, rfl, hn⟩⟩

theorem bipartiteEdgelistDi_labels (h : DiNet) (hw : DWF h) :
    (∀ n, n ∈ (fromBipartiteEdgelistDi (toBipartiteEdgelistDi h)).nodes ↔ n ∈ h.nodes ∧ ∃ e d, DInc h n e d) ∧
    (∀ e, e ∈ dEdgeIds (fromBipartiteEdgelistDi (toBipartiteEdgelistDi h)) ↔ e ∈ dEdgeIds h ∧ ∃ n d, DInc h n e d) := by
  obtain ⟨_, _, h3⟩ := hw
  unfold fromBipartiteEdgelistDi
  constructor
  · intro n
    rw [mem_nodes_dLinkAll]
    simp only [mem_toBipartiteEdgelistDi, emptyDiNet, List.not_mem_nil, false_or]
    constructor
    · rintro ⟨e, d, hi⟩
      refine ⟨?_, e, d, hi⟩
      rw [dInc_iff] at hi
      obtain ⟨p, hp, _, hn⟩ := hi
      cases d
      · exact (h3 p hp).2.2.1 n hn
      · exact (h3 p hp).2.2.2 n hn
    · rintro ⟨_, e, d, he⟩; exact ⟨e, d, he⟩
  · intro e
    rw [mem_dEdgeIds_dLinkAll]
    simp only [mem_toBipartiteEdgelistDi, emptyDiNet, dEdgeIds, List.map_nil, List.not_mem_nil, false_or]
    constructor
    · rintro ⟨n, d, hi⟩
      refine ⟨?_, n, d, hi⟩
      rw [dInc_iff] at hi
      obtain ⟨p, hp, he, _⟩ := hi
      rw [List.mem_map]; exact ⟨p, hp, he⟩
    · rintro ⟨_, n, d, hn⟩; exact ⟨n, d, hn⟩

theorem hifDNodeStep_eq (a : ADiNet) (n : PyId) (av : Attrs) :
    (if n ∈ a.net.nodes then dASetNodeAttr a n av else dAAddNode a n av) = dAAddNode a n av := by
  unfold dASetNodeAttr dAAddNode; split <;> rfl

/-- directed analogue of `hifNodeRec_eq` -/
theorem dHifNodeRec_eq (a : ADiNet) (n : PyId) (av : Attrs) : dHifNodeRec a n av = dAAddNode a n av := by
  unfold dHifNodeRec
  split
  · rename_i hn; unfold dASetNodeAttr dAAddNode; simp only [hn, if_true]
  · rename_i hn
    unfold dASetNodeAttr dAAddNode
    simp only [hn, if_false, dAddNode, mem_ins, true_or, if_true, upd_apply, attrs_update_nil_right, upd_upd]

/-- directed analogue of `hifEdgeRec_eq` -/
theorem dHifEdgeRec_eq (a : ADiNet) (e : PyId) (av : Attrs) :
    dHifEdgeRec a e av = if e ∈ dEdgeIds a.net then dASetEdgeAttr a e av else dAAddEdge a e [] [] av := by
  unfold dHifEdgeRec
  split
  · rfl
  · rename_i he
    have h1 : e ∈ dEdgeIds (dAddEdge a.net e [] []) := by
      have he' := he
      unfold dEdgeIds at he'
      simp [dAddEdge, dEdgeIds, he']
    unfold dASetEdgeAttr dAAddEdge
    simp only [he, if_false, h1, if_true, upd_apply, attrs_update_nil_right, upd_upd]

theorem dAAddNode_fresh (a : ADiNet) (n : PyId) (av : Attrs) (hn : n ∉ a.net.nodes) :
    dAAddNode a n av = { a with net := { nodes := a.net.nodes ++ [n], edges := a.net.edges },
                                nattr := upd a.nattr n (Attrs.update [] av) } := by
  unfold dAAddNode dAddNode ins; simp [hn]

theorem dNodeFold_spec (ns : List PyId) (f : PyId → Attrs) (a0 : ADiNet) (hn : (a0.net.nodes ++ ns).Nodup) :
    (ns.foldl (fun a n => dAAddNode a n (f n)) a0).net.nodes = a0.net.nodes ++ ns ∧
    (ns.foldl (fun a n => dAAddNode a n (f n)) a0).net.edges = a0.net.edges ∧
    (ns.foldl (fun a n => dAAddNode a n (f n)) a0).eattr = a0.eattr ∧
    (ns.foldl (fun a n => dAAddNode a n (f n)) a0).gattr = a0.gattr ∧
    (∀ n ∈ ns, (ns.foldl (fun a n => dAAddNode a n (f n)) a0).nattr n = Attrs.update [] (f n)) := by
  induction ns generalizing a0 with
  | nil => simp
  | cons m t ih =>
    have hm : m ∉ a0.net.nodes := by
      intro hm
      rw [List.nodup_append] at hn
      exact hn.2.2 m hm m (by simp) rfl
    have hmt : m ∉ t := by
      rw [List.nodup_append] at hn
      have := hn.2.1
      simp only [List.nodup_cons] at this
      exact this.1
    simp only [List.foldl_cons]
    rw [dAAddNode_fresh a0 m (f m) hm]
    have hnd : ∀ (b : ADiNet) (l : List PyId) (x : PyId), x ∉ l →
        (l.foldl (fun a n => dAAddNode a n (f n)) b).nattr x = b.nattr x := by
      intro b l x hx
      induction l generalizing b with
      | nil => rfl
      | cons y l ih2 =>
        simp only [List.mem_cons, not_or] at hx
        simp only [List.foldl_cons]
        rw [ih2 _ hx.2]
        unfold dAAddNode; split <;> simp [hx.1]
    obtain ⟨i1, i2, i3, i4, i6⟩ := ih
      { a0 with net := { nodes := a0.net.nodes ++ [m], edges := a0.net.edges },
                nattr := upd a0.nattr m (Attrs.update [] (f m)) } (by simpa using hn)
    refine ⟨by rw [i1]; simp, i2, i3, i4, ?_⟩
    intro n hn'
    simp only [List.mem_cons] at hn'
    rcases hn' with rfl | hn'
    · rw [hnd _ t n hmt]; simp
    · exact i6 n hn'

theorem dAddEdge_fresh (h : DiNet) (e : PyId) (t hd : List PyId) (he : e ∉ dEdgeIds h) :
    dAddEdge h e t hd = { nodes := hd.foldl (fun acc x => ins x acc) (t.foldl (fun acc x => ins x acc) h.nodes),
                          edges := h.edges ++ [(e, dedup t, dedup hd)] } := by
  unfold dAddEdge; simp [he]

theorem dAAddEdge_fresh (a : ADiNet) (e : PyId) (t hd : List PyId) (av : Attrs) (he : e ∉ dEdgeIds a.net)
    (ht : ∀ x ∈ t, x ∈ a.net.nodes) (hh : ∀ x ∈ hd, x ∈ a.net.nodes) :
    dAAddEdge a e t hd av = { a with net := { nodes := a.net.nodes, edges := a.net.edges ++ [(e, dedup t, dedup hd)] },
                                     eattr := upd a.eattr e (Attrs.update [] av) } := by
  unfold dAAddEdge; simp only [he, if_false]
  rw [dAddEdge_fresh _ _ _ _ he, foldl_ins_noop t _ ht, foldl_ins_noop hd _ hh]

theorem dEdgeFold_spec (es : List (PyId × List PyId × List PyId)) (g : PyId → Attrs) (a0 : ADiNet)
    (hn : (dEdgeIds a0.net ++ es.map (·.1)).Nodup)
    (hm : ∀ p ∈ es, (∀ x ∈ p.2.1, x ∈ a0.net.nodes) ∧ (∀ x ∈ p.2.2, x ∈ a0.net.nodes)) :
    (es.foldl (fun a p => dAAddEdge a p.1 p.2.1 p.2.2 (g p.1)) a0).net.nodes = a0.net.nodes ∧
    (es.foldl (fun a p => dAAddEdge a p.1 p.2.1 p.2.2 (g p.1)) a0).net.edges =
        a0.net.edges ++ es.map (fun p => (p.1, dedup p.2.1, dedup p.2.2)) ∧
    (es.foldl (fun a p => dAAddEdge a p.1 p.2.1 p.2.2 (g p.1)) a0).nattr = a0.nattr ∧
    (es.foldl (fun a p => dAAddEdge a p.1 p.2.1 p.2.2 (g p.1)) a0).gattr = a0.gattr ∧
    (∀ p ∈ es, (es.foldl (fun a p => dAAddEdge a p.1 p.2.1 p.2.2 (g p.1)) a0).eattr p.1 = Attrs.update [] (g p.1)) ∧
    (∀ e, e ∉ es.map (·.1) → (es.foldl (fun a p => dAAddEdge a p.1 p.2.1 p.2.2 (g p.1)) a0).eattr e = a0.eattr e) := by
  induction es generalizing a0 with
  | nil => simp
  | cons q t ih =>
    have hq : q.1 ∉ dEdgeIds a0.net := by
      intro hq
      rw [List.nodup_append] at hn
      exact hn.2.2 _ hq q.1 (by simp) rfl
    have hqt : q.1 ∉ t.map (·.1) := by
      rw [List.nodup_append] at hn
      have := hn.2.1
      simp only [List.map_cons, List.nodup_cons] at this
      exact this.1
    simp only [List.foldl_cons]
    rw [dAAddEdge_fresh a0 q.1 q.2.1 q.2.2 (g q.1) hq (hm q (by simp)).1 (hm q (by simp)).2]
    obtain ⟨i1, i2, i3, i4, i6, i7⟩ := ih
      { a0 with net := { nodes := a0.net.nodes, edges := a0.net.edges ++ [(q.1, dedup q.2.1, dedup q.2.2)] },
                eattr := upd a0.eattr q.1 (Attrs.update [] (g q.1)) }
      (by simpa [dEdgeIds] using hn) (fun p hp => hm p (by simp [hp]))
    refine ⟨i1, by rw [i2]; simp, i3, i4, ?_, ?_⟩
    · intro p hp
      simp only [List.mem_cons] at hp
      rcases hp with rfl | hp
      · rw [i7 _ hqt]; simp
      · exact i6 p hp
    · intro e he
      simp only [List.map_cons, List.mem_cons, not_or] at he
      rw [i7 e he.2]; simp [he.1]

theorem toDiHypergraph_spec (src : ADiNet) (hw : ADWF src) :
    (toDiHypergraph src).net.nodes = src.net.nodes ∧ (toDiHypergraph src).net.edges = src.net.edges ∧
    (toDiHypergraph src).gattr = src.gattr ∧
    (∀ n ∈ src.net.nodes, (toDiHypergraph src).nattr n = src.nattr n) ∧
    (∀ e ∈ dEdgeIds src.net, (toDiHypergraph src).eattr e = src.eattr e) := by
  obtain ⟨⟨w1, w2, w3⟩, wg, wn, we⟩ := hw
  unfold toDiHypergraph
  simp only
  obtain ⟨n1, n2, n3, n4, n6⟩ := dNodeFold_spec src.net.nodes src.nattr emptyADiNet (by simpa [emptyADiNet, emptyDiNet] using w1)
  generalize (src.net.nodes.foldl (fun a n => dAAddNode a n (src.nattr n)) emptyADiNet) = a1 at n1 n2 n3 n4 n6 ⊢
  simp only [emptyADiNet, emptyDiNet, List.nil_append] at n1 n2 n3
  obtain ⟨m1, m2, m3, m4, m6, _⟩ := dEdgeFold_spec src.net.edges src.eattr a1
    (by simp only [dEdgeIds, n2, List.map_nil, List.nil_append]; exact w2)
    (fun p hp => ⟨fun x hx => by rw [n1]; exact (w3 p hp).2.2.1 x hx, fun x hx => by rw [n1]; exact (w3 p hp).2.2.2 x hx⟩)
  generalize (src.net.edges.foldl (fun a p => dAAddEdge a p.1 p.2.1 p.2.2 (src.eattr p.1)) a1) = a2 at m1 m2 m3 m4 m6 ⊢
  rw [n2, List.nil_append] at m2
  have hedges : a2.net.edges = src.net.edges := by
    rw [m2]
    conv => rhs; rw [← List.map_id src.net.edges]
    apply List.map_congr_left
    intro p hp
    rw [dedup_of_nodup (w3 p hp).1, dedup_of_nodup (w3 p hp).2.1]; rfl
  refine ⟨by show a2.net.nodes = _; rw [m1, n1], hedges, trivial, ?_, ?_⟩
  · intro n hn
    show a2.nattr n = _
    rw [m3, n6 n hn, attrs_update_nil (wn n hn)]
  · intro e he
    show a2.eattr e = _
    have he' := he
    unfold dEdgeIds at he; rw [List.mem_map] at he
    obtain ⟨p, hp, rfl⟩ := he
    rw [m6 p hp, attrs_update_nil (we p.1 he')]

end Xgi.C10
