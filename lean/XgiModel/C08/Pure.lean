/-
  C08 — the before/after oracle of the read-only check, as a model.
  `snapshot` is what the harness records of a network (node order, edge order, members, memberships, the three
  attribute levels with their key order, the counter, the frozen flag); `Observer`/`obs` are the read-only
  queries of `xgi.Hypergraph` and its views, written against the state `HG` of Core/HG.lean (not edited).
  `HG` stores total functions next to key lists; observers answer `notFound` outside the key lists (Python raises
  `IDNotFound`/`KeyError`/`XGIError`), so only the restriction to the keys is observable.  No Mathlib.
-/
import XgiModel.Core.HG

namespace Xgi.C08
open Xgi

/-- what a deep snapshot of an undirected network records -/
structure Snapshot where
  nodes : List PyId                          -- `list(H.nodes)` : iteration order
  edges : List PyId                          -- `list(H.edges)`
  members : List (PyId × List PyId)          -- `H.edges.members(dtype=dict)` (values are sets)
  memberships : List (PyId × List PyId)      -- `H.nodes.memberships()`      (values are sets)
  nodeAttrs : List (PyId × Attrs)            -- `_node_attr`, in its own key order
  edgeAttrs : List (PyId × Attrs)            -- `_edge_attr`, in its own key order
  netAttrs : Attrs                           -- `_net_attr`
  uid : Nat                                  -- `next(copy.copy(H._edge_uid))`
  frozen : Bool                              -- `H.is_frozen`
  deriving DecidableEq, Repr, Inhabited

def snapshot (s : HG) : Snapshot :=
  { nodes := s.nodes, edges := s.edges,
    members := s.edges.map (fun e => (e, s.mem e)),
    memberships := s.nodes.map (fun n => (n, s.memb n)),
    nodeAttrs := s.nattrK.map (fun n => (n, s.nattr n)),
    edgeAttrs := s.eattrK.map (fun e => (e, s.eattr e)),
    netAttrs := s.net, uid := s.uid, frozen := s.frozen }

/-- dict lookup in an association list, with a default for absent keys -/
def lookup {β : Type} (l : List (PyId × β)) (d : β) (k : PyId) : β :=
  match l with
  | [] => d
  | p :: t => if p.1 = k then p.2 else lookup t d k

/-- the state a snapshot describes (used by the driver: the harness sends the snapshot of a real network) -/
def ofSnapshot (p : Snapshot) : HG :=
  { nodes := p.nodes, edges := p.edges,
    memb := lookup p.memberships [], mem := lookup p.members [],
    nattrK := p.nodeAttrs.map (·.1), eattrK := p.edgeAttrs.map (·.1),
    nattr := lookup p.nodeAttrs [], eattr := lookup p.edgeAttrs [],
    net := p.netAttrs, uid := p.uid, frozen := p.frozen }

/-- results of the read-only queries -/
inductive Value where
  | ids (l : List PyId)                       -- an ordered sequence of IDs
  | set (l : List PyId)                       -- a Python set of IDs
  | dictOfSets (l : List (PyId × List PyId))  -- `{id: set}` in key order
  | attrs (a : Attrs)                         -- an attribute dict (key order kept)
  | attrDict (l : List (PyId × Attrs))        -- `{id: attribute dict}` in key order
  | val (v : Val)
  | nat (n : Nat)
  | bool (b : Bool)
  | notFound                                  -- `IDNotFound` / `XGIError` / `KeyError`
  deriving DecidableEq, Repr, Inhabited

/-- the read-only queries of a hypergraph and its two views -/
inductive Observer where
  | nodeList | edgeList | numNodes | numEdges
  | hasNode (n : PyId) | hasEdge (e : PyId)
  | members (e : PyId) | memberships (n : PyId) | membersDict | membershipsDict
  | degree (n : PyId) | size (e : PyId) | isMember (n e : PyId)
  | neighbors (n : PyId)
  | isolates | singletons | emptyEdges
  | nodeAttrs (n : PyId) | edgeAttrs (e : PyId) | nodeAttrDict | edgeAttrDict
  | netAttrs | netAttr (k : String)
  | nextAutoId | isFrozen
  deriving DecidableEq, Repr, Inhabited

def emptyEdges (s : HG) : List PyId := s.edges.filter (fun e => (s.mem e).length = 0)

def obs : Observer → HG → Value
  | .nodeList, s => .ids s.nodes                                   -- `list(H.nodes)`
  | .edgeList, s => .ids s.edges                                   -- `list(H.edges)`
  | .numNodes, s => .nat s.nodes.length                            -- `H.num_nodes`
  | .numEdges, s => .nat s.edges.length                            -- `H.num_edges`
  | .hasNode n, s => .bool (decide (n ∈ s.nodes))                  -- `n in H.nodes`
  | .hasEdge e, s => .bool (decide (e ∈ s.edges))                  -- `e in H.edges`
  | .members e, s => if e ∈ s.edges then .set (s.mem e) else .notFound          -- `H.edges.members(e)`
  | .memberships n, s => if n ∈ s.nodes then .set (s.memb n) else .notFound     -- `H.nodes.memberships(n)`
  | .membersDict, s => .dictOfSets (s.edges.map (fun e => (e, s.mem e)))        -- `H.edges.members(dtype=dict)`
  | .membershipsDict, s => .dictOfSets (s.nodes.map (fun n => (n, s.memb n)))   -- `H.nodes.memberships()`
  | .degree n, s => if n ∈ s.nodes then .nat (s.memb n).length else .notFound   -- `H.nodes.degree[n]`
  | .size e, s => if e ∈ s.edges then .nat (s.mem e).length else .notFound      -- `H.edges.size[e]`
  | .isMember n e, s => if e ∈ s.edges then .bool (decide (n ∈ s.mem e)) else .notFound   -- `n in H.edges.members(e)`
  | .neighbors n, s => if n ∈ s.nodes then .set (HG.nbrs s n) else .notFound    -- `H.nodes.neighbors(n)`
  | .isolates, s => .set (HG.isolates s)                           -- `H.nodes.isolates()`
  | .singletons, s => .set (HG.singletons s)                       -- `H.edges.singletons()`
  | .emptyEdges, s => .set (emptyEdges s)                          -- `H.edges.empty()`
  | .nodeAttrs n, s => if n ∈ s.nodes ∧ n ∈ s.nattrK then .attrs (s.nattr n) else .notFound   -- `H.nodes[n]`
  | .edgeAttrs e, s => if e ∈ s.edges ∧ e ∈ s.eattrK then .attrs (s.eattr e) else .notFound   -- `H.edges[e]`
  | .nodeAttrDict, s => .attrDict (s.nattrK.map (fun n => (n, s.nattr n)))      -- `_node_attr` with its key order
  | .edgeAttrDict, s => .attrDict (s.eattrK.map (fun e => (e, s.eattr e)))      -- `_edge_attr` with its key order
  | .netAttrs, s => .attrs s.net                                   -- `_net_attr`
  | .netAttr k, s => match s.net.get? k with                       -- `H[k]`
      | some v => .val v
      | none => .notFound
  | .nextAutoId, s => .ids [PyId.int s.uid]                        -- the ID `add_edge` without `idx` would use
  | .isFrozen, s => .bool s.frozen                                 -- `H.is_frozen`

/-! ### comparison up to the order inside sets (what the harness compares: sets as sets, dicts and lists in order) -/

/-- `{id: set}` dicts: same keys in the same order, values equal as sets -/
def DictOfSetsEquiv : List (PyId × List PyId) → List (PyId × List PyId) → Prop
  | [], [] => True
  | p :: t, q :: u => p.1 = q.1 ∧ p.2.Perm q.2 ∧ DictOfSetsEquiv t u
  | _, _ => False

def Value.Equiv : Value → Value → Prop
  | .set a, .set b => a.Perm b
  | .dictOfSets a, .dictOfSets b => DictOfSetsEquiv a b
  | x, y => x = y

structure Snapshot.Equiv (a b : Snapshot) : Prop where
  nodes : a.nodes = b.nodes
  edges : a.edges = b.edges
  members : DictOfSetsEquiv a.members b.members
  memberships : DictOfSetsEquiv a.memberships b.memberships
  nodeAttrs : a.nodeAttrs = b.nodeAttrs
  edgeAttrs : a.edgeAttrs = b.edgeAttrs
  netAttrs : a.netAttrs = b.netAttrs
  uid : a.uid = b.uid
  frozen : a.frozen = b.frozen

end Xgi.C08
