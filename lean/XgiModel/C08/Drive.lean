/-
  C08 driver: {"snap": <snapshot of a real network>, "o": <observer>, args…} → {"out":"ok","v": value}.
  The state is rebuilt with `ofSnapshot`, the answer is `obs`.  Used by Drivers/C08.lean.
-/
import XgiModel.Proto
import XgiModel.C08.Pure
open Lean Xgi.Proto

namespace Xgi.C08.Drive

def pairs? {β : Type} (f : Json → Option β) (j : Json) (k : String) : Option (List (PyId × β)) := do
  let l ← getArr? j k
  l.mapM (fun p => match p with
    | .arr #[i, v] => do pure ((← idOfJson? i), (← f v))
    | _ => none)

def snapshot? (j : Json) : Option Snapshot := do
  pure { nodes := (← getIds? j "nodes"), edges := (← getIds? j "edges"),
         members := (← pairs? idsOfJson? j "mem"), memberships := (← pairs? idsOfJson? j "memb"),
         nodeAttrs := (← pairs? attrsOfJson? j "nattr"), edgeAttrs := (← pairs? attrsOfJson? j "eattr"),
         netAttrs := (← getAttrs? j "net"), uid := (← getNat? j "uid"), frozen := (← getBool? j "frozen") }

def observer? (j : Json) : Option Observer := do
  match (← getStr? j "o") with
  | "nodeList" => pure .nodeList | "edgeList" => pure .edgeList
  | "numNodes" => pure .numNodes | "numEdges" => pure .numEdges
  | "hasNode" => pure (.hasNode (← getId? j "n")) | "hasEdge" => pure (.hasEdge (← getId? j "e"))
  | "members" => pure (.members (← getId? j "e")) | "memberships" => pure (.memberships (← getId? j "n"))
  | "membersDict" => pure .membersDict | "membershipsDict" => pure .membershipsDict
  | "degree" => pure (.degree (← getId? j "n")) | "size" => pure (.size (← getId? j "e"))
  | "isMember" => pure (.isMember (← getId? j "n") (← getId? j "e"))
  | "neighbors" => pure (.neighbors (← getId? j "n"))
  | "isolates" => pure .isolates | "singletons" => pure .singletons | "emptyEdges" => pure .emptyEdges
  | "nodeAttrs" => pure (.nodeAttrs (← getId? j "n")) | "edgeAttrs" => pure (.edgeAttrs (← getId? j "e"))
  | "nodeAttrDict" => pure .nodeAttrDict | "edgeAttrDict" => pure .edgeAttrDict
  | "netAttrs" => pure .netAttrs | "netAttr" => pure (.netAttr (← getStr? j "k"))
  | "nextAutoId" => pure .nextAutoId | "isFrozen" => pure .isFrozen
  | _ => none

def attrsJ (a : Attrs) : Json := Json.mkObj [("$attrs", attrsToJson a)]

def valueJson : Value → Json
  | .ids l => idsToJson l
  | .set l => setToJson l
  | .dictOfSets l => Json.arr (l.map (fun p => Json.arr #[idToJson p.1, setToJson p.2])).toArray
  | .attrs a => attrsJ a
  | .attrDict l => Json.arr (l.map (fun p => Json.arr #[idToJson p.1, attrsJ p.2])).toArray
  | .val v => valToJson v
  | .nat n => natJson n
  | .bool b => Json.bool b
  | .notFound => Json.str "err"

def handle (st : Unit) (j : Json) : Unit × Json :=
  match getField? j "snap" with
  | none => (st, badOp)
  | some sj =>
    match snapshot? sj, observer? j with
    | some p, some o => (st, Json.mkObj [("out", "ok"), ("v", valueJson (obs o (ofSnapshot p)))])
    | _, _ => (st, badOp)

end Xgi.C08.Drive
