/-
  Helper lemmas for C08: observers factor through the snapshot; set-valued parts respect permutations.
-/
import XgiModel.C08.Pure
import XgiModel.Lemmas.HGWF

namespace Xgi.C08
open Xgi HG

/-! ### association lists -/

theorem lookup_map {β : Type} (f : PyId → β) (d : β) (l : List PyId) (k : PyId) (hk : k ∈ l) :
    lookup (l.map (fun x => (x, f x))) d k = f k := by
  induction l with
  | nil => cases hk
  | cons a t ih =>
    simp only [List.map_cons, lookup]
    by_cases h : a = k
    · simp [h]
    · simp only [h, if_false]
      apply ih
      cases hk with
      | head => exact absurd rfl h
      | tail _ h' => exact h'

theorem flatMap_congr' {α β : Type} (l : List α) (f g : α → List β) (h : ∀ a ∈ l, f a = g a) :
    l.flatMap f = l.flatMap g := by
  induction l with
  | nil => rfl
  | cons a t ih =>
    simp only [List.flatMap_cons]
    rw [h a (by simp), ih (fun x hx => h x (by simp [hx]))]

/-- the part of well-formedness the `neighbors` observer relies on: memberships name existing edges -/
def MembClosed (s : HG) : Prop := ∀ n ∈ s.nodes, ∀ e ∈ s.memb n, e ∈ s.edges

theorem membClosed_of_wf {s : HG} (h : WF s) : MembClosed s := fun n hn e he => (h.n2e n hn e he).1

/-! ### `ofSnapshot ∘ snapshot` agrees with the state on the key lists -/

section roundtrip
variable (s : HG)

@[simp] theorem rt_nodes : (ofSnapshot (snapshot s)).nodes = s.nodes := rfl
@[simp] theorem rt_edges : (ofSnapshot (snapshot s)).edges = s.edges := rfl
@[simp] theorem rt_net : (ofSnapshot (snapshot s)).net = s.net := rfl
@[simp] theorem rt_uid : (ofSnapshot (snapshot s)).uid = s.uid := rfl
@[simp] theorem rt_frozen : (ofSnapshot (snapshot s)).frozen = s.frozen := rfl
@[simp] theorem rt_nattrK : (ofSnapshot (snapshot s)).nattrK = s.nattrK := by
  simp [ofSnapshot, snapshot, List.map_map, Function.comp_def]
@[simp] theorem rt_eattrK : (ofSnapshot (snapshot s)).eattrK = s.eattrK := by
  simp [ofSnapshot, snapshot, List.map_map, Function.comp_def]

theorem rt_mem {e : PyId} (he : e ∈ s.edges) : (ofSnapshot (snapshot s)).mem e = s.mem e :=
  lookup_map s.mem [] s.edges e he
theorem rt_memb {n : PyId} (hn : n ∈ s.nodes) : (ofSnapshot (snapshot s)).memb n = s.memb n :=
  lookup_map s.memb [] s.nodes n hn
theorem rt_nattr {n : PyId} (hn : n ∈ s.nattrK) : (ofSnapshot (snapshot s)).nattr n = s.nattr n :=
  lookup_map s.nattr [] s.nattrK n hn
theorem rt_eattr {e : PyId} (he : e ∈ s.eattrK) : (ofSnapshot (snapshot s)).eattr e = s.eattr e :=
  lookup_map s.eattr [] s.eattrK e he

theorem rt_nbrs (hs : MembClosed s) {n : PyId} (hn : n ∈ s.nodes) : nbrs (ofSnapshot (snapshot s)) n = nbrs s n := by
  unfold nbrs
  rw [rt_memb s hn]
  rw [flatMap_congr' (s.memb n) _ s.mem (fun e he => rt_mem s (hs n hn e he))]

end roundtrip

/-- every observer reads the state only through what the snapshot records -/
theorem obs_factor (s : HG) (hs : MembClosed s) (o : Observer) : obs o (ofSnapshot (snapshot s)) = obs o s := by
  cases o with
  | nodeList | edgeList | numNodes | numEdges | hasNode | hasEdge | netAttrs | netAttr | nextAutoId | isFrozen =>
    rfl
  | members e =>
    simp only [obs]
    by_cases h : e ∈ s.edges
    · have h' : e ∈ (ofSnapshot (snapshot s)).edges := h
      rw [if_pos h', if_pos h, rt_mem s h]
    · have h' : e ∉ (ofSnapshot (snapshot s)).edges := h
      rw [if_neg h', if_neg h]
  | memberships n =>
    simp only [obs]
    by_cases h : n ∈ s.nodes
    · have h' : n ∈ (ofSnapshot (snapshot s)).nodes := h
      rw [if_pos h', if_pos h, rt_memb s h]
    · have h' : n ∉ (ofSnapshot (snapshot s)).nodes := h
      rw [if_neg h', if_neg h]
  | membersDict =>
    simp only [obs, rt_edges]
    rw [List.map_congr_left (fun e he => by rw [rt_mem s he])]
  | membershipsDict =>
    simp only [obs, rt_nodes]
    rw [List.map_congr_left (fun n hn => by rw [rt_memb s hn])]
  | degree n =>
    simp only [obs]
    by_cases h : n ∈ s.nodes
    · have h' : n ∈ (ofSnapshot (snapshot s)).nodes := h
      rw [if_pos h', if_pos h, rt_memb s h]
    · have h' : n ∉ (ofSnapshot (snapshot s)).nodes := h
      rw [if_neg h', if_neg h]
  | size e =>
    simp only [obs]
    by_cases h : e ∈ s.edges
    · have h' : e ∈ (ofSnapshot (snapshot s)).edges := h
      rw [if_pos h', if_pos h, rt_mem s h]
    · have h' : e ∉ (ofSnapshot (snapshot s)).edges := h
      rw [if_neg h', if_neg h]
  | isMember n e =>
    simp only [obs]
    by_cases h : e ∈ s.edges
    · have h' : e ∈ (ofSnapshot (snapshot s)).edges := h
      rw [if_pos h', if_pos h, rt_mem s h]
    · have h' : e ∉ (ofSnapshot (snapshot s)).edges := h
      rw [if_neg h', if_neg h]
  | neighbors n =>
    simp only [obs]
    by_cases h : n ∈ s.nodes
    · have h' : n ∈ (ofSnapshot (snapshot s)).nodes := h
      rw [if_pos h', if_pos h, rt_nbrs s hs h]
    · have h' : n ∉ (ofSnapshot (snapshot s)).nodes := h
      rw [if_neg h', if_neg h]
  | isolates =>
    simp only [obs, isolates, rt_nodes]
    rw [List.filter_congr (fun n hn => by rw [rt_memb s hn])]
  | singletons =>
    simp only [obs, singletons, rt_edges]
    rw [List.filter_congr (fun e he => by rw [rt_mem s he])]
  | emptyEdges =>
    simp only [obs, emptyEdges, rt_edges]
    rw [List.filter_congr (fun e he => by rw [rt_mem s he])]
  | nodeAttrs n =>
    simp only [obs]
    by_cases h : n ∈ s.nodes ∧ n ∈ s.nattrK
    · have h' : n ∈ (ofSnapshot (snapshot s)).nodes ∧ n ∈ (ofSnapshot (snapshot s)).nattrK := by
        rw [rt_nattrK]; exact h
      rw [if_pos h', if_pos h, rt_nattr s h.2]
    · have h' : ¬ (n ∈ (ofSnapshot (snapshot s)).nodes ∧ n ∈ (ofSnapshot (snapshot s)).nattrK) := by
        rw [rt_nattrK]; exact h
      rw [if_neg h', if_neg h]
  | edgeAttrs e =>
    simp only [obs]
    by_cases h : e ∈ s.edges ∧ e ∈ s.eattrK
    · have h' : e ∈ (ofSnapshot (snapshot s)).edges ∧ e ∈ (ofSnapshot (snapshot s)).eattrK := by
        rw [rt_eattrK]; exact h
      rw [if_pos h', if_pos h, rt_eattr s h.2]
    · have h' : ¬ (e ∈ (ofSnapshot (snapshot s)).edges ∧ e ∈ (ofSnapshot (snapshot s)).eattrK) := by
        rw [rt_eattrK]; exact h
      rw [if_neg h', if_neg h]
  | nodeAttrDict =>
    simp only [obs, rt_nattrK]
    rw [List.map_congr_left (fun n hn => by rw [rt_nattr s hn])]
  | edgeAttrDict =>
    simp only [obs, rt_eattrK]
    rw [List.map_congr_left (fun e he => by rw [rt_eattr s he])]

/-! ### sets up to order -/

theorem dictEquiv_map (l : List PyId) (f g : PyId → List PyId) :
    DictOfSetsEquiv (l.map (fun x => (x, f x))) (l.map (fun x => (x, g x))) ↔ ∀ x ∈ l, (f x).Perm (g x) := by
  induction l with
  | nil => simp [DictOfSetsEquiv]
  | cons a t ih => simp [DictOfSetsEquiv, ih]

theorem Value.equiv_refl (v : Value) : v.Equiv v := by
  cases v <;> simp [Value.Equiv]
  case dictOfSets l =>
    induction l with
    | nil => simp [DictOfSetsEquiv]
    | cons a t ih => exact ⟨rfl, List.Perm.refl _, ih⟩

theorem mem_nbrs (s : HG) (n x : PyId) : x ∈ nbrs s n ↔ x ≠ n ∧ ∃ e ∈ s.memb n, x ∈ s.mem e := by
  unfold nbrs; simp [List.mem_flatMap]

theorem nodup_nbrs (s : HG) (n : PyId) : (nbrs s n).Nodup := by
  unfold nbrs; exact nodup_rm (nodup_dedup _)

theorem equiv_ite {p q : Prop} [Decidable p] [Decidable q] (hpq : p ↔ q) {a b : Value} (hab : p → a.Equiv b) :
    (if p then a else Value.notFound).Equiv (if q then b else Value.notFound) := by
  by_cases hp : p
  · rw [if_pos hp, if_pos (hpq.mp hp)]; exact hab hp
  · rw [if_neg hp, if_neg (fun hq => hp (hpq.mpr hq))]; simp [Value.Equiv]

theorem nbrs_perm {s s' : HG} (hs : MembClosed s)
    (hm : ∀ e ∈ s.edges, (s.mem e).Perm (s'.mem e)) (hmb : ∀ n ∈ s.nodes, (s.memb n).Perm (s'.memb n))
    {n : PyId} (h : n ∈ s.nodes) : (nbrs s n).Perm (nbrs s' n) := by
  rw [List.perm_ext_iff_of_nodup (nodup_nbrs s n) (nodup_nbrs s' n)]
  intro x
  rw [mem_nbrs, mem_nbrs]
  constructor
  · rintro ⟨hx, e, hemb, hxe⟩
    have hee := hs n h e hemb
    exact ⟨hx, e, (hmb n h).mem_iff.mp hemb, (hm e hee).mem_iff.mp hxe⟩
  · rintro ⟨hx, e, hemb, hxe⟩
    have hemb' := (hmb n h).mem_iff.mpr hemb
    have hee := hs n h e hemb'
    exact ⟨hx, e, hemb', (hm e hee).mem_iff.mpr hxe⟩

/-- equal snapshots carry `MembClosed` over -/
theorem membClosed_of_snapshot_eq {s s' : HG} (hs : MembClosed s) (h : snapshot s = snapshot s') : MembClosed s' := by
  have hn : s.nodes = s'.nodes := congrArg Snapshot.nodes h
  have he : s.edges = s'.edges := congrArg Snapshot.edges h
  have hmb : s.nodes.map (fun n => (n, s.memb n)) = s'.nodes.map (fun n => (n, s'.memb n)) := congrArg Snapshot.memberships h
  intro n hn' e hemb
  have hn0 : n ∈ s.nodes := hn ▸ hn'
  have : s.memb n = s'.memb n := by
    rw [← lookup_map s.memb [] s.nodes n hn0, ← lookup_map s'.memb [] s'.nodes n hn', hmb]
  rw [← he]; exact hs n hn0 e (this ▸ hemb)

/-- `add_edge` without `idx` on any state appends exactly the ID `uid` -/
theorem link_edges (s : HG) (e n : PyId) : (link s e n).edges = s.edges := by
  unfold link linkCore; simp

theorem foldl_link_edges (ms : List PyId) (s : HG) (e : PyId) :
    (ms.foldl (fun s n => link s e n) s).edges = s.edges := by
  induction ms generalizing s with
  | nil => rfl
  | cons a t ih => simp only [List.foldl_cons]; rw [ih, link_edges]

end Xgi.C08
