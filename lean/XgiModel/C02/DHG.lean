/-
  Model of `xgi.core.dihypergraph.DiHypergraph`, method by method (directed twin of Core/HG.lean).

  State = the four dicts (`_node`, `_edge`, `_node_attr`, `_edge_attr`) + `_net_attr` + the
  `itertools.count` + the frozen flag.  The two-level dicts `_node[n] = {"in": set, "out": set}` and
  `_edge[e] = {"in": set, "out": set}` are four lookup functions, named as the public API names them:

    membIn  n = `_node[n]["in"]`   edges in whose HEAD n appears   (`DH.nodes.dimemberships(n)[0]`)
    membOut n = `_node[n]["out"]`  edges in whose TAIL n appears   (`DH.nodes.dimemberships(n)[1]`)
    tail    e = `_edge[e]["in"]`   (`DH.edges.tail(e)`,  `dimembers(e)[0]`)
    head    e = `_edge[e]["out"]`  (`DH.edges.head(e)`,  `dimembers(e)[1]`)

  i.e. the code pairs node["out"] with edge["in"] (tail) and node["in"] with edge["out"] (head).

  Dicts are (key list in insertion order, total lookup function); Python sets are duplicate-free lists
  whose order is never observed.  Each mutator is `DHG → args → DHG × Outcome` (or `Option` of it where
  an argument shape lies outside the model); the state of an `err` result is what the Python code leaves
  behind when it raises.  The directed mutators iterate the caller's tail/head lists in list order, so no
  set-iteration oracle is needed.

  The model describes the repaired code (proposed_fixes/C02-*.diff, in /repo as 307633d, d32d5fa,
  8a6cdf6): members are validated before the first write (F1), strong node removal purges the deleted
  edges from the other members' memberships (F2), every explicit edge ID advances the counter (F4).
  `freeze` covers every structural mutator (complete since /repo 85761ac, C18's finding F12).
-/
import XgiModel.Base
import XgiModel.Core.HG   -- only for the shared `ErrKind` / `Outcome`

namespace Xgi

structure DHG where
  nodes : List PyId            -- keys of `_node`, insertion order
  edges : List PyId            -- keys of `_edge`, insertion order
  membIn  : PyId → List PyId   -- `_node[n]["in"]`  : edges with n in the head
  membOut : PyId → List PyId   -- `_node[n]["out"]` : edges with n in the tail
  tail : PyId → List PyId      -- `_edge[e]["in"]`
  head : PyId → List PyId      -- `_edge[e]["out"]`
  nattrK : List PyId           -- keys of `_node_attr`
  eattrK : List PyId           -- keys of `_edge_attr`
  nattr : PyId → Attrs
  eattr : PyId → Attrs
  net   : Attrs
  uid   : Nat                  -- next value of `_edge_uid`
  frozen : Bool

def DHG.empty : DHG :=
  { nodes := [], edges := [], membIn := fun _ => [], membOut := fun _ => [], tail := fun _ => [],
    head := fun _ => [], nattrK := [], eattrK := [], nattr := fun _ => [], eattr := fun _ => [],
    net := [], uid := 0, frozen := false }

instance : Inhabited DHG := ⟨DHG.empty⟩

namespace DHG

/-! ### primitives (each mirrors 1–4 lines of Python) -/

/-- `if n not in self._node: self._node[n] = {"in": set(), "out": set()}; self._node_attr[n] = {}` -/
def addNodeRaw (s : DHG) (n : PyId) : DHG :=
  if n ∈ s.nodes then s else
  { s with nodes := s.nodes ++ [n], membIn := upd s.membIn n [], membOut := upd s.membOut n [],
           nattrK := ins n s.nattrK, nattr := upd s.nattr n [] }

/-- `self._node_attr[n].update(a)` -/
def updNodeAttr (s : DHG) (n : PyId) (a : Attrs) : DHG :=
  { s with nattr := upd s.nattr n ((s.nattr n).update a) }

/-- `self._edge_attr[e].update(a)` -/
def updEdgeAttr (s : DHG) (e : PyId) (a : Attrs) : DHG :=
  { s with eattr := upd s.eattr e ((s.eattr e).update a) }

/-- `self._edge[e] = {"in": set(), "out": set()}` for a new key `e` -/
def newEdgeRaw (s : DHG) (e : PyId) : DHG :=
  { s with edges := s.edges ++ [e], tail := upd s.tail e [], head := upd s.head e [] }

/-- `self._edge_attr[e] = {}` -/
def newEdgeAttr (s : DHG) (e : PyId) : DHG :=
  { s with eattrK := ins e s.eattrK, eattr := upd s.eattr e [] }

/-- `self._node[n]["out"].add(e); self._edge[e]["in"].add(n)` -/
def linkTailCore (s : DHG) (e n : PyId) : DHG :=
  { s with membOut := upd s.membOut n (ins e (s.membOut n)), tail := upd s.tail e (ins n (s.tail e)) }

/-- `self._node[n]["in"].add(e); self._edge[e]["out"].add(n)` -/
def linkHeadCore (s : DHG) (e n : PyId) : DHG :=
  { s with membIn := upd s.membIn n (ins e (s.membIn n)), head := upd s.head e (ins n (s.head e)) }

/-- node `n` (created if absent) joins the tail of `e` -/
def linkTail (s : DHG) (e n : PyId) : DHG := linkTailCore (addNodeRaw s n) e n
/-- node `n` (created if absent) joins the head of `e` -/
def linkHead (s : DHG) (e n : PyId) : DHG := linkHeadCore (addNodeRaw s n) e n

/-- `update_uid_counter(DH, idx)` -/
def bumpUid (s : DHG) (idx : PyId) : DHG :=
  match idx with
  | .atom (.int i) => if (s.uid : Int) ≤ i then { s with uid := (i + 1).toNat } else s
  | _ => s

/-- `for node in edge["in"]: self._node[node]["out"].remove(e); for node in edge["out"]:
    self._node[node]["in"].remove(e); del self._edge[e]; del self._edge_attr[e]` -/
def dropEdge (s : DHG) (e : PyId) : DHG :=
  { s with membOut := fun n => if n ∈ s.tail e then rm e (s.membOut n) else s.membOut n,
           membIn := fun n => if n ∈ s.head e then rm e (s.membIn n) else s.membIn n,
           edges := rm e s.edges, eattrK := rm e s.eattrK }

/-- `del self._edge[e]; del self._edge_attr[e]` (memberships untouched) -/
def delEdgeOnly (s : DHG) (e : PyId) : DHG :=
  { s with edges := rm e s.edges, eattrK := rm e s.eattrK }

/-- create edge `e` (absent) with the given tail and head (caller's list order, duplicates allowed) and
    attributes: `for node in tail: …; for node in head: …`.
    (The attribute record is written after the two loops in `add_edge`, between them in the dict format;
    the writes touch different dicts and nothing can raise in between once the members are validated.) -/
def addEdgeAt (s : DHG) (e : PyId) (tl hd : List PyId) (a : Attrs) : DHG :=
  hd.foldl (fun s n => linkHead s e n)
    (tl.foldl (fun s n => linkTail s e n) (updEdgeAttr (newEdgeAttr (newEdgeRaw s e) e) e a))

/-- iterate `f` over the items, stop at the first raise (state so far is kept) -/
def bulk {α : Type} (f : DHG → α → DHG × Outcome) : DHG → List α → DHG × Outcome
  | s, [] => (s, .ok)
  | s, a :: t =>
    match f s a with
    | (s', .err k) => (s', .err k)
    | (s', o) => let r := bulk f s' t; (r.1, o.join r.2)

/-- a call, from inside a library function, of a public method that `freeze()` replaces by
    `frozen`: on a frozen network it raises before doing anything -/
def guardF (s : DHG) (r : DHG × Outcome) : DHG × Outcome :=
  if s.frozen then (s, .err .lib) else r

/-- sequence two steps, stopping at a raise -/
def andThen (r : DHG × Outcome) (f : DHG → DHG × Outcome) : DHG × Outcome :=
  if r.2.isErr then r else
  let r' := f r.1
  (r'.1, r.2.join r'.2)

/-! ### nodes -/

def addNode (s : DHG) (n : PyId) (a : Attrs) : DHG × Outcome :=
  if n = .none then (s, .err .lib) else
  (updNodeAttr (addNodeRaw s n) n a, .ok)

/-- one item of `add_nodes_from`: a bare id or an `(id, dict)` pair -/
def addNodesItem (attr : Attrs) (s : DHG) (it : PyId × Option Attrs) : DHG × Outcome :=
  let (n, od) := it
  if n = .none ∧ n ∉ s.nodes then (s, .err .lib) else
  let nd := match od with | none => attr | some d => attr.update d
  (updNodeAttr (addNodeRaw s n) n nd, .ok)

def addNodesFrom (s : DHG) (items : List (PyId × Option Attrs)) (attr : Attrs) : DHG × Outcome :=
  bulk (addNodesItem attr) s items

/-- weak removal:
    `for edge in nb["in"]: self._edge[edge]["out"].remove(n)`
    `for edge in nb["out"]: self._edge[edge]["in"].remove(n)`
    `for edge in nb["in"] | nb["out"]: if not tail and not head and remove_empty: del …`
    — the loop bodies touch disjoint entries, so the loops are written as one simultaneous update -/
def removeNodeWeak (s : DHG) (n : PyId) (removeEmpty : Bool) : DHG :=
  let incIn := s.membIn n
  let incOut := s.membOut n
  let head' (e : PyId) : List PyId := if e ∈ incIn then rm n (s.head e) else s.head e
  let tail' (e : PyId) : List PyId := if e ∈ incOut then rm n (s.tail e) else s.tail e
  let gone (e : PyId) : Bool :=
    (decide (e ∈ incIn) || decide (e ∈ incOut)) && (tail' e).isEmpty && (head' e).isEmpty && removeEmpty
  { s with nodes := rm n s.nodes, nattrK := rm n s.nattrK, head := head', tail := tail',
           edges := s.edges.filter (fun e => !gone e),
           eattrK := s.eattrK.filter (fun e => !gone e) }

/-- strong removal (repaired, F2):
    `for e in nb["in"] | nb["out"]: m = self._edge[e]; del self._edge[e]; del self._edge_attr[e];`
    `for node in m["in"] - {n}: self._node[node]["out"].remove(e);`
    `for node in m["out"] - {n}: self._node[node]["in"].remove(e)`  as one simultaneous update -/
def removeNodeStrong (s : DHG) (n : PyId) : DHG :=
  let incIn := s.membIn n
  let incOut := s.membOut n
  { s with nodes := rm n s.nodes, nattrK := rm n s.nattrK,
           edges := s.edges.filter (fun e => ¬ (e ∈ incIn ∨ e ∈ incOut)),
           eattrK := s.eattrK.filter (fun e => ¬ (e ∈ incIn ∨ e ∈ incOut)),
           membOut := fun m => (s.membOut m).filter (fun e => ¬ ((e ∈ incIn ∨ e ∈ incOut) ∧ m ∈ s.tail e ∧ m ≠ n)),
           membIn := fun m => (s.membIn m).filter (fun e => ¬ ((e ∈ incIn ∨ e ∈ incOut) ∧ m ∈ s.head e ∧ m ≠ n)) }

def removeNode (s : DHG) (n : PyId) (strong removeEmpty : Bool) : DHG × Outcome :=
  if n ∉ s.nodes then (s, .err .lib) else
  if strong then (removeNodeStrong s n, .ok) else (removeNodeWeak s n removeEmpty, .ok)

def removeNodesItem (strong removeEmpty : Bool) (s : DHG) (n : PyId) : DHG × Outcome :=
  if n ∉ s.nodes then (s, .warned) else removeNode s n strong removeEmpty

def removeNodesFrom (s : DHG) (ns : List PyId) (strong removeEmpty : Bool) : DHG × Outcome :=
  bulk (removeNodesItem strong removeEmpty) s ns

/-! ### edges -/

/-- the `members` argument of a directed edge: a 2-sequence `(tail, head)`; or something that is not a
    list/tuple (`notSeq`, e.g. a set); or a list/tuple with fewer than two entries (`short`) -/
inductive DiMembers where
  | pair (tail head : List PyId)
  | notSeq
  | short
  deriving Inhabited, Repr

/-- `add_edge(members, idx, **attr)` (repaired, F1/F4: members validated before the first write and before
    the counter is consumed; `idx is not None` advances the counter).  `idx = none` is Python's `idx=None`. -/
def addEdge (s : DHG) (m : DiMembers) (idx : Option PyId) (a : Attrs) : DHG × Outcome :=
  match m with
  | .notSeq => (s, .err .lib)          -- "Directed edge must be a list or tuple!"
  | .short => (s, .err .other)         -- IndexError from members[1]
  | .pair tl hd =>
    if PyId.none ∈ tl ∨ PyId.none ∈ hd ∨ idx = some .none then (s, .err .lib) else
    match idx with
    | some i =>
      if i ∈ s.edges then (s, .warned) else
      (bumpUid (addEdgeAt s i tl hd a) i, .ok)
    | none =>
      let i := PyId.int s.uid
      let s := { s with uid := s.uid + 1 }
      (addEdgeAt s i tl hd a, .ok)

inductive Fmt where
  | f1 | f2 | f3 | f4 | f5
  deriving DecidableEq, Repr, Inhabited

/-- one item of a bulk edge addition: members as given, explicit id (formats 2,4,5), per-edge
    attributes (formats 3,4) -/
structure EdgeItem where
  members : DiMembers
  idx : Option PyId
  attr : Attrs
  deriving Inhabited

def Fmt.explicit : Fmt → Bool
  | .f2 | .f4 | .f5 => true
  | _ => false

/-- loop body of `add_edges_from` (repaired, F1/F4) -/
def addEdgesItem (fmt : Fmt) (attr : Attrs) (s : DHG) (it : EdgeItem) : DHG × Outcome :=
  -- the id: automatic in formats 1 and 3 (the counter is consumed first), explicit otherwise
  let (s, idx) : DHG × PyId :=
    if fmt.explicit then (s, it.idx.getD .none)
    else ({ s with uid := s.uid + 1 }, PyId.int s.uid)
  if idx ∈ s.edges then (s, .warned) else
  match it.members with
  | .notSeq => (s, .err .lib)      -- f5: explicit isinstance test; f1–f4: TypeError → "Invalid ebunch format"
  | .short => (s, .err .other)     -- IndexError from members[1]
  | .pair tl hd =>
    if PyId.none ∈ tl ∨ PyId.none ∈ hd ∨ idx = .none then (s, .err .lib) else
    let a := if fmt = .f5 then [] else attr.update it.attr
    let s := addEdgeAt s idx tl hd a
    (if fmt.explicit then bumpUid s idx else s, .ok)

def addEdgesBulk (s : DHG) (fmt : Fmt) (items : List EdgeItem) (attr : Attrs) : DHG × Outcome :=
  bulk (addEdgesItem fmt attr) s items

def isTup : PyId → Bool
  | .tup _ => true
  | _ => false

/-- `add_edges_from(ebunch, **attr)`.  The format is detected from `list(first_edge)[1]`:
    an iterable that is neither str nor dict means format 1.  Outside the model (`none`): a first
    element whose second entry is a tuple edge ID (formats 2/4 would be taken for format 1) and a first
    format-1 element that is not a sequence. -/
def addEdgesFrom (s : DHG) (fmt : Fmt) (items : List EdgeItem) (attr : Attrs) : Option (DHG × Outcome) :=
  match fmt, items with
  | .f1, it :: _ =>
    match it.members with
    | .short => some (s, .err .other)       -- IndexError in the format detection, nothing consumed
    | .notSeq => none
    | .pair _ _ => some (addEdgesBulk s fmt items attr)
  | .f2, it :: _ => if (it.idx.map isTup).getD false then none else some (addEdgesBulk s fmt items attr)
  | .f4, it :: _ => if (it.idx.map isTup).getD false then none else some (addEdgesBulk s fmt items attr)
  | _, _ => some (addEdgesBulk s fmt items attr)

/-- the `direction` argument: `"in"` = tail, `"out"` = head, anything else is rejected -/
inductive Dir where
  | tail | head | invalid
  deriving DecidableEq, Repr, Inhabited

/-- `add_node_to_edge(edge, node, direction)` (repaired: `None` rejected before the first write, F1;
    a created edge advances the counter, F4) -/
def addNodeToEdge (s : DHG) (e n : PyId) (d : Dir) : DHG × Outcome :=
  if d = .invalid then (s, .err .lib) else
  if e = .none ∨ n = .none then (s, .err .lib) else
  let s := if e ∈ s.edges then s else bumpUid (newEdgeAttr (newEdgeRaw s e) e) e
  (if d = .tail then linkTail s e n else linkHead s e n, .ok)

def removeEdge (s : DHG) (e : PyId) : DHG × Outcome :=
  if e ∉ s.edges then (s, .err .lib) else (dropEdge s e, .ok)

def removeEdgesFrom (s : DHG) (es : List PyId) : DHG × Outcome := bulk removeEdge s es

/-- `remove_node_from_edge(edge, node, direction, remove_empty)` -/
def removeNodeFromEdge (s : DHG) (e n : PyId) (d : Dir) (removeEmpty : Bool) : DHG × Outcome :=
  if d = .invalid then (s, .err .lib)
  else if e ∉ s.edges then (s, .err .lib)
  else if n ∉ s.nodes then (s, .err .lib)
  else if d = .tail then
    if n ∉ s.tail e then (s, .err .lib) else
    let s := { s with tail := upd s.tail e (rm n (s.tail e)), membOut := upd s.membOut n (rm e (s.membOut n)) }
    (if (s.tail e).isEmpty ∧ (s.head e).isEmpty ∧ removeEmpty then delEdgeOnly s e else s, .ok)
  else
    if n ∉ s.head e then (s, .err .lib) else
    let s := { s with head := upd s.head e (rm n (s.head e)), membIn := upd s.membIn n (rm e (s.membIn n)) }
    (if (s.tail e).isEmpty ∧ (s.head e).isEmpty ∧ removeEmpty then delEdgeOnly s e else s, .ok)

/-! ### attributes -/

/-- argument shapes of `set_node_attributes` / `set_edge_attributes` -/
inductive AttrArg where
  | dictName (vals : List (PyId × Val)) (name : String)   -- values = {id: v}, name given
  | constName (v : Val) (name : String)                    -- values = constant, name given
  | dictOfDict (vals : List (PyId × Attrs))                -- values = {id: {k: v}}
  | badNoName                                              -- values not a dict, no name
  deriving Inhabited

def setNodeAttrs (s : DHG) (arg : AttrArg) : DHG × Outcome :=
  match arg with
  | .dictName vals name =>
    bulk (fun s (p : PyId × Val) =>
      if p.1 ∈ s.nattrK then (updNodeAttr s p.1 [(name, p.2)], .ok) else (s, .warned)) s vals
  | .constName v name => (s.nodes.foldl (fun s n => updNodeAttr s n [(name, v)]) s, .ok)
  | .dictOfDict vals =>
    bulk (fun s (p : PyId × Attrs) =>
      if p.1 ∈ s.nattrK then (updNodeAttr s p.1 p.2, .ok) else (s, .warned)) s vals
  | .badNoName => (s, .err .lib)

def setEdgeAttrs (s : DHG) (arg : AttrArg) : DHG × Outcome :=
  match arg with
  | .dictName vals name =>
    bulk (fun s (p : PyId × Val) =>
      if p.1 ∈ s.eattrK then (updEdgeAttr s p.1 [(name, p.2)], .ok) else (s, .warned)) s vals
  | .constName v name => (s.edges.foldl (fun s e => updEdgeAttr s e [(name, v)]) s, .ok)
  | .dictOfDict vals =>
    bulk (fun s (p : PyId × Attrs) =>
      if p.1 ∈ s.eattrK then (updEdgeAttr s p.1 p.2, .ok) else (s, .warned)) s vals
  | .badNoName => (s, .err .lib)

def setNetAttr (s : DHG) (k : String) (v : Val) : DHG × Outcome :=
  ({ s with net := s.net.set k v }, .ok)

/-! ### clear / copy -/

def clear (s : DHG) (removeNetAttr : Bool) : DHG × Outcome :=
  ({ s with nodes := [], edges := [], nattrK := [], eattrK := [],
            net := if removeNetAttr then [] else s.net }, .ok)

/-- `DH.copy()`: a fresh (unfrozen) `DiHypergraph()` filled through the public mutators
    `add_nodes_from((n, attrs) …)` and `add_edges_from((dimembers, id, attrs) …)` (format 4), then
    `_net_attr` and the counter are copied over.  A raise inside leaves the original untouched
    (the caller never receives the copy); a warning inside (it cannot happen on a well-formed source:
    `C07D.copy_snapshot`) would be the outcome of the call. -/
def copy (s : DHG) : Option (DHG × Outcome) :=
  let r1 := addNodesFrom DHG.empty (s.nodes.map (fun n => (n, some (s.nattr n)))) []
  if r1.2.isErr then some (s, r1.2) else
  match addEdgesFrom r1.1 .f4
      (s.edges.map (fun e => { members := .pair (s.tail e) (s.head e), idx := some e, attr := s.eattr e })) [] with
  | none => none
  | some r2 =>
    if r2.2.isErr then some (s, r2.2) else
    some ({ r2.1 with net := s.net, uid := s.uid }, r1.2.join r2.2)

/-! ### convert_labels_to_integers(in_place=True), DiHypergraph branch -/

def indexOf (l : List PyId) (x : PyId) : Nat := l.findIdx (· = x)

/-- an ID stored as an attribute value -/
def idVal : PyId → Val
  | .atom (.int i) => .sc (.int i)
  | .atom (.str t) => .sc (.str t)
  | .tup l => .sc (.opaque ("[" ++ ", ".intercalate (l.map (fun a => match a with
      | .int i => toString i
      | .str t => "\"" ++ t ++ "\"")) ++ "]"))
  | .none => .sc .none

def relabel (s : DHG) (labelAttr : String) : DHG × Outcome :=
  let nodes0 := s.nodes
  let edges0 := s.edges
  let nidx (n : PyId) : PyId := PyId.int (indexOf nodes0 n)
  let eidx (e : PyId) : PyId := PyId.int (indexOf edges0 e)
  if s.frozen then (s, .err .lib) else        -- `net.clear(...)` is the first mutating call
  let s1 := (clear s false).1
  let r1 := addNodesFrom s1 (nodes0.map (fun n => (nidx n, some (s.nattr n)))) []
  let r2 := setNodeAttrs r1.1 (.dictOfDict (nodes0.map (fun n => (nidx n, [(labelAttr, idVal n)]))))
  let r3 := addEdgesBulk r2.1 .f4
    (edges0.map (fun e => { members := .pair ((s.tail e).map nidx) ((s.head e).map nidx),
                            idx := some (eidx e), attr := s.eattr e })) []
  let r4 := setEdgeAttrs r3.1 (.dictOfDict (edges0.map (fun e => (eidx e, [(labelAttr, idVal e)]))))
  (r4.1, .ok)

/-! ### cleanup -/

/-- `DH.nodes.isolates()`: nodes of degree 0 (`len(in | out) == 0`) -/
def isolates (s : DHG) : List PyId :=
  s.nodes.filter (fun n => (s.membIn n).isEmpty && (s.membOut n).isEmpty)

/-- `if not isolates: _DH.remove_nodes_from(_DH.nodes.isolates())`; `if relabel: convert_labels_to_integers(_DH, in_place=True)` -/
def cleanupBody (r0 : DHG × Outcome) (isolatesOk relabelF : Bool) : DHG × Outcome :=
  let r1 := andThen r0 (fun t => if isolatesOk then (t, .ok) else guardF t (removeNodesFrom t (isolates t) false true))
  andThen r1 (fun t => if relabelF then relabel t "label" else (t, .ok))

/-- `cleanup(isolates, relabel, in_place)`.  With `in_place=False` the work is done on `self.copy()` and
    that copy is returned: the history continues on the returned network (this is how the harness uses
    it); if anything raises, the caller keeps the original. -/
def cleanup (s : DHG) (isolatesOk relabelF inPlace : Bool) : Option (DHG × Outcome) :=
  let r0 : Option (DHG × Outcome) := if inPlace then some (s, .ok) else copy s
  r0.map fun r0 =>
    if r0.2.isErr then r0 else
    let r2 := cleanupBody r0 isolatesOk relabelF
    if !inPlace && r2.2.isErr then (s, r2.2) else r2

/-! ### the op alphabet -/

inductive Op where
  | addNode (n : PyId) (a : Attrs)
  | addNodesFrom (items : List (PyId × Option Attrs)) (a : Attrs)
  | removeNode (n : PyId) (strong removeEmpty : Bool)
  | removeNodesFrom (ns : List PyId) (strong removeEmpty : Bool)
  | addEdge (m : DiMembers) (idx : Option PyId) (a : Attrs)
  | addEdgesFrom (fmt : Fmt) (items : List EdgeItem) (a : Attrs)
  | addNodeToEdge (e n : PyId) (d : Dir)
  | removeEdge (e : PyId)
  | removeEdgesFrom (es : List PyId)
  | removeNodeFromEdge (e n : PyId) (d : Dir) (removeEmpty : Bool)
  | setNodeAttrs (arg : AttrArg)
  | setEdgeAttrs (arg : AttrArg)
  | setNetAttr (k : String) (v : Val)
  | clear (removeNetAttr : Bool)
  | copy                                   -- `DH = DH.copy()`: the history continues on the copy
  | cleanup (isolatesOk relabel inPlace : Bool)
  | relabel (labelAttr : String)
  | freeze
  deriving Inhabited

/-- which ops a frozen network rejects: the names `freeze()` assigns `frozen` to (including
    `add_node_to_edge` / `remove_node_from_edge` since C18's repair of F12) -/
def Op.guardedByFreeze : Op → Bool
  | .addNode .. | .addNodesFrom .. | .removeNode .. | .removeNodesFrom .. | .addEdge ..
  | .addEdgesFrom .. | .removeEdge .. | .removeEdgesFrom .. | .clear ..
  | .addNodeToEdge .. | .removeNodeFromEdge .. => true
  | _ => false

/-- the unfrozen semantics of each op; `none` = outside the model (driver answers "unmodelled") -/
def stepCore (s : DHG) : Op → Option (DHG × Outcome)
  | .addNode n a => some (addNode s n a)
  | .addNodesFrom items a => some (addNodesFrom s items a)
  | .removeNode n st re => some (removeNode s n st re)
  | .removeNodesFrom ns st re => some (removeNodesFrom s ns st re)
  | .addEdge m idx a => some (addEdge s m idx a)
  | .addEdgesFrom fmt items a => addEdgesFrom s fmt items a
  | .addNodeToEdge e n d => some (addNodeToEdge s e n d)
  | .removeEdge e => some (removeEdge s e)
  | .removeEdgesFrom es => some (removeEdgesFrom s es)
  | .removeNodeFromEdge e n d re => some (removeNodeFromEdge s e n d re)
  | .setNodeAttrs arg => some (setNodeAttrs s arg)
  | .setEdgeAttrs arg => some (setEdgeAttrs s arg)
  | .setNetAttr k v => some (setNetAttr s k v)
  | .clear r => some (clear s r)
  | .copy => copy s
  | .cleanup a b c => cleanup s a b c
  | .relabel l => some (relabel s l)
  | .freeze => some ({ s with frozen := true }, .ok)

/-- one public call on the (possibly frozen) network -/
def step (s : DHG) (op : Op) : Option (DHG × Outcome) :=
  if s.frozen ∧ op.guardedByFreeze then some (s, .err .lib) else stepCore s op

end DHG
end Xgi
