/-
  Helper lemmas for C02: the well-formedness invariant of the directed model and its preservation by every
  primitive update and every public mutator of `DHG` (both outcomes: return / raise).
-/
import XgiModel.C02.DHG
import XgiModel.Lemmas.HGWF   -- list facts tagged for grind (nodup_ins, nodup_rm, nodup_append_singleton, nodup_filter)

namespace Xgi
namespace DHG

/-- directed two-way incidence consistency + exactly one attribute record per ID.
    `membOut` pairs with `tail`, `membIn` pairs with `head`. -/
structure WFd (s : DHG) : Prop where
  nodupN : s.nodes.Nodup
  nodupE : s.edges.Nodup
  noNoneN : PyId.none ∉ s.nodes
  noNoneE : PyId.none ∉ s.edges
  out2tail : ∀ n ∈ s.nodes, ∀ e ∈ s.membOut n, e ∈ s.edges ∧ n ∈ s.tail e
  in2head : ∀ n ∈ s.nodes, ∀ e ∈ s.membIn n, e ∈ s.edges ∧ n ∈ s.head e
  tail2out : ∀ e ∈ s.edges, ∀ n ∈ s.tail e, n ∈ s.nodes ∧ e ∈ s.membOut n
  head2in : ∀ e ∈ s.edges, ∀ n ∈ s.head e, n ∈ s.nodes ∧ e ∈ s.membIn n
  attrN : ∀ n, n ∈ s.nattrK ↔ n ∈ s.nodes
  attrE : ∀ e, e ∈ s.eattrK ↔ e ∈ s.edges
  nodupNK : s.nattrK.Nodup
  nodupEK : s.eattrK.Nodup
  setOut : ∀ n ∈ s.nodes, (s.membOut n).Nodup
  setIn : ∀ n ∈ s.nodes, (s.membIn n).Nodup
  setTail : ∀ e ∈ s.edges, (s.tail e).Nodup
  setHead : ∀ e ∈ s.edges, (s.head e).Nodup

theorem empty_wf : WFd DHG.empty := by
  constructor <;> simp [DHG.empty]

/-! ### primitives -/

theorem addNodeRaw_wf {s : DHG} (h : WFd s) (n : PyId) (hn : n ≠ .none) : WFd (addNodeRaw s n) := by
  obtain ⟨h1, h2, h3, h4, h5, h6, h7, h8, h9, h10, h11, h12, h13, h14, h15, h16⟩ := h
  unfold addNodeRaw; split
  · constructor <;> assumption
  · constructor <;> simp only [] <;> grind

@[simp] theorem addNodeRaw_edges (s : DHG) (n : PyId) : (addNodeRaw s n).edges = s.edges := by
  unfold addNodeRaw; split <;> rfl
@[simp] theorem addNodeRaw_uid (s : DHG) (n : PyId) : (addNodeRaw s n).uid = s.uid := by
  unfold addNodeRaw; split <;> rfl
theorem mem_addNodeRaw_nodes (s : DHG) (n m : PyId) : m ∈ (addNodeRaw s n).nodes ↔ m = n ∨ m ∈ s.nodes := by
  unfold addNodeRaw; split <;> simp <;> grind

theorem updNodeAttr_wf {s : DHG} (h : WFd s) (n : PyId) (a : Attrs) : WFd (updNodeAttr s n a) := by
  obtain ⟨h1, h2, h3, h4, h5, h6, h7, h8, h9, h10, h11, h12, h13, h14, h15, h16⟩ := h
  unfold updNodeAttr; constructor <;> simp only [] <;> assumption

theorem updEdgeAttr_wf {s : DHG} (h : WFd s) (e : PyId) (a : Attrs) : WFd (updEdgeAttr s e a) := by
  obtain ⟨h1, h2, h3, h4, h5, h6, h7, h8, h9, h10, h11, h12, h13, h14, h15, h16⟩ := h
  unfold updEdgeAttr; constructor <;> simp only [] <;> assumption

@[simp] theorem updEdgeAttr_edges (s : DHG) (e : PyId) (a : Attrs) : (updEdgeAttr s e a).edges = s.edges := rfl
@[simp] theorem updNodeAttr_edges (s : DHG) (e : PyId) (a : Attrs) : (updNodeAttr s e a).edges = s.edges := rfl
@[simp] theorem updNodeAttr_nodes (s : DHG) (e : PyId) (a : Attrs) : (updNodeAttr s e a).nodes = s.nodes := rfl
@[simp] theorem updEdgeAttr_uid (s : DHG) (e : PyId) (a : Attrs) : (updEdgeAttr s e a).uid = s.uid := rfl
@[simp] theorem updNodeAttr_uid (s : DHG) (e : PyId) (a : Attrs) : (updNodeAttr s e a).uid = s.uid := rfl

theorem bumpUid_wf {s : DHG} (h : WFd s) (i : PyId) : WFd (bumpUid s i) := by
  obtain ⟨h1, h2, h3, h4, h5, h6, h7, h8, h9, h10, h11, h12, h13, h14, h15, h16⟩ := h
  unfold bumpUid; split
  · split
    · constructor <;> simp only [] <;> assumption
    · constructor <;> assumption
  · constructor <;> assumption

@[simp] theorem bumpUid_edges (s : DHG) (i : PyId) : (bumpUid s i).edges = s.edges := by
  unfold bumpUid; split
  · split <;> rfl
  · rfl

theorem newEdge_wf {s : DHG} (h : WFd s) (e : PyId) (he : e ∉ s.edges) (hn : e ≠ .none) :
    WFd (newEdgeAttr (newEdgeRaw s e) e) := by
  obtain ⟨h1, h2, h3, h4, h5, h6, h7, h8, h9, h10, h11, h12, h13, h14, h15, h16⟩ := h
  unfold newEdgeAttr newEdgeRaw; constructor <;> simp only [] <;> grind

theorem linkTailCore_wf {s : DHG} (h : WFd s) (e n : PyId) (he : e ∈ s.edges) (hn : n ∈ s.nodes) :
    WFd (linkTailCore s e n) := by
  obtain ⟨h1, h2, h3, h4, h5, h6, h7, h8, h9, h10, h11, h12, h13, h14, h15, h16⟩ := h
  unfold linkTailCore; constructor <;> simp only [] <;> grind

theorem linkHeadCore_wf {s : DHG} (h : WFd s) (e n : PyId) (he : e ∈ s.edges) (hn : n ∈ s.nodes) :
    WFd (linkHeadCore s e n) := by
  obtain ⟨h1, h2, h3, h4, h5, h6, h7, h8, h9, h10, h11, h12, h13, h14, h15, h16⟩ := h
  unfold linkHeadCore; constructor <;> simp only [] <;> grind

@[simp] theorem linkTailCore_edges (s : DHG) (e n : PyId) : (linkTailCore s e n).edges = s.edges := rfl
@[simp] theorem linkHeadCore_edges (s : DHG) (e n : PyId) : (linkHeadCore s e n).edges = s.edges := rfl
@[simp] theorem linkTailCore_uid (s : DHG) (e n : PyId) : (linkTailCore s e n).uid = s.uid := rfl
@[simp] theorem linkHeadCore_uid (s : DHG) (e n : PyId) : (linkHeadCore s e n).uid = s.uid := rfl

theorem linkTail_wf {s : DHG} (h : WFd s) (e n : PyId) (he : e ∈ s.edges) (hn : n ≠ .none) : WFd (linkTail s e n) := by
  unfold linkTail
  exact linkTailCore_wf (addNodeRaw_wf h n hn) e n (by simpa using he) (by rw [mem_addNodeRaw_nodes]; simp)

theorem linkHead_wf {s : DHG} (h : WFd s) (e n : PyId) (he : e ∈ s.edges) (hn : n ≠ .none) : WFd (linkHead s e n) := by
  unfold linkHead
  exact linkHeadCore_wf (addNodeRaw_wf h n hn) e n (by simpa using he) (by rw [mem_addNodeRaw_nodes]; simp)

@[simp] theorem linkTail_edges (s : DHG) (e n : PyId) : (linkTail s e n).edges = s.edges := by
  unfold linkTail; simp
@[simp] theorem linkHead_edges (s : DHG) (e n : PyId) : (linkHead s e n).edges = s.edges := by
  unfold linkHead; simp
@[simp] theorem linkTail_uid (s : DHG) (e n : PyId) : (linkTail s e n).uid = s.uid := by
  unfold linkTail; simp
@[simp] theorem linkHead_uid (s : DHG) (e n : PyId) : (linkHead s e n).uid = s.uid := by
  unfold linkHead; simp

/-- a fold of a linking step over validated members keeps WFd, the edge list and the counter -/
theorem foldl_link_wf (f : DHG → PyId → PyId → DHG)
    (hf : ∀ {s : DHG}, WFd s → ∀ e n, e ∈ s.edges → n ≠ .none → WFd (f s e n))
    (hfe : ∀ s e n, (f s e n).edges = s.edges) (hfu : ∀ s e n, (f s e n).uid = s.uid)
    (ms : List PyId) {s : DHG} (e : PyId) (h : WFd s) (he : e ∈ s.edges) (hms : PyId.none ∉ ms) :
    WFd (ms.foldl (fun s n => f s e n) s) ∧ (ms.foldl (fun s n => f s e n) s).edges = s.edges
      ∧ (ms.foldl (fun s n => f s e n) s).uid = s.uid := by
  induction ms generalizing s with
  | nil => exact ⟨h, rfl, rfl⟩
  | cons m ms ih =>
    simp only [List.foldl_cons]
    have hm : m ≠ .none := by intro hh; apply hms; simp [hh]
    have hms' : PyId.none ∉ ms := by intro hh; apply hms; simp [hh]
    have := ih (s := f s e m) (hf h e m he hm) (by rw [hfe]; exact he) hms'
    exact ⟨this.1, by rw [this.2.1, hfe], by rw [this.2.2, hfu]⟩

theorem addEdgeAt_spec {s : DHG} (h : WFd s) (e : PyId) (tl hd : List PyId) (a : Attrs)
    (he : e ∉ s.edges) (hn : e ≠ .none) (htl : PyId.none ∉ tl) (hhd : PyId.none ∉ hd) :
    WFd (addEdgeAt s e tl hd a) ∧ (addEdgeAt s e tl hd a).edges = s.edges ++ [e]
      ∧ (addEdgeAt s e tl hd a).uid = s.uid := by
  unfold addEdgeAt
  have h1 := updEdgeAttr_wf (newEdge_wf h e he hn) e a
  have he1 : e ∈ (updEdgeAttr (newEdgeAttr (newEdgeRaw s e) e) e a).edges := by
    simp [newEdgeAttr, newEdgeRaw]
  have t := foldl_link_wf linkTail (fun h e n => linkTail_wf h e n) linkTail_edges linkTail_uid tl e h1 he1 htl
  generalize List.foldl (fun s n => linkTail s e n) (updEdgeAttr (newEdgeAttr (newEdgeRaw s e) e) e a) tl = s1 at *
  have he2 : e ∈ s1.edges := by rw [t.2.1]; exact he1
  have u := foldl_link_wf linkHead (fun h e n => linkHead_wf h e n) linkHead_edges linkHead_uid hd e t.1 he2 hhd
  refine ⟨u.1, ?_, ?_⟩
  · rw [u.2.1, t.2.1]; rfl
  · rw [u.2.2, t.2.2]; rfl

theorem dropEdge_wf {s : DHG} (h : WFd s) (e : PyId) : WFd (dropEdge s e) := by
  obtain ⟨h1, h2, h3, h4, h5, h6, h7, h8, h9, h10, h11, h12, h13, h14, h15, h16⟩ := h
  unfold dropEdge; constructor <;> simp only [] <;> grind

/-! ### bulk iteration -/

theorem bulk_inv {α : Type} (P : DHG → Prop) (f : DHG → α → DHG × Outcome)
    (hf : ∀ s a, P s → P (f s a).1) (l : List α) {s : DHG} (h : P s) : P (bulk f s l).1 := by
  induction l generalizing s with
  | nil => simpa [bulk]
  | cons a t ih =>
    simp only [bulk]
    have h1 := hf s a h
    split
    · rename_i s' k heq; rw [heq] at h1; exact h1
    · rename_i s' o _ heq; rw [heq] at h1; exact ih h1

/-- variant whose step hypothesis may use that the item comes from the list -/
theorem bulk_inv_mem {α : Type} (P : DHG → Prop) (f : DHG → α → DHG × Outcome) (l : List α)
    (hf : ∀ s a, a ∈ l → P s → P (f s a).1) {s : DHG} (h : P s) : P (bulk f s l).1 := by
  induction l generalizing s with
  | nil => simpa [bulk]
  | cons a t ih =>
    simp only [bulk]
    have h1 := hf s a (by simp) h
    have ih' : ∀ {s : DHG}, P s → P (bulk f s t).1 :=
      fun {s} hs => ih (fun s b hb hs => hf s b (by simp [hb]) hs) hs
    split
    · rename_i s' k heq; rw [heq] at h1; exact h1
    · rename_i s' o _ heq; rw [heq] at h1; exact ih' h1

theorem andThen_inv (P : DHG → Prop) (r : DHG × Outcome) (f : DHG → DHG × Outcome)
    (hr : P r.1) (hf : ∀ s, P s → P (f s).1) : P (andThen r f).1 := by
  unfold andThen; split
  · exact hr
  · exact hf _ hr

theorem guardF_inv (P : DHG → Prop) (s : DHG) (r : DHG × Outcome) (hs : P s) (hr : P r.1) : P (guardF s r).1 := by
  unfold guardF; split <;> assumption

theorem foldl_inv {α : Type} (P : DHG → Prop) (f : DHG → α → DHG) (hf : ∀ s a, P s → P (f s a))
    (l : List α) {s : DHG} (h : P s) : P (l.foldl f s) := by
  induction l generalizing s with
  | nil => simpa
  | cons a t ih => exact ih (hf s a h)

/-! ### node mutators -/

theorem addNode_wf {s : DHG} (h : WFd s) (n : PyId) (a : Attrs) : WFd (addNode s n a).1 := by
  unfold addNode; split
  · exact h
  · exact updNodeAttr_wf (addNodeRaw_wf h n (by assumption)) n a

theorem addNodesItem_wf (attr : Attrs) (s : DHG) (it : PyId × Option Attrs) (h : WFd s) :
    WFd (addNodesItem attr s it).1 := by
  obtain ⟨n, od⟩ := it
  unfold addNodesItem
  simp only []
  split
  · exact h
  · rename_i hc
    have hn : n ≠ .none := by
      intro hn; subst hn; exact hc ⟨rfl, h.noNoneN⟩
    exact updNodeAttr_wf (addNodeRaw_wf h n hn) n _

theorem removeNodeWeak_wf {s : DHG} (h : WFd s) (n : PyId) (b : Bool) : WFd (removeNodeWeak s n b) := by
  obtain ⟨h1, h2, h3, h4, h5, h6, h7, h8, h9, h10, h11, h12, h13, h14, h15, h16⟩ := h
  unfold removeNodeWeak; constructor <;> simp only [] <;> grind

theorem removeNodeStrong_wf {s : DHG} (h : WFd s) (n : PyId) : WFd (removeNodeStrong s n) := by
  obtain ⟨h1, h2, h3, h4, h5, h6, h7, h8, h9, h10, h11, h12, h13, h14, h15, h16⟩ := h
  unfold removeNodeStrong; constructor <;> simp only [] <;> grind

theorem removeNode_wf {s : DHG} (h : WFd s) (n : PyId) (st re : Bool) : WFd (removeNode s n st re).1 := by
  unfold removeNode; split
  · exact h
  · split
    · exact removeNodeStrong_wf h n
    · exact removeNodeWeak_wf h n re

/-! ### freshness of the automatic-ID counter (needed for WFd: an automatic ID must not exist yet) -/

/-- every integer edge ID is below the counter -/
def UidFresh (s : DHG) : Prop := ∀ k : Int, PyId.int k ∈ s.edges → k < (s.uid : Int)

/-- the invariant carried along every history -/
def Inv (s : DHG) : Prop := WFd s ∧ UidFresh s

theorem empty_inv : Inv DHG.empty := ⟨empty_wf, by intro k hk; simp [DHG.empty] at hk⟩

theorem fresh_of_subset {s t : DHG} (h : UidFresh s) (he : ∀ e ∈ t.edges, e ∈ s.edges) (hu : s.uid ≤ t.uid) :
    UidFresh t := by
  intro k hk; have := h k (he _ hk); omega

theorem uid_not_mem {s : DHG} (h : UidFresh s) : PyId.int (s.uid : Int) ∉ s.edges := by
  intro hk; have := h _ hk; omega

/-- a state that gained the explicit edge ID `e` and then bumps the counter keeps it above all integer IDs -/
theorem bump_fresh_general {s t : DHG} (h : UidFresh s) (e : PyId) (he : t.edges = s.edges ++ [e])
    (hu : t.uid = s.uid) : UidFresh (bumpUid t e) := by
  intro k hk
  simp only [bumpUid_edges, he, List.mem_append, List.mem_singleton] at hk
  unfold bumpUid
  split
  · rename_i i
    split
    · simp only []
      rcases hk with hk | hk
      · have := h k hk; omega
      · have : k = i := by injection hk with hk; injection hk
        omega
    · rcases hk with hk | hk
      · have := h k hk; omega
      · have : k = i := by injection hk with hk; injection hk
        omega
  · rcases hk with hk | hk
    · have := h k hk; omega
    · rename_i hne; exact absurd hk.symm (hne k)

/-- taking the next automatic ID -/
theorem auto_fresh_general {s t : DHG} (h : UidFresh s) (he : t.edges = s.edges ++ [PyId.int s.uid])
    (hu : t.uid = s.uid + 1) : UidFresh t := by
  intro k hk
  rw [he] at hk; simp only [List.mem_append, List.mem_singleton] at hk
  rw [hu]
  rcases hk with hk | hk
  · have := h k hk; omega
  · have : k = (s.uid : Int) := by injection hk with hk; injection hk
    omega

theorem wf_uid_succ {s : DHG} (h : WFd s) : WFd { s with uid := s.uid + 1 } := by
  obtain ⟨h1, h2, h3, h4, h5, h6, h7, h8, h9, h10, h11, h12, h13, h14, h15, h16⟩ := h
  constructor <;> simp only [] <;> assumption

theorem inv_uid_succ {s : DHG} (h : Inv s) : Inv { s with uid := s.uid + 1 } :=
  ⟨wf_uid_succ h.1, fresh_of_subset h.2 (fun _ x => x) (by simp)⟩

/-- adding a validated edge under an explicit, absent ID (and advancing the counter) -/
theorem addExplicit_inv {s : DHG} (h : Inv s) (i : PyId) (tl hd : List PyId) (a : Attrs)
    (hi : i ∉ s.edges) (hn : i ≠ .none) (htl : PyId.none ∉ tl) (hhd : PyId.none ∉ hd) :
    Inv (bumpUid (addEdgeAt s i tl hd a) i) := by
  have sp := addEdgeAt_spec h.1 i tl hd a hi hn htl hhd
  exact ⟨bumpUid_wf sp.1 i, bump_fresh_general h.2 i sp.2.1 sp.2.2⟩

/-- adding a validated edge under the next automatic ID -/
theorem addAuto_inv {s : DHG} (h : Inv s) (tl hd : List PyId) (a : Attrs)
    (htl : PyId.none ∉ tl) (hhd : PyId.none ∉ hd) :
    Inv (addEdgeAt { s with uid := s.uid + 1 } (PyId.int s.uid) tl hd a) := by
  have sp := addEdgeAt_spec (wf_uid_succ h.1) (PyId.int s.uid) tl hd a (uid_not_mem h.2)
    (by intro hh; cases hh) htl hhd
  exact ⟨sp.1, auto_fresh_general h.2 sp.2.1 sp.2.2⟩

theorem addNode_inv {s : DHG} (h : Inv s) (n : PyId) (a : Attrs) : Inv (addNode s n a).1 := by
  refine ⟨addNode_wf h.1 n a, ?_⟩
  unfold addNode; split
  · exact h.2
  · exact fresh_of_subset h.2 (by simp) (by simp)

theorem addNodesItem_inv (attr : Attrs) (s : DHG) (it : PyId × Option Attrs) (h : Inv s) :
    Inv (addNodesItem attr s it).1 := by
  refine ⟨addNodesItem_wf attr s it h.1, ?_⟩
  obtain ⟨n, od⟩ := it
  unfold addNodesItem; simp only []; split
  · exact h.2
  · exact fresh_of_subset h.2 (by simp) (by simp)

theorem addNodesFrom_inv {s : DHG} (h : Inv s) (items : List (PyId × Option Attrs)) (attr : Attrs) :
    Inv (addNodesFrom s items attr).1 :=
  bulk_inv Inv _ (fun s a hs => addNodesItem_inv attr s a hs) items h

theorem removeNode_inv {s : DHG} (h : Inv s) (n : PyId) (st re : Bool) : Inv (removeNode s n st re).1 := by
  refine ⟨removeNode_wf h.1 n st re, ?_⟩
  unfold removeNode; split
  · exact h.2
  · split
    · exact fresh_of_subset h.2 (by unfold removeNodeStrong; simp; grind) (by unfold removeNodeStrong; simp)
    · exact fresh_of_subset h.2 (by unfold removeNodeWeak; simp; grind) (by unfold removeNodeWeak; simp)

theorem removeNodesFrom_inv {s : DHG} (h : Inv s) (ns : List PyId) (st re : Bool) :
    Inv (removeNodesFrom s ns st re).1 :=
  bulk_inv Inv _ (fun s a hs => by
    unfold removeNodesItem; split
    · exact hs
    · exact removeNode_inv hs a st re) ns h

/-! ### edge mutators -/

theorem addEdge_inv {s : DHG} (h : Inv s) (m : DiMembers) (idx : Option PyId) (a : Attrs) :
    Inv (addEdge s m idx a).1 := by
  unfold addEdge
  cases m with
  | notSeq => exact h
  | short => exact h
  | pair tl hd =>
    simp only []
    split
    · exact h
    · rename_i hc
      have htl : PyId.none ∉ tl := fun hx => hc (Or.inl hx)
      have hhd : PyId.none ∉ hd := fun hx => hc (Or.inr (Or.inl hx))
      split
      · rename_i i
        split
        · exact h
        · rename_i hi
          have hn : i ≠ .none := by intro hn; subst hn; exact hc (Or.inr (Or.inr rfl))
          exact addExplicit_inv h i tl hd a hi hn htl hhd
      · exact addAuto_inv h tl hd a htl hhd

theorem addEdgesItem_inv (fmt : Fmt) (attr : Attrs) (s : DHG) (it : EdgeItem) (h : Inv s) :
    Inv (addEdgesItem fmt attr s it).1 := by
  unfold addEdgesItem
  by_cases hx : fmt.explicit = true
  · simp only [hx, if_true]
    split
    · exact h
    · rename_i hi
      split
      · exact h
      · exact h
      · rename_i tl hd _
        split
        · exact h
        · rename_i hc
          have htl : PyId.none ∉ tl := fun hh => hc (Or.inl hh)
          have hhd : PyId.none ∉ hd := fun hh => hc (Or.inr (Or.inl hh))
          have hn : it.idx.getD .none ≠ .none := fun hh => hc (Or.inr (Or.inr hh))
          exact addExplicit_inv h _ tl hd _ hi hn htl hhd
  · simp only [hx]
    simp only [Bool.false_eq_true, if_false]
    split
    · exact inv_uid_succ h
    · rename_i hi
      split
      · exact inv_uid_succ h
      · exact inv_uid_succ h
      · rename_i tl hd _
        split
        · exact inv_uid_succ h
        · rename_i hc
          have htl : PyId.none ∉ tl := fun hh => hc (Or.inl hh)
          have hhd : PyId.none ∉ hd := fun hh => hc (Or.inr (Or.inl hh))
          exact addAuto_inv h tl hd _ htl hhd

theorem addEdgesBulk_inv {s : DHG} (h : Inv s) (fmt : Fmt) (items : List EdgeItem) (attr : Attrs) :
    Inv (addEdgesBulk s fmt items attr).1 :=
  bulk_inv Inv _ (fun s a hs => addEdgesItem_inv fmt attr s a hs) items h

theorem addEdgesFrom_inv {s : DHG} (h : Inv s) (fmt : Fmt) (items : List EdgeItem) (attr : Attrs)
    (r : DHG × Outcome) (hr : addEdgesFrom s fmt items attr = some r) : Inv r.1 := by
  have key := addEdgesBulk_inv h fmt items attr
  unfold addEdgesFrom at hr
  split at hr
  · split at hr
    · cases hr; exact h
    · cases hr
    · cases hr; exact key
  · split at hr
    · cases hr
    · cases hr; exact key
  · split at hr
    · cases hr
    · cases hr; exact key
  · cases hr; exact key

theorem addNodeToEdge_inv {s : DHG} (h : Inv s) (e n : PyId) (d : Dir) : Inv (addNodeToEdge s e n d).1 := by
  obtain ⟨h, hf⟩ := h
  unfold addNodeToEdge; split
  · exact ⟨h, hf⟩
  · split
    · exact ⟨h, hf⟩
    · rename_i hc
      have hn : n ≠ .none := fun hh => hc (Or.inr hh)
      have he : e ≠ .none := fun hh => hc (Or.inl hh)
      simp only []
      -- the state after the optional creation of the edge
      have key : Inv (if e ∈ s.edges then s else bumpUid (newEdgeAttr (newEdgeRaw s e) e) e)
          ∧ e ∈ (if e ∈ s.edges then s else bumpUid (newEdgeAttr (newEdgeRaw s e) e) e).edges := by
        split
        · rename_i hin; exact ⟨⟨h, hf⟩, hin⟩
        · rename_i hin
          exact ⟨⟨bumpUid_wf (newEdge_wf h e hin he) e, bump_fresh_general hf e rfl rfl⟩,
            by simp [newEdgeAttr, newEdgeRaw]⟩
      generalize (if e ∈ s.edges then s else bumpUid (newEdgeAttr (newEdgeRaw s e) e) e) = t at key
      obtain ⟨⟨hw, hfr⟩, het⟩ := key
      split
      · exact ⟨linkTail_wf hw e n het hn, fresh_of_subset hfr (by simp) (by simp)⟩
      · exact ⟨linkHead_wf hw e n het hn, fresh_of_subset hfr (by simp) (by simp)⟩

theorem removeEdge_inv (s : DHG) (e : PyId) (h : Inv s) : Inv (removeEdge s e).1 := by
  unfold removeEdge; split
  · exact h
  · exact ⟨dropEdge_wf h.1 e, fresh_of_subset h.2 (by unfold dropEdge; simp) (by unfold dropEdge; simp)⟩

theorem removeEdgesFrom_inv {s : DHG} (h : Inv s) (es : List PyId) : Inv (removeEdgesFrom s es).1 :=
  bulk_inv Inv _ (fun s a hs => removeEdge_inv s a hs) es h

theorem removeNodeFromEdge_inv {s : DHG} (h : Inv s) (e n : PyId) (d : Dir) (re : Bool) :
    Inv (removeNodeFromEdge s e n d re).1 := by
  obtain ⟨⟨h1, h2, h3, h4, h5, h6, h7, h8, h9, h10, h11, h12, h13, h14, h15, h16⟩, hf⟩ := h
  have h0 : Inv s := ⟨⟨h1, h2, h3, h4, h5, h6, h7, h8, h9, h10, h11, h12, h13, h14, h15, h16⟩, hf⟩
  unfold removeNodeFromEdge
  split
  · exact h0
  · split
    · exact h0
    · split
      · exact h0
      · split
        · split
          · exact h0
          · simp only []
            split
            · refine ⟨?_, fresh_of_subset hf (by simp [delEdgeOnly]) (by simp [delEdgeOnly])⟩
              unfold delEdgeOnly; constructor <;> simp only [] <;> grind
            · refine ⟨?_, fresh_of_subset hf (by simp) (by simp)⟩
              constructor <;> simp only [] <;> grind
        · split
          · exact h0
          · simp only []
            split
            · refine ⟨?_, fresh_of_subset hf (by simp [delEdgeOnly]) (by simp [delEdgeOnly])⟩
              unfold delEdgeOnly; constructor <;> simp only [] <;> grind
            · refine ⟨?_, fresh_of_subset hf (by simp) (by simp)⟩
              constructor <;> simp only [] <;> grind

/-! ### attributes, clear, freeze -/

theorem updNodeAttr_inv {s : DHG} (h : Inv s) (n : PyId) (a : Attrs) : Inv (updNodeAttr s n a) :=
  ⟨updNodeAttr_wf h.1 n a, h.2⟩
theorem updEdgeAttr_inv {s : DHG} (h : Inv s) (n : PyId) (a : Attrs) : Inv (updEdgeAttr s n a) :=
  ⟨updEdgeAttr_wf h.1 n a, h.2⟩

theorem setNodeAttrs_inv {s : DHG} (h : Inv s) (arg : AttrArg) : Inv (setNodeAttrs s arg).1 := by
  unfold setNodeAttrs
  cases arg with
  | dictName vals name =>
    exact bulk_inv Inv _ (fun s p hs => by split <;> first | exact updNodeAttr_inv hs _ _ | exact hs) vals h
  | constName v name => exact foldl_inv Inv _ (fun s n hs => updNodeAttr_inv hs _ _) _ h
  | dictOfDict vals =>
    exact bulk_inv Inv _ (fun s p hs => by split <;> first | exact updNodeAttr_inv hs _ _ | exact hs) vals h
  | badNoName => exact h

theorem setEdgeAttrs_inv {s : DHG} (h : Inv s) (arg : AttrArg) : Inv (setEdgeAttrs s arg).1 := by
  unfold setEdgeAttrs
  cases arg with
  | dictName vals name =>
    exact bulk_inv Inv _ (fun s p hs => by split <;> first | exact updEdgeAttr_inv hs _ _ | exact hs) vals h
  | constName v name => exact foldl_inv Inv _ (fun s n hs => updEdgeAttr_inv hs _ _) _ h
  | dictOfDict vals =>
    exact bulk_inv Inv _ (fun s p hs => by split <;> first | exact updEdgeAttr_inv hs _ _ | exact hs) vals h
  | badNoName => exact h

theorem setNetAttr_inv {s : DHG} (h : Inv s) (k : String) (v : Val) : Inv (setNetAttr s k v).1 := by
  obtain ⟨⟨h1, h2, h3, h4, h5, h6, h7, h8, h9, h10, h11, h12, h13, h14, h15, h16⟩, hf⟩ := h
  exact ⟨by unfold setNetAttr; constructor <;> simp only [] <;> assumption, hf⟩

theorem clear_inv {s : DHG} (h : Inv s) (b : Bool) : Inv (clear s b).1 := by
  refine ⟨?_, fresh_of_subset h.2 (by simp [clear]) (by simp [clear])⟩
  unfold clear; constructor <;> simp

theorem frozen_inv {s : DHG} (h : Inv s) : Inv { s with frozen := true } := by
  obtain ⟨⟨h1, h2, h3, h4, h5, h6, h7, h8, h9, h10, h11, h12, h13, h14, h15, h16⟩, hf⟩ := h
  exact ⟨by constructor <;> simp only [] <;> assumption, hf⟩

/-! ### copy: built through the public mutators from the empty network, then the counter is copied -/

/-- the edges of the result of a bulk addition with explicit IDs are old edges or IDs of the batch -/
theorem addEdgesItem_edges_subset (fmt : Fmt) (hx : fmt.explicit = true) (attr : Attrs) (s : DHG) (it : EdgeItem)
    (S : PyId → Prop) (hS : ∀ e ∈ s.edges, S e) (hit : S (it.idx.getD .none)) :
    ∀ e ∈ (addEdgesItem fmt attr s it).1.edges, S e := by
  unfold addEdgesItem
  simp only [hx, if_true]
  split
  · exact hS
  · split
    · exact hS
    · exact hS
    · rename_i tl hd _
      split
      · exact hS
      · intro e he
        have hb : (bumpUid (addEdgeAt s (it.idx.getD .none) tl hd (if fmt = .f5 then [] else attr.update it.attr))
            (it.idx.getD .none)).edges = s.edges ++ [it.idx.getD .none] := by
          rw [bumpUid_edges]
          unfold addEdgeAt
          have e1 : ∀ (l : List PyId) (t : DHG), (l.foldl (fun s n => linkHead s (it.idx.getD .none) n) t).edges = t.edges := by
            intro l; induction l with
            | nil => intro t; rfl
            | cons x l ih => intro t; simp only [List.foldl_cons]; rw [ih]; simp
          have e2 : ∀ (l : List PyId) (t : DHG), (l.foldl (fun s n => linkTail s (it.idx.getD .none) n) t).edges = t.edges := by
            intro l; induction l with
            | nil => intro t; rfl
            | cons x l ih => intro t; simp only [List.foldl_cons]; rw [ih]; simp
          rw [e1, e2]; rfl
        rw [hb] at he
        simp only [List.mem_append, List.mem_singleton] at he
        rcases he with he | he
        · exact hS e he
        · rw [he]; exact hit

theorem copy_inv {s : DHG} (h : Inv s) (r : DHG × Outcome) (hr : copy s = some r) : Inv r.1 := by
  unfold copy at hr
  simp only [] at hr
  split at hr
  · cases hr; exact h
  · have h1 : Inv (addNodesFrom DHG.empty (s.nodes.map (fun n => (n, some (s.nattr n)))) []).1 :=
      addNodesFrom_inv empty_inv _ _
    have e1 : ∀ e ∈ (addNodesFrom DHG.empty (s.nodes.map (fun n => (n, some (s.nattr n)))) []).1.edges, e ∈ s.edges := by
      have : ∀ e ∈ (addNodesFrom DHG.empty (s.nodes.map (fun n => (n, some (s.nattr n)))) []).1.edges, False := by
        unfold addNodesFrom
        apply bulk_inv (fun t => ∀ e ∈ t.edges, False)
        · intro t it ht
          obtain ⟨n, od⟩ := it
          unfold addNodesItem; simp only []; split
          · exact ht
          · simpa using ht
        · simp [DHG.empty]
      intro e he; exact (this e he).elim
    generalize (addNodesFrom DHG.empty (s.nodes.map (fun n => (n, some (s.nattr n)))) []).1 = t1 at *
    split at hr
    · cases hr
    · rename_i r2 heq
      split at hr
      · cases hr; exact h
      · cases hr
        have h2 : Inv r2.1 := addEdgesFrom_inv h1 _ _ _ r2 heq
        -- every edge of the copy is an edge of the original
        have e2 : ∀ e ∈ r2.1.edges, e ∈ s.edges := by
          have hb : r2 = addEdgesBulk t1 .f4
              (s.edges.map (fun e => { members := .pair (s.tail e) (s.head e), idx := some e, attr := s.eattr e })) [] := by
            unfold addEdgesFrom at heq
            split at heq
            · rename_i hf _; cases hf
            · rename_i hf _; cases hf
            · split at heq
              · cases heq
              · cases heq; rfl
            · cases heq; rfl
          rw [hb]; unfold addEdgesBulk
          apply bulk_inv_mem (fun t => ∀ e ∈ t.edges, e ∈ s.edges)
          · intro t it hit ht
            simp only [List.mem_map] at hit
            obtain ⟨e0, he0, rfl⟩ := hit
            exact addEdgesItem_edges_subset .f4 rfl [] t _ (fun e => e ∈ s.edges) ht (by simpa using he0)
          · exact e1
        obtain ⟨⟨h1, h2, h3, h4, h5, h6, h7, h8, h9, h10, h11, h12, h13, h14, h15, h16⟩, _⟩ := h2
        refine ⟨by constructor <;> simp only [] <;> assumption, ?_⟩
        intro k hk
        exact h.2 k (e2 _ hk)

/-! ### composites -/

theorem relabel_inv {s : DHG} (h : Inv s) (l : String) : Inv (relabel s l).1 := by
  unfold relabel
  simp only []
  split
  · exact h
  · exact setEdgeAttrs_inv (addEdgesBulk_inv (setNodeAttrs_inv (addNodesFrom_inv (clear_inv h false) _ _) _) _ _ _) _

theorem cleanup_inv {s : DHG} (h : Inv s) (a b c : Bool) (r : DHG × Outcome)
    (hr : cleanup s a b c = some r) : Inv r.1 := by
  unfold cleanup at hr
  simp only [Option.map_eq_some_iff] at hr
  obtain ⟨r0, hr0, hr⟩ := hr
  have h0 : Inv r0.1 := by
    split at hr0
    · cases hr0; exact h
    · exact copy_inv h r0 hr0
  subst hr
  have key : Inv (cleanupBody r0 a b).1 := by
    unfold cleanupBody
    apply andThen_inv Inv
    · apply andThen_inv Inv _ _ h0
      intro t ht; split
      · exact ht
      · exact guardF_inv Inv _ _ ht (removeNodesFrom_inv ht _ _ _)
    · intro t ht; split
      · exact relabel_inv ht _
      · exact ht
  generalize cleanupBody r0 a b = r2 at key
  split
  · exact h0
  · split
    · exact h
    · exact key

/-! ### every public call -/

theorem stepCore_inv {s : DHG} (h : Inv s) (op : Op) (r : DHG × Outcome) (hr : stepCore s op = some r) : Inv r.1 := by
  cases op <;> simp only [stepCore, Option.some.injEq] at hr
  case addNode n a => subst hr; exact addNode_inv h n a
  case addNodesFrom items a => subst hr; exact addNodesFrom_inv h items a
  case removeNode n st re => subst hr; exact removeNode_inv h n st re
  case removeNodesFrom ns st re => subst hr; exact removeNodesFrom_inv h ns st re
  case addEdge m idx a => subst hr; exact addEdge_inv h m idx a
  case addEdgesFrom fmt items a => exact addEdgesFrom_inv h fmt items a r hr
  case addNodeToEdge e n d => subst hr; exact addNodeToEdge_inv h e n d
  case removeEdge e => subst hr; exact removeEdge_inv s e h
  case removeEdgesFrom es => subst hr; exact removeEdgesFrom_inv h es
  case removeNodeFromEdge e n d re => subst hr; exact removeNodeFromEdge_inv h e n d re
  case setNodeAttrs arg => subst hr; exact setNodeAttrs_inv h arg
  case setEdgeAttrs arg => subst hr; exact setEdgeAttrs_inv h arg
  case setNetAttr k v => subst hr; exact setNetAttr_inv h k v
  case clear b => subst hr; exact clear_inv h b
  case copy => exact copy_inv h r hr
  case cleanup a b c => exact cleanup_inv h a b c r hr
  case relabel l => subst hr; exact relabel_inv h l
  case freeze => subst hr; exact frozen_inv h

theorem step_inv {s : DHG} (h : Inv s) (op : Op) (r : DHG × Outcome) (hr : step s op = some r) : Inv r.1 := by
  unfold step at hr
  split at hr
  · cases hr; exact h
  · exact stepCore_inv h op r hr

end DHG
end Xgi
