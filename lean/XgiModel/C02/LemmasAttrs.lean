/-
  C07 (directed part) helper lemmas: every attribute dict of the `DHG` state stays a dict (no key twice)
  under the whole directed mutator alphabet and under the three clone routes — the representation
  invariant under which "same attribute dict" is an equality of key/value lists.
  Directed twin of C07/LemmasAttrs.lean.
-/
import XgiModel.C02.LemmasCopy

namespace Xgi
namespace DHG
open HG (IsDict isDict_nil isDict_update isDict_set)

theorem attrsOKD_empty : AttrsOKD DHG.empty := ⟨fun _ => isDict_nil, fun _ => isDict_nil, isDict_nil⟩

/-- `AttrsOKD` only looks at the three attribute tables -/
theorem attrsOKD_of_eq {s t : DHG} (h : AttrsOKD s) (h1 : t.nattr = s.nattr) (h2 : t.eattr = s.eattr)
    (h3 : t.net = s.net) : AttrsOKD t :=
  ⟨by rw [h1]; exact h.nattr, by rw [h2]; exact h.eattr, by rw [h3]; exact h.net⟩

theorem isDict_upd {f : PyId → Attrs} (hf : ∀ k, IsDict (f k)) (k : PyId) {a : Attrs} (ha : IsDict a) :
    ∀ j, IsDict (upd f k a j) := by
  intro j; simp only [upd_apply]; split
  · exact ha
  · exact hf j

/-! ### primitives -/

theorem addNodeRaw_attrs {s : DHG} (h : AttrsOKD s) (n : PyId) : AttrsOKD (addNodeRaw s n) := by
  unfold addNodeRaw; split
  · exact h
  · exact ⟨isDict_upd h.nattr n isDict_nil, h.eattr, h.net⟩

theorem updNodeAttr_attrs {s : DHG} (h : AttrsOKD s) (n : PyId) (a : Attrs) : AttrsOKD (updNodeAttr s n a) :=
  ⟨isDict_upd h.nattr n (isDict_update (h.nattr n) a), h.eattr, h.net⟩

theorem updEdgeAttr_attrs {s : DHG} (h : AttrsOKD s) (e : PyId) (a : Attrs) : AttrsOKD (updEdgeAttr s e a) :=
  ⟨h.nattr, isDict_upd h.eattr e (isDict_update (h.eattr e) a), h.net⟩

theorem newEdge_attrs {s : DHG} (h : AttrsOKD s) (e : PyId) : AttrsOKD (newEdgeAttr (newEdgeRaw s e) e) :=
  ⟨h.nattr, isDict_upd h.eattr e isDict_nil, h.net⟩

theorem linkTail_attrs {s : DHG} (h : AttrsOKD s) (e n : PyId) : AttrsOKD (linkTail s e n) :=
  attrsOKD_of_eq (addNodeRaw_attrs h n) rfl rfl rfl

theorem linkHead_attrs {s : DHG} (h : AttrsOKD s) (e n : PyId) : AttrsOKD (linkHead s e n) :=
  attrsOKD_of_eq (addNodeRaw_attrs h n) rfl rfl rfl

theorem bumpUid_attrs {s : DHG} (h : AttrsOKD s) (i : PyId) : AttrsOKD (bumpUid s i) := by
  rw [bumpUid_eq]; exact attrsOKD_of_eq h rfl rfl rfl

theorem addEdgeAt_attrs {s : DHG} (h : AttrsOKD s) (e : PyId) (tl hd : List PyId) (a : Attrs) :
    AttrsOKD (addEdgeAt s e tl hd a) := by
  unfold addEdgeAt
  exact foldl_inv AttrsOKD _ (fun t n ht => linkHead_attrs ht e n) hd
    (foldl_inv AttrsOKD _ (fun t n ht => linkTail_attrs ht e n) tl (updEdgeAttr_attrs (newEdge_attrs h e) e a))

/-! ### public mutators -/

theorem addNode_attrs {s : DHG} (h : AttrsOKD s) (n : PyId) (a : Attrs) : AttrsOKD (addNode s n a).1 := by
  unfold addNode; split
  · exact h
  · exact updNodeAttr_attrs (addNodeRaw_attrs h n) n a

theorem addNodesFrom_attrs {s : DHG} (h : AttrsOKD s) (items : List (PyId × Option Attrs)) (attr : Attrs) :
    AttrsOKD (addNodesFrom s items attr).1 :=
  bulk_inv AttrsOKD _ (fun t it ht => by
    obtain ⟨n, od⟩ := it
    unfold addNodesItem; simp only []; split
    · exact ht
    · exact updNodeAttr_attrs (addNodeRaw_attrs ht n) n _) items h

theorem removeNode_attrs {s : DHG} (h : AttrsOKD s) (n : PyId) (st re : Bool) : AttrsOKD (removeNode s n st re).1 := by
  unfold removeNode
  repeat' split
  all_goals first | exact h | exact attrsOKD_of_eq h rfl rfl rfl

theorem removeNodesFrom_attrs {s : DHG} (h : AttrsOKD s) (ns : List PyId) (st re : Bool) :
    AttrsOKD (removeNodesFrom s ns st re).1 :=
  bulk_inv AttrsOKD _ (fun t a ht => by
    unfold removeNodesItem; split
    · exact ht
    · exact removeNode_attrs ht a st re) ns h

theorem addEdge_attrs {s : DHG} (h : AttrsOKD s) (m : DiMembers) (idx : Option PyId) (a : Attrs) :
    AttrsOKD (addEdge s m idx a).1 := by
  cases m with
  | notSeq => exact h
  | short => exact h
  | pair tl hd =>
    cases idx with
    | some i =>
      unfold addEdge; simp only []; split
      · exact h
      · split
        · exact h
        · exact bumpUid_attrs (addEdgeAt_attrs h _ _ _ _) _
    | none =>
      unfold addEdge; simp only []; split
      · exact h
      · exact addEdgeAt_attrs (s := { s with uid := s.uid + 1 }) (attrsOKD_of_eq h rfl rfl rfl) _ _ _ _

theorem addEdgesItem_attrs (fmt : Fmt) (attr : Attrs) (s : DHG) (it : EdgeItem) (h : AttrsOKD s) :
    AttrsOKD (addEdgesItem fmt attr s it).1 := by
  unfold addEdgesItem
  by_cases hx : fmt.explicit = true
  · simp only [hx, if_true]
    split
    · exact h
    · split
      · exact h
      · exact h
      · split
        · exact h
        · exact bumpUid_attrs (addEdgeAt_attrs h _ _ _ _) _
  · simp only [hx]
    simp only [Bool.false_eq_true, if_false]
    have h' : AttrsOKD { s with uid := s.uid + 1 } := attrsOKD_of_eq h rfl rfl rfl
    split
    · exact h'
    · split
      · exact h'
      · exact h'
      · split
        · exact h'
        · exact addEdgeAt_attrs h' _ _ _ _

theorem addEdgesBulk_attrs {s : DHG} (h : AttrsOKD s) (fmt : Fmt) (items : List EdgeItem) (attr : Attrs) :
    AttrsOKD (addEdgesBulk s fmt items attr).1 :=
  bulk_inv AttrsOKD _ (fun t a ht => addEdgesItem_attrs fmt attr t a ht) items h

theorem addEdgesFrom_attrs {s : DHG} (h : AttrsOKD s) (fmt : Fmt) (items : List EdgeItem) (attr : Attrs)
    (r : DHG × Outcome) (hr : addEdgesFrom s fmt items attr = some r) : AttrsOKD r.1 := by
  have key := addEdgesBulk_attrs h fmt items attr
  unfold addEdgesFrom at hr
  split at hr
  · split at hr
    · cases hr; exact h
    · cases hr
    · cases hr; exact key
  · split at hr
    · cases hr
    · cases hr; exact key
  · split at hr
    · cases hr
    · cases hr; exact key
  · cases hr; exact key

theorem addNodeToEdge_attrs {s : DHG} (h : AttrsOKD s) (e n : PyId) (d : Dir) : AttrsOKD (addNodeToEdge s e n d).1 := by
  unfold addNodeToEdge; split
  · exact h
  · split
    · exact h
    · simp only []
      have key : AttrsOKD (if e ∈ s.edges then s else bumpUid (newEdgeAttr (newEdgeRaw s e) e) e) := by
        split
        · exact h
        · exact bumpUid_attrs (newEdge_attrs h e) e
      generalize (if e ∈ s.edges then s else bumpUid (newEdgeAttr (newEdgeRaw s e) e) e) = t at key
      split
      · exact linkTail_attrs key e n
      · exact linkHead_attrs key e n

theorem removeEdge_attrs (s : DHG) (e : PyId) (h : AttrsOKD s) : AttrsOKD (removeEdge s e).1 := by
  unfold removeEdge; split
  · exact h
  · exact attrsOKD_of_eq h rfl rfl rfl

theorem removeEdgesFrom_attrs {s : DHG} (h : AttrsOKD s) (es : List PyId) : AttrsOKD (removeEdgesFrom s es).1 :=
  bulk_inv AttrsOKD _ (fun t a ht => removeEdge_attrs t a ht) es h

theorem removeNodeFromEdge_attrs {s : DHG} (h : AttrsOKD s) (e n : PyId) (d : Dir) (re : Bool) :
    AttrsOKD (removeNodeFromEdge s e n d re).1 := by
  unfold removeNodeFromEdge
  repeat' split
  all_goals first | exact h | (simp only []; split <;> exact attrsOKD_of_eq h rfl rfl rfl)

theorem setNodeAttrs_attrs {s : DHG} (h : AttrsOKD s) (arg : AttrArg) : AttrsOKD (setNodeAttrs s arg).1 := by
  unfold setNodeAttrs
  cases arg with
  | dictName vals name =>
    exact bulk_inv AttrsOKD _ (fun s p hs => by split <;> first | exact updNodeAttr_attrs hs _ _ | exact hs) vals h
  | constName v name => exact foldl_inv AttrsOKD _ (fun s n hs => updNodeAttr_attrs hs _ _) _ h
  | dictOfDict vals =>
    exact bulk_inv AttrsOKD _ (fun s p hs => by split <;> first | exact updNodeAttr_attrs hs _ _ | exact hs) vals h
  | badNoName => exact h

theorem setEdgeAttrs_attrs {s : DHG} (h : AttrsOKD s) (arg : AttrArg) : AttrsOKD (setEdgeAttrs s arg).1 := by
  unfold setEdgeAttrs
  cases arg with
  | dictName vals name =>
    exact bulk_inv AttrsOKD _ (fun s p hs => by split <;> first | exact updEdgeAttr_attrs hs _ _ | exact hs) vals h
  | constName v name => exact foldl_inv AttrsOKD _ (fun s n hs => updEdgeAttr_attrs hs _ _) _ h
  | dictOfDict vals =>
    exact bulk_inv AttrsOKD _ (fun s p hs => by split <;> first | exact updEdgeAttr_attrs hs _ _ | exact hs) vals h
  | badNoName => exact h

theorem setNetAttr_attrs {s : DHG} (h : AttrsOKD s) (k : String) (v : Val) : AttrsOKD (setNetAttr s k v).1 :=
  ⟨h.nattr, h.eattr, isDict_set h.net k v⟩

theorem clear_attrs {s : DHG} (h : AttrsOKD s) (b : Bool) : AttrsOKD (clear s b).1 := by
  refine ⟨h.nattr, h.eattr, ?_⟩
  unfold clear; simp only []; split
  · exact isDict_nil
  · exact h.net

/-! ### clones and composites -/

theorem copy_attrs' {s : DHG} (h : AttrsOKD s) (r : DHG × Outcome) (hr : copy s = some r) : AttrsOKD r.1 := by
  rw [copy_eq_items] at hr
  by_cases he1 : (addNodesFrom DHG.empty (nodeItems s) []).2.isErr = true
  · simp only [he1, if_true, Option.some.injEq] at hr; subst hr; exact h
  · simp only [he1, Bool.false_eq_true, if_false] at hr
    have h1 : AttrsOKD (addNodesFrom DHG.empty (nodeItems s) []).1 := addNodesFrom_attrs attrsOKD_empty _ _
    cases heq : addEdgesFrom (addNodesFrom DHG.empty (nodeItems s) []).1 .f4 (edgeItems s) [] with
    | none => rw [heq] at hr; cases hr
    | some r2 =>
      have h2 : AttrsOKD r2.1 := addEdgesFrom_attrs h1 _ _ _ r2 heq
      rw [heq] at hr; simp only [] at hr
      by_cases he2 : r2.2.isErr = true
      · simp only [he2, if_true, Option.some.injEq] at hr; subst hr; exact h
      · simp only [he2, Bool.false_eq_true, if_false, Option.some.injEq] at hr; subst hr
        exact ⟨h2.nattr, h2.eattr, h.net⟩

theorem ofNetwork_attrs' {s : DHG} (h : AttrsOKD s) (attr : Attrs) (r : DHG × Outcome)
    (hr : ofNetwork s attr = some r) : AttrsOKD r.1 := by
  rcases ofNetwork_cases s attr r hr with ⟨h1, _⟩ | ⟨r2, heq, h1, _⟩
  · rw [h1]; exact h
  · have h2 : AttrsOKD r2.1 := addEdgesFrom_attrs (addNodesFrom_attrs attrsOKD_empty _ _) _ _ _ r2 heq
    rw [h1]
    exact ⟨h2.nattr, h2.eattr, isDict_update h.net attr⟩

theorem pickle_attrs' {s : DHG} (ha : AttrsOKD s) : AttrsOKD (pickleRoundTrip s) := by
  refine ⟨fun n => ?_, fun e => ?_, ?_⟩
  · by_cases hn : n ∈ s.nattrK
    · rw [(pickle_char s).2.2.2.2.2.2.2.2.2.1 n hn]; exact ha.nattr n
    · -- an absent key reads the default `{}`
      have : (pickleRoundTrip s).nattr n = [] := by
        unfold pickleRoundTrip setState getState HG.lookupD
        simp only []
        have hnone : (s.nattrK.map (fun n => (n, s.nattr n))).find? (fun p => decide (p.1 = n)) = none := by
          rw [List.find?_eq_none]; intro p hp
          simp only [List.mem_map] at hp
          obtain ⟨m, hm, rfl⟩ := hp
          simp only [decide_eq_true_eq]; intro hmn; exact hn (hmn ▸ hm)
        rw [hnone]
      rw [this]; exact isDict_nil
  · by_cases he : e ∈ s.eattrK
    · rw [(pickle_char s).2.2.2.2.2.2.2.2.2.2 e he]; exact ha.eattr e
    · have : (pickleRoundTrip s).eattr e = [] := by
        unfold pickleRoundTrip setState getState HG.lookupD
        simp only []
        have hnone : (s.eattrK.map (fun e => (e, s.eattr e))).find? (fun p => decide (p.1 = e)) = none := by
          rw [List.find?_eq_none]; intro p hp
          simp only [List.mem_map] at hp
          obtain ⟨m, hm, rfl⟩ := hp
          simp only [decide_eq_true_eq]; intro hmn; exact he (hmn ▸ hm)
        rw [hnone]
      rw [this]; exact isDict_nil
  · rw [(pickle_char s).2.2.2.2.1]; exact ha.net

theorem relabel_attrs {s : DHG} (h : AttrsOKD s) (l : String) : AttrsOKD (relabel s l).1 := by
  unfold relabel
  simp only []
  split
  · exact h
  · exact setEdgeAttrs_attrs (addEdgesBulk_attrs (setNodeAttrs_attrs (addNodesFrom_attrs (clear_attrs h false) _ _) _) _ _ _) _

theorem cleanup_attrs {s : DHG} (h : AttrsOKD s) (a b c : Bool) (r : DHG × Outcome)
    (hr : cleanup s a b c = some r) : AttrsOKD r.1 := by
  unfold cleanup at hr
  simp only [Option.map_eq_some_iff] at hr
  obtain ⟨r0, hr0, hr⟩ := hr
  have h0 : AttrsOKD r0.1 := by
    split at hr0
    · cases hr0; exact h
    · exact copy_attrs' h r0 hr0
  subst hr
  have key : AttrsOKD (cleanupBody r0 a b).1 := by
    unfold cleanupBody
    apply andThen_inv AttrsOKD
    · apply andThen_inv AttrsOKD _ _ h0
      intro t ht; split
      · exact ht
      · exact guardF_inv AttrsOKD _ _ ht (removeNodesFrom_attrs ht _ _ _)
    · intro t ht; split
      · exact relabel_attrs ht _
      · exact ht
  generalize cleanupBody r0 a b = r2 at key
  split
  · exact h0
  · split
    · exact h
    · exact key

theorem stepCore_attrs {s : DHG} (h : AttrsOKD s) (op : Op) (r : DHG × Outcome) (hr : stepCore s op = some r) :
    AttrsOKD r.1 := by
  cases op <;> simp only [stepCore, Option.some.injEq] at hr
  case addNode n a => subst hr; exact addNode_attrs h n a
  case addNodesFrom items a => subst hr; exact addNodesFrom_attrs h items a
  case removeNode n st re => subst hr; exact removeNode_attrs h n st re
  case removeNodesFrom ns st re => subst hr; exact removeNodesFrom_attrs h ns st re
  case addEdge m idx a => subst hr; exact addEdge_attrs h m idx a
  case addEdgesFrom fmt items a => exact addEdgesFrom_attrs h fmt items a r hr
  case addNodeToEdge e n d => subst hr; exact addNodeToEdge_attrs h e n d
  case removeEdge e => subst hr; exact removeEdge_attrs s e h
  case removeEdgesFrom es => subst hr; exact removeEdgesFrom_attrs h es
  case removeNodeFromEdge e n d re => subst hr; exact removeNodeFromEdge_attrs h e n d re
  case setNodeAttrs arg => subst hr; exact setNodeAttrs_attrs h arg
  case setEdgeAttrs arg => subst hr; exact setEdgeAttrs_attrs h arg
  case setNetAttr k v => subst hr; exact setNetAttr_attrs h k v
  case clear b => subst hr; exact clear_attrs h b
  case copy => exact copy_attrs' h r hr
  case cleanup a b c => exact cleanup_attrs h a b c r hr
  case relabel l => subst hr; exact relabel_attrs h l
  case freeze => subst hr; exact attrsOKD_of_eq h rfl rfl rfl

theorem step_attrs {s : DHG} (h : AttrsOKD s) (op : Op) (r : DHG × Outcome) (hr : step s op = some r) : AttrsOKD r.1 := by
  unfold step at hr
  split at hr
  · cases hr; exact h
  · exact stepCore_attrs h op r hr

end DHG
end Xgi
