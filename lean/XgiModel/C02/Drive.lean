/-
  JSON request → `DHG.Op`, state → JSON snapshot.  Used by Drivers/DHG.lean.

  Requests (see harness/dhg.py):
    add_node {n, attr} · add_nodes_from {items:[{n, attr?}], attr} · remove_node {n, strong, remove_empty}
    remove_nodes_from {ns, strong, remove_empty}
    add_edge {members: {"tail":[…],"head":[…]} | {"bad":"not_seq"|"short"}, idx: "$auto" | id, attr}
    add_edges_from {fmt: 1..5, items:[{members, idx?, attr?}], attr}
    add_node_to_edge {e, n, direction} · remove_node_from_edge {e, n, direction, remove_empty}
    remove_edge {e} · remove_edges_from {es}
    set_node_attributes / set_edge_attributes {shape, …} · set_net_attr {k, v}
    clear {remove_net_attr} · copy {} · cleanup {isolates, relabel, in_place} · relabel {label_attribute}
    freeze {} · reset {} · snapshot {}
    pickle {} · construct {attr}     -- clone routes of C02/Copy.lean (`DHG.clone`); the history continues on the clone
-/
import XgiModel.Proto
import XgiModel.C02.DHG
import XgiModel.C02.Copy
open Lean Xgi.Proto

namespace Xgi.DHG.Drive

def outcomeJson : Outcome → Json
  | .ok => "ok"
  | .warned => "warned"
  | .err .lib => "err:lib"
  | .err .typeError => "err:type"
  | .err .valueError => "err:value"
  | .err .other => "err:other"

def attrsJ (a : Attrs) : Json := Json.mkObj [("$attrs", attrsToJson a)]

def perId (ids : List PyId) (f : PyId → Json) : Json :=
  Json.arr (ids.map (fun i => Json.arr #[idToJson i, f i])).toArray

/-- the full observable state; set-valued entries are `{"$set": …}` (sorted by the comparer) -/
def snapshot (s : DHG) : List (String × Json) :=
  [ ("nodes", idsToJson s.nodes),
    ("edges", idsToJson s.edges),
    ("tail", perId s.edges (fun e => setToJson (s.tail e))),
    ("head", perId s.edges (fun e => setToJson (s.head e))),
    ("membIn", perId s.nodes (fun n => setToJson (s.membIn n))),
    ("membOut", perId s.nodes (fun n => setToJson (s.membOut n))),
    -- what the stats report: in/out/total degree, tail/head/total size
    ("indeg", perId s.nodes (fun n => natJson (s.membIn n).length)),
    ("outdeg", perId s.nodes (fun n => natJson (s.membOut n).length)),
    ("deg", perId s.nodes (fun n => natJson (dedup (s.membIn n ++ s.membOut n)).length)),
    ("tailsize", perId s.edges (fun e => natJson (s.tail e).length)),
    ("headsize", perId s.edges (fun e => natJson (s.head e).length)),
    ("size", perId s.edges (fun e => natJson (dedup (s.tail e ++ s.head e)).length)),
    ("nattr", perId s.nodes (fun n => if n ∈ s.nattrK then attrsJ (s.nattr n) else Json.str "$missing")),
    ("eattr", perId s.edges (fun e => if e ∈ s.eattrK then attrsJ (s.eattr e) else Json.str "$missing")),
    ("nattrK", setToJson s.nattrK),
    ("eattrK", setToJson s.eattrK),
    ("net", attrsJ s.net),
    ("uid", natJson s.uid),
    ("frozen", Json.bool s.frozen) ]

def respond (s : DHG) (o : Outcome) : Json := Json.mkObj (("out", outcomeJson o) :: snapshot s)

def nodeItem? (j : Json) : Option (PyId × Option Attrs) := do
  let n ← getId? j "n"
  match getField? j "attr" with
  | none => pure (n, none)
  | some a => pure (n, some (← attrsOfJson? a))

def members? (j : Json) : Option DiMembers :=
  match getStr? j "bad" with
  | some "not_seq" => some .notSeq
  | some "short" => some .short
  | some _ => none
  | none => do pure (.pair (← getIds? j "tail") (← getIds? j "head"))

def fmt? (j : Json) : Option Fmt :=
  match getNat? j "fmt" with
  | some 1 => some .f1 | some 2 => some .f2 | some 3 => some .f3 | some 4 => some .f4 | some 5 => some .f5
  | _ => none

/-- an item of a bulk addition; explicit formats must carry `idx`, automatic ones must not -/
def edgeItem? (fmt : Fmt) (j : Json) : Option EdgeItem := do
  let ms ← (getField? j "members").bind members?
  let idx ← match getField? j "idx" with
    | none => if fmt.explicit then none else pure none
    | some i => if fmt.explicit then (idOfJson? i).map some else none
  let a ← match getField? j "attr" with
    | none => pure []
    | some a => if fmt = .f3 ∨ fmt = .f4 then attrsOfJson? a else none
  pure { members := ms, idx := idx, attr := a }

def dir? (j : Json) : Option Dir :=
  match getStr? j "direction" with
  | some "in" => some .tail
  | some "out" => some .head
  | some _ => some .invalid
  | none => none

def attrArg? (j : Json) : Option AttrArg :=
  match getStr? j "shape" with
  | some "dict_name" => do
    let vals ← getArr? j "values"
    let vals ← vals.mapM (fun p => match p with
      | .arr #[i, v] => do pure ((← idOfJson? i), (← valOfJson? v))
      | _ => none)
    pure (.dictName vals (← getStr? j "name"))
  | some "const_name" => do
    pure (.constName (← (getField? j "value").bind valOfJson?) (← getStr? j "name"))
  | some "dict_of_dict" => do
    let vals ← getArr? j "values"
    let vals ← vals.mapM (fun p => match p with
      | .arr #[i, a] => do pure ((← idOfJson? i), (← attrsOfJson? a))
      | _ => none)
    pure (.dictOfDict vals)
  | some "bad_no_name" => some .badNoName
  | _ => none

def op? (j : Json) : Option Op := do
  let name ← getStr? j "op"
  match name with
  | "add_node" => pure (.addNode (← getId? j "n") (← getAttrs? j "attr"))
  | "add_nodes_from" => do
    let items ← (← getArr? j "items").mapM nodeItem?
    pure (.addNodesFrom items (← getAttrs? j "attr"))
  | "remove_node" => pure (.removeNode (← getId? j "n") (← getBool? j "strong") (← getBool? j "remove_empty"))
  | "remove_nodes_from" => pure (.removeNodesFrom (← getIds? j "ns") (← getBool? j "strong") (← getBool? j "remove_empty"))
  | "add_edge" => do
    let idx ← match getField? j "idx" with
      | some (.str "$auto") => pure none
      | some .null => none                    -- `idx=None` is the automatic id: the harness sends "$auto"
      | some i => (idOfJson? i).map some
      | none => none
    pure (.addEdge (← (getField? j "members").bind members?) idx (← getAttrs? j "attr"))
  | "add_edges_from" => do
    let fmt ← fmt? j
    let items ← (← getArr? j "items").mapM (edgeItem? fmt)
    pure (.addEdgesFrom fmt items (← getAttrs? j "attr"))
  | "add_node_to_edge" => pure (.addNodeToEdge (← getId? j "e") (← getId? j "n") (← dir? j))
  | "remove_edge" => pure (.removeEdge (← getId? j "e"))
  | "remove_edges_from" => pure (.removeEdgesFrom (← getIds? j "es"))
  | "remove_node_from_edge" =>
    pure (.removeNodeFromEdge (← getId? j "e") (← getId? j "n") (← dir? j) (← getBool? j "remove_empty"))
  | "set_node_attributes" => pure (.setNodeAttrs (← attrArg? j))
  | "set_edge_attributes" => pure (.setEdgeAttrs (← attrArg? j))
  | "set_net_attr" => pure (.setNetAttr (← getStr? j "k") (← (getField? j "v").bind valOfJson?))
  | "clear" => pure (.clear (← getBool? j "remove_net_attr"))
  | "copy" => pure .copy
  | "cleanup" => pure (.cleanup (← getBool? j "isolates") (← getBool? j "relabel") (← getBool? j "in_place"))
  | "relabel" => pure (.relabel (← getStr? j "label_attribute"))
  | "freeze" => pure .freeze
  | _ => none

/-- `pickle.loads(pickle.dumps(DH))` / `DiHypergraph(DH, **attr)`: the history continues on what the call returned -/
def cloneBy (s : DHG) (c : Option CloneRoute) : DHG × Json :=
  match c with
  | none => (s, badOp)
  | some c =>
    match DHG.clone s c with
    | none => (s, Json.mkObj [("out", "unmodelled")])
    | some (s', o) => (s', respond s' o)

def handle (s : DHG) (j : Json) : DHG × Json :=
  match getStr? j "op" with
  | some "reset" => (DHG.empty, respond DHG.empty .ok)
  | some "snapshot" => (s, respond s .ok)
  -- a request whose arguments are outside the model's ID domain (uuid / float / bytes / huge-int IDs …): no answer
  | some "outside-model" => (s, Json.mkObj [("out", "unmodelled")])
  | some "pickle" => cloneBy s (some .pickle)
  | some "construct" => cloneBy s ((getAttrs? j "attr").map .ctor)
  | _ =>
    match op? j with
    | none => (s, badOp)
    | some op =>
      match DHG.step s op with
      | none => (s, Json.mkObj [("out", "unmodelled")])
      | some (s', o) => (s', respond s' o)

end Xgi.DHG.Drive
