/-
  Helper definitions and lemmas for C18 on the directed model (frozen semantics of `DHG.step`).
  Directed twin of Lemmas/HGFreeze.lean.
-/
import XgiModel.C02.Lemmas

namespace Xgi.C18D
open Xgi Xgi.DHG

/-- the Python method (or library function) each op of the directed alphabet stands for -/
def pyName : Op → String
  | .addNode .. => "add_node" | .addNodesFrom .. => "add_nodes_from" | .removeNode .. => "remove_node"
  | .removeNodesFrom .. => "remove_nodes_from" | .addEdge .. => "add_edge" | .addEdgesFrom .. => "add_edges_from"
  | .addNodeToEdge .. => "add_node_to_edge" | .removeEdge .. => "remove_edge" | .removeEdgesFrom .. => "remove_edges_from"
  | .removeNodeFromEdge .. => "remove_node_from_edge" | .setNodeAttrs .. => "set_node_attributes"
  | .setEdgeAttrs .. => "set_edge_attributes" | .setNetAttr .. => "__setitem__" | .clear .. => "clear"
  | .copy => "copy" | .cleanup .. => "cleanup" | .relabel .. => "convert_labels_to_integers" | .freeze => "freeze"

/-- ops that work on the network they are called on.  The other two — `copy()` and `cleanup(in_place=False)` —
    only read their receiver and hand back a *new* network (in the model the history continues on what they
    return, see `DHG.copy` / `DHG.cleanup`) -/
def inPlace : Op → Bool
  | .copy => false
  | .cleanup _ _ ip => ip
  | _ => true

/-- same nodes, edges, tail, head, in/out memberships, attribute-record keys and frozen flag -/
def SameStructD (s t : DHG) : Prop :=
  t.nodes = s.nodes ∧ t.edges = s.edges ∧ t.tail = s.tail ∧ t.head = s.head ∧ t.membIn = s.membIn ∧
  t.membOut = s.membOut ∧ t.nattrK = s.nattrK ∧ t.eattrK = s.eattrK ∧ t.frozen = s.frozen

theorem SameStructD.refl (s : DHG) : SameStructD s s := ⟨rfl, rfl, rfl, rfl, rfl, rfl, rfl, rfl, rfl⟩
theorem SameStructD.trans {s t u : DHG} (a : SameStructD s t) (b : SameStructD t u) : SameStructD s u := by
  obtain ⟨a1, a2, a3, a4, a5, a6, a7, a8, a9⟩ := a
  obtain ⟨b1, b2, b3, b4, b5, b6, b7, b8, b9⟩ := b
  exact ⟨b1.trans a1, b2.trans a2, b3.trans a3, b4.trans a4, b5.trans a5, b6.trans a6, b7.trans a7, b8.trans a8,
         b9.trans a9⟩

theorem SameStructD.frozen {s t : DHG} (a : SameStructD s t) : t.frozen = s.frozen := a.2.2.2.2.2.2.2.2

theorem guardF_frozen (s : DHG) (r : DHG × Outcome) (hf : s.frozen = true) : guardF s r = (s, .err .lib) := by
  unfold guardF; simp [hf]

/-! ### the attribute setters never touch structure -/

theorem bulk_same {α : Type} (f : DHG → α → DHG × Outcome) (hf : ∀ s a, SameStructD s (f s a).1) (l : List α)
    (s : DHG) : SameStructD s (bulk f s l).1 :=
  bulk_inv (SameStructD s) f (fun t a ht => ht.trans (hf t a)) l (SameStructD.refl s)

theorem foldl_same {α : Type} (f : DHG → α → DHG) (hf : ∀ s a, SameStructD s (f s a)) (l : List α) (s : DHG) :
    SameStructD s (l.foldl f s) :=
  foldl_inv (SameStructD s) f (fun t a ht => ht.trans (hf t a)) l (SameStructD.refl s)

theorem updNodeAttr_same (s : DHG) (n : PyId) (a : Attrs) : SameStructD s (updNodeAttr s n a) :=
  ⟨rfl, rfl, rfl, rfl, rfl, rfl, rfl, rfl, rfl⟩
theorem updEdgeAttr_same (s : DHG) (n : PyId) (a : Attrs) : SameStructD s (updEdgeAttr s n a) :=
  ⟨rfl, rfl, rfl, rfl, rfl, rfl, rfl, rfl, rfl⟩

theorem setNodeAttrs_same (s : DHG) (arg : AttrArg) : SameStructD s (setNodeAttrs s arg).1 := by
  unfold setNodeAttrs
  cases arg with
  | dictName vals name => exact bulk_same _ (fun s p => by split <;> first | exact updNodeAttr_same _ _ _ | exact SameStructD.refl _) _ _
  | constName v name => exact foldl_same _ (fun s n => updNodeAttr_same _ _ _) _ _
  | dictOfDict vals => exact bulk_same _ (fun s p => by split <;> first | exact updNodeAttr_same _ _ _ | exact SameStructD.refl _) _ _
  | badNoName => exact SameStructD.refl _

theorem setEdgeAttrs_same (s : DHG) (arg : AttrArg) : SameStructD s (setEdgeAttrs s arg).1 := by
  unfold setEdgeAttrs
  cases arg with
  | dictName vals name => exact bulk_same _ (fun s p => by split <;> first | exact updEdgeAttr_same _ _ _ | exact SameStructD.refl _) _ _
  | constName v name => exact foldl_same _ (fun s n => updEdgeAttr_same _ _ _) _ _
  | dictOfDict vals => exact bulk_same _ (fun s p => by split <;> first | exact updEdgeAttr_same _ _ _ | exact SameStructD.refl _) _ _
  | badNoName => exact SameStructD.refl _

/-! ### library functions built from the disabled methods: on a frozen network the first mutating call raises -/

theorem andThen_same (s : DHG) (r : DHG × Outcome) (f : DHG → DHG × Outcome)
    (hr : SameStructD s r.1) (hf : ∀ t, SameStructD s t → SameStructD s (f t).1) : SameStructD s (andThen r f).1 :=
  andThen_inv (SameStructD s) r f hr hf

theorem relabel_frozen_same (s t : DHG) (hf : s.frozen = true) (hs : SameStructD s t) (l : String) :
    SameStructD s (relabel t l).1 := by
  have hf' : t.frozen = true := by rw [hs.frozen]; exact hf
  unfold relabel; simp [hf']; exact hs

theorem cleanupBody_frozen_same (s : DHG) (hf : s.frozen = true) (r0 : DHG × Outcome) (h0 : SameStructD s r0.1)
    (a b : Bool) : SameStructD s (cleanupBody r0 a b).1 := by
  unfold cleanupBody
  apply andThen_same
  · apply andThen_same _ _ _ h0
    intro t ht
    have hf' : t.frozen = true := by rw [ht.frozen]; exact hf
    split
    · exact ht
    · rw [guardF_frozen t _ hf']; exact ht
  · intro t ht; split
    · exact relabel_frozen_same s t hf ht _
    · exact ht

/-! ### the frozen flag: no op but `freeze` writes it; new networks start unfrozen -/

/-- the flag has the value `b` -/
def Flag (b : Bool) (s : DHG) : Prop := s.frozen = b

theorem addNodeRaw_flag {b : Bool} {s : DHG} (h : Flag b s) (n : PyId) : Flag b (addNodeRaw s n) := by
  unfold addNodeRaw; split <;> exact h

theorem bumpUid_flag {b : Bool} {s : DHG} (h : Flag b s) (i : PyId) : Flag b (bumpUid s i) := by
  unfold bumpUid; split
  · split <;> exact h
  · exact h

theorem linkTail_flag {b : Bool} {s : DHG} (h : Flag b s) (e n : PyId) : Flag b (linkTail s e n) :=
  addNodeRaw_flag (s := s) h n
theorem linkHead_flag {b : Bool} {s : DHG} (h : Flag b s) (e n : PyId) : Flag b (linkHead s e n) :=
  addNodeRaw_flag (s := s) h n

theorem addEdgeAt_flag {b : Bool} {s : DHG} (h : Flag b s) (e : PyId) (tl hd : List PyId) (a : Attrs) :
    Flag b (addEdgeAt s e tl hd a) := by
  unfold addEdgeAt
  exact foldl_inv (Flag b) _ (fun t n ht => linkHead_flag ht e n) hd
    (foldl_inv (Flag b) _ (fun t n ht => linkTail_flag ht e n) tl h)

theorem addNodesFrom_flag {b : Bool} {s : DHG} (h : Flag b s) (items : List (PyId × Option Attrs)) (attr : Attrs) :
    Flag b (addNodesFrom s items attr).1 :=
  bulk_inv (Flag b) _ (fun t it ht => by
    obtain ⟨n, od⟩ := it
    unfold addNodesItem; simp only []; split
    · exact ht
    · exact addNodeRaw_flag (s := t) ht n) items h

theorem addEdgesItem_flag {b : Bool} (fmt : Fmt) (attr : Attrs) (s : DHG) (it : EdgeItem) (h : Flag b s) :
    Flag b (addEdgesItem fmt attr s it).1 := by
  unfold addEdgesItem
  by_cases hx : fmt.explicit = true
  · simp only [hx, if_true]
    split
    · exact h
    · split
      · exact h
      · exact h
      · split
        · exact h
        · exact bumpUid_flag (addEdgeAt_flag h _ _ _ _) _
  · simp only [hx]
    simp only [Bool.false_eq_true, if_false]
    have h' : Flag b { s with uid := s.uid + 1 } := h
    split
    · exact h'
    · split
      · exact h'
      · exact h'
      · split
        · exact h'
        · exact addEdgeAt_flag h' _ _ _ _

theorem addEdgesBulk_flag {b : Bool} {s : DHG} (h : Flag b s) (fmt : Fmt) (items : List EdgeItem) (attr : Attrs) :
    Flag b (addEdgesBulk s fmt items attr).1 :=
  bulk_inv (Flag b) _ (fun t a ht => addEdgesItem_flag fmt attr t a ht) items h

theorem addEdgesFrom_flag {b : Bool} {s : DHG} (h : Flag b s) (fmt : Fmt) (items : List EdgeItem) (attr : Attrs)
    (r : DHG × Outcome) (hr : addEdgesFrom s fmt items attr = some r) : Flag b r.1 := by
  have key := addEdgesBulk_flag h fmt items attr
  unfold addEdgesFrom at hr
  split at hr
  · split at hr
    · cases hr; exact h
    · cases hr
    · cases hr; exact key
  · split at hr
    · cases hr
    · cases hr; exact key
  · split at hr
    · cases hr
    · cases hr; exact key
  · cases hr; exact key

theorem removeNodesFrom_flag {b : Bool} {s : DHG} (h : Flag b s) (ns : List PyId) (st re : Bool) :
    Flag b (removeNodesFrom s ns st re).1 :=
  bulk_inv (Flag b) _ (fun t a ht => by
    unfold removeNodesItem removeNode
    repeat' split
    all_goals exact ht) ns h

theorem addNode_flag {b : Bool} {s : DHG} (h : Flag b s) (n : PyId) (a : Attrs) : Flag b (addNode s n a).1 := by
  unfold addNode; split
  · exact h
  · exact addNodeRaw_flag (s := s) h n

theorem removeNode_flag {b : Bool} {s : DHG} (h : Flag b s) (n : PyId) (st re : Bool) :
    Flag b (removeNode s n st re).1 := by
  unfold removeNode
  repeat' split
  all_goals exact h

theorem addEdge_flag {b : Bool} {s : DHG} (h : Flag b s) (m : DiMembers) (idx : Option PyId) (a : Attrs) :
    Flag b (addEdge s m idx a).1 := by
  cases m with
  | notSeq => exact h
  | short => exact h
  | pair tl hd =>
    cases idx with
    | some i =>
      unfold addEdge; simp only []; split
      · exact h
      · split
        · exact h
        · exact bumpUid_flag (addEdgeAt_flag h _ _ _ _) _
    | none =>
      unfold addEdge; simp only []; split
      · exact h
      · exact addEdgeAt_flag (s := { s with uid := s.uid + 1 }) h _ _ _ _

theorem addNodeToEdge_flag {b : Bool} {s : DHG} (h : Flag b s) (e n : PyId) (d : Dir) :
    Flag b (addNodeToEdge s e n d).1 := by
  unfold addNodeToEdge; split
  · exact h
  · split
    · exact h
    · simp only []
      have key : Flag b (if e ∈ s.edges then s else bumpUid (newEdgeAttr (newEdgeRaw s e) e) e) := by
        split
        · exact h
        · exact bumpUid_flag (s := newEdgeAttr (newEdgeRaw s e) e) h e
      generalize (if e ∈ s.edges then s else bumpUid (newEdgeAttr (newEdgeRaw s e) e) e) = t at key
      split
      · exact linkTail_flag key e n
      · exact linkHead_flag key e n

theorem removeEdge_flag {b : Bool} (s : DHG) (e : PyId) (h : Flag b s) : Flag b (removeEdge s e).1 := by
  unfold removeEdge; split <;> exact h

theorem removeEdgesFrom_flag {b : Bool} {s : DHG} (h : Flag b s) (es : List PyId) : Flag b (removeEdgesFrom s es).1 :=
  bulk_inv (Flag b) _ (fun t a ht => removeEdge_flag t a ht) es h

theorem removeNodeFromEdge_flag {b : Bool} {s : DHG} (h : Flag b s) (e n : PyId) (d : Dir) (re : Bool) :
    Flag b (removeNodeFromEdge s e n d re).1 := by
  unfold removeNodeFromEdge
  repeat' split
  all_goals first | exact h | (simp only []; split <;> exact h)

theorem setNodeAttrs_flag {b : Bool} {s : DHG} (h : Flag b s) (arg : AttrArg) : Flag b (setNodeAttrs s arg).1 := by
  have := (setNodeAttrs_same s arg).frozen; unfold Flag at *; rw [this]; exact h
theorem setEdgeAttrs_flag {b : Bool} {s : DHG} (h : Flag b s) (arg : AttrArg) : Flag b (setEdgeAttrs s arg).1 := by
  have := (setEdgeAttrs_same s arg).frozen; unfold Flag at *; rw [this]; exact h

theorem relabel_flag {b : Bool} {s : DHG} (h : Flag b s) (l : String) : Flag b (relabel s l).1 := by
  unfold relabel
  simp only []
  split
  · exact h
  · exact setEdgeAttrs_flag (addEdgesBulk_flag (setNodeAttrs_flag (addNodesFrom_flag (s := (clear s false).1) h _ _) _) _ _ _) _

theorem cleanupBody_flag {b : Bool} (r0 : DHG × Outcome) (h0 : Flag b r0.1) (x y : Bool) :
    Flag b (cleanupBody r0 x y).1 := by
  unfold cleanupBody
  apply andThen_inv (Flag b)
  · apply andThen_inv (Flag b) _ _ h0
    intro t ht; split
    · exact ht
    · exact guardF_inv (Flag b) _ _ ht (removeNodesFrom_flag ht _ _ _)
  · intro t ht; split
    · exact relabel_flag ht _
    · exact ht

theorem join_isErr (a b : Outcome) : (a.join b).isErr = (a.isErr || b.isErr) := by
  cases a <;> cases b <;> rfl

/-- what `copy()` hands back: the untouched original together with the error when something inside raised,
    otherwise a new network that is not frozen -/
theorem copy_result (s : DHG) (r : DHG × Outcome) (hr : copy s = some r) :
    (r.1 = s ∧ r.2.isErr = true) ∨ (r.1.frozen = false ∧ r.2.isErr = false) := by
  unfold copy at hr
  simp only [] at hr
  split at hr
  · rename_i he; cases hr; exact Or.inl ⟨rfl, he⟩
  · rename_i he1
    have h1 : Flag false (addNodesFrom DHG.empty (s.nodes.map (fun n => (n, some (s.nattr n)))) []).1 :=
      addNodesFrom_flag (s := DHG.empty) rfl _ _
    generalize (addNodesFrom DHG.empty (s.nodes.map (fun n => (n, some (s.nattr n)))) []) = t1 at *
    split at hr
    · cases hr
    · rename_i r2 heq
      have h2 : Flag false r2.1 := addEdgesFrom_flag h1 _ _ _ r2 heq
      split at hr
      · rename_i he; cases hr; exact Or.inl ⟨rfl, he⟩
      · rename_i he2
        cases hr
        refine Or.inr ⟨h2, ?_⟩
        show (t1.2.join r2.2).isErr = false
        rw [join_isErr]; simp [he1, he2]

/-- `cleanup(in_place=False)`: the same alternative -/
theorem cleanup_new_result (s : DHG) (a b : Bool) (r : DHG × Outcome) (hr : cleanup s a b false = some r) :
    (r.1 = s ∧ r.2.isErr = true) ∨ (r.1.frozen = false ∧ r.2.isErr = false) := by
  unfold cleanup at hr
  simp only [Bool.false_eq_true, if_false, Option.map_eq_some_iff] at hr
  obtain ⟨r0, hr0, hr⟩ := hr
  subst hr
  rcases copy_result s r0 hr0 with ⟨h1, h2⟩ | ⟨h1, h2⟩
  · rw [if_pos h2]; exact Or.inl ⟨h1, h2⟩
  · have hne : ¬ r0.2.isErr = true := by rw [h2]; simp
    rw [if_neg hne]
    have key : Flag false (cleanupBody r0 a b).1 := cleanupBody_flag r0 h1 a b
    generalize cleanupBody r0 a b = r2 at key
    simp only [Bool.not_false, Bool.true_and]
    split
    · rename_i he; exact Or.inl ⟨rfl, he⟩
    · rename_i he; exact Or.inr ⟨key, by simpa using he⟩

/-- every call but `freeze` leaves the flag as it is, or — the two copy-like calls — answers with an unfrozen network -/
theorem stepCore_flag {b : Bool} {s : DHG} (h : Flag b s) (op : Op) (hne : op ≠ .freeze) (r : DHG × Outcome)
    (hr : stepCore s op = some r) : r.1.frozen = b ∨ r.1.frozen = false := by
  cases op <;> simp only [stepCore, Option.some.injEq] at hr
  case addNode n a => subst hr; exact Or.inl (addNode_flag h n a)
  case addNodesFrom items a => subst hr; exact Or.inl (addNodesFrom_flag h items a)
  case removeNode n st re => subst hr; exact Or.inl (removeNode_flag h n st re)
  case removeNodesFrom ns st re => subst hr; exact Or.inl (removeNodesFrom_flag h ns st re)
  case addEdge m idx a => subst hr; exact Or.inl (addEdge_flag h m idx a)
  case addEdgesFrom fmt items a => exact Or.inl (addEdgesFrom_flag h fmt items a r hr)
  case addNodeToEdge e n d => subst hr; exact Or.inl (addNodeToEdge_flag h e n d)
  case removeEdge e => subst hr; exact Or.inl (removeEdge_flag s e h)
  case removeEdgesFrom es => subst hr; exact Or.inl (removeEdgesFrom_flag h es)
  case removeNodeFromEdge e n d re => subst hr; exact Or.inl (removeNodeFromEdge_flag h e n d re)
  case setNodeAttrs arg => subst hr; exact Or.inl (setNodeAttrs_flag h arg)
  case setEdgeAttrs arg => subst hr; exact Or.inl (setEdgeAttrs_flag h arg)
  case setNetAttr k v => subst hr; exact Or.inl h
  case clear x => subst hr; exact Or.inl h
  case copy =>
    rcases copy_result s r hr with ⟨h1, _⟩ | ⟨h1, _⟩
    · rw [h1]; exact Or.inl h
    · exact Or.inr h1
  case cleanup x y c =>
    cases c with
    | false =>
      rcases cleanup_new_result s x y r hr with ⟨h1, _⟩ | ⟨h1, _⟩
      · rw [h1]; exact Or.inl h
      · exact Or.inr h1
    | true =>
      unfold cleanup at hr
      simp only [if_true, Option.map_some, Option.some.injEq] at hr
      subst hr
      simp only [Outcome.isErr, Bool.false_eq_true, if_false, Bool.not_true, Bool.false_and]
      exact Or.inl (cleanupBody_flag (s, .ok) h x y)
  case relabel l => subst hr; exact Or.inl (relabel_flag h l)
  case freeze => exact absurd rfl hne

end Xgi.C18D
