/-
  C07 (directed part) — the three ways of cloning a `DiHypergraph`, transcribed on the `DHG` model.

    * `DHG.copy`            `DiHypergraph.copy`                      (xgi/core/dihypergraph.py)
                            — defined in C02/DHG.lean, because `cleanup(in_place=False)` and the op alphabet use it;
                              `copy_eq_items` (C02/LemmasCopy.lean) restates it with the item lists named here
    * `DHG.pickleRoundTrip` `__getstate__` → pickle → `__setstate__`
    * `DHG.ofNetwork`       `DiHypergraph(DH, **attr)`, i.e. `__init__` → `to_dihypergraph(DH, create_using=self)`
                            (xgi/convert/higher_order_network.py, branch "data is a DiHypergraph")

  `copy` and the constructor build the clone through the *public mutators of the model* (`addNodesFrom`,
  `addEdgesFrom` format 4, `clear`) exactly as the Python does, so every lemma of C02/Lemmas.lean applies to
  them.  `deepcopy` of an attribute dict is the identity on the value level of this model (`Attrs` are
  immutable values here); what `deepcopy`/`pickle` add in Python — *fresh containers* — is the subject of
  C07/Heap.lean.  `dimembers(e)` hands the tail and the head over as two sets; the model iterates them in
  the order of its lists (the theorems read tail/head/memberships as sets, so the order is immaterial).

  Outside the model (`none`), as for `add_edges_from`: a first edge whose ID is a tuple (the format detection
  of `add_edges_from` would take `(dimembers, id, attr)` for format 1).

  A function that returns a new network answers `(network, outcome)`; when something inside raised, the
  caller never receives the new network and the answer is `(source, err _)` (the convention of `DHG.copy`).
  No Mathlib.
-/
import XgiModel.C02.DHG
import XgiModel.C07.Copy   -- only for the shared `HG.IsDict` and `HG.lookupD`

namespace Xgi
namespace DHG

/-- `(n, deepcopy(attr)) for n, attr in self.nodes.items()` — also `(n, attr) for n, attr in data.nodes.items()` -/
def nodeItems (s : DHG) : List (PyId × Option Attrs) :=
  s.nodes.map (fun n => (n, some (s.nattr n)))

/-- `(e, idx, deepcopy(self.edges[idx])) for idx, e in ee.dimembers(dtype=dict).items()` — also
    `(ee.dimembers(e), e, deepcopy(attr)) for e, attr in ee.items()`: format 4 of `add_edges_from` with
    `members = (tail set, head set)` -/
def edgeItems (s : DHG) : List EdgeItem :=
  s.edges.map (fun e => { members := .pair (s.tail e) (s.head e), idx := some e, attr := s.eattr e })

/-- `DiHypergraph(DH, **attr)`:
    ```
    __init__:          six fresh tables, self._edge_uid = count()
    to_dihypergraph:   H = empty_dihypergraph(create_using=self)        -- self.clear(); H is self
                       H.add_nodes_from((n, attr) for n, attr in data.nodes.items())
                       H.add_edges_from((ee.dimembers(e), e, deepcopy(attr)) for e, attr in ee.items())
                       H._net_attr = deepcopy(data._net_attr)
    __init__:          self._net_attr.update(attr)
    ```
    The counter is **not** copied: it starts at 0 and is advanced by `update_uid_counter` for every
    explicit ID of format 4 (inside `addEdgesFrom`). -/
def ofNetwork (s : DHG) (attr : Attrs := []) : Option (DHG × Outcome) :=
  let h := (clear DHG.empty true).1
  let r1 := addNodesFrom h (nodeItems s) []
  if r1.2.isErr then some (s, r1.2) else
  match addEdgesFrom r1.1 .f4 (edgeItems s) [] with
  | none => none
  | some r2 =>
    if r2.2.isErr then some (s, r2.2) else
    some ({ r2.1 with net := s.net.update attr }, r1.2.join r2.2)

/-! ### pickle: the state dict -/

/-- what `__getstate__` returns: the counter and the five dicts (as key/value lists in dict order);
    the values of `_node` / `_edge` are the two-entry dicts `{"in": set, "out": set}`, here pairs `(in, out)` -/
structure PStateD where
  edgeUid : Nat
  netAttr : Attrs
  node : List (PyId × (List PyId × List PyId))       -- n ↦ (`_node[n]["in"]`, `_node[n]["out"]`)
  nodeAttr : List (PyId × Attrs)
  edge : List (PyId × (List PyId × List PyId))       -- e ↦ (`_edge[e]["in"]` = tail, `_edge[e]["out"]` = head)
  edgeAttr : List (PyId × Attrs)

/-- `__getstate__` -/
def getState (s : DHG) : PStateD :=
  { edgeUid := s.uid, netAttr := s.net,
    node := s.nodes.map (fun n => (n, (s.membIn n, s.membOut n))),
    nodeAttr := s.nattrK.map (fun n => (n, s.nattr n)),
    edge := s.edges.map (fun e => (e, (s.tail e, s.head e))),
    edgeAttr := s.eattrK.map (fun e => (e, s.eattr e)) }

/-- `__setstate__` on a new instance (`object.__new__`): the six fields are taken from the state dict and the
    views are recreated; none of the instance attributes written by `freeze()` (`frozen`, the replaced
    methods) is part of the state, so `is_frozen` is `False` -/
def setState (p : PStateD) : DHG :=
  { nodes := p.node.map (·.1), edges := p.edge.map (·.1),
    membIn := fun n => (HG.lookupD p.node ([], []) n).1, membOut := fun n => (HG.lookupD p.node ([], []) n).2,
    tail := fun e => (HG.lookupD p.edge ([], []) e).1, head := fun e => (HG.lookupD p.edge ([], []) e).2,
    nattrK := p.nodeAttr.map (·.1), eattrK := p.edgeAttr.map (·.1),
    nattr := HG.lookupD p.nodeAttr [], eattr := HG.lookupD p.edgeAttr [],
    net := p.netAttr, uid := p.edgeUid, frozen := false }

/-- `pickle.loads(pickle.dumps(DH))`; pickle itself is "a fresh structure isomorphic to the state dict" -/
def pickleRoundTrip (s : DHG) : DHG := setState (getState s)

/-! ### what "the same network" means -/

/-- every attribute dict of the state is a dict: no key occurs twice (true of `DHG.empty`, kept by every
    mutator: `Props/C07D.lean`, `C07D_step_attrs`) -/
structure AttrsOKD (s : DHG) : Prop where
  nattr : ∀ n, HG.IsDict (s.nattr n)
  eattr : ∀ e, HG.IsDict (s.eattr e)
  net : HG.IsDict s.net

/-- `t` shows the same network as `s`: same nodes in the same order, same edges in the same order, the same
    tail set and head set for every edge, the same in- and out-membership sets for every node, the same
    attribute dict (keys, values and key order) for every node, every edge and the network, one attribute
    record per ID on both sides -/
structure SameNetD (s t : DHG) : Prop where
  nodes : t.nodes = s.nodes
  edges : t.edges = s.edges
  tail : ∀ e ∈ s.edges, ∀ x, x ∈ t.tail e ↔ x ∈ s.tail e
  head : ∀ e ∈ s.edges, ∀ x, x ∈ t.head e ↔ x ∈ s.head e
  membIn : ∀ n ∈ s.nodes, ∀ e, e ∈ t.membIn n ↔ e ∈ s.membIn n
  membOut : ∀ n ∈ s.nodes, ∀ e, e ∈ t.membOut n ↔ e ∈ s.membOut n
  nattr : ∀ n ∈ s.nodes, t.nattr n = s.nattr n
  eattr : ∀ e ∈ s.edges, t.eattr e = s.eattr e
  nattrK : ∀ n, n ∈ t.nattrK ↔ n ∈ s.nattrK
  eattrK : ∀ e, e ∈ t.eattrK ↔ e ∈ s.eattrK
  net : t.net = s.net

/-- the clone routes that go through `add_edges_from` are inside the model when the first edge ID (if any)
    is not a tuple -/
def FirstIdOK (s : DHG) : Prop := ∀ e, s.edges.head? = some e → isTup e = false

/-- the route by which a network is cloned (a request of the driver `DHG`) -/
inductive CloneRoute where
  | copy | pickle | ctor (attr : Attrs)
  deriving Inhabited

/-- one cloning call; the history continues on what the call returned -/
def clone (s : DHG) : CloneRoute → Option (DHG × Outcome)
  | .copy => copy s
  | .pickle => some (pickleRoundTrip s, .ok)
  | .ctor attr => ofNetwork s attr

end DHG
end Xgi
