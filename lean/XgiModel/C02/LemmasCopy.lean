/-
  C07 (directed part) helper lemmas: what the rebuild through `addNodesFrom` / `addEdgesFrom` (format 4)
  produces on the `DHG` model, the state-dict round trip.  Directed twin of C07/LemmasCopy.lean.
-/
import XgiModel.C02.Copy
import XgiModel.C02.LemmasAdd
import XgiModel.C07.LemmasCopy   -- attribute-dict facts (`isDict_*`, `update_nil`), `lookupD_map`, `not_mem_of_nodup_split`

namespace Xgi
namespace DHG
open HG (IsDict isDict_nil isDict_update update_nil lookupD lookupD_map map_fst_map not_mem_of_nodup_split)

/-- `DHG.copy` written with the item lists of C02/Copy.lean -/
theorem copy_eq_items (s : DHG) : copy s =
    (let r1 := addNodesFrom DHG.empty (nodeItems s) []
     if r1.2.isErr then some (s, r1.2) else
     match addEdgesFrom r1.1 .f4 (edgeItems s) [] with
     | none => none
     | some r2 =>
       if r2.2.isErr then some (s, r2.2) else
       some ({ r2.1 with net := s.net, uid := s.uid }, r1.2.join r2.2)) := rfl

theorem clear_empty : (clear DHG.empty true).1 = DHG.empty := rfl

/-! ### `bulk` over a mapped list, with an invariant that knows the processed prefix -/

theorem bulk_map {α β : Type} (f : DHG → β → DHG × Outcome) (g : α → β) (s : DHG) (l : List α) :
    bulk f s (l.map g) = bulk (fun s a => f s (g a)) s l := by
  induction l generalizing s with
  | nil => rfl
  | cons a t ih => simp only [List.map_cons, bulk, ih]

theorem bulk_prefix {α : Type} (f : DHG → α → DHG × Outcome) (P : DHG → List α → Prop) (l : List α)
    (hstep : ∀ t done a rest, l = done ++ a :: rest → P t done → (f t a).2 = .ok ∧ P (f t a).1 (done ++ [a])) :
    ∀ (rest done : List α) (t : DHG), l = done ++ rest → P t done →
      (bulk f t rest).2 = .ok ∧ P (bulk f t rest).1 l := by
  intro rest
  induction rest with
  | nil => intro done t hl hp; simp only [List.append_nil] at hl; subst hl; exact ⟨rfl, hp⟩
  | cons a rest ih =>
    intro done t hl hp
    obtain ⟨hok, hP⟩ := hstep t done a rest hl hp
    rcases hfa : f t a with ⟨t', o⟩
    rw [hfa] at hok hP
    simp only at hok hP
    subst hok
    have := ih (done ++ [a]) t' (by rw [hl]; simp) hP
    simp only [bulk, hfa]
    exact ⟨by rw [this.1]; rfl, this.2⟩

/-! ### stage 1: `add_nodes_from((n, attr) …)` on the empty network -/

/-- the state after the node prefix `done` of `s` has been added to the empty network -/
structure NodeStageD (s t : DHG) (done : List PyId) : Prop where
  nodes : t.nodes = done
  edges : t.edges = []
  eattrK : t.eattrK = []
  net : t.net = []
  uid : t.uid = 0
  frozen : t.frozen = false
  membIn : ∀ n ∈ done, t.membIn n = []
  membOut : ∀ n ∈ done, t.membOut n = []
  nattr : ∀ n ∈ done, t.nattr n = s.nattr n
  nattrK : ∀ n, n ∈ t.nattrK ↔ n ∈ done

theorem nodeStageD_empty (s : DHG) : NodeStageD s DHG.empty [] := by
  constructor <;> simp [DHG.empty]

theorem nodeStageD_step {s t : DHG} {done : List PyId} (h : NodeStageD s t done) (n : PyId) (hn : n ∉ done)
    (hnone : n ≠ .none) (hd : IsDict (s.nattr n)) :
    (addNodesItem [] t (n, some (s.nattr n))).2 = .ok ∧
    NodeStageD s (addNodesItem [] t (n, some (s.nattr n))).1 (done ++ [n]) := by
  obtain ⟨h1, h2, h3, h4, h5, h6, h7, h7', h8, h9⟩ := h
  have hnt : n ∉ t.nodes := by rw [h1]; exact hn
  unfold addNodesItem
  simp only [hnone, false_and, if_false, update_nil hd]
  refine ⟨trivial, ?_⟩
  unfold updNodeAttr addNodeRaw
  rw [if_neg hnt]
  constructor <;> simp only []
  · rw [h1]
  · exact h2
  · exact h3
  · exact h4
  · exact h5
  · exact h6
  · intro m hm; simp only [upd_apply]; split
    · rfl
    · exact h7 m (by grind)
  · intro m hm; simp only [upd_apply]; split
    · rfl
    · exact h7' m (by grind)
  · intro m hm; simp only [upd_apply]; split
    · rename_i hmn; subst hmn; simp [update_nil hd]
    · exact h8 m (by grind)
  · intro m; rw [mem_ins, h9]; simp; grind

theorem nodeStageD_all {s : DHG} (h : WFd s) (ha : ∀ n, IsDict (s.nattr n)) :
    (addNodesFrom DHG.empty (nodeItems s) []).2 = .ok ∧
    NodeStageD s (addNodesFrom DHG.empty (nodeItems s) []).1 s.nodes := by
  unfold addNodesFrom nodeItems
  rw [bulk_map]
  refine bulk_prefix (fun t n => addNodesItem [] t (n, some (s.nattr n))) (NodeStageD s) s.nodes ?_
    s.nodes [] DHG.empty (by simp) (nodeStageD_empty s)
  intro t done a rest hl hp
  have h1 : a ∉ done := not_mem_of_nodup_split h.nodupN hl
  have h2 : a ≠ .none := by
    intro hc; apply h.noNoneN; rw [hl, ← hc]; simp
  exact nodeStageD_step hp a h1 h2 (ha a)

/-! ### linking members that are already nodes -/

theorem linkTail_of_mem (u : DHG) (e n : PyId) (hn : n ∈ u.nodes) : linkTail u e n = linkTailCore u e n := by
  unfold linkTail addNodeRaw; rw [if_pos hn]

theorem linkHead_of_mem (u : DHG) (e n : PyId) (hn : n ∈ u.nodes) : linkHead u e n = linkHeadCore u e n := by
  unfold linkHead addNodeRaw; rw [if_pos hn]

theorem foldl_linkTail_char (ms : List PyId) (u : DHG) (e : PyId) (hms : ∀ n ∈ ms, n ∈ u.nodes) :
    ∃ mo tl, ms.foldl (fun s n => linkTail s e n) u = { u with membOut := mo, tail := tl } ∧
      (∀ e' x, x ∈ tl e' ↔ x ∈ u.tail e' ∨ (e' = e ∧ x ∈ ms)) ∧
      (∀ n x, x ∈ mo n ↔ x ∈ u.membOut n ∨ (x = e ∧ n ∈ ms)) := by
  induction ms generalizing u with
  | nil => exact ⟨u.membOut, u.tail, rfl, by simp, by simp⟩
  | cons m ms ih =>
    simp only [List.foldl_cons]
    rw [linkTail_of_mem u e m (hms m (by simp))]
    obtain ⟨mo, tl, heq, h1, h2⟩ := ih (linkTailCore u e m) (fun n hn => hms n (by simp [hn]))
    refine ⟨mo, tl, by rw [heq]; rfl, ?_, ?_⟩
    · intro e' x; rw [h1]; simp only [linkTailCore, upd_apply]; split <;> simp <;> grind
    · intro n x; rw [h2]; simp only [linkTailCore, upd_apply]; split <;> simp <;> grind

theorem foldl_linkHead_char (ms : List PyId) (u : DHG) (e : PyId) (hms : ∀ n ∈ ms, n ∈ u.nodes) :
    ∃ mi hd, ms.foldl (fun s n => linkHead s e n) u = { u with membIn := mi, head := hd } ∧
      (∀ e' x, x ∈ hd e' ↔ x ∈ u.head e' ∨ (e' = e ∧ x ∈ ms)) ∧
      (∀ n x, x ∈ mi n ↔ x ∈ u.membIn n ∨ (x = e ∧ n ∈ ms)) := by
  induction ms generalizing u with
  | nil => exact ⟨u.membIn, u.head, rfl, by simp, by simp⟩
  | cons m ms ih =>
    simp only [List.foldl_cons]
    rw [linkHead_of_mem u e m (hms m (by simp))]
    obtain ⟨mi, hd, heq, h1, h2⟩ := ih (linkHeadCore u e m) (fun n hn => hms n (by simp [hn]))
    refine ⟨mi, hd, by rw [heq]; rfl, ?_, ?_⟩
    · intro e' x; rw [h1]; simp only [linkHeadCore, upd_apply]; split <;> simp <;> grind
    · intro n x; rw [h2]; simp only [linkHeadCore, upd_apply]; split <;> simp <;> grind

/-! ### stage 2: `add_edges_from(((tail, head), id, attr) …)` (format 4) on the result of stage 1 -/

/-- the counter is 0 or one more than some integer edge ID: nothing pushed it higher than necessary -/
def Tight (t : DHG) : Prop := t.uid = 0 ∨ ∃ i : Int, PyId.int i ∈ t.edges ∧ (t.uid : Int) = i + 1

theorem bumpUid_eq (t : DHG) (i : PyId) : bumpUid t i = { t with uid := (bumpUid t i).uid } := by
  unfold bumpUid; split
  · split <;> rfl
  · rfl

theorem tight_bump {t t' : DHG} (h : Tight t) (e : PyId) (he : t'.edges = t.edges ++ [e]) (hu : t'.uid = t.uid) :
    Tight (bumpUid t' e) := by
  unfold Tight
  simp only [bumpUid_edges, he]
  unfold bumpUid
  split
  · rename_i i
    split
    · right; exact ⟨i, by simp, by simp only []; omega⟩
    · rcases h with h | ⟨j, hj, hju⟩
      · left; rw [hu]; exact h
      · right; exact ⟨j, by simp [hj], by rw [hu]; exact hju⟩
  · rcases h with h | ⟨j, hj, hju⟩
    · left; rw [hu]; exact h
    · right; exact ⟨j, by simp [hj], by rw [hu]; exact hju⟩

/-- the state after the edge prefix `done` of `s` has been added (all nodes of `s` are there already) -/
structure EdgeStageD (s t : DHG) (done : List PyId) : Prop where
  nodes : t.nodes = s.nodes
  edges : t.edges = done
  net : t.net = []
  frozen : t.frozen = false
  nattr : ∀ n ∈ s.nodes, t.nattr n = s.nattr n
  nattrK : ∀ n, n ∈ t.nattrK ↔ n ∈ s.nodes
  tail : ∀ e ∈ done, ∀ x, x ∈ t.tail e ↔ x ∈ s.tail e
  head : ∀ e ∈ done, ∀ x, x ∈ t.head e ↔ x ∈ s.head e
  membOut : ∀ n ∈ s.nodes, ∀ e, e ∈ t.membOut n ↔ e ∈ done ∧ n ∈ s.tail e
  membIn : ∀ n ∈ s.nodes, ∀ e, e ∈ t.membIn n ↔ e ∈ done ∧ n ∈ s.head e
  eattr : ∀ e ∈ done, t.eattr e = s.eattr e
  eattrK : ∀ e, e ∈ t.eattrK ↔ e ∈ done
  tight : Tight t

theorem edgeStageD_of_nodeStageD {s t : DHG} (h : NodeStageD s t s.nodes) : EdgeStageD s t [] := by
  obtain ⟨h1, h2, h3, h4, h5, h6, h7, h7', h8, h9⟩ := h
  constructor
  · exact h1
  · exact h2
  · exact h4
  · exact h6
  · exact h8
  · exact h9
  · intro e he; cases he
  · intro e he; cases he
  · intro n hn e; rw [h7' n hn]; simp
  · intro n hn e; rw [h7 n hn]; simp
  · intro e he; cases he
  · intro e; rw [h3]
  · left; exact h5

theorem edgeStageD_step {s t : DHG} {done : List PyId} (h : EdgeStageD s t done) (e : PyId) (he : e ∉ done)
    (hnone : e ≠ .none) (htl : ∀ n ∈ s.tail e, n ∈ s.nodes) (hhd : ∀ n ∈ s.head e, n ∈ s.nodes)
    (htn : PyId.none ∉ s.tail e) (hhn : PyId.none ∉ s.head e) (hd : IsDict (s.eattr e)) :
    (addEdgesItem .f4 [] t { members := .pair (s.tail e) (s.head e), idx := some e, attr := s.eattr e }).2 = .ok ∧
    EdgeStageD s (addEdgesItem .f4 [] t { members := .pair (s.tail e) (s.head e), idx := some e, attr := s.eattr e }).1
      (done ++ [e]) := by
  obtain ⟨h1, h2, h3, h4, h5, h6, h7, h7', h8, h8', h9, h10, h11⟩ := h
  have het : e ∉ t.edges := by rw [h2]; exact he
  unfold addEdgesItem
  simp only [Fmt.explicit, if_true, Option.getD_some, het, if_false, htn, hhn, hnone, false_or, reduceCtorEq,
    update_nil hd]
  refine ⟨trivial, ?_⟩
  -- the two linking loops
  have hnodes0 : (updEdgeAttr (newEdgeAttr (newEdgeRaw t e) e) e (s.eattr e)).nodes = t.nodes := rfl
  obtain ⟨mo, tl, heq1, htl1, hmo1⟩ := foldl_linkTail_char (s.tail e)
    (updEdgeAttr (newEdgeAttr (newEdgeRaw t e) e) e (s.eattr e)) e
    (fun n hn => by rw [hnodes0, h1]; exact htl n hn)
  obtain ⟨mi, hd', heq2, hhd2, hmi2⟩ := foldl_linkHead_char (s.head e)
    { (updEdgeAttr (newEdgeAttr (newEdgeRaw t e) e) e (s.eattr e)) with membOut := mo, tail := tl } e
    (fun n hn => by show n ∈ t.nodes; rw [h1]; exact hhd n hn)
  have hadd : addEdgeAt t e (s.tail e) (s.head e) (s.eattr e) =
      { (updEdgeAttr (newEdgeAttr (newEdgeRaw t e) e) e (s.eattr e)) with
          membOut := mo, tail := tl, membIn := mi, head := hd' } := by
    unfold addEdgeAt; rw [heq1, heq2]
  have htight : Tight (bumpUid (addEdgeAt t e (s.tail e) (s.head e) (s.eattr e)) e) :=
    tight_bump h11 e (addEdgeAt_edges t e _ _ _).1 (addEdgeAt_edges t e _ _ _).2
  rw [bumpUid_eq] at htight ⊢
  generalize (bumpUid (addEdgeAt t e (s.tail e) (s.head e) (s.eattr e)) e).uid = newUid at htight ⊢
  rw [hadd] at htight ⊢
  simp only [updEdgeAttr, newEdgeAttr, newEdgeRaw, upd_apply] at htl1 hmo1 hhd2 hmi2 htight ⊢
  constructor <;> (try simp only [])
  · exact h1
  · rw [h2]
  · exact h3
  · exact h4
  · exact h5
  · exact h6
  · intro e' he' x; rw [htl1]; grind
  · intro e' he' x; rw [hhd2]; grind
  · intro n hn e'; rw [hmo1]; grind
  · intro n hn e'; rw [hmi2]; grind
  · intro e' he'; simp only [upd_apply]; split
    · rename_i hee; subst hee; simp [update_nil hd]
    · exact h9 e' (by grind)
  · intro e'; rw [mem_ins, h10]; simp; grind
  · exact htight

/-! ### the two stages together -/

theorem addEdgesFrom_f4 (t : DHG) (items : List EdgeItem) (attr : Attrs)
    (hf : ∀ it, items.head? = some it → (it.idx.map isTup).getD false = false) :
    addEdgesFrom t .f4 items attr = some (addEdgesBulk t .f4 items attr) := by
  cases items with
  | nil => rfl
  | cons it rest =>
    have := hf it rfl
    simp only [addEdgesFrom, this, Bool.false_eq_true, if_false]

theorem edgeItems_first {s : DHG} (hf : FirstIdOK s) :
    ∀ it, (edgeItems s).head? = some it → (it.idx.map isTup).getD false = false := by
  intro it hit
  unfold edgeItems at hit
  cases hs : s.edges with
  | nil => rw [hs] at hit; cases hit
  | cons e es =>
    rw [hs] at hit
    simp only [List.map_cons, List.head?_cons, Option.some.injEq] at hit
    subst hit
    simpa using hf e (by rw [hs]; rfl)

/-- a defined format-4 call means the first ID is not a tuple -/
theorem firstIdOK_of_some {s t : DHG} {r : DHG × Outcome} (hr : addEdgesFrom t .f4 (edgeItems s) [] = some r) :
    FirstIdOK s := by
  intro e he
  unfold edgeItems at hr
  cases hs : s.edges with
  | nil => rw [hs] at he; cases he
  | cons e' es =>
    rw [hs] at he hr
    simp only [List.head?_cons, Option.some.injEq] at he
    subst he
    simp only [List.map_cons, addEdgesFrom, Option.map_some, Option.getD_some] at hr
    split at hr
    · cases hr
    · rename_i hc; simpa using hc

/-- both bulk loops run through without exception or warning and build the source again -/
theorem rebuild_char {s : DHG} (h : WFd s) (ha : AttrsOKD s) (hf : FirstIdOK s) :
    (addNodesFrom DHG.empty (nodeItems s) []).2 = .ok ∧
    ∃ r2, addEdgesFrom (addNodesFrom DHG.empty (nodeItems s) []).1 .f4 (edgeItems s) [] = some r2 ∧
      r2.2 = .ok ∧ EdgeStageD s r2.1 s.edges := by
  obtain ⟨hok, hns⟩ := nodeStageD_all h ha.nattr
  refine ⟨hok, _, addEdgesFrom_f4 _ _ _ (edgeItems_first hf), ?_⟩
  unfold addEdgesBulk edgeItems
  rw [bulk_map]
  refine bulk_prefix
    (fun t e => addEdgesItem .f4 [] t { members := .pair (s.tail e) (s.head e), idx := some e, attr := s.eattr e })
    (EdgeStageD s) s.edges ?_ s.edges [] _ (by simp) (edgeStageD_of_nodeStageD hns)
  intro t done e rest hl hp
  have he : e ∈ s.edges := by rw [hl]; simp
  have h1 : e ∉ done := not_mem_of_nodup_split h.nodupE hl
  have h2 : e ≠ .none := by intro hc; apply h.noNoneE; rw [← hc]; exact he
  have h3 : ∀ n ∈ s.tail e, n ∈ s.nodes := fun n hn => (h.tail2out e he n hn).1
  have h4 : ∀ n ∈ s.head e, n ∈ s.nodes := fun n hn => (h.head2in e he n hn).1
  have h5 : PyId.none ∉ s.tail e := fun hc => h.noNoneN (h3 _ hc)
  have h6 : PyId.none ∉ s.head e := fun hc => h.noNoneN (h4 _ hc)
  exact edgeStageD_step hp e h1 h2 h3 h4 h5 h6 (ha.eattr e)

theorem wfd_with {t : DHG} (h : WFd t) (a : Attrs) (u : Nat) : WFd { t with net := a, uid := u } := by
  obtain ⟨h1, h2, h3, h4, h5, h6, h7, h8, h9, h10, h11, h12, h13, h14, h15, h16⟩ := h
  constructor <;> simp only [] <;> assumption

/-- the rebuilt network, given the source's network attributes and any counter, shows the same network -/
theorem sameNetD_of_edgeStageD {s t : DHG} (h : WFd s) (hs : EdgeStageD s t s.edges) (u : Nat) :
    SameNetD s { t with net := s.net, uid := u } := by
  obtain ⟨h1, h2, h3, h4, h5, h6, h7, h7', h8, h8', h9, h10, h11⟩ := hs
  constructor <;> (try simp only [])
  · exact h1
  · exact h2
  · exact h7
  · exact h7'
  · intro n hn e; rw [h8' n hn]
    constructor
    · rintro ⟨he, hm⟩; exact (h.head2in e he n hm).2
    · intro hm; exact h.in2head n hn e hm
  · intro n hn e; rw [h8 n hn]
    constructor
    · rintro ⟨he, hm⟩; exact (h.tail2out e he n hm).2
    · intro hm; exact h.out2tail n hn e hm
  · exact h5
  · exact h9
  · intro n; rw [h6, h.attrN]
  · intro e; rw [h10, h.attrE]

/-- `copy` on a well-formed source inside the model: the value it returns -/
theorem copy_char {s : DHG} (h : WFd s) (ha : AttrsOKD s) (hf : FirstIdOK s) :
    ∃ t, copy s = some ({ t with net := s.net, uid := s.uid }, .ok) ∧ EdgeStageD s t s.edges := by
  obtain ⟨hok, r2, hr2, hok2, hst⟩ := rebuild_char h ha hf
  refine ⟨r2.1, ?_, hst⟩
  rw [copy_eq_items]
  simp only [hok, hr2, hok2, Outcome.isErr, Bool.false_eq_true, if_false, Outcome.join]

/-- `DiHypergraph(DH, **attr)` on a well-formed source inside the model: the value it returns -/
theorem ofNetwork_char {s : DHG} (h : WFd s) (ha : AttrsOKD s) (hf : FirstIdOK s) (attr : Attrs) :
    ∃ t, ofNetwork s attr = some ({ t with net := s.net.update attr }, .ok) ∧ EdgeStageD s t s.edges := by
  obtain ⟨hok, r2, hr2, hok2, hst⟩ := rebuild_char h ha hf
  refine ⟨r2.1, ?_, hst⟩
  unfold ofNetwork
  simp only [clear_empty, hok, hr2, hok2, Outcome.isErr, Bool.false_eq_true, if_false, Outcome.join]

theorem join_isErr_false {a b : Outcome} (ha : ¬ a.isErr = true) (hb : ¬ b.isErr = true) : (a.join b).isErr = false := by
  cases a <;> cases b <;> simp_all [Outcome.join, Outcome.isErr]

/-- whatever the source looks like: a value returned by the constructor is the source itself (with the error)
    or a network built by the public mutators from the empty one, with other network attributes -/
theorem ofNetwork_cases (s : DHG) (attr : Attrs) (r : DHG × Outcome) (hr : ofNetwork s attr = some r) :
    (r.1 = s ∧ r.2.isErr = true) ∨
    (∃ r2, addEdgesFrom (addNodesFrom DHG.empty (nodeItems s) []).1 .f4 (edgeItems s) [] = some r2 ∧
       r.1 = { r2.1 with net := s.net.update attr } ∧ r.2.isErr = false) := by
  unfold ofNetwork at hr
  simp only [clear_empty] at hr
  by_cases he1 : (addNodesFrom DHG.empty (nodeItems s) []).2.isErr = true
  · simp only [he1, if_true, Option.some.injEq] at hr; subst hr; exact Or.inl ⟨rfl, he1⟩
  · simp only [he1, Bool.false_eq_true, if_false] at hr
    cases heq : addEdgesFrom (addNodesFrom DHG.empty (nodeItems s) []).1 .f4 (edgeItems s) [] with
    | none => rw [heq] at hr; cases hr
    | some r2 =>
      rw [heq] at hr; simp only [] at hr
      by_cases he2 : r2.2.isErr = true
      · simp only [he2, if_true, Option.some.injEq] at hr; subst hr; exact Or.inl ⟨rfl, he2⟩
      · simp only [he2, Bool.false_eq_true, if_false, Option.some.injEq] at hr; subst hr
        exact Or.inr ⟨r2, rfl, rfl, join_isErr_false he1 he2⟩

theorem ofNetwork_inv' {s : DHG} (h : Inv s) (attr : Attrs) (r : DHG × Outcome) (hr : ofNetwork s attr = some r) :
    Inv r.1 := by
  rcases ofNetwork_cases s attr r hr with ⟨h1, _⟩ | ⟨r2, heq, h1, _⟩
  · rw [h1]; exact h
  · have h2 : Inv r2.1 := addEdgesFrom_inv (addNodesFrom_inv empty_inv _ _) _ _ _ r2 heq
    rw [h1]
    exact ⟨wfd_with h2.1 _ _, h2.2⟩

/-! ### the state-dict round trip -/

/-- field by field: the unpickled network has the same keys in the same order and the same values at those keys -/
theorem pickle_char (s : DHG) :
    (pickleRoundTrip s).nodes = s.nodes ∧ (pickleRoundTrip s).edges = s.edges ∧
    (pickleRoundTrip s).nattrK = s.nattrK ∧ (pickleRoundTrip s).eattrK = s.eattrK ∧
    (pickleRoundTrip s).net = s.net ∧ (pickleRoundTrip s).uid = s.uid ∧ (pickleRoundTrip s).frozen = false ∧
    (∀ n ∈ s.nodes, (pickleRoundTrip s).membIn n = s.membIn n ∧ (pickleRoundTrip s).membOut n = s.membOut n) ∧
    (∀ e ∈ s.edges, (pickleRoundTrip s).tail e = s.tail e ∧ (pickleRoundTrip s).head e = s.head e) ∧
    (∀ n ∈ s.nattrK, (pickleRoundTrip s).nattr n = s.nattr n) ∧
    (∀ e ∈ s.eattrK, (pickleRoundTrip s).eattr e = s.eattr e) := by
  unfold pickleRoundTrip setState getState
  simp only [map_fst_map]
  refine ⟨trivial, trivial, trivial, trivial, trivial, trivial, trivial, ?_, ?_, ?_, ?_⟩
  · intro k hk
    have := lookupD_map s.nodes (fun n => (s.membIn n, s.membOut n)) ([], []) k hk
    exact ⟨by rw [this], by rw [this]⟩
  · intro k hk
    have := lookupD_map s.edges (fun e => (s.tail e, s.head e)) ([], []) k hk
    exact ⟨by rw [this], by rw [this]⟩
  · intro k hk; exact lookupD_map _ _ _ k hk
  · intro k hk; exact lookupD_map _ _ _ k hk

theorem pickle_wfd {s : DHG} (h : WFd s) : WFd (pickleRoundTrip s) := by
  obtain ⟨p1, p2, p3, p4, p5, p6, p7, p8, p9, p10, p11⟩ := pickle_char s
  generalize pickleRoundTrip s = t at *
  obtain ⟨h1, h2, h3, h4, h5, h6, h7, h8, h9, h10, h11, h12, h13, h14, h15, h16⟩ := h
  constructor
  · rw [p1]; exact h1
  · rw [p2]; exact h2
  · rw [p1]; exact h3
  · rw [p2]; exact h4
  · rw [p1]; intro n hn e he; rw [(p8 n hn).2] at he
    have := h5 n hn e he
    rw [p2, (p9 e this.1).1]; exact this
  · rw [p1]; intro n hn e he; rw [(p8 n hn).1] at he
    have := h6 n hn e he
    rw [p2, (p9 e this.1).2]; exact this
  · rw [p2]; intro e he n hn; rw [(p9 e he).1] at hn
    have := h7 e he n hn
    rw [p1, (p8 n this.1).2]; exact this
  · rw [p2]; intro e he n hn; rw [(p9 e he).2] at hn
    have := h8 e he n hn
    rw [p1, (p8 n this.1).1]; exact this
  · rw [p1, p3]; exact h9
  · rw [p2, p4]; exact h10
  · rw [p3]; exact h11
  · rw [p4]; exact h12
  · rw [p1]; intro n hn; rw [(p8 n hn).2]; exact h13 n hn
  · rw [p1]; intro n hn; rw [(p8 n hn).1]; exact h14 n hn
  · rw [p2]; intro e he; rw [(p9 e he).1]; exact h15 e he
  · rw [p2]; intro e he; rw [(p9 e he).2]; exact h16 e he

end DHG
end Xgi
