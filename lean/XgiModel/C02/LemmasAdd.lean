/-
  Helper lemmas for C04 on the directed model: additions keep every existing edge
  (id, position, tail, head, attribute dict, attribute record).  Directed twin of Lemmas/HGAdd.lean.
-/
import XgiModel.C02.Lemmas

namespace Xgi
namespace DHG

/-- `t` extends `s` by additions only: the edge list of `s` is a prefix of `t`'s, and every edge of `s`
    has the same tail, the same head, the same attribute dict and still an attribute record -/
def KeepsD (s t : DHG) : Prop :=
  (∃ l, t.edges = s.edges ++ l) ∧
  ∀ e ∈ s.edges, t.tail e = s.tail e ∧ t.head e = s.head e ∧ t.eattr e = s.eattr e ∧ (e ∈ s.eattrK → e ∈ t.eattrK)

theorem keepsD_refl (s : DHG) : KeepsD s s := ⟨⟨[], by simp⟩, fun _ _ => ⟨rfl, rfl, rfl, id⟩⟩

theorem keepsD_trans {s t u : DHG} (h1 : KeepsD s t) (h2 : KeepsD t u) : KeepsD s u := by
  obtain ⟨⟨l1, hl1⟩, k1⟩ := h1
  obtain ⟨⟨l2, hl2⟩, k2⟩ := h2
  refine ⟨⟨l1 ++ l2, by rw [hl2, hl1, List.append_assoc]⟩, ?_⟩
  intro e he
  have het : e ∈ t.edges := by rw [hl1]; simp [he]
  have a := k1 e he; have b := k2 e het
  exact ⟨b.1.trans a.1, b.2.1.trans a.2.1, b.2.2.1.trans a.2.2.1, fun h => b.2.2.2 (a.2.2.2 h)⟩

/-- a state that differs from `s` in none of the four edge tables -/
theorem keepsD_of_eq {s t : DHG} (he : t.edges = s.edges) (ht : t.tail = s.tail) (hh : t.head = s.head)
    (ha : t.eattr = s.eattr) (hk : t.eattrK = s.eattrK) : KeepsD s t :=
  ⟨⟨[], by simp [he]⟩, fun e _ => ⟨by rw [ht], by rw [hh], by rw [ha], by rw [hk]; exact id⟩⟩

/-! ### the linking steps touch only the edge they are told to -/

theorem linkTail_other (s : DHG) (e n e' : PyId) (h : e' ≠ e) :
    (linkTail s e n).tail e' = s.tail e' ∧ (linkTail s e n).head e' = s.head e' := by
  unfold linkTail linkTailCore addNodeRaw; split <;> simp [upd, h]

theorem linkHead_other (s : DHG) (e n e' : PyId) (h : e' ≠ e) :
    (linkHead s e n).tail e' = s.tail e' ∧ (linkHead s e n).head e' = s.head e' := by
  unfold linkHead linkHeadCore addNodeRaw; split <;> simp [upd, h]

theorem linkTail_eattr (s : DHG) (e n : PyId) :
    (linkTail s e n).eattr = s.eattr ∧ (linkTail s e n).eattrK = s.eattrK := by
  unfold linkTail linkTailCore addNodeRaw; split <;> simp

theorem linkHead_eattr (s : DHG) (e n : PyId) :
    (linkHead s e n).eattr = s.eattr ∧ (linkHead s e n).eattrK = s.eattrK := by
  unfold linkHead linkHeadCore addNodeRaw; split <;> simp

/-- a fold of a linking step that leaves the other edges alone -/
theorem foldl_link_keep (f : DHG → PyId → PyId → DHG)
    (hother : ∀ s e n e', e' ≠ e → (f s e n).tail e' = s.tail e' ∧ (f s e n).head e' = s.head e')
    (hattr : ∀ s e n, (f s e n).eattr = s.eattr ∧ (f s e n).eattrK = s.eattrK)
    (ms : List PyId) (s : DHG) (e e' : PyId) (h : e' ≠ e) :
    (ms.foldl (fun s n => f s e n) s).tail e' = s.tail e' ∧
    (ms.foldl (fun s n => f s e n) s).head e' = s.head e' ∧
    (ms.foldl (fun s n => f s e n) s).eattr = s.eattr ∧
    (ms.foldl (fun s n => f s e n) s).eattrK = s.eattrK := by
  induction ms generalizing s with
  | nil => exact ⟨rfl, rfl, rfl, rfl⟩
  | cons m ms ih =>
    simp only [List.foldl_cons]
    have := ih (f s e m)
    refine ⟨by rw [this.1, (hother s e m e' h).1], by rw [this.2.1, (hother s e m e' h).2],
            by rw [this.2.2.1, (hattr s e m).1], by rw [this.2.2.2, (hattr s e m).2]⟩

/-- the edge list after `addEdgeAt` (no hypothesis on the members) -/
theorem addEdgeAt_edges (s : DHG) (e : PyId) (tl hd : List PyId) (a : Attrs) :
    (addEdgeAt s e tl hd a).edges = s.edges ++ [e] ∧ (addEdgeAt s e tl hd a).uid = s.uid := by
  unfold addEdgeAt
  have e1 : ∀ (l : List PyId) (t : DHG), (l.foldl (fun s n => linkHead s e n) t).edges = t.edges ∧
      (l.foldl (fun s n => linkHead s e n) t).uid = t.uid := by
    intro l; induction l with
    | nil => intro t; exact ⟨rfl, rfl⟩
    | cons x l ih => intro t; simp only [List.foldl_cons]; rw [(ih _).1, (ih _).2]; simp
  have e2 : ∀ (l : List PyId) (t : DHG), (l.foldl (fun s n => linkTail s e n) t).edges = t.edges ∧
      (l.foldl (fun s n => linkTail s e n) t).uid = t.uid := by
    intro l; induction l with
    | nil => intro t; exact ⟨rfl, rfl⟩
    | cons x l ih => intro t; simp only [List.foldl_cons]; rw [(ih _).1, (ih _).2]; simp
  rw [(e1 _ _).1, (e1 _ _).2, (e2 _ _).1, (e2 _ _).2]
  exact ⟨rfl, rfl⟩

/-! ### … and give the new edge exactly the members it was called with -/

theorem linkTail_self (s : DHG) (e n : PyId) :
    (linkTail s e n).tail e = ins n (s.tail e) ∧ (linkTail s e n).head e = s.head e := by
  unfold linkTail linkTailCore addNodeRaw; split <;> simp [upd]

theorem linkHead_self (s : DHG) (e n : PyId) :
    (linkHead s e n).head e = ins n (s.head e) ∧ (linkHead s e n).tail e = s.tail e := by
  unfold linkHead linkHeadCore addNodeRaw; split <;> simp [upd]

theorem foldl_linkTail_self (ms : List PyId) (s : DHG) (e : PyId) :
    (∀ x, x ∈ (ms.foldl (fun s n => linkTail s e n) s).tail e ↔ x ∈ s.tail e ∨ x ∈ ms) ∧
    (ms.foldl (fun s n => linkTail s e n) s).head e = s.head e := by
  induction ms generalizing s with
  | nil => simp
  | cons m ms ih =>
    simp only [List.foldl_cons]
    have := ih (linkTail s e m)
    refine ⟨fun x => ?_, by rw [this.2, (linkTail_self s e m).2]⟩
    rw [this.1, (linkTail_self s e m).1]; simp; grind

theorem foldl_linkHead_self (ms : List PyId) (s : DHG) (e : PyId) :
    (∀ x, x ∈ (ms.foldl (fun s n => linkHead s e n) s).head e ↔ x ∈ s.head e ∨ x ∈ ms) ∧
    (ms.foldl (fun s n => linkHead s e n) s).tail e = s.tail e := by
  induction ms generalizing s with
  | nil => simp
  | cons m ms ih =>
    simp only [List.foldl_cons]
    have := ih (linkHead s e m)
    refine ⟨fun x => ?_, by rw [this.2, (linkHead_self s e m).2]⟩
    rw [this.1, (linkHead_self s e m).1]; simp; grind

/-- the edge created by `addEdgeAt` has the given tail and head (as sets) -/
theorem addEdgeAt_members (s : DHG) (e : PyId) (tl hd : List PyId) (a : Attrs) :
    (∀ x, x ∈ (addEdgeAt s e tl hd a).tail e ↔ x ∈ tl) ∧ (∀ x, x ∈ (addEdgeAt s e tl hd a).head e ↔ x ∈ hd) := by
  unfold addEdgeAt
  have t := foldl_linkTail_self tl (updEdgeAttr (newEdgeAttr (newEdgeRaw s e) e) e a) e
  generalize List.foldl (fun s n => linkTail s e n) (updEdgeAttr (newEdgeAttr (newEdgeRaw s e) e) e a) tl = s1 at *
  have u := foldl_linkHead_self hd s1 e
  refine ⟨fun x => ?_, fun x => ?_⟩
  · rw [u.2, t.1]; simp [updEdgeAttr, newEdgeAttr, newEdgeRaw, upd]
  · rw [u.1, t.2]; simp [updEdgeAttr, newEdgeAttr, newEdgeRaw, upd]

theorem addEdgeAt_keepsD (s : DHG) (e : PyId) (tl hd : List PyId) (a : Attrs) (he : e ∉ s.edges) :
    KeepsD s (addEdgeAt s e tl hd a) := by
  refine ⟨⟨[e], (addEdgeAt_edges s e tl hd a).1⟩, ?_⟩
  intro e' he'
  have hne : e' ≠ e := fun h => he (h ▸ he')
  unfold addEdgeAt
  have t := foldl_link_keep linkTail linkTail_other linkTail_eattr tl
    (updEdgeAttr (newEdgeAttr (newEdgeRaw s e) e) e a) e e' hne
  generalize List.foldl (fun s n => linkTail s e n) (updEdgeAttr (newEdgeAttr (newEdgeRaw s e) e) e a) tl = s1 at *
  have u := foldl_link_keep linkHead linkHead_other linkHead_eattr hd s1 e e' hne
  refine ⟨by rw [u.1, t.1]; simp [updEdgeAttr, newEdgeAttr, newEdgeRaw, upd, hne],
          by rw [u.2.1, t.2.1]; simp [updEdgeAttr, newEdgeAttr, newEdgeRaw, upd, hne],
          by rw [u.2.2.1, t.2.2.1]; simp [updEdgeAttr, newEdgeAttr, newEdgeRaw, upd, hne], ?_⟩
  intro hk; rw [u.2.2.2, t.2.2.2]; simp [updEdgeAttr, newEdgeAttr, newEdgeRaw, hk]

theorem bumpUid_keepsD (s : DHG) (i : PyId) : KeepsD s (bumpUid s i) := by
  unfold bumpUid; split
  · split
    · exact keepsD_of_eq rfl rfl rfl rfl rfl
    · exact keepsD_refl s
  · exact keepsD_refl s

theorem uidSucc_keepsD (s : DHG) : KeepsD s { s with uid := s.uid + 1 } := keepsD_of_eq rfl rfl rfl rfl rfl

/-! ### the adding calls -/

theorem addEdge_keepsD {s : DHG} (h : Inv s) (m : DiMembers) (idx : Option PyId) (a : Attrs) :
    KeepsD s (addEdge s m idx a).1 := by
  cases m with
  | notSeq => exact keepsD_refl s
  | short => exact keepsD_refl s
  | pair tl hd =>
    cases idx with
    | some i =>
      unfold addEdge; simp only []
      split
      · exact keepsD_refl s
      · split
        · exact keepsD_refl s
        · rename_i hi
          exact keepsD_trans (addEdgeAt_keepsD s i tl hd a hi) (bumpUid_keepsD _ i)
    | none =>
      unfold addEdge; simp only []
      split
      · exact keepsD_refl s
      · exact keepsD_trans (uidSucc_keepsD s) (addEdgeAt_keepsD _ _ tl hd a (uid_not_mem h.2))

theorem addEdgesItem_keepsD (fmt : Fmt) (attr : Attrs) (s : DHG) (it : EdgeItem) (h : Inv s) :
    KeepsD s (addEdgesItem fmt attr s it).1 := by
  unfold addEdgesItem
  by_cases hx : fmt.explicit = true
  · simp only [hx, if_true]
    split
    · exact keepsD_refl s
    · rename_i hi
      split
      · exact keepsD_refl s
      · exact keepsD_refl s
      · split
        · exact keepsD_refl s
        · exact keepsD_trans (addEdgeAt_keepsD s _ _ _ _ hi) (bumpUid_keepsD _ _)
  · simp only [hx]
    simp only [Bool.false_eq_true, if_false]
    split
    · exact uidSucc_keepsD s
    · split
      · exact uidSucc_keepsD s
      · exact uidSucc_keepsD s
      · split
        · exact uidSucc_keepsD s
        · exact keepsD_trans (uidSucc_keepsD s) (addEdgeAt_keepsD _ _ _ _ _ (uid_not_mem h.2))

/-- lifting through `bulk`: the invariant and `KeepsD s₀ ·` travel together -/
theorem bulk_keepsD {α : Type} (f : DHG → α → DHG × Outcome)
    (hf : ∀ s a, Inv s → Inv (f s a).1 ∧ KeepsD s (f s a).1) (l : List α) {s : DHG} (h : Inv s) :
    KeepsD s (bulk f s l).1 := by
  have := bulk_inv (fun t => Inv t ∧ KeepsD s t) f
    (fun t a ht => ⟨(hf t a ht.1).1, keepsD_trans ht.2 (hf t a ht.1).2⟩) l (s := s) ⟨h, keepsD_refl s⟩
  exact this.2

theorem addEdgesBulk_keepsD {s : DHG} (h : Inv s) (fmt : Fmt) (items : List EdgeItem) (attr : Attrs) :
    KeepsD s (addEdgesBulk s fmt items attr).1 :=
  bulk_keepsD _ (fun t a ht => ⟨addEdgesItem_inv fmt attr t a ht, addEdgesItem_keepsD fmt attr t a ht⟩) items h

theorem addEdgesFrom_keepsD {s : DHG} (h : Inv s) (fmt : Fmt) (items : List EdgeItem) (attr : Attrs)
    (r : DHG × Outcome) (hr : addEdgesFrom s fmt items attr = some r) : KeepsD s r.1 := by
  have key := addEdgesBulk_keepsD h fmt items attr
  unfold addEdgesFrom at hr
  split at hr
  · split at hr
    · cases hr; exact keepsD_refl s
    · cases hr
    · cases hr; exact key
  · split at hr
    · cases hr
    · cases hr; exact key
  · split at hr
    · cases hr
    · cases hr; exact key
  · cases hr; exact key

/-- `add_node_to_edge` with a *new* edge ID (either direction, also the rejected shapes) -/
theorem addNodeToEdge_new_keepsD (s : DHG) (e n : PyId) (d : Dir) (he : e ∉ s.edges) :
    KeepsD s (addNodeToEdge s e n d).1 := by
  unfold addNodeToEdge; split
  · exact keepsD_refl s
  · split
    · exact keepsD_refl s
    · simp only []
      have k1 : KeepsD s (newEdgeAttr (newEdgeRaw s e) e) := by
        refine ⟨⟨[e], rfl⟩, fun e' he' => ?_⟩
        have hne : e' ≠ e := fun h => he (h ▸ he')
        refine ⟨by simp [newEdgeAttr, newEdgeRaw, upd, hne], by simp [newEdgeAttr, newEdgeRaw, upd, hne],
                by simp [newEdgeAttr, newEdgeRaw, upd, hne], ?_⟩
        intro hk; simp [newEdgeAttr, newEdgeRaw, hk]
      have k2 := keepsD_trans k1 (bumpUid_keepsD _ e)
      generalize bumpUid (newEdgeAttr (newEdgeRaw s e) e) e = t at k2
      obtain ⟨hl, hk⟩ := k2
      split
      · refine ⟨by simpa using hl, fun e' he' => ?_⟩
        have hne : e' ≠ e := fun h => he (h ▸ he')
        have a := hk e' he'
        refine ⟨by rw [(linkTail_other t e n e' hne).1]; exact a.1, by rw [(linkTail_other t e n e' hne).2]; exact a.2.1,
                by rw [(linkTail_eattr t e n).1]; exact a.2.2.1, by rw [(linkTail_eattr t e n).2]; exact a.2.2.2⟩
      · refine ⟨by simpa using hl, fun e' he' => ?_⟩
        have hne : e' ≠ e := fun h => he (h ▸ he')
        have a := hk e' he'
        refine ⟨by rw [(linkHead_other t e n e' hne).1]; exact a.1, by rw [(linkHead_other t e n e' hne).2]; exact a.2.1,
                by rw [(linkHead_eattr t e n).1]; exact a.2.2.1, by rw [(linkHead_eattr t e n).2]; exact a.2.2.2⟩

end DHG
end Xgi
