import XgiModel.Base
import XgiModel.Proto
import XgiModel.Core.HG
import XgiModel.Drive.HG
