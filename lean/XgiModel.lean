import XgiModel.Base
import XgiModel.Proto
import XgiModel.Net
import XgiModel.Core.HG
import XgiModel.Drive.HG
