#!/bin/sh
# tools/confirm_round.sh <worktree-dir> <Cxx> <round-letter> [extra props...] : confirm seed_out/{1,2,3} of a seed agent's
# worktree as seeded/<Cxx><letter>-<slug> (slug from the first words of meta.json's summary), one after the other
WT="$1"; P="$2"; L="$3"; shift 3
cd "$(dirname "$0")/.." || exit 2
for k in 1 2 3; do
  d="$WT/seed_out/$k"
  [ -f "$d/patch.diff" ] || { echo "$P/$k: no patch"; continue; }
  slug=$(python3 - "$d/meta.json" <<'PY'
import json,re,sys
try:
    s=json.load(open(sys.argv[1])).get("summary","")
except Exception:
    s=""
w=[x for x in re.findall(r"[a-z0-9_]+", s.lower()) if x not in ("the","a","an","of","in","to","is","now","and","for","that","with","by","on")][:5]
print("-".join(w)[:48] or "change")
PY
)
  id="${P}${L}-${slug}"
  python3 tools/confirm_seed.py "$d" "$id" "$P" "$@" > "/tmp/confirm-$id.log" 2>&1
  echo "$P/$k: $(tail -n1 /tmp/confirm-$id.log)"
done
