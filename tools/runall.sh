#!/bin/sh
# tools/runall.sh [seed ...] : run every READY check (quick tier) for the given seeds in parallel; print one line per run
cd "$(dirname "$0")/.." || exit 2
seeds="${@:-0}"
for s in $seeds; do
  for p in $(cat harness/props/READY); do
    ( out=$(VERIF_SEED=$s ./check $p 2>&1); rc=$?; echo "seed=$s $p rc=$rc $(echo "$out" | grep -E '^VIOLATION|^KNOWN|INFRA' | head -3 | tr '\n' ' ')" ) &
  done
  wait
done
