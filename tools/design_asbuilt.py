#!/usr/bin/env python3
"""regenerate the generated tables of DESIGN.md §13 (between the markers) from the repository state"""
import glob, json, os, re, subprocess
V = os.path.dirname(os.path.dirname(os.path.abspath(__file__)))
def table_seeds():
    out = ["| seeded change (`seeded/<id>/`) | breaks | what it does / needs | caught by |", "|---|---|---|---|"]
    for d in sorted(glob.glob(os.path.join(V, "seeded", "*"))):
        if not os.path.exists(os.path.join(d, "meta.json")):
            continue
        m = json.load(open(os.path.join(d, "meta.json")))
        s = (m.get("summary", "") or "").replace("|", "/")
        if len(s) > 230: s = s[:227] + "…"
        out.append(f"| {os.path.basename(d)} | {m.get('breaks')} | {s} | {', '.join(m.get('caught_by', [])) or '**missed**'} |")
    return "\n".join(out)
def table_fixed():
    k = json.load(open(os.path.join(V, "known_findings.json")))
    out = ["| property | /repo commit | what failed (replays in `corpus/`, `known_findings.json`) |", "|---|---|---|"]
    for line in k["fixed"]:
        m = re.match(r"fixed: property=(\S+) (\S+) (.*)", line)
        out.append(f"| {m.group(1)} | {m.group(2)} | {m.group(3).replace('|', '/')} |")
    return "\n".join(out)
def table_known():
    out = ["| property | site / class | description |", "|---|---|---|"]
    files = [os.path.join(V, "known_findings.json")] + sorted(glob.glob(os.path.join(V, "known_findings", "*.json")))
    for f in files:
        for k in json.load(open(f)).get("findings", []):
            out.append(f"| {k['property']} | {k['site']} / {k['failure_class']} | {k['description'][:400].replace('|', '/')} |")
    return "\n".join(out)
def table_theorems():
    import sys
    sys.path.insert(0, V)
    from harness.core import theorems_of
    out = ["| property | theorems in `lean/XgiModel/Props/` (each audited with `#print axioms` on every run) |", "|---|---|"]
    for f in sorted(glob.glob(os.path.join(V, "lean", "XgiModel", "Props", "C*.lean"))):
        p = os.path.basename(f)[:-5]
        names = [t.split(".")[-1] for t in theorems_of("XgiModel.Props." + p)]
        out.append(f"| {p} | {len(names)}: " + ", ".join(f"`{n}`" for n in names) + " |")
    return "\n".join(out)
gen = {"SEEDS": table_seeds, "FIXED": table_fixed, "KNOWN": table_known, "THEOREMS": table_theorems}
p = os.path.join(V, "DESIGN.md")
s = open(p).read()
for key, f in gen.items():
    a, b = f"<!-- BEGIN {key} -->", f"<!-- END {key} -->"
    if a in s:
        s = s[: s.index(a) + len(a)] + "\n" + f() + "\n" + s[s.index(b):]
open(p, "w").write(s)
print("DESIGN.md tables regenerated")
