#!/usr/bin/env python3
"""Run the pinned test suite of /repo (guard OFF) and compare with /root/.vp/BASELINE.json stable_pass.
Tests that do not pass in the full run are re-run up to 3 full times (the suite has tests that depend on
unseeded global RNG state); a test counts as passing if it passes in any run, as BASELINE's runs=3 does."""
import json, os, subprocess, sys, tempfile, xml.etree.ElementTree as ET
base = json.load(open('/root/.vp/BASELINE.json'))
env = dict(os.environ); env.pop('XGI_VERIF', None)
passed = set()
def run():
    with tempfile.TemporaryDirectory(prefix='xgi-baseline-') as d:
        out = os.path.join(d, 'r.xml')
        cmd = base['cmd'].replace('<file>', out)
        subprocess.run(cmd, shell=True, env=env, stdout=subprocess.DEVNULL, stderr=subprocess.DEVNULL)
        for tc in ET.parse(out).getroot().iter('testcase'):
            if not any(c.tag in ('failure', 'error', 'skipped') for c in tc):
                passed.add(f"{tc.get('classname')}::{tc.get('name')}")
for attempt in range(3):
    run()
    missing = [t for t in base['stable_pass'] if t not in passed]
    print(f"run {attempt+1}: stable_pass={len(base['stable_pass'])} passed_so_far={len(passed)} missing={len(missing)}")
    if not missing: break
for t in missing: print("  NOT PASSING:", t)
sys.exit(1 if missing else 0)
