#!/bin/sh
# tools/seedsweep.sh <parallelism> <seed> [seed ...] : every READY check (quick tier) for each seed, at most <parallelism>
# at a time; one line per run; lines that are not "rc=0" without VIOLATION are what to look at
cd "$(dirname "$0")/.." || exit 2
P="$1"; shift
for s in "$@"; do for p in $(cat harness/props/READY); do echo "$s $p"; done; done |
  xargs -P "$P" -L 1 sh -c 'out=$(VERIF_SEED=$0 ./check $1 2>&1); rc=$?; echo "seed=$0 $1 rc=$rc $(echo "$out" | grep -E "^VIOLATION|INFRA" | head -2 | tr "\n" " ") $(echo "$out" | grep -o "wall=[0-9.]*s")"'
