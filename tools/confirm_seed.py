#!/usr/bin/env python3
"""tools/confirm_seed.py <src_dir> <seed_id> <Cxx> [Cyy ...]
Confirms a seeded change in a scratch worktree of /repo (never /repo itself): patch applies, the demo passes without
and fails with it, the pinned test suite still passes with it (all BASELINE stable_pass tests), then runs the given
checks against the worktree and records everything in /verif/seeded/<seed_id>/ (patch.diff, demo.py, meta.json)."""
import json, os, shutil, subprocess, sys, tempfile, xml.etree.ElementTree as ET
src, sid, props = sys.argv[1], sys.argv[2], sys.argv[3:]
V = "/verif"
wt = tempfile.mkdtemp(prefix="seedwt-")
os.rmdir(wt)
run = lambda cmd, **k: subprocess.run(cmd, shell=True, capture_output=True, text=True, **k)
assert run(f"git -C /repo worktree add --detach {wt} HEAD").returncode == 0
env = dict(os.environ, PYTHONPATH=wt)
res = {}
try:
    res["demo_without"] = run(f"/venv/bin/python {src}/demo.py", cwd=wt, env=env).returncode
    ap = run(f"git apply {src}/patch.diff", cwd=wt)
    if ap.returncode != 0:
        # /repo has moved since the change was written (later fix: commits): fall back to fuzzy application and
        # keep the re-based diff
        ap = run(f"patch -p1 -F3 --no-backup-if-mismatch < {src}/patch.diff", cwd=wt)
        if ap.returncode != 0:
            # third attempt: three-way merge against the blobs the patch was made from (they are in /repo's history)
            run("git checkout -- . && git clean -fdq", cwd=wt)
            ap = run(f"git apply --3way {src}/patch.diff", cwd=wt)
            if ap.returncode != 0 or "U " in run("git status --short", cwd=wt).stdout or "<<<<<<<" in run("git diff", cwd=wt).stdout:
                ap.returncode = 1
            else:
                run("git reset -q", cwd=wt)
        if ap.returncode == 0:
            rebased = run("git diff", cwd=wt).stdout
            open(os.path.join(src, "patch.diff"), "w").write(rebased)
            res["patch_rebased"] = True
    res["patch_applies"] = ap.returncode == 0
    if ap.returncode == 0:
        d = run(f"/venv/bin/python {src}/demo.py", cwd=wt, env=env)
        res["demo_with"] = d.returncode
        res["demo_output"] = (d.stdout + d.stderr)[-600:]
        base = json.load(open("/root/.vp/BASELINE.json"))
        passed = set()
        for attempt in range(2):
            x = os.path.join(wt, "r.xml")
            run(f"/venv/bin/python -m pytest -q -p no:cacheprovider --timeout=900 --continue-on-collection-errors --junitxml={x}", cwd=wt, env=env)
            for tc in ET.parse(x).getroot().iter("testcase"):
                if not any(c.tag in ("failure", "error", "skipped") for c in tc):
                    passed.add(f"{tc.get('classname')}::{tc.get('name')}")
            os.remove(x)
            missing = [t for t in base["stable_pass"] if t not in passed]
            if not missing:
                break
        # order-/RNG-dependent tests: re-run the remaining ones on their own (as tools/baseline.py tolerates flakiness)
        still = []
        for t in missing:
            cls, name = t.split("::", 1)
            path = cls.replace(".", "/") + ".py"
            sel = f"{path}::{name}" if os.path.exists(os.path.join(wt, path)) else None
            okk = False
            for _ in range(3):
                if sel is None:
                    # doctest item: run the module's doctests
                    mod = cls.replace(".", "/") + ".py"
                    r = run(f"/venv/bin/python -m pytest -q -p no:cacheprovider --doctest-modules {mod}", cwd=wt, env=env)
                else:
                    r = run(f"/venv/bin/python -m pytest -q -p no:cacheprovider {sel}", cwd=wt, env=env)
                if r.returncode == 0:
                    okk = True
                    break
            if not okk:
                still.append(t)
        res["tests_flaky_rerun"] = [t for t in missing if t not in still]
        # two drawing tests use an unseeded layout under warnings-as-errors and fail in about half of the runs on the
        # unmodified tree as well (every seed agent reported it): never count them against a change
        KNOWN_FLAKY = {"tests.drawing.test_draw::test_issue_515", "xgi.drawing.draw::xgi.drawing.draw.draw"}
        res["tests_known_flaky_failed"] = [t for t in still if t in KNOWN_FLAKY]
        still = [t for t in still if t not in KNOWN_FLAKY]
        missing = still
        res["tests_missing"] = missing
        checks = {}
        for p in props:
            c = run(f"./check {p}", cwd=V, env=dict(os.environ, XGI_REPO=wt))
            lines = [l for l in c.stdout.split("\n") if l.startswith(("VIOLATION", "KNOWN", "INFRA"))]
            checks[p] = {"exit": c.returncode, "lines": [l.replace(V + "/out/replays/", "") for l in lines[:6]]}
        res["checks"] = checks
finally:
    run(f"git -C /repo worktree remove --force {wt}")
ok = res.get("patch_applies") and res.get("demo_without") == 0 and res.get("demo_with") not in (0, None) and not res.get("tests_missing")
print(json.dumps(res, indent=1)[:3000])
if ok:
    dst = os.path.join(V, "seeded", sid)
    os.makedirs(dst, exist_ok=True)
    shutil.copy(os.path.join(src, "patch.diff"), dst)
    shutil.copy(os.path.join(src, "demo.py"), dst)
    meta = json.load(open(os.path.join(src, "meta.json"))) if os.path.exists(os.path.join(src, "meta.json")) else {}
    meta["base_commit"] = subprocess.run("git -C /repo rev-parse --short HEAD", shell=True, capture_output=True, text=True).stdout.strip()
    meta.update(confirmed_by_lead=dict(patch_applies=True, demo_passes_without=True, demo_fails_with=True,
                                       pinned_suite_passes_with_change=True,
                                       ran=["git worktree add (scratch)", "git apply patch.diff", "python demo.py (with/without)",
                                            "pytest (BASELINE cmd) in the worktree vs stable_pass", "XGI_REPO=<worktree> ./check <props>"]),
                checks_against_change=res["checks"],
                caught_by=[p for p, c in res["checks"].items() if c["exit"] == 1])
    json.dump(meta, open(os.path.join(dst, "meta.json"), "w"), indent=1)
    print("KEPT as", dst, "caught_by", meta["caught_by"])
else:
    print("NOT KEPT (confirmation failed)")
