#!/bin/sh
# re-validate every kept seeded change against the current /repo HEAD (scratch worktrees; 5 at a time);
# a change whose patch no longer applies is reported (its meta.json keeps the base commit it was confirmed on)
cd "$(dirname "$0")/.." || exit 2
n=0
for d in seeded/*/; do
  id=$(basename "$d")
  props=$(python3 -c "import json;m=json.load(open('$d/meta.json'));print(' '.join(sorted(set([m.get('breaks')]+m.get('caught_by',[])))))")
  ( rm -rf /tmp/reseed-$id; cp -r "$d" /tmp/reseed-$id; tools/confirm_seed.py /tmp/reseed-$id "$id" $props > /tmp/reseed-$id.log 2>&1; echo "$id: $(tail -n1 /tmp/reseed-$id.log)"; rm -rf /tmp/reseed-$id ) &
  n=$((n+1)); if [ $((n % 5)) -eq 0 ]; then wait; fi
done
wait
