#!/bin/sh
# tools/try_seed.sh <seed_dir containing patch.diff demo.py> <Cxx> [Cyy ...]
# Applies the patch in a scratch worktree of /repo (never in /repo itself), verifies the demo, runs the checks
# against that worktree (XGI_REPO), prints a summary, removes the worktree.
SD="$1"; shift
WT=/tmp/mutcheck-$$
git -C /repo worktree add --detach "$WT" HEAD >/dev/null 2>&1 || exit 2
cd "$WT" || exit 2
PYTHONPATH=$WT /venv/bin/python "$SD/demo.py" >/dev/null 2>&1; echo "demo without patch: exit $?"
if ! git apply "$SD/patch.diff"; then echo "PATCH DOES NOT APPLY"; git -C /repo worktree remove --force "$WT"; exit 3; fi
PYTHONPATH=$WT /venv/bin/python "$SD/demo.py" >/dev/null 2>&1; echo "demo with patch: exit $?"
for p in "$@"; do
  out=$(cd /verif && XGI_REPO=$WT ./check "$p" 2>&1); rc=$?
  echo "check $p with patch: exit $rc"; echo "$out" | grep -E "^VIOLATION|^KNOWN|INFRA" | head -5
done
cd /; git -C /repo worktree remove --force "$WT"
