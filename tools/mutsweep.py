#!/usr/bin/env python3
"""tools/mutsweep.py — mechanical mutation sweep: which small changes of xgi escape both the pinned tests and our checks?

    tools/mutsweep.py --target xgi/core/hypergraph.py[:func1,func2,...] [--target ...] --props C01 C04 ...
                      [--max N] [--jobs J] [--seed S] [--name NAME] [--tests-first]

For every mutation site (comparison / boolean / arithmetic operator, small constant, `not`, statement deletion,
`deepcopy(x)`→`x`, `.copy()` dropped, `sorted(x)`→`list(x)`, `min`↔`max`, `break`↔`continue`, `if c`→`if not c`) inside
the chosen functions, the mutant is written into a private scratch worktree of /repo (never /repo itself), the given
checks are run against it (`XGI_REPO=<wt> ./check Cxx`) after the pinned test suite has passed on it (mutants the
tests kill are of no interest).  A mutant that passes the tests AND all checks is a SURVIVOR: either an equivalent mutant, a change that
does not touch the property, or a gap in the check (triage by hand).  Results: /verif/out/mutsweep/<name>.jsonl.
This is a tool for judging the checks (like /verif/seeded), not a check itself; nothing here decides a property."""
import argparse, ast, json, os, random, subprocess, sys, tempfile, threading, xml.etree.ElementTree as ET
from concurrent.futures import ThreadPoolExecutor

V = "/verif"
FLAKY = {"tests.drawing.test_draw::test_issue_515", "xgi.drawing.draw::xgi.drawing.draw.draw"}
SERIAL_PROPS = {"C08", "C17", "C18"}          # regenerate Lean tables from the source: one at a time
_serial = threading.Lock()

CMP = {ast.Lt: "<=", ast.LtE: "<", ast.Gt: ">=", ast.GtE: ">", ast.Eq: "!=", ast.NotEq: "==", ast.In: "not in",
       ast.NotIn: "in", ast.Is: "is not", ast.IsNot: "is"}
CMPTXT = {ast.Lt: "<", ast.LtE: "<=", ast.Gt: ">", ast.GtE: ">=", ast.Eq: "==", ast.NotEq: "!=", ast.In: "in",
          ast.NotIn: "not in", ast.Is: "is", ast.IsNot: "is not"}
BIN = {ast.Add: ("+", "-"), ast.Sub: ("-", "+"), ast.Mult: ("*", "+"), ast.FloorDiv: ("//", "/"), ast.Div: ("/", "*")}


def seg(src_lines, node):
    return ast.get_source_segment("".join(src_lines), node)


class Sites(ast.NodeVisitor):
    """collects (kind, lineno, start_offset, end_offset, replacement) on absolute offsets of the source text"""

    def __init__(self, src, funcs):
        self.src, self.funcs, self.out, self.stack = src, funcs, [], []
        self.lines = src.splitlines(keepends=True)
        self.off = [0]
        for l in self.lines:
            self.off.append(self.off[-1] + len(l.encode("utf8")))
        self.bsrc = src.encode("utf8")

    def pos(self, lineno, col):
        return self.off[lineno - 1] + col

    def span(self, n):
        return self.pos(n.lineno, n.col_offset), self.pos(n.end_lineno, n.end_col_offset)

    def add(self, kind, node, a, b, new):
        if not self.stack:
            return
        if self.funcs and not any(f in self.funcs for f in self.stack):
            return
        old = self.bsrc[a:b].decode("utf8")
        if old == new:
            return
        self.out.append({"kind": kind, "func": ".".join(self.stack), "line": node.lineno, "a": a, "b": b, "old": old, "new": new})

    def between(self, left, right, optxt, newtxt, kind, node):
        a, b = self.span(left)[1], self.span(right)[0]
        mid = self.bsrc[a:b].decode("utf8")
        if mid.count(optxt) == 1 and "#" not in mid:
            i = mid.index(optxt)
            self.add(kind, node, a + len(mid[:i].encode()), a + len(mid[:i + len(optxt)].encode()), newtxt)

    def visit_FunctionDef(self, node):
        self.stack.append(node.name)
        body = node.body
        if body and isinstance(body[0], ast.Expr) and isinstance(getattr(body[0], "value", None), ast.Constant) \
                and isinstance(body[0].value.value, str):
            body = body[1:]
        for st in body:
            self.visit(st)
        self.stack.pop()
    visit_AsyncFunctionDef = visit_FunctionDef

    def visit_ClassDef(self, node):
        self.stack.append(node.name)
        for st in node.body:
            self.visit(st)
        self.stack.pop()

    def visit_Compare(self, node):
        left = node.left
        for op, right in zip(node.ops, node.comparators):
            if type(op) in CMP:
                self.between(left, right, CMPTXT[type(op)], CMP[type(op)], "cmp", node)
            left = right
        self.generic_visit(node)

    def visit_BoolOp(self, node):
        txt, new = ("and", "or") if isinstance(node.op, ast.And) else ("or", "and")
        for l, r in zip(node.values, node.values[1:]):
            self.between(l, r, txt, new, "bool", node)
        self.generic_visit(node)

    def visit_UnaryOp(self, node):
        if isinstance(node.op, ast.Not):
            a, _ = self.span(node)
            b, _ = self.span(node.operand)
            self.add("not", node, a, b, "")
        self.generic_visit(node)

    def visit_BinOp(self, node):
        if type(node.op) in BIN and not (isinstance(node.left, ast.Constant) and isinstance(node.left.value, str)):
            txt, new = BIN[type(node.op)]
            self.between(node.left, node.right, txt, new, "arith", node)
        self.generic_visit(node)

    def visit_Constant(self, node):
        v = node.value
        a, b = self.span(node)
        if v is True or v is False:
            self.add("const", node, a, b, "False" if v else "True")
        elif isinstance(v, int) and abs(v) <= 3:
            self.add("const", node, a, b, str(v + 1))
            if v == 1:
                self.add("const", node, a, b, "0")

    def visit_Call(self, node):
        f = node.func
        a, b = self.span(node)
        if isinstance(f, ast.Name) and f.id in ("deepcopy", "copy", "sorted", "list", "set", "frozenset") and len(node.args) == 1 \
                and not node.keywords:
            inner = self.bsrc[slice(*self.span(node.args[0]))].decode("utf8")
            if f.id == "sorted":
                self.add("call", node, a, b, f"list({inner})")
            elif f.id in ("deepcopy", "copy"):
                self.add("call", node, a, b, f"({inner})")
            elif f.id == "set":
                self.add("call", node, a, b, f"list({inner})")
        if isinstance(f, ast.Name) and f.id in ("min", "max"):
            fa, fb = self.span(f)
            self.add("call", node, fa, fb, "max" if f.id == "min" else "min")
        if isinstance(f, ast.Attribute) and f.attr == "copy" and not node.args and not node.keywords:
            self.add("call", node, a, b, self.bsrc[slice(*self.span(f.value))].decode("utf8"))
        self.generic_visit(node)

    def _stmt_delete(self, node):
        a, b = self.span(node)
        self.add("delete", node, a, b, "pass")

    def visit_Expr(self, node):
        if isinstance(node.value, ast.Call):
            self._stmt_delete(node)
        self.generic_visit(node)

    def visit_Assign(self, node):
        if any(isinstance(t, (ast.Subscript, ast.Attribute)) for t in node.targets):
            self._stmt_delete(node)
        self.generic_visit(node)

    def visit_AugAssign(self, node):
        self._stmt_delete(node)
        self.generic_visit(node)

    def visit_Delete(self, node):
        self._stmt_delete(node)

    def visit_Break(self, node):
        self.add("flow", node, *self.span(node), "continue")

    def visit_Continue(self, node):
        self.add("flow", node, *self.span(node), "break")

    def visit_If(self, node):
        a, b = self.span(node.test)
        self.add("ifneg", node, a, b, "not (" + self.bsrc[a:b].decode("utf8") + ")")
        self.generic_visit(node)


def sites_of(path, funcs):
    src = open(path, encoding="utf8").read()
    s = Sites(src, funcs)
    tree = ast.parse(src)
    for st in tree.body:
        if isinstance(st, (ast.FunctionDef, ast.ClassDef, ast.AsyncFunctionDef)):
            s.visit(st)
    return s.bsrc, s.out


def run(cmd, **k):
    return subprocess.run(cmd, shell=True, capture_output=True, text=True, **k)


def baseline_failing(wt):
    """node ids failing on the clean tree (network access, flaky drawing tests): deselected in every mutant run"""
    ids = set()
    for _ in range(2):
        r = run("/venv/bin/python -m pytest -q -p no:cacheprovider --timeout=600 --continue-on-collection-errors -rfE tests xgi",
                cwd=wt, env=dict(os.environ, PYTHONPATH=wt))
        for l in r.stdout.splitlines():
            if l.startswith(("FAILED ", "ERROR ")):
                ids.add(l.split()[1])
    ids |= {"tests/drawing/test_draw.py::test_issue_515", "xgi/drawing/draw.py::xgi.drawing.draw.draw"}
    return sorted(ids)


def tests_pass(wt, deselect):
    d = " ".join(f"--deselect '{i}'" for i in deselect)
    r = run(f"/venv/bin/python -m pytest -x -q -p no:cacheprovider --timeout=600 {d} tests xgi", cwd=wt,
            env=dict(os.environ, PYTHONPATH=wt))
    fails = [l.split()[1] for l in r.stdout.splitlines() if l.startswith(("FAILED ", "ERROR "))]
    return r.returncode == 0, fails[:3] or [r.stdout[-200:]]


def main():
    ap = argparse.ArgumentParser()
    ap.add_argument("--target", action="append", required=True)
    ap.add_argument("--props", nargs="+", required=True)
    ap.add_argument("--max", type=int, default=60)
    ap.add_argument("--jobs", type=int, default=4)
    ap.add_argument("--seed", type=int, default=0)
    ap.add_argument("--name", default=None)
    ap.add_argument("--kinds", default=None, help="comma list of mutation kinds to keep")
    a = ap.parse_args()
    rng = random.Random(a.seed)
    allm = []
    for t in a.target:
        rel, _, fs = t.partition(":")
        funcs = set(fs.split(",")) if fs else None
        bsrc, ss = sites_of(os.path.join("/repo", rel), funcs)
        for s in ss:
            s["file"] = rel
        allm += ss
    if a.kinds:
        allm = [m for m in allm if m["kind"] in a.kinds.split(",")]
    rng.shuffle(allm)
    muts = allm[: a.max]
    name = a.name or ("-".join(a.props) + f"-s{a.seed}")
    os.makedirs(f"{V}/out/mutsweep", exist_ok=True)
    outp = f"{V}/out/mutsweep/{name}.jsonl"
    print(f"{len(allm)} sites, running {len(muts)} mutants with checks {a.props} -> {outp}", flush=True)
    lock = threading.Lock()
    wts = []
    for k in range(a.jobs):
        wt = tempfile.mkdtemp(prefix="mutsweep-")
        os.rmdir(wt)
        assert run(f"git -C /repo worktree add --detach {wt} HEAD").returncode == 0
        wts.append(wt)
    free = list(wts)
    deselect = baseline_failing(wts[0])
    print(f"{len(deselect)} baseline-failing tests deselected", flush=True)
    fout = open(outp, "a")

    def work(m):
        with lock:
            wt = free.pop()
        try:
            p = os.path.join(wt, m["file"])
            orig = open(p, "rb").read()
            new = orig[: m["a"]] + m["new"].encode("utf8") + orig[m["b"]:]
            res = dict(m)
            try:
                compile(new, p, "exec")
            except SyntaxError:
                res["result"] = "syntax-error"
                return res
            open(p, "wb").write(new)
            try:
                ok, missing = tests_pass(wt, deselect)
                if not ok:
                    res["result"] = "killed-by-tests"
                    res["tests_failed"] = missing
                    return res
                res["checks"] = {}
                caught = []
                for pr in a.props:
                    def one():
                        return run(f"./check {pr}", cwd=V, env=dict(os.environ, XGI_REPO=wt, VERIF_SEED=str(a.seed)), timeout=1800)
                    try:
                        if pr in SERIAL_PROPS:
                            with _serial:
                                r = one()
                        else:
                            r = one()
                        lines = [l for l in r.stdout.splitlines() if l.startswith("VIOLATION")]
                        res["checks"][pr] = {"exit": r.returncode, "lines": [l[:200] for l in lines[:3]]}
                        if r.returncode == 1:
                            caught.append(pr)
                            break
                    except subprocess.TimeoutExpired:
                        res["checks"][pr] = {"exit": "timeout"}
                if caught:
                    res["result"] = "caught"
                    res["caught_by"] = caught
                else:
                    res["result"] = "SURVIVOR" if all(c.get("exit") == 0 for c in res["checks"].values()) else "infra"
            finally:
                open(p, "wb").write(orig)
            return res
        finally:
            with lock:
                free.append(wt)

    counts = {}
    try:
        with ThreadPoolExecutor(a.jobs) as ex:
            for res in ex.map(work, muts):
                counts[res["result"]] = counts.get(res["result"], 0) + 1
                fout.write(json.dumps({k: v for k, v in res.items() if k not in ("a", "b")}) + "\n")
                fout.flush()
                tag = res["result"] + (":" + ",".join(res.get("caught_by", [])) if res["result"] == "caught" else "")
                print(f"{tag:22s} {res['file']}:{res['line']} {res['func']} [{res['kind']}] {res['old'][:40]!r} -> {res['new'][:40]!r}", flush=True)
    finally:
        for wt in wts:
            run(f"git -C /repo worktree remove --force {wt}")
    print("summary:", counts)


if __name__ == "__main__":
    main()
