"""debug: replay the k-th disagreement of an evidence file step by step, all fields"""
import json, sys, os
sys.path.insert(0, '/verif')
from harness import hg as M
from harness.core import run_driver, canon
import copy
e=json.load(open(f'/verif/evidence/{sys.argv[1]}.json'))
d=e['coverage']['disagreements'][int(sys.argv[2])]
ops=d['ops']
# reconstruct members_raw etc.
for o in ops:
    if o['op']=='add_edge': o['members_raw']=o['members']
    if o['op']=='random_edge_shuffle': o['seed']=0
    if o['op']=='add_weighted_edges_from': o['weight']=o['items'][0]['attr'][0][0] if o['items'] else 'weight'
H=M.factory(); snaps=[]
for o in ops:
    out,exc=M.apply_impl(H,o); snaps.append(M.snapshot(H,out))
resp=run_driver('HG',[{'op':'reset'}]+[M.to_request(o) for o in ops])[1:]
for o,s,r in zip(ops,snaps,resp):
    r=canon(r)
    diff=[k for k in s if s[k]!=r.get(k)]
    print(json.dumps(M.to_request(o))[:200], '->', s['out'], 'DIFF' if diff else '')
    for k in diff: print('    ',k,'impl',json.dumps(s[k]),'model',json.dumps(r.get(k)))
    if diff: break
