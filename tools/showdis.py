import json, sys
e=json.load(open(f'/verif/evidence/{sys.argv[1]}.json'))
c=e['coverage']
print(c.get('disagreements_total'), {k:v for k,v in c['distribution'].items() if k.startswith('dis')})
for d in c.get('disagreements',[])[:int(sys.argv[2]) if len(sys.argv)>2 else 3]:
    for o in d['ops']: print('  ', json.dumps(o))
    print(d['fields']); print('M',json.dumps(d['model'])); print('I',json.dumps(d['impl'])); print()
