#!/usr/bin/env python3
"""(re)generate /verif/MANIFEST.json from the table below; validates against the schema when jsonschema is available"""
import json, os
V = os.path.dirname(os.path.dirname(os.path.abspath(__file__)))
ALL = [f"C{i:02d}" for i in range(1, 21)]
CLAIMED = {}
import glob
READY = open(os.path.join(V, "harness", "props", "READY")).read().split()   # properties whose checks are integrated
for f in sorted(glob.glob(os.path.join(V, "harness", "props", "*.manifest.json"))):
    frag = json.load(open(f))
    CLAIMED[os.path.basename(f).split(".")[0].upper()] = frag
CLAIMED = {k: v for k, v in CLAIMED.items() if k in READY}
PENDING = "check not built yet in this revision of /verif (work in progress; see DESIGN.md §12)"
checks = []
for p in ALL:
    if p in CLAIMED:
        c = CLAIMED[p]
        checks.append(dict(property_id=p, quick_cmd=f"./check {p} --tier quick", thorough_cmd=f"./check {p} --tier thorough",
                           evidence_file=f"evidence/{p}.json", replay_cmd_template=f"./check {p} --replay {{path}}",
                           engine="lean4-model", level_claimed=dict(category=c.get("category", "proof"), text=c["text"], design_ref=c.get("design", "")),
                           level_note=c["note"], technique=c["technique"]))
m = dict(version=1,
         setup_cmd="cd lean && lake build",
         hooks=dict(guard="XGI_VERIF", enable="no source hooks: checks import /repo through the editable install of /venv as it is",
                    baseline_off_cmd="python3 tools/baseline.py", source_commits=[], add_only=True),
         engines=[dict(name="lean4-model", path="lean/", serves_properties=sorted(CLAIMED),
                       kind_free_text="Lean 4 models + theorems (lake project, Mathlib single modules in proof files only); "
                                      "Python harness drives model (lake env lean --run Drivers/*.lean) and implementation on the same request lines")],
         checks=checks,
         notes="Entry point ./check <Cxx> [--tier quick|thorough] [--replay file]; exit 0 ok, 1 violation, 2 infrastructure error.",
         not_applicable=[dict(property_id=p, reason=PENDING) for p in ALL if p not in CLAIMED])
json.dump(m, open(os.path.join(V, "MANIFEST.json"), "w"), indent=1)
try:
    import jsonschema
    jsonschema.validate(m, json.load(open("/root/.vp/MANIFEST.schema.json")))
    print("MANIFEST.json valid;", len(checks), "checks")
except ImportError:
    print("written (jsonschema not available)")
