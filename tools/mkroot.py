#!/usr/bin/env python3
"""regenerate lean/XgiModel.lean: import every module of the READY properties (except those depending on Generated/,
which are rebuilt by their checks after the translators ran) so that `lake build` in setup compiles everything."""
import os, re, glob
V = os.path.dirname(os.path.dirname(os.path.abspath(__file__)))
L = os.path.join(V, "lean")
ready = open(os.path.join(V, "harness", "props", "READY")).read().split()
mods = ["XgiModel.Base", "XgiModel.Proto", "XgiModel.Net", "XgiModel.Core.HG", "XgiModel.Drive.HG"]
def deps_generated(mod, seen=None):
    seen = seen or set()
    if mod in seen: return False
    seen.add(mod)
    f = os.path.join(L, *mod.split(".")) + ".lean"
    if not os.path.exists(f): return False
    for m in re.findall(r"^import\s+(XgiModel\.[\w.]+)", open(f).read(), flags=re.M):
        if m.startswith("XgiModel.Generated") or deps_generated(m, seen): return True
    return False
for p in ready:
    cands = [f"XgiModel.Props.{p}"] + sorted("XgiModel.Props." + os.path.basename(f)[:-5]
                                             for f in glob.glob(os.path.join(L, "XgiModel", "Props", p + "?*.lean"))) + sorted("XgiModel." + os.path.relpath(f, os.path.join(L, "XgiModel"))[:-5].replace("/", ".")
                                              for f in glob.glob(os.path.join(L, "XgiModel", p, "*.lean")))
    for m in cands:
        if os.path.exists(os.path.join(L, *m.split(".")) + ".lean") and not deps_generated(m) and m not in mods:
            mods.append(m)
open(os.path.join(L, "XgiModel.lean"), "w").write("".join(f"import {m}\n" for m in mods))
print(len(mods), "modules")
