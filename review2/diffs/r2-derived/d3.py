import xgi
S = xgi.SimplicialComplex(); S.add_simplex(["a", 1, 2])
print("members in set order:", list(S.edges.members(0)))
try: print(xgi.from_max_simplices(S).edges.members())
except Exception as e: print("RAISED", type(e).__name__, e)
S2 = xgi.SimplicialComplex(); S2.add_simplex([(1, 2), (3, 4)])      # tuple labels, a 2-node maximal simplex
try: print(xgi.from_max_simplices(S2).edges.members())
except Exception as e: print("RAISED", type(e).__name__, e)
