import xgi, warnings, numpy as np
warnings.simplefilter("ignore")
def t(name, th):
    try:
        print(name, "->", th())
    except Exception as e:
        print(name, "RAISED", type(e).__name__, e)
def desc(H):
    return (list(H.nodes), {e: set(H.edges.members(e)) for e in H.edges}, {n:dict(H.nodes[n]) for n in H.nodes if H.nodes[n]}, {e:dict(H.edges[e]) for e in H.edges if H.edges[e]})
# dual with node ids that are unhashable? no. dual where edge ids collide e.g. 1 and True, 1.0
H = xgi.Hypergraph(); H.add_edge([1,2], idx=1); H.add_edge([2,3], idx="1")
t("dual int/str", lambda: desc(H.dual()))
t("dual SC", lambda: desc(xgi.SimplicialComplex([[1,2,3]]).dual()))
t("dual DH", lambda: xgi.DiHypergraph([([1],[2])]).dual())
# lshift
A = xgi.Hypergraph([[1,2]]); B = xgi.Hypergraph([[2,3]]); A.freeze()
t("lshift frozen", lambda: (desc(A<<B), (A<<B).is_frozen))
t("lshift SC", lambda: desc(xgi.SimplicialComplex([[1,2,3]]) << xgi.SimplicialComplex([[3,4]])))
t("lshift H<<SC", lambda: desc(xgi.Hypergraph([[1,2,3]]) << xgi.SimplicialComplex([[3,4]])))
t("lshift H<<DH", lambda: desc(xgi.Hypergraph([[1,2,3]]) << xgi.DiHypergraph([([3],[4])])))
# lshift: edge attr with key named 'idx'? edges added as (members, attr) 2-tuple: format sniffing!
A = xgi.Hypergraph(); A.add_edge([1,2], idx="a", w=1)
B = xgi.Hypergraph(); B.add_edge([3,4], idx="b")
t("lshift attrs", lambda: desc(A<<B))
# members, attr format: if attr is empty dict {} and members set... format (members, id) vs (members, attr) sniffing
A = xgi.Hypergraph(); A.add_edge([1,2], idx="a")
t("lshift empty-attr", lambda: desc(A<<B))
A = xgi.Hypergraph(); A.add_edge([], idx="a"); 
t("lshift empty edge first", lambda: desc(A<<B))
t("lshift no edges", lambda: desc(xgi.Hypergraph() << B))
A = xgi.Hypergraph(); A.add_nodes_from([1,2])
t("lshift nodes only", lambda: desc(A << B))
# complement
t("compl uniform", lambda: desc(xgi.complement(xgi.Hypergraph([[1,2,3]]))))
t("compl str labels", lambda: desc(xgi.complement(xgi.Hypergraph([["a","b"],["c"]]))))
Hc = xgi.Hypergraph([[1,2],[2,3]]); Hc.set_node_attributes({1:{"w":3}}); Hc["name"]="x"
t("compl attrs", lambda: (desc(xgi.complement(Hc)), xgi.complement(Hc)._net_attr))
t("compl SC", lambda: desc(xgi.complement(xgi.SimplicialComplex([[1,2,3]]))))
t("compl DH", lambda: xgi.complement(xgi.DiHypergraph([([1],[2])])))
t("compl tuples", lambda: desc(xgi.complement(xgi.Hypergraph([[(1,2),(3,4)],[(5,6)]]))))
