import xgi, warnings, traceback
warnings.simplefilter("ignore")
def t(name, th):
    try:
        print(name, "->", th())
    except Exception as e:
        print(name, "RAISED", type(e).__name__, e)
def desc(H):
    return (list(H.nodes), {e: set(H.edges.members(e)) for e in H.edges}, {n:dict(H.nodes[n]) for n in H.nodes if H.nodes[n]}, {e:dict(H.edges[e]) for e in H.edges if H.edges[e]})
S = xgi.SimplicialComplex(); S.add_simplex(["a","b","c","d"], id="big"); 
t("S", lambda: desc(S))
R = xgi.convert_labels_to_integers(S)
t("R", lambda: desc(R))
# check iso
nl = {n: R.nodes[n]["label"] for n in R.nodes}
ok = all({nl[x] for x in R.edges.members(e)} == set(S.edges.members(R.edges[e]["label"])) for e in R.edges)
print("iso ok", ok)
# remove simplex then relabel
S = xgi.SimplicialComplex([[1,2,3],[3,4,5]]); S.remove_simplex_id(0)
t("S after removal", lambda: desc(S))
R = xgi.convert_labels_to_integers(S); t("R", lambda: desc(R))
nl = {n: R.nodes[n]["label"] for n in R.nodes}
print("iso ok", all({nl[x] for x in R.edges.members(e)} == set(S.edges.members(R.edges[e]["label"])) for e in R.edges), R.num_edges==S.num_edges)
# edges order where face after many
import random
for seed in range(200):
    rng = random.Random(seed)
    S = xgi.SimplicialComplex()
    for _ in range(rng.randint(1,4)):
        S.add_simplex(rng.sample(range(7), rng.randint(1,4)))
    for _ in range(rng.randint(0,2)):
        if S.num_edges:
            try: S.remove_simplex_id(rng.choice(list(S.edges)))
            except Exception as e: pass
    for ip in (False, True):
        S0 = S.copy()
        R = xgi.convert_labels_to_integers(S0, in_place=ip) or S0
        nl = {n: R.nodes[n]["label"] for n in R.nodes}
        good = R.num_edges==S.num_edges and all({nl[x] for x in R.edges.members(e)} == set(S.edges.members(R.edges[e]["label"])) for e in R.edges)
        if not good: print("BAD", seed, ip, desc(S), desc(R)); break
print("done")
