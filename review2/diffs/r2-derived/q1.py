import matplotlib; matplotlib.use("Agg")
import xgi, warnings, numpy as np, inspect
import xgi.drawing.layout as L
warnings.simplefilter("ignore")
names = [n for n in dir(L) if n.endswith("_layout")]
print(names)
def mk(nodes, edges, cls=xgi.Hypergraph):
    H = cls(); H.add_nodes_from(nodes)
    for e in edges: (H.add_simplex if cls is xgi.SimplicialComplex else H.add_edge)(e)
    return H
nets = {
 "null": mk([],[]),
 "one-node": mk([1],[]),
 "edgeless": mk([1,2,3],[]),
 "empty-edge": mk([1,2,3],[[1,2],[]]),
 "only-empty-edge": mk([1,2],[[]]),
 "singleton-only": mk([1,2],[[1]]),
 "tuple-nodes": mk([(1,2),(3,4),(5,6)],[[(1,2),(3,4)],[(1,2),(3,4),(5,6)]]),
 "float-nodes": mk([0.5,1.5,2.5],[[0.5,1.5],[0.5,1.5,2.5]]),
 "None-like": mk(["None","",0,False],[["None",""],[0,"None",""]]),
 "mixed": mk([0,"0",1,"1"],[[0,"0"],[1,"1","0"]]),
 "big-int": mk([10**20,-1,2**63],[[10**20,-1],[10**20,-1,2**63]]),
 "frozen": (lambda H:(H.freeze(),H)[1])(mk([1,2,3],[[1,2],[1,2,3]])),
 "node-named-like-phantom": mk([0,1,2,3,4],[[0,1,2],[2,3]]),
 "str-int-phantom": mk(["a",3,4,5],[["a",3,4],[4,5]]),
 "multi": mk([1,2,3],[[1,2,3],[1,2,3],[1,2],[2,1]]),
 "sc": mk([1,2,3,4,9],[[1,2,3],[3,4]], xgi.SimplicialComplex),
 "dh": xgi.DiHypergraph([([1,2],[3]),([3],[4])]),
}
def chk(H, res, bip=False):
    if isinstance(res, tuple): 
        if bip: npos, epos = res
        else: npos, epos = res[0], None
    else: npos, epos = res, None
    pr = []
    if set(npos) != set(H.nodes) or len(npos)!=H.num_nodes: pr.append(f"keys {list(npos)} vs {list(H.nodes)}")
    for k,v in npos.items():
        a = np.asarray(v, dtype=float)
        if a.shape != (2,) or not np.all(np.isfinite(a)): pr.append(f"bad pos {k}:{v}")
    if bip and (set(epos) != set(H.edges)): pr.append(f"ekeys {list(epos)} vs {list(H.edges)}")
    if epos:
      for k,v in epos.items():
        a = np.asarray(v, dtype=float)
        if a.shape != (2,) or not np.all(np.isfinite(a)): pr.append(f"bad epos {k}:{v}")
    return pr
for nn, H in nets.items():
    for n in names:
        f = getattr(L, n)
        try:
            res = f(H)
            pr = chk(H, res, "bipartite" in n)
            if pr: print(nn, n, "PROBLEM", pr[:2])
        except Exception as e:
            print(nn, n, "RAISED", type(e).__name__, str(e)[:100])
