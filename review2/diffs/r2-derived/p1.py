import xgi, warnings, traceback
warnings.simplefilter("ignore")
def t(name, th):
    try:
        print(name, "->", th())
    except Exception as e:
        print(name, "RAISED", type(e).__name__, e)
def desc(H):
    return (list(H.nodes), {e: set(H.edges.members(e)) for e in H.edges}, dict(H.nodes.attrs.asdict()) if hasattr(H.nodes,'attrs') else None)
H = xgi.Hypergraph([[1,2],[2,3],[4,5],[6]])
# subhypergraph with generators
t("sub gen nodes", lambda: desc(xgi.subhypergraph(H, nodes=(n for n in [1,2,3]))))
t("sub gen edges", lambda: desc(xgi.subhypergraph(H, edges=(e for e in [0,1]))))
t("sub unhashable", lambda: desc(xgi.subhypergraph(H, nodes=[[1],2])))
t("sub str nodes", lambda: desc(xgi.subhypergraph(xgi.Hypergraph([["a","b"],["ab","c"]]), nodes="ab")))
t("sub keep_isolates False", lambda: desc(xgi.subhypergraph(H, nodes=[1,2,4], keep_isolates=False)))
# subhypergraph on SC, DH
S = xgi.SimplicialComplex([[1,2,3],[3,4]])
t("sub SC", lambda: desc(xgi.subhypergraph(S, nodes=[1,2,3])))
t("sub SC edges", lambda: desc(xgi.subhypergraph(S, edges=[0])))
D = xgi.DiHypergraph([([1,2],[3]),([3],[4])])
t("sub DH", lambda: (list(xgi.subhypergraph(D, nodes=[1,2,3]).nodes), xgi.subhypergraph(D, nodes=[1,2,3]).edges.dimembers(dtype=dict)))
# lch in_place
H2 = xgi.Hypergraph([[1,2],[2,3],[4,5],[6]]); H2.add_edge([], idx="emp")
t("lch inplace", lambda: (xgi.largest_connected_hypergraph(H2, in_place=True), desc(H2)))
H2 = xgi.Hypergraph([[1,2],[2,3],[4,5],[6]]); H2.add_edge([], idx="emp")
t("lch not inplace", lambda: desc(xgi.largest_connected_hypergraph(H2)))
H3 = xgi.Hypergraph([[1,2],[2,3],[4,5],[6]]); H3.freeze()
t("lch inplace frozen", lambda: (xgi.largest_connected_hypergraph(H3, in_place=True), desc(H3)))
t("lch SC", lambda: desc(xgi.largest_connected_hypergraph(xgi.SimplicialComplex([[1,2,3],[4,5]]))))
t("lch SC inplace", lambda: (lambda S: (xgi.largest_connected_hypergraph(S, in_place=True), desc(S)))(xgi.SimplicialComplex([[1,2,3],[4,5]])))
t("lch DH", lambda: desc(xgi.largest_connected_hypergraph(D)))
