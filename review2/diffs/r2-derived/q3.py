import matplotlib; matplotlib.use("Agg")
import xgi, warnings, numpy as np
warnings.simplefilter("ignore")
import matplotlib.pyplot as plt
def t(name, th):
    try:
        print(name, "->", th())
    except Exception as e:
        print(name, "RAISED", type(e).__name__, str(e)[:150])
    plt.close("all")
def summ(r):
    ax, colls = r
    if not isinstance(colls, tuple): colls=(colls,)
    out=[]
    for c in colls:
        if hasattr(c,"get_segments"): out.append(("seg",[np.round(s,2).tolist() for s in c.get_segments()]))
        elif hasattr(c,"get_paths") and not hasattr(c, "get_sizes"): out.append(("poly",[np.round(p.vertices,2).tolist() for p in c.get_paths()]))
        else: out.append(("mark", np.round(c.get_offsets(),2).tolist()))
    return out
H = xgi.Hypergraph([[1,2,3],[3,4],[5]])
pos = {1:(0,0),2:(1,0),3:(2,0),4:(3,1),5:(5,5)}
t("collinear triangle", lambda: summ(xgi.draw(H,pos=pos)))
pos2 = {1:(0,0),2:(0,0),3:(2,0),4:(2,0),5:(5,5)}
t("coincident", lambda: summ(xgi.draw(H,pos=pos2)))
t("coincident hull", lambda: summ(xgi.draw(H,pos=pos2, hull=True)))
t("collinear hull", lambda: summ(xgi.draw(H,pos=pos, hull=True)))
# tuple labels, None-like
Ht = xgi.Hypergraph(); 
for e in [[(1,2),(3,4),(5,6)],[(1,2),(3,4)]]: Ht.add_edge(e)
t("tuple labels draw", lambda: [ (k,len(v)) for k,v in summ(xgi.draw(Ht))])
t("tuple labels draw node_labels", lambda: [ (k,len(v)) for k,v in summ(xgi.draw(Ht, node_labels=True, hyperedge_labels=True))])
Hf = xgi.Hypergraph([[0.5,1.5,2.5],[0.5,"a"],[None if False else "None", 2.5]])
t("mixed float/str draw", lambda: [ (k,len(v)) for k,v in summ(xgi.draw(Hf))])
# pos with extra keys / missing
t("pos extra keys", lambda: [ (k,len(v)) for k,v in summ(xgi.draw(H,pos={**pos, 99:(9,9)}))])
# edges of size 0
He = xgi.Hypergraph([[1,2,3],[3,4]]); He.add_edge([])
t("empty edge draw", lambda: [ (k,len(v)) for k,v in summ(xgi.draw(He))])
t("empty edge draw_hyperedges", lambda: [ (k,len(v)) for k,v in summ(xgi.draw_hyperedges(He))])
t("empty edge draw hull", lambda: [ (k,len(v)) for k,v in summ(xgi.draw(He, hull=True))])
t("empty edge + edge_fc stat", lambda: [ (k,len(v)) for k,v in summ(xgi.draw(He, edge_fc=He.edges.size))])
t("empty edge + edge_fc dict", lambda: [ (k,len(v)) for k,v in summ(xgi.draw(He, edge_fc={0:"red",1:"blue",2:"green"}))])
t("singletons + dyad_lw stat", lambda: [ (k,len(v)) for k,v in summ(xgi.draw(H, dyad_lw=H.edges.size, edge_fc=H.edges.order))])
t("node_size stat", lambda: [ (k,len(v)) for k,v in summ(xgi.draw(H, node_size=H.nodes.degree, node_fc=H.nodes.degree))])
t("node_fc constant stat", lambda: [ (k,len(v)) for k,v in summ(xgi.draw(xgi.Hypergraph([[1,2],[2,3],[3,1],[1,2,3]]), node_fc=xgi.Hypergraph([[1,2],[2,3],[3,1],[1,2,3]]).nodes.degree))])
# max_order
t("max_order 1", lambda: [ (k,len(v)) for k,v in summ(xgi.draw(H, max_order=1))])
t("max_order -1", lambda: [ (k,len(v)) for k,v in summ(xgi.draw(H, max_order=-1))])
t("max_order 10", lambda: [ (k,len(v)) for k,v in summ(xgi.draw(H, max_order=10))])
t("dh max_order 0 draw_hyperedges", lambda: [ (k,len(v)) for k,v in summ(xgi.draw_hyperedges(H, max_order=0))])
S = xgi.SimplicialComplex([[1,2,3,4],[4,5]])
t("SC draw max_order 1", lambda: [ (k,len(v)) for k,v in summ(xgi.draw(S, max_order=1))])
t("SC draw max_order 2", lambda: [ (k,len(v)) for k,v in summ(xgi.draw(S, max_order=2))])
t("SC draw_simplices hull", lambda: [ (k,len(v)) for k,v in summ(xgi.draw_simplices(S, hull=True))])
t("SC draw hull", lambda: [ (k,len(v)) for k,v in summ(xgi.draw(S, hull=True))])
t("draw_hyperedges on SC", lambda: [ (k,len(v)) for k,v in summ(xgi.draw_hyperedges(S))])
t("draw_simplices on HG", lambda: [ (k,len(v)) for k,v in summ(xgi.draw_simplices(H))])
