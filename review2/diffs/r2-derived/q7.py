import matplotlib; matplotlib.use("Agg")
import xgi, warnings
warnings.simplefilter("ignore")
class MySC(xgi.SimplicialComplex): pass
class MyH(xgi.Hypergraph): pass
S = MySC([[1,2,3],[3,4]])
for name, th in [("draw(MySC)", lambda: xgi.draw(S)), ("draw_simplices(MySC)", lambda: xgi.draw_simplices(S)), ("random_layout(MySC)", lambda: xgi.random_layout(S)),
                 ("barycenter_spring_layout(MySC)", lambda: xgi.barycenter_spring_layout(S)), ("circular_layout(MySC)", lambda: xgi.circular_layout(S)),
                 ("draw(MyH)", lambda: xgi.draw(MyH([[1,2,3],[3,4]]))), ("k_skeleton(MySC)", lambda: xgi.k_skeleton(S,1)), ("MySC.cleanup", lambda: S.cleanup(in_place=False)),
                 ("lch(MySC)", lambda: xgi.largest_connected_hypergraph(S)), ("MyH.dual type", lambda: type(MyH([[1,2]]).dual()).__name__), ("MyH<<MyH type", lambda: type(MyH([[1,2]])<<MyH([[1,2]])).__name__)]:
    try: r = th(); print(name, "ok", r if isinstance(r,str) else "")
    except Exception as e: print(name, "RAISED", type(e).__name__, str(e)[:90])
