import matplotlib; matplotlib.use("Agg")
import xgi, warnings, numpy as np, pandas as pd
warnings.simplefilter("ignore")
import matplotlib.pyplot as plt
def t(name, th):
    try:
        r = th(); ax, colls = r
        if not isinstance(colls, tuple): colls=(colls,)
        print(name, "-> ok", [len(c.get_paths()) if not hasattr(c,"get_segments") else len(c.get_segments()) for c in colls][:0])
    except Exception as e:
        print(name, "RAISED", type(e).__name__, str(e)[:120])
    plt.close("all")
H = xgi.Hypergraph([[1,2,3],[3,4],[1,4],[2,3,4,5]])
n, nd, ne = 5, 2, 2
pos = xgi.circular_layout(H)
cases = {
 "node_size tuple": dict(node_size=(5,6,7,8,9)),
 "node_size range": dict(node_size=range(5,10)),
 "node_size Series": dict(node_size=pd.Series([5,6,7,8,9])),
 "node_size np.float64": dict(node_size=np.float64(7)),
 "node_size np.int64": dict(node_size=np.int64(7)),
 "node_size np int arr": dict(node_size=np.array([5,6,7,8,9])),
 "node_lw tuple": dict(node_lw=(1,2,3,4,5)),
 "node_fc rgb tuple": dict(node_fc=(1,0,0)),
 "node_fc rgba tuple": dict(node_fc=(1,0,0,0.5)),
 "node_fc rgba array": dict(node_fc=np.tile([1,0,0,1],(5,1))),
 "node_fc list of tuples": dict(node_fc=[(1,0,0)]*5),
 "node_fc 'none'": dict(node_fc="none"),
 "node_fc hex": dict(node_fc="#ff0000"),
 "node_fc Series": dict(node_fc=pd.Series([1.,2,3,4,5])),
 "node_fc np strs": dict(node_fc=np.array(["red"]*5)),
 "node_fc tuple of floats n": dict(node_fc=(1.,2.,3.,4.,5.)),
 "node_ec array": dict(node_ec=np.array([1.,2,3,4,5])),
 "node_ec stat": dict(node_ec=H.nodes.degree),
 "node_ec dict": dict(node_ec={1:"red",2:"blue",3:"red",4:"red",5:"red"}),
 "dyad_lw tuple": dict(dyad_lw=(1,2)),
 "dyad_lw np.float64": dict(dyad_lw=np.float64(2)),
 "dyad_lw array": dict(dyad_lw=np.array([1,2])),
 "dyad_color rgb": dict(dyad_color=(0,0,1)),
 "dyad_color list rgb": dict(dyad_color=[(0,0,1),(1,0,0)]),
 "dyad_color array floats": dict(dyad_color=np.array([1.,2.])),
 "dyad_color full stat": dict(dyad_color=H.edges.size),
 "edge_fc rgb": dict(edge_fc=(0,0,1)),
 "edge_fc rgba arr": dict(edge_fc=np.tile([0,0,1,1],(2,1))),
 "edge_fc 'none'": dict(edge_fc="none"),
 "edge_ec stat": dict(edge_ec=H.edges.order),
 "edge_ec array": dict(edge_ec=np.array([1.,2.])),
 "edge_ec dict": dict(edge_ec={0:"red",3:"blue"}),
 "edge_lw list": dict(edge_lw=[1,2]),
 "edge_lw stat": dict(edge_lw=H.edges.size),
 "alpha 0": dict(alpha=0),
 "node_shape list": dict(node_shape="^"),
 "node_size 1-elt list": dict(node_size=[5]),
 "node_fc 1-elt list": dict(node_fc=["red"]),
 "node_fc attr stat": dict(node_fc=H.nodes.average_neighbor_degree),
 "node_size all-equal stat": dict(node_size=xgi.Hypergraph([[1,2],[2,3],[1,3],[1,2,3]]).nodes.degree),
}
for k, kw in cases.items():
    t(k, lambda: xgi.draw(H, pos=pos, **kw))
H1 = xgi.Hypergraph([[1,2],[2,3],[1,3],[1,2,3]])
t("all-equal node_size stat", lambda: xgi.draw(H1, node_size=H1.nodes.degree))
t("all-equal node_lw stat", lambda: xgi.draw(H1, node_lw=H1.nodes.degree))
t("all-equal dyad_lw stat", lambda: xgi.draw(H1, dyad_lw=H1.edges.filterby("order",1).size))
t("all-equal node_fc stat", lambda: xgi.draw(H1, node_fc=H1.nodes.degree))
t("all-equal edge_fc default one polygon", lambda: xgi.draw(H1))
