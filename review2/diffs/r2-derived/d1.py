import xgi
H = xgi.Hypergraph([[1,2],[2,3]])
print("dual #1", H.dual().edges.members(dtype=dict))
H.remove_edge(1); H.add_edge([1,3], idx="x")
print("H now  ", H.edges.members(dtype=dict))
D = H.dual()
print("dual #2", D.edges.members(dtype=dict), "nodes", list(D.nodes))
