import matplotlib; matplotlib.use("Agg")
import xgi
H = xgi.Hypergraph([[1,2,3],[3,4],[4,5]])
pos = xgi.circular_layout(H)                      # one layout for the whole network ...
sub = xgi.subhypergraph(H, nodes=[1,2,3,4])       # ... reused to draw a part of it
try:
    ax, (nc, dc, ec) = xgi.draw(sub, pos=pos); print("ok:", len(nc.get_offsets()), "markers,", len(dc.get_segments()), "line,", len(ec.get_paths()), "polygon")
except Exception as e: print("RAISED", type(e).__name__, e)
