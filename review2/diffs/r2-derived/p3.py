import xgi, warnings, traceback
warnings.simplefilter("ignore")
def t(name, th):
    try:
        print(name, "->", th())
    except Exception as e:
        print(name, "RAISED", type(e).__name__, e)
def desc(H):
    return (list(H.nodes), {e: set(H.edges.members(e)) for e in H.edges}, {n:dict(H.nodes[n]) for n in H.nodes if H.nodes[n]}, {e:dict(H.edges[e]) for e in H.edges if H.edges[e]})
def mk(edges, cls=xgi.Hypergraph):
    H = cls()
    for e in edges: (H.add_simplex if cls is xgi.SimplicialComplex else H.add_edge)(e)
    return H
H = mk([[(1,2),(3,4)],[(5,6)]])
t("compl tuples", lambda: desc(xgi.complement(H)))
H = mk([[(1,2,3),(3,4,5)],[(3,4,5),(5,6,7)]])
t("compl tuples3", lambda: desc(xgi.complement(H)))
# other functions with tuple nodes
H = mk([[(1,2),(3,4)],[(5,6)], [(5,6),(1,2)], [(7,8),(9,10)]])
t("dual tuples", lambda: desc(H.dual()))
t("dual2 tuples", lambda: desc(H.dual().dual()))
t("sub tuples", lambda: desc(xgi.subhypergraph(H, nodes=[(1,2),(3,4)])))
t("lch tuples", lambda: desc(xgi.largest_connected_hypergraph(H)))
t("lshift tuples", lambda: desc(H << H))
t("relabel tuples", lambda: desc(xgi.convert_labels_to_integers(H)))
t("cleanup tuples", lambda: desc(H.cleanup(in_place=False)))
t("cleanup tuples norelabel", lambda: desc(H.cleanup(in_place=False, relabel=False, connected=False)))
t("copy tuples", lambda: desc(H.copy()))
t("cut tuples", lambda: desc(xgi.cut_to_order(H,0)))
S = mk([[(1,2),(3,4),(5,6)]], xgi.SimplicialComplex)
t("kskel tuples", lambda: desc(xgi.k_skeleton(S,1)))
t("fms tuples", lambda: desc(xgi.from_max_simplices(S)))
t("sc cleanup tuples", lambda: desc(S.cleanup(in_place=False)))
t("sc copy tuples", lambda: desc(S.copy()))
