import xgi
S = xgi.SimplicialComplex([[1,2,3],[7,8]])
S.set_edge_attributes({2: {"w": 5}})
print("S      ", S.edges.members(dtype=dict), dict(S.edges[2]))
L = xgi.largest_connected_hypergraph(S)
print("largest", L.edges.members(dtype=dict), {e: dict(L.edges[e]) for e in L.edges if L.edges[e]})
