import matplotlib; matplotlib.use("Agg")
import xgi, warnings, numpy as np
warnings.simplefilter("ignore")
print("A1"); S = xgi.SimplicialComplex([[1,2,3],[3,4]])
print(" S   ", S.edges.members(dtype=dict))
print(" sub ", xgi.subhypergraph(S, edges=[0]).edges.members(dtype=dict))
print("A2"); D = xgi.DiHypergraph([([1,2],[3]),([3],[4]),([1],[2,3,4])])
print(" orders", D.edges.order.asdict(), "max_edge_order", xgi.max_edge_order(D))
print(" cut_to_order(D,1) keeps", list(xgi.cut_to_order(D,1).edges))
try: xgi.cut_to_order(D,2)
except Exception as e: print(" cut_to_order(D,2):", type(e).__name__, e)
print("A3"); H = xgi.Hypergraph([[1,2,3],[3,4]])
for f in (xgi.barycenter_spring_layout, xgi.weighted_barycenter_spring_layout, xgi.bipartite_spring_layout):
    try: f(H, seed=np.random.RandomState(1)); print(" ok")
    except Exception as e: print(" ", f.__name__, type(e).__name__, str(e).split(chr(10))[0])
print("A4"); H = xgi.Hypergraph([[1,2,3],[1,2],[3,4],[2,4]]); H.set_edge_attributes({0:9,1:1,2:5,3:3}, name="w")
ax,(dc,ec) = xgi.draw_hyperedges(H, dyad_lw=H.edges.attrs("w"), rescale_sizes=False)
print(" two-node edges", list(H.edges.filterby("order",1)), "w =", [H.edges[e]["w"] for e in H.edges.filterby("order",1)], "line widths", [int(x) for x in dc.get_linewidths()])
print("A6"); 
class MySC(xgi.SimplicialComplex): pass
for f in (xgi.draw, xgi.barycenter_spring_layout, xgi.random_layout):
    try: f(MySC([[1,2,3]])); print(" ok")
    except Exception as e: print(" ", f.__name__, type(e).__name__, e)
print("A7"); Hn = xgi.Hypergraph([[np.int64(0),np.int64(1),np.int64(2)],[np.int64(2),np.int64(3)]])
pos, G = xgi.barycenter_spring_layout(Hn, return_phantom_graph=True); print(" phantom graph nodes", G.number_of_nodes(), "(4 nodes + 2 edges expected 6)")
print("A8"); H = xgi.Hypergraph([[1,2,3],[3,4]])
print(" k=0:", xgi.pairwise_spring_layout(H, k=0, seed=1)[1])
try: xgi.spiral_layout(H, resolution=0, equidistant=True)
except Exception as e: print(" spiral:", type(e).__name__, e)
