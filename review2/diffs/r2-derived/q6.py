import matplotlib; matplotlib.use("Agg")
import xgi, warnings
warnings.simplefilter("ignore")
H = xgi.Hypergraph([[1,2,3],[3,4]])
for name, kw in [("node_ec dict", dict(node_ec={1:"red",2:"blue",3:"red",4:"red"})), ("node_ec NodeStat", dict(node_ec=H.nodes.degree)),
                 ("node_size tuple", dict(node_size=(5,6,7,8))), ("edge_fc 'none'", dict(edge_fc="none")), ("dyad_color 'none'", dict(dyad_color="none")), ("edge_ec 'none'", dict(edge_ec="none"))]:
    try: xgi.draw(H, **kw); print(name, "ok")
    except Exception as e: print(name, "RAISED", type(e).__name__, str(e)[:90])
