import matplotlib; matplotlib.use("Agg")
import xgi
H = xgi.Hypergraph([[1,2,3],[3,4]])
xgi.draw(H)
H.remove_node(4); H.add_edge([3,"new"])
try:
    ax, (nc, dc, ec) = xgi.draw(H); print("second draw ok:", len(nc.get_offsets()), "markers for", H.num_nodes, "nodes")
except Exception as e: print("second draw RAISED", type(e).__name__, e)
