import matplotlib; matplotlib.use("Agg")
import xgi, numpy as np, matplotlib.pyplot as plt
H = xgi.Hypergraph([[1,2,3],[1,2],[3,4],[2,4]])
H.set_edge_attributes({0:9,1:1,2:5,3:3}, name="w")
pos = {1:(0,0),2:(1,0),3:(1,1),4:(2,2)}
ax,(dc,ec) = xgi.draw_hyperedges(H, pos=pos, dyad_lw=H.edges.attrs("w"), rescale_sizes=False)
print("dyads", list(H.edges.filterby("order",1)), "widths", dc.get_linewidths())
ax,(dc,ec) = xgi.draw_hyperedges(H, pos=pos, dyad_lw={0:9,1:1,2:5,3:3}, rescale_sizes=False)
print("dict ", dc.get_linewidths())
ax,(dc,ec) = xgi.draw_hyperedges(H, pos=pos, dyad_lw=H.edges.size, rescale_sizes=False)
print("size stat", dc.get_linewidths())
