import matplotlib; matplotlib.use("Agg")
import xgi, warnings, numpy as np
warnings.simplefilter("ignore")
import matplotlib.pyplot as plt
def t(name, th):
    try:
        print(name, "->", th())
    except Exception as e:
        print(name, "RAISED", type(e).__name__, str(e)[:150])
H = xgi.Hypergraph([list(map(np.int64,[0,1,2])), list(map(np.int64,[2,3]))])
print([type(n) for n in H.nodes])
for f in (xgi.barycenter_spring_layout, xgi.weighted_barycenter_spring_layout, xgi.barycenter_kamada_kawai_layout):
    t(f.__name__, lambda: (lambda p: (len(p), sorted(p)))(f(H, seed=1) if "kamada" not in f.__name__ else f(H)))
    t(f.__name__+" phantom", lambda: (lambda r: (len(r[0]), sorted(r[1].nodes), r[1].number_of_nodes()))(f(H, return_phantom_graph=True)))
H2 = xgi.Hypergraph([[0.0,1.0,2.0],[2.0,3.0]])
for f in (xgi.barycenter_spring_layout,):
    t("float "+f.__name__+" phantom", lambda: (lambda r: (len(r[0]), sorted(r[1].nodes), r[1].number_of_nodes()))(f(H2, return_phantom_graph=True)))
H3 = xgi.Hypergraph([[True, 5, 6],[False, 5]])
t("bool phantom", lambda: (lambda r: (len(r[0]), list(r[1].nodes), r[1].number_of_nodes()))(xgi.barycenter_spring_layout(H3, return_phantom_graph=True)))
# draw with numpy-int nodes, default pos
t("draw np ints", lambda: (lambda r: (len(r[1][0].get_offsets()), len(r[1][1].get_segments()), len(r[1][2].get_paths())))(xgi.draw(H)))
t("spiral res 0 equidistant", lambda: xgi.spiral_layout(H, resolution=0, equidistant=True))
t("circular radius 0", lambda: xgi.circular_layout(H, radius=0))
t("random center tuple", lambda: len(xgi.random_layout(H, center=(1,2), seed=3)))
t("random center 3d", lambda: xgi.random_layout(H, center=(1,2,3), seed=3))
t("spring dim=3", lambda: {k: v.shape for k,v in xgi.barycenter_spring_layout(H, dim=3).items()})
t("pairwise k=0", lambda: xgi.pairwise_spring_layout(H, k=0, seed=1))
t("bary seed RandomState", lambda: len(xgi.barycenter_spring_layout(H, seed=np.random.RandomState(3))))
t("bipartite seed gen", lambda: len(xgi.bipartite_spring_layout(H, seed=np.random.default_rng(3))[0]))
