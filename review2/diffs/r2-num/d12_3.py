import xgi
H = xgi.Hypergraph([[0,1],[1,2],[3,4,5]])
print(xgi.multiorder_laplacian(H,[1,2],[1,1])[0])
