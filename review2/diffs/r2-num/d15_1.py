import xgi
H = xgi.Hypergraph([[0],[1],[0,1]])   # downward closed
print(xgi.face_edit_simpliciality(H, min_size=2), xgi.mean_face_edit_distance(H, min_size=2), "(statement: closed => 1)")
