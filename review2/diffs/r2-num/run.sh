#!/bin/bash
# usage: run.sh wt Cxx name "tests" [demo.py]
wt=/tmp/review2/r2-num/$1; prop=$2; name=$3; tests=$4; demo=$5
echo "=== $name ($(date +%H:%M), verif $(git -C /verif log --oneline | head -1 | cut -c1-7))"
git -C $wt diff > /tmp/review2/r2-num/$name.diff
if [ -n "$demo" ]; then
  echo "--- demo clean:"; PYTHONPATH=/repo /venv/bin/python -W ignore $demo 2>&1 | tail -6
  echo "--- demo changed:"; PYTHONPATH=$wt /venv/bin/python -W ignore $demo 2>&1 | tail -6
fi
echo "--- tests:"; (cd $wt && PYTHONPATH=$wt timeout 600 /venv/bin/python -m pytest -q -p no:cacheprovider $tests 2>&1 | grep -E "^FAILED|passed|failed" | cut -c1-150)
for p in $prop; do
for s in 0 5; do
  (cd /verif && XGI_REPO=$wt VERIF_SEED=$s timeout 900 ./check $p > /tmp/review2/r2-num/$name.$p.s$s.log 2>&1; echo "--- check $p seed=$s exit=$?")
  grep -h "^VIOLATION" /tmp/review2/r2-num/$name.$p.s$s.log | cut -c1-400 | head -5
done
done
