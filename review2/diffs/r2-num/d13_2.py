import xgi, numpy as np
S = xgi.SimplicialComplex([[0,1,2],[2,3]])
o0 = {e: 0 for e in S.edges}; o1 = dict(o0); o1[[e for e in S.edges if S.edges.members(e)=={2,3}][0]] = 1
La = xgi.hodge_laplacian(S, 1, o0); Lb = xgi.hodge_laplacian(S, 1, o1)
B1, B2 = xgi.boundary_matrix(S,1,o1), xgi.boundary_matrix(S,2,o1)
print("L1(o1) == B1^T B1 + B2 B2^T :", np.array_equal(Lb, B1.T@B1 + B2@B2.T), "| L1(o1) == L1(o0):", np.array_equal(La, Lb))
