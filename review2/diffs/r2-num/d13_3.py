import xgi, numpy as np
S = xgi.SimplicialComplex([[0, i] for i in range(1, 131)])
L0 = xgi.hodge_laplacian(S, order=0)
print("L0[0,0] =", L0[0,0], " min eigenvalue =", round(float(np.linalg.eigvalsh(L0.astype(float)).min()),3), " dim ker =", int(sum(abs(np.linalg.eigvalsh(L0.astype(float)))<1e-8)))
