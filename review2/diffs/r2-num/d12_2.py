import xgi
H = xgi.Hypergraph([[0,1]]*130 + [[1,2]])
print(xgi.adjacency_matrix(H, weighted=True, sparse=False)[0], xgi.adjacency_matrix(H, sparse=True).toarray()[0])
print(xgi.laplacian(H, order=1)[0], "row sum", xgi.laplacian(H, order=1)[0].sum())
