import xgi
H = xgi.Hypergraph([[0,1,2],[1,2,3]])
a = xgi.laplacian(H, order=2)
b = xgi.laplacian(H, order=2, rescale_per_node=True)
print(a[0], b[0], "(rescaled row must be half of the plain one)")
print(xgi.multiorder_laplacian(H,[2],[1],rescale_per_node=True)[0])
