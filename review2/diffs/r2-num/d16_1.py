import xgi
S = xgi.Hypergraph([["a","b"],["b","c","d"],["c","d","e"]])
H = xgi.shuffle_hyperedges(S, order=2, p=1.0, seed=3)
print(sorted(map(str, H.nodes)), H.edges.members())
