import xgi
H = xgi.Hypergraph([[0,1],[1,2],[0,2],[0,1,2]])   # closed above size 2
a = xgi.edit_simpliciality(H, min_size=3, exclude_min_size=False)
print(xgi.edit_simpliciality(H, min_size=2), xgi.face_edit_simpliciality(H, min_size=2), "(closed above size 2: both must be 1.0)")
