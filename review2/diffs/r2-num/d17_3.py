import xgi, numpy as np
S = xgi.Hypergraph([[0,1],[0,2],[1,2],[0,3],[1,3],[2,3,4]])       # dense in pairs: a redrawn pair often exists already
diff = 0
for s in range(30):
    a = xgi.shuffle_hyperedges(S, 1, 1.0, seed=s); np.random.rand(3)
    b = xgi.shuffle_hyperedges(S, 1, 1.0, seed=s)
    diff += a.edges.members() != b.edges.members()
print("seeds (of 30) whose two calls differ:", diff)
