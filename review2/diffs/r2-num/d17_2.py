import xgi
H = xgi.Hypergraph([[1,2,3],[3,4],[4,5,6,7],[7,8,1],[8,9],[9,10,11],[11,12,1],[2,12],[5,10],[6,11,3]])
a = xgi.spectral_clustering(H, 3, seed=1)
for s in range(2, 8): xgi.spectral_clustering(H, 3, seed=s)      # earlier calls to the same function
b = xgi.spectral_clustering(H, 3, seed=1)
print("same output for same seed:", a == b)
