import ast,sys
src=open(sys.argv[1]).read()
t=ast.parse(src)
for n in ast.walk(t):
    if isinstance(n,(ast.FunctionDef,ast.ClassDef,ast.Module)):
        if n.body and isinstance(n.body[0],ast.Expr) and isinstance(getattr(n.body[0],'value',None),ast.Constant) and isinstance(n.body[0].value.value,str):
            n.body=n.body[1:] or [ast.Pass()]
print(ast.unparse(t))
