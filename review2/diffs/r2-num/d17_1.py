import xgi, numpy as np
outs = []
for s in np.arange(3, 4):            # a seed taken from a numpy array: np.int64(3)
    a = xgi.random_simplicial_complex(8, [0.4, 0.3], seed=s); np.random.rand(5)
    b = xgi.random_simplicial_complex(8, [0.4, 0.3], seed=s)
    print(type(s).__name__, "same output for same seed:", a.edges.members() == b.edges.members())
