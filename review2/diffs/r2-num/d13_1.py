import xgi, numpy as np
S = xgi.SimplicialComplex([[0,1,2]])
o0 = {e: 0 for e in S.edges}; o1 = dict(o0); tri = [e for e in S.edges if len(S.edges.members(e))==3][0]; o1[tri] = 1
B2a = xgi.boundary_matrix(S, 2, o0); B2b = xgi.boundary_matrix(S, 2, o1)
print(B2a.ravel(), B2b.ravel(), "(second must be the negative of the first)")
o2 = dict(o0); o2[[e for e in S.edges if S.edges.members(e)=={0,1}][0]] = 1
print("d1 d2 =", (xgi.boundary_matrix(S,1,o2) @ xgi.boundary_matrix(S,2,o2)).ravel())
