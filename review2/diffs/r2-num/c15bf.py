import xgi, random, itertools, math, warnings
warnings.simplefilter('ignore')
def bf(edges, min_size, excl):
    E=set(map(frozenset,edges))
    maxi=[e for e in E if not any(e<f for f in E)]
    elig=[e for e in maxi if len(e)>=min_size+excl]
    miss=set()
    for e in elig:
        for r in range(min_size,len(e)):
            for t in itertools.combinations(e,r):
                if frozenset(t) not in E: miss.add(frozenset(t))
    sed=len(miss) if elig else None
    # mfed
    if elig:
        tot=0
        for e in elig:
            d=sum(1 for r in range(min_size,len(e)) for t in itertools.combinations(e,r) if frozenset(t) not in E)
            m=sum(math.comb(len(e),r) for r in range(max(min_size,1),len(e)))
            tot+= (d/m if m else d)
        mfed=tot/len(elig)
    else: mfed=0
    pot=[e for e in E if len(e)>=min_size+excl]
    sf=None
    if pot:
        sf=sum(1 for e in pot if all(frozenset(t) in E for r in range(min_size,len(e)+1) for t in itertools.combinations(e,r)))/len(pot)
    return sed,mfed,sf
rng=random.Random(3)
bad=0
for it in range(3000):
    n=rng.randint(2,8)
    labs=rng.choice([list(range(n)), [-3,10,2,7,100,-50,33,4][:n], list('abcdefgh')[:n], [0.5,1,2.5,3,-1,8,9,10][:n]])
    E=set()
    for _ in range(rng.randint(1,6)):
        E.add(frozenset(rng.sample(labs,rng.randint(1,min(n,rng.choice([3,4,6,8]))))))
    if rng.random()<0.5:
        # partially close
        for e in list(E):
            for r in range(1,len(e)):
                for t in itertools.combinations(e,r):
                    if rng.random()<0.6: E.add(frozenset(t))
    edges=[set(e) for e in E]; rng.shuffle(edges)
    H=xgi.Hypergraph(edges)
    for ms in (1,2,3,4,5,6):
        for ex in (True,False):
            sed,mfed,sf=bf(edges,ms,ex)
            a=xgi.simplicial_edit_distance(H,min_size=ms,exclude_min_size=ex,normalize=False)
            b=xgi.mean_face_edit_distance(H,min_size=ms,exclude_min_size=ex)
            c=xgi.simplicial_fraction(H,min_size=ms,exclude_min_size=ex)
            es=xgi.edit_simpliciality(H,min_size=ms,exclude_min_size=ex)
            fes=xgi.face_edit_simpliciality(H,min_size=ms,exclude_min_size=ex)
            def ne(x,y):
                if y is None: return not (isinstance(x,float) and math.isnan(x))
                return abs(x-y)>1e-9
            probs=[]
            if ne(a,sed): probs.append(('sed',a,sed))
            if abs(b-mfed)>1e-9: probs.append(('mfed',b,mfed))
            if ne(c,sf): probs.append(('sf',c,sf))
            for nm,v in (('es',es),('fes',fes),('sf',c)):
                if not (math.isnan(v) or -1e-12<=v<=1+1e-12): probs.append(('range',nm,v))
            if probs and bad<12:
                bad+=1; print(ms,ex,[sorted(e,key=str) for e in edges],probs)
print('done',bad)
