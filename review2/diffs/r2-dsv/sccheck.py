import itertools
def closed(S):
    sets=set(map(frozenset,S.edges.members()))
    for m in list(sets):
        for r in range(2,len(m)):
            for c in itertools.combinations(sorted(m,key=str),r):
                if frozenset(c) not in sets: return ("NOT CLOSED: face", c, "of", sorted(m,key=str), "missing")
    ms=S.edges.members()
    if len(set(map(frozenset,ms)))!=len(ms): return "DUPLICATE member sets"
    for n in S.nodes:
        for e in S.nodes.memberships(n):
            if e not in S.edges or n not in S.edges.members(e): return ("INCIDENCE", n, e)
    for s in sets:
        if not S.has_simplex(s): return ("has_simplex False for stored", sorted(s,key=str))
    return "ok"
