import xgi, warnings; warnings.simplefilter("ignore"); from integ import integ
D=xgi.DiHypergraph(); l=[1,2]
D.add_edges_from([(l,l)])
D.remove_node_from_edge(0,1,"in")
print(D.edges.dimembers(dtype=dict), D.nodes.dimemberships(1), integ(D))
