import xgi, warnings, uuid, itertools
import numpy as np
warnings.simplefilter("ignore")
def integ(D):
    bad=[]
    N,E=D._node,D._edge
    for e,m in E.items():
        for n in m["in"]:
            if n not in N: bad.append(("edge->absent node",e,n))
            elif e not in N[n]["out"]: bad.append(("tail w/o out-memb",e,n))
        for n in m["out"]:
            if n not in N: bad.append(("edge->absent node",e,n))
            elif e not in N[n]["in"]: bad.append(("head w/o in-memb",e,n))
    for n,m in N.items():
        for e in m["out"]:
            if e not in E: bad.append(("node->absent edge",n,e))
            elif n not in E[e]["in"]: bad.append(("out-memb w/o tail",n,e))
        for e in m["in"]:
            if e not in E: bad.append(("node->absent edge",n,e))
            elif n not in E[e]["out"]: bad.append(("in-memb w/o head",n,e))
    if set(D._node_attr)!=set(N): bad.append(("nattr",set(D._node_attr)^set(N)))
    if set(D._edge_attr)!=set(E): bad.append(("eattr",set(D._edge_attr)^set(E)))
    # public observers agree
    try:
        for e in D.edges:
            t,h=D.edges.dimembers(e)
            assert t==E[e]["in"] and h==E[e]["out"]
    except Exception as ex: bad.append(("observer",repr(ex)))
    return bad or "ok"
def t(name,f,init=None):
    D=xgi.DiHypergraph(init if init is not None else [([1,2],[2,3]),([3],[4])])
    try:
        r=f(D); print(name,"->",r,"|",D.edges.dimembers(dtype=dict),"|",integ(D))
    except Exception as e:
        print(name,"RAISES",type(e).__name__,str(e)[:60],"|",D.edges.dimembers(dtype=dict),"|",integ(D))
t("idx uuid",lambda D:D.add_edge(([1],[9]),idx=uuid.UUID(int=1)))
t("bulk idx uuid",lambda D:D.add_edges_from([(([1],[9]),uuid.UUID(int=1)),(([5],[6]),7)]))
t("dict idx uuid",lambda D:D.add_edges_from({uuid.UUID(int=1):([1],[9]),7:([5],[6])}))
t("a_n_t_e new uuid",lambda D:D.add_node_to_edge(uuid.UUID(int=1),5,"in"))
t("a_n_t_e unhashable node",lambda D:D.add_node_to_edge(9,[5],"in"))
t("a_n_t_e unhashable node existing edge",lambda D:D.add_node_to_edge(0,[5],"in"))
t("dict tuple members w/ sets",lambda D:D.add_edges_from({5:({1,2},{2})}))
t("dict same set obj",lambda D:(lambda s:(D.add_edges_from({5:(s,s)}),D.remove_node_from_edge(5,8,"in")))({8,9}))
t("dict frozenset members",lambda D:(D.add_edges_from({5:(frozenset({8,9}),frozenset({9}))}),D.add_node_to_edge(5,1,"in")))
t("fmt1 frozenset members",lambda D:(D.add_edges_from([(frozenset({8,9}),frozenset({9}))]),D.add_node_to_edge(2,1,"in")))
t("fmt1 str tail",lambda D:D.add_edges_from([("ab",[1])]))
t("fmt1 dict members",lambda D:D.add_edges_from([({1:0},{2:0})]))
t("fmt1 np",lambda D:D.add_edges_from([(np.array([1,2]),np.array([3]))]))
t("add_edge np",lambda D:D.add_edge((np.array([1,2]),np.array([3]))))
t("add_edge np 2d",lambda D:D.add_edge(np.array([[1,2],[3,4]])))
t("add_edge dictviews",lambda D:D.add_edge(({7:1}.keys(),{8:1}.keys())))
t("add_edge 3-tuple",lambda D:D.add_edge(([1],[2],[3])))
t("bulk 3 lists",lambda D:D.add_edges_from([([1],[2],[3])]))
t("bulk later short",lambda D:D.add_edges_from([([7],[8]),([9],)]))
t("bulk later nonhash",lambda D:D.add_edges_from([([7],[8]),([[9]],[1])]))
t("bulk later None",lambda D:D.add_edges_from([([7],[8]),([None],[1])]))
t("bulk fmt2 idx list",lambda D:D.add_edges_from([(([7],[8]),5),(([9],[1]),[1])]))
t("rm node weak both sides",lambda D:D.remove_node(2))
t("rm node weak keep empty",lambda D:D.remove_node(2,remove_empty=False),[([2],[2])])
t("rm node weak rm empty",lambda D:D.remove_node(2),[([2],[2]),([2],[])])
t("rm node strong",lambda D:D.remove_node(2,strong=True))
t("rm nodes view",lambda D:D.remove_nodes_from(D.nodes))
t("rm nodes dup",lambda D:D.remove_nodes_from([2,2,3]))
t("rm edges dup",lambda D:D.remove_edges_from([0,0]))
t("rm edges view",lambda D:D.remove_edges_from(D.edges))
t("rnfe both",lambda D:(D.remove_node_from_edge(0,2,"in"),D.remove_node_from_edge(0,2,"out")))
t("rnfe wrong side",lambda D:D.remove_node_from_edge(0,1,"out"))
t("rnfe empties",lambda D:(D.remove_node_from_edge(1,3,"in"),D.remove_node_from_edge(1,4,"out")))
t("bool/int nodes",lambda D:(D.add_edge(([True],[1.0])),D.remove_node(1)))
t("nan node",lambda D:(D.add_edge(([float('nan')],[1])),D.remove_node(float('nan'))))
nan=float('nan')
t("nan node same obj",lambda D:(D.add_edge(([nan],[1])),D.remove_node(nan)))
t("nan both",lambda D:(D.add_edge(([nan],[nan])),D.remove_node(nan)))
t("set_edge_attributes dict",lambda D:D.set_edge_attributes({0:{"a":1},99:{"a":2}}))
t("set_edge_attributes unhashable",lambda D:D.set_edge_attributes({0:1},name=[1]))
t("set_node_attributes missing",lambda D:D.set_node_attributes({99:{"a":2}}))
t("cleanup",lambda D:D.cleanup())
t("cleanup notinplace",lambda D:integ(D.cleanup(in_place=False)))
t("copy",lambda D:integ(D.copy()))
t("add_edge idx existing w/ auto",lambda D:(D.add_edge(([5],[6]),idx=0)))
t("add_edge idx float 2.0",lambda D:(D.add_edge(([5],[6]),idx=2.0),D.add_edge(([7],[8]))))
t("add_edge idx '2'",lambda D:(D.add_edge(([5],[6]),idx='2'),D.add_edge(([7],[8]))))
t("add_edge idx np.int64(2)",lambda D:(D.add_edge(([5],[6]),idx=np.int64(2)),D.add_edge(([7],[8]))))
t("add_edge idx True",lambda D:(D.add_edge(([5],[6]),idx=True)))
t("a_n_t_e idx bool",lambda D:(D.add_node_to_edge(True,9,"out")))
