import xgi, warnings; warnings.simplefilter("ignore"); from sccheck import closed
S=xgi.SimplicialComplex()
try: S.add_simplices_from({0:[1,2,3], 1:[4,5,6], 2:[7,None]})
except Exception as e: print("raises", type(e).__name__, e)
print(S.edges.members(dtype=dict), closed(S))
