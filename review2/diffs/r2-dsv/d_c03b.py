import xgi, warnings; warnings.simplefilter("ignore"); from sccheck import closed
S=xgi.SimplicialComplex([[1,2,3]])
S.has_simplex([1,2])
S.remove_node(3)
print(S.has_simplex([1,2,3]), S.edges.members())
S.add_simplices_from([[1,3]]); print(S.edges.members(), 3 in S.nodes)
