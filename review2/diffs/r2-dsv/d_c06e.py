import xgi
H=xgi.Hypergraph([[1,2],[3],[4]]); H.add_edge([])
ev=H.edges([0,1])
print(list(ev), list(ev.singletons()), list(ev.empty()), list(ev.filterby("size",1)))
