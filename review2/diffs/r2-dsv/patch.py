import sys
def rep(path, old, new, count=1):
    s=open(path).read()
    assert s.count(old)>=1, (path, "old not found", old[:60])
    if count==1: assert s.count(old)==1, (path,"ambiguous",s.count(old), old[:60])
    s=s.replace(old,new) if count!=1 else s.replace(old,new,1)
    open(path,"w").write(s)
