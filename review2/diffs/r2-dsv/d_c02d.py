import xgi, warnings; warnings.simplefilter("ignore"); from integ import integ
D=xgi.DiHypergraph([([1],[2])])
D.set_node_attributes({1:{"c":"r"},7:{"c":"g"}})
print(list(D.nodes), dict(D._node_attr), integ(D))
