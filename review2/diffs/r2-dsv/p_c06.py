from patch import rep
V="/tmp/review2/r2-dsv/wt-%s/xgi/core/views.py"
S="/tmp/review2/r2-dsv/wt-%s/xgi/stats/__init__.py"
# c06a: argsort through numpy
rep(S%"c06a", '''        d = self.asdict()
        return sorted(d, key=d.get, reverse=reverse)''','''        ids = list(self.view)
        arr = self.asnumpy()
        order = np.argsort(-arr) if reverse else np.argsort(arr)
        return [ids[i] for i in order]''')
# c06b: memoised _val, validated by the size of the network
rep(S%"c06b", '''    @property
    def _val(self):
        return self.func(self.net, self.view.ids, *self.args, **self.kwargs)

    def asdict(self):''','''    @property
    def _val(self):
        # recomputing every stat on every access is wasteful: keep the last result
        # for as long as the network has not grown or shrunk
        key = (self.net.num_nodes, self.net.num_edges, len(self.view))
        memo = self.__dict__.get("_memo")
        if memo is None or memo[0] != key:
            memo = (key, self.func(self.net, self.view.ids, *self.args, **self.kwargs))
            self.__dict__["_memo"] = memo
        return memo[1]

    def asdict(self):''')
# c06c: maximal: an empty edge is a subset of every edge, never maximal
rep(V%"c06c", '''        if strict:
            for i, e in edges.items():
                if containing(e) == {i}:
                    max_edges.add(i)''','''        if strict:
            for i, e in edges.items():
                if not e:
                    continue  # the empty edge is a subset of every other edge
                if containing(e) == {i}:
                    max_edges.add(i)''')
rep(V%"c06c", '''                if i not in max_edges:
                    if containing(e) == set(dups[frozenset(e)]):''','''                if i not in max_edges and e:  # (the empty edge is a subset of every other edge)
                    if containing(e) == set(dups[frozenset(e)]):''')
# c06d: filterby_attr: an ID is ignored when it does not HAVE the attribute (and no default is given)
rep(V%"c06d", '''        attrs = dispatch_stat(self._id_kind, self._net, self, "attrs")
        values = attrs(attr, missing).asdict()
''','''        records = self._id_attr
        values = {
            idx: records[idx].get(attr, missing)
            for idx in self
            if attr in records[idx] or missing is not None
        }
        ids = [idx for idx in self if idx in values]
''')
for m, op in (("eq","=="),("neq","!="),("lt","<"),("gt",">"),("leq","<="),("geq",">=")):
    rep(V%"c06d", f'''            bunch = [
                idx for idx in self if values[idx] is not None and values[idx] {op} val
            ]''', f'''            bunch = [idx for idx in ids if values[idx] {op} val]''')
rep(V%"c06d", '''            bunch = [
                idx
                for idx in self
                if values[idx] is not None and val[0] <= values[idx] <= val[1]
            ]''','''            bunch = [idx for idx in ids if val[0] <= values[idx] <= val[1]]''')
rep(V%"c06d", '''            bunch = [
                idx
                for idx in self
                if values[idx] is not None and mode(values[idx], val)
            ]''','''            bunch = [idx for idx in ids if mode(values[idx], val)]''')
# c06e: singletons / empty read the member table directly instead of building a stat
rep(V%"c06e", '''        return self.filterby("size", 1)''','''        return self.from_view(self, [e for e, m in self._id_dict.items() if len(m) == 1])''')
p=V%"c06e"; t=open(p).read(); t=t.replace('''        return self.filterby("size", 0)''','''        return self.from_view(self, [e for e, m in self._id_dict.items() if len(m) == 0])''',1); open(p,"w").write(t)
# c06f: from_view carries over everything the parent view knows
rep(V%"c06f", '''        newview = cls(None)
        newview._net = view._net
        newview._id_dict = view._id_dict
        newview._id_attr = view._id_attr
        newview._bi_id_dict = view._bi_id_dict
        newview._bi_id_attr = view._bi_id_attr
''','''        newview = cls(None)
        newview.__dict__.update(view.__dict__)  # same network, same tables
''')
# c06h: harmless rewrites
rep(V%"c06h", '''        newview = cls(None)
        newview._net = view._net
        newview._id_dict = view._id_dict
        newview._id_attr = view._id_attr
        newview._bi_id_dict = view._bi_id_dict
        newview._bi_id_attr = view._bi_id_attr
        all_ids = set(view._id_dict)
        if bunch is None:
            newview._ids = all_ids
        else:
            bunch = set(bunch)
            wrong = bunch - all_ids
            if wrong:
                raise IDNotFound(f"IDs {wrong} not in the hypergraph")
            newview._ids = [i for i in view._id_dict if i in bunch]
        return newview''','''        child = cls(None)
        table = view._id_dict
        child._bi_id_attr = view._bi_id_attr
        child._bi_id_dict = view._bi_id_dict
        child._id_attr = view._id_attr
        child._id_dict = table
        child._net = view._net
        known = set(table)
        if bunch is None:
            child._ids = known
            return child
        wanted = set(bunch)
        unknown = wanted.difference(known)
        if unknown:
            raise IDNotFound(f"The IDs {unknown} are not part of this network")
        kept = []
        for i in table:
            if i in wanted:
                kept.append(i)
        child._ids = kept
        return child''')
rep(V%"c06h", '''        sought = set(neighbors)
        found = [idx for idx in self._id_dict if self._bi_ids(idx) == sought]
        return self.__class__.from_view(self, bunch=found)''','''        target = frozenset(neighbors)
        hits = []
        for key in self._id_dict:
            if target == self._bi_ids(key):
                hits.append(key)
        return self.__class__.from_view(self, bunch=hits)''')
rep(S%"c06h", '''        val = self._val
        return {n: val[n] for n in self.view}''','''        computed = self._val  # evaluated once per call; a local, so nothing can go stale
        ordered = {}
        for key in self.view:
            ordered[key] = computed[key]
        return ordered''')
rep(S%"c06h", '''        val = self._val
        return [val[n] for n in self.view]''','''        return list(self.asdict().values())''')
rep(S%"c06h", '''            raise IDNotFound(f'ID "{idx}" not in this view')''','''            raise IDNotFound(f"this view does not contain the ID {idx!r}")''')
rep(S%"c06h", '''        d = self.asdict()
        return max(d, key=d.get)''','''        d = self.asdict()
        best, best_val = None, None
        for key, v in d.items():
            if best_val is None or v > best_val:
                best, best_val = key, v
        if not d:
            raise ValueError("max() arg is an empty sequence")
        return best''')
