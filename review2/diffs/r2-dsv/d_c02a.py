import xgi, warnings; warnings.simplefilter("ignore"); from integ import integ
D=xgi.DiHypergraph([([1],[1]),([1],[2])])
D.remove_node_from_edge(0,1,"in")
print(D.nodes.dimemberships(1), D.edges.dimembers(dtype=dict), integ(D))
