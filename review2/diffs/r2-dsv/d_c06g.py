import xgi
H=xgi.Hypergraph([[i,i+1] for i in range(70)]+[[0,1,2]])
got=list(H.nodes.filterby("degree",(1,2),"between")); d=H.nodes.degree.asdict()
print(len(got), len([n for n in H.nodes if 1<=d[n]<=2]))
