import xgi, warnings, uuid, itertools
warnings.simplefilter("ignore")
def closed(S):
    sets=set(map(frozenset,S.edges.members()))
    for m in list(sets):
        for r in range(2,len(m)):
            for c in itertools.combinations(m,r):
                if frozenset(c) not in sets: return ("NOT CLOSED", sorted(m,key=str), c)
    ms=S.edges.members()
    if len(set(map(frozenset,ms)))!=len(ms): return "DUP"
    for n in S.nodes:
        for e in S.nodes.memberships(n):
            if e not in S.edges or n not in S.edges.members(e): return "INCIDENCE"
    for e in S.edges:
        for n in S.edges.members(e):
            if n not in S.nodes or e not in S.nodes.memberships(n): return "INCIDENCE2"
    return "ok"
def t(name,f,init=None):
    S=xgi.SimplicialComplex(init if init is not None else [])
    try:
        r=f(S); print(name,"->",r,"|",S.edges.members(dtype=dict),"|",closed(S))
    except Exception as e:
        print(name,"RAISES",type(e).__name__,str(e)[:60],"|",S.edges.members(dtype=dict),"|",closed(S))
t("idx=bytes",lambda S:S.add_simplex([1,2,3],idx=b"x"))
t("idx=uuid",lambda S:S.add_simplex([1,2,3],idx=uuid.UUID(int=5)))
t("idx=frozenset",lambda S:S.add_simplex([1,2,3],idx=frozenset({9})))
t("bulk idx=uuid",lambda S:S.add_simplices_from([([1,2,3],uuid.UUID(int=5))]))
t("dict idx=uuid",lambda S:S.add_simplices_from({uuid.UUID(int=5):[1,2,3]}))
t("idx=nan",lambda S:S.add_simplex([1,2,3],idx=float("nan")))
t("idx=inf",lambda S:S.add_simplex([1,2,3],idx=float("inf")))
t("idx=True",lambda S:S.add_simplex([1,2,3],idx=True))
t("idx=2.5",lambda S:S.add_simplex([1,2,3],idx=2.5))
t("idx=tuple",lambda S:S.add_simplex([1,2,3],idx=(1,2)))
t("idx='1'",lambda S:S.add_simplex([1,2,3],idx='1'))
import numpy as np
t("idx=np.int64",lambda S:S.add_simplex([1,2,3],idx=np.int64(0)))
t("members np array",lambda S:S.add_simplex(np.array([1,2,3])))
t("bulk members np array",lambda S:S.add_simplices_from([np.array([1,2,3])]))
t("bulk np 2d",lambda S:S.add_simplices_from(np.array([[1,2,3],[3,4,5]])))
t("bulk tuples of sets",lambda S:S.add_simplices_from([{1,2,3},{3,4}]))
t("bulk frozenset first w/ str",lambda S:S.add_simplices_from([frozenset({"a","b","c"})]))
t("bulk gen",lambda S:S.add_simplices_from(iter([[1,2,3]])))
t("bulk str nodes mixed",lambda S:S.add_simplices_from([["a",1,2]]))
t("bulk str nodes mixed2",lambda S:S.add_simplices_from([[1,"a",2]]))
t("bulk 2 str+int",lambda S:S.add_simplices_from([["a",1]]))
t("bulk 3 str,int,dict?",lambda S:S.add_simplices_from([["ab",1,2]]))
t("maxorder larger",lambda S:S.add_simplices_from([[1,2,3]],max_order=7))
t("maxorder float",lambda S:S.add_simplices_from([[1,2,3,4]],max_order=1.5))
t("maxorder True",lambda S:S.add_simplices_from([[1,2,3,4]],max_order=True))
t("maxorder -1",lambda S:S.add_simplices_from([[1,2,3,4]],max_order=-1))
t("dup members maxorder",lambda S:S.add_simplices_from([[1,1,2]],max_order=1))
t("dup members maxorder2",lambda S:S.add_simplices_from([[1,1,2,3]],max_order=2))
t("dup members add_simplex",lambda S:S.add_simplex([1,1,2,3]))
t("remove overlapping",lambda S:S.remove_simplex_ids_from([1,0,2]),[[1,2,3],[3,4]])
t("remove ids set",lambda S:S.remove_simplex_ids_from({0,1}),[[1,2,3],[3,4]])
t("remove ids gen",lambda S:S.remove_simplex_ids_from(e for e in list(S.edges)),[[1,2,3],[3,4]])
t("remove ids view",lambda S:S.remove_simplex_ids_from(S.edges),[[1,2,3],[3,4]])
t("remove nodes view",lambda S:S.remove_nodes_from(S.nodes),[[1,2,3],[3,4]])
t("remove_node missing",lambda S:S.remove_node(77),[[1,2,3],[3,4]])
t("has str",lambda S:(S.has_simplex("ab"),S.has_simplex(("a","b")),S.has_simplex(["a","b","a"])),[["a","b"]])
t("has int",lambda S:S.has_simplex(1),[[1,2]])
t("has 1.0",lambda S:(S.has_simplex([1.0,2]),S.has_simplex([True,2])),[[1,2]])
t("has empty",lambda S:(S.has_simplex([]),S.has_simplex(set())),[[1,2]])
