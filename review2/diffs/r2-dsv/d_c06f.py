import xgi
H=xgi.Hypergraph([[1,2,3],[3,4]])
H.nodes.degree.asdict()
print(H.nodes([3,4]).degree.asdict(), H.nodes.filterby("degree",2).degree.aslist())
