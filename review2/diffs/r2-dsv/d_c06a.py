import xgi
H=xgi.Hypergraph([[i, i+1] for i in range(40)])   # 41 nodes; degrees 1,2,2,...,2,1
got=H.nodes.degree.argsort(); d=H.nodes.degree.asdict()
print(got == sorted(d, key=d.get), got[:6])    # docstring: ties keep the order of the IDs
