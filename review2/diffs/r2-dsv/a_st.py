import xgi, warnings, random, inspect, numpy as np
warnings.simplefilter("ignore")
from xgi.stats import nodestats, edgestats, dinodestats, diedgestats
def names(mod): return [n for n,f in inspect.getmembers(mod,inspect.isfunction) if f.__module__==mod.__name__ and not n.startswith("_")]
print("node",names(nodestats)); print("edge",names(edgestats)); print("dinode",names(dinodestats)); print("diedge",names(diedgestats))
def same(a,b):
    try:
        if isinstance(a,float) or isinstance(b,float): return abs(a-b)<1e-9 or (a!=a and b!=b)
        return a==b
    except Exception: return False
UNST={"h_eigenvector_centrality","clique_eigenvector_centrality","z_eigenvector_centrality"}
def chk(view, mod, label):
    ids=list(view)
    for nm in names(mod):
        if nm in UNST or nm in ("attrs",): continue
        try:
            st=getattr(view,nm); d=st.asdict()
        except Exception as e:
            print(label,nm,"asdict RAISES",type(e).__name__,str(e)[:70]); continue
        if list(d)!=ids: print(label,nm,"asdict order",list(d),ids)
        l=st.aslist(); 
        if not all(same(x,d[i]) for x,i in zip(l,ids)): print(label,nm,"aslist differs")
        for i in ids:
            try:
                v=st[i]
                if not same(v,d[i]): print(label,nm,"stat[i] != asdict[i]",i,v,d[i])
            except Exception as e: print(label,nm,"getitem RAISES",i,type(e).__name__,str(e)[:60]); break
        # restricted view
        if len(ids)>=2:
            b=[ids[-1],ids[0]]
            try:
                fd=getattr(view(b),nm).asdict()
                if list(fd)!=[i for i in ids if i in b]: print(label,nm,"restricted order",list(fd))
                for i in fd:
                    if not same(fd[i],d[i]): print(label,nm,"restricted differs",i,fd[i],d[i])
            except Exception as e: print(label,nm,"restricted RAISES",type(e).__name__,str(e)[:60])
        try:
            p=st.aspandas()
            if list(p.index)!=ids: print(label,nm,"pandas index",list(p.index),ids)
        except Exception as e: print(label,nm,"aspandas RAISES",type(e).__name__,str(e)[:60])
random.seed(1)
for trial in range(6):
    nodes=random.sample(range(10),6)
    H=xgi.Hypergraph()
    H.add_nodes_from(nodes)
    for _ in range(random.randint(2,6)):
        H.add_edge(random.sample(nodes,random.randint(1,4)))
    if trial%2: H.add_edge([]); 
    chk(H.nodes,nodestats,f"H{trial}.nodes"); chk(H.edges,edgestats,f"H{trial}.edges")
    D=xgi.DiHypergraph(); D.add_nodes_from(nodes)
    for _ in range(random.randint(2,5)):
        D.add_edge((random.sample(nodes,random.randint(0,3)),random.sample(nodes,random.randint(0,3))))
    chk(D.nodes,dinodestats,f"D{trial}.nodes"); chk(D.edges,diedgestats,f"D{trial}.edges")
    S=xgi.SimplicialComplex(); S.add_nodes_from(nodes)
    for _ in range(2): S.add_simplex(random.sample(nodes,random.randint(2,4)))
    chk(S.nodes,nodestats,f"S{trial}.nodes"); chk(S.edges,edgestats,f"S{trial}.edges")
