import xgi, warnings; warnings.simplefilter("ignore"); from integ import integ
D=xgi.DiHypergraph(); s={1,2}
D.add_edges_from([(s,[3]),(s,[4])])
D.remove_node_from_edge(0,1,"in")
print(D.edges.dimembers(dtype=dict), D.nodes.dimemberships(1), integ(D))
