import xgi, warnings; warnings.simplefilter("ignore"); from integ import integ
D=xgi.DiHypergraph()
D.add_edges_from([(([1],[2]),"e"),(([3],[4]),"e")])
print(D.edges.dimembers(dtype=dict), D.nodes.dimemberships(), integ(D))
