import xgi, warnings
warnings.simplefilter("ignore")
def closed(S):
    import itertools
    sets=set(map(frozenset,S.edges.members()))
    for m in list(sets):
        for r in range(2,len(m)):
            for c in itertools.combinations(m,r):
                if frozenset(c) not in sets: return False, (sorted(m), c)
    ms=S.edges.members()
    if len(set(map(frozenset,ms)))!=len(ms): return False,"dup"
    return True,None
def t(name,f):
    S=xgi.SimplicialComplex([[1,2,3],[3,4]])
    try:
        r=f(S); print(name,"->",r,"| edges",S.edges.members(dtype=dict),"| closed",closed(S))
    except Exception as e:
        print(name,"RAISES",type(e).__name__,e,"| closed",closed(S))
t("add_node_to_edge",lambda S:S.add_node_to_edge(0,4))
t("remove_node_from_edge",lambda S:S.remove_node_from_edge(0,1))
t("merge_duplicate_edges",lambda S:S.merge_duplicate_edges())
t("double_edge_swap",lambda S:S.double_edge_swap(1,4,0,[e for e in S.edges if S.edges.members(e)=={3,4}][0]))
t("random_edge_shuffle",lambda S:S.random_edge_shuffle())
t("update",lambda S:S.update(edges=[[5,6,7]]))
t("lshift",lambda S:S<<xgi.SimplicialComplex([[7,8,9]]))
t("lshift H",lambda S:S<<xgi.Hypergraph([[7,8,9]]))
t("clear_edges",lambda S:S.clear_edges())
t("set_edge_attributes",lambda S:S.set_edge_attributes(1,name="w"))
t("add_edge dup",lambda S:S.add_edge([1,2]))
t("ilshift?",lambda S:S.__ilshift__(xgi.Hypergraph([[7,8,9]])) if hasattr(S,"__ilshift__") else "n/a")
print([m for m in dir(xgi.SimplicialComplex) if not m.startswith("_")])
