import xgi, warnings
warnings.simplefilter("ignore")
H=xgi.Hypergraph([[1,2,3],[1,2],[1,2],[4],[4],[5,6],[1,2,3]])
H.add_node(9); H.add_edge([])
ev=H.edges([0,1,3]); nv=H.nodes([1,2,4,9])
print("ev",list(ev),"nv",list(nv))
for name,f in [("ev.duplicates",lambda:ev.duplicates()),("ev.lookup([1,2])",lambda:ev.lookup([1,2])),("ev.lookup([4])",lambda:ev.lookup([4])),
   ("ev.singletons",lambda:ev.singletons()),("ev.empty",lambda:ev.empty()),("ev.maximal",lambda:ev.maximal()),("ev.maximal strict",lambda:ev.maximal(strict=True)),
   ("nv.isolates",lambda:nv.isolates()),("nv.isolates(ign)",lambda:nv.isolates(ignore_singletons=True)),("nv.duplicates",lambda:nv.duplicates()),("nv.lookup",lambda:nv.lookup([3,4])),
   ("nv.neighbors(1)",lambda:nv.neighbors(1)),("ev.neighbors(0)",lambda:ev.neighbors(0)),
   ("nv([5])",lambda:nv([5])),("ev.filterby(size,2)",lambda:ev.filterby("size",2)),
   ("nv.filterby(H.nodes.degree,...)",lambda:nv.filterby(H.nodes.degree,1)),
   ("H.nodes.filterby(nv.degree,...)",lambda:H.nodes.filterby(nv.degree,1)),
   ]:
    try: print(name,"->",f())
    except Exception as e: print(name,"RAISES",type(e).__name__,str(e)[:80])
