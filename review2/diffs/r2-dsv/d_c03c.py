import xgi, warnings; warnings.simplefilter("ignore")
S=xgi.SimplicialComplex([[1],[1,2]])
S.remove_simplex_id(0)
print(S.edges.members(dtype=dict))   # {1,2} contains {1}: must go too
