from patch import rep
W="/tmp/review2/r2-dsv/wt-%s/xgi/core/simplicialcomplex.py"
U="/tmp/review2/r2-dsv/wt-%s/xgi/utils/utilities.py"
# c03a: update_uid_counter "simplified": only genuine ints move the counter
rep(U%"c03a", '''    if (
        not isinstance(idx, str)
        and not isinstance(idx, tuple)
        and float(idx).is_integer()
        and uid <= idx
    ):''','''    if isinstance(idx, int) and uid <= idx:''')
# c03b: has_simplex answers from a cached set of member sets; the helpers invalidate it
rep(W%"c03b", '''        return frozenset(simplex) in self._edge.values()''','''        cache = self.__dict__.get("_simplex_sets")
        if cache is None:
            cache = self.__dict__["_simplex_sets"] = set(self._edge.values())
        return frozenset(simplex) in cache''')
rep(W%"c03b", '''        self._edge[idx] = set()
        for node in members:''','''        self.__dict__["_simplex_sets"] = None
        self._edge[idx] = set()
        for node in members:''')
rep(W%"c03b", '''        idx = next(self._edge_uid)
        self._edge[idx] = frozenset(members)
''','''        idx = next(self._edge_uid)
        self.__dict__["_simplex_sets"] = None
        self._edge[idx] = frozenset(members)
''')
rep(W%"c03b", '''        for node in self.edges.members(idx):
            self._node[node].remove(idx)
        del self._edge[idx]''','''        self.__dict__["_simplex_sets"] = None
        for node in self.edges.members(idx):
            self._node[node].remove(idx)
        del self._edge[idx]''')
rep(W%"c03b", '''            self._edge[idx] = member_set

            for n in members:''','''            self.__dict__["_simplex_sets"] = None
            self._edge[idx] = member_set

            for n in members:''')
# c03c: canonical (sorted) face tuples so that set(faces) removes more repetitions
rep(W%"c03c", '''        size = len(simplex)
        faces = []
        if all:''','''        simplex = sorted(simplex)  # canonical tuples: (1, 2) and (2, 1) are the same face
        size = len(simplex)
        faces = []
        if all:''')
# c03d: dict format: counter moved once, after the loop
rep(W%"c03d", '''                self._add_simplex(member_set, idx)

                update_uid_counter(self, idx)

                # store subfaces
                faces += self._subfaces(members)

            return''','''                self._add_simplex(member_set, idx)
                added.append(idx)

                # store subfaces
                faces += self._subfaces(members)

            # set self._edge_uid correctly (once: the largest integer ID decides)
            for idx in added:
                update_uid_counter(self, idx)
            return''')
rep(W%"c03d", '''        if isinstance(ebunch_to_add, dict):
            for idx, members in ebunch_to_add.items():''','''        if isinstance(ebunch_to_add, dict):
            added = []
            for idx, members in ebunch_to_add.items():''')
# c03h: harmless rewrites
rep(W%"c03h", '''        return [id_ for id_, s in self._edge.items() if simplex < s]''','''        if not simplex:
            return [id_ for id_, s in self._edge.items() if simplex < s]
        # a proper superset contains every node of `simplex`: look only at the simplices of one of them
        anchor = next(iter(simplex))
        cands = self._node[anchor]
        return [id_ for id_ in self._edge if id_ in cands and simplex < self._edge[id_]]''')
rep(W%"c03h", '''            faces = set(faces)  # get unique subfaces
            for members in faces:
                # check that it does not exist yet (based on members, not ID)
                if not members or self.has_simplex(members):
                    continue

                self._add_face(members)''','''            pending = set(faces)  # get unique subfaces
            for face in pending:
                # check that it does not exist yet (based on members, not ID)
                if len(face) == 0:
                    continue
                if not self.has_simplex(face):
                    self._add_face(face)''')
rep(W%"c03h", '''            raise XGIError("The simplex cannot be cast to a frozenset.")''','''            raise XGIError("The members of a simplex must be hashable node IDs.")''')
rep(W%"c03h", '''        edge_neighbors = self._node[n]
        del self._node[n]
        del self._node_attr[n]

        for e in edge_neighbors:
            node_neighbors = self._edge[e]
            del self._edge[e]
            del self._edge_attr[e]
            for node in node_neighbors.difference({n}):
                self._node[node].remove(e)''','''        doomed = self._node[n]
        del self._node_attr[n]
        del self._node[n]

        for sid in doomed:
            others = [m for m in self._edge[sid] if m != n]
            del self._edge_attr[sid]
            del self._edge[sid]
            for m in others:
                self._node[m].remove(sid)''')
