import xgi
H=xgi.Hypergraph([[1,2,3],[1,2],[1,2],[4],[5,6]]); H.add_node(9)
nv=H.nodes([1,2]); ev=H.edges([0])
print(list(nv.isolates()), list(nv.isolates(ignore_singletons=True)))
print(list(ev.duplicates()), list(ev.lookup([4])), list(ev.maximal()), list(ev.singletons()))
D=xgi.DiHypergraph([([1],[2]),([1],[2]),([3],[4])]); D.add_node(9)
print(list(D.edges([2]).duplicates()), list(D.edges([2]).lookup([1,2])), list(D.nodes([1]).isolates()), list(D.edges([2]).empty()))
S=xgi.SimplicialComplex([[1,2,3]])
print(list(S.edges([1]).maximal()))
