import xgi, warnings, numpy as np; warnings.simplefilter("ignore"); from sccheck import closed
S=xgi.SimplicialComplex()
S.add_simplex([1,2,3], idx=np.int64(1))
print(S.edges.members(dtype=dict), S.has_simplex([1,2,3]), closed(S))
