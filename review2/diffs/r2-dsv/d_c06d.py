import xgi
H=xgi.Hypergraph(); H.add_node(1,c="r"); H.add_node(2,c=None); H.add_node(3)
print(list(H.nodes.filterby_attr("c","r","neq")), list(H.nodes.filterby_attr("c","g","neq",missing="g")))
