import xgi, warnings, random
warnings.simplefilter("ignore")
def mk(cls):
    if cls is xgi.DiHypergraph: return cls([([1,2],[3]),([1,2],[3]),([4],[5]),([7],[8])])
    return cls([[1,2,3],[1,2,3],[4,5],[7,8],[3,4]])
def fresh_ok(H,nv,ev,deg,siz,label):
    ok = list(nv)==list(H._node) and list(ev)==list(H._edge)
    try:
        d=deg.asdict(); s=siz.asdict()
        fd=type(nv)(H).degree.asdict(); fs=type(ev)(H).size.asdict()
        ok = ok and d==fd and s==fs and list(d)==list(H._node)
    except Exception as e: ok=f"RAISES {type(e).__name__} {e}"
    print(label, ok)
muts={
 "cleanup":lambda H:H.cleanup(),
 "merge_dup":lambda H:H.merge_duplicate_edges() if hasattr(H,"merge_duplicate_edges") else None,
 "clear":lambda H:H.clear(),
 "clear_edges":lambda H:H.clear_edges() if hasattr(H,"clear_edges") else None,
 "relabel":lambda H:xgi.convert_labels_to_integers(H,in_place=True),
 "lcc":lambda H:xgi.largest_connected_hypergraph(H,in_place=True) if not isinstance(H,xgi.DiHypergraph) else None,
 "shuffle":lambda H:H.random_edge_shuffle() if type(H) is xgi.Hypergraph else None,
 "update":lambda H:H.update(edges=[[10,11]],nodes=[12]) if hasattr(H,"update") and not isinstance(H,xgi.DiHypergraph) else None,
 "ilshift":lambda H:H.__ilshift__(xgi.Hypergraph([[20,21]])) if hasattr(H,"__ilshift__") else None,
 "setstate":lambda H:H.__setstate__(mk(type(H)).__getstate__()),
 "init":lambda H:H.__init__([[1,2]] if not isinstance(H,xgi.DiHypergraph) else [([1],[2])]),
}
for cls in (xgi.Hypergraph,xgi.SimplicialComplex,xgi.DiHypergraph):
    for nm,m in muts.items():
        H=mk(cls); nv,ev=H.nodes,H.edges; deg=nv.degree; siz=ev.size
        try: m(H)
        except Exception as e: print(cls.__name__,nm,"mutator RAISES",type(e).__name__,str(e)[:50]); continue
        fresh_ok(H,nv,ev,deg,siz,f"{cls.__name__}.{nm}")
        if not (H.nodes is nv and H.edges is ev): print("   H.nodes/H.edges replaced:", H.nodes is nv, H.edges is ev)
