import xgi
H=xgi.Hypergraph([[1,2,3],[3,4]])
deg=H.nodes.degree; print(deg.asdict())
H.remove_node_from_edge(0,1); H.add_node_to_edge(1,2)     # same counts, other incidence
print(deg.asdict(), {n: len(H.nodes.memberships(n)) for n in H.nodes})
col=H.nodes.attrs("c"); print(col.asdict()); H.set_node_attributes({1:"r"}, name="c"); print(col.asdict())
