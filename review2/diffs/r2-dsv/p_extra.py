from patch import rep
rep("/tmp/review2/r2-dsv/wt-c02e/xgi/core/dihypergraph.py", '''                    tail_set, head_set = set(tail), set(head)
                except TypeError as e:
                    raise XGIError("Invalid ebunch format") from e
                if None in tail_set or None in head_set:
                    raise XGIError("None cannot be a node or edge")
                self._edge[idx] = {"in": tail_set, "out": head_set}

                for node in tail:''','''                    # members that already are sets need no second hashing pass
                    tail_set = tail if isinstance(tail, set) else set(tail)
                    head_set = head if isinstance(head, set) else set(head)
                except TypeError as e:
                    raise XGIError("Invalid ebunch format") from e
                if None in tail_set or None in head_set:
                    raise XGIError("None cannot be a node or edge")
                self._edge[idx] = {"in": tail_set, "out": head_set}

                for node in list(tail):''')
rep("/tmp/review2/r2-dsv/wt-c06g/xgi/core/views.py", '''        values = stat.asdict()
        if mode == "eq":
            bunch = [idx for idx in self if values[idx] == val]''','''        values = stat.asdict()
        if len(values) > 64 and mode in ("eq", "neq", "lt", "gt", "leq", "geq", "between"):
            # large views: compare all values at once
            import numpy as np

            ids = list(self)
            arr = np.array([values[idx] for idx in ids])
            if arr.dtype.kind in "iuf":
                if mode == "between":
                    mask = (arr >= val[0]) & (arr < val[1])
                else:
                    op = {"eq": np.equal, "neq": np.not_equal, "lt": np.less,
                          "gt": np.greater, "leq": np.less_equal, "geq": np.greater_equal}[mode]
                    mask = op(arr, val)
                bunch = [idx for idx, keep in zip(ids, mask) if keep]
                return type(self).from_view(self, bunch)
        if mode == "eq":
            bunch = [idx for idx in self if values[idx] == val]''')
