import xgi, random; from sccheck import closed
random.seed(0)
S=xgi.SimplicialComplex([[1,2,3],[4,5]])
S.random_edge_shuffle(0,1)
print(S.edges.members(dtype=dict), closed(S))
