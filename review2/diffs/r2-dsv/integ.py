def integ(D):
    bad=[]
    N,E=D._node,D._edge
    for e,m in E.items():
        for n in m["in"]:
            if n not in N or e not in N[n]["out"]: bad.append(("tail-member without out-membership",e,n))
        for n in m["out"]:
            if n not in N or e not in N[n]["in"]: bad.append(("head-member without in-membership",e,n))
    for n,m in N.items():
        for e in m["out"]:
            if e not in E: bad.append(("node refers to absent edge",n,e))
            elif n not in E[e]["in"]: bad.append(("out-membership without tail-member",n,e))
        for e in m["in"]:
            if e not in E: bad.append(("node refers to absent edge",n,e))
            elif n not in E[e]["out"]: bad.append(("in-membership without head-member",n,e))
    if set(D._node_attr)!=set(N): bad.append(("node attr records != nodes",set(D._node_attr)^set(N)))
    if set(D._edge_attr)!=set(E): bad.append(("edge attr records != edges",set(D._edge_attr)^set(E)))
    return bad or "ok"
