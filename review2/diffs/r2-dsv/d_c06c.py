import xgi
H=xgi.Hypergraph(); H.add_edge([]); H.add_edge([])
print(list(H.edges.maximal()), list(H.edges.maximal(strict=True)))
H2=xgi.Hypergraph(); H2.add_edge([])
print(list(H2.edges.maximal()), list(H2.edges.maximal(strict=True)))
