from patch import rep
W="/tmp/review2/r2-dsv/wt-%s/xgi/core/dihypergraph.py"
# c02a: remove_node_from_edge fast path: last member -> drop the edge directly
rep(W%"c02a", '''        if edge not in self._edge:
            raise XGIError(f"Edge {edge} not in the hypergraph")
        if node not in self._node:
            raise XGIError(f"Node {node} not in the hypergraph")
        elif node not in self._edge[edge][ed]:
            raise XGIError(f"{ed}-edge {edge} does not contain node {node}")
        else:
            self._edge[edge][ed].remove(node)
''','''        if edge not in self._edge:
            raise XGIError(f"Edge {edge} not in the hypergraph")
        if node not in self._node:
            raise XGIError(f"Node {node} not in the hypergraph")
        elif node not in self._edge[edge][ed]:
            raise XGIError(f"{ed}-edge {edge} does not contain node {node}")
        elif remove_empty and self._edge[edge]["in"] | self._edge[edge]["out"] == {node}:
            # fast path: `node` is the last member, the edge disappears as a whole
            self._node[node][nd].remove(edge)
            del self._edge[edge]
            del self._edge_attr[edge]
            return
        else:
            self._edge[edge][ed].remove(node)
''')
# c02b: formats 1-4: same object given as tail and head -> build the set once
rep(W%"c02b", '''                    tail_set, head_set = set(tail), set(head)
                except TypeError as e:
                    raise XGIError("Invalid ebunch format") from e
                if None in tail_set or None in head_set:
                    raise XGIError("None cannot be a node or edge")
                self._edge[idx] = {"in": tail_set, "out": head_set}

                for node in tail:''','''                    tail_set = set(tail)
                    # avoid hashing the members twice when both sides are the same
                    head_set = tail_set if head is tail else set(head)
                except TypeError as e:
                    raise XGIError("Invalid ebunch format") from e
                if None in tail_set or None in head_set:
                    raise XGIError("None cannot be a node or edge")
                self._edge[idx] = {"in": tail_set, "out": head_set}

                for node in tail:''')
# c02c: formats 1-4: the existing-ID test uses a snapshot of the IDs taken before the loop
rep(W%"c02c", '''        # now we may iterate over the rest
        e = first_edge
        while True:''','''        # now we may iterate over the rest
        e = first_edge
        existing_ids = set(self._edge)  # one lookup table instead of a keys() view per edge
        while True:''')
rep(W%"c02c", '''            if idx in self._edge.keys():  # check that uid is not present yet
                warn(f"uid {idx} already exists, cannot add edge {members}.")
            else:
                try:
                    tail = members[0]''','''            if idx in existing_ids:  # check that uid is not present yet
                warn(f"uid {idx} already exists, cannot add edge {members}.")
            else:
                try:
                    tail = members[0]''')
# c02d: set_node_attributes dict-of-dict: setdefault instead of try/except
rep(W%"c02d", '''                for n, d in values.items():
                    try:
                        self._node_attr[n].update(d)
                    except IDNotFound:
                        warn(f"Node {n} does not exist!")
            except (TypeError, ValueError, AttributeError):''','''                for n, d in values.items():
                    if n not in self._node:
                        warn(f"Node {n} does not exist!")
                    self._node_attr.setdefault(n, self._node_attr_dict_factory()).update(d)
            except (TypeError, ValueError, AttributeError):''')
# c02h: harmless rewrites
rep(W%"c02h", '''        edge = self._edge[idx].copy()

        for node in edge["in"]:
            self._node[node]["out"].remove(idx)
        for node in edge["out"]:
            self._node[node]["in"].remove(idx)

        del self._edge[idx]
        del self._edge_attr[idx]

    def remove_edges_from(self, ebunch):''','''        sides = dict(self._edge[idx])
        heads, tails = sides["out"], sides["in"]

        for v in heads:
            self._node[v]["in"].remove(idx)
        for u in tails:
            self._node[u]["out"].remove(idx)

        del self._edge_attr[idx]
        del self._edge[idx]

    def remove_edges_from(self, ebunch):''')
rep(W%"c02h", '''            raise XGIError("Directed edge must be a list or tuple!")
        if None in set(tail).union(head):
            raise XGIError("None cannot be a node or edge")''','''            raise XGIError("A directed edge must be given as a (tail, head) list or tuple.")
        every_member = set(head) | set(tail)
        if None in every_member:
            raise XGIError("None is not a valid node ID")''')
