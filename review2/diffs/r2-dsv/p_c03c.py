from patch import rep
W="/tmp/review2/r2-dsv/wt-%s/xgi/core/simplicialcomplex.py"
rep(W%"c03c", '''            # Remove all simplices that contain the given simplex
            supfaces_ids = self._supfaces_id(self._edge[idx])
            for sup_id in supfaces_ids:''','''            # Remove all simplices that contain the given simplex
            # (a 0-simplex is only a marked node: nothing is built on top of it)
            simplex = self._edge[idx]
            supfaces_ids = self._supfaces_id(simplex) if len(simplex) > 1 else []
            for sup_id in supfaces_ids:''')
