import sys, random, json, warnings
sys.path.insert(0, "/verif")
warnings.simplefilter("ignore")
from harness import c09_measures as CM
from harness.props import c09 as P
from harness.core import enc_id, dec_id
import xgi
rng = random.Random(int(sys.argv[1]) if len(sys.argv) > 1 else 1)
def case_of(nodes, edges):
    return {"nodes":[enc_id(n) for n in nodes], "edges":[[enc_id(e), [enc_id(x) for x in ms]] for e, ms in edges], "nattr":[], "eattr":[]}
def run(tag, nodes, edges, relabels=("id","ints","perm","str")):
    case = case_of(nodes, edges)
    H = P.build_orig(case)
    skip0 = P.base_skip_flags(case)
    base = CM.evaluate(H, {n:n for n in H.nodes}, {e:e for e in H.edges}, skip_flags=skip0)
    bad = {}
    for rl in relabels:
        for nf in (True, False):
            var = P.make_variant(rng, nodes, edges, rl, nf)
            H2, inv_n, inv_e = P.build_variant(var, case)
            res = CM.evaluate(H2, inv_n, inv_e, skip_flags=skip0 | (set() if rl=="id" else {"order-only"}))
            for lab, b in res.items():
                if lab in base and not CM.same(base[lab], b, CM.BY_LABEL[lab][3]):
                    bad.setdefault(lab, (rl, CM.first_diff(base[lab], b, CM.BY_LABEL[lab][3])[:200], case, P.variant_net(var, case)))
    for lab, (rl, d, c, v) in bad.items():
        print(tag, "DIFF", lab, rl, d)
        print("   orig", json.dumps(c)[:400]); print("   var ", json.dumps(v)[:400])
    return bad
mode = sys.argv[2] if len(sys.argv) > 2 else "empty"
for it in range(int(sys.argv[3]) if len(sys.argv) > 3 else 40):
    if mode == "empty":
        k = rng.randint(2, 6); nodes = list(range(k)); m = rng.randint(1, 5)
        edges = [(j, rng.sample(nodes, rng.randint(0, min(k, 3)))) for j in range(m)]
        if all(ms for _, ms in edges): edges.append((m, []))
    elif mode == "big":
        k = rng.randint(14, 30); nodes = list(range(k)); m = rng.randint(8, 25)
        edges = [(j, rng.sample(nodes, rng.randint(1, 6))) for j in range(m)]
    elif mode == "float":
        k = rng.randint(2, 6); nodes = [0.5 + i for i in range(k)]; m = rng.randint(1, 5)
        edges = [(j + 0.25, rng.sample(nodes, rng.randint(1, min(k, 3)))) for j in range(m)]
    elif mode == "tuple":
        k = rng.randint(2, 6); nodes = [(i, "a") for i in range(k)]; m = rng.randint(1, 5)
        edges = [((j,), rng.sample(nodes, rng.randint(1, min(k, 3)))) for j in range(m)]
    run(f"{mode}#{it}", nodes, edges)
print("done", mode)
