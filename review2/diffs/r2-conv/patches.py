"""patch definitions: name -> (file, old, new, tests, checks, demo)"""
import sys

P = {}


def reg(name, edits, tests, checks, demo):
    P[name] = dict(edits=edits, tests=tests, checks=checks, demo=demo)


# ---------------------------------------------------------------- C09
reg("9a-lcc-neighbour-memo-str-key", [(
    "xgi/algorithms/clustering.py",
    """    for n in H.nodes:
        ev = list(memberships[n])
        dv = len(ev)
        if dv <= 1:
            result[n] = 0""",
    """    _nbrs = {}

    def _neighbors(d):
        # memo: neighbours of a node are asked for once per pair of edges
        key = f"{d}"
        if key not in _nbrs:
            _nbrs[key] = H.nodes.neighbors(d)
        return _nbrs[key]

    for n in H.nodes:
        ev = list(memberships[n])
        dv = len(ev)
        if dv <= 1:
            result[n] = 0"""), (
    "xgi/algorithms/clustering.py",
    """                    neighD1 = {i for d in D1 for i in H.nodes.neighbors(d)}
                    neighD2 = {i for d in D2 for i in H.nodes.neighbors(d)}""",
    """                    neighD1 = {i for d in D1 for i in _neighbors(d)}
                    neighD2 = {i for d in D2 for i in _neighbors(d)}""")],
    "tests/algorithms/test_clustering.py tests/stats", ["C09"],
    """
import xgi
E = {0: [1, 2, 3], 1: [3, "1", 5], 2: [1, 5], 3: ["1", 7]}
H = xgi.Hypergraph(E)
R = xgi.Hypergraph({e: ["x" if n == "1" else n for n in ms] for e, ms in E.items()})   # rename node "1" -> "x"
a = xgi.local_clustering_coefficient(H); b = xgi.local_clustering_coefficient(R)
print({("x" if n == "1" else n): v for n, v in a.items()}); print(b)
print("INVARIANT" if {("x" if n == "1" else n): v for n, v in a.items()} == b else "NOT relabel-invariant")
""")

reg("9b-nlap-weights-by-member-set", [(
    "xgi/linalg/laplacian_matrix.py",
    """        weights = [H.edges[edge_idx].get("weight", 1) for edge_idx in H.edges]""",
    """        # one lookup table for the edge weights, keyed by the hyperedge itself
        members = H.edges.members(dtype=dict)
        w_of = {frozenset(members[e]): H.edges[e].get("weight", 1) for e in H.edges}
        weights = [w_of[frozenset(members[e])] for e in H.edges]""")],
    "tests/linalg", ["C09"],
    """
import xgi, numpy as np
def mk(order):
    H = xgi.Hypergraph()
    for e, ms, w in order: H.add_edge(ms, idx=e, weight=w)
    return H
es = [("a", [1, 2], 1), ("b", [1, 2], 3), ("c", [2, 3], 1)]
L1, r1 = xgi.normalized_hypergraph_laplacian(mk(es), weighted=True, sparse=False, index=True)
L2, r2 = xgi.normalized_hypergraph_laplacian(mk(es[::-1]), weighted=True, sparse=False, index=True)
i1 = {v: k for k, v in r1.items()}; i2 = {v: k for k, v in r2.items()}
print(L1[i1[1], i1[2]], L2[i2[1], i2[2]])
print("INVARIANT" if abs(L1[i1[1], i1[2]] - L2[i2[1], i2[2]]) < 1e-12 else "NOT order-invariant")
""")

reg("9h-lcc-neighbour-memo-correct", [(
    "xgi/algorithms/clustering.py",
    """    for n in H.nodes:
        ev = list(memberships[n])
        dv = len(ev)
        if dv <= 1:
            result[n] = 0""",
    """    nbrs_of = {}

    def _neighbors(d):
        if d not in nbrs_of:
            nbrs_of[d] = H.nodes.neighbors(d)
        return nbrs_of[d]

    for n in H.nodes:
        ev = list(memberships[n])
        dv = len(ev)
        if dv <= 1:
            result[n] = 0"""), (
    "xgi/algorithms/clustering.py",
    """                    neighD1 = {i for d in D1 for i in H.nodes.neighbors(d)}
                    neighD2 = {i for d in D2 for i in H.nodes.neighbors(d)}""",
    """                    neighD1 = {i for d in D1 for i in _neighbors(d)}
                    neighD2 = {i for d in D2 for i in _neighbors(d)}""")],
    "tests/algorithms/test_clustering.py", ["C09"], "print('harmless')")

# ---------------------------------------------------------------- C10
_TUP = """        (
            ndarray,
            matrix,
            csr_array,
            csc_array,
            coo_array,
            lil_array,
            csr_matrix,
            csc_matrix,
            coo_matrix,
            lil_matrix,
        ),
    ):
        # incidence matrix
        result = from_incidence_matrix(data, create_using)"""
reg("10a-matrix-dispatch-sparray-only", [(
    "xgi/convert/higher_order_network.py",
    """from scipy.sparse import (
    coo_array,""",
    """from scipy.sparse import sparray  # noqa
from scipy.sparse import (
    coo_array,"""), (
    "xgi/convert/higher_order_network.py", _TUP,
    """        (ndarray, sparray),  # any numpy array or scipy sparse array
    ):
        # incidence matrix
        result = from_incidence_matrix(data, create_using)""")],
    "tests/convert tests/core/test_hypergraph.py", ["C10"],
    """
import xgi, scipy.sparse as sp, numpy as np
H = xgi.Hypergraph([[0, 1], [1, 2]])
I = xgi.to_incidence_matrix(H)
for M in (I, sp.csr_matrix(I), sp.csc_array(I), np.asmatrix(I.toarray())):
    try:
        print(type(M).__name__, xgi.Hypergraph(M).edges.members())
    except Exception as ex:
        print(type(M).__name__, "RAISES", type(ex).__name__, ex)
""")

reg("10b-incidence-nodelabels-truthiness", [(
    "xgi/convert/incidence.py",
    """    if nodelabels is None:
        nodedict = dict(zip(range(n), range(n)))
    elif nodelabels is not None and len(nodelabels) != n:""",
    """    if not nodelabels:
        nodedict = dict(zip(range(n), range(n)))
    elif len(nodelabels) != n:""")],
    "tests/convert", ["C10"],
    """
import xgi, numpy as np
H = xgi.Hypergraph({"e": ["a", "b"], "f": ["b", "c"]})
I, rd, cd = xgi.to_incidence_matrix(H, index=True)
rows = np.array([rd[i] for i in range(len(rd))], dtype=object)
try:
    print(xgi.from_incidence_matrix(I, nodelabels=rows, edgelabels=[cd[j] for j in range(len(cd))]).edges.members(dtype=dict))
except Exception as ex:
    print("RAISES", type(ex).__name__, ex)
""")

reg("10h-hif-records-before-incidences", [(
    "xgi/convert/hif_dict.py",
    """    for record in data["incidences"]:""",
    """    for record in data.get("nodes", []):
        # node records first: isolated / attributed nodes exist before the incidences are read
        _n = _convert_id(record["node"], nodetype)
        if _n not in H._node:
            H.add_node(_n)
    for record in data["incidences"]:""")],
    "tests/convert tests/readwrite", ["C10", "C11"], "print('harmless: only the node order of the network read changes')")

# ---------------------------------------------------------------- C11
reg("11a-bipartite-dual-casts-swapped", [(
    "xgi/readwrite/bipartite.py",
    """        s = line.strip().split(delimiter)
        if len(s) < 2:
            raise XGIError("Each line must contain at least two entries!")""",
    """        s = line.strip().split(delimiter)
        if len(s) < 2:
            raise XGIError("Each line must contain at least two entries!")
        if dual and nodetype is not None and edgetype is not None:
            # cast the two columns in one pass (first column / second column)
            try:
                first, second = nodetype(s[0]), edgetype(s[1])
            except ValueError as e:
                raise TypeError("Failed to convert the IDs.") from e
            H.add_node_to_edge(first, second)
            continue""")],
    "tests/readwrite", ["C11"],
    """
import xgi, os, tempfile
H = xgi.Hypergraph({"e1": [1, 2], "e2": [2, 3]})
D = H.dual()      # nodes e1, e2 ; edges 1, 2, 3  -> written as (node, edge) = (e1, 1) ...
p = os.path.join(tempfile.mkdtemp(), "b.txt")
xgi.write_bipartite_edgelist(D, p)
try:
    R = xgi.read_bipartite_edgelist(p, nodetype=int, edgetype=str, dual=True)    # dual: first column is the EDGE of R
    print(R.edges.members(dtype=dict), "SAME" if R.edges.members(dtype=dict) == H.edges.members(dtype=dict) else "DIFFERENT")
except Exception as ex:
    print("RAISES", type(ex).__name__, ex)
""")

reg("11h-write-json-sort-keys", [(
    "xgi/readwrite/json.py",
    """        data = to_hypergraph_dict(H)
        datastring = json.dumps(data, indent=2)""",
    """        data = to_hypergraph_dict(H)
        datastring = json.dumps(data, indent=2, sort_keys=True)""")],
    "tests/readwrite", ["C11"], "print('harmless for JSON-faithful values (str keys): only the order of nodes / edges in the file changes')")

# ---------------------------------------------------------------- C14
reg("14a-components-cache-weak-invalidation", [(
    "xgi/algorithms/connected.py",
    """    seen = set()
    for v in H:
        if v not in seen:
            c = _plain_bfs(H, v)
            seen.update(c)
            yield c""",
    """    # the partition is cached on the network and recomputed when the network has changed size
    sig = (H.num_nodes, H.num_edges)
    cached = H.__dict__.get("_cc_cache")
    if cached is None or cached[0] != sig:
        seen = set()
        comps = []
        for v in H:
            if v not in seen:
                c = _plain_bfs(H, v)
                seen.update(c)
                comps.append(c)
        H.__dict__["_cc_cache"] = cached = (sig, comps)
    for c in cached[1]:
        yield set(c)""")],
    "tests/algorithms/test_connected.py tests/core/test_hypergraph.py", ["C14", "C09"],
    """
import xgi
H = xgi.Hypergraph({"a": [1, 2], "b": [3, 4], "c": [5, 6]})
print(sorted(map(sorted, xgi.connected_components(H))))
H.remove_edge("c"); H.add_edge([2, 3], idx="d")          # same number of nodes and edges, other structure
print(sorted(map(sorted, xgi.connected_components(H))), xgi.is_connected(H), xgi.number_connected_components(H))
print("largest:", sorted(xgi.largest_connected_component(H)), " (truth: [1, 2, 3, 4])")
""")

reg("14c-empirical-filter-per-size-class", [(
    "xgi/convert/encapsulation_dag.py",
    """        outs = list(dag.successors(edge_idx))
        if len(outs) > 0:
            max_sub_size = max([len(H.edges.members(sub_idx)) for sub_idx in outs])""",
    """        outs = list(dag.successors(edge_idx))
        if len(outs) > 0:
            # largest subset size found below hyperedges of this size
            k = len(H.edges.members(edge_idx))
            if k not in _max_sub:
                _max_sub[k] = max(
                    len(H.edges.members(s))
                    for e in dag
                    if len(H.edges.members(e)) == k
                    for s in dag.successors(e)
                )
            max_sub_size = _max_sub[k]"""), (
    "xgi/convert/encapsulation_dag.py",
    """    to_remove = []
    # Loop over all edges""",
    """    to_remove = []
    _max_sub = {}
    # Loop over all edges""")],
    "tests/convert", ["C14"],
    """
import xgi
H = xgi.Hypergraph({"A": [1, 2, 3, 4], "B": [5, 6, 7, 8], "a3": [1, 2, 3], "b2": [5, 6]})
print(sorted(xgi.to_encapsulation_dag(H, subset_types="empirical").edges), " (definition: [('A','a3'), ('B','b2')])")
""")

reg("14h-line-graph-membership-prefilter", [(
    "xgi/convert/line_graph.py",
    """    for e1, e2 in combinations(H._edge, 2):""",
    """    if s >= 1:
        # only hyperedges sharing a node can be linked: enumerate pairs through the node memberships
        pos = {e: i for i, e in enumerate(H._edge)}
        cand = set()
        for n, es in H._node.items():
            for e1, e2 in combinations(sorted(es, key=pos.__getitem__), 2):
                cand.add((pos[e1], pos[e2]))
        order = list(H._edge)
        pairs = [(order[i], order[j]) for i, j in sorted(cand)]
    else:
        pairs = combinations(H._edge, 2)
    for e1, e2 in pairs:""")],
    "tests/convert", ["C14", "C09"], "print('harmless: same links, pairs enumerated through node memberships')")


# ================================================================ batch 2
def _late(name, *a):
    reg(name, *a)


_MAIN = P  # noqa

reg("14d-line-graph-sc-maximal-only", [(
    "xgi/convert/line_graph.py",
    """    LG = nx.Graph()
""",
    """    LG = nx.Graph()
    from ..core import SimplicialComplex

    if isinstance(H, SimplicialComplex):
        # the faces of a simplicial complex are implied by its maximal simplices
        keep = set(H.edges.maximal())
        LG.add_nodes_from(
            [(k, {"original_hyperedge": v.copy()}) for k, v in H._edge.items() if k in keep]
        )
        for e1, e2 in combinations([e for e in H._edge if e in keep], 2):
            k = len(H._edge[e1].intersection(H._edge[e2]))
            if k >= s:
                if not weights:
                    LG.add_edge(e1, e2)
                else:
                    LG.add_edge(e1, e2, weight=k if weights == "absolute" else k / min(len(H._edge[e1]), len(H._edge[e2])))
        return LG
""")],
    "tests/convert", ["C14"],
    """
import xgi
S = xgi.SimplicialComplex([[1, 2, 3], [3, 4]])
H = xgi.Hypergraph(S.edges.members(dtype=dict))
print(len(xgi.to_line_graph(S).nodes), "vertices for the complex,", len(xgi.to_line_graph(H).nodes), "for the hypergraph with the same", S.num_edges, "edges")
""")

reg("14e-sssp-large-network-path", [(
    "xgi/algorithms/shortest_path.py",
    """    # 1. Mark all nodes unvisited.
    is_unseen = dict()""",
    """    if len(H.nodes) > 64 and H.num_edges > 0:
        # large networks: sparse graph search on the projection
        from scipy.sparse.csgraph import shortest_path

        from ..linalg import clique_motif_matrix

        A, idx = clique_motif_matrix(H, index=True)
        pos = {n: i for i, n in idx.items()}
        d = shortest_path(A, indices=pos[source])
        return {idx[i]: (np.inf if np.isinf(x) else int(x)) for i, x in enumerate(d)}
    # 1. Mark all nodes unvisited.
    is_unseen = dict()""")],
    "tests/algorithms", ["C14"],
    """
import xgi
def chain(n):
    return xgi.Hypergraph([[i, i + 1] for i in range(n - 1)] + [[0, 1, 2]])   # nodes 0,1 and 1,2 share two edges
for n in (10, 70):
    print(n, "nodes: dist(0,2) =", xgi.single_source_shortest_path_length(chain(n), 0)[2], " dist(0,5) =", xgi.single_source_shortest_path_length(chain(n), 0)[5], " (BFS: 1 and 4)")
""")

reg("14f-sssp-bfs-rewrite-harmless", [(
    "xgi/algorithms/shortest_path.py",
    """    # 1. Mark all nodes unvisited.
    is_unseen = dict()""",
    """    from collections import deque

    bfs = {node: np.inf for node in H.nodes}
    bfs[source] = 0
    queue = deque([source])
    while queue:
        cur = queue.popleft()
        for ngb in H.nodes.neighbors(cur):
            if bfs[ngb] == np.inf:
                bfs[ngb] = bfs[cur] + 1
                queue.append(ngb)
    return bfs
    # 1. Mark all nodes unvisited.
    is_unseen = dict()""")],
    "tests/algorithms", ["C14", "C09"], "print('harmless: breadth-first search with a queue instead of the array Dijkstra')")

reg("10c-hif-edgeless-early-return", [(
    "xgi/convert/hif_dict.py",
    """    data["metadata"] = {}
    data["metadata"].update(H._net_attr)
""",
    """    data["metadata"] = {}
"""), (
    "xgi/convert/hif_dict.py",
    """    empty = set(H.edges.empty())""",
    """    if H.num_edges == 0:
        # nothing but nodes to write
        data["incidences"] = []
        return data
    data["metadata"].update(H._net_attr)

    empty = set(H.edges.empty())""")],
    "tests/convert tests/readwrite", ["C10", "C11"],
    """
import xgi
H = xgi.Hypergraph(); H.add_nodes_from([1, 2]); H["name"] = "only nodes"
print(xgi.from_hif_dict(xgi.to_hif_dict(H))._net_attr)
""")

reg("11b-nodetype-int-via-float", [(
    "xgi/readwrite/edgelist.py",
    """                edge = [nodetype(node) for node in edge]""",
    """                if nodetype is int:
                    # files written by other tools spell integers as 1.0
                    edge = [int(float(node)) for node in edge]
                else:
                    edge = [nodetype(node) for node in edge]""")],
    "tests/readwrite", ["C11"],
    """
import xgi, os, tempfile
H = xgi.Hypergraph([[2**60 + 1, 5], [5, 7]])
p = os.path.join(tempfile.mkdtemp(), "e.txt")
xgi.write_edgelist(H, p)
R = xgi.read_edgelist(p, nodetype=int)
print(R.edges.members(), "SAME" if R.edges.members() == H.edges.members() else "DIFFERENT from " + str(H.edges.members()))
""")



reg("11c-write-hif-rounds-floats", [(
    "xgi/readwrite/hif.py",
    """    data = to_hif_dict(H)

    datastring = json.dumps(data, indent=2)""",
    """    data = to_hif_dict(H)
    # keep the files small: six decimals are plenty for weights
    data = json.loads(json.dumps(data), parse_float=lambda x: round(float(x), 6))
    datastring = json.dumps(data, indent=2)""")],
    "tests/readwrite", ["C11"],
    """
import xgi, os, tempfile
H = xgi.Hypergraph(); H.add_edge([1, 2], idx="e", weight=0.1234567891, rate=2e-7)
p = os.path.join(tempfile.mkdtemp(), "h.json"); xgi.write_hif(H, p)
print(xgi.read_hif(p).edges["e"], "vs", H.edges["e"])
""")

reg("9i-clustering-by-neighbour-sets-harmless", [(
    "xgi/algorithms/clustering.py",
    """    adj, index = adjacency_matrix(H, index=True)
    ndict = {n: i for i, n in index.items()}""",
    """    nb = {n: H.nodes.neighbors(n) for n in H.nodes}
    out = {}
    for n in H.nodes:
        k = len(nb[n])
        if k < 2:
            out[n] = 0.0
            continue
        links = sum(len(nb[u] & nb[n]) for u in nb[n]) / 2
        out[n] = float(links / (k * (k - 1) / 2))
    return out
    adj, index = adjacency_matrix(H, index=True)
    ndict = {n: i for i, n in index.items()}""")],
    "tests/algorithms/test_clustering.py tests/stats", ["C09", "C14"], "print('harmless: triangles counted through neighbour sets instead of A^3')")



reg("10d-hif-network-type-exact-class", [(
    "xgi/convert/hif_dict.py",
    """    if isinstance(H, SimplicialComplex):
        data["network-type"] = "asc"
    elif isinstance(H, Hypergraph):
        data["network-type"] = "undirected"
    elif isinstance(H, DiHypergraph):
        data["network-type"] = "directed"
""",
    """    data["network-type"] = {
        SimplicialComplex: "asc",
        Hypergraph: "undirected",
        DiHypergraph: "directed",
    }.get(type(H), "undirected")
""")],
    "tests/convert tests/readwrite", ["C10", "C11"],
    """
import xgi
class Trade(xgi.DiHypergraph):
    pass
D = Trade(); D.add_edge(([1, 2], [3]), idx="e")
try:
    R = xgi.from_hif_dict(xgi.to_hif_dict(D)); print(type(R).__name__, R.edges.members(dtype=dict), "(source: directed, tail {1, 2}, head {3})")
except Exception as ex:
    print("RAISES", type(ex).__name__, ex)
""")

reg("10e-dataframe-rows-by-loc", [(
    "xgi/convert/pandas.py",
    """        for line in d.itertuples(index=False):
            node = line[0]
            edge = line[1]
            H.add_node_to_edge(edge, node)""",
    """        ncol, ecol = d.columns[0], d.columns[1]
        for i in range(len(d)):
            H.add_node_to_edge(d.loc[i, ecol], d.loc[i, ncol])""")],
    "tests/convert tests/core/test_hypergraph.py", ["C10"],
    """
import xgi, pandas as pd
H = xgi.Hypergraph({"a": [1, 2], "b": [2, 3], "c": [3, 4]})
df = xgi.to_bipartite_pandas_dataframe(H)
part = df[df["Edge ID"] != "a"]                      # a filtered dataframe keeps its row labels 2..5
try:
    print(xgi.from_bipartite_pandas_dataframe(part).edges.members(dtype=dict), "(rows:", part.values.tolist(), ")")
except Exception as ex:
    print("RAISES", type(ex).__name__, ex)
""")

reg("11d-write-edgelist-atomic-str-path", [(
    "xgi/readwrite/edgelist.py",
    """    with open(path, "wb") as file:
        for line in generate_edgelist(H, delimiter):
            line += "\\n"
            file.write(line.encode(encoding))""",
    """    import os

    tmp = path + ".part"  # write next to the target, then move into place
    with open(tmp, "wb") as file:
        for line in generate_edgelist(H, delimiter):
            line += "\\n"
            file.write(line.encode(encoding))
    os.replace(tmp, path)""")],
    "tests/readwrite", ["C11"],
    """
import xgi, pathlib, tempfile
H = xgi.Hypergraph([[1, 2], [2, 3]])
p = pathlib.Path(tempfile.mkdtemp()) / "e.txt"
try:
    xgi.write_edgelist(H, p); print(xgi.read_edgelist(p, nodetype=int).edges.members())
except Exception as ex:
    print("RAISES", type(ex).__name__, ex)
""")


if __name__ == "__main__":
    name, root = sys.argv[1], sys.argv[2]
    for f, old, new in P[name]["edits"]:
        p = f"{root}/{f}"
        s = open(p).read()
        assert s.count(old) == 1, (name, f, s.count(old))
        open(p, "w").write(s.replace(old, new))
    print("patched", name)
