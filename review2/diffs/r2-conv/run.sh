#!/bin/bash
# usage: run.sh <patchname>
N=$1; R=/tmp/review2/r2-conv; WT=$R/wt; O=$R/out/$N; mkdir -p $O
cd $WT && git checkout -q -- . && /venv/bin/python $R/patches.py $N $WT > $O/patch.log 2>&1 || { echo "$N PATCH-FAILED"; cat $O/patch.log; exit 1; }
git diff > $O/diff.patch
/venv/bin/python - <<PY > $O/demo.py
import sys; sys.path.insert(0, "$R")
import patches; print(patches.P["$N"]["demo"])
PY
echo "--- with change" > $O/demo.out; (cd $R/t && PYTHONPATH=$WT /venv/bin/python -W ignore $O/demo.py >> $O/demo.out 2>&1)
echo "--- clean /repo" >> $O/demo.out; (cd $R/t && PYTHONPATH=/repo /venv/bin/python -W ignore $O/demo.py >> $O/demo.out 2>&1)
T=$(/venv/bin/python -c "import sys; sys.path.insert(0,'$R'); import patches; print(patches.P['$N']['tests'])")
C=$(/venv/bin/python -c "import sys; sys.path.insert(0,'$R'); import patches; print(' '.join(patches.P['$N']['checks']))")
(cd $WT && PYTHONPATH=$WT timeout 900 /venv/bin/python -m pytest -q -p no:cacheprovider -x $T > $O/tests.log 2>&1; echo "tests($T) exit=$? $(tail -1 $O/tests.log)") > $O/summary.txt
for c in $C; do
  for seed in "" 5; do
    s=$(date +%H:%M:%S)
    if [ -z "$seed" ]; then (cd /verif && XGI_REPO=$WT timeout 900 ./check $c > $O/check-$c.log 2>&1; echo $? > $O/rc)
    else (cd /verif && VERIF_SEED=$seed XGI_REPO=$WT timeout 900 ./check $c > $O/check-$c-s$seed.log 2>&1; echo $? > $O/rc); fi
    rc=$(cat $O/rc); f=$O/check-$c${seed:+-s$seed}.log
    echo "check $c seed=${seed:-default} exit=$rc $s-$(date +%H:%M:%S) verif=$(git -C /verif log --oneline | head -1 | cut -c1-7) :: $(grep -c '^VIOLATION' $f) VIOLATION lines; first: $(grep '^VIOLATION' $f | head -2 | cut -c1-260 | tr '\n' '|')" >> $O/summary.txt
    [ "$rc" != "0" ] && break
  done
done
cd $WT && git checkout -q -- .
echo "== $N"; cat $O/summary.txt
