#!/bin/bash
N=$1; R=/tmp/review2/r2-conv; WT=$R/wtclean; O=$R/out/$N; mkdir -p $O
cd $WT && git checkout -q -- . && /venv/bin/python $R/patches.py $N $WT > /dev/null || { echo "$N PATCH-FAILED"; exit 1; }
T=$(/venv/bin/python -c "import sys; sys.path.insert(0,'$R'); import patches; print(patches.P['$N']['tests'])")
PYTHONPATH=$WT timeout 900 /venv/bin/python -m pytest -q -p no:cacheprovider $T 2>&1 | grep -E "^FAILED|^ERROR| passed| failed" | cut -c1-160 > $O/tests2.log
base="test_fix_649|test_fix_647|test_bigg_data|test_xgi_data|test_node_edge_centrality|test_h_eigenvector_centrality"
echo "$N tests($T): $(tail -1 $O/tests2.log) ; failures beyond the clean-tree network failures: $(grep -E '^FAILED|^ERROR' $O/tests2.log | grep -vE "$base" | tr '\n' ';')"
git checkout -q -- .
