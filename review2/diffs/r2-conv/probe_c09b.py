import sys, random, json, warnings
sys.path.insert(0, "/verif")
warnings.simplefilter("ignore")
from harness import c09_measures as CM
import xgi
rng = random.Random(int(sys.argv[1]))
mode = sys.argv[2]
def build(nodes, edges, pi, sg, shuffle):
    H = xgi.Hypergraph()
    ns = list(nodes); es = [(e, list(ms)) for e, ms in edges]
    if shuffle:
        rng.shuffle(ns); rng.shuffle(es); es = [(e, rng.sample(ms, len(ms))) for e, ms in es]
    for n in ns: H.add_node(pi[n])
    for e, ms in es: H.add_edge([pi[x] for x in ms], idx=sg[e])
    return H
for it in range(int(sys.argv[3])):
    if mode == "big":
        k = rng.randint(14, 30); nodes = list(range(k)); m = rng.randint(8, 25)
        edges = [(j, rng.sample(nodes, rng.randint(1, 6))) for j in range(m)]
    elif mode == "float":
        k = rng.randint(2, 6); nodes = [0.5 + i for i in range(k)]; m = rng.randint(1, 5)
        edges = [(j + 0.25, rng.sample(nodes, rng.randint(1, min(k, 3)))) for j in range(m)]
    elif mode == "bool":
        nodes = [True, False, 2, 3][:rng.randint(2,4)]; k=len(nodes); m = rng.randint(1, 4)
        edges = [([False, True, 2, 3][j], rng.sample(nodes, rng.randint(1, min(k, 3)))) for j in range(m)]
    idn = {n:n for n in nodes}; ide = {e:e for e,_ in edges}
    H = build(nodes, edges, idn, ide, False)
    base = CM.evaluate(H, idn, ide)
    variants = [("id", idn, ide)]
    pn = nodes[:]; rng.shuffle(pn); pe = [e for e,_ in edges]; rng.shuffle(pe)
    variants.append(("perm", dict(zip(nodes, pn)), dict(zip([e for e,_ in edges], pe))))
    variants.append(("str", {n:"n%s"%(97*i%1000) for i,n in enumerate(nodes)}, {e:"e%s"%(89*i%1000) for i,(e,_) in enumerate(edges)}))
    variants.append(("ints", {n:1000-7*i for i,n in enumerate(nodes)}, {e:500-3*i for i,(e,_) in enumerate(edges)}))
    for name, pi, sg in variants:
        H2 = build(nodes, edges, pi, sg, True)
        res = CM.evaluate(H2, {v:k for k,v in pi.items()}, {v:k for k,v in sg.items()}, skip_flags=set() if name=="id" else {"order-only"})
        for lab, b in res.items():
            if lab in base and not CM.same(base[lab], b, CM.BY_LABEL[lab][3]):
                print(f"{mode}#{it} DIFF {lab} [{name}]", CM.first_diff(base[lab], b, CM.BY_LABEL[lab][3])[:250])
                print("   ", nodes, edges)
    errs = {l:v for l,v in base.items() if isinstance(v,tuple) and v and v[0]=="$err"}
    if it == 0: print("errs on first:", errs)
print("done", mode)
