import xgi
def chain(n):
    return xgi.Hypergraph([[i, i + 1] for i in range(n - 1)] + [[0, 1, 2]])   # nodes 0 and 1 share two edges
for n in (10, 70):
    print(n, "nodes: dist(0,1) =", xgi.single_source_shortest_path_length(chain(n), 0)[1], " (BFS in the clique expansion: 1)")
