import xgi, networkx as nx, itertools, random, math, warnings
warnings.simplefilter("ignore")
rng = random.Random(7)
def ref(nodes, edges):
    G = nx.Graph(); G.add_nodes_from(nodes)
    for ms in edges.values(): G.add_edges_from(itertools.combinations(ms, 2))
    return G
def check(H, tag):
    nodes = list(H.nodes); edges = H.edges.members(dtype=dict)
    G = ref(nodes, edges)
    comps = sorted(map(lambda c: sorted(map(repr, c)), nx.connected_components(G)))
    got = sorted(map(lambda c: sorted(map(repr, c)), xgi.connected_components(H)))
    if comps != got: print(tag, "COMPONENTS", got, comps)
    if nodes and xgi.is_connected(H) != (len(comps) == 1): print(tag, "is_connected")
    for s, d in xgi.shortest_path_length(H):
        e = nx.single_source_shortest_path_length(G, s)
        for n in nodes:
            if d[n] != e.get(n, math.inf): print(tag, "DIST", s, n, d[n], e.get(n)); break
    cl = nx.clustering(G)
    for n, v in xgi.clustering_coefficient(H).items():
        if abs(v - cl[n]) > 1e-9: print(tag, "CLUST", n, v, cl[n]); break
    P = xgi.to_graph(H)
    if set(map(repr, P.nodes)) != set(map(repr, nodes)) or {frozenset(map(repr, e)) for e in P.edges} != {frozenset(map(repr, e)) for e in G.edges}:
        print(tag, "TO_GRAPH", sorted(map(repr,P.nodes)), sorted(map(repr,nodes)))
    for s in (1, 2):
        for w in (None, "absolute", "normalized"):
            L = xgi.to_line_graph(H, s=s, weights=w)
            exp = {frozenset((a, b)) for (a, x), (b, y) in itertools.combinations(edges.items(), 2) if len(set(x) & set(y)) >= s}
            if {frozenset(e) for e in L.edges} != exp or set(L.nodes) != set(edges): print(tag, "LINE", s, w)
    for t in ("all", "immediate", "empirical"):
        D = xgi.to_encapsulation_dag(H, subset_types=t)
        if set(D.nodes) != set(edges): print(tag, "DAG nodes", t, set(D.nodes), set(edges))
        if t == "all":
            exp = {(a, b) for a in edges for b in edges if a != b and set(edges[b]) < set(edges[a]) and edges[b]}
            if set(D.edges) != exp: print(tag, "DAG all", sorted(D.edges, key=repr), sorted(exp, key=repr))
# label types
for tag, lab in [("float", [0.5, 1.5, 2.0, 3.25, 4.0, 5.5]), ("bool", [True, False, 2, 3, 4, 5]), ("tuple", [(1,), (1, 2), (2,), ("a",), (3, "b"), ()]),
                 ("frozenset", [frozenset([1]), frozenset([2]), frozenset(), frozenset([1,2]), 7, "z"]), ("big", [2**70, -2**70, 2**63, 0, 1, -1]),
                 ("intlike", [1, "1", 2, "2", 1.5, "1.5"]), ("unicode", ["é", "é", "", " ", "\n", "a b"])]:
    for it in range(60):
        k = rng.randint(1, 6); ns = lab[:k]; H = xgi.Hypergraph(); H.add_nodes_from(ns)
        for j in range(rng.randint(0, 6)):
            H.add_edge(rng.sample(ns, rng.randint(0 if rng.random() < .1 else 1, k)), idx=rng.choice([None, f"e{j}", (j,), j + 0.5]) if rng.random() < .6 else None)
        try: check(H, f"{tag}#{it}")
        except Exception as ex: print(tag, it, "RAISES", type(ex).__name__, str(ex)[:100], list(H.nodes), H.edges.members(dtype=dict)); break
# simplicial complexes and larger networks
for it in range(30):
    S = xgi.random_simplicial_complex(rng.randint(4, 9), [0.3, 0.2], seed=it)
    try: check(S, f"sc#{it}")
    except Exception as ex: print("sc", it, "RAISES", type(ex).__name__, str(ex)[:100]); break
for it in range(8):
    H = xgi.random_hypergraph(rng.randint(20, 45), [0.03, 0.003, 0.0002], seed=it)
    try: check(H, f"large#{it}")
    except Exception as ex: print("large", it, "RAISES", type(ex).__name__, str(ex)[:100]); break
print("probe14 done")
