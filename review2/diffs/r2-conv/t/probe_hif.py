import xgi, warnings, json
warnings.simplefilter("ignore")
def snap(H):
    d = {"cls":type(H).__name__, "nodes":{n:dict(H.nodes[n]) for n in H.nodes}, "net":dict(H._net_attr)}
    if isinstance(H, xgi.DiHypergraph):
        d["edges"]={e:(set(H.edges.tail(e)),set(H.edges.head(e)),dict(H.edges[e])) for e in H.edges}
    else:
        d["edges"]={e:(set(H.edges.members(e)),dict(H.edges[e])) for e in H.edges}
    return d
def rt(H, **kw):
    xgi.write_hif(H,"a.json"); return xgi.read_hif("a.json", **kw)
def t(name, H, **kw):
    try:
        R = rt(H, **kw)
        a,b = snap(H), snap(R)
        print(name, "SAME" if a==b else f"DIFF\n  {a}\n  {b}")
    except Exception as ex:
        print(name, "RAISES", type(ex).__name__, ex)
H = xgi.Hypergraph(); H.add_edge([1,2], idx="a"); H.set_edge_attributes({"a":{"attrs":{"x":1}}}); t("attr named attrs", H)
H = xgi.Hypergraph(); H.add_edge([1,2]); H["metadata"]={"k":1}; H["network-type"]="directed"; t("net attr names", H)
H = xgi.Hypergraph(); H.add_edge([1,2], idx=0); H.set_node_attributes({1:{"node":5,"edge":3}}); H.set_edge_attributes({0:{"node":7,"edge":9,"direction":"head"}}); t("attr named node/edge", H)
D = xgi.DiHypergraph(); D.add_edge(([1,2],[2,3]), idx="e", w=1); D.add_edge(([],[]), idx="z"); D.add_node(9); t("dihg", D)
D = xgi.DiHypergraph(); D.add_edge(([1],[]), idx=0); D.add_edge(([],[1]), idx=1); t("dihg one-sided", D)
S = xgi.SimplicialComplex(); S.add_simplex([1,2,3], idx="s", w=2); S.add_node(7, c=1); S["n"]=1; t("sc", S)
S = xgi.SimplicialComplex(); S.add_simplex([1,2,3]); S.add_simplex([3,4]); t("sc auto ids", S)
H = xgi.Hypergraph(); H.add_edge(["1","2"], idx="7"); t("cast int", H, nodetype=int, edgetype=int)
H = xgi.Hypergraph(); H.add_edge([1,2], idx=0); H.add_edge([], idx=1); H.add_node(5); t("cast str", H, nodetype=str, edgetype=str)
H = xgi.Hypergraph(); H.add_edge([0,1], idx=0); H.add_node(2); t("cast float->", H, nodetype=float)
H = xgi.Hypergraph(); H.add_edge([1,2], idx=0, t=(1,2)); t("tuple val", H)
H = xgi.Hypergraph(); H.add_edge([1,2], idx=0, **{"é":"日本"}); H.add_node("ü"); t("nonascii", H)
H = xgi.Hypergraph(); H.add_edge([2**70, -2**65], idx=2**64); t("huge", H)
H = xgi.Hypergraph(); H.add_edge([1,2], idx=0); H.add_node(0); t("nodetype falsy 0 w/ str cast", H, nodetype=str)
H = xgi.Hypergraph(); H.add_edge([0.0, 1], idx=False); t("0.0 / False", H)
H = xgi.Hypergraph(); H.add_edge([1,2], idx=0, w=float("inf")); t("inf val", H)
H = xgi.Hypergraph(); H.add_node(1, **{"1":1}); H.add_edge([1],idx="e", d={1:2}); t("int dict key", H)
import numpy as np
H = xgi.Hypergraph(); H.add_edge([1,2], idx=0, w=np.float64(1.5)); t("np float val", H)
H = xgi.Hypergraph(); H.add_edge([np.int64(1),np.int64(2)], idx=np.int64(0)); t("np int labels", H)
