import xgi, random, warnings, numpy as np, scipy.sparse as sp, networkx as nx
warnings.simplefilter("ignore")
rng = random.Random(3)
def inc(H):
    if isinstance(H, xgi.DiHypergraph):
        return {(repr(n), repr(e), d) for e in H.edges for d, s in (("t", H.edges.tail(e)), ("h", H.edges.head(e))) for n in s}
    return {(repr(n), repr(e)) for e in H.edges for n in H.edges.members(e)}
def pos_inc(H):   # by edge position
    return [sorted(map(repr, H.edges.members(e))) for e in H.edges]
def t(tag, H):
    I0 = inc(H)
    tests = {
      "dict": lambda: inc(xgi.from_hyperedge_dict(xgi.to_hyperedge_dict(H))) == I0,
      "list": lambda: pos_inc(xgi.from_hyperedge_list(xgi.to_hyperedge_list(H))) == pos_inc(H),
      "bel": lambda: inc(xgi.from_bipartite_edgelist(xgi.to_bipartite_edgelist(H))) == I0,
      "df": lambda: inc(xgi.from_bipartite_pandas_dataframe(xgi.to_bipartite_pandas_dataframe(H))) == I0,
      "hif": lambda: inc(xgi.from_hif_dict(xgi.to_hif_dict(H))) == I0,
      "ctor": lambda: inc(xgi.Hypergraph(H)) == I0 and inc(xgi.SimplicialComplex(H)) >= I0,
    }
    def im():
        I, r, c = xgi.to_incidence_matrix(H, index=True)
        if I.shape == (0, 0): return True
        ok = True
        for M in (I, I.toarray(), sp.csc_array(I), sp.coo_matrix(I), sp.lil_array(I), np.asmatrix(I.toarray())):
            R = xgi.from_incidence_matrix(M, nodelabels=[r[i] for i in range(len(r))], edgelabels=[c[i] for i in range(len(c))])
            ok &= inc(R) == I0
        return ok
    tests["incidence"] = im
    def bg():
        G, a, b = xgi.to_bipartite_graph(H, index=True)
        R = xgi.from_bipartite_graph(G)
        return {(repr(a[int(n)]) , repr(b[int(e)])) for n, e in ((x[1:-0] if False else x) for x in [(n, e) for e in R.edges for n in R.edges.members(e)])} == I0
    tests["bgraph"] = bg
    for k, f in tests.items():
        try:
            if not f(): print(tag, k, "DIFF", list(H.nodes), H.edges.members(dtype=dict))
        except Exception as ex:
            print(tag, k, "RAISES", type(ex).__name__, str(ex)[:120], list(H.nodes), H.edges.members(dtype=dict))
for tag, lab, eids in [("float", [0.5, 1.5, 2.0, 3.25], [0.5, 1.0, 2.5, 7.0]), ("bool", [True, False, 2, 3], [False, True, 2, 3]),
                       ("tuple", [(1,), (1, 2), ("a",), ()], [(0,), (1, 1), ("e",), ()]), ("big", [2**70, -2**70, 2**63, 0], [2**64, -1, 2**53 + 1, 3]),
                       ("mixfloat", [1, 2.5, "a", 2**53 + 1], [0, 0.5, "x", 2**53 + 1]), ("npint", [np.int64(1), np.int64(2), 3, 4], [np.int64(0), 1, 2, 3])]:
    for it in range(25):
        k = rng.randint(1, 4); ns = lab[:k]; H = xgi.Hypergraph(); H.add_nodes_from(ns)
        for j in range(rng.randint(0, 4)):
            H.add_edge(rng.sample(ns, rng.randint(1, k)), idx=eids[j])
        t(f"{tag}#{it}", H)
print("probe10 done")
