import ast,sys
for p in sys.argv[1:]:
    t=ast.parse(open(p).read())
    for n in ast.walk(t):
        if isinstance(n,(ast.FunctionDef,ast.Module,ast.ClassDef)) and n.body and isinstance(n.body[0],ast.Expr) and isinstance(getattr(n.body[0],'value',None),ast.Constant) and len(n.body)>1:
            n.body=n.body[1:]
    print("#####",p); print(ast.unparse(t))
