import sys, random, warnings
sys.path.insert(0, "/verif"); warnings.simplefilter("ignore")
from harness import c09_measures as CM
import xgi
rng = random.Random(11)
def build(nodes, edges, pi, sg, shuffle):
    H = xgi.Hypergraph(); ns = list(nodes); es = [(e, list(ms)) for e, ms in edges]
    if shuffle: rng.shuffle(ns); rng.shuffle(es); es = [(e, rng.sample(ms, len(ms))) for e, ms in es]
    for n in ns: H.add_node(pi[n])
    for e, ms in es: H.add_edge([pi[x] for x in ms], idx=sg[e])
    return H
pool_n = [0, "0", "", 1, "1", " ", "a", "A", -1, "-1"]; pool_e = [0, "0", "", 1, "1", "e", -1, "-1"]
for it in range(120):
    k = rng.randint(2, 7); nodes = rng.sample(pool_n, k); m = rng.randint(1, 6); eids = rng.sample(pool_e, m)
    edges = [(eids[j], rng.sample(nodes, rng.randint(0 if rng.random() < .1 else 1, min(k, 4)))) for j in range(m)]
    idn = {n: n for n in nodes}; ide = {e: e for e, _ in edges}
    H = build(nodes, edges, idn, ide, False); base = CM.evaluate(H, idn, ide, skip_flags={"orderable", "eids-orderable"})
    for name, pi, sg in [("id", idn, ide), ("ints", {n: 50 + 3 * i for i, n in enumerate(nodes)}, {e: 20 + 2 * i for i, (e, _) in enumerate(edges)}),
                         ("str", {n: "n%d" % (7 * i % 11) for i, n in enumerate(nodes)}, {e: "e%d" % (5 * i % 7) for i, (e, _) in enumerate(edges)})]:
        H2 = build(nodes, edges, pi, sg, True)
        res = CM.evaluate(H2, {v: k for k, v in pi.items()}, {v: k for k, v in sg.items()}, skip_flags={"orderable", "eids-orderable", "order-only"})
        for lab, b in res.items():
            if lab in base and not CM.same(base[lab], b, CM.BY_LABEL[lab][3]):
                print(f"#{it} DIFF {lab} [{name}]", CM.first_diff(base[lab], b, CM.BY_LABEL[lab][3])[:200]); print("   ", nodes, edges)
print("done")
