import xgi, pickle, copy, warnings, numpy as np
warnings.simplefilter("ignore")
routes={'copy':lambda H:H.copy(),'pickle':lambda H:pickle.loads(pickle.dumps(H)),'ctor':lambda H:type(H)(H)}
def mk(cls):
    H=cls()
    H.add_nodes_from([(1,{"a":[1,[2]], 5:"intkey", "arr":np.array([1,2,3])}),(2,{}),("iso",{"s":{1,2}})])
    if cls is xgi.DiHypergraph: H.add_edge(([1],[2]), idx="e", w=[1]); H.add_edge(([2],[1,3]))
    elif cls is xgi.SimplicialComplex: H.add_simplex([1,2,3], idx="e", w=[1]);
    else: H.add_edge([1,2], idx="e", w=[1]); H.add_edge([]); H.add_edge([2,1,3])
    H["net"]={"deep":{"l":[1]}}; H["inner"]=xgi.Hypergraph([[1,2]])
    return H
def snap(H):
    return (list(H.nodes), list(H.edges), {n:repr(dict(H.nodes[n])) for n in H.nodes}, {e:repr(dict(H.edges[e])) for e in H.edges},
            {e:(H.edges.dimembers(e) if isinstance(H,xgi.DiHypergraph) else set(H.edges.members(e))) for e in H.edges}, repr({k:(v if not isinstance(v,xgi.Hypergraph) else v.edges.members()) for k,v in H._net_attr.items()}), next(copy.copy(H._edge_uid)))
for cls in (xgi.Hypergraph, xgi.DiHypergraph, xgi.SimplicialComplex):
    for fr in (False, True):
        for r,f in routes.items():
            H=mk(cls)
            if fr: H.freeze()
            try: C=f(H)
            except Exception as ex: print(cls.__name__, fr, r, 'RAISED', type(ex).__name__, ex); continue
            sH,sC=snap(H),snap(C)
            if sH!=sC: print(cls.__name__, fr, r, 'DIFF', [i for i in range(7) if sH[i]!=sC[i]], sH[6], sC[6])
            if C.is_frozen: print(cls.__name__, fr, r, 'clone frozen')
            # edits on clone
            edits=[("topattr", lambda X: X.nodes[1].__setitem__("new",1)), ("set_node_attributes", lambda X: X.set_node_attributes({2:{"q":1}})),
                   ("arr inplace", lambda X: X.nodes[1]["arr"].__setitem__(0,99)), ("inner net", lambda X: X["inner"].add_edge([7,8])),
                   ("net nested", lambda X: X["net"]["deep"]["l"].append(2)), ("edge nested", lambda X: X.edges["e"]["w"].append(5)),
                   ("node nested", lambda X: X.nodes[1]["a"][1].append(5)), ("node set", lambda X: X.nodes["iso"]["s"].add(5)),
                   ("net top", lambda X: X.__setitem__("zz",1))]
            for (nm,ed) in edits:
                for side in ("clone","source"):
                    X,Y=(C,H) if side=="clone" else (H,C)
                    if X.is_frozen and nm in("set_node_attributes",): continue
                    b=snap(Y)
                    try: ed(X)
                    except Exception as ex: print(cls.__name__,fr,r,nm,side,'raised',type(ex).__name__,ex); continue
                    if snap(Y)!=b: print(cls.__name__, fr, r, 'VISIBLE:', nm, 'on', side)
