import warnings; warnings.simplefilter("ignore")
import xgi
from harness import c08_lib as L
specs={s["label"]:s for s in L.fixed_specs()}
def chk(name, f, H2):
    b=L.snapshot(H2)
    try: r=f()
    except Exception as ex: r=ex
    d=L.diff(b, L.snapshot(H2))
    print(name, "second operand changed:" , d[:2] if d else "no", "| raised" if isinstance(r,Exception) else "")
    return r
for a,b in (("hg-messy","hg-gaps"),("hg-nice","hg-messy"),("sc","hg-messy"),("hg-messy","sc")):
    H1,_=L.build(specs[a]); H2,_=L.build(specs[b])
    R=chk(f"{a}<<{b}", lambda: H1<<H2, H2)
    if not isinstance(R,Exception):
        b2=L.snapshot(H2); L.mutate_network(R)
        for n in R.nodes: R.nodes[n]["zz"]=1
        print("   after mutating result:", L.diff(b2,L.snapshot(H2))[:2] or "H2 unchanged")
    for op in ("__and__","__or__","__sub__","__xor__","isdisjoint","__eq__","__le__"):
        chk(f"nodes.{op}", lambda: getattr(H1.nodes,op)(H2.nodes), H2)
    chk("from_view", lambda: type(H1.nodes).from_view(H2.nodes, bunch=list(H2.nodes)[:2]), H2)
