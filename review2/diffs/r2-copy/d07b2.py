import xgi, pickle, warnings; warnings.simplefilter("ignore")
H=xgi.SimplicialComplex([[1,2],[2,3]]); H.freeze(); C=pickle.loads(pickle.dumps(H))
try: C.add_simplex([7,8]); print("clone got a fresh simplex id:", list(C.edges))
except Exception as ex: print("clone cannot add simplices:", ex)
