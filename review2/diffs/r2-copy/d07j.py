import xgi, numpy as np, collections
for cls in (xgi.Hypergraph, xgi.DiHypergraph, xgi.SimplicialComplex):
    H=cls(); H.add_node(1, pos=np.array([0.0, 1.0]), hist=collections.deque([1])); H.add_node(2)
    H["layout"]=bytearray(b"ab")
    C=H.copy()
    C.nodes[1]["pos"][0]=42.0; C.nodes[1]["hist"].append(2); C["layout"].extend(b"!")
    print(cls.__name__, "source after editing the COPY:", H.nodes[1]["pos"], list(H.nodes[1]["hist"]), bytes(H["layout"]))
