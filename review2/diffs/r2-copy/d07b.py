import xgi, pickle
H=xgi.Hypergraph([[1,2],[2,3]]); H.freeze(); C=pickle.loads(pickle.dumps(H))
try: C.add_edge([7,8]); print("clone got a fresh edge id:", list(C.edges))
except Exception as ex: print("clone cannot add edges:", ex)
