import inspect, warnings, random, signal, io, contextlib, tempfile, os
warnings.simplefilter("ignore")
import numpy as np, xgi
import matplotlib; matplotlib.use("Agg")
from harness import c08_translate as T, c08_lib as L
rng=random.Random(3)
def big(cls):
    H=cls()
    nodes=list(range(40))+["s%d"%i for i in range(5)]+[(1,2),(3,"t")]
    for n in nodes: H.add_node(n, weight=rng.random(), pos=np.array([rng.random(),rng.random()]), tags=[1,[2]])
    for i in range(90):
        ms=rng.sample(nodes, rng.choice([1,2,2,3,3,4,5]))
        if cls is xgi.DiHypergraph:
            k=rng.randint(0,len(ms)); H.add_edge((ms[:k],ms[k:]), weight=rng.random(), m={"a":[1]})
        elif cls is xgi.SimplicialComplex:
            H.add_simplex(ms[:3], weight=rng.random())
        else: H.add_edge(ms, weight=rng.random(), m={"a":[1]})
    if cls is xgi.Hypergraph: H.add_edge([]); H.add_edge([0,1],idx=(7,8)); H.add_edge([0,1]); H.add_edge([2,3], idx=2.5)
    H["name"]="big"; H["arr"]=np.arange(3)
    return H
def fzs(H):
    s=L.snapshot(H, public_uid=False); return s
entries=T.extract()
tmp=tempfile.mkdtemp()
def alarm(*a): raise TimeoutError()
signal.signal(signal.SIGALRM, alarm)
n=0
for cls in (xgi.Hypergraph, xgi.SimplicialComplex, xgi.DiHypergraph):
    H=big(cls); before=fzs(H)
    for e in entries:
        if e["kind"]!="function" or (e["doc_mut"] and not e["hip"]): continue
        f=e["fn"]
        ps=[p for p in T.sig_params(f)[1:] if p.default is inspect.Parameter.empty and p.kind in (p.POSITIONAL_ONLY,p.POSITIONAL_OR_KEYWORD)]
        argsets=[[]]
        if ps:
            pool={"n":[0,"s1"],"node":[0],"source":[0],"target":[5],"nid1":[0],"nid2":[1],"order":[1,2,3,4],"d":[1,2,3],"path":[os.path.join(tmp,"o")],"H2":[big(xgi.Hypergraph)],
                  "k":[2],"s":[1,3],"theta0":None,"omega":None,"pos":[{n:np.array([1.0,2.0]) for n in H.nodes}],"p":[0.5],"nodes":[[0,1,2]],"edges":[[0,1]],"attr":["weight"],"name":["weight"]}
            argsets=[]
            import itertools
            cands=[pool.get(p.name) for p in ps]
            if any(c is None for c in cands): continue
            argsets=[list(x) for x in itertools.product(*cands)][:4]
        for a in argsets:
            for kw in ({},):
                if e["hip"]: kw=dict(in_place=False)
                try:
                    signal.alarm(6)
                    with contextlib.redirect_stdout(io.StringIO()):
                        r=f(H,*a,**kw)
                        if inspect.isgenerator(r): list(itertools.islice(r,1000))
                except TimeoutError: pass
                except Exception as ex: pass
                finally: signal.alarm(0)
                import matplotlib.pyplot as plt; plt.close("all")
                n+=1
                try: d=L.diff(before, fzs(H))
                except Exception as ex: d=[("snap-raises",repr(ex))]
                if d:
                    print("CHANGED", cls.__name__, e["name"], a if not any(isinstance(x,(dict,xgi.Hypergraph)) for x in a) else '...', d[:2]); H=big(cls); before=fzs(H)
print("calls", n)
