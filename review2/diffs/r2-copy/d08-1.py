import xgi
H1=xgi.Hypergraph([[1,2]]); H1["name"]="first"; H1["tags"]=["a"]
H2=xgi.Hypergraph([[2,3]]); H2["name"]="second"
R = H1 << H2
print("result", dict(R._net_attr)); print("H2 afterwards", dict(H2._net_attr), "| shares H1's list:", H2._net_attr.get("tags") is H1["tags"])
