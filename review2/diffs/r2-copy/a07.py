import xgi, pickle, copy, warnings, numpy as np
warnings.simplefilter("ignore")
def nxt(H): return next(copy.copy(H._edge_uid))
def show(t, f):
    try: print(t, '->', f())
    except Exception as ex: print(t, 'RAISED', type(ex).__name__, ex)
routes={'copy':lambda H:H.copy(),'pickle':lambda H:pickle.loads(pickle.dumps(H)),'ctor':lambda H:type(H)(H)}
# 1. float / numpy / string-digit edge ids and the counter
for ids in ([1.0, 2.5], [np.int64(5)], ["7"], [True], [3.0], [(1,2)], [-3], [10**20]):
    for cls in (xgi.Hypergraph, xgi.DiHypergraph, xgi.SimplicialComplex):
        H=cls()
        try:
            for i in ids:
                if cls is xgi.DiHypergraph: H.add_edge(([1],[2]), idx=i)
                elif cls is xgi.SimplicialComplex: H.add_simplex([1,2], idx=i) if not len(H.edges) else H.add_simplex([3,4],idx=i)
                else: H.add_edge([1,2], idx=i)
        except Exception as ex:
            print(cls.__name__, ids, 'build raised', ex); continue
        for r,f in routes.items():
            try:
                C=f(H)
                n0=len(C.edges)
                before={e:(C.edges.dimembers(e) if cls is xgi.DiHypergraph else set(C.edges.members(e))) for e in C.edges}
                if cls is xgi.DiHypergraph: C.add_edge((['x'],['y']))
                elif cls is xgi.SimplicialComplex: C.add_simplex(['x','y'])
                else: C.add_edge(['x','y'])
                after={e:(C.edges.dimembers(e) if cls is xgi.DiHypergraph else set(C.edges.members(e))) for e in C.edges}
                lost=[e for e in before if before[e]!=after.get(e)]
                ok = len(C.edges)==n0+1 and not lost
                if not ok or list(C.edges)[:n0]!=list(H.edges) : print('PROBLEM', cls.__name__, ids, r, list(H.edges), list(C.edges), 'src next', nxt(H))
            except Exception as ex:
                print('EXC', cls.__name__, ids, r, type(ex).__name__, ex)
print('done1')
