import xgi
H=xgi.Hypergraph([[1,2,3],[3,4]]); H["name"]="x"
print(xgi.degree_histogram(H)); print("network attributes afterwards:", dict(H._net_attr))
