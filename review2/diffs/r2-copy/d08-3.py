import xgi
H=xgi.Hypergraph([[0,i,i+1] for i in range(1,100)])
print("before", H.edges.members()[:3], "components:", xgi.number_connected_components(H)); print("after ", H.edges.members()[:3])
