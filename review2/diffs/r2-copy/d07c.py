import xgi
H=xgi.Hypergraph(); H.add_node(1, tags=["a"]); H.add_edge([1,2], idx="e", w={"k":[1]})
C1=H.copy(); C1.nodes[1]["tags"].append("edited-in-C1"); C1.edges["e"]["w"]["k"].append(99)
C2=H.copy()
print("source", H.nodes[1], H.edges["e"]); print("2nd copy", C2.nodes[1], C2.edges["e"])
print("same attributes as the source:", C2.nodes[1]==H.nodes[1] and C2.edges["e"]==H.edges["e"])
