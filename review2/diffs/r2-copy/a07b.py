import xgi, pickle, copy, warnings
warnings.simplefilter("ignore")
H=xgi.DiHypergraph(); H.add_edge(([1],[2]), idx=(1,2)); print(H.edges.dimembers(dtype=dict))
for f in (lambda: H.copy(), lambda: xgi.DiHypergraph(H), lambda: pickle.loads(pickle.dumps(H))):
    try: print(f().edges.dimembers(dtype=dict))
    except Exception as ex: print(type(ex).__name__, ex)
# tuple node id
for cls in (xgi.Hypergraph, xgi.DiHypergraph, xgi.SimplicialComplex):
    H=cls()
    if cls is xgi.DiHypergraph: H.add_edge(([(1,2)],[3])); 
    elif cls is xgi.SimplicialComplex: H.add_simplex([(1,2),3])
    else: H.add_edge([(1,2),3])
    H.add_node((5,{"a":1}) if False else (5,6))
    for name,f in (("copy",lambda: H.copy()), ("ctor",lambda: cls(H)), ("pickle",lambda: pickle.loads(pickle.dumps(H)))):
        try:
            C=f(); print(cls.__name__, name, list(C.nodes)==list(H.nodes), list(C.nodes), dict(C.nodes.items()) if hasattr(C.nodes,'items') else '')
        except Exception as ex: print(cls.__name__, name, type(ex).__name__, ex)
