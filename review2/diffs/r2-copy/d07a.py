import xgi
for cls in (xgi.Hypergraph, xgi.DiHypergraph):
    H=cls(); H["name"]="empty shell"; H.add_edge([] if cls is xgi.Hypergraph else ([],[]), idx="e0")
    C=cls(H)
    print(cls.__name__, "source edges", list(H.edges), dict(H._net_attr), "| ctor clone edges", list(C.edges), dict(C._net_attr))
