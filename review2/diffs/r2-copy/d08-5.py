import xgi
H=xgi.Hypergraph([[1,2,3],[3,4]]); before=dict(H._net_attr); H.summary(); print("network attributes before", before, "after", dict(H._net_attr))
try: print(H["name"])
except Exception as ex: print("H['name'] raises", ex)
