import re
p='xgi/core/dihypergraph.py'; s=open(p).read()
n=s.count("tail_set, head_set = set(tail), set(head)")
s=s.replace("tail_set, head_set = set(tail), set(head)","tail_set = set(tail); head_set = tail_set if head is tail else set(head)")
open(p,'w').write(s); print('replaced',n)
