#!/bin/bash
# rerun.sh <worktree> <listfile-part>
wt=$1; part=$2
while read -r patch props; do
  [ -z "$patch" ] && continue
  cd $wt && git checkout -q -- . && git clean -fdq && git checkout -q --detach 6782803
  if ! git apply "$patch" 2>/dev/null; then patch -p1 -s -F3 --no-backup-if-mismatch < "$patch" >/dev/null 2>&1 || { echo "$(basename $(dirname $patch))/$(basename $patch) APPLY-FAILED" >> /tmp/review2/logs/rerun.txt; continue; }; fi
  for c in ${props//,/ }; do
    tag=$(echo $patch | sed 's|/tmp/review2/||;s|/|_|g')
    (cd /verif && XGI_REPO=$wt /tmp/review2/slot.sh ./check $c > /tmp/review2/logs/rerun-$tag-$c.log 2>&1; rc=$?
     echo "$tag $c exit=$rc viol=$(grep -c '^VIOLATION' /tmp/review2/logs/rerun-$tag-$c.log) weak=$(grep -c 'no-failing-input-found' /tmp/review2/logs/rerun-$tag-$c.log) verif=$(git -C /verif log --format=%h -1) $(date +%H:%M)" >> /tmp/review2/logs/rerun.txt)
  done
done < $part
cd $wt && git checkout -q -- . && git clean -fdq
