import xgi
H = xgi.Hypergraph([[0, 8], [8, 0], [1, 2], [2, 1]])
H.merge_duplicate_edges()
print(H.edges.members(dtype=dict))
