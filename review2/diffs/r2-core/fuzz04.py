import xgi, random, warnings, numpy as np, itertools, sys
warnings.simplefilter("ignore")
def table(H):
    if isinstance(H, xgi.DiHypergraph):
        return {e:(frozenset(H._edge[e]["in"]), frozenset(H._edge[e]["out"]), repr(sorted(H._edge_attr[e].items(), key=repr))) for e in H._edge}
    return {e:(frozenset(H._edge[e]), repr(sorted(H._edge_attr[e].items(), key=repr))) for e in H._edge}
IDS = [0,1,2,3,5,-1,"a","1",2.0,np.int64(4),True,(0,1),None, 7, 6.0, np.float64(3.0), False]
def mem(r, cls):
    m = [r.choice([0,1,2,3,4,"x"]) for _ in range(r.randint(1,3))]
    if cls is xgi.DiHypergraph:
        return (m, [r.choice([0,1,2,3,4,"x"]) for _ in range(r.randint(0,2))])
    return m
def step(r, H, cls):
    k = r.random()
    add1 = H.add_simplex if cls is xgi.SimplicialComplex else H.add_edge
    addn = H.add_simplices_from if cls is xgi.SimplicialComplex else H.add_edges_from
    if k < .3: d=("add1",mem(r,cls),r.choice(IDS)); f=lambda: add1(d[1], idx=d[2])
    elif k < .4: eb=[mem(r,cls) for _ in range(r.randint(1,3))]; d=("f1",eb); f=lambda: addn(eb)
    elif k < .55: eb=[(mem(r,cls), r.choice(IDS[:-5]+[9,8])) for _ in range(r.randint(1,3))]; d=("f2",eb); f=lambda: addn(eb)
    elif k < .6: eb=[(mem(r,cls), {"w":1}) for _ in range(r.randint(1,3))]; d=("f3",eb); f=lambda: addn(eb)
    elif k < .7: eb=[(mem(r,cls), r.choice(IDS[:-5]+[9,8]), {"w":1}) for _ in range(r.randint(1,3))]; d=("f4",eb); f=lambda: addn(eb)
    elif k < .8:
        eb={}
        for _ in range(r.randint(1,3)):
            i=r.choice(IDS[:-5]+[9,8]); 
            if i is not None: eb[i]=mem(r,cls)
        d=("f5",eb); f=lambda: addn(eb)
    elif k < .85 and cls is not xgi.SimplicialComplex:
        e=r.choice(IDS[:-1]); n=r.choice([0,1,9])
        if e is None or e in H._edge: return None
        d=("ante",e,n); f=(lambda: H.add_node_to_edge(e,n,"in")) if cls is xgi.DiHypergraph else (lambda: H.add_node_to_edge(e,n))
    elif k < .9 and H._edge:
        e=r.choice(list(H._edge)); d=("rm",e)
        f=(lambda: H.remove_simplex_id(e)) if cls is xgi.SimplicialComplex else (lambda: H.remove_edge(e))
        try: f()
        except Exception: pass
        return None
    elif k < .93 and cls is xgi.Hypergraph:
        d=("merge",); 
        try: H.merge_duplicate_edges(rename=r.choice(["first","tuple","new"]))
        except Exception: pass
        return None
    elif k < .96 and cls is not xgi.DiHypergraph and len(H._edge)>=2:
        try: H.random_edge_shuffle()
        except Exception: pass
        return None
    elif k < .98 and cls is xgi.SimplicialComplex:
        eb=[tuple(mem(r,cls))+(2.0,) for _ in range(2)]; d=("w",eb); f=lambda: H.add_weighted_simplices_from(eb)
    else:
        return None
    before = table(H)
    try: f(); exc=None
    except Exception as ex: exc=ex
    after = table(H)
    for e,v in before.items():
        if e not in after or after[e]!=v:
            return (d, e, v, after.get(e), exc)
    return None
bad = {}
for cls in (xgi.Hypergraph, xgi.DiHypergraph, xgi.SimplicialComplex):
    for seed in range(int(sys.argv[1])):
        r = random.Random(seed); random.seed(seed)
        H = cls(); hist=[]
        for _ in range(r.randint(2,10)):
            res = step(r,H,cls)
            if res:
                key=(cls.__name__, res[0][0], type(res[4]).__name__)
                if key not in bad:
                    bad[key]=(seed,res); print(key, seed, res)
                break
print(len(bad))
