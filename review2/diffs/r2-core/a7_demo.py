import xgi
S = xgi.SimplicialComplex()
S.add_simplex([1,2,3], idx=1)
print(S.edges.members(dtype=dict)); print(S.nodes.memberships())
