import xgi, pickle, copy
for cls, e in ((xgi.Hypergraph, [[1,2,3],[3,4]]), (xgi.DiHypergraph, [([1],[2])]), (xgi.SimplicialComplex, [[1,2]])):
    H = cls(e); H.freeze()
    for P in (pickle.loads(pickle.dumps(H)), copy.deepcopy(H)):
        try: P.add_node(99); r = "add_node succeeded"
        except Exception as ex: r = type(ex).__name__
        print(cls.__name__, "is_frozen:", P.is_frozen, "->", r, 99 in P.nodes)
