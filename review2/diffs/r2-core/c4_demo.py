import xgi, random
H = xgi.Hypergraph({0: [1, "a", 5], 1: [5, 2, "b"]})
try: random.seed(0); H.random_edge_shuffle(0, 1)
except Exception as e: print("raised", type(e).__name__)
print("members:", H.edges.members(dtype=dict)); print("memberships(5):", H.nodes.memberships(5))
