import xgi
H = xgi.Hypergraph([[1,2,3],[3,4]]); H.freeze(); F = H
H <<= xgi.Hypergraph([[7,8]])
print("same object:", H is F, "is_frozen:", F.is_frozen, "nodes:", list(F.nodes), "edges:", F.edges.members())
