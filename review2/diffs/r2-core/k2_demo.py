import xgi
H = xgi.Hypergraph([[1,2,3],[3,4]])
S = xgi.subhypergraph(H, nodes=[])
print("is_frozen:", S.is_frozen)
try: S.add_edge([1,2]); print("edited the read-only view:", S.edges.members())
except Exception as e: print(type(e).__name__, e)
