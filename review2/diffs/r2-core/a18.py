import xgi, pickle, copy, warnings
warnings.simplefilter("ignore")
from xgi.exception import XGIError
def st(H):
    if isinstance(H, xgi.DiHypergraph):
        return (list(H.nodes), list(H.edges), {e:(sorted(map(repr,H.edges.tail(e))),sorted(map(repr,H.edges.head(e)))) for e in H.edges})
    return (list(H.nodes), list(H.edges), {e:sorted(map(repr,H.edges.members(e))) for e in H.edges})
def tryit(name, mk, f):
    H = mk(); H.freeze(); b = st(H)
    try:
        r = f(H); exc=None
    except Exception as e:
        exc = e
    print(f"{name:55s} changed={st(H)!=b} raised={type(exc).__name__ if exc else None} frozen={H.is_frozen}")
mkH = lambda: xgi.Hypergraph([[0,1,2],[2,3],[3,4],[2,3],[5]])
mkS = lambda: xgi.SimplicialComplex([[0,1,2],[2,3],[3,4]])
mkD = lambda: xgi.DiHypergraph([([0,1],[2]),([2],[3,4]),([1,4],[0]),([5],[5])])
# HG
tryit("H.merge_duplicate_edges", mkH, lambda H: H.merge_duplicate_edges())
tryit("H.cleanup all-off relabel", mkH, lambda H: H.cleanup(isolates=True,singletons=True,multiedges=True,connected=False,relabel=True))
tryit("H.cleanup all-allowed, connected only", mkH, lambda H: H.cleanup(isolates=True,singletons=True,multiedges=True,connected=True,relabel=False))
tryit("H.update(edges)", mkH, lambda H: H.update(edges=[[7,8]]))
tryit("H.__init__([[9,9]])", mkH, lambda H: H.__init__([[8,9]]))
tryit("H.set_node_attributes", mkH, lambda H: H.set_node_attributes(1,name="c"))
tryit("pickle H", mkH, lambda H: print("  unpickled frozen:", pickle.loads(pickle.dumps(H)).is_frozen))
tryit("deepcopy H", mkH, lambda H: print("  deepcopy frozen:", copy.deepcopy(H).is_frozen))
tryit("copy.copy H", mkH, lambda H: print("  copy.copy frozen:", copy.copy(H).is_frozen, "add_node on it ->", copy.copy(H).add_node))
def shallow(H):
    C = copy.copy(H)
    try: C.add_node(99)
    except Exception as e: print("   shallow copy add_node:", type(e).__name__)
tryit("copy.copy H add_node", mkH, shallow)
tryit("xgi.Hypergraph.add_node(H, 9) (class call)", mkH, lambda H: xgi.Hypergraph.add_node(H, 9))
tryit("H <<", mkH, lambda H: H << xgi.Hypergraph([[9,10]]))
tryit("H.nodes/H.edges views", mkH, lambda H: (H.nodes, H.edges))
tryit("del H.add_node; add_node", mkH, lambda H: (H.__delattr__("add_node"), H.add_node(99)))
# SC
tryit("S.close", lambda: xgi.SimplicialComplex(), lambda S: S.close())
def mkS2():
    S = xgi.SimplicialComplex(); S._add_simplex(frozenset([0,1,2]), 0); S._edge_uid = __import__("itertools").count(1); return S
tryit("S.close (non-closed)", mkS2, lambda S: S.close())
tryit("S.add_edge", mkS, lambda S: S.add_edge([7,8]))
tryit("S.remove_edge", mkS, lambda S: S.remove_edge(0))
tryit("S.update", mkS, lambda S: S.update(edges=[[7,8]]))
tryit("S.merge_duplicate_edges", mkS, lambda S: S.merge_duplicate_edges())
tryit("S.cleanup", mkS, lambda S: S.cleanup())
tryit("S.add_node_to_edge", mkS, lambda S: S.add_node_to_edge(0, 9))
tryit("S.remove_node_from_edge", mkS, lambda S: S.remove_node_from_edge(0, 1))
tryit("S relabel", mkS, lambda S: xgi.convert_labels_to_integers(S, in_place=True))
# DH
tryit("D.cleanup", mkD, lambda D: D.cleanup())
tryit("D.cleanup isolates ok", mkD, lambda D: D.cleanup(isolates=True))
tryit("D relabel", mkD, lambda D: xgi.convert_labels_to_integers(D, in_place=True))
tryit("D.update?", mkD, lambda D: D.update(edges=[([7],[8])]))
for cls,mk in (("H",mkH),("S",mkS),("D",mkD)):
    H = mk(); H.freeze()
    for C in (H.copy(), pickle.loads(pickle.dumps(H)), copy.deepcopy(H)):
        print(cls, type(C).__name__, "frozen", C.is_frozen, "equal", st(C)==st(H))
