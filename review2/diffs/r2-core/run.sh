#!/bin/bash
# usage: run.sh <label> "<checks>" <pytest targets...>
L=$1; CH=$2; shift 2
WT=/tmp/review2/r2-core/wt
cd $WT && git diff > /tmp/review2/r2-core/$L.diff
echo "== tests: $@"
(cd $WT && PYTHONPATH=$WT timeout 900 /venv/bin/python -m pytest -q -p no:cacheprovider -x "$@" 2>&1 | tail -3)
for c in $CH; do
  for s in 0 5; do
    (cd /verif && VERIF_SEED=$s XGI_REPO=$WT timeout 900 ./check $c > /tmp/review2/r2-core/$L-$c-s$s.log 2>&1; echo "== $c seed=$s exit=$?"; grep -E "^VIOLATION|^  " /tmp/review2/r2-core/$L-$c-s$s.log | head -6)
  done
done
