import xgi, warnings
D = xgi.DiHypergraph({0: ([1,2],[3])})
with warnings.catch_warnings(record=True) as w:
    warnings.simplefilter("always"); D.add_edge(([8],[9]), idx=0)
print("warned:", bool(w), "nodes:", list(D.nodes), "edges:", D.edges.dimembers(dtype=dict))
