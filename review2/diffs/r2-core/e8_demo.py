import xgi
S = xgi.SimplicialComplex([[1,2,3]])
f = [e for e in S.edges if S.edges.members(e) == {1,2}][0]
S.set_edge_attributes({f: {"color": "red"}})
print({e: S.edges[e] for e in S.edges})
T = xgi.SimplicialComplex([[7,8,9]]); print("another complex:", {e: T.edges[e] for e in T.edges})
