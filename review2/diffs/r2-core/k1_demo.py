import xgi
H = xgi.Hypergraph([[1,2,3],[3,4]]); H.freeze()
try:
    H.relabel_nodes({1:"a", 3:"c"}); print("frozen network relabelled:", H.is_frozen, list(H.nodes), H.edges.members())
except Exception as e: print(type(e).__name__, e)
