import xgi, warnings
S = xgi.SimplicialComplex({0: [1,2]})
with warnings.catch_warnings(record=True) as w:
    warnings.simplefilter("always"); S.add_simplices_from({0: [7,8]})
print("warned:", [str(x.message) for x in w], "edges:", S.edges.members(dtype=dict))
