import xgi, numpy as np
D = xgi.DiHypergraph()
for e in np.arange(2):            # edge labels from a numpy range
    D.add_node_to_edge(e, "a", "in"); D.add_node_to_edge(e, int(e)+10, "out")
print(D.edges.dimembers(dtype=dict))
D.add_edge((["x"], ["y"]))
print(D.edges.dimembers(dtype=dict), D.nodes.memberships("a"))
