import XgiModel.Props.C05
import XgiModel.C03.SC
import XgiModel.Props.C11
import XgiModel.Props.C12
import XgiModel.Props.C16
import XgiModel.Props.C19
import XgiModel.Props.C19O
import XgiModel.Props.C20
section D1
open Xgi Xgi.HG
def s3 : HG := ((stepCore HG.empty (.addEdgesFrom .f2
  [{ members := [.int 1, .int 2], idx := some (.tup [.int 0, .int 1]), attr := [] },
   { members := [.int 3, .int 4], idx := some (.int 0), attr := [] },
   { members := [.int 3, .int 4], idx := some (.int 1), attr := [] }] [])).map (·.1)).getD HG.empty
#eval (mergeDuplicateEdges s3 .tuple .first none).map (fun r => (repr r.2, repr r.1.edges))
example (s : HG) (b : Bool) : (clear s b).1.nodes = [] ∧ (clear s b).1.edges = [] := ⟨rfl, rfl⟩
example (s : HG) (n : PyId) (st re : Bool) (h : n ∉ s.nodes) : removeNode s n st re = (s, .err .lib) := by simp [removeNode, h]
end D1
section D4
open Xgi.C11 Xgi.C10 in
example {Doc : Type} (J : JsonLayer Hif Doc) (a : ANet)
    (hJ : J.loads (J.dumps (toHif a)) = toHif a) :
    readHif J (writeHif J (.inl a)) = fromHif (toHif a) := by
  unfold readHif writeHif; simp only [hJ]
open Xgi.C16 in
example (n : Nat) (adj : Nat → Nat → Bool) (mo : Nat) : flagComplex n adj mo = cliquesSizes n adj 2 mo := rfl
open Xgi.C16 in
example (n order : Nat) : completeOrder n order = combinations n (order + 1) := rfl
open Xgi.C16 in
example (n : Nat) : trivialNodes n = List.range n := rfl
end D4
section D5
open Xgi Xgi.HG
example (s : HG) (a b c d e : Bool) : Xgi.C19.cleanup' s a b c d e = HG.cleanup s a b c d e := rfl
example (s : HG) : (Xgi.C19.fromMaxSimplices .hg s).2 = .err .lib := rfl
example (s : HG) (hf : s.frozen = true) (l : String) : relabel s l = (s, .err .lib) := by simp [relabel, hf]
example (h : Net) (pos : Xgi.C20.Pos) : Xgi.C20.markers h pos = h.nodes.map pos := rfl
example : ∃ p, Xgi.C20.draw .hg { nodes := [], edges := [] } (fun _ => (0, 0)) none none = .ok p := ⟨_, rfl⟩
end D5
