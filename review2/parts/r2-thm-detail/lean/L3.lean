import XgiModel.Props.C20
open Xgi
#eval (Xgi.C20.draw .hg { nodes := [], edges := [] } (fun _ => (0, 0)) none none).toOption.isSome
#eval (Xgi.C20.draw .hg { nodes := [.atom (.int 1)], edges := [] } (fun _ => (0, 0)) none none).toOption.isSome
#check @Xgi.C20.draw_spec
