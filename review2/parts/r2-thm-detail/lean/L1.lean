import XgiModel.Props.C06
import XgiModel.Props.C07
import XgiModel.Props.C07D
import XgiModel.Props.C09
import XgiModel.Props.C10
section A
open Xgi Xgi.C06 Xgi.HG
example {α} [Inhabited α] (v : List PyId) (d : List (PyId × α)) : asnumpy v d = aslist v d := rfl
example {α} [Inhabited α] (v : List PyId) (c : List (String × List (PyId × α))) : multiAsnumpy v c = multiAslist v c := rfl
example (s : HG) (n : PyId) : degree s none n = (s.memb n).length := rfl
example (s : HG) (e : PyId) : size s none e = (s.mem e).length := rfl
example (s : HG) : keys s .node = s.nodes ∧ keys s .edge = s.edges := ⟨rfl, rfl⟩
example (s : HG) : (pickleRoundTrip s).uid = s.uid ∧ (pickleRoundTrip s).net = s.net ∧ (pickleRoundTrip s).frozen = false := ⟨rfl, rfl, rfl⟩
example (s : HG) : (copy s).1.uid = s.uid ∧ (copy s).1.net = s.net := ⟨rfl, rfl⟩
#check @Xgi.C07.frame
#check @Xgi.C07.noninterference
end A
section B
open Xgi Xgi.C09
example (σ : PyId → PyId) (s t : String) (h0 : σ (.atom (.int 0)) = .atom (.str s)) (h1 : σ (.atom (.str t)) = .atom (.str t)) :
    ¬ OrdPres σ := fun ho => by
  have := ho (.atom (.int 0)) (.atom (.str t))
  rw [h0, h1] at this
  simp [pyLt?] at this
example (σ : PyId → PyId) (h0 : σ (.atom (.int 0)) = .atom (.int 20)) (h5 : σ (.atom (.int 5)) = .atom (.int 5)) :
    ¬ OrdPres σ := fun ho => by
  have := ho (.atom (.int 0)) (.atom (.int 5))
  rw [h0, h5] at this
  simp [pyLt?] at this
end B
section C
open Xgi Xgi.C10
example (a : ANet) (hc : a.cls = .sc) : fromHif (toHif a) = .inl (toSimplicialComplex (fromHifU (toHif a))) := by
  unfold fromHif; simp [toHif, hc]
end C
