"""C15 — simpliciality measures match their combinatorial definitions.

Three-way comparison on every generated hypergraph x (min_size, exclude_min_size) x normalize:
  implementation (xgi.algorithms.simpliciality)  vs  Lean transcription (XgiModel/C15/Simp.lean, via the driver)
  vs  brute-force definitions (the Lean `spec…` functions *and* an independent Python enumeration below).
The property predicate (brute-force equalities, range, value 1 on downward-closed inputs) is evaluated on the
implementation's own results; the Lean theorems (Props/C15.lean) state the same facts for the transcription.

Fixed cases in corpus/C15/*.json run first (format: a case, {"case": …}, or {"net": …, "configs": [[min_size, excl], …]}).
`replay(ctx, file)` runs the case(s) of one such file through build/audit, predicate, correspondence and `finish`.
"""
import itertools
import json
import math
import os

import xgi
from xgi.utils import Trie

from ..core import TRUSTED_COMMON, Infra, build_and_audit, canon, enc_id, finish, jhash, run_driver, VERIF
from ..fn import all_small_hypergraphs, approx_equal, build, conclude, enc_net, gen_hypergraph

SCORES = ["sed_norm", "sed_raw", "es", "mfed_norm", "mfed_raw", "fes", "sf"]
TOL = 1e-9


# ----------------------------------------------------------------------------- implementation side

def _f(x):
    """canonical form of a returned number: float or 'nan'"""
    x = float(x)
    return "nan" if math.isnan(x) else x


def impl(case):
    nodes = [_dec(n) for n in case["net"]["nodes"]]
    edges = [(_dec(e), [_dec(x) for x in ms]) for e, ms in case["net"]["edges"]]
    H = build(nodes, edges)
    m, x = case["min_size"], case["exclude_min_size"]
    S = xgi.algorithms.simpliciality
    out = {"out": "ok"}
    out["maximal"] = [enc_id(e) for e in H.edges.maximal()]
    out["sed_norm"] = _f(S.simplicial_edit_distance(H, min_size=m, exclude_min_size=x, normalize=True))
    out["sed_raw"] = _f(S.simplicial_edit_distance(H, min_size=m, exclude_min_size=x, normalize=False))
    out["es"] = _f(S.edit_simpliciality(H, min_size=m, exclude_min_size=x))
    out["mfed_norm"] = _f(S.mean_face_edit_distance(H, min_size=m, exclude_min_size=x, normalize=True))
    out["mfed_raw"] = _f(S.mean_face_edit_distance(H, min_size=m, exclude_min_size=x, normalize=False))
    out["fes"] = _f(S.face_edit_simpliciality(H, min_size=m, exclude_min_size=x))
    out["sf"] = _f(S.simplicial_fraction(H, min_size=m, exclude_min_size=x))
    return out


def _dec(j):
    return tuple(j) if isinstance(j, list) else j


def safe_impl(case):
    try:
        return impl(case)
    except Infra:
        raise
    except Exception as ex:  # noqa
        return {"out": "err:" + type(ex).__name__, "msg": str(ex)[:200]}


# ----------------------------------------------------------------------------- brute-force definitions (Python)

def brute(case):
    """the definitions of the property statement by exhaustive enumeration over all node subsets"""
    nodes = [_dec(n) for n in case["net"]["nodes"]]
    E = [frozenset(_dec(x) for x in ms) for _, ms in case["net"]["edges"]]
    m, x = case["min_size"], case["exclude_min_size"]
    Eset = set(E)
    if len(nodes) <= 12:
        subsets = [frozenset(c) for r in range(0, len(nodes) + 1) for c in itertools.combinations(nodes, r)]
    else:
        # large inputs: every definition below only ever looks at node sets inside some edge, so the subsets of the edges
        # (edges of the large inputs have <= 6 members) stand for "all node subsets"
        subsets = list({frozenset(c) for e in E for r in range(0, len(e) + 1) for c in itertools.combinations(sorted(e, key=repr), r)} | {frozenset()})
    maximal = [e for e in E if not any(e < f for f in E)]
    faces = [e for e in maximal if len(e) >= m + int(x)]
    elig = [e for e in E if len(e) >= m + int(x)]
    out = {}
    # edit distance: node sets of size >= m inside some eligible maximal edge that are not edges
    missing = [t for t in subsets if len(t) >= m and any(t <= e for e in faces) and t not in Eset]
    if not faces:
        out["sed_raw"] = out["sed_norm"] = "nan"
    else:
        ms = len(missing)
        out["sed_raw"] = ms
        den = len([e for e in E if len(e) >= m]) - len(faces) + ms
        out["sed_norm"] = ms / den if den > 0 else "nan"
    # simplicial fraction: share of eligible edges all of whose subsets of size >= m are edges
    simp = [e for e in elig if all(t in Eset for t in subsets if len(t) >= m and t <= e)]
    out["sf"] = len(simp) / len(elig) if elig else "nan"
    # mean face edit distance: average missing-subface share (count when not normalised) over eligible maximal edges
    for norm in (True, False):
        vals = []
        for e in faces:
            subs = [t for t in subsets if len(t) >= m and t < e]
            miss = len([t for t in subs if t not in Eset])
            vals.append(miss / len(subs) if (norm and subs) else miss)
        out["mfed_norm" if norm else "mfed_raw"] = (sum(vals) / len(vals)) if vals else 0
    out["closed"] = all(t in Eset for e in E for t in subsets if len(t) >= m and t <= e)
    out["faces"] = len(faces)
    out["elig"] = len(elig)
    return out


def num_eq(a, b):
    """implementation value (float | 'nan') against brute-force value (number | 'nan')"""
    if a == "nan" or b == "nan":
        return a == b
    return abs(a - b) <= TOL * max(1.0, abs(b))


def repeated(case):
    sets = [frozenset(_dec(x) for x in ms) for _, ms in case["net"]["edges"]]
    return len(set(sets)) != len(sets)


def pred(case, r):
    """clauses of C15 on the implementation's results; list of (site, failure_class, detail)"""
    if repeated(case) or case["min_size"] < 1:
        # the property is about hypergraphs without repeated edges and sub-faces of size >= min_size >= 1
        # (with min_size = 0 the empty set is enumerated as a sub-face); those cases are correspondence-only
        return []
    if r.get("out") != "ok":
        return [("simpliciality", "raises", f"{r}")]
    b = brute(case)
    fails = []
    if not num_eq(r["sed_raw"], b["sed_raw"]):
        fails.append(("simplicial_edit_distance", "edit-distance-differs-from-enumeration", f"impl {r['sed_raw']} brute {b['sed_raw']}"))
    if not num_eq(r["sed_norm"], b["sed_norm"]):
        fails.append(("simplicial_edit_distance", "normalised-edit-distance-differs-from-enumeration", f"impl {r['sed_norm']} brute {b['sed_norm']}"))
    if not num_eq(r["sf"], b["sf"]):
        fails.append(("simplicial_fraction", "fraction-differs-from-enumeration", f"impl {r['sf']} brute {b['sf']}"))
    for k in ("mfed_norm", "mfed_raw"):
        if not num_eq(r[k], b[k]):
            fails.append(("mean_face_edit_distance", "face-distance-differs-from-enumeration" + ("" if k == "mfed_norm" else "-unnormalised"),
                          f"impl {r[k]} brute {b[k]}"))
    for k, site in (("es", "edit_simpliciality"), ("fes", "face_edit_simpliciality"), ("sf", "simplicial_fraction"),
                    ("sed_norm", "simplicial_edit_distance"), ("mfed_norm", "mean_face_edit_distance")):
        v = r[k]
        if v != "nan" and not (-TOL <= v <= 1 + TOL):
            fails.append((site, "score-out-of-range", f"{k} = {v}"))
    for k, comp in (("es", "sed_norm"), ("fes", "mfed_norm")):
        exp = "nan" if r[comp] == "nan" else 1 - r[comp]
        if not num_eq(r[k], exp):
            fails.append((k == "es" and "edit_simpliciality" or "face_edit_simpliciality", "not-one-minus-distance", f"{k} = {r[k]}, distance = {r[comp]}"))
    if b["closed"]:
        # downward closed (above min_size): every score is 1; NaN only where the enumeration itself has nothing to average
        # (es: no eligible maximal edge or a 0/0 normalisation; sf: no eligible edge; fes: never)
        for k, site, may_nan in (("es", "edit_simpliciality", b["sed_norm"] == "nan"), ("fes", "face_edit_simpliciality", False),
                                 ("sf", "simplicial_fraction", b["elig"] == 0)):
            v = r[k]
            if v == "nan":
                if not may_nan:
                    fails.append((site, "undefined-on-closed-with-eligible-edge", f"{k} is NaN"))
            elif abs(v - 1) > TOL:
                fails.append((site, "not-one-on-downward-closed", f"{k} = {v}"))
    return fails


# ----------------------------------------------------------------------------- comparison with the model

def compare(case, r, mc):
    """returns list of differing fields (implementation vs transcription), and transcription vs Lean spec"""
    diffs = []
    if r.get("out") != "ok":
        return ["out"]
    if mc.get("maximal") != r["maximal"]:
        diffs.append("maximal")
    for k in SCORES:
        a, b = r[k], mc.get(k)
        if a == "nan":
            if b != "nan":
                diffs.append(k)
        elif not approx_equal(a, b, TOL):
            diffs.append(k)
    return diffs


def model_vs_spec(case, mc):
    """the driver also evaluates the Lean brute-force spec functions: exact agreement expected where the theorems say so"""
    if case["min_size"] < 1:
        return []  # the theorems assume 1 <= min_size
    d = []  # the theorems do not need "no repeated edges", so this is checked on every modelled case
    if mc["spec_maximal"] != mc["maximal"]:
        d.append("maximal")
    pairs = [("sed_raw", "spec_sed_raw"), ("sed_norm", "spec_sed_norm"), ("mfed_norm", "spec_mfed_norm"),
             ("mfed_raw", "spec_mfed_raw"), ("sf", "spec_sf")]
    for a, b in pairs:
        if a == "sed_raw" and mc[a] == "nan":
            continue  # no eligible maximal edge: the raw count is reported as NaN by the code; spec count is 0
        if mc[a] != mc[b]:
            d.append(a)
    return d


# ----------------------------------------------------------------------------- generators

STR = "abcdefgh"


def relabel(nodes, edges, f):
    return [f(n) for n in nodes], [(e, [f(x) for x in ms]) for e, ms in edges]


def closure(nodes, edges, min_size=1):
    """add every subset of size >= min_size of every edge (no repeats)"""
    seen, out = set(), []
    for _, ms in edges:
        for r in range(len(ms), min_size - 1, -1):
            for c in itertools.combinations(ms, r):
                if r >= 1 and frozenset(c) not in seen:
                    seen.add(frozenset(c)); out.append(list(c))
    return nodes, [(i, ms) for i, ms in enumerate(out)]


def mk_cases(nodes, edges, configs=None):
    net = enc_net(nodes, edges)
    return [{"f": "simpliciality", "net": net, "min_size": m, "exclude_min_size": x}
            for m, x in (configs or [(m, x) for m in (1, 2, 3) for x in (True, False)])]


MS_WEIGHT = {1: 2, 2: 3, 3: 3, 4: 4, 5: 3, 6: 1}


def pick_cfg(rng, edges, lo=1, eligible=0.85):
    """one (min_size, exclude_min_size): min_size in lo..6 (weights MS_WEIGHT); with probability `eligible` it is capped so
    that some edge has size >= min_size + exclude_min_size (the scores are then not all NaN), otherwise unrestricted"""
    x = rng.random() < 0.5
    top = max([len(ms) for _, ms in edges], default=0) - int(x)
    hi = 6
    if rng.random() < eligible and top >= lo:
        hi = min(6, top)
        if not x and hi > lo and rng.random() < 0.75:
            hi -= 1  # min_size = largest edge size without exclude_min_size: the normalised edit distance is 0/0 unless sizes are mixed
    rng_ms = list(range(lo, hi + 1))
    m = rng.choices(rng_ms, weights=[MS_WEIGHT[k] for k in rng_ms])[0]
    return m, x


def has_eligible(edges, m, x):
    return any(len(ms) >= m + int(x) for _, ms in edges)


def gen_big(rng):
    """1-3 large faces (4-6 nodes, rarely 7) over 5-7 nodes and most of their sub-faces above a random size: the inputs on
    which min_size >= 4 and edges with more than 5 nodes mean something (sub-face counts, normaliser, overlaps of big faces)"""
    from ..fn import EDGE_IDS, LABELS
    k = rng.choice([5, 6, 6, 6, 7])
    lab = rng.choice(LABELS[:5] + [LABELS[6]])(k)
    rng.shuffle(lab)
    nf = rng.choice([1, 2, 2, 3])
    cap = k if k < 7 else rng.choice([5, 6, 6, 7])
    faces = [rng.sample(lab, rng.randint(4, cap)) for _ in range(nf)]
    if nf >= 2 and rng.random() < 0.5:
        # make the faces overlap in all but one or two nodes (intersections of size >= 3)
        base = faces[0]
        for i in range(1, nf):
            rest = [n for n in lab if n not in base]
            if not rest:
                break
            f = list(base)
            for _ in range(rng.randint(1, min(2, len(rest)))):
                f[rng.randrange(len(f))] = rest.pop(rng.randrange(len(rest)))
                if not rest:
                    break
            faces[i] = list(dict.fromkeys(f))
    lo = rng.choice([1, 2, 3, 3, 4, 4]) if k < 7 else rng.choice([3, 4, 4, 5])
    if any(len(f) >= 7 for f in faces):
        lo = max(lo, 4)  # keeps the edge count (and the cost of the Lean brute-force spec in the driver) moderate
    pool, seen = [], set()
    for f in faces:
        for r in range(lo, len(f) + 1):
            for c in itertools.combinations(f, r):
                if frozenset(c) not in seen:
                    seen.add(frozenset(c)); pool.append(list(c))
    keep = rng.choice([0.0, 0.5, 0.8, 0.9, 0.97, 1.0, 1.0])
    es = [c for c in pool if rng.random() < keep or any(set(c) == set(f) for f in faces)]
    if keep == 1.0 and rng.random() < 0.5 and len(es) > len(faces):
        # a closure above `lo` with exactly one sub-face knocked out
        cand = [i for i, c in enumerate(es) if not any(set(c) == set(f) for f in faces)]
        if cand:
            del es[rng.choice(cand)]
    if rng.random() < 0.07:
        es.append([])  # an empty edge
    for c in es:
        rng.shuffle(c)
    rng.shuffle(es)
    eid = rng.choice(EDGE_IDS)(len(es))
    if len(set(map(repr, eid))) != len(es):
        eid = list(range(len(es)))
    return lab, [(eid[i], ms) for i, ms in enumerate(es)], lo


def gen_overlap(rng):
    """2-4 large overlapping faces over <= 6 nodes plus a random part of their sub-faces (targets the bookkeeping
    of sub-faces shared between maximal faces)"""
    from ..fn import EDGE_IDS, LABELS
    k = rng.randint(4, 6)
    lab = rng.choice(LABELS[:5] + [LABELS[6]])(k)
    rng.shuffle(lab)
    faces = [rng.sample(lab, rng.randint(3, min(5, k))) for _ in range(rng.randint(2, 4))]
    pool, seen = [], set()
    for f in faces:
        for r in range(1, len(f) + 1):
            for c in itertools.combinations(f, r):
                if frozenset(c) not in seen:
                    seen.add(frozenset(c)); pool.append(list(c))
    keep = rng.choice([0.2, 0.5, 0.8, 0.95])
    es = [c for c in pool if rng.random() < keep or any(set(c) == set(f) for f in faces)]
    rng.shuffle(es)
    eid = rng.choice(EDGE_IDS)(len(es))
    if len(set(map(repr, eid))) != len(es):
        eid = list(range(len(es)))
    return lab, [(eid[i], ms) for i, ms in enumerate(es)]


def with_empty_edge(rng, edges):
    """insert one empty edge (an edge without members) at a random position under a fresh ID"""
    used = {repr(e) for e, _ in edges}
    eid = next(i for i in (rng.choice([77, "emp"]), 77, 78, "emp", "emp2") if repr(i) not in used)
    edges = list(edges)
    edges.insert(rng.randint(0, len(edges)), (eid, []))
    return edges


def gen_random(rng, closed_bias=0.0, empty=0.1):
    for _ in range(4):
        nodes, edges = _gen_random(rng, closed_bias)
        if any(len(ms) >= 2 for _, ms in edges) or rng.random() < 0.15:
            break  # inputs without any edge of >= 2 members (all scores NaN / trivially 1): kept, but rarely
    if rng.random() < empty:
        edges = with_empty_edge(rng, edges)
    return nodes, edges


def _gen_random(rng, closed_bias=0.0):
    if rng.random() < 0.3:
        return gen_overlap(rng)
    from ..fn import LABELS
    nodes, edges = gen_hypergraph(rng, max_nodes=6, max_edges=rng.choice([3, 5, 7]), max_size=rng.choice([3, 4, 5]),
                                  multi=False, labels=rng.choice(LABELS[:5] + [LABELS[6]]))
    u = rng.random()
    if u < closed_bias:
        # downward closure (full, or relaxed above a minimum size), sometimes with a few faces knocked out again
        nodes, edges = closure(nodes, edges[:3], min_size=rng.choice([1, 1, 2, 3]))
        if rng.random() < 0.4 and edges:
            k = rng.randint(1, min(3, len(edges)))
            drop = set(rng.sample(range(len(edges)), k))
            edges = [p for i, p in enumerate(edges) if i not in drop]
        rng.shuffle(edges)
        edges = [(i, ms) for i, (_, ms) in enumerate(edges)]
    return nodes, edges


def shrink(case, site, cls):
    """greedy: drop edges, then unused nodes, while the same clause still fails on the implementation"""
    def fails(c):
        try:
            return any(s == site and k == cls for s, k, _ in pred(c, safe_impl(c)))
        except Exception:  # noqa
            return False
    cur = json.loads(json.dumps(case))
    # large inputs: drop blocks of edges (halves, quarters, ...) under a budget before the one-by-one pass
    budget, block = 60, len(cur["net"]["edges"]) // 2
    while len(cur["net"]["edges"]) > 24 and block >= 4 and budget > 0:
        hit = False
        for i in range(0, len(cur["net"]["edges"]), block):
            c = json.loads(json.dumps(cur))
            del c["net"]["edges"][i:i + block]
            budget -= 1
            if fails(c):
                cur, hit = c, True
                break
            if budget <= 0:
                break
        if not hit:
            block //= 2
    if len(cur["net"]["edges"]) > 40:
        return cur
    changed = True
    while changed:
        changed = False
        for i in range(len(cur["net"]["edges"])):
            c = json.loads(json.dumps(cur))
            del c["net"]["edges"][i]
            if fails(c):
                cur, changed = c, True
                break
        if changed:
            continue
        for i, (e, ms) in enumerate(cur["net"]["edges"]):
            for j in range(len(ms)):
                if len(ms) <= 1:
                    continue
                c = json.loads(json.dumps(cur))
                del c["net"]["edges"][i][1][j]
                if not repeated(c) and fails(c):
                    cur, changed = c, True
                    break
            if changed:
                break
    used = {json.dumps(x) for _, ms in cur["net"]["edges"] for x in ms}
    c = json.loads(json.dumps(cur))
    c["net"]["nodes"] = [n for n in c["net"]["nodes"] if json.dumps(n) in used]
    if fails(c):
        cur = c
    return cur


_SHRUNK = {}


def report(ctx, case, site, cls, detail):
    """record a predicate failure with a shrunk, replayable case (detail recomputed on the shrunk case); only the first few
    failures of a clause are shrunk (shrinking re-runs the implementation many times), later ones are recorded as they are -
    `ctx.violation` keeps the smallest witness of each (site, class)"""
    _SHRUNK[(site, cls)] = _SHRUNK.get((site, cls), 0) + 1
    small = shrink(case, site, cls) if _SHRUNK[(site, cls)] <= 4 else case
    for s2, k2, d2 in pred(small, safe_impl(small)):
        if s2 == site and k2 == cls:
            detail = d2
    ctx.violation(site, cls, dict(small, replay_py=py_replay(small)), detail=detail)


def py_replay(case):
    n = {"nodes": [_dec(x) for x in case["net"]["nodes"]], "edges": [(_dec(e), [_dec(x) for x in ms]) for e, ms in case["net"]["edges"]]}
    return (f"import xgi; H=xgi.Hypergraph(); H.add_nodes_from({n['nodes']!r}); "
            f"[H.add_edge(ms, idx=e) for e, ms in {n['edges']!r}]; "
            f"print(xgi.simplicial_edit_distance(H,{case['min_size']},{case['exclude_min_size']},False), "
            f"xgi.simplicial_fraction(H,{case['min_size']},{case['exclude_min_size']}), "
            f"xgi.mean_face_edit_distance(H,{case['min_size']},{case['exclude_min_size']}))")


# ----------------------------------------------------------------------------- predicate-only families (outside the Lean model)

BIG = 2 ** 53


def gen_large(rng):
    """one LARGE hypergraph: 70-90 nodes labelled by ints (some negative, three consecutive ones above 2**53), 20-28 faces of
    3-5 nodes drawn from overlapping windows, about 80% of their sub-faces, padded with random pairs to >= 130 distinct edges"""
    k = rng.randint(70, 90)
    lab = [BIG + 1, BIG + 2, BIG + 3] + [i - 10 for i in range(k - 3)]
    rng.shuffle(lab)
    seen, es = set(), []

    def add(ms):
        if frozenset(ms) not in seen:
            seen.add(frozenset(ms)); es.append(list(ms))
    faces = []
    for _ in range(rng.randint(20, 28)):
        a = rng.randrange(k)
        win = [lab[(a + j) % k] for j in range(8)]
        faces.append(rng.sample(win, rng.randint(3, 5)))
    faces.append([BIG + 1, BIG + 2, BIG + 3, lab[0] if lab[0] < BIG else -9])
    keep = rng.choice([0.6, 0.8, 0.95])
    for f in faces:
        add(f)
        for r in range(1, len(f)):
            for c in itertools.combinations(f, r):
                if rng.random() < keep:
                    add(list(c))
    while len(es) < 130:
        add(rng.sample(lab, 2))
    for ms in es:
        rng.shuffle(ms)
    rng.shuffle(es)
    return lab, [(i, ms) for i, ms in enumerate(es)]


def gen_odd_labels(rng):
    """orderable labels outside the Lean model (Atom = int | str): tuples of ints, floats incl. negative ones and -0.0,
    ints mixed with floats; a random small hypergraph relabelled"""
    nodes, edges = gen_random(rng, closed_bias=0.4, empty=0.05)
    kind = rng.choice(["tuple", "tuple", "float", "int+float"])
    pool = {"tuple": [(0, 1), (1, 0), (0,), (2, 2, 2), (-1, 5), (0, 1, 0), (1,), (3, 0)],
            "float": [0.5, -1.5, 2.25, 1e3, -0.0, 3.0, -7.75, 1e-3],
            "int+float": [0.5, -2, 2.25, 7, -0.5, 3, 10.0, -11]}[kind][:]
    rng.shuffle(pool)
    m = {json.dumps(n): pool[i] for i, n in enumerate(nodes)}
    enc = lambda v: list(v) if isinstance(v, tuple) else v  # noqa
    net = {"nodes": [enc(m[json.dumps(n)]) for n in nodes],
           "edges": [[enc_id(e), [enc(m[json.dumps(x)]) for x in ms]] for e, ms in edges]}
    return kind, net, edges


def pred_only(ctx, cases, label):
    """implementation + property predicate (brute-force definitions) only; nothing is sent to the Lean driver"""
    for c in cases:
        r = safe_impl(c)
        ctx.evaluations += 1
        ctx.stats["cases:" + label + " (predicate only)"] += 1
        if r.get("out") == "ok" and r["sed_raw"] != "nan":
            ctx.nontrivial.add(jhash([c, r]))
        for site, cls, detail in pred(c, r):
            report(ctx, c, site, cls, detail)


# ----------------------------------------------------------------------------- held object (state across calls)

FIVE = ["edit_simpliciality", "simplicial_edit_distance", "face_edit_simpliciality", "mean_face_edit_distance", "simplicial_fraction"]


def _five(H, m, x):
    """the five public functions on the object H under one option tuple; exceptions become outcomes"""
    S = xgi.algorithms.simpliciality
    out = {}
    for name in FIVE:
        for norm in ((True, False) if name in ("simplicial_edit_distance", "mean_face_edit_distance") else (None,)):
            kw = {} if norm is None else {"normalize": norm}
            try:
                v = _f(getattr(S, name)(H, min_size=m, exclude_min_size=x, **kw))
            except Exception as ex:  # noqa
                v = "err:" + type(ex).__name__
            out[name if norm is None else f"{name}(normalize={norm})"] = v
    return out


def _same5(a, b):
    return a == b or (not isinstance(a, str) and not isinstance(b, str) and abs(a - b) <= TOL * max(1.0, abs(b)))


def _held_edit(H, op):
    if op[0] == "add":
        H.add_edge([_dec(x) for x in op[1]])
        return True
    ms = frozenset(_dec(x) for x in op[1])
    for e, mem in H.edges.members(dtype=dict).items():
        if mem == ms:
            if op[0] == "remove":
                H.remove_edge(e)
            elif op[0] == "grow":          # membership changes, the set of edge IDs (and all counts) stays
                H.add_node_to_edge(e, _dec(op[2]))
            elif op[0] == "shrink":
                H.remove_node_from_edge(e, _dec(op[2]))
            else:
                return False
            return True
    return False


def held_eval(case):
    """ONE Hypergraph object H through: the five functions with option tuple A; again with option tuple B and with A; then after
    each group of edits in case["stages"] (count-preserving: remove an edge + add another; ordinary: add an edge) with A and B.
    Every value must equal the same call on a fresh H.copy().  returns ([(site, class, detail)], calls compared)"""
    nodes = [_dec(n) for n in case["net"]["nodes"]]
    edges = [(_dec(e), [_dec(x) for x in ms]) for e, ms in case["net"]["edges"]]
    H = build(nodes, edges)
    A, B = case["configs"][0], case["configs"][1]
    fails, compared = [], 0

    def against_fresh(stage, cls, cfgs):
        nonlocal compared
        for m, x in cfgs:
            held = _five(H, int(m), bool(x))
            ref = _five(H.copy(), int(m), bool(x))
            for k in held:
                compared += 1
                if not _same5(held[k], ref[k]):
                    fails.append((k.split("(")[0], cls, f"{stage}: {k} with min_size={m}, exclude_min_size={bool(x)} on the held object = {held[k]}, "
                                  f"on a fresh copy = {ref[k]}"))
    _five(H, int(A[0]), bool(A[1]))
    against_fresh(f"second round of calls on the same hypergraph (first round used min_size={A[0]}, exclude_min_size={bool(A[1])})",
                  "stale-result-other-options", [B, A])
    for i, ops in enumerate(case.get("stages", [])):
        done = [_held_edit(H, op) for op in ops]
        if any(done):
            against_fresh("after edit %d (%s)" % (i + 1, "; ".join("%s %s" % (op[0], op[1]) for op in ops)), "stale-result-after-edit", [A, B])
    return fails, compared


def gen_held(rng):
    nodes, edges = gen_random(rng, closed_bias=0.5, empty=0.0)
    if rng.random() < 0.3:
        nodes, edges, _ = gen_big(rng)
    if len(nodes) < 3 or not edges:
        nodes, edges = closure([0, 1, 2, 3], [(0, [0, 1, 2]), (1, [2, 3])])
    net = enc_net(nodes, edges)
    A = rng.choice([(3, False), (3, False), (2, False), (1, False), (3, True)])
    B = rng.choice([c for c in [(2, True), (2, True), (1, True), (1, False), (2, False), (3, True)] if c[0] != A[0]])
    sets = [frozenset(map(json.dumps, ms)) for _, ms in net["edges"]]
    stages = []
    for _ in range(20):   # count-preserving: an existing edge goes, a node set that is not an edge comes
        i = rng.randrange(len(net["edges"]))
        new = rng.sample(net["nodes"], rng.randint(1, min(4, len(nodes))))
        if frozenset(map(json.dumps, new)) not in sets:
            stages.append([["remove", net["edges"][i][1]], ["add", new]])
            break
    for _ in range(20):
        new = rng.sample(net["nodes"], rng.randint(2, min(4, len(nodes))))
        if frozenset(map(json.dumps, new)) not in sets and not (stages and new == stages[0][1][1]):
            stages.append([["add", new]])
            break
    # same edge IDs, other membership: a node joins an edge / leaves an edge of >= 2 members
    cand = [(ms, n) for _, ms in net["edges"] for n in net["nodes"] if n not in ms]
    if cand and rng.random() < 0.7:
        ms, n = rng.choice(cand)
        stages.insert(rng.randint(0, len(stages)), [["grow", ms, n]])
    else:
        cand = [ms for _, ms in net["edges"] if len(ms) >= 2]
        if cand:
            ms = rng.choice(cand)
            stages.insert(rng.randint(0, len(stages)), [["shrink", ms, rng.choice(ms)]])
    return {"f": "held", "net": net, "configs": [list(A), list(B)], "stages": stages}


def held_py(case):
    d = lambda ms: [_dec(x) for x in ms]  # noqa
    find = lambda op: f"next(e for e, m in H.edges.members(dtype=dict).items() if m == set({d(op[1])!r}))"  # noqa
    ops = "; ".join((f"H.add_edge({d(op[1])!r})" if op[0] == "add" else
                     f"H.remove_edge({find(op)})" if op[0] == "remove" else
                     f"H.add_node_to_edge({find(op)}, {_dec(op[2])!r})" if op[0] == "grow" else
                     f"H.remove_node_from_edge({find(op)}, {_dec(op[2])!r})")
                    for st in case.get("stages", []) for op in st)
    (a, ax), (b, bx) = case["configs"]
    return (f"import xgi; H=xgi.Hypergraph(); H.add_nodes_from({[_dec(n) for n in case['net']['nodes']]!r}); "
            f"[H.add_edge(ms, idx=e) for e, ms in {[(_dec(e), d(ms)) for e, ms in case['net']['edges']]!r}]; "
            f"f=lambda G,m,x: (xgi.edit_simpliciality(G,m,x), xgi.face_edit_simpliciality(G,m,x), xgi.simplicial_fraction(G,m,x)); "
            f"f(H,{a},{bool(ax)}); print(f(H,{b},{bool(bx)}), f(H.copy(),{b},{bool(bx)})); {ops}; "
            f"print(f(H,{a},{bool(ax)}), f(H.copy(),{a},{bool(ax)}), f(H,{b},{bool(bx)}), f(H.copy(),{b},{bool(bx)}))")


def run_held(ctx, cases):
    for case in cases:
        try:
            fails, compared = held_eval(case)
        except Exception as ex:  # noqa  (construction or edit raised: counted, not a result of the five functions)
            ctx.stats["held-object-sequence-raised:" + type(ex).__name__] += 1
            continue
        ctx.evaluations += 1
        ctx.stats["held-object-sequences"] += 1
        ctx.stats["held-object-calls-compared-with-fresh-copy"] += compared
        seen = set()
        for site, cls, detail in fails:
            if (site, cls) in seen:
                continue
            seen.add((site, cls))

            def still(c, site=site, cls=cls):
                try:
                    return any(s2 == site and c2 == cls for s2, c2, _ in held_eval(c)[0])
                except Exception:  # noqa
                    return False
            small = json.loads(json.dumps(case))
            _SHRUNK[("held", site, cls)] = _SHRUNK.get(("held", site, cls), 0) + 1
            if _SHRUNK[("held", site, cls)] <= 3:
                changed = True
                while changed:
                    changed = False
                    for j in range(len(small["stages"]) - 1, -1, -1):
                        c = json.loads(json.dumps(small)); del c["stages"][j]
                        if still(c):
                            small, changed = c, True
                            break
                    if changed:
                        continue
                    for j in range(len(small["net"]["edges"]) - 1, -1, -1):
                        c = json.loads(json.dumps(small)); del c["net"]["edges"][j]
                        if still(c):
                            small, changed = c, True
                            break
                detail = next((d for s2, c2, d in held_eval(small)[0] if s2 == site and c2 == cls), detail)
            ctx.violation(site, cls, dict(small, replay_py=held_py(small)), detail=detail)


# ----------------------------------------------------------------------------- trie probe

def trie_cases(rng, n):
    out = []
    for _ in range(n):
        strs = rng.random() < 0.4
        uni = [STR[i] for i in range(5)] if strs else [rng.choice([i, 3 * i - 4]) for i in range(5)]
        uni = list(dict.fromkeys(uni))
        def word():
            return rng.sample(uni, rng.randint(0, min(4, len(uni))))
        words = [word() for _ in range(rng.randint(0, 5))]
        queries = [word() for _ in range(4)] + [list(w) for w in words[:2]] + [w[:-1] for w in words[:2] if w]
        for q in queries:
            rng.shuffle(q)
        out.append({"f": "trie", "words": words, "queries": queries})
    return out


def trie_impl(case):
    t = Trie()
    t.build_trie([[_dec(x) for x in w] for w in case["words"]])
    return [bool(t.search([_dec(x) for x in q])) for q in case["queries"]]


# ----------------------------------------------------------------------------- run

def evaluate(ctx, cases, label, verbose=False):
    """implementation + predicate on every case, then the model; returns the disagreements"""
    results = []
    for c in cases:
        r = safe_impl(c)
        results.append(r)
        ctx.evaluations += 1
        ctx.stats["cases:" + label] += 1
        ctx.stats[f"min_size={c['min_size']},excl={c['exclude_min_size']}"] += 1
        if r.get("out") != "ok":
            ctx.stats["impl_" + str(r.get("out"))] += 1
        rep = repeated(c) or c["min_size"] < 1
        if repeated(c):
            ctx.stats["repeated-edge cases (correspondence only)"] += 1
        if c["min_size"] < 1:
            ctx.stats["min_size=0 cases (informational comparison only)"] += 1
        else:
            sizes = sorted(len(ms) for _, ms in c["net"]["edges"])
            if r.get("out") == "ok" and sizes and sizes[-1] >= 2 and (r["sed_raw"] != "nan"):
                ctx.nontrivial.add(jhash([c, r]))
            if sizes and sizes[0] == 0:
                ctx.stats["cases with an empty edge"] += 1
            if r.get("out") == "ok":
                ctx.stats["max_edge_size=%d" % (sizes[-1] if sizes else 0)] += 1
                if r["sed_raw"] == "nan":
                    ctx.stats["no eligible maximal edge (sed NaN)"] += 1
                for k in ("sed_norm", "sf"):
                    ctx.stats[f"{k}:" + ("nan" if r[k] == "nan" else "0" if r[k] == 0 else "1" if r[k] == 1 else "(0,1)")] += 1
        for site, cls, detail in pred(c, r):
            report(ctx, c, site, cls, detail)
        ctx.sample({"request": c, "impl": r}, cap=3)
    resps = run_driver("C15", cases) if cases else []
    dis = []
    for c, r, m in zip(cases, results, resps):
        if m.get("out") == "bad-op":
            raise Infra(f"model C15 rejected request (harness defect): {json.dumps(c)[:300]}")
        if m.get("out") == "unmodelled":
            ctx.stats["unmodelled"] += 1
            if verbose:
                print(json.dumps({"case": c, "impl": r, "model": "unmodelled (outside the domain of the Lean model)",
                                  "predicate_failures": pred(c, r)}, indent=1, default=repr))
            continue
        ctx.traces += 1
        mc = canon(m)
        d = compare(c, r, mc)
        if verbose:
            print(json.dumps({"case": c, "impl": r, "model": mc, "brute": brute(c) if c["min_size"] >= 1 else None,
                              "predicate_failures": pred(c, r), "differs_from_model": d}, indent=1, default=repr))
        if d and c["min_size"] < 1:
            # min_size = 0 is outside the property (the statement's range clause is false there in the unchanged library):
            # a difference between transcription and implementation on such an input is counted, never a broken tie
            ctx.stats["min_size=0: transcription differs from implementation (informational, outside the property)"] += 1
            ctx.extra.setdefault("min_size_0_differences", [])
            if len(ctx.extra["min_size_0_differences"]) < 3:
                ctx.extra["min_size_0_differences"].append({"request": c, "impl": r, "model": mc, "fields": d})
        elif d:
            dis.append((c, r, mc, d))
            ctx.stats["disagree:impl-vs-transcription"] += 1
        d2 = model_vs_spec(c, mc)
        if d2:
            ctx.stats["disagree:transcription-vs-lean-spec"] += 1
            if ctx.stats["disagree:transcription-vs-lean-spec"] <= 3:
                ctx.broken.append(f"Lean transcription and Lean brute-force spec differ on {d2} (theorem would be false): {json.dumps(c)[:300]}")
        if mc.get("closed") and mc.get("no_repeat"):
            ctx.stats["downward-closed cases"] += 1
    if dis:
        ctx.extra.setdefault("disagreements", [])
        for c, r, mc, d in dis[:5]:
            ctx.extra["disagreements"].append({"request": c, "impl": r, "model": mc, "fields": d})
        ctx.extra["disagreements_total"] = ctx.extra.get("disagreements_total", 0) + len(dis)
        ctx.broken.append(f"correspondence simpliciality: transcription and implementation differ on {len(dis)} of {len(cases)} cases "
                          f"(fields: {sorted({f for _, _, _, d in dis for f in d})})")
    return dis


def run_trie(ctx, cases):
    resps = run_driver("C15", cases) if cases else []
    bad = 0
    for c, m in zip(cases, resps):
        if m.get("out") != "ok":
            raise Infra(f"trie probe rejected: {c} -> {m}")
        got = trie_impl(c)
        ctx.evaluations += 1
        ctx.traces += 1
        ctx.stats["cases:trie"] += 1
        want = [frozenset(map(_dec, q)) in {frozenset(map(_dec, w)) for w in c["words"]} for q in c["queries"]]
        if got != want:
            ctx.violation("Trie.search", "search-differs-from-membership", c, detail=f"search {got} membership {want}")
        if got != m["found"]:
            bad += 1
    if bad:
        ctx.broken.append(f"correspondence trie: model and implementation differ on {bad} of {len(cases)} probes")
    return bad


def load_cases(path):
    """cases of one corpus / replay file: a bare case, {"case": …} (replay files written by `finish`), or
    {"net": …, "configs": [[min_size, exclude_min_size], …]} (one network under several settings)"""
    j = json.load(open(path))
    if isinstance(j, dict) and "case" in j:
        j = j["case"]
    if not isinstance(j, dict):
        raise Infra(f"{path}: not a C15 case")
    if "configs" in j:
        return [{"f": "simpliciality", "net": j["net"], "min_size": int(m), "exclude_min_size": bool(x)} for m, x in j["configs"]]
    j = {k: v for k, v in j.items() if k not in ("replay_py", "comment")}
    if j.get("f") not in ("simpliciality", "trie", "held"):
        raise Infra(f"{path}: not a C15 case (f = {j.get('f')!r})")
    return [j]


def corpus_cases():
    d = os.path.join(VERIF, "corpus", "C15")
    out = []
    if os.path.isdir(d):
        for f in sorted(os.listdir(d)):
            if f.endswith(".json"):
                out += load_cases(os.path.join(d, f))
    return out


def describe(ctx):
    ctx.extra["float_rule"] = "|x - p/q| <= 1e-9*max(1,|p/q|); NaN <-> undefined"
    ctx.rule = ("fixed corpus first (corpus/C15: closures and partial closures of 4-7 node faces, three overlapping 5-node faces, empty edges, min_size 1-6 - and three min_size = 0 inputs for the correspondence -, both "
                "exclude_min_size); hypergraphs without repeated edges: small scope (<=4 nodes, <=3 edges; exhaustive in the thorough tier), random ones on "
                "<=6 nodes (edge size <=5, isolated nodes, int or str labels, shuffled node order, mixed edge IDs, 10% with an empty edge), 35% of them (partial) downward closures, "
                "and 'big-face' inputs (1-3 faces of 4-7 nodes over 5-7 nodes with most sub-faces above a random size, often a closure with one sub-face "
                "knocked out); x min_size 1..6 (weights 2:3:3:4:3:1, in 85% of the draws capped so that an eligible edge exists) x exclude_min_size x normalize; "
                "plus repeated-edge inputs for the correspondence only, min_size=0 inputs as an informational comparison (outside the property; a difference there "
                "is counted in the statistics and never breaks the tie) and direct Trie probes (shuffled words/queries vs set membership); "
                "PREDICATE ONLY (nothing sent to the driver): per run one LARGE hypergraph (70-90 int-labelled nodes incl. three consecutive labels above 2**53 and "
                "negative ones, 130-300 distinct edges of <= 5 nodes: 20-28 overlapping faces with 60-95% of their sub-faces, padded with pairs) under two settings, "
                "against the enumeration restricted to subsets of edges; 60 small hypergraphs relabelled with tuples of ints / floats (negative, -0.0) / ints mixed "
                "with floats (built edge by edge with add_edge, never through the bulk constructor); "
                "HELD-OBJECT sequences (implementation against itself): one Hypergraph H, the five public functions with option tuple A, then on the same H with "
                "B (other min_size) and A again, then after a count-preserving edit (remove an edge, add a non-edge), after an added edge and after a membership change "
                "that keeps the edge IDs (add_node_to_edge / remove_node_from_edge) with A and B; every "
                "value must equal the same call on a fresh H.copy(); "
                "non-trivial = distinct (input, result) with an edge of >= 2 members and an eligible maximal edge (sed not NaN); the share of cases whose "
                "scores are NaN is reported in coverage.nan_share")
    ctx.assumptions = ["node labels all int or all str (Python's sorted() raises on mixed labels): mixed / non-orderable labels are outside the model and never generated",
                       "empty edges are inside the model, the theorems and the predicate (EdgeView.maximal treats an empty edge as contained in every edge "
                       "since fix 8eb4626; about 10% of the random inputs carry one)",
                       "min_size >= 1 is the domain of the predicate, the theorems AND the correspondence; min_size = 0 is outside the property: the statement's own "
                       "range clause is false there in the unchanged library (face_edit_simpliciality of the single edge ['a','b','c'] with min_size=0 is -0.1667; the "
                       "empty set is enumerated as a sub-face and counted once per non-adjacent maximal face). The transcription is still run on min_size = 0 inputs "
                       "and differences are counted (stats 'min_size=0: transcription differs ...', extra.min_size_0_differences) but they do not break the tie, so a "
                       "rewrite that behaves differently only at min_size = 0 is not reported",
                       "tuple and float node labels and the large hypergraphs are outside the Lean model (Atom = int | str; the Lean brute-force spec enumerates all "
                       "node subsets): on them only the property predicate is evaluated on the implementation (Python enumeration; for the large ones over subsets of "
                       "edges, which is what every clause quantifies over)",
                       "held-object sequences compare the implementation with itself (held object vs fresh copy); a memo shared between different objects with equal "
                       "content would be invisible there (the ordinary cases, each a fresh object, meet the enumeration and the model instead)",
                       "repeated edges (multi-edges): correspondence only, as the property statement excludes them (the theorems hold for them too)",
                       "iteration order of Python sets is not modelled: every consumer counts, collects into a set, or takes all()",
                       "CONVENTION ADOPTED FROM THE CODE: mean_face_edit_distance returns 0 (not NaN) when there is no eligible maximal edge, hence "
                       "face_edit_simpliciality = 1 there (e.g. on a hypergraph without edges); the Lean spec (specMFED) and the Python enumeration adopt this "
                       "convention, and theorem closed_one_fes ('always 1 on downward-closed inputs') rests on it. The property text allows 'in [0,1] or NaN', "
                       "so this is no violation, but 'average over maximal edges' of an empty family is a choice, not a consequence"]
    n = sum(v for k, v in ctx.stats.items() if k.startswith("sed_norm:"))
    if n:
        ctx.extra["nan_share"] = {"scored_cases(min_size>=1, no exception)": n,
                                  "sed_norm_nan": round(ctx.stats["sed_norm:nan"] / n, 3), "sf_nan": round(ctx.stats["sf:nan"] / n, 3),
                                  "sed_raw_nan(no eligible maximal edge)": round(ctx.stats["no eligible maximal edge (sed NaN)"] / n, 3)}


TRUSTED = TRUSTED_COMMON + [
    "scipy.special.binom modelled as the binomial coefficient; numpy NaN as `undefined`; floats compared to exact rationals by the float rule",
    "frozenset equality modelled as equality of sorted tuples (proved equivalent to set equality on orderable labels: sorted_eq_iff)",
    "the independent Python enumeration `brute()` in harness/props/c15.py (the property's definitions, written from the statement)"]


def run(ctx):
    ok = build_and_audit(ctx, "XgiModel.Props.C15", ["XgiModel.C15.Drive"])
    rng = ctx.rng
    dis = []
    cc = [c for c in corpus_cases() if c["f"] == "simpliciality"]
    ctx.stats["corpus_cases"] = len(cc)
    if cc:
        dis += evaluate(ctx, cc, "corpus")
    # exhaustive small scope
    if ctx.quick:
        small = list(all_small_hypergraphs(4, 2))
        pick = rng.sample(range(len(small)), 40)
        small = [small[i] for i in pick]
        three = list(all_small_hypergraphs(4, 3))
        small += [three[i] for i in rng.sample(range(len(three)), 60)]
    else:
        small = list(all_small_hypergraphs(4, 3))
    cases = []
    for nodes, edges in small:
        cs = mk_cases(nodes, edges)
        if ctx.quick:
            # quick tier: every setting under which some edge is eligible, the all-NaN settings only now and then
            cs = [c for c in cs if has_eligible(edges, c["min_size"], c["exclude_min_size"]) or rng.random() < 0.2]
        cases += cs
        if not ctx.quick or rng.random() < 0.3:
            cases += mk_cases(*relabel(nodes, edges, lambda n: STR[n]), configs=None if not ctx.quick else [pick_cfg(rng, edges)])
        if not ctx.quick or rng.random() < 0.15:
            cases += mk_cases(nodes, with_empty_edge(rng, edges), configs=[pick_cfg(rng, edges)])
    dis += evaluate(ctx, cases, "small-scope")
    # random hypergraphs on <= 6 nodes, a third of them (partial) downward closures
    nrand = ctx.n(250, 8000)
    cases = []
    for i in range(nrand):
        nodes, edges = gen_random(rng, closed_bias=0.35)
        cfg = None if (not ctx.quick and i % 4 == 0) else list(dict.fromkeys(pick_cfg(rng, edges) for _ in range(2)))
        cases += mk_cases(nodes, edges, cfg)
    # big faces: 4-7 node faces with most of their sub-faces; min_size from the level above which sub-faces were kept upwards
    for i in range(ctx.n(100, 1500)):
        nodes, edges, lo = gen_big(rng)
        cfg = list(dict.fromkeys([pick_cfg(rng, edges, lo=min(lo, 4)), pick_cfg(rng, edges, lo=min(lo + 1, 4))]))
        cases += mk_cases(nodes, edges, cfg)
    # repeated edges: correspondence only (the model transcribes the code there too; the property does not speak about them)
    for i in range(ctx.n(20, 400)):
        nodes, edges = gen_hypergraph(rng, max_nodes=5, max_edges=5, max_size=4, multi=True, uniform_labels=True)
        cases += mk_cases(nodes, edges, [pick_cfg(rng, edges)])
    # min_size = 0: correspondence only
    for i in range(ctx.n(12, 300)):
        nodes, edges = gen_random(rng, closed_bias=0.3)
        cases += mk_cases(nodes, edges, [(0, rng.random() < 0.5)])
    for k in range(0, len(cases), 20000):
        dis += evaluate(ctx, cases[k:k + 20000], "random")
    # REGIME: large hypergraphs (>= 70 nodes, >= 130 edges, labels above 2**53) - predicate only, the Lean brute-force spec
    # enumerates all node subsets and cannot run there
    big_cases = []
    for i in range(ctx.n(1, 6)):
        nodes, edges = gen_large(rng)
        big_cases += mk_cases(nodes, edges, [(2, True), rng.choice([(1, False), (3, False), (2, False), (3, True)])])
    pred_only(ctx, big_cases, "large")
    # tuple / float / int+float node labels: orderable, but outside the Lean model - predicate only
    odd = []
    for i in range(ctx.n(60, 1500)):
        kind, net, edges = gen_odd_labels(rng)
        for m, x in dict.fromkeys(pick_cfg(rng, edges) for _ in range(2)):
            odd.append({"f": "simpliciality", "net": net, "min_size": m, "exclude_min_size": x})
        ctx.stats["labels:" + kind] += 1
    pred_only(ctx, odd, "tuple/float labels")
    # HELD OBJECT: one Hypergraph through two option tuples, a count-preserving edit and an added edge
    run_held(ctx, [gen_held(rng) for _ in range(ctx.n(60, 1500))])
    bad = run_trie(ctx, trie_cases(ctx.rng, ctx.n(100, 3000)))

    def search():
        # harder search on the implementation alone: predicate on many more inputs biased to overlapping maximal faces
        for i in range(ctx.n(1500, 30000)):
            if i % 5 == 0:
                nodes, edges, _ = gen_big(rng)
            else:
                nodes, edges = gen_random(rng, closed_bias=0.3)
            for c in mk_cases(nodes, edges, [pick_cfg(rng, edges)]):
                r = safe_impl(c)
                ctx.evaluations += 1
                ctx.stats["cases:targeted-search"] += 1
                for site, cls, detail in pred(c, r):
                    report(ctx, c, site, cls, detail)

    conclude(ctx, ok and not bad and not any("spec differ" in b for b in ctx.broken), dis, search)
    ctx.exhaustive = not ctx.quick
    ctx.extra["exhaustive_space"] = ("all hypergraphs with <= 3 distinct non-empty edges over 4 nodes (576), int and str labels, x min_size in {1,2,3} "
                                     "x exclude_min_size x normalize (plus, for each, one variant with an added empty edge under a random setting)" if not ctx.quick else "sample of that space (quick tier)")
    describe(ctx)
    return finish(ctx, trusted_base=TRUSTED)


def replay(ctx, path):
    """re-run the case(s) of one replay / corpus file through the same path as `run`: build + audit, implementation, predicate,
    model correspondence, verdict by `conclude`/`finish` (known findings apply; exit 1 on a predicate failure, and also on a
    model disagreement or a broken obligation, then as `no-failing-input-found`).  The evidence record of a replay goes to
    out/replay-evidence-C15.json; evidence/C15.json (the record of the last full run) is not touched."""
    from .. import core

    def _write(prop, ev):
        os.makedirs(core.OUT, exist_ok=True)
        with open(os.path.join(core.OUT, f"replay-evidence-{prop}.json"), "w") as f:
            json.dump(core.jsonable(ev), f, indent=1)
    core.write_evidence = _write
    cases = load_cases(path)
    ok = build_and_audit(ctx, "XgiModel.Props.C15", ["XgiModel.C15.Drive"])
    simp = [c for c in cases if c["f"] == "simpliciality"]
    tries = [c for c in cases if c["f"] == "trie"]
    dis = evaluate(ctx, simp, "replay", verbose=True) if simp else []
    bad = run_trie(ctx, tries) if tries else 0
    run_held(ctx, [c for c in cases if c["f"] == "held"])
    conclude(ctx, ok and not bad and not any("spec differ" in b for b in ctx.broken), dis, None)
    describe(ctx)
    ctx.rule = f"replay of {os.path.relpath(os.path.abspath(path), VERIF)}: {len(cases)} case(s)"
    ctx.extra["replay_of"] = os.path.abspath(path)
    return finish(ctx, trusted_base=TRUSTED)
