"""C03 — simplicial complexes stay downward closed and duplicate-free.

After every public call of a generated history (also after calls that raised) the predicate below is evaluated on
the real `xgi.SimplicialComplex` through its public API, and the full snapshot is compared with the Lean model
`SC.step` (lean/XgiModel/C03/SC.lean) run on the same request lines.
"""
import copy
import itertools
import json
import os

from .. import sc as M
from ..core import OUT, TRUSTED_COMMON, build_and_audit, finish, idkey, load_known, unlisted_violations
from ..sm import first_pred_failure, replay_sm, run_sm, targeted_search

FIELDS = ["out", "nodes", "edges", "mem", "memb", "nattr", "eattr", "nattrK", "eattrK", "net", "uid", "frozen", "res", "clone"]
# freeze() and the three cloning routes validate the frozen semantics of SC.step (Props/C18S) and SC.copy / SC.ofComplex /
# HG.pickleRoundTrip (Props/C07S) step by step; a history that freezes is refused everything afterwards, hence the small weight
WEIGHTS = {"freeze": 0.5, "copy": 1.5, "pickle": 0.7, "construct": 1.5,
           # NOT generated: the inherited Hypergraph mutators random_edge_shuffle / double_edge_swap / remove_node_from_edge.
           # C03's statement enumerates "a simplicial complex's own mutating calls (adding simplices ..., removing simplices
           # by ID, removing nodes, closing, cleanup, the deprecated edge aliases)"; the inherited edge shuffle / swap are
           # outside that enumeration (V2 of review 2: random_edge_shuffle does break closure — recorded as an observation
           # in the manifest note; harness/sc.py can generate these calls when a check names them in its weights).
           "add_node_to_edge": 0.4,     # refused by the class itself ("not implemented in SimplicialComplex")
           # input families of harness/sc.py (share of the histories that use them)
           "$exotic": 0.12, "$tuples": 0.12, "$containers": 0.2, "$large": 0.02}
# the second run of the regime family: every quick run has at least this many large histories
LARGE_RUNS = 2

ADD1 = ("add_simplex", "add_edge")
ADDN = ("add_simplices_from", "add_edges_from", "add_weighted_simplices_from", "add_weighted_edges_from")
RM1 = ("remove_simplex_id", "remove_edge")
RMN = ("remove_simplex_ids_from", "remove_edges_from")


def k(x):
    """hashable key of a JSON-encoded id (int | str | None | list for a tuple id).  IDs outside the model's domain travel
    as "$x:<kind>:<text>" (harness/dhg.py): a numpy integer and a float that is an integer are the dict key of the int
    they equal (np.int64(1) == 1.0 == 1, same hash)"""
    if isinstance(x, list):
        return tuple(k(y) for y in x)
    if isinstance(x, str) and x.startswith("$x:np:"):
        return int(x[6:])
    if isinstance(x, str) and x.startswith("$x:float:"):
        f = float(x[9:])
        return int(f) if f.is_integer() else x
    return x


STATE = ("nodes", "edges", "mem", "memb", "nattr", "eattr", "nattrK", "eattrK", "net", "uid", "frozen")


def srt(xs):
    return sorted(xs, key=idkey)


def fs(ms):
    return frozenset(k(m) for m in ms)


def memmap(snap):
    """id-key -> frozenset of member keys (None when unreadable)"""
    return {k(e): (fs(ms) if isinstance(ms, list) else None) for e, ms in snap["mem"]}


def pred(snap, op, prev, exc):
    """the clauses of C03 after one call.  After one of the inherited Hypergraph mutators (harness/sc.py INHERITED: edge
    shuffle / swap, node <-> edge links — public methods of the class, listed by SimplicialComplex.freeze() among the
    mutators it disables) the failing clauses are reported under ONE class that names the cause."""
    fails = clauses(snap, op, prev, exc)
    if op["op"] in M.INHERITED and fails and fails[0][0] not in ("call-does-not-return", "id-outside-domain"):
        what = "; ".join(f"{c}: {d}" for c, d in fails[:3])
        return [("inherited-mutator-breaks-complex", f"{op['op']} on a SimplicialComplex "
                 + ("returned" if exc is None else f"raised {type(exc).__name__}") + f" and left: {what}")]
    return fails


def clauses(snap, op, prev, exc):
    fails = []
    name = op["op"]
    if snap.get("out") == "err:hang":        # harness/sc.py watchdog: the call never came back
        return [] if getattr(exc, "presumed", False) else [("call-does-not-return", str(exc))]
    if snap.get("garbage"):                  # harness/sc.py snapshot: something that was never given as an ID is stored as one
        return [("id-outside-domain", snap["garbage"])]
    nodes, edges = snap["nodes"], snap["edges"]
    mem = memmap(snap)
    memb = {k(n): (fs(es) if isinstance(es, list) else None) for n, es in snap["memb"]}
    nodeset = {k(n) for n in nodes}
    # ---- exactly one attribute record per id (first: the common symptom of a write that raised half-way)
    if any(a == "$missing" for _, a in snap["eattr"]) or srt(map(k, snap["eattrK"])) != srt(map(k, edges)):
        fails.append(("edge-attr-record", f"edge attribute records {snap['eattrK']} vs simplices {edges}"))
    if any(a == "$missing" for _, a in snap["nattr"]) or srt(map(k, snap["nattrK"])) != srt(map(k, nodes)):
        fails.append(("node-attr-record", f"node attribute records {snap['nattrK']} vs nodes {nodes}"))
    # ---- no simplex is empty
    for e, ms in snap["mem"]:
        if isinstance(ms, list) and not ms:
            fails.append(("empty-simplex", f"simplex {e!r} has no members"))
            break
    # ---- a simplex is an immutable, hashable node set (S.edges.members(e) is a frozenset, as documented)
    if snap.get("memtype"):
        fails.append(("simplex-not-frozenset", f"members of simplices {snap['memtype']} are not handed out as frozensets"))
    # ---- two-way incidence
    if None in nodes or None in edges:
        fails.append(("none-id", "None is a node or simplex id"))
    for e, ms in snap["mem"]:
        if not isinstance(ms, list):
            fails.append(("members-unreadable", f"simplex {e!r}: {ms}")); continue
        for n in ms:
            if k(n) not in nodeset:
                fails.append(("member-not-a-node", f"simplex {e!r} lists {n!r} which is not a node"))
            elif memb.get(k(n)) is None or k(e) not in memb[k(n)]:
                fails.append(("member-without-membership", f"{n!r} in simplex {e!r} but {e!r} not in memberships({n!r})"))
    for n, es in snap["memb"]:
        if not isinstance(es, list):
            fails.append(("memberships-unreadable", f"node {n!r}: {es}")); continue
        for e in es:
            if k(e) not in mem:
                fails.append(("membership-not-a-simplex", f"node {n!r} lists simplex {e!r} which does not exist"))
            elif mem[k(e)] is None or k(n) not in mem[k(e)]:
                fails.append(("membership-without-member", f"{e!r} in memberships({n!r}) but {n!r} not in members({e!r})"))
    sets = [m for m in mem.values() if m is not None]
    setset = set(sets)
    # ---- no two ids with the same node set
    if len(setset) != len(sets):
        seen = {}
        for e, m in mem.items():
            if m in seen:
                fails.append(("duplicate-members", f"simplices {seen[m]} and {e} have the same members {srt(m)}"))
                break
            seen[m] = e
    # ---- downward closure (brute force)
    done = False
    for e, m in mem.items():
        if m is None or done:
            continue
        ml = srt(m)
        for r in range(2, len(ml)):
            for c in itertools.combinations(ml, r):
                if frozenset(c) not in setset:
                    fails.append(("not-closed", f"simplex {e} = {ml} but its face {list(c)} is not a simplex"))
                    done = True
                    break
            if done:
                break
    # ---- has_simplex answers membership exactly (all subsets of the node set)
    if snap.get("has") is not None:
        if any(isinstance(h, str) for h in snap["has"]):
            fails.append(("has-simplex-raises", str([h for h in snap["has"] if isinstance(h, str)][:1])))
        else:
            has = {fs(h) for h in snap["has"]}
            if has != setset:
                d = [srt(x) for x in list(has ^ setset)[:2]]
                fails.append(("has-simplex-wrong", f"has_simplex disagrees with the member sets on {d}"))
    if name == "has_simplex" and exc is None:
        want = fs(op["members"]) in setset
        if snap.get("res") is not want:
            fails.append(("has-simplex-wrong", f"has_simplex({op['members']}) = {snap.get('res')}, member sets say {want}"))
    pm = memmap(prev)
    # (on a frozen complex every one of these calls is refused: what a removal / addition must achieve does not apply;
    #  that nothing changes then is C18's clause, decided there and compared here with the model's frozen semantics)
    thawed = not prev.get("frozen")
    # ---- removing a simplex removes exactly it and the simplices containing it
    if thawed and name in RM1 + RMN and all(v is not None for v in pm.values()):
        ids = [op["e"]] if name in RM1 else op["es"]
        cur = dict(pm)
        start = set(cur)
        raised = False
        for i in ids:
            ki = k(i)
            if name in RMN and ki in start and ki not in cur:
                continue
            if ki not in cur:
                raised = True
                break
            t = cur[ki]
            cur = {f: m for f, m in cur.items() if not t <= m}
        if cur != mem or raised != (exc is not None):
            fails.append(("removal-inexact", f"after removing {ids}: expected simplices {srt(cur)} raise={raised}, "
                                             f"got {srt(mem)} raise={exc is not None}"))
    # ---- removing a node is strong: exactly the simplices containing it go
    if thawed and name in ("remove_node", "remove_nodes_from") and all(v is not None for v in pm.values()):
        ns = [op["n"]] if name == "remove_node" else op["ns"]
        cur, curn = dict(pm), [k(n) for n in prev["nodes"]]
        raised = False
        for n in ns:
            kn = k(n)
            if kn not in curn:
                if name == "remove_node":
                    raised = True
                    break
                continue
            curn = [x for x in curn if x != kn]
            cur = {f: m for f, m in cur.items() if kn not in m}
        if cur != mem or curn != [k(n) for n in nodes] or raised != (exc is not None):
            fails.append(("node-removal-inexact", f"after removing nodes {ns}: expected simplices {srt(cur)} nodes {curn}, "
                                                  f"got {srt(mem)} nodes {[k(n) for n in nodes]}"))
    # ---- closing adds the missing subfaces and nothing else: no node, no simplex that is not a face of an old simplex
    if name == "close" and all(v is not None for v in pm.values()):
        newn = [n for n in nodes if k(n) not in {k(x) for x in prev["nodes"]}]
        newf = [(f, srt(m)) for f, m in mem.items() if f not in pm and m is not None and not any(m <= o for o in pm.values())]
        if newn or newf:
            fails.append(("close-adds-non-face", f"close() created nodes {newn} and simplices {newf[:3]} that are no subfaces "
                                                 f"of the simplices {srt(map(srt, set(pm.values())))[:4]}"))
    # ---- additions
    if name in ADD1 + ADDN + ("close",):
        # an addition never removes or changes an existing simplex
        for f, m in pm.items():
            if mem.get(f, "absent") != m:
                fails.append(("existing-simplex-changed", f"simplex {f} was {srt(m) if m is not None else m}, now "
                                                          f"{srt(mem[f]) if mem.get(f) else mem.get(f, 'absent')}"))
                break
        psets = set(pm.values())
        # simplices added under a maximum order never exceed it
        if name in ADDN and op.get("max_order") is not None:
            for f, m in mem.items():
                if m is not None and pm.get(f, "absent") != m and len(m) > op["max_order"] + 1:
                    fails.append(("max-order-exceeded", f"max_order={op['max_order']} but new simplex {f} = {srt(m)}"))
                    break
        if exc is None:
            if name in ADD1:
                ms = op["members"]
                if ms and None not in ms and fs(ms) not in psets:
                    if op["idx"] != "$auto" and op["idx"] is not None and k(op["idx"]) not in pm:
                        if mem.get(k(op["idx"])) != fs(ms):
                            fails.append(("explicit-id-ignored", f"{name}({ms}, idx={op['idx']!r}) did not create simplex {op['idx']!r}"))
                    elif op["idx"] != "$auto" and op["idx"] is not None and mem != pm:
                        fails.append(("explicit-id-ignored", f"{name}({ms}, idx={op['idx']!r}): the id exists, the call must be "
                                                             f"refused, but the simplices changed"))
                    elif op["idx"] == "$auto" and fs(ms) not in setset:
                        fails.append(("added-simplex-missing", f"{name}({ms}) returned but {ms} is not a simplex"))
            if name in ADDN and not any(None in it["members"] for it in op["items"]):
                kmax = op.get("max_order")
                used = set()
                for it in op["items"]:
                    ms = it["members"]
                    if not ms:
                        continue
                    explicit = "idx" in it
                    if explicit and (it["idx"] is None or k(it["idx"]) in pm or k(it["idx"]) in used):
                        continue
                    if explicit:
                        used.add(k(it["idx"]))
                    if kmax is not None and len(ms) > kmax + 1:
                        want = [frozenset(c) for r in range(2, kmax + 2) for c in itertools.combinations(srt(fs(ms)), r)]
                    else:
                        want = [fs(ms)]
                    miss = [srt(w) for w in want if w not in setset]
                    if miss:
                        fails.append(("added-simplex-missing", f"{name} returned but {miss[0]} (from {ms}) is not a simplex"))
                        break
    return fails


def derive(snap):
    return snap


def small_scope():
    """all call sequences of length <= 3 over a 20-call alphabet (incl. freeze and copy) on the node universe {1,2,3}"""
    A = lambda ms, idx="$auto": {"op": "add_simplex", "members": ms, "idx": idx, "attr": []}
    alpha = [A(list(c)) for r in (1, 2, 3) for c in itertools.combinations([1, 2, 3], r)]
    alpha += [A([1, 2, 3], 0), A([1, 2], 0)]
    alpha += [{"op": "add_simplices_from", "fmt": 1, "items": [{"members": [1, 2, 3]}], "max_order": 1, "attr": []},
              {"op": "add_simplices_from", "fmt": 2, "items": [{"members": [1, 2, 3], "idx": 5}, {"members": [2, 3], "idx": 0}],
               "max_order": None, "attr": []}]
    alpha += [{"op": "remove_simplex_id", "e": e} for e in (0, 1, 2, 3)]
    alpha += [{"op": "remove_simplex_ids_from", "es": [1, 0]}, {"op": "remove_node", "n": 1}, {"op": "remove_node", "n": 2}]
    alpha += [{"op": "freeze"}, {"op": "copy"}]
    out = []
    for n in (1, 2, 3):
        for seq in itertools.product(alpha, repeat=n):
            out.append([json.loads(json.dumps(o)) for o in seq])
    return out, len(alpha)


def _has_none(op):
    if op["op"] in ADD1:
        return None in op["members"]
    if op["op"] in ADDN:
        return any(None in it["members"] or ("idx" in it and it["idx"] is None) for it in op["items"])
    return False


def explain(ctx, dis, hist, corr_name):
    """Split the disagreements into those explained by a *listed* known finding and the rest.  The model describes the
    code with the proposed fixes applied, so on a tree where a listed defect is still present the implementation leaves
    the model exactly where that defect is hit.  A disagreement is explained iff (1) the implementation has failed the
    predicate with a listed (site, failure class) at or before that step of the history (its state is off the
    specification from then on), or (2) the call is an addition whose arguments contain None (member or id) at a site
    whose validate-first / faces-after-raise findings (F3c / F3e) are still listed - the only inputs on which the
    unfixed code differs from the fixed one without breaking the predicate (a None member in a simplex cut by
    max_order=0 is silently accepted; faces queued for cut simplices are dropped when a later element raises), or (4) the
    call is close() while its finding `close-adds-non-face` is listed (the unrepaired close() refuses a complex whose first
    face mixes str and other labels), or (3)
    the call is the alias add_edges_from with a max_order while its dropped-argument finding is listed (a too large
    simplex whose explicit id already exists is refused with a warning instead of being cut).
    The excuses disappear with the entries of known_findings/C03.json."""
    known = {(f["site"], f["failure_class"]) for f in load_known() if f["property"] == ctx.prop}
    rest, explained = [], 0
    for d in dis:
        hi, oi = d[0], d[1]
        ops = hist[hi][: oi + 1]
        r = first_pred_failure(M, copy.deepcopy(ops), pred, derive)
        if r is not None and (ops[r[0]]["op"], r[1]) in known:
            explained += 1
            continue
        site = ops[-1]["op"]
        if _has_none(ops[-1]) and ((site, "edge-attr-record") in known or (site, "not-closed") in known):
            explained += 1
            continue
        if site in M.INHERITED and (site, "inherited-mutator-breaks-complex") in known:
            explained += 1          # (5) the model describes the class that refuses the inherited mutator with XGIError; the
            continue                #     unrepaired method fails with its own error kind (ValueError from random.sample, IDNotFound …)
        if site == "close" and ("close", "close-adds-non-face") in known:
            explained += 1          # (4) close() still hands faces over as tuples: a first face that mixes str and other labels is
            continue                #     refused ("Members cannot be specified as a string"); the model describes the repaired close()
        if site == "add_edges_from" and ops[-1].get("max_order") is not None and (site, "max-order-exceeded") in known:
            explained += 1          # (3) the alias drops max_order: a cut simplex whose explicit id exists is refused instead
            continue
        rest.append(d)
    ctx.extra["disagreements_explained_by_known_findings"] = explained
    ctx.extra["disagreements_unexplained"] = len(rest)
    if explained and not rest:
        ctx.broken[:] = [b for b in ctx.broken if not b.startswith(corr_name)]
        ctx.extra.pop("disagreements", None)
    return rest


def conclude(ctx, ok, dis, hist):
    if (dis or not ok) and not unlisted_violations(ctx):
        targeted_search(ctx, M, pred, dis, hist, n=ctx.n(1200, 15000), hist_len=(1, 22), derive=derive)
        if not unlisted_violations(ctx):
            ctx.violation("model-tie", "unproven", {"broken": ctx.broken, "example": ctx.extra.get("disagreements", [])[:1]},
                          detail="; ".join(ctx.broken)[:500], kind="unproven", broken=ctx.broken)


CORR = "correspondence SC~SimplicialComplex (full snapshot)"
RULE = ("histories of 1-22 public calls on xgi.SimplicialComplex from one PRNG: add_simplex (explicit ids incl. 0 / "
        "automatic), add_simplices_from in the five formats with max_order in {None,0..4}, weighted additions, simplices "
        "of 1-6 nodes over universes of 4-7 labels (already-present, sub-face, overlapping, repeated-node, empty and "
        "None-containing member lists), remove_simplex_id(s_from) incl. ids that disappear mid-loop, remove_node(s), "
        "close, cleanup, the deprecated aliases, has_simplex queries, occasionally freeze() (everything after it must be "
        "refused) and copy() / pickle round trip / SimplicialComplex(S) whose clone is compared with the model's; corpus/C03 "
        "replays first; input families: exotic explicit IDs, tuple node labels, member containers (set / frozenset / tuple / dict "
        "keys / numpy array / generator; bunch as list / tuple / generator; the same simplex twice in one bunch), two large "
        "complexes per run (74 labels, IDs above 2**53); non-trivial = distinct "
        "full snapshot with a simplex of >=3 nodes after >=2 op kinds")
ASSUMPTIONS = ["node labels int/str/tuple (tuple labels in 12 % of the histories; a format-1 bunch then starts with a set), simplex IDs "
               "int/str/None in the model; explicit IDs uuid.UUID / 10**309 / floats / numpy integers / bytes are generated in 12 % of "
               "the histories and judged by the predicate only (numpy integers also by the model, as ints); bool/float node labels, "
               "unhashable members and numpy arrays as member containers are outside the model",
               "the inherited Hypergraph mutators random_edge_shuffle / double_edge_swap / remove_node_from_edge are outside the "
               "statement's enumeration of the complex's own mutating calls and are not generated",
               "set iteration order reaches the model only as order hints (creation order of faces and nodes, "
               "list(frozenset) for close) recorded on the implementation; the hints reorder, they never decide "
               "which simplices exist, and the theorems hold for all hints",
               "weighted additions: every tuple carries a weight (no empty tuples)"]
TRUSTED = TRUSTED_COMMON + [
    "harness/sc.py hint recording (new edges / new nodes in dict order after the call)",
    "itertools.combinations / utilities.powerset modelled as `combs` (same order); frozenset equality as mutual inclusion"]


def run(ctx):
    ok = build_and_audit(ctx, "XgiModel.Props.C03", ["XgiModel.C03.Drive"])
    ctx.rule = RULE
    try:        # a class whose empty instance cannot be built or read is reported, not a reason to crash
        M.snapshot(M.factory())
    except BaseException as ex:  # noqa
        ctx.violation("SimplicialComplex", "empty-network-unusable", {"class": M.NAME, "ops": []},
                      detail=f"xgi.SimplicialComplex() cannot be created / observed: {type(ex).__name__}: {str(ex)[:200]}")
        return finish(ctx, trusted_base=TRUSTED)
    extra = []
    if not ctx.quick:
        extra, na = small_scope()
        ctx.exhaustive = True
        ctx.extra["exhaustive_space"] = (f"correspondence (validation of the model, not the proof): all {len(extra)} call sequences "
                                         f"of length <= 3 over a {na}-call alphabet on the node universe {{1,2,3}}")
    # regime family: every run has large complexes (>= 70 node labels and simplex IDs, labels and IDs above 2**53)
    extra = list(extra) + [M.gen_history(ctx.rng, 2, 6, {**WEIGHTS, "$large": 1.0}) for _ in range(LARGE_RUNS)]
    dis, hist = run_sm(ctx, M, "SC", FIELDS, pred, ctx.n(110, 3000), hist_len=(1, 20), derive=derive,
                       corr_name=CORR, extra_histories=extra, weights=WEIGHTS)
    dis = explain(ctx, dis, hist, CORR)
    conclude(ctx, ok, dis, hist)
    ctx.assumptions = ASSUMPTIONS
    return finish(ctx, trusted_base=TRUSTED)


def replay(ctx, path):
    """./check C03 --replay <file>: re-run one stored case (replay file or corpus file) on the implementation and the model"""
    j = json.load(open(path))
    if "case" not in j and "ops" in j:        # corpus file
        os.makedirs(OUT, exist_ok=True)
        tmp = os.path.join(OUT, "c03-replay-tmp.json")
        json.dump({"case": {"ops": j["ops"]}}, open(tmp, "w"))
        path = tmp
    return replay_sm(ctx, M, "SC", FIELDS, pred, path, derive=derive)
