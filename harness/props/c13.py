"""C13 — boundary operators form a chain complex.

Cases are *recipes* for a real `xgi.SimplicialComplex` (≤ 3 generating simplices on ≤ 5 vertices, any label
scheme, explicit or automatic simplex ids, four ways of constructing it, an orientation rule).  For every
recipe and every order k in 0..dim+1 the check

  * evaluates the clauses of C13 on what `xgi.boundary_matrix` / `xgi.hodge_laplacian` return (shape, column
    support = faces with ±1, B_{k-1} @ B_k == 0 exactly, L_k symmetric and equal to B_k^T B_k + B_{k+1} B_{k+1}^T,
    x^T L_k x >= -1e-9, dim ker L_0 (exact rank over fractions) == number of connected components, counted by a
    union-find over all simplices and by `xgi.number_connected_components` of the 1-skeleton);
  * compares matrix, row keys and column keys entry by entry with the Lean model (Drivers/C13.lean), compares the
    model's component count `nComponents` (proved equal to dim ker L_0: `ker_L0_finrank`) with both counts and with
    the exact kernel dimension of the implementation's matrix, and checks that the complex the implementation
    built satisfies the hypotheses `WF` of the theorems (the model decides it).
"""
import copy
import glob
import itertools
import json
import os
import zlib
from fractions import Fraction

import numpy as np
import xgi

from ..core import TRUSTED_COMMON, VERIF, Infra, build_and_audit, enc_id, finish, idkey, jhash, run_driver
from ..fn import conclude

# ----------------------------------------------------------------------------- recipes

# vertex i of an abstract complex on {0..4} gets label SCHEME[i]; the schemes are chosen so that the code's sort
# key (isinstance(e, str), e) differs from insertion order, from numeric order of the text, and from str order
LABEL_SCHEMES = {
    "range": [0, 1, 2, 3, 4],
    "one_based": [1, 2, 3, 4, 5],
    "reversed": [14, 11, 8, 5, 2],
    "negative": [0, -1, 7, -3, 2],
    "letters": ["a", "b", "c", "d", "e"],
    "letters_rev": ["e", "d", "c", "b", "a"],
    "numeric_text": ["10", "9", "100", "2", "1"],
    "case": ["b", "B", "a", "A", "ab"],
    "mixed": [0, "a", 1, "b", 2],
    "mixed2": ["x", 3, "10", 10, -1],
    "unicode": ["é", "z", "Z", "", " "],
}
ID_SCHEMES = {
    "auto": None,
    "text": ["s0", "s1", "s2"],
    "text_rev": ["z", "y", "x"],
    "big": [100, 50, 75],
    "mixed": ["m", 1000, "k"],
}
CTORS = ["add_simplex", "add_simplices_from", "list", "dict"]
ORIENT_MODES = ["none", "zeros", "ones", "crc", "bool"]


def member_key(ms):
    return json.dumps(sorted((enc_id(x) for x in ms), key=idkey))


def orient_bit(ms, salt):
    return zlib.crc32((member_key(ms) + "#%d" % salt).encode()) & 1


def build(rec):
    """recipe -> real SimplicialComplex"""
    facets = [list(f) for f in rec["facets"]]
    ids = rec.get("ids")
    ctor = rec.get("ctor", "add_simplex")
    if ids is None and ctor == "dict":
        ctor = "list"
    if ids is None and ctor in ("list", "add_simplices_from") and facets and isinstance(facets[0][0], str) \
            and not all(isinstance(x, str) for x in facets[0]):
        # xgi's format detection reads a first simplex that starts with a str as (members, id[, attr]);
        # that ambiguity of the input format is not C13's subject: put a number first
        f = facets[0]
        k = next(i for i, x in enumerate(f) if not isinstance(x, str))
        facets[0] = [f[k]] + f[:k] + f[k + 1:]
    if ctor == "list" and not rec.get("nodes_first"):
        return xgi.SimplicialComplex(facets)
    if ctor == "dict" and not rec.get("nodes_first"):
        return xgi.SimplicialComplex({ids[i]: f for i, f in enumerate(facets)})
    S = xgi.SimplicialComplex()
    if rec.get("nodes_first"):
        S.add_nodes_from(rec["nodes_first"])
    if ctor == "add_simplex":
        for i, f in enumerate(facets):
            if ids is None:
                S.add_simplex(f)
            else:
                S.add_simplex(f, idx=ids[i])
    elif ctor == "dict":
        S.add_simplices_from({ids[i]: f for i, f in enumerate(facets)})
    elif ids is None:
        S.add_simplices_from(facets)
    else:
        S.add_simplices_from([(f, ids[i]) for i, f in enumerate(facets)])
    return S


def orientation(S, spec):
    mode, salt = spec.get("mode", "none"), spec.get("salt", 0)
    if mode == "none":
        return None
    out = {}
    for e, ms in S.edges.members(dtype=dict).items():
        if len(ms) >= 2 or spec.get("all_keys"):
            b = {"zeros": 0, "ones": 1}.get(mode)
            if b is None:
                b = orient_bit(ms, salt)
            out[e] = bool(b) if mode == "bool" else b
    return out


def gen_recipe(rng, max_vertices=5, max_facets=3):
    nv = min(max_vertices, rng.choice([1, 2, 3, 3, 4, 4, 4, 5, 5, 5, 5, 5]))
    scheme = rng.choice(sorted(LABEL_SCHEMES))
    labels = LABEL_SCHEMES[scheme][:]
    if rng.random() < 0.4:
        rng.shuffle(labels)
    labels = labels[:nv]
    nf = min(max_facets, rng.choice([0, 1, 1, 2, 2, 2, 3, 3, 3, 3]))
    facets = []
    for _ in range(nf):
        size = min(nv, rng.choice([1, 2, 2, 3, 3, 3, 3, 4, 4, 4, 5]))
        f = rng.sample(labels, size)
        facets.append(f)
    idn = rng.choice(sorted(ID_SCHEMES))
    ids = ID_SCHEMES[idn][:nf] if ID_SCHEMES[idn] is not None else None
    nodes_first = None
    if rng.random() < 0.5:
        nodes_first = labels[:]
        rng.shuffle(nodes_first)
        if rng.random() < 0.5:
            nodes_first = nodes_first[: rng.randint(0, nv)]
    return {"scheme": scheme, "facets": facets, "ids": ids, "ctor": rng.choice(CTORS), "nodes_first": nodes_first,
            "orient": {"mode": rng.choice(ORIENT_MODES), "salt": rng.randint(0, 10 ** 6), "all_keys": rng.random() < 0.2}}


def closure(facets):
    out = set()
    for f in facets:
        for r in range(1, len(f) + 1):
            out.update(frozenset(c) for c in itertools.combinations(sorted(f), r))
    return frozenset(out)


def all_small_complexes(n=5, max_facets=3):
    """every simplicial complex generated by <= max_facets non-empty subsets of range(n): yields one generator
    list per distinct complex (distinct = different set of simplices, isolated vertices not included)"""
    subsets = [list(c) for r in range(1, n + 1) for c in itertools.combinations(range(n), r)]
    seen = set()
    for m in range(max_facets + 1):
        for combo in itertools.combinations(subsets, m):
            cl = closure(combo)
            if cl in seen:
                continue
            seen.add(cl)
            yield [list(f) for f in combo]


# ----------------------------------------------------------------------------- implementation side

def mat(B):
    out = []
    for row in np.asarray(B).tolist():
        out.append([int(v) if float(v) == int(v) else float(v) for v in row])
    return out


def keys_of(d):
    return [enc_id(d[i]) for i in range(len(d))]


def call_boundary(S, k, o):
    try:
        B, rd, cd = xgi.boundary_matrix(S, k, o, True)
    except Exception as ex:  # noqa
        return None, {"out": "err", "exc": type(ex).__name__ + ": " + str(ex)[:120]}
    B = np.asarray(B)
    return (B, rd, cd), {"out": "ok", "shape": list(B.shape), "rows": keys_of(rd), "cols": keys_of(cd), "M": mat(B)}


def call_hodge(S, k, o):
    try:
        L, md = xgi.hodge_laplacian(S, k, o, True)
    except Exception as ex:  # noqa
        return None, {"out": "err", "exc": type(ex).__name__ + ": " + str(ex)[:120]}
    L = np.asarray(L)
    return (L, md), {"out": "ok", "shape": list(L.shape), "keys": keys_of(md), "M": mat(L)}


def rank_exact(M):
    """rank of an integer matrix by Gaussian elimination over fractions.Fraction"""
    A = [[Fraction(v) for v in row] for row in M]
    rank, rows, cols = 0, len(A), len(A[0]) if A else 0
    for c in range(cols):
        piv = next((r for r in range(rank, rows) if A[r][c] != 0), None)
        if piv is None:
            continue
        A[rank], A[piv] = A[piv], A[rank]
        for r in range(rows):
            if r != rank and A[r][c] != 0:
                f = A[r][c] / A[rank][c]
                A[r] = [a - f * b for a, b in zip(A[r], A[rank])]
        rank += 1
    return rank


def n_components(S):
    parent = {n: n for n in S.nodes}

    def find(x):
        while parent[x] != x:
            parent[x] = parent[parent[x]]
            x = parent[x]
        return x
    for ms in S.edges.members():
        ms = list(ms)
        for a in ms[1:]:
            parent[find(a)] = find(ms[0])
    return len({find(n) for n in S.nodes})


def n_components_xgi(S):
    """`xgi.number_connected_components` of the 1-skeleton (nodes + simplices with two members)"""
    H = xgi.Hypergraph()
    H.add_nodes_from(S.nodes)
    for ms in S.edges.members():
        if len(ms) == 2:
            H.add_edge(list(ms))
    return int(xgi.number_connected_components(H))


def evaluate(rec, xs_rng=None):
    """build the complex, call the implementation for every order, evaluate the C13 clauses.
    returns (requests, impl_results, failures[(site, class, detail, k)], info)"""
    S = build(rec)
    o = orientation(S, rec.get("orient", {}))
    members = S.edges.members(dtype=dict)
    sizes = [len(ms) for ms in members.values()]
    dim = max(sizes) - 1 if sizes else 0
    nodes = list(S.nodes)
    net = {"nodes": [enc_id(n) for n in nodes],
           "simplices": [[enc_id(e), [enc_id(x) for x in ms]] for e, ms in members.items()]}
    # the model receives the orientation dict exactly as the implementation does (None -> null)
    oj = None if o is None else [[enc_id(e), int(v)] for e, v in o.items()]
    orders = list(range(0, dim + 2))
    if rec.get("order") is not None:
        orders = [rec["order"]]
    reqs, impls, fails = [], [], []
    Bs, Ls = {}, {}
    want = sorted(set(orders) | {k - 1 for k in orders if k >= 1} | {k + 1 for k in orders})
    for k in want:
        raw, res = call_boundary(S, k, o)
        Bs[k] = (raw, res)
        if k in orders:
            reqs.append(dict(net, f="boundary_matrix", order=k, orient=oj)); impls.append(res)
    for k in orders:
        raw, res = call_hodge(S, k, o)
        Ls[k] = (raw, res)
        reqs.append(dict(net, f="hodge_laplacian", order=k, orient=oj)); impls.append(res)

    def of_order(k):
        return nodes if k == 0 else [e for e, ms in members.items() if len(ms) == k + 1]

    def vertex_set(k, key):
        return frozenset([key]) if k == 0 else members[key]

    for k in orders:
        raw, res = Bs[k]
        if raw is None:
            fails.append(("boundary_matrix", "raises", res["exc"], k)); continue
        B, rd, cd = raw
        # shape and keys: rows = simplices of order k-1, columns = simplices of order k, in view order
        exp_rows = of_order(k - 1) if k >= 1 else []
        exp_cols = of_order(k)
        if [rd[i] for i in range(len(rd))] != exp_rows or [cd[i] for i in range(len(cd))] != exp_cols or \
                list(B.shape) != [len(exp_rows), len(exp_cols)]:
            fails.append(("boundary_matrix", "shape-or-keys", f"order {k}: shape {B.shape}, rows {rd}, cols {cd}; "
                          f"expected rows {exp_rows}, cols {exp_cols}", k)); continue
        try:
            B2 = xgi.boundary_matrix(S, k, o, False)
            if np.asarray(B2).shape != B.shape or not np.array_equal(np.asarray(B2), B):
                fails.append(("boundary_matrix", "index-flag-changes-matrix", f"order {k}", k))
        except Exception as ex:  # noqa
            fails.append(("boundary_matrix", "raises", f"index=False: {type(ex).__name__}: {ex}", k))
        if k >= 1:
            for j, c in enumerate(exp_cols):
                cset = vertex_set(k, c)
                faces = {r for r in exp_rows if vertex_set(k - 1, r) < cset}
                col = B[:, j]
                nz = {exp_rows[i] for i in range(len(exp_rows)) if col[i] != 0}
                if any(v not in (0.0, 1.0, -1.0) for v in col.tolist()):
                    fails.append(("boundary_matrix", "entry-not-pm1", f"order {k} column {c!r}: {col.tolist()}", k))
                elif len(nz) != k + 1:
                    fails.append(("boundary_matrix", "column-nonzero-count", f"order {k} column {c!r} ({sorted(map(repr, cset))}) has "
                                  f"{len(nz)} non-zeros, expected {k + 1}", k))
                elif nz != faces:
                    fails.append(("boundary_matrix", "column-support-not-faces", f"order {k} column {c!r}: non-zeros at {nz}, faces {faces}", k))
            rawp, resp = Bs[k - 1]
            if rawp is not None:
                P = rawp[0]
                if P.shape[1] != B.shape[0]:
                    fails.append(("boundary_matrix", "shape-or-keys", f"B_{k-1} is {P.shape}, B_{k} is {B.shape}", k))
                else:
                    prod = P @ B
                    if np.any(prod != 0):
                        fails.append(("boundary_matrix", "dd-nonzero", f"B_{k-1} @ B_{k} = {prod.tolist()}", k))
    for k in orders:
        raw, res = Ls[k]
        if raw is None:
            fails.append(("hodge_laplacian", "raises", res["exc"], k)); continue
        L, md = raw
        keys = of_order(k)
        if [md[i] for i in range(len(md))] != keys or list(L.shape) != [len(keys), len(keys)]:
            fails.append(("hodge_laplacian", "shape-or-keys", f"order {k}: shape {L.shape}, keys {md}, expected {keys}", k)); continue
        try:
            L2 = np.asarray(xgi.hodge_laplacian(S, k, o, False))
            if L2.shape != L.shape or not np.array_equal(L2, L):
                fails.append(("hodge_laplacian", "index-flag-changes-matrix", f"order {k}", k))
        except Exception as ex:  # noqa
            fails.append(("hodge_laplacian", "raises", f"index=False: {type(ex).__name__}: {ex}", k))
        if not np.array_equal(L, L.T):
            fails.append(("hodge_laplacian", "not-symmetric", f"order {k}: {L.tolist()}", k))
        if Bs[k][0] is not None and Bs[k + 1][0] is not None:
            Bk, Bk1 = Bs[k][0][0], Bs[k + 1][0][0]
            if Bk.shape[1] == L.shape[0] and Bk1.shape[0] == L.shape[0]:
                ref = Bk.T @ Bk + Bk1 @ Bk1.T
                if not np.array_equal(ref, L):
                    fails.append(("hodge_laplacian", "not-down-plus-up", f"order {k}: L={L.tolist()} but B_k^T B_k + B_k+1 B_k+1^T={ref.tolist()}", k))
        if xs_rng is not None and L.shape[0] > 0:
            for _ in range(3):
                x = np.array([xs_rng.gauss(0, 1) for _ in range(L.shape[0])])
                q = float(x @ L @ x)
                if not q >= -1e-9:
                    fails.append(("hodge_laplacian", "not-psd", f"order {k}: x={x.tolist()} gives x^T L x = {q}", k)); break
        if any(float(v) != int(v) for row in L.tolist() for v in row):
            fails.append(("hodge_laplacian", "entry-not-integer", f"order {k}: {L.tolist()}", k))
        elif L.shape[0] > 0:
            # exact positive semidefiniteness witness is the decomposition above; exact kernel for order 0
            if k == 0:
                ker = L.shape[0] - rank_exact(mat(L))
                nc = n_components(S)
                res["ker"], res["ncomp"] = ker, nc
                if ker != nc:
                    fails.append(("hodge_laplacian", "kernel-L0-vs-components", f"dim ker L_0 = {ker}, components = {nc}", k))
                try:
                    ncx = n_components_xgi(S)
                except Exception as ex:  # noqa  (never silent; the count is then simply not available)
                    ncx = None
                    res["ncomp_xgi_exc"] = type(ex).__name__
                res["ncomp_xgi"] = ncx
                if ncx is not None and ker != ncx:
                    fails.append(("hodge_laplacian", "kernel-L0-vs-xgi-components",
                                  f"dim ker L_0 = {ker}, xgi.number_connected_components(1-skeleton) = {ncx}", k))
        if k == 0 and L.shape[0] == 0:
            res["ker"], res["ncomp"], res["ncomp_xgi"] = 0, n_components(S), None
    info = {"dim": dim, "n_nodes": len(nodes), "n_simplices": len(members), "labels": sorted({type(n).__name__ for n in nodes})}
    return reqs, impls, fails, info


# ----------------------------------------------------------------------------- shrinking, comparison

def shrink(rec, still_fails, budget=150):
    rec = copy.deepcopy(rec)

    def ok(c):
        nonlocal budget
        budget -= 1
        try:
            return budget >= 0 and still_fails(c)
        except Exception:  # noqa
            return False
    changed = True
    while changed and budget > 0:
        changed = False
        for i in range(len(rec["facets"]) - 1, -1, -1):
            c = copy.deepcopy(rec)
            del c["facets"][i]
            if c.get("ids"):
                del c["ids"][i]
            if ok(c):
                rec, changed = c, True
        for i in range(len(rec["facets"])):
            for j in range(len(rec["facets"][i]) - 1, -1, -1):
                if len(rec["facets"][i]) > 1:
                    c = copy.deepcopy(rec)
                    del c["facets"][i][j]
                    if ok(c):
                        rec, changed = c, True
                        break
        for key, val in (("nodes_first", None), ("ids", None), ("ctor", "add_simplex")):
            if rec.get(key) != val:
                c = copy.deepcopy(rec)
                c[key] = val
                if ok(c):
                    rec, changed = c, True
        if rec.get("orient", {}).get("mode") != "none":
            c = copy.deepcopy(rec)
            c["orient"] = {"mode": "none", "salt": 0}
            if ok(c):
                rec, changed = c, True
    return rec


def strip(r):
    return {k: v for k, v in r.items() if k not in ("wf", "exc", "ker", "ncomp", "ncomp_xgi", "ncomp_xgi_exc")}


def process(ctx, recipes, name):
    """evaluate recipes on the implementation (predicate) and compare with the model; returns disagreements"""
    all_reqs, all_impl, owner = [], [], []
    for rec in recipes:
        try:
            reqs, impls, fails, info = evaluate(rec, ctx.rng)
        except Infra:
            raise
        except Exception as ex:  # noqa  (the construction itself failed: not C13's concern, but never silent)
            ctx.stats["recipe-build-raised:" + type(ex).__name__] += 1
            continue
        ctx.evaluations += len(reqs)
        ctx.stats["dim:%d" % info["dim"]] += 1
        ctx.stats["labels:" + "+".join(info["labels"])] += 1
        ctx.stats["orient:" + rec.get("orient", {}).get("mode", "none")] += 1
        ctx.stats["ctor:" + rec.get("ctor", "add_simplex")] += 1
        ctx.stats["ids:" + ("auto" if rec.get("ids") is None else "explicit")] += 1
        if info["dim"] >= 2:
            ctx.nontrivial.add(jhash([reqs[0]["nodes"], reqs[0]["simplices"], reqs[0]["orient"]]))
        for site, cls, detail, k in fails:
            def still(c, site=site, cls=cls):
                return any(s == site and c2 == cls for s, c2, _, _ in evaluate(c, None)[2])
            small = shrink(rec, still) if cls != "not-psd" else rec
            if small is not rec:
                try:
                    detail = next((d for s2, c2, d, _ in evaluate(small, None)[2] if s2 == site and c2 == cls), detail)
                except Exception:  # noqa
                    pass
            ctx.violation(site, cls, small, detail=detail)
        if reqs:
            ctx.sample({"recipe": rec, "request": reqs[-1], "impl": impls[-1]}, cap=3)
        all_reqs += reqs
        all_impl += impls
        owner += [rec] * len(reqs)
    if not all_reqs:
        return []
    resps = run_driver("C13", all_reqs)
    dis = []
    for rec, q, r, m in zip(owner, all_reqs, all_impl, resps):
        if m.get("out") == "bad-op":
            raise Infra(f"model C13 rejected request (harness defect): {json.dumps(q)[:300]}")
        if m.get("out") == "unmodelled":
            ctx.stats["unmodelled"] += 1
            continue
        ctx.traces += 1
        ctx.stats["fn:" + q["f"]] += 1
        if m.get("out") == "ok" and m.get("wf") is not True:
            ctx.stats["hypotheses-WF-not-met"] += 1
            dis.append((rec, q, r, {"wf": m.get("wf")}, "hypotheses"))
            continue
        if strip(r) != strip(m):
            dis.append((rec, q, r, m, "matrix"))
            ctx.stats["disagree:" + q["f"]] += 1
        elif q["f"] == "hodge_laplacian" and q["order"] == 0 and m.get("out") == "ok":
            # the proved count (ker_L0_finrank: dim ker L_0 = nComponents) against the implementation's exact kernel
            # dimension, the harness union-find and xgi.number_connected_components of the 1-skeleton
            mc = m.get("ncomp")
            if not isinstance(mc, int):
                raise Infra(f"model C13 did not report ncomp for order 0: {json.dumps(m)[:200]}")
            ctx.stats["ncomp-compared"] += 1
            ctx.stats["ncomp:%s" % (mc if mc < 4 else "4+")] += 1
            others = {k2: r.get(k2) for k2 in ("ker", "ncomp", "ncomp_xgi") if r.get(k2) is not None}
            if r.get("ncomp_xgi_exc"):
                ctx.stats["ncomp-xgi-raised:" + r["ncomp_xgi_exc"]] += 1
            if "ker" not in others or "ncomp" not in others or any(v != mc for v in others.values()):
                dis.append((rec, q, {k2: r.get(k2) for k2 in ("ker", "ncomp", "ncomp_xgi")}, {"ncomp": mc}, "components"))
                ctx.stats["disagree:ncomp"] += 1
    if dis:
        ctx.extra.setdefault("disagreements", [])
        for rec, q, r, m, why in dis[:5]:
            ctx.extra["disagreements"].append({"recipe": rec, "request": q, "impl": r, "model": m, "why": why})
        ctx.extra["disagreements_total"] = ctx.extra.get("disagreements_total", 0) + len(dis)
        kinds = sorted({why for *_, why in dis})
        ctx.broken.append(f"correspondence {name}: model and implementation differ on {len(dis)} of {len(all_reqs)} calls "
                          f"({', '.join(kinds)}; functions: {sorted({q['f'] for _, q, *_ in dis})})")
    return dis


def corpus():
    out = []
    for f in sorted(glob.glob(os.path.join(VERIF, "corpus", "C13", "*.json"))):
        try:
            j = json.load(open(f))
            out.append(j.get("case", j))
        except Exception:  # noqa
            pass
    return out


FIXED = [
    # the two complexes of tests/linalg, a mixed-label one, a non-sorted insertion, explicit ids, singleton simplex
    {"facets": [[1, 2, 3], [2, 3, 4], [0, 1]], "ids": None, "ctor": "list", "nodes_first": None, "orient": {"mode": "none"}},
    {"facets": [[3, 1, 2], [2, "a"]], "ids": None, "ctor": "list", "nodes_first": None, "orient": {"mode": "crc", "salt": 1}},
    {"facets": [["b", "a", 5], [1]], "ids": ["s", "t"], "ctor": "add_simplex", "nodes_first": [9, "b"], "orient": {"mode": "ones"}},
    {"facets": [["10", "9", "100", "2"], ["2", "1"]], "ids": ["x", 77], "ctor": "dict", "nodes_first": None, "orient": {"mode": "bool", "salt": 5}},
    {"facets": [[4, 3, 2, 1, 0]], "ids": None, "ctor": "add_simplices_from", "nodes_first": [4, 2, 0, 1, 3], "orient": {"mode": "crc", "salt": 3}},
    {"facets": [], "ids": None, "ctor": "add_simplex", "nodes_first": [1, 2], "orient": {"mode": "none"}},
    {"facets": [], "ids": None, "ctor": "add_simplex", "nodes_first": None, "orient": {"mode": "zeros"}},
]


def relabel(facets, labels):
    return [[labels[v] for v in f] for f in facets]


def run(ctx):
    ok = build_and_audit(ctx, "XgiModel.Props.C13", ["XgiModel.C13.Drive"])
    rng = ctx.rng
    ctx.rule = ("recipes for a real xgi.SimplicialComplex: 0-3 generating simplices of 1-5 vertices on <= 5 vertices, 11 label "
                "schemes (ints, negative, text, numeric text, mixed int/str, case, unicode; optionally shuffled), automatic or "
                "explicit simplex ids, 4 construction routes, optional add_nodes_from first (isolated nodes, non-sorted node order), "
                "orientations None / all 0 / all 1 / pseudo-random ints / pseudo-random bools; every order 0..dim+1, both functions; "
                "one evaluation = one call compared; non-trivial = distinct (complex, labels, orientation) with a simplex of order >= 2")
    dis = process(ctx, corpus() + copy.deepcopy(FIXED), "C13~hodge_matrix (corpus + fixed)")
    recipes = [gen_recipe(rng) for _ in range(ctx.n(250, 4000))]
    dis += process(ctx, recipes, "C13~hodge_matrix (generated)")
    if not ctx.quick:
        # exhaustive small scope of the correspondence: every complex generated by <= 3 simplices on 5 vertices,
        # once with plain labels and default orientation, once with a random labelling / ids / route / orientation
        gens = list(all_small_complexes(5, 3))
        ex = []
        for g in gens:
            ex.append({"facets": g, "ids": None, "ctor": "list", "nodes_first": None, "orient": {"mode": "none"}})
            scheme = rng.choice(sorted(LABEL_SCHEMES))
            labels = LABEL_SCHEMES[scheme][:]
            rng.shuffle(labels)
            idn = rng.choice(sorted(ID_SCHEMES))
            fs = relabel(g, labels)
            for f in fs:
                rng.shuffle(f)
            ex.append({"scheme": scheme, "facets": fs, "ids": ID_SCHEMES[idn][:len(g)] if ID_SCHEMES[idn] else None,
                       "ctor": rng.choice(CTORS), "nodes_first": rng.sample(labels, 5) if rng.random() < 0.5 else None,
                       "orient": {"mode": rng.choice(ORIENT_MODES[2:]), "salt": rng.randint(0, 10 ** 6)}})
        for i in range(0, len(ex), 2000):
            dis += process(ctx, ex[i:i + 2000], "C13~hodge_matrix (exhaustive small scope)")
        ctx.exhaustive = True
        ctx.extra["exhaustive_space"] = (f"all {len(gens)} distinct simplicial complexes generated by <= 3 non-empty simplices on the "
                                         "vertex set {0..4}, orders 0..dim+1, boundary_matrix and hodge_laplacian: once with labels 0..4 "
                                         "and orientations=None, once relabelled/re-routed/oriented at random (validation of the model, not the proof)")

    def search():
        more = [gen_recipe(rng) for _ in range(ctx.n(1500, 10000))]
        for rec in more:
            try:
                _, _, fails, _ = evaluate(rec, rng)
            except Exception:  # noqa
                continue
            ctx.evaluations += 1
            for site, cls, detail, k in fails:
                ctx.violation(site, cls, rec, detail=detail)
    # no hidden state: boundary matrices / Hodge Laplacians of an edited complex must be those of its current structure
    from ..stale import check_sc

    def _gen_sc(rng):
        import xgi
        S = xgi.SimplicialComplex()
        nodes = list(range(rng.randint(3, 5)))
        S.add_nodes_from(nodes)
        for _ in range(rng.randint(1, 3)):
            S.add_simplex(rng.sample(nodes, rng.randint(2, min(4, len(nodes)))))
        return S
    import xgi as _xgi
    check_sc(ctx, ctx.rng, _gen_sc, {
        "boundary_matrix(order=1)": lambda S: _xgi.boundary_matrix(S, order=1),
        "boundary_matrix(order=2)": lambda S: _xgi.boundary_matrix(S, order=2),
        "hodge_laplacian(order=0)": lambda S: _xgi.hodge_laplacian(S, order=0),
        "hodge_laplacian(order=1)": lambda S: _xgi.hodge_laplacian(S, order=1),
    }, ctx.n(40, 800))
    conclude(ctx, ok, dis, search)
    ctx.assumptions = [
        "node labels are int or str (the code's sort key orders nothing else); bool/float/tuple labels outside the model",
        "orientation dicts cover every simplex of order >= 1 with values in {0, 1, False, True}",
        "theorems assume WF (ids unique, members duplicate-free nodes, no empty simplex, distinct member sets, downward closed); "
        "the driver decides WF on every complex the real constructor produced and the check fails if it does not hold",
        "numpy zeros / item assignment / transpose / @ / + are modelled as exact integer matrix operations",
        "dim ker L_0 = number of connected components is proved for the model's L_0 over every ordered field (ker_L0_finrank, "
        "with the component count nComponents the driver reports); on the implementation it is checked by exact rank over "
        "fractions against a union-find, xgi.number_connected_components of the 1-skeleton and the model's count",
    ]
    return finish(ctx, trusted_base=TRUSTED_COMMON + [
        "Python's list.sort(key=…) is a stable sort (model: stable insertion sort by the same key); itertools.combinations order = `combs`",
        "fractions.Fraction Gaussian elimination and a union-find in the harness (kernel-vs-components clause)"])


def replay(ctx, path):
    j = json.load(open(path))
    rec = j.get("case", j)
    ok = build_and_audit(ctx, "XgiModel.Props.C13", ["XgiModel.C13.Drive"])
    dis = process(ctx, [rec], "C13~hodge_matrix (replay)")
    conclude(ctx, ok, dis, None)
    return finish(ctx, trusted_base=TRUSTED_COMMON)
