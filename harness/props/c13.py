"""C13 — boundary operators form a chain complex.

Cases are *recipes* for a real `xgi.SimplicialComplex` (≤ 4 generating simplices on ≤ 6 vertices, any label
scheme, explicit or automatic simplex ids, four ways of constructing it, an orientation rule with values in
{0, 1, 2, 3, False, True}).  For every
recipe and every order k in 0..dim+1 the check

  * evaluates the clauses of C13 on what `xgi.boundary_matrix` / `xgi.hodge_laplacian` return (shape, column
    support = faces with ±1, B_{k-1} @ B_k == 0 exactly, L_k symmetric and equal to B_k^T B_k + B_{k+1} B_{k+1}^T,
    x^T L_k x >= -1e-9, dim ker L_0 (exact rank over fractions) == number of connected components, counted by a
    union-find over all simplices and by `xgi.number_connected_components` of the 1-skeleton);
  * compares matrix, row keys and column keys entry by entry with the Lean model (Drivers/C13.lean), compares the
    model's component count `nComponents` (proved equal to dim ker L_0: `ker_L0_finrank`) with both counts and with
    the exact kernel dimension of the implementation's matrix, and checks that the complex the implementation
    built satisfies the hypotheses `WF` of the theorems (the model decides it).
"""
import copy
import glob
import itertools
import json
import os
import zlib
from fractions import Fraction

import numpy as np
import xgi

from ..core import TRUSTED_COMMON, VERIF, Infra, build_and_audit, enc_id, finish, idkey, jhash, run_driver
from ..fn import conclude

# ----------------------------------------------------------------------------- recipes

# vertex i of an abstract complex on {0..4} gets label SCHEME[i]; the schemes are chosen so that the code's sort
# key (isinstance(e, str), e) differs from insertion order, from numeric order of the text, and from str order
LABEL_SCHEMES = {
    "range": [0, 1, 2, 3, 4, 5],
    "one_based": [1, 2, 3, 4, 5, 6],
    "reversed": [14, 11, 8, 5, 2, -1],
    "negative": [0, -1, 7, -3, 2, -10],
    "letters": ["a", "b", "c", "d", "e", "f"],
    "letters_rev": ["e", "d", "c", "b", "a", "Z"],
    "numeric_text": ["10", "9", "100", "2", "1", "-1"],
    "case": ["b", "B", "a", "A", "ab", "aB"],
    "mixed": [0, "a", 1, "b", 2, "0"],
    "mixed2": ["x", 3, "10", 10, -1, "-1"],
    "unicode": ["é", "z", "Z", "", " ", "e"],
}
# float labels ("numeric labels" of the property text) are outside the Lean model (Atom = int | str): complexes with
# these labels are evaluated on the implementation only (property predicate), not compared with the model
FLOAT_SCHEMES = {
    "floats": [0.5, -1.5, 2.25, 1e3, -0.0, 3.0],
    "float_mixed": [1.5, "a", 2, -2.5, "1.5", 0],
}
ID_SCHEMES = {
    "auto": None,
    "text": ["s0", "s1", "s2", "s3"],
    "text_rev": ["z", "y", "x", "w"],
    "big": [1000, 500, 750, 600],
    "mixed": ["m", 10000, "k", 7000],
    # tuple simplex IDs (written as lists in a recipe, JSON has no tuples; `build` turns a list ID into a tuple)
    "tuple": [[0, 1], ["a", 1], [2], [3, "z", 0]],
}
CTORS = ["add_simplex", "add_simplices_from", "list", "dict"]
# orientation values.  The docstrings of boundary_matrix / hodge_laplacian say "boolean orientation"; the code itself
# uses the int 0 as the default and uses the values only as exponents of -1 / summands mod 2, so every natural number
# is admissible and acts through its parity.  Modes: none = orientations=None; zeros/ones/twos/threes = that int on
# every simplex; crc = pseudo-random int bit; bool = pseudo-random bool; int4 = pseudo-random int in 0..3;
# mixed = per simplex a bool or an int in 0..3; explicit = {"values": [[members, value], …]} (others 0).
# Negative values are never generated (the model's orientations are naturals; the driver answers "unmodelled").
ORIENT_MODES = ["none", "zeros", "ones", "twos", "threes", "crc", "bool", "int4", "int4", "mixed", "mixed"]
CONST_MODES = ("none", "zeros", "ones", "twos", "threes")
MAX_NODES, MAX_SIMPLICES = 7, 70   # larger complexes (only a hand-written corpus/replay case can be) are not sent to the driver


def member_key(ms):
    return json.dumps(sorted((enc_label(x) for x in ms), key=idkey))


def enc_label(x):
    """like enc_id, but floats (outside the model) keep a text form so that orientation rules stay defined"""
    try:
        return enc_id(x)
    except ValueError:
        return "float:" + repr(x)


def orient_crc(ms, salt):
    return zlib.crc32((member_key(ms) + "#%d" % salt).encode())


def orient_value(mode, ms, salt, explicit=None):
    if mode in ("zeros", "ones", "twos", "threes"):
        return {"zeros": 0, "ones": 1, "twos": 2, "threes": 3}[mode]
    c = orient_crc(ms, salt)
    if mode == "bool":
        return bool(c & 1)
    if mode == "int4":
        return (c >> 3) & 3
    if mode == "mixed":
        return bool(c & 1) if (c >> 5) & 1 else (c >> 3) & 3
    if mode == "explicit":
        return (explicit or {}).get(member_key(ms), 0)
    return c & 1     # crc


def regime_label(scheme, i):
    """label of abstract vertex i of a generated large complex.  big: consecutive integers above 2**53 (no two of them are
    distinct as float64 - labels are only sorted and compared in C13, never used in arithmetic)"""
    if scheme == "big":
        return 2 ** 53 + 1 + i
    if scheme == "text":
        return "v%03d" % i
    if scheme == "mixed":
        return i if i % 2 == 0 else "v%03d" % i
    if scheme == "negative":
        return 7 - 3 * i
    return i


def regime_facets(g):
    """generating simplices of a LARGE complex from its short description g = {"shape", "n", "labels", "extra"}:
    star = n edges at one hub vertex (hub degree n); cone = n triangles {hub, p_i, p_i+1} over a path (hub in n triangles,
    hub degree n + 1); both = star on the first n leaves and cone sharing the hub; extra = that many further disjoint edges
    (further connected components).  Vertex order inside the simplices alternates so that it is not the sorted order."""
    n, sch = int(g["n"]), g.get("labels", "range")
    L = lambda i: regime_label(sch, i)  # noqa
    fs = []
    if g["shape"] in ("star", "both"):
        fs += [[L(0), L(i)] if i % 2 else [L(i), L(0)] for i in range(1, n + 1)]
    if g["shape"] in ("cone", "both"):
        off = n if g["shape"] == "both" else 0
        for i in range(1, n + 1):
            t = [L(0), L(off + i), L(off + i + 1)]
            fs.append(t[i % 3:] + t[:i % 3])
    base = 2 * n + 2
    for c in range(int(g.get("extra", 0))):
        fs.append([L(base + 2 * c + 1), L(base + 2 * c)])
    return fs


def facets_of(rec):
    return regime_facets(rec["gen"]) if rec.get("gen") else rec["facets"]


def build(rec):
    """recipe -> real SimplicialComplex"""
    facets = [list(f) for f in facets_of(rec)]
    ids = rec.get("ids")
    if ids is not None:
        ids = [tuple(i) if isinstance(i, list) else i for i in ids]
    ctor = rec.get("ctor", "add_simplex")
    if ids is None and ctor == "dict":
        ctor = "list"
    bare = (ctor == "list" and not rec.get("nodes_first")) or (ids is None and ctor in ("list", "add_simplices_from"))
    if bare and facets and isinstance(facets[0][0], str) and not all(isinstance(x, str) for x in facets[0]):
        # xgi's format detection reads a first simplex that starts with a str as (members, id[, attr]);
        # that ambiguity of the input format is not C13's subject: put a number first
        f = facets[0]
        k = next(i for i, x in enumerate(f) if not isinstance(x, str))
        facets[0] = [f[k]] + f[:k] + f[k + 1:]
    if ctor == "list" and not rec.get("nodes_first"):
        return xgi.SimplicialComplex(facets)
    if ctor == "dict" and not rec.get("nodes_first"):
        return xgi.SimplicialComplex({ids[i]: f for i, f in enumerate(facets)})
    S = xgi.SimplicialComplex()
    if rec.get("nodes_first"):
        S.add_nodes_from(rec["nodes_first"])
    if ctor == "add_simplex":
        for i, f in enumerate(facets):
            if ids is None:
                S.add_simplex(f)
            else:
                S.add_simplex(f, idx=ids[i])
    elif ctor == "dict":
        S.add_simplices_from({ids[i]: f for i, f in enumerate(facets)})
    elif ids is None:
        S.add_simplices_from(facets)
    else:
        S.add_simplices_from([(f, ids[i]) for i, f in enumerate(facets)])
    return S


def orientation(S, spec):
    mode, salt = spec.get("mode", "none"), spec.get("salt", 0)
    if mode == "none":
        return None
    explicit = None
    if mode == "explicit":
        explicit = {member_key(ms): (bool(v) if spec.get("bool") else v) for ms, v in spec.get("values", [])}
    out = {}
    for e, ms in S.edges.members(dtype=dict).items():
        if len(ms) >= 2 or spec.get("all_keys"):
            out[e] = orient_value(mode, ms, salt, explicit)
    return out


def gen_recipe(rng, max_vertices=6, max_facets=4, floats=False):
    nv = min(max_vertices, rng.choice([1, 2, 3, 3, 4, 4, 4, 5, 5, 5, 5, 5, 6, 6]))
    schemes = FLOAT_SCHEMES if floats else LABEL_SCHEMES
    scheme = rng.choice(sorted(schemes))
    labels = schemes[scheme][:]
    if rng.random() < 0.4:
        rng.shuffle(labels)
    labels = labels[:nv]
    nf = min(max_facets, rng.choice([0, 1, 1, 2, 2, 2, 3, 3, 3, 3, 4, 4]))
    facets = []
    for _ in range(nf):
        # at most one generating simplex with 5 vertices and none with 6: keeps every complex <= 57 simplices
        big = any(len(f) >= 5 for f in facets)
        size = min(nv, 4 if big else 5, rng.choice([1, 2, 2, 3, 3, 3, 3, 4, 4, 4, 5]))
        f = rng.sample(labels, size)
        facets.append(f)
    idn = rng.choice(sorted(ID_SCHEMES))
    ids = ID_SCHEMES[idn][:nf] if ID_SCHEMES[idn] is not None else None
    nodes_first = None
    if rng.random() < 0.5:
        nodes_first = labels[:]
        rng.shuffle(nodes_first)
        if rng.random() < 0.5:
            nodes_first = nodes_first[: rng.randint(0, nv)]
    return {"scheme": scheme, "facets": facets, "ids": ids, "ctor": rng.choice(CTORS), "nodes_first": nodes_first,
            "orient": {"mode": rng.choice(ORIENT_MODES), "salt": rng.randint(0, 10 ** 6), "all_keys": rng.random() < 0.2}}


def closure(facets):
    out = set()
    for f in facets:
        for r in range(1, len(f) + 1):
            out.update(frozenset(c) for c in itertools.combinations(sorted(f), r))
    return frozenset(out)


def all_small_complexes(n=5, max_facets=3):
    """every simplicial complex generated by <= max_facets non-empty subsets of range(n): yields one generator
    list per distinct complex (distinct = different set of simplices, isolated vertices not included)"""
    subsets = [list(c) for r in range(1, n + 1) for c in itertools.combinations(range(n), r)]
    seen = set()
    for m in range(max_facets + 1):
        for combo in itertools.combinations(subsets, m):
            cl = closure(combo)
            if cl in seen:
                continue
            seen.add(cl)
            yield [list(f) for f in combo]


def all_orientations(facets, cap=6):
    """one recipe per 0/1 orientation assignment of the simplices of order >= 1 of the complex generated by `facets`
    (nothing when there are more than `cap` of them: 2**cap assignments)"""
    cl = sorted(sorted(f) for f in closure(facets) if len(f) >= 2)
    if len(cl) > cap:
        return
    for bits in itertools.product((0, 1), repeat=len(cl)):
        yield {"facets": [list(f) for f in facets], "ids": None, "ctor": "list", "nodes_first": None,
               "orient": {"mode": "explicit", "values": [[m, b] for m, b in zip(cl, bits)]}}


# ----------------------------------------------------------------------------- implementation side

def mat(B):
    out = []
    for row in np.asarray(B).tolist():
        out.append([int(v) if float(v) == int(v) else float(v) for v in row])
    return out


def keys_of(d):
    return [enc_label(d[i]) for i in range(len(d))]


def call_boundary(S, k, o):
    try:
        B, rd, cd = xgi.boundary_matrix(S, k, o, True)
    except Exception as ex:  # noqa
        return None, {"out": "err", "exc": type(ex).__name__ + ": " + str(ex)[:120]}
    B = np.asarray(B)
    return (B, rd, cd), {"out": "ok", "shape": list(B.shape), "rows": keys_of(rd), "cols": keys_of(cd), "M": mat(B)}


def call_hodge(S, k, o):
    try:
        L, md = xgi.hodge_laplacian(S, k, o, True)
    except Exception as ex:  # noqa
        return None, {"out": "err", "exc": type(ex).__name__ + ": " + str(ex)[:120]}
    L = np.asarray(L)
    return (L, md), {"out": "ok", "shape": list(L.shape), "keys": keys_of(md), "M": mat(L)}


LARGE = 40   # matrices with more rows: float64 rank / eigenvalues instead of exact elimination over fractions


def short(x, n=300):
    t = repr(x)
    return t if len(t) <= n else t[:n] + "...(%d chars)" % len(t)


def rank_exact(M):
    """rank of an integer matrix by Gaussian elimination over fractions.Fraction"""
    A = [[Fraction(v) for v in row] for row in M]
    rank, rows, cols = 0, len(A), len(A[0]) if A else 0
    for c in range(cols):
        piv = next((r for r in range(rank, rows) if A[r][c] != 0), None)
        if piv is None:
            continue
        A[rank], A[piv] = A[piv], A[rank]
        for r in range(rows):
            if r != rank and A[r][c] != 0:
                f = A[r][c] / A[rank][c]
                A[r] = [a - f * b for a, b in zip(A[r], A[rank])]
        rank += 1
    return rank


def n_components(S):
    parent = {n: n for n in S.nodes}

    def find(x):
        while parent[x] != x:
            parent[x] = parent[parent[x]]
            x = parent[x]
        return x
    for ms in S.edges.members():
        ms = list(ms)
        for a in ms[1:]:
            parent[find(a)] = find(ms[0])
    return len({find(n) for n in S.nodes})


def n_components_xgi(S):
    """`xgi.number_connected_components` of the 1-skeleton (nodes + simplices with two members)"""
    H = xgi.Hypergraph()
    H.add_nodes_from(S.nodes)
    for ms in S.edges.members():
        if len(ms) == 2:
            H.add_edge(list(ms))
    return int(xgi.number_connected_components(H))


def evaluate(rec, xs_rng=None):
    """build the complex, call the implementation for every order, evaluate the C13 clauses.
    returns (requests, impl_results, failures[(site, class, detail, k)], info)"""
    S = build(rec)
    o = orientation(S, rec.get("orient", {}))
    members = S.edges.members(dtype=dict)
    sizes = [len(ms) for ms in members.values()]
    dim = max(sizes) - 1 if sizes else 0
    nodes = list(S.nodes)
    # why the model is not asked (None = it is): float labels are outside the model; complexes beyond the size cap
    # (never generated, only a hand-written corpus / replay case can be that large) are not sent to the driver
    skip_model = None
    try:
        net = {"nodes": [enc_id(n) for n in nodes],
               "simplices": [[enc_id(e), [enc_id(x) for x in ms]] for e, ms in members.items()]}
    except ValueError:
        net, skip_model = {"nodes": [], "simplices": []}, "labels-outside-model"
    if len(nodes) > MAX_NODES or len(members) > MAX_SIMPLICES:
        skip_model = "size-cap"
        net = {"nodes": [], "simplices": []}
    # the model receives the orientation dict exactly as the implementation does (None -> null; True -> 1, as
    # Python's own arithmetic reads it)
    oj = None if o is None else [[enc_id(e), int(v)] for e, v in o.items()]
    orders = list(range(0, dim + 2))
    if rec.get("order") is not None:
        orders = [rec["order"]]
    reqs, impls, fails = [], [], []
    Bs, Ls = {}, {}
    want = sorted(set(orders) | {k - 1 for k in orders if k >= 1} | {k + 1 for k in orders})
    for k in want:
        raw, res = call_boundary(S, k, o)
        Bs[k] = (raw, res)
        if k in orders:
            reqs.append(dict(net, f="boundary_matrix", order=k, orient=oj)); impls.append(res)
    for k in orders:
        raw, res = call_hodge(S, k, o)
        Ls[k] = (raw, res)
        reqs.append(dict(net, f="hodge_laplacian", order=k, orient=oj)); impls.append(res)

    def of_order(k):
        return nodes if k == 0 else [e for e, ms in members.items() if len(ms) == k + 1]

    def vertex_set(k, key):
        return frozenset([key]) if k == 0 else members[key]

    for k in orders:
        raw, res = Bs[k]
        if raw is None:
            fails.append(("boundary_matrix", "raises", res["exc"], k)); continue
        B, rd, cd = raw
        # shape and keys: rows = simplices of order k-1, columns = simplices of order k, in view order
        exp_rows = of_order(k - 1) if k >= 1 else []
        exp_cols = of_order(k)
        if [rd[i] for i in range(len(rd))] != exp_rows or [cd[i] for i in range(len(cd))] != exp_cols or \
                list(B.shape) != [len(exp_rows), len(exp_cols)]:
            fails.append(("boundary_matrix", "shape-or-keys", f"order {k}: shape {B.shape}, rows {rd}, cols {cd}; "
                          f"expected rows {exp_rows}, cols {exp_cols}", k)); continue
        try:
            B2 = xgi.boundary_matrix(S, k, o, False)
            if np.asarray(B2).shape != B.shape or not np.array_equal(np.asarray(B2), B):
                fails.append(("boundary_matrix", "index-flag-changes-matrix", f"order {k}", k))
        except Exception as ex:  # noqa
            fails.append(("boundary_matrix", "raises", f"index=False: {type(ex).__name__}: {ex}", k))
        if k >= 1:
            for j, c in enumerate(exp_cols):
                cset = vertex_set(k, c)
                faces = {r for r in exp_rows if vertex_set(k - 1, r) < cset}
                col = B[:, j]
                nz = {exp_rows[i] for i in range(len(exp_rows)) if col[i] != 0}
                if any(v not in (0.0, 1.0, -1.0) for v in col.tolist()):
                    fails.append(("boundary_matrix", "entry-not-pm1", f"order {k} column {c!r}: {col.tolist()}", k))
                elif len(nz) != k + 1:
                    fails.append(("boundary_matrix", "column-nonzero-count", f"order {k} column {c!r} ({sorted(map(repr, cset))}) has "
                                  f"{len(nz)} non-zeros, expected {k + 1}", k))
                elif nz != faces:
                    fails.append(("boundary_matrix", "column-support-not-faces", f"order {k} column {c!r}: non-zeros at {nz}, faces {faces}", k))
            rawp, resp = Bs[k - 1]
            if rawp is not None:
                P = rawp[0]
                if P.shape[1] != B.shape[0]:
                    fails.append(("boundary_matrix", "shape-or-keys", f"B_{k-1} is {P.shape}, B_{k} is {B.shape}", k))
                else:
                    # the product is formed in float64 whatever dtype the implementation returned (exact for these sizes)
                    prod = P.astype(np.float64) @ B.astype(np.float64)
                    if np.any(prod != 0):
                        fails.append(("boundary_matrix", "dd-nonzero", f"B_{k-1} @ B_{k} = {prod.tolist()}", k))
    for k in orders:
        raw, res = Ls[k]
        if raw is None:
            fails.append(("hodge_laplacian", "raises", res["exc"], k)); continue
        L, md = raw
        keys = of_order(k)
        if [md[i] for i in range(len(md))] != keys or list(L.shape) != [len(keys), len(keys)]:
            fails.append(("hodge_laplacian", "shape-or-keys", f"order {k}: shape {L.shape}, keys {md}, expected {keys}", k)); continue
        try:
            L2 = np.asarray(xgi.hodge_laplacian(S, k, o, False))
            if L2.shape != L.shape or not np.array_equal(L2, L):
                fails.append(("hodge_laplacian", "index-flag-changes-matrix", f"order {k}", k))
        except Exception as ex:  # noqa
            fails.append(("hodge_laplacian", "raises", f"index=False: {type(ex).__name__}: {ex}", k))
        if not np.array_equal(L, L.T):
            fails.append(("hodge_laplacian", "not-symmetric", f"order {k}: {L.tolist()}", k))
        if Bs[k][0] is not None and Bs[k + 1][0] is not None:
            Bk, Bk1 = Bs[k][0][0], Bs[k + 1][0][0]
            if Bk.shape[1] == L.shape[0] and Bk1.shape[0] == L.shape[0]:
                Bk, Bk1 = Bk.astype(np.float64), Bk1.astype(np.float64)   # never in the implementation's own dtype
                ref = Bk.T @ Bk + Bk1 @ Bk1.T
                if not np.array_equal(ref, L):
                    fails.append(("hodge_laplacian", "not-down-plus-up", f"order {k}: L={short(L.tolist())} but B_k^T B_k + B_k+1 B_k+1^T={short(ref.tolist())}", k))
        if xs_rng is not None and L.shape[0] > 0:
            for _ in range(3):
                x = np.array([xs_rng.gauss(0, 1) for _ in range(L.shape[0])])
                q = float(x @ L @ x)
                if not q >= -1e-9:
                    fails.append(("hodge_laplacian", "not-psd", f"order {k}: x={x.tolist()} gives x^T L x = {q}", k)); break
        if L.shape[0] > LARGE and not (np.array_equal(L, L.T) and ("hodge_laplacian", "not-down-plus-up") not in [(f[0], f[1]) for f in fails if f[3] == k]
                                       and Bs[k][0] is not None and Bs[k + 1][0] is not None):
            # large matrices: L = B_k^T B_k + B_k+1 B_k+1^T was just verified exactly (a Gram sum is positive semidefinite);
            # only when that identity is not available the smallest eigenvalue is computed (float64, symmetric solver)
            try:
                lo = float(np.linalg.eigvalsh(L.astype(np.float64)).min())
                if not lo >= -1e-7 * max(1.0, float(np.abs(L).max())):
                    fails.append(("hodge_laplacian", "not-psd", f"order {k}: smallest eigenvalue {lo} of the {L.shape[0]}x{L.shape[0]} matrix", k))
            except Exception as ex:  # noqa
                fails.append(("hodge_laplacian", "not-psd", f"order {k}: eigenvalues not computable: {type(ex).__name__}", k))
        if k == 0 and L.shape[0] > 0:
            # consequence of L_0 = B_1 B_1^T with columns = +-1 at the two endpoints: the diagonal is the vertex degree
            # in the 1-skeleton, every off-diagonal entry is -1 on an edge and 0 elsewhere
            deg = {n: 0 for n in nodes}
            for ms in members.values():
                if len(ms) == 2:
                    for n in ms:
                        deg[n] += 1
            diag = [float(L[i, i]) for i in range(L.shape[0])]
            if diag != [float(deg[n]) for n in nodes]:
                i = next(i for i, n in enumerate(nodes) if diag[i] != float(deg[n]))
                fails.append(("hodge_laplacian", "L0-diagonal-not-degree", f"L_0[{i},{i}] = {diag[i]} but vertex {nodes[i]!r} lies in {deg[nodes[i]]} 1-simplices", k))
        if any(float(v) != int(v) for row in L.tolist() for v in row):
            fails.append(("hodge_laplacian", "entry-not-integer", f"order {k}: {L.tolist()}", k))
        elif L.shape[0] > 0:
            # exact positive semidefiniteness witness is the decomposition above; exact kernel for order 0
            if k == 0:
                # exact rank over fractions; above LARGE rows the float64 rank (SVD) of the integer matrix
                ker = L.shape[0] - (rank_exact(mat(L)) if L.shape[0] <= LARGE else int(np.linalg.matrix_rank(L.astype(np.float64))))
                nc = n_components(S)
                res["ker"], res["ncomp"] = ker, nc
                if ker != nc:
                    fails.append(("hodge_laplacian", "kernel-L0-vs-components", f"dim ker L_0 = {ker}, components = {nc}", k))
                try:
                    ncx = n_components_xgi(S)
                except Exception as ex:  # noqa  (never silent; the count is then simply not available)
                    ncx = None
                    res["ncomp_xgi_exc"] = type(ex).__name__
                res["ncomp_xgi"] = ncx
                if ncx is not None and ker != ncx:
                    fails.append(("hodge_laplacian", "kernel-L0-vs-xgi-components",
                                  f"dim ker L_0 = {ker}, xgi.number_connected_components(1-skeleton) = {ncx}", k))
        if k == 0 and L.shape[0] == 0:
            res["ker"], res["ncomp"], res["ncomp_xgi"] = 0, n_components(S), None
    info = {"dim": dim, "n_nodes": len(nodes), "n_simplices": len(members), "labels": sorted({type(n).__name__ for n in nodes}),
            "calls": len(reqs), "skip_model": skip_model,
            "orient_values": sorted({repr(v) for v in (o or {}).values()})}
    if skip_model:
        reqs, impls = [], []
    return reqs, impls, fails, info


# ----------------------------------------------------------------------------- shrinking, comparison

def shrink_gen(rec, still_fails, budget=40):
    """a generated LARGE complex is described by a few numbers: smallest n (bisection), then simpler shape / labels / orientation"""
    rec = copy.deepcopy(rec)

    def ok(c):
        nonlocal budget
        budget -= 1
        try:
            return budget >= 0 and still_fails(c)
        except Exception:  # noqa
            return False

    def with_gen(**kw):
        c = copy.deepcopy(rec)
        c["gen"].update(kw)
        return c
    for kw in ({"extra": 0}, {"shape": "star"}, {"shape": "cone"}, {"labels": "range"}):
        if kw.get("shape") == "cone" and rec["gen"]["shape"] != "both":
            continue
        if any(rec["gen"].get(k) != v for k, v in kw.items()):
            c = with_gen(**kw)
            if ok(c):
                rec = c
    if rec.get("orient", {}).get("mode", "none") != "none":
        c = copy.deepcopy(rec)
        c["orient"] = {"mode": "none"}
        if ok(c):
            rec = c
    lo, hi = 1, int(rec["gen"]["n"])   # invariant: n = hi fails
    while lo < hi and budget > 0:
        mid = (lo + hi) // 2
        if ok(with_gen(n=mid)):
            hi = mid
        else:
            lo = mid + 1
    rec["gen"]["n"] = hi
    return rec


def shrink(rec, still_fails, budget=150):
    if rec.get("gen"):
        return shrink_gen(rec, still_fails)
    rec = copy.deepcopy(rec)

    def ok(c):
        nonlocal budget
        budget -= 1
        try:
            return budget >= 0 and still_fails(c)
        except Exception:  # noqa
            return False
    changed = True
    while changed and budget > 0:
        changed = False
        for i in range(len(rec["facets"]) - 1, -1, -1):
            c = copy.deepcopy(rec)
            del c["facets"][i]
            if c.get("ids"):
                del c["ids"][i]
            if ok(c):
                rec, changed = c, True
        for i in range(len(rec["facets"])):
            for j in range(len(rec["facets"][i]) - 1, -1, -1):
                if len(rec["facets"][i]) > 1:
                    c = copy.deepcopy(rec)
                    del c["facets"][i][j]
                    if ok(c):
                        rec, changed = c, True
                        break
        for key, val in (("nodes_first", None), ("ids", None), ("ctor", "add_simplex")):
            if rec.get(key) != val:
                c = copy.deepcopy(rec)
                c[key] = val
                if ok(c):
                    rec, changed = c, True
        cur = rec.get("orient", {}).get("mode", "none")
        if cur not in CONST_MODES:
            for mode in CONST_MODES:
                c = copy.deepcopy(rec)
                c["orient"] = {"mode": mode, "salt": 0}
                if ok(c):
                    rec, changed = c, True
                    break
        elif cur != "none":
            c = copy.deepcopy(rec)
            c["orient"] = {"mode": "none", "salt": 0}
            if ok(c):
                rec, changed = c, True
    cur = rec.get("orient", {})
    budget = max(budget, 30)
    if cur.get("mode", "none") not in CONST_MODES + ("explicit",):
        # no constant orientation reproduces it: write the values out (the replay no longer depends on the hash
        # rule), then drop them one at a time (a simplex without a listed value has orientation 0)
        try:
            S = build(rec)
            vals = [[list(ms), orient_value(cur["mode"], ms, cur.get("salt", 0))] for ms in S.edges.members()
                    if len(ms) >= 2 or cur.get("all_keys")]
            c = copy.deepcopy(rec)
            c["orient"] = {"mode": "explicit", "values": [[m, int(v)] for m, v in vals], "all_keys": bool(cur.get("all_keys"))}
            if vals and all(isinstance(v, bool) for _, v in vals):
                c["orient"]["bool"] = True
            if ok(c):
                rec = c
                for i in range(len(rec["orient"]["values"]) - 1, -1, -1):
                    c = copy.deepcopy(rec)
                    del c["orient"]["values"][i]
                    if ok(c):
                        rec = c
        except Exception:  # noqa
            pass
    return rec


# ----------------------------------------------------------------------------- held object (state across calls)

def _snap(S, spec, dim):
    """every public result on the object S under the orientation rule `spec`: B_k for k = 0..dim+2, L_k for k = 0..dim+1"""
    o = orientation(S, spec)
    out = {}
    for k in range(0, dim + 3):
        out["B%d" % k] = call_boundary(S, k, o)[1]
    for k in range(0, dim + 2):
        out["L%d" % k] = call_hodge(S, k, o)[1]
    return out


def _apply_edit(S, op):
    """["add", members] -> add_simplex; ["remove", members] -> remove_simplex_id of the simplex with these members
    (a recipe that no longer has it - after shrinking - skips the step)"""
    if op[0] == "swapids":
        # the two simplices (given by their members) exchange their IDs: both are removed (with the simplices containing
        # them) and everything removed is added again, smaller simplices first, under the same IDs except that the two are
        # exchanged — the set of IDs, of member sets, all counts stay the same; only which ID names which simplex changes
        tab = S.edges.members(dtype=dict)
        fa, fb = (frozenset(tuple(x) if isinstance(x, list) else x for x in m) for m in op[1])
        a = next((e for e, m in tab.items() if m == fa), None)
        b = next((e for e, m in tab.items() if m == fb), None)
        if a is None or b is None or a == b:
            return False
        S.remove_simplex_ids_from([e for e in (a, b) if e in S.edges])
        if b in S.edges:
            S.remove_simplex_id(b)
        gone = [e for e in tab if e not in S.edges]
        for e in sorted(gone, key=lambda e: len(tab[e])):
            S.add_simplex(list(tab[e]), idx=b if e == a else a if e == b else e)
        return True
    kind, ms = op[0], [tuple(x) if isinstance(x, list) else x for x in op[1]]
    if kind == "add":
        S.add_simplex(list(ms))
        return True
    for e, m in S.edges.members(dtype=dict).items():
        if m == frozenset(ms):
            S.remove_simplex_id(e)
            return True
    return False


def _dim(S):
    sizes = [len(ms) for ms in S.edges.members()]
    return max(sizes) - 1 if sizes else 0


def held_eval(case):
    """ONE complex object S is kept through the whole sequence: results under orientation o0 (= case["orient"]); then, on the
    same S, under o1 (= case["orient2"], differs from o0 on at least one simplex), under orientations=None and under o0
    again; then after each group of edits in case["stages"] (first a count-preserving one, then ordinary ones) under o0 and
    o1.  Every result must equal the same call on a fresh S.copy() (an object the library has not seen), and
    L_k(o) = B_k(o)^T B_k(o) + B_{k+1}(o) B_{k+1}(o)^T with the boundary matrices of the fresh object.
    returns ([(site, failure_class, detail)], number of calls compared)"""
    S = build(case)
    spec0, spec1 = case.get("orient", {"mode": "none"}), case.get("orient2", {"mode": "ones"})
    fails, compared = [], 0

    def against_fresh(stage, cls, specs):
        nonlocal compared
        dim = _dim(S)
        for name, spec in specs:
            held = _snap(S, spec, dim)
            ref = _snap(S.copy(), spec, dim)
            for key in held:
                compared += 1
                if held[key] != ref[key]:
                    site = "boundary_matrix" if key[0] == "B" else "hodge_laplacian"
                    fails.append((site, cls, f"{stage}: order {key[1:]}, orientations {name}: the held object answers "
                                  f"{short(strip(held[key]), 200)}, a fresh copy answers {short(strip(ref[key]), 200)}"))
            for k in range(0, dim + 2):
                hl, b0, b1 = held["L%d" % k], ref["B%d" % k], ref["B%d" % (k + 1)]
                if hl.get("out") == b0.get("out") == b1.get("out") == "ok" and hl["shape"][0] == b0["shape"][1] == b1["shape"][0] and hl["shape"][0] > 0:
                    B0 = np.array(b0["M"], dtype=np.float64).reshape(b0["shape"])
                    B1 = np.array(b1["M"], dtype=np.float64).reshape(b1["shape"])
                    if not np.array_equal(B0.T @ B0 + B1 @ B1.T, np.array(hl["M"], dtype=np.float64).reshape(hl["shape"])):
                        fails.append(("hodge_laplacian", cls, f"{stage}: order {k}, orientations {name}: L_k of the held object is not "
                                      f"B_k^T B_k + B_k+1 B_k+1^T for the boundary matrices of this orientation (fresh copy)"))
    _snap(S, spec0, _dim(S))   # first calls: whatever the library keeps, it keeps it for (S, o0)
    against_fresh("second round of calls on the same complex", "stale-result-other-orientation",
                  [("o1 (other orientation)", spec1), ("None", {"mode": "none"}), ("o0 (the first one again)", spec0)])
    for i, ops in enumerate(case.get("stages", [])):
        done = [_apply_edit(S, op) for op in ops]
        if not any(done):
            continue
        against_fresh("after edit %d (%s)" % (i + 1, "; ".join("%s %s" % (op[0], op[1]) for op in ops)), "stale-result-after-edit",
                      [("o0", spec0), ("o1 (other orientation)", spec1)])
    return fails, compared


def gen_held(rng):
    """a small recipe with an edge, a second orientation rule that flips 1-2 simplices of the first, and three groups of edits"""
    for _ in range(50):
        rec = gen_recipe(rng, max_vertices=5, max_facets=3)
        if rec["ids"] is not None and rng.random() < 0.5:
            rec["ids"] = ID_SCHEMES["tuple"][:len(rec["facets"])]
        try:
            S = build(rec)
        except Exception:  # noqa
            continue
        orientable = [sorted(ms, key=lambda x: (isinstance(x, str), x)) for ms in S.edges.members() if len(ms) >= 2]
        nodes = list(S.nodes)
        if not orientable or len(nodes) < 3:
            continue
        base = rec["orient"]
        flip = rng.sample(range(len(orientable)), rng.randint(1, min(2, len(orientable))))
        vals = []
        for i, ms in enumerate(orientable):
            v = 0 if base.get("mode", "none") == "none" else int(orient_value(base["mode"], ms, base.get("salt", 0)))
            vals.append([ms, v ^ 1 if i in flip else v])
        rec["orient2"] = {"mode": "explicit", "values": vals}
        stages = []
        T = S.copy()
        ne, nn = T.num_edges, T.num_nodes
        for _try in range(30):     # count-preserving: remove a maximal simplex, add another, same numbers of nodes and simplices
            U = T.copy()
            e = rng.choice(list(U.edges.maximal()))
            old = sorted(U.edges.members(e), key=lambda x: (isinstance(x, str), x))
            new = rng.sample(nodes, rng.randint(2, min(3, len(nodes))))
            U.remove_simplex_id(e)
            U.add_simplex(new)
            if U.num_edges == ne and U.num_nodes == nn and set(map(frozenset, U.edges.members())) != set(map(frozenset, T.edges.members())):
                stages.append([["remove", old], ["add", new]])
                T = U
                break
        pairs = [ms for ms in orientable if len(ms) == 2 and frozenset(ms) in set(map(frozenset, T.edges.members()))]
        if len(pairs) >= 2 and rec["ids"] is not None:
            two = rng.sample(pairs, 2)
            stages.append([["swapids", two]])
            _apply_edit(T, ["swapids", two])
        stages.append([["add", rng.sample(nodes, rng.randint(2, min(4, len(nodes))))]])
        mx = list(T.edges.maximal())
        if mx:
            stages.append([["remove", sorted(T.edges.members(rng.choice(mx)), key=lambda x: (isinstance(x, str), x))]])
        rec["stages"] = stages
        rec["kind"] = "held"
        return rec
    return None


def run_held(ctx, cases):
    for case in cases:
        if case is None:
            continue
        try:
            fails, compared = held_eval(case)
        except Exception as ex:  # noqa  (construction / edit raised: not a result of the two functions, but never silent)
            ctx.stats["held-object-sequence-raised:" + type(ex).__name__] += 1
            continue
        ctx.evaluations += compared
        ctx.stats["held-object-sequences"] += 1
        ctx.stats["held-object-calls-compared-with-fresh-copy"] += compared
        if len(case.get("stages", [])) >= 3:
            ctx.stats["held-object-sequences-with-count-preserving-edit"] += 1
        seen = set()
        for site, cls, detail in fails:
            if (site, cls) in seen:
                continue
            seen.add((site, cls))
            key = "held:%s/%s" % (site, cls)
            ctx.stats["predicate-failures:" + key] += 1

            def still(c, site=site, cls=cls):
                return any(s2 == site and c2 == cls for s2, c2, _ in held_eval(c)[0])
            small = case
            if ctx.stats["predicate-failures:" + key] <= 3:
                small = shrink(case, still, budget=80)
                for j in range(len(small.get("stages", [])) - 1, -1, -1):
                    c = copy.deepcopy(small)
                    del c["stages"][j]
                    try:
                        if still(c):
                            small = c
                    except Exception:  # noqa
                        pass
                try:
                    detail = next((d for s2, c2, d in held_eval(small)[0] if s2 == site and c2 == cls), detail)
                except Exception:  # noqa
                    pass
            ctx.violation(site, cls, small, detail=detail)


def gen_regime(rng):
    """the LARGE complexes of one run: a star with >= 130 edges at the hub labelled by integers above 2**53 (plus further
    components), and a cone over a path (>= 130 triangles at one vertex) or both glued at the hub"""
    orient = lambda: {"mode": rng.choice(["none", "crc", "int4", "bool"]), "salt": rng.randint(0, 10 ** 6)}  # noqa
    a = {"kind": "regime", "gen": {"shape": "star", "n": rng.randint(130, 150), "labels": "big", "extra": rng.randint(0, 3)},
         "ids": None, "ctor": rng.choice(["add_simplex", "add_simplices_from"]), "nodes_first": None, "orient": orient()}
    b = {"kind": "regime", "gen": {"shape": rng.choice(["cone", "cone", "both"]), "n": rng.randint(130, 140),
                                   "labels": rng.choice(["range", "text", "mixed", "negative"]), "extra": rng.randint(0, 2)},
         "ids": None, "ctor": "add_simplex", "nodes_first": None, "orient": orient()}
    return [a, b]


def strip(r):
    return {k: v for k, v in r.items() if k not in ("wf", "exc", "ker", "ncomp", "ncomp_xgi", "ncomp_xgi_exc")}


def process(ctx, recipes, name):
    """evaluate recipes on the implementation (predicate) and compare with the model; returns disagreements"""
    all_reqs, all_impl, owner = [], [], []
    for rec in recipes:
        try:
            reqs, impls, fails, info = evaluate(rec, ctx.rng)
        except Infra:
            raise
        except Exception as ex:  # noqa  (the construction itself failed: not C13's concern, but never silent)
            ctx.stats["recipe-build-raised:" + type(ex).__name__] += 1
            continue
        ctx.evaluations += info["calls"]
        if info["skip_model"]:
            ctx.stats["predicate-only:" + info["skip_model"]] += 1
            ctx.stats["predicate-only-calls"] += info["calls"]
        for v in info["orient_values"]:
            ctx.stats["orient-value:" + v] += 1
        if any(v not in ("0", "1", "False", "True") for v in info["orient_values"]):
            ctx.stats["complexes-with-orientation>=2"] += 1
        ctx.stats["dim:%d" % info["dim"]] += 1
        ctx.stats["labels:" + "+".join(info["labels"])] += 1
        ctx.stats["orient:" + rec.get("orient", {}).get("mode", "none")] += 1
        ctx.stats["ctor:" + rec.get("ctor", "add_simplex")] += 1
        ctx.stats["ids:" + ("auto" if rec.get("ids") is None else "explicit")] += 1
        if info["dim"] >= 2 and reqs:
            ctx.nontrivial.add(jhash([reqs[0]["nodes"], reqs[0]["simplices"], reqs[0]["orient"]]))
        for site, cls, detail, k in fails:
            def still(c, site=site, cls=cls):
                return any(s == site and c2 == cls for s, c2, _, _ in evaluate(c, None)[2])
            # a systematic defect fails on hundreds of recipes: shrink the first few per class; later occurrences are
            # counted under the best shrunk witness (ctx.violation keeps the shortest case per (site, class))
            key = "%s/%s" % (site, cls)
            best = ctx.__dict__.setdefault("_c13_shrunk", {})
            ctx.stats["predicate-failures:" + key] += 1
            if cls != "not-psd" and ctx.stats["predicate-failures:" + key] > 4 and key in best:
                ctx.violation(site, cls, *best[key])
                continue
            small = shrink(rec, still) if cls != "not-psd" else rec
            if small is not rec:
                try:
                    detail = next((d for s2, c2, d, _ in evaluate(small, None)[2] if s2 == site and c2 == cls), detail)
                except Exception:  # noqa
                    pass
            if key not in best or len(json.dumps(small, default=repr)) < len(json.dumps(best[key][0], default=repr)):
                best[key] = (small, detail)
            ctx.violation(site, cls, small, detail=detail)
        if reqs:
            ctx.sample({"recipe": rec, "request": reqs[-1], "impl": impls[-1]}, cap=3)
        all_reqs += reqs
        all_impl += impls
        owner += [rec] * len(reqs)
    if not all_reqs:
        return []
    resps = run_driver("C13", all_reqs)
    dis = []
    for rec, q, r, m in zip(owner, all_reqs, all_impl, resps):
        if m.get("out") == "bad-op":
            raise Infra(f"model C13 rejected request (harness defect): {json.dumps(q)[:300]}")
        if m.get("out") == "unmodelled":
            ctx.stats["unmodelled"] += 1
            continue
        ctx.traces += 1
        ctx.stats["fn:" + q["f"]] += 1
        if m.get("out") == "ok" and m.get("wf") is not True:
            ctx.stats["hypotheses-WF-not-met"] += 1
            dis.append((rec, q, r, {"wf": m.get("wf")}, "hypotheses"))
            continue
        if strip(r) != strip(m):
            dis.append((rec, q, r, m, "matrix"))
            ctx.stats["disagree:" + q["f"]] += 1
        elif q["f"] == "hodge_laplacian" and q["order"] == 0 and m.get("out") == "ok":
            # the proved count (ker_L0_finrank: dim ker L_0 = nComponents) against the implementation's exact kernel
            # dimension, the harness union-find and xgi.number_connected_components of the 1-skeleton
            mc = m.get("ncomp")
            if not isinstance(mc, int):
                raise Infra(f"model C13 did not report ncomp for order 0: {json.dumps(m)[:200]}")
            ctx.stats["ncomp-compared"] += 1
            ctx.stats["ncomp:%s" % (mc if mc < 4 else "4+")] += 1
            others = {k2: r.get(k2) for k2 in ("ker", "ncomp", "ncomp_xgi") if r.get(k2) is not None}
            if r.get("ncomp_xgi_exc"):
                ctx.stats["ncomp-xgi-raised:" + r["ncomp_xgi_exc"]] += 1
            if "ker" not in others or "ncomp" not in others or any(v != mc for v in others.values()):
                dis.append((rec, q, {k2: r.get(k2) for k2 in ("ker", "ncomp", "ncomp_xgi")}, {"ncomp": mc}, "components"))
                ctx.stats["disagree:ncomp"] += 1
    if dis:
        ctx.extra.setdefault("disagreements", [])
        for rec, q, r, m, why in dis[:5]:
            ctx.extra["disagreements"].append({"recipe": rec, "request": q, "impl": r, "model": m, "why": why})
        ctx.extra["disagreements_total"] = ctx.extra.get("disagreements_total", 0) + len(dis)
        kinds = sorted({why for *_, why in dis})
        ctx.broken.append(f"correspondence {name}: model and implementation differ on {len(dis)} of {len(all_reqs)} calls "
                          f"({', '.join(kinds)}; functions: {sorted({q['f'] for _, q, *_ in dis})})")
    return dis


def corpus():
    out = []
    for f in sorted(glob.glob(os.path.join(VERIF, "corpus", "C13", "*.json"))):
        try:
            j = json.load(open(f))
            out.append(j.get("case", j))
        except Exception:  # noqa
            pass
    return out


FIXED = [
    # the two complexes of tests/linalg, a mixed-label one, a non-sorted insertion, explicit ids, singleton simplex
    {"facets": [[1, 2, 3], [2, 3, 4], [0, 1]], "ids": None, "ctor": "list", "nodes_first": None, "orient": {"mode": "none"}},
    {"facets": [[3, 1, 2], [2, "a"]], "ids": None, "ctor": "list", "nodes_first": None, "orient": {"mode": "crc", "salt": 1}},
    {"facets": [["b", "a", 5], [1]], "ids": ["s", "t"], "ctor": "add_simplex", "nodes_first": [9, "b"], "orient": {"mode": "ones"}},
    {"facets": [["10", "9", "100", "2"], ["2", "1"]], "ids": ["x", 77], "ctor": "dict", "nodes_first": None, "orient": {"mode": "bool", "salt": 5}},
    {"facets": [[4, 3, 2, 1, 0]], "ids": None, "ctor": "add_simplices_from", "nodes_first": [4, 2, 0, 1, 3], "orient": {"mode": "crc", "salt": 3}},
    {"facets": [], "ids": None, "ctor": "add_simplex", "nodes_first": [1, 2], "orient": {"mode": "none"}},
    {"facets": [], "ids": None, "ctor": "add_simplex", "nodes_first": None, "orient": {"mode": "zeros"}},
    # orientation values >= 2 act through their parity: order-1 branch ((-1) ** o) and the general branch
    # (((o + order - i) % 2) + o[face]) — a triangle / tetrahedron with every simplex at 3, at 2, and mixed values
    {"facets": [[0, 1, 2]], "ids": None, "ctor": "list", "nodes_first": None, "orient": {"mode": "threes"}},
    {"facets": [[0, 1, 2, 3]], "ids": None, "ctor": "list", "nodes_first": None, "orient": {"mode": "twos"}},
    {"facets": [[0, 1, 2]], "ids": None, "ctor": "list", "nodes_first": None,
     "orient": {"mode": "explicit", "values": [[[0, 1], 3], [[0, 1, 2], 2]]}},
    {"facets": [["b", 2, "a", 1]], "ids": ["t"], "ctor": "add_simplex", "nodes_first": None,
     "orient": {"mode": "explicit", "values": [[[1, 2, "a"], 3], [[2, "a"], 2], [[1, 2, "a", "b"], 3], [[1, "b"], 1]]}},
    {"facets": [[3, 1, 2, 0], [4, 0]], "ids": None, "ctor": "list", "nodes_first": None, "orient": {"mode": "int4", "salt": 11}},
    {"facets": [[5, 4, 3, 2, 1], [1, 0], [0, 5]], "ids": None, "ctor": "add_simplices_from", "nodes_first": None,
     "orient": {"mode": "mixed", "salt": 4}},
    # float labels: predicate only (outside the model)
    {"facets": [[0.5, -1.5, 2.25], [2.25, 3.0]], "ids": None, "ctor": "list", "nodes_first": None, "orient": {"mode": "int4", "salt": 2}},
]


N_QUICK = 1200   # generated recipes in the quick tier (about 8 model calls each; the interpreted driver answers ~400-500 calls/s)


def relabel(facets, labels):
    return [[labels[v] for v in f] for f in facets]


def run(ctx):
    ok = build_and_audit(ctx, "XgiModel.Props.C13", ["XgiModel.C13.Drive"])
    rng = ctx.rng
    ctx.rule = ("recipes for a real xgi.SimplicialComplex: 0-4 generating simplices of 1-5 vertices on <= 6 vertices, 11 label "
                "schemes (ints, negative, text, numeric text, mixed int/str, case, unicode; optionally shuffled), automatic or "
                "explicit simplex ids, 4 construction routes, optional add_nodes_from first (isolated nodes, non-sorted node order), "
                "orientations None / constant 0, 1, 2, 3 / pseudo-random int bits / bools / ints in 0..3 / bools and ints mixed; "
                "every order 0..dim+1, both functions; plus a smaller batch with float labels evaluated on the implementation only; "
                "one evaluation = one call compared (or, for float labels, one call whose result the predicate examined); "
                "non-trivial = distinct (complex, labels, orientation) with a simplex of order >= 2; "
                "explicit simplex ids include tuples; every 0/1 orientation assignment of a triangle with a pendant edge (thorough tier: of "
                "the 53 complexes on {0..3} generated by <= 2 simplices with 2..6 orientable simplices); "
                "LARGE complexes, predicate only (not sent to the driver): per run a star with 130-150 edges at a hub whose labels are "
                "consecutive integers above 2**53 (+ 0-3 further components) and a cone over a path (130-140 triangles at one vertex; "
                "int / text / mixed / negative labels), both with >= 130 vertices; "
                "HELD-OBJECT sequences, implementation against itself: one complex object S, calls for every order with o0, then on the "
                "same S with o1 (1-2 simplices flipped), None and o0 again, then after a count-preserving edit (remove a maximal simplex, "
                "add another; found for about 40% of the sequences), after add_simplex and after remove_simplex_id, each time with o0 and o1; "
                "every result must equal the same call on a fresh S.copy() and L_k must equal B_k^T B_k + B_k+1 B_k+1^T of the fresh "
                "copy's boundary matrices; one evaluation there = one call compared with the fresh copy")
    dis = process(ctx, corpus() + copy.deepcopy(FIXED), "C13~hodge_matrix (corpus + fixed)")
    recipes = [gen_recipe(rng) for _ in range(ctx.n(N_QUICK, 20000))]
    dis += process(ctx, recipes, "C13~hodge_matrix (generated)")
    # "all orientation assignments": enumerated (every 0/1 assignment; other values act through their parity and are drawn
    # at random above) for a triangle with a pendant edge in the quick tier, for every complex generated by <= 2 simplices on
    # {0..3} that has <= 6 simplices of order >= 1 in the thorough tier
    enum = list(all_orientations([[0, 1, 2], [2, 3]]))
    n_enum_complexes = 1
    if not ctx.quick:
        for g in all_small_complexes(4, 2):
            a = list(all_orientations(g))
            if len(a) > 1:
                enum += a
                n_enum_complexes += 1
    ctx.stats["orientation-assignments-enumerated"] = len(enum)
    ctx.extra["orientation_enumeration"] = (f"every 0/1 orientation assignment of {n_enum_complexes} complex(es): {len(enum)} (complex, assignment) pairs, "
                                            "all orders, both functions, compared with the model")
    for i in range(0, len(enum), 2000):
        dis += process(ctx, enum[i:i + 2000], "C13~hodge_matrix (all orientation assignments)")
    # "numeric labels" that are floats: outside the model, property predicate only
    process(ctx, [gen_recipe(rng, floats=True) for _ in range(ctx.n(60, 1500))], "C13 predicate only (float labels)")
    if not ctx.quick:
        # exhaustive small scope of the correspondence: every complex generated by <= 3 simplices on 5 vertices,
        # once with plain labels and default orientation, once with a random labelling / ids / route / orientation
        gens = list(all_small_complexes(5, 3))
        ex = []
        for g in gens:
            ex.append({"facets": g, "ids": None, "ctor": "list", "nodes_first": None, "orient": {"mode": "none"}})
            scheme = rng.choice(sorted(LABEL_SCHEMES))
            labels = LABEL_SCHEMES[scheme][:5]
            rng.shuffle(labels)
            idn = rng.choice(sorted(ID_SCHEMES))
            fs = relabel(g, labels)
            for f in fs:
                rng.shuffle(f)
            ex.append({"scheme": scheme, "facets": fs, "ids": ID_SCHEMES[idn][:len(g)] if ID_SCHEMES[idn] else None,
                       "ctor": rng.choice(CTORS), "nodes_first": rng.sample(labels, 5) if rng.random() < 0.5 else None,
                       "orient": {"mode": rng.choice(ORIENT_MODES[2:]), "salt": rng.randint(0, 10 ** 6)}})
        for i in range(0, len(ex), 2000):
            dis += process(ctx, ex[i:i + 2000], "C13~hodge_matrix (exhaustive small scope)")
        ctx.exhaustive = True
        ctx.extra["exhaustive_space"] = (f"all {len(gens)} distinct simplicial complexes generated by <= 3 non-empty simplices on the "
                                         "vertex set {0..4}, orders 0..dim+1, boundary_matrix and hodge_laplacian: once with labels 0..4 "
                                         "and orientations=None, once relabelled/re-routed/oriented at random (validation of the model, not the proof)")

    def search():
        more = [gen_recipe(rng, floats=(i % 10 == 9)) for i in range(ctx.n(1500, 10000))]
        for rec in more:
            try:
                _, _, fails, _ = evaluate(rec, rng)
            except Exception:  # noqa
                continue
            ctx.evaluations += 1
            for site, cls, detail, k in fails:
                def still(c, site=site, cls=cls):
                    return any(s2 == site and c2 == cls for s2, c2, _, _ in evaluate(c, None)[2])
                ctx.violation(site, cls, shrink(rec, still) if cls != "not-psd" else rec, detail=detail)
    # REGIME: large complexes (>= 130 edges / triangles at one vertex, >= 130 vertex labels, integers above 2**53):
    # property predicate on the implementation only (size-cap: not sent to the interpreted Lean driver)
    process(ctx, gen_regime(rng) if ctx.quick else gen_regime(rng) + gen_regime(rng) + gen_regime(rng), "C13 predicate only (large complexes)")
    # HELD OBJECT: one complex through calls with o0, o1, None, o0, edits (count-preserving and ordinary), calls again
    run_held(ctx, [gen_held(rng) for _ in range(ctx.n(60, 1500))])
    # no hidden state: boundary matrices / Hodge Laplacians of an edited complex must be those of its current structure
    from ..stale import check_sc

    def _gen_sc(rng):
        import xgi
        S = xgi.SimplicialComplex()
        nodes = list(range(rng.randint(3, 5)))
        S.add_nodes_from(nodes)
        for _ in range(rng.randint(1, 3)):
            S.add_simplex(rng.sample(nodes, rng.randint(2, min(4, len(nodes)))))
        return S
    import xgi as _xgi
    check_sc(ctx, ctx.rng, _gen_sc, {
        "boundary_matrix(order=1)": lambda S: _xgi.boundary_matrix(S, order=1),
        "boundary_matrix(order=2)": lambda S: _xgi.boundary_matrix(S, order=2),
        "hodge_laplacian(order=0)": lambda S: _xgi.hodge_laplacian(S, order=0),
        "hodge_laplacian(order=1)": lambda S: _xgi.hodge_laplacian(S, order=1),
    }, ctx.n(40, 800))
    conclude(ctx, ok, dis, search)
    ctx.assumptions = [
        "node labels are int or str in the model (the code's sort key orders numbers before strings); float labels (the "
        "'numeric labels' of the property text that are not ints) are OUTSIDE the model: such complexes are generated in a "
        "separate batch and only the property predicate is evaluated on the implementation's matrices; bool/tuple labels are "
        "not generated (tuple SIMPLEX IDS are: one of the six id schemes); complex-number labels are not orderable "
        "(boundary_matrix raises TypeError in its sort) and are read as outside 'numeric labels'",
        "orientation dicts cover every simplex of order >= 1 (a missing key is a KeyError, not C13's subject) with values in "
        "{0, 1, 2, 3, False, True}: the docstrings say 'boolean orientation', the code uses the value only as an exponent of -1 "
        "and as a summand mod 2, so every natural number is admissible and the model computes with naturals exactly as the "
        "code does ((-1) ** o in the order-1 branch, (-1) ** ((o + order - i) % 2 + o[face]) otherwise); negative values are "
        "never generated (the driver would answer 'unmodelled', never 'bad-op'); non-integer values are not generated",
        "complexes have <= 6 vertices, <= 4 generating simplices and <= 57 simplices, orders <= 5 (thorough tier: additionally "
        "every complex generated by <= 3 simplices on 5 vertices); complexes above 7 nodes or 70 simplices - the two LARGE complexes "
        "of every run, or a corpus / replay case - are evaluated on the implementation only (property predicate: keys, column "
        "support, B_k-1 @ B_k = 0, L = B^T B + B B^T with the products formed in float64 independently of the dtype the library "
        "chose, symmetry, diagonal of L_0 = vertex degree, dim ker L_0 = #components); above 40 rows the rank is numpy's float64 "
        "matrix_rank instead of exact elimination, and positive semidefiniteness rests on the exactly verified Gram decomposition "
        "(eigenvalues are computed only when that identity fails)",
        "orientation assignments: the quantifier's 'all orientation assignments' is met by enumeration only for the complexes "
        "named in `rule` (every 0/1 assignment); for every other complex ONE assignment per recipe is drawn (constant, hash bits, "
        "values 0..3)",
        "held-object sequences compare the implementation with itself (held object vs fresh copy); the model is not asked there, "
        "and a memo shared between different objects with equal content would be invisible to that comparison (the ordinary "
        "recipes, each a fresh object with its own orientation, meet the model instead)",
        "theorems assume WF (ids unique, members duplicate-free nodes, no empty simplex, distinct member sets, downward closed); "
        "the driver decides WF on every complex the real constructor produced and the check fails if it does not hold",
        "numpy zeros / item assignment / transpose / @ / + are modelled as exact integer matrix operations",
        "dim ker L_0 = number of connected components is proved for the model's L_0 over every ordered field (ker_L0_finrank, "
        "with the component count nComponents the driver reports); on the implementation it is checked by exact rank over "
        "fractions against a union-find, xgi.number_connected_components of the 1-skeleton and the model's count",
        "positive semidefiniteness is proved for integer and rational vectors (hodge_psd, hodge_psd_rat); on the implementation "
        "it is sampled with 3 Gaussian vectors per matrix (x^T L x >= -1e-9) next to the exact identity L = B_k^T B_k + B_k+1 B_k+1^T",
    ]
    return finish(ctx, trusted_base=TRUSTED_COMMON + [
        "Python's list.sort(key=…) is a stable sort (model: stable insertion sort by the same key); itertools.combinations order = `combs`",
        "fractions.Fraction Gaussian elimination and a union-find in the harness (kernel-vs-components clause)"])


def replay(ctx, path):
    """`./check C13 --replay <file>`: same verdict logic as a run, on the one case; the evidence of a replay goes to
    out/replay-evidence/C13.json — evidence/C13.json always describes a full run"""
    from .. import core as _core
    j = json.load(open(path))
    rec = j.get("case", j)
    if not (isinstance(rec, dict) and ("facets" in rec or "gen" in rec)):
        raise Infra(f"{path} does not hold a C13 recipe (a model-tie/unproven replay has no concrete input to re-run)")

    def _write(prop, ev):
        d = os.path.join(_core.OUT, "replay-evidence")
        os.makedirs(d, exist_ok=True)
        ev = dict(ev, replay_of=os.path.abspath(path))
        with open(os.path.join(d, prop + ".json"), "w") as f:
            json.dump(_core.jsonable(ev), f, indent=1)
    orig = _core.write_evidence
    _core.write_evidence = _write
    try:
        ok = build_and_audit(ctx, "XgiModel.Props.C13", ["XgiModel.C13.Drive"])
        ctx.rule = "replay of one recorded case"
        if rec.get("kind") == "held":
            run_held(ctx, [rec])   # a held-object sequence: implementation against itself on a fresh copy (no model call)
            dis = []
        else:
            dis = process(ctx, [rec], "C13~hodge_matrix (replay)")
        conclude(ctx, ok, dis, None)
        return finish(ctx, trusted_base=TRUSTED_COMMON)
    finally:
        _core.write_evidence = orig
