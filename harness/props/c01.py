"""C01 — undirected incidence integrity under every edit history."""
from .. import hg as M
from ..core import TRUSTED_COMMON, build_and_audit, finish
from ..sm import run_sm, targeted_search

FIELDS = ["out_class", "nodes", "edges", "mem", "memb", "nattrK", "eattrK", "nattr_missing", "eattr_missing"]


def pred(snap, op, prev, exc):
    """the WF clauses of Props/C01.lean evaluated on the implementation's observable state"""
    fails = []
    nodes, edges = snap["nodes"], snap["edges"]
    mem, memb = dict((repr(k), v) for k, v in snap["mem"]), dict((repr(k), v) for k, v in snap["memb"])
    if None in nodes or None in edges:
        fails.append(("none-id", "None is a node or edge id"))
    for e, ms in snap["mem"]:
        if not isinstance(ms, list):
            fails.append(("members-unreadable", f"edge {e!r}: {ms}")); continue
        for n in ms:
            if n not in nodes:
                fails.append(("member-not-a-node", f"edge {e!r} lists {n!r} which is not a node"))
            elif not isinstance(memb.get(repr(n)), list) or e not in memb[repr(n)]:
                fails.append(("member-without-membership", f"{n!r} in edge {e!r} but {e!r} not in memberships({n!r})"))
    for n, es in snap["memb"]:
        if not isinstance(es, list):
            fails.append(("memberships-unreadable", f"node {n!r}: {es}")); continue
        for e in es:
            if e not in edges:
                fails.append(("membership-not-an-edge", f"node {n!r} lists edge {e!r} which does not exist"))
            elif not isinstance(mem.get(repr(e)), list) or n not in mem[repr(e)]:
                fails.append(("membership-without-member", f"{e!r} in memberships({n!r}) but {n!r} not in members({e!r})"))
    if any(a == "$missing" for _, a in snap["nattr"]) or sorted(map(repr, snap["nattrK"])) != sorted(map(repr, nodes)):
        fails.append(("node-attr-record", f"node attribute records {snap['nattrK']} vs nodes {nodes}"))
    if any(a == "$missing" for _, a in snap["eattr"]) or sorted(map(repr, snap["eattrK"])) != sorted(map(repr, edges)):
        fails.append(("edge-attr-record", f"edge attribute records {snap['eattrK']} vs edges {edges}"))
    return fails


def derive(snap):
    snap["out_class"] = "err" if snap["out"].startswith("err") else "ok"
    snap["nattr_missing"] = [k for k, a in snap["nattr"] if a == "$missing"]
    snap["eattr_missing"] = [k for k, a in snap["eattr"] if a == "$missing"]
    return snap


def run(ctx):
    ok = build_and_audit(ctx, "XgiModel.Props.C01", ["XgiModel.Drive.HG"])
    ctx.rule = ("histories of 1-30 public mutator calls (all bulk formats, explicit/auto ids, weak/strong removal, "
                "None / missing / duplicate ids) on xgi.Hypergraph from one PRNG; non-trivial = distinct projected state "
                "with an edge of >=2 members after >=2 op kinds")
    extra = []
    if not ctx.quick:
        extra = list(M.exhaustive_histories(4))
        ctx.exhaustive = True
        ctx.extra["exhaustive_space"] = f"all {len(extra)} op sequences of length <= 4 over the 14-op alphabet of hg.small_alphabet() (correspondence + predicate)"
    dis, hist = run_sm(ctx, M, "HG", FIELDS, pred, ctx.n(300, 12000), derive=derive, extra_histories=extra,
                       corr_name="correspondence HG~Hypergraph (incidence projection)")
    # ID types outside the model's domain (float, numpy, bool, bytes, frozenset, huge ints): predicate on the implementation only
    from ..c01_exotic import run_exotic
    run_exotic(ctx, ctx.n(400, 8000))
    from ..core import unlisted_violations
    if (dis or not ok) and not unlisted_violations(ctx):
        targeted_search(ctx, M, pred, dis, hist, n=ctx.n(1500, 20000), derive=derive)
        if not unlisted_violations(ctx):
            ctx.violation("model-tie", "unproven", {"broken": ctx.broken, "example": ctx.extra.get("disagreements", [])[:1]},
                          detail="; ".join(ctx.broken)[:500], kind="unproven", broken=ctx.broken)
    ctx.assumptions = ["node labels generated: int (incl. negative, colliding in small hash tables) and str, mixed; edge IDs generated: int (incl. 10**30 and 10**309), str, and the tuple IDs that merge_duplicate_edges(rename='tuple') creates; None as a malformed ID. Tuple NODE labels are in the model's domain but are not generated: the list formats of add_edges_from / add_nodes_from read a leading tuple as (members, id) / (node, attrs) (DESIGN 13.6); bool / float / numpy IDs only in the C04 provenance predicate",
                       "set iteration order and random.sample results are passed to the model as recorded oracles"]
    return finish(ctx, trusted_base=TRUSTED_COMMON)


def replay(ctx, path):
    import json
    j = json.load(open(path))
    if "exotic" in j.get("case", {}):
        from ..c01_exotic import replay_exotic
        return replay_exotic(ctx, j["case"], path)
    from ..sm import replay_sm
    return replay_sm(ctx, M, "HG", FIELDS, pred, path, derive=derive)
