"""C06 — views and statistics are live and mutually consistent.

For every history (Hypergraph, SimplicialComplex, DiHypergraph) the check creates the views `H.nodes`, `H.edges`,
the stat objects (`H.nodes.degree`, `H.nodes.degree(order=k)`, `H.nodes.degree(weight=w)`, attrs stats,
`H.edges.size`, …) and the multi-stat objects ONCE, before the first call, and keeps them across every mutation
("views held across mutations").  After every call it reads the held objects again and

  (i)  evaluates the property's own predicate on the implementation: the held objects agree with freshly
       constructed views (liveness), list the current IDs in insertion order, degree = |memberships|,
       size = |members|, order = size - 1, sum(degree) = sum(size) (directed: in/out/total degrees and head/tail
       sizes against the directed incidence), all output formats of one stat agree and follow view order,
       filterby / filterby_attr return exactly the IDs satisfying the comparison (brute force) in view order,
       neighbors / lookup / duplicates / isolates / singletons / empty / maximal agree with brute-force
       set-theoretic definitions;
  (ii) compares every observation with the Lean model's evaluation at the current state (driver C06: the
       Hypergraph histories are replayed op by op through `HG.step`; SimplicialComplex states — same view
       classes — are installed from their tables; DiHypergraph states are installed into the directed
       twin of the model, C06/DiViews.lean).
"""
import copy
import json
import os
import time

import numpy as np
import xgi
from xgi.core.views import DiEdgeView, DiNodeView, EdgeView, NodeView
from xgi.exception import IDNotFound, XGIError

from .. import dhg as MD
from .. import hg as MH
from .. import sc as MS
from ..core import TRUSTED_COMMON, Infra, build_and_audit, canon, enc_attrs, enc_attrs_req, enc_id, enc_val, enc_val_req, finish, idkey, jhash, run_driver
from ..fn import approx_equal
from ..sm import load_corpus, shrink
from . import c01 as C01
from . import c02 as C02

MODES = ["eq", "neq", "lt", "gt", "leq", "geq", "between"]
ABSENT = "$absent"

# ----------------------------------------------------------------------------- small helpers


def sids(it):
    return sorted((enc_id(x) for x in it), key=idkey)


def errname(e):
    if isinstance(e, (XGIError, IDNotFound)):
        return "err:lib"
    if isinstance(e, TypeError):
        return "err:type"
    if isinstance(e, ValueError):
        return "err:value"
    return "err:" + type(e).__name__


def attempt(f):
    try:
        return "ok", f()
    except Exception as e:  # noqa
        return errname(e), e


def pycmp(mode, v, x, y):
    """the comparison a filter mode stands for, with Python's own semantics (may raise TypeError)"""
    if mode == "eq":
        return v == x
    if mode == "neq":
        return v != x
    if mode == "lt":
        return v < x
    if mode == "gt":
        return v > x
    if mode == "leq":
        return v <= x
    if mode == "geq":
        return v >= x
    return x <= v <= y


def scalar(v):
    return v is None or isinstance(v, (int, float, str, np.integer, np.floating)) and not isinstance(v, bool)


def plain(v):
    """numpy / pandas scalar -> Python scalar"""
    if isinstance(v, np.generic):
        return v.item()
    return v


def homogeneous(vals):
    return bool(vals) and (all(isinstance(v, (int, np.integer)) and not isinstance(v, bool) for v in vals)
                           or all(isinstance(v, (float, np.floating)) for v in vals)
                           or all(isinstance(v, str) for v in vals))


def enc_sv(v, kind):
    """stat value -> the JSON form the model prints (after canon)"""
    if kind == "attrs":
        return enc_attrs(v)
    if kind == "val":
        return enc_val(plain(v))
    return plain(v)            # int | float


def agree(m, i):
    """canonicalised model value vs implementation value ("$skip" = not comparable on this input)"""
    if isinstance(i, str) and i == "$skip":
        return True
    if isinstance(m, str) and m == "unmodelled":
        return True
    if isinstance(m, dict) and set(m) == {"$q"}:
        return not isinstance(i, (list, dict, str)) and i is not None and approx_equal(i, m["$q"])
    if isinstance(m, dict):
        return isinstance(i, dict) and set(m) == set(i) and all(agree(m[k], i[k]) for k in m)
    if isinstance(m, list):
        return isinstance(i, list) and len(m) == len(i) and all(agree(a, b) for a, b in zip(m, i))
    if isinstance(m, bool) or isinstance(i, bool):
        return m is i
    return m == i


# ----------------------------------------------------------------------------- ground truth from fresh views

class Truth:
    """the current incidence read through freshly constructed views (a fresh view cannot be stale)"""

    def __init__(self, H, directed):
        self.directed = directed
        if directed:
            self.nv, self.ev = DiNodeView(H), DiEdgeView(H)
        else:
            self.nv, self.ev = NodeView(H), EdgeView(H)
        self.nodes, self.edges = list(self.nv), list(self.ev)
        if directed:
            dm = self.ev.dimembers(dtype=dict)
            self.tail = {e: set(dm[e][0]) for e in self.edges}
            self.head = {e: set(dm[e][1]) for e in self.edges}
            ds = self.nv.dimemberships()
            self.min = {n: set(ds[n][0]) for n in self.nodes}
            self.mout = {n: set(ds[n][1]) for n in self.nodes}
            self.mem = {e: self.tail[e] | self.head[e] for e in self.edges}
            self.memb = {n: self.min[n] | self.mout[n] for n in self.nodes}
        else:
            mm = self.ev.members(dtype=dict)
            self.mem = {e: set(mm[e]) for e in self.edges}
            ms = self.nv.memberships()
            self.memb = {n: set(ms[n]) for n in self.nodes}
        self.nattr = {n: copy.deepcopy(self.nv[n]) for n in self.nodes}     # later calls mutate the live dicts
        self.eattr = {e: copy.deepcopy(self.ev[e]) for e in self.edges}

    def keys(self, k):
        return self.nodes if k == "n" else self.edges

    def tab(self, k):
        return self.memb if k == "n" else self.mem

    def attr(self, k):
        return self.nattr if k == "n" else self.eattr

    def wellformed(self):
        """the two-way incidence invariant (C01 / C02); C06 is evaluated on states that satisfy it"""
        if len(set(self.nodes)) != len(self.nodes) or len(set(self.edges)) != len(self.edges):
            return False
        if None in self.nodes or None in self.edges:
            return False
        if self.directed:
            pairs = ((self.tail, self.mout), (self.head, self.min))
        else:
            pairs = ((self.mem, self.memb),)
        for em, nm in pairs:
            for e, ms in em.items():
                for n in ms:
                    if n not in nm or e not in nm[n]:
                        return False
            for n, es in nm.items():
                for e in es:
                    if e not in em or n not in em[e]:
                        return False
        return True

    def tables(self):
        """request form of the state for the driver's `load` / `dload`"""
        r = {"nodes": [enc_id(n) for n in self.nodes], "edges": [enc_id(e) for e in self.edges],
             "nattr": [[enc_id(n), enc_attrs_req(self.nattr[n])] for n in self.nodes],
             "eattr": [[enc_id(e), enc_attrs_req(self.eattr[e])] for e in self.edges]}
        if self.directed:
            r.update(tail=[[enc_id(e), sids(self.tail[e])] for e in self.edges],
                     head=[[enc_id(e), sids(self.head[e])] for e in self.edges],
                     membIn=[[enc_id(n), sids(self.min[n])] for n in self.nodes],
                     membOut=[[enc_id(n), sids(self.mout[n])] for n in self.nodes])
        else:
            r.update(mem=[[enc_id(e), sids(self.mem[e])] for e in self.edges],
                     memb=[[enc_id(n), sids(self.memb[n])] for n in self.nodes])
        return r


# ----------------------------------------------------------------------------- parameters

def gen_params(rng):
    """per-history arguments of the held stat objects"""
    return {"k": rng.choice([0, 1, 1, 2, 3, -1]), "w": rng.choice(["w", "weight", "m"]), "d": rng.choice([0, 1, 2, 3]),
            "attr": rng.choice(MH.ATTR_KEYS), "missing": rng.choice([None, None, 0, 1, "r"])}


def gen_step(rng, T):
    """per-step arguments of the queries evaluated on the held views"""
    half = lambda: [rng.randint(0, 7), 2]
    ax = rng.choice([0, 1, 2, "r", "g"])
    ay = rng.choice([1, 2, "g", "s"]) if rng.random() < 0.3 else (ax if isinstance(ax, str) else ax + rng.randint(0, 2))
    x = rng.randint(0, 3)
    qx, qy = half(), half()

    def bunch(ids, universe):
        r = rng.random()
        pool = list(ids) or list(universe)
        b = [rng.choice(pool) for _ in range(rng.randint(0, 4))] if pool else []
        if r < 0.12:
            b.append(rng.choice(["zz", 99, -7]))          # an ID that is not in the network
        return [enc_id(i) for i in b]

    def look(ids, tab, other):
        r = rng.random()
        if ids and r < 0.6:
            return sids(tab[rng.choice(ids)])
        return sids(set(rng.choice(other) for _ in range(rng.randint(0, 3)))) if other else []
    return {"x": x, "y": x + rng.randint(0, 2) if rng.random() < 0.85 else x - 1, "qx": qx,
            "qy": qy if qy[0] >= qx[0] or rng.random() < 0.2 else qx, "ax": ax, "ay": ay,
            "sp": rng.choice([1, 2, 2, 3, 0]),
            "nbunch": bunch(T.nodes, [0, 1]), "ebunch": bunch(T.edges, [0, 1]),
            "nlookup": look(T.nodes, T.memb, T.edges), "elookup": look(T.edges, T.mem, T.nodes)}


# ----------------------------------------------------------------------------- held objects

NSTATS_U = ["degree", "degree_o", "and", "attr", "attrs", "degree_w", "degree_ow"]
ESTATS_U = ["size", "order", "size_d", "order_d", "attr", "attrs"]
NSTATS_D = ["degree", "degree_o", "in_degree", "in_degree_o", "out_degree", "out_degree_o", "attr", "attrs",
            "degree_w", "in_degree_w", "out_degree_ow"]
ESTATS_D = ["size", "order", "size_d", "order_d", "tail_size", "tail_order", "head_size", "head_order",
            "tail_size_d", "head_size_d", "tail_order_d", "head_order_d", "attr", "attrs"]
KIND = {"attr": "val", "attrs": "attrs"}      # everything else is numeric
NMULTI = ["degree", "degree_o", "attr"]
EMULTI = ["size", "order_d", "attr"]


def node_stats(v, P, directed):
    k, w, a, mi = P["k"], P["w"], P["attr"], P["missing"]
    s = {"degree": v.degree, "degree_o": v.degree(order=k), "attr": v.attrs(a, mi), "attrs": v.attrs,
         "degree_w": v.degree(weight=w)}
    if directed:
        s.update(in_degree=v.in_degree, in_degree_o=v.in_degree(order=k), out_degree=v.out_degree,
                 out_degree_o=v.out_degree(order=k), in_degree_w=v.in_degree(weight=w),
                 out_degree_ow=v.out_degree(order=k, weight=w))
    else:
        s.update({"and": v.average_neighbor_degree, "degree_ow": v.degree(order=k, weight=w)})
    return s


def edge_stats(v, P, directed):
    d, a, mi = P["d"], P["attr"], P["missing"]
    s = {"size": v.size, "order": v.order, "size_d": v.size(degree=d), "order_d": v.order(degree=d),
         "attr": v.attrs(a, mi), "attrs": v.attrs}
    if directed:
        s.update(tail_size=v.tail_size, tail_order=v.tail_order, head_size=v.head_size, head_order=v.head_order,
                 tail_size_d=v.tail_size(degree=d), head_size_d=v.head_size(degree=d),
                 tail_order_d=v.tail_order(degree=d), head_order_d=v.head_order(degree=d))
    return s


class Held:
    """the objects created once at the start of a history"""

    def __init__(self, H, P, directed):
        self.H, self.P, self.directed = H, P, directed
        self.nv, self.ev = H.nodes, H.edges
        self.ns = node_stats(self.nv, P, directed)
        self.es = edge_stats(self.ev, P, directed)
        self.nmulti = self.nv.multi(["degree", self.ns["degree_o"], self.ns["attr"]])
        self.emulti = self.ev.multi([self.es["size"], self.es["order_d"], self.es["attr"]])
        self.filtered = {}        # "n"/"e" -> (ids, held filtered view, held stat on it), created when IDs exist

    def held_filtered(self, ob, T):
        """filtered views (and a stat on each) held across mutations: while every ID they name is still present
        they must keep listing those IDs and their stats must show the CURRENT values; once an ID they name has
        been removed they may raise or be stale (not counted, DESIGN §7) — they are dropped and re-created"""
        for k, view, ids, stat, tab in (("n", self.nv, T.nodes, "degree", T.memb), ("e", self.ev, T.edges, "size", T.mem)):
            cur = self.filtered.get(k)
            if cur is not None and not set(cur[0]) <= set(ids):
                cur = None
                self.filtered.pop(k)
            if cur is None:
                if len(ids) >= 2:
                    b = [ids[-1], ids[0]]
                    s0, fv = attempt(lambda: view(b))
                    if s0 != "ok":
                        # a view held across mutations must accept the IDs that exist now
                        ob.fail(f"{type(view).__name__}.__call__", "held-view-rejects-current-ids",
                                f"held view called with current ids {b}: {s0} {fv}", "held_filtered")
                        continue
                    self.filtered[k] = (list(fv), fv, getattr(fv, stat))
                continue
            fids, fv, st = cur
            s1, got = attempt(lambda: list(fv))
            s2, d = attempt(st.asdict)
            vn = type(fv).__name__
            if s1 != "ok" or got != fids:
                ob.fail(f"{vn}.__iter__", "held-filtered-view-changed", f"created as {fids}, now {s1} {got}", "held_filtered")
            if s2 != "ok" or d != {i: len(tab[i]) for i in fids}:
                ob.fail("IDStat.asdict", "held-stat-on-filtered-view-stale", f"{stat} on held view {fids}: {s2} {d}, incidence says "
                        f"{ {i: len(tab[i]) for i in fids} }", "held_filtered")


# ----------------------------------------------------------------------------- brute-force definitions

def truth_stats(T, P, k):
    """expected value of every stat at every ID, straight from the incidence; a value is the exception class
    name ("err:type") when the definition itself cannot be evaluated (non-numeric weights)"""
    K, W, D, A, MI = P["k"], P["w"], P["d"], P["attr"], P["missing"]
    out = {}
    if k == "n":
        def deg(table, order=None, weight=None):
            res = {}
            for n in T.nodes:
                es = [e for e in table[n] if order is None or len(T.mem[e]) == order + 1]
                if weight is None:
                    res[n] = len(es)
                    continue
                ws = [T.eattr[e].get(weight, 1) for e in es]
                if all(isinstance(w, int) and not isinstance(w, bool) for w in ws):
                    res[n] = sum(ws)
                elif any(not isinstance(w, (int, float)) for w in ws):
                    res[n] = "err:type"          # sum() over a non-number raises: a stat over a view holding n raises
                else:
                    res[n] = "$any"              # bool / float weights: outside the attribute domain
            return res
        out["degree"] = deg(T.memb)
        out["degree_o"] = deg(T.memb, K)
        out["degree_w"] = deg(T.memb, None, W)
        out["attr"] = {n: T.nattr[n].get(A, MI) for n in T.nodes}
        out["attrs"] = {n: T.nattr[n] for n in T.nodes}
        if T.directed:
            out["in_degree"], out["in_degree_o"] = deg(T.min), deg(T.min, K)
            out["out_degree"], out["out_degree_o"] = deg(T.mout), deg(T.mout, K)
            out["in_degree_w"], out["out_degree_ow"] = deg(T.min, None, W), deg(T.mout, K, W)
        else:
            out["degree_ow"] = deg(T.memb, K, W)
            nb = {n: nbrs(T, "n", n, 1) for n in T.nodes}
            out["and"] = {n: (sum(len(T.memb[m]) for m in nb[n]) / len(nb[n]) if nb[n] else 0) for n in T.nodes}
    else:
        dg = {n: len(T.memb[n]) for n in T.nodes}
        cnt = lambda ms: sum(1 for n in ms if dg.get(n) == D)
        out["size"] = {e: len(T.mem[e]) for e in T.edges}
        out["order"] = {e: len(T.mem[e]) - 1 for e in T.edges}
        out["size_d"] = {e: cnt(T.mem[e]) for e in T.edges}
        out["order_d"] = {e: cnt(T.mem[e]) - 1 for e in T.edges}
        out["attr"] = {e: T.eattr[e].get(A, MI) for e in T.edges}
        out["attrs"] = {e: T.eattr[e] for e in T.edges}
        if T.directed:
            out["tail_size"] = {e: len(T.tail[e]) for e in T.edges}
            out["head_size"] = {e: len(T.head[e]) for e in T.edges}
            out["tail_order"] = {e: len(T.tail[e]) - 1 for e in T.edges}
            out["head_order"] = {e: len(T.head[e]) - 1 for e in T.edges}
            out["tail_size_d"] = {e: cnt(T.tail[e]) for e in T.edges}
            out["head_size_d"] = {e: cnt(T.head[e]) for e in T.edges}
            out["tail_order_d"] = {e: cnt(T.tail[e]) - 1 for e in T.edges}
            out["head_order_d"] = {e: cnt(T.head[e]) - 1 for e in T.edges}
    return out


def nbrs(T, k, i, s):
    """IDs other than i sharing a bipartite neighbour with i (and, for s != 1, at least s of them)"""
    tab, bi = T.tab(k), T.tab("e" if k == "n" else "n")
    out = set()
    for b in tab[i]:
        for j in bi[b]:
            if j != i and (s == 1 or len(tab[i] & tab[j]) >= s):
                out.add(j)
    return out


def classes(T, k):
    cl = {}
    for i in T.keys(k):
        cl.setdefault(frozenset(T.tab(k)[i]), []).append(i)
    return list(cl.values())


def maximal_def(T, strict):
    out = []
    for e in T.edges:
        if strict:
            ok = not any(f != e and T.mem[e] <= T.mem[f] for f in T.edges)
        else:
            ok = not any(T.mem[e] < T.mem[f] for f in T.edges)
        if ok:
            out.append(e)
    return out


# ----------------------------------------------------------------------------- observation + predicate

class Obs:
    def __init__(self):
        self.o = {}
        self.fails = []          # (site, failure_class, detail, field)

    def fail(self, site, cls, detail, field):
        self.fails.append((site, cls, str(detail)[:400], field))


def same_vals(a, b):
    """stat values equal (floats by the float rule; NaN never appears)"""
    if isinstance(a, float) or isinstance(b, float):
        try:
            return abs(float(a) - float(b)) <= 1e-9 * max(1.0, abs(float(b)))
        except Exception:  # noqa
            return False
    return type(plain(a)) is type(plain(b)) and a == b if isinstance(a, bool) or isinstance(b, bool) else a == b


def stat_forms(ob, stat, view_ids, expected, kind, cname, field):
    """read one stat object in all formats; check them against `expected` (dict | "err:…") and each other.
    Returns the observation (model shape)."""
    st, d = attempt(stat.asdict)
    if isinstance(expected, dict) and any(isinstance(expected[i], str) and expected[i] == "err:type" for i in view_ids):
        expected = "err:type"
    if isinstance(expected, str):                   # the definition raises (non-numeric weights)
        if st != expected:
            ob.fail(f"{cname}.asdict", "wrong-exception", f"expected {expected}, got {st}", field)
        return st if st != "ok" else "$skip"
    if st != "ok":
        ob.fail(f"{cname}.asdict", "raises", f"{st}: {d}", field)
        return st
    vals_free = any(isinstance(v, str) and v == "$any" for v in expected.values())
    if list(d.keys()) != list(view_ids):
        ob.fail(f"{cname}.asdict", "keys-not-view-order", f"keys {list(d)} view {list(view_ids)}", field)
    elif not vals_free and not all(same_vals(d[i], expected[i]) for i in view_ids):
        bad = next(i for i in view_ids if not same_vals(d[i], expected[i]))
        ob.fail(f"{cname}.asdict", "wrong-value", f"id {bad!r}: stat says {d[bad]!r}, incidence says {expected[bad]!r}", field)
    vals = [d[i] for i in d]
    out = {"asdict": [[enc_id(i), enc_sv(v, kind)] for i, v in d.items()]}
    # aslist
    st, l = attempt(stat.aslist)
    if st != "ok":
        ob.fail(f"{cname}.aslist", "raises", f"{st}: {l}", field); out["aslist"] = st
    else:
        if len(l) != len(vals) or not all(same_vals(a, b) for a, b in zip(l, vals)):
            ob.fail(f"{cname}.aslist", "differs-from-asdict", f"aslist {l} asdict values {vals}", field)
        out["aslist"] = [enc_sv(v, kind) for v in l]
    # asnumpy: np.array(list) is the list when the values are scalars of one type (or dtype=object)
    st, a = attempt(stat.asnumpy)
    comparable = all(scalar(v) for v in vals)
    if st != "ok":
        if comparable:
            ob.fail(f"{cname}.asnumpy", "raises", f"{st}: {a}", field); out["asnumpy"] = st
        else:
            out["asnumpy"] = "$skip"
    else:
        if comparable and (a.dtype == object or homogeneous(vals) or not vals):
            al = a.tolist()
            if len(al) != len(vals) or not all(same_vals(x, y) for x, y in zip(al, vals)):
                ob.fail(f"{cname}.asnumpy", "differs-from-aslist", f"asnumpy {al} aslist {vals}", field)
            out["asnumpy"] = [enc_sv(v, kind) for v in al]
        else:
            out["asnumpy"] = "$skip"
    # aspandas (pandas turns tuple keys into a MultiIndex: tuple IDs are outside what a Series index shows)
    st, s = attempt(stat.aspandas)
    if any(isinstance(i, tuple) for i in view_ids):
        out["aspandas"] = "$skip"
    elif st != "ok":
        ob.fail(f"{cname}.aspandas", "raises", f"{st}: {s}", field); out["aspandas"] = st
    else:
        idx = s.index.tolist()
        pv = "$skip"
        if sorted(map(repr, idx)) != sorted(map(repr, view_ids)):
            ob.fail(f"{cname}.aspandas", "index-not-the-view", f"index {idx} view {list(view_ids)}", field)
        elif idx != list(view_ids):
            ob.fail(f"{cname}.aspandas", "index-not-view-order", f"index {idx} view order {list(view_ids)}", field)
        if comparable and homogeneous(vals):
            sv = [plain(x) for x in s.tolist()]
            byid = dict(zip(idx, sv))
            if set(byid) == set(d) and not all(same_vals(byid[i], d[i]) for i in d):
                ob.fail(f"{cname}.aspandas", "values-differ-from-asdict", f"series {byid} asdict {d}", field)
            pv = [enc_sv(v, kind) for v in sv]
        if getattr(s, "name", None) != stat.name:
            ob.fail(f"{cname}.aspandas", "series-name", f"{s.name!r} vs {stat.name!r}", field)
        out["aspandas"] = {"index": [enc_id(i) for i in idx], "values": pv}
    return out


def multi_forms(ob, multi, singles, keys, kinds, view_ids, field):
    """`view.multi([...])`: every layout against the single stats' own asdict()"""
    cname = "MultiIDStat"
    names = [s.name for s in singles]
    st, sd = attempt(lambda: [s.asdict() for s in singles])
    if st != "ok":
        return "$skip"
    out = {}
    st, d = attempt(multi.asdict)
    if st != "ok":
        ob.fail(f"{cname}.asdict", "raises", f"{st}: {d}", field); return st
    exp = {n: {nm: sd[j][n] for j, nm in enumerate(names)} for n in view_ids}
    if list(d.keys()) != list(view_ids):
        ob.fail(f"{cname}.asdict", "keys-not-view-order", f"keys {list(d)} view {list(view_ids)}", field)
    elif d != exp or any(list(d[n].keys()) != names for n in d):
        ob.fail(f"{cname}.asdict", "differs-from-single-stats", f"multi {d} singles {exp}", field)
    enc_row = lambda vals: [enc_sv(v, kinds[j]) for j, v in enumerate(vals)]
    out["asdict"] = [[enc_id(n), [[keys[j], enc_sv(v, kinds[j])] for j, v in enumerate(r.values())]] for n, r in d.items()]
    st, dt = attempt(lambda: multi.asdict(transpose=True))
    if st != "ok":
        ob.fail(f"{cname}.asdict", "raises", f"transpose: {st}: {dt}", field); out["asdict_t"] = st
    else:
        if list(dt.keys()) != names or any(dt[nm] != sd[j] or list(dt[nm]) != list(view_ids) for j, nm in enumerate(names)):
            ob.fail(f"{cname}.asdict", "transpose-differs-from-single-stats", f"{dt} vs {sd}", field)
        out["asdict_t"] = [[keys[j], [[enc_id(i), enc_sv(v, kinds[j])] for i, v in dt[nm].items()]] for j, nm in enumerate(dt)] \
            if len(dt) == len(keys) else "$skip"
    st, l = attempt(multi.aslist)
    rows = [[sd[j][n] for j in range(len(names))] for n in view_ids]
    if st != "ok":
        ob.fail(f"{cname}.aslist", "raises", f"{st}: {l}", field); out["aslist"] = st
    else:
        if l != rows:
            ob.fail(f"{cname}.aslist", "differs-from-single-stats", f"{l} vs {rows}", field)
        out["aslist"] = [enc_row(r) for r in l] if all(len(r) == len(keys) for r in l) else "$skip"
    st, lt = attempt(lambda: multi.aslist(transpose=True))
    if st != "ok":
        ob.fail(f"{cname}.aslist", "raises", f"transpose: {st}: {lt}", field); out["aslist_t"] = st
    else:
        if lt != [[sd[j][n] for n in view_ids] for j in range(len(names))]:
            ob.fail(f"{cname}.aslist", "transpose-differs-from-single-stats", f"{lt}", field)
        out["aslist_t"] = [[enc_sv(v, kinds[j]) for v in col] for j, col in enumerate(lt)] if len(lt) == len(keys) else "$skip"
    st, dl = attempt(lambda: multi.asdict(inner=list))
    if st != "ok" or dl != {n: rows[i] for i, n in enumerate(view_ids)} or list(dl) != list(view_ids):
        ob.fail(f"{cname}.asdict", "inner-list-differs", f"{st}: {dl}", field)
    st, ld = attempt(lambda: multi.aslist(inner=dict))
    if st != "ok" or ld != [exp[n] for n in view_ids]:
        ob.fail(f"{cname}.aslist", "inner-dict-differs", f"{st}: {ld}", field)
    # asnumpy on the numeric columns only (np.array of mixed rows is numpy's business)
    st, df = attempt(multi.aspandas)
    if any(isinstance(i, tuple) for i in view_ids):
        out["aspandas"] = "$skip"
    elif st != "ok":
        ob.fail(f"{cname}.aspandas", "raises", f"{st}: {df}", field); out["aspandas"] = st
    else:
        idx, cols = df.index.tolist(), df.columns.tolist()
        if sorted(map(repr, idx)) != sorted(map(repr, view_ids)):
            ob.fail(f"{cname}.aspandas", "index-not-the-view", f"index {idx} view {list(view_ids)}", field)
        elif idx != list(view_ids):
            ob.fail(f"{cname}.aspandas", "index-not-view-order", f"index {idx} view order {list(view_ids)}", field)
        if cols != names:
            ob.fail(f"{cname}.aspandas", "columns-not-stat-names", f"{cols} vs {names}", field)
        prow = []
        if cols == names:
            for n in idx:
                r = []
                for j, nm in enumerate(names):
                    if kinds[j] == "num" and n in sd[j]:
                        v = plain(df[nm][n])
                        if not same_vals(v, sd[j][n]):
                            ob.fail(f"{cname}.aspandas", "values-differ-from-single-stats", f"[{n!r},{nm}] = {v!r} vs {sd[j][n]!r}", field)
                        r.append(int(v) if float(v).is_integer() else v)
                    else:
                        r.append("$skip")
                prow.append(r)
        out["aspandas"] = {"index": [enc_id(i) for i in idx], "columns": keys if cols == names else "$skip",
                           "rows": prow if cols == names else "$skip"}
    return out


def view_ids_obs(ob, site, cls_prefix, f, expected, field, as_set=False):
    """call a view-returning (or set-returning) query; check it against the brute-force `expected`
    (list in view order | set | "err:lib"); returns the observation"""
    st, r = attempt(f)
    if isinstance(expected, str):
        if st != expected:
            ob.fail(site, "wrong-exception" if st != "ok" else "no-exception", f"expected {expected}, got {st} {r if st == 'ok' else ''}", field)
        return st if st != "ok" else "$skip"
    if st != "ok":
        ob.fail(site, "raises", f"{st}: {r}", field)
        return st
    if as_set:
        got = set(r)
        if got != set(expected):
            ob.fail(site, cls_prefix, f"got {sorted(map(repr, got))} definition gives {sorted(map(repr, expected))}", field)
        return sids(got)
    got = list(r)
    if sorted(map(repr, got)) != sorted(map(repr, expected)):
        ob.fail(site, cls_prefix, f"got {got} definition gives {list(expected)}", field)
    elif got != list(expected):
        ob.fail(site, "not-view-order", f"got {got} view order {list(expected)}", field)
    return [enc_id(i) for i in got]


def filters(ob, view, vname, ids, stat_arg, values, x, y, field):
    """view.filterby(stat, x, mode) for every mode against the brute force over `values`"""
    out = {}
    for m in MODES:
        val = (x, y) if m == "between" else x
        try:
            exp = [i for i in ids if pycmp(m, values[i], x, y)]
        except TypeError:
            exp = "err:type"
        out[m] = view_ids_obs(ob, f"{vname}.filterby", f"wrong-ids-{m}", lambda: view.filterby(stat_arg, val, m), exp, field)
    # a callable mode `mode(value, val)`, and an unknown mode (ValueError); predicate only
    view_ids_obs(ob, f"{vname}.filterby", "wrong-ids-callable", lambda: view.filterby(stat_arg, x, lambda v, val: 2 * v >= val + 1),
                 [i for i in ids if 2 * values[i] >= x + 1], field)
    view_ids_obs(ob, f"{vname}.filterby", "unknown-mode-accepted", lambda: view.filterby(stat_arg, x, "approx"), "err:value", field)
    return out


def attr_filters(ob, view, vname, ids, attrs, P, sp, field):
    out = {}
    a, mi, x, y = P["attr"], P["missing"], sp["ax"], sp["ay"]
    for m in MODES:
        val = (x, y) if m == "between" else x
        try:
            exp = [i for i in ids if attrs[i].get(a, mi) is not None and pycmp(m, attrs[i].get(a, mi), x, y)]
        except TypeError:
            exp = "err:type"
        out[m] = view_ids_obs(ob, f"{vname}.filterby_attr", f"wrong-ids-{m}", lambda: view.filterby_attr(a, val, m, mi), exp, field)
    view_ids_obs(ob, f"{vname}.filterby_attr", "wrong-ids-callable", lambda: view.filterby_attr(a, x, lambda v, val: repr(v) >= repr(val), mi),
                 [i for i in ids if attrs[i].get(a, mi) is not None and repr(attrs[i].get(a, mi)) >= repr(x)], field)
    view_ids_obs(ob, f"{vname}.filterby_attr", "unknown-mode-accepted", lambda: view.filterby_attr(a, x, "approx", mi), "err:value", field)
    return out


def frac(q):
    return q[0] / q[1]


def observe(held, T, sp, prev_order=None, op=None):
    """read every held object; returns Obs (observation in the model's response shape + predicate failures)"""
    ob = Obs()
    o, P, directed = ob.o, held.P, held.directed
    nvn, evn = type(held.nv).__name__, type(held.ev).__name__
    # ---- the views list exactly the current IDs, in insertion order
    for key, view, ids, num in (("nodes", held.nv, T.nodes, "num_nodes"), ("edges", held.ev, T.edges, "num_edges")):
        vn = type(view).__name__
        got = list(view)
        o[key] = [enc_id(i) for i in got]
        if got != ids:
            ob.fail(f"{vn}.__iter__", "held-view-stale", f"held view {got} fresh view {ids}", key)
        if len(view) != len(ids) or getattr(held.H, num) != len(ids) or any((i in view) is False for i in ids) or (ABSENT in view):
            ob.fail(f"{vn}.__len__", "len-or-contains", f"len {len(view)} ids {ids}", key)
        if len(set(got)) != len(got):
            ob.fail(f"{vn}.__iter__", "duplicate-id", f"{got}", key)
        if prev_order is not None and op is not None and op["op"] in STABLE_OPS:
            old = [i for i in prev_order[key] if i in set(got)]
            new = [i for i in got if i not in set(prev_order[key])]
            if got != old + new:
                ob.fail(f"{vn}.__iter__", "not-insertion-order", f"before {prev_order[key]} after {got}", key)
    # ---- stats
    tn, te = truth_stats(T, P, "n"), truth_stats(T, P, "e")
    o["nstats"] = {nm: stat_forms(ob, held.ns[nm], T.nodes, tn[nm], KIND.get(nm, "num"), "IDStat", "nstats") for nm in held.ns}
    o["estats"] = {nm: stat_forms(ob, held.es[nm], T.edges, te[nm], KIND.get(nm, "num"), "IDStat", "estats") for nm in held.es}
    # degree = |memberships|, size = |members|, order = size - 1, handshake(s) — on the held stats' own output
    rd = lambda s: attempt(s.asdict)
    dn, se, orr = rd(held.ns["degree"]), rd(held.es["size"]), rd(held.es["order"])
    if dn[0] == se[0] == orr[0] == "ok":
        if any(orr[1][e] != se[1][e] - 1 for e in se[1] if e in orr[1]):
            ob.fail("IDStat.asdict", "order-not-size-minus-one", f"order {orr[1]} size {se[1]}", "estats")
        if sum(dn[1].values()) != sum(se[1].values()):
            ob.fail("IDStat.asdict", "handshake", f"sum degree {sum(dn[1].values())} != sum size {sum(se[1].values())}", "nstats")
    if directed:
        i_, o_ = rd(held.ns["in_degree"]), rd(held.ns["out_degree"])
        t_, h_ = rd(held.es["tail_size"]), rd(held.es["head_size"])
        if i_[0] == o_[0] == t_[0] == h_[0] == "ok":
            if sum(o_[1].values()) != sum(t_[1].values()):
                ob.fail("IDStat.asdict", "handshake-out-tail", f"sum out_degree {sum(o_[1].values())} != sum tail_size {sum(t_[1].values())}", "nstats")
            if sum(i_[1].values()) != sum(h_[1].values()):
                ob.fail("IDStat.asdict", "handshake-in-head", f"sum in_degree {sum(i_[1].values())} != sum head_size {sum(h_[1].values())}", "nstats")
    # single-ID access of a held stat
    for nm, tab, st_ in (("degree", tn["degree"], held.ns["degree"]), ("size", te["size"], held.es["size"])):
        for i in list(tab)[:3]:
            s1, v = attempt(lambda: st_[i])
            if s1 != "ok" or v != tab[i]:
                ob.fail("IDStat.__getitem__", "wrong-value", f"{nm}[{i!r}] = {v!r} vs {tab[i]!r}", "nstats" if nm == "degree" else "estats")
    held.held_filtered(ob, T)
    # ---- multi
    o["nmulti"] = multi_forms(ob, held.nmulti, [held.ns[k] for k in NMULTI], NMULTI, [KIND.get(k, "num") for k in NMULTI], T.nodes, "nmulti")
    o["emulti"] = multi_forms(ob, held.emulti, [held.es[k] for k in EMULTI], EMULTI, [KIND.get(k, "num") for k in EMULTI], T.edges, "emulti")
    # ---- filtered views created now from the held views
    for key, view, ids, bunch_key, stats_f, tstats, vn in (("nview", held.nv, T.nodes, "nbunch", node_stats, tn, nvn),
                                                            ("eview", held.ev, T.edges, "ebunch", edge_stats, te, evn)):
        bunch = [tuple(b) if isinstance(b, list) else b for b in sp[bunch_key]]
        exp = [i for i in ids if i in set(bunch)] if set(bunch) <= set(ids) else "err:lib"
        st, fv = attempt(lambda: view(bunch))
        skey = key[0] + "vstats"
        if isinstance(exp, str):
            if st != exp:
                ob.fail(f"{vn}.__call__", "no-exception" if st == "ok" else "wrong-exception", f"bunch {bunch} ids {ids}: {st}", key)
            o[key] = st if st != "ok" else "$skip"
            o[skey] = o[key[0] + "vfilter"] = "$skip" if st == "ok" else st
            if key == "nview":
                o["nvfattr"] = o[skey]
            continue
        if st != "ok":
            ob.fail(f"{vn}.__call__", "raises", f"bunch {bunch}: {st} {fv}", key)
            o[key] = o[skey] = o[key[0] + "vfilter"] = st
            if key == "nview":
                o["nvfattr"] = st
            continue
        got = list(fv)
        if got != exp:
            ob.fail(f"{vn}.from_view", "wrong-ids" if sorted(map(repr, got)) != sorted(map(repr, exp)) else "not-view-order",
                    f"bunch {bunch}: {got} vs {exp}", key)
        o[key] = [enc_id(i) for i in got]
        fs = stats_f(fv, P, directed)
        o[skey] = {nm: stat_forms(ob, fs[nm], exp, {i: tstats[nm][i] for i in exp}, KIND.get(nm, "num"), "IDStat", skey) for nm in fs}
        if key == "nview":
            o["nvfilter"] = {"degree": filters(ob, fv, vn, exp, "degree", tn["degree"], sp["x"], sp["y"], "nvfilter")}
            o["nvfattr"] = attr_filters(ob, fv, vn, exp, T.nattr, P, sp, "nvfattr")
        else:
            o["evfilter"] = {"size": filters(ob, fv, vn, exp, "size", te["size"], sp["x"], sp["y"], "evfilter")}
    # ---- filterby (by name, by held stat object) / filterby_attr, every mode
    x, y = sp["x"], sp["y"]
    o["nfilter"] = {"degree": filters(ob, held.nv, nvn, T.nodes, "degree", tn["degree"], x, y, "nfilter"),
                    "degree_o": filters(ob, held.nv, nvn, T.nodes, held.ns["degree_o"], tn["degree_o"], x, y, "nfilter")}
    if directed:
        o["nfilter"]["in_degree"] = filters(ob, held.nv, nvn, T.nodes, "in_degree", tn["in_degree"], x, y, "nfilter")
        o["nfilter"]["out_degree_o"] = filters(ob, held.nv, nvn, T.nodes, held.ns["out_degree_o"], tn["out_degree_o"], x, y, "nfilter")
    else:
        o["nfilter"]["and"] = filters(ob, held.nv, nvn, T.nodes, "average_neighbor_degree", tn["and"], frac(sp["qx"]), frac(sp["qy"]), "nfilter")
    o["efilter"] = {"size": filters(ob, held.ev, evn, T.edges, "size", te["size"], x, y, "efilter"),
                    "order": filters(ob, held.ev, evn, T.edges, held.es["order"], te["order"], x, y, "efilter"),
                    "size_d": filters(ob, held.ev, evn, T.edges, held.es["size_d"], te["size_d"], x, y, "efilter")}
    if directed:
        o["efilter"]["tail_size"] = filters(ob, held.ev, evn, T.edges, "tail_size", te["tail_size"], x, y, "efilter")
        o["efilter"]["head_order"] = filters(ob, held.ev, evn, T.edges, held.es["head_order"], te["head_order"], x, y, "efilter")
    o["nfattr"] = attr_filters(ob, held.nv, nvn, T.nodes, T.nattr, P, sp, "nfattr")
    o["efattr"] = attr_filters(ob, held.ev, evn, T.edges, T.eattr, P, sp, "efattr")
    # ---- neighbors
    s = sp["sp"]
    for key, view, k, vn in (("nnbr", held.nv, "n", nvn), ("enbr", held.ev, "e", evn)):
        rows = []
        for i in T.keys(k):
            a = view_ids_obs(ob, f"{vn}.neighbors", "differs-from-definition", lambda: view.neighbors(i), nbrs(T, k, i, 1), key, as_set=True)
            b = view_ids_obs(ob, f"{vn}.neighbors", "differs-from-definition-s", lambda: view.neighbors(i, s), nbrs(T, k, i, s), key, as_set=True)
            rows.append([enc_id(i), a, b])
        o[key] = rows
    o["nbr_missing"] = [view_ids_obs(ob, f"{nvn}.neighbors", "absent-id", lambda: held.nv.neighbors(ABSENT), "err:lib", "nbr_missing", as_set=True),
                        view_ids_obs(ob, f"{evn}.neighbors", "absent-id", lambda: held.ev.neighbors(ABSENT), "err:lib", "nbr_missing", as_set=True)]
    for i in range(2):       # both raised the library's error: the model says the same
        o["nbr_missing"][i] = "err:lib" if o["nbr_missing"][i] == "$skip" else o["nbr_missing"][i]
    # ---- lookup / duplicates
    for key, view, k, vn, lk in (("nlookup", held.nv, "n", nvn, "nlookup"), ("elookup", held.ev, "e", evn, "elookup")):
        sought = [tuple(b) if isinstance(b, list) else b for b in sp[lk]]
        exp = [i for i in T.keys(k) if T.tab(k)[i] == set(sought)]
        o[key] = view_ids_obs(ob, f"{vn}.lookup", "differs-from-definition", lambda: view.lookup(sought), exp, key)
    for key, view, k, vn in (("ndups", held.nv, "n", nvn), ("edups", held.ev, "e", evn)):
        st, r = attempt(view.duplicates)
        if st != "ok":
            ob.fail(f"{vn}.duplicates", "raises", f"{st}: {r}", key); o[key] = st
            continue
        got = list(r)
        o[key] = [enc_id(i) for i in got]
        bad = None
        for c in classes(T, k):
            rep = [i for i in c if i not in set(got)]
            if (len(c) == 1 and rep != c) or (len(c) > 1 and len(rep) != 1):
                bad = f"class {c} (same bipartite neighbours): reported {[i for i in c if i in set(got)]}"
        if bad or not set(got) <= set(T.keys(k)):
            ob.fail(f"{vn}.duplicates", "not-all-but-one-per-class", bad or f"{got}", key)
        elif got != [i for i in T.keys(k) if i in set(got)]:
            ob.fail(f"{vn}.duplicates", "not-view-order", f"{got}", key)
    # ---- isolates / singletons / empty / maximal
    iso = [n for n in T.nodes if not T.memb[n]]
    o["isolates"] = view_ids_obs(ob, f"{nvn}.isolates", "differs-from-definition", held.nv.isolates, iso, "isolates")
    emp = [e for e in T.edges if not T.mem[e]]
    o["empty"] = view_ids_obs(ob, f"{evn}.empty", "differs-from-definition", held.ev.empty, emp, "empty")
    if not directed:
        iso2 = [n for n in T.nodes if all(len(T.mem[e]) == 1 for e in T.memb[n])]
        o["isolates_is"] = view_ids_obs(ob, f"{nvn}.isolates", "differs-from-definition-ignore-singletons",
                                        lambda: held.nv.isolates(ignore_singletons=True), iso2, "isolates_is")
        o["singletons"] = view_ids_obs(ob, f"{evn}.singletons", "differs-from-definition", held.ev.singletons,
                                       [e for e in T.edges if len(T.mem[e]) == 1], "singletons")
        o["maximal"] = view_ids_obs(ob, f"{evn}.maximal", "differs-from-definition", held.ev.maximal, maximal_def(T, False), "maximal")
        o["maximal_strict"] = view_ids_obs(ob, f"{evn}.maximal", "differs-from-definition-strict",
                                           lambda: held.ev.maximal(strict=True), maximal_def(T, True), "maximal_strict")
    return ob


STABLE_OPS = {"add_node", "add_nodes_from", "add_edge", "add_edges_from", "add_weighted_edges_from", "add_node_to_edge",
              "remove_node", "remove_nodes_from", "remove_edge", "remove_edges_from", "remove_node_from_edge",
              "set_node_attributes", "set_edge_attributes", "set_net_attr", "double_edge_swap", "random_edge_shuffle",
              "update", "add_simplex", "add_simplices_from", "add_weighted_simplices_from", "remove_simplex_id",
              "remove_simplex_ids_from", "has_simplex", "freeze"}


# ----------------------------------------------------------------------------- running histories

class Family:
    """one network class: module with the generator/executor, whether directed, how the model gets the state"""

    def __init__(self, name, M, directed, mode):
        self.name, self.M, self.directed, self.mode = name, M, directed, mode     # mode: "replay" | "load" | "dload"

    def net(self, box):
        return box.H if self.directed else box


FAMILIES = {
    "Hypergraph": Family("Hypergraph", MH, False, "replay"),
    "SimplicialComplex": Family("SimplicialComplex", MS, False, "load"),
    "DiHypergraph": Family("DiHypergraph", MD, True, "dload"),
}


def observe_request(P, sp, T):
    r = {"op": "observe", "k": P["k"], "w": P["w"], "d": P["d"], "attr": P["attr"], "missing": enc_val_req(P["missing"]),
         "x": sp["x"], "y": sp["y"], "qx": sp["qx"], "qy": sp["qy"], "ax": enc_val_req(sp["ax"]), "ay": enc_val_req(sp["ay"]),
         "sp": sp["sp"], "nbunch": sp["nbunch"], "ebunch": sp["ebunch"], "nlookup": sp["nlookup"], "elookup": sp["elookup"],
         # oracle: the order in which `set(view ids)` iterates (the order `_val` is built in)
         "norder": [enc_id(i) for i in set(T.nodes)], "eorder": [enc_id(i) for i in set(T.edges)]}
    return r


def run_history(fam, ops, P, rng=None, steps=None, fixed_sp=None, want_requests=True):
    """run one history with held objects.  Returns list of per-step records
    dict(op, out, obs (Obs|None), sp, truth_ok, requests=[…], nontrivial-hash)"""
    M = fam.M
    box = M.factory()
    held = Held(fam.net(box), P, fam.directed)
    recs = []
    prev_order = {"nodes": [], "edges": []}
    for i, op in enumerate(ops):
        out, exc = M.apply_impl(box, op)
        H = fam.net(box)
        rebuilt = False
        if H is not held.H:           # `copy` / `cleanup(in_place=False)` continue on the returned network
            held = Held(H, P, fam.directed)
            rebuilt = True
        st, T = attempt(lambda: Truth(H, fam.directed))
        rec = {"op": op, "out": out, "obs": None, "sp": None, "skipped": None, "rebuilt": rebuilt, "T": None}
        if st != "ok" or not T.wellformed():
            rec["skipped"] = "state violates the incidence invariant (C01/C02/C03's business)" if st == "ok" else f"state unreadable: {st}"
            prev_order = None
        else:
            sp = fixed_sp if fixed_sp is not None else (steps[i] if steps is not None else gen_step(rng, T))
            rec["sp"], rec["T"] = sp, T
            try:
                rec["obs"] = observe(held, T, sp, None if rebuilt else prev_order, op)
            except Exception as e:  # noqa
                # reading the held views / stats crashed in a way no clause anticipated (never happens on a tree where the
                # views are live): the observation itself is the failure
                ob = Obs()
                ob.fail("held views and statistics", "observation-crashed:" + type(e).__name__,
                        f"reading the objects held since the empty network after {op.get('op')} raised {type(e).__name__}: {e}", "held")
                rec["obs"] = ob
            prev_order = {"nodes": list(T.nodes), "edges": list(T.edges)}
        recs.append(rec)
    return recs


def first_failure(fam, ops, P, sp, want=None):
    """re-run `ops` evaluating the predicate after every call with the fixed step arguments `sp`"""
    try:
        recs = run_history(fam, copy.deepcopy(ops), P, fixed_sp=sp)
    except Exception:  # noqa
        return None
    for i, r in enumerate(recs):
        if r["obs"] is not None:
            for f in r["obs"].fails:
                if want is None or (f[0], f[1]) == want:
                    return i, f
    return None


def record_violation(ctx, fam, ops, i, P, sp, f, shrunk):
    site, cls, detail, _ = f
    key = (site, cls)
    case_ops = ops[: i + 1]
    if key not in shrunk:
        shrunk.add(key)
        still = lambda cand: first_failure(fam, cand, P, sp, key) is not None
        if still(case_ops):
            case_ops = shrink(case_ops, still, budget=120)
            r = first_failure(fam, case_ops, P, sp, key)
            if r:
                detail = r[1][2]
    ctx.violation(site, cls, {"class": fam.name, "ops": [fam.M.to_request(o) for o in case_ops], "raw_ops": case_ops,
                              "params": P, "step": sp}, detail=detail)


def compare_model(ctx, fam, histories, all_recs):
    """send the histories (replay) or the states (load/dload) plus the observe requests to the driver and diff"""
    max_edges = ctx.n(28, 10 ** 9)      # quick tier: installed states with many edges are checked by the predicate only
    reqs, index = [], []
    for hi, (ops, P) in enumerate(histories):
        recs = all_recs[hi]
        if fam.mode == "replay":
            reqs.append({"op": "reset"}); index.append(None)
        for oi, rec in enumerate(recs):
            if fam.mode == "replay":
                reqs.append(fam.M.to_request(rec["op"])); index.append(("op", hi, oi))
            if rec["obs"] is None:
                continue
            if fam.mode != "replay" and len(rec["T"].edges) > max_edges:
                ctx.stats[f"{fam.name}:state_too_large_for_quick_model_comparison"] += 1
                continue
            if fam.mode != "replay":
                reqs.append({"op": "load" if fam.mode == "load" else "dload", **rec["T"].tables()}); index.append(None)
            q = observe_request(P, rec["sp"], rec["T"])
            if fam.mode == "dload":
                q["op"] = "dobserve"
            reqs.append(q); index.append(("obs", hi, oi))
    resps = run_driver("C06", reqs)
    dead, dis = set(), []
    for r, ix, q in zip(resps, index, reqs):
        if ix is None:
            if r.get("out") == "bad-op":
                raise Infra(f"C06 driver rejected {json.dumps(q)[:300]}")
            continue
        what, hi, oi = ix
        if hi in dead:
            continue
        rec = all_recs[hi][oi]
        if r.get("out") == "bad-op":
            raise Infra(f"C06 driver rejected request as bad-op (harness defect): {json.dumps(q)[:400]}")
        if r.get("out") == "unmodelled":
            ctx.stats[f"{fam.name}:unmodelled_tail"] += 1
            dead.add(hi); continue
        if what == "op":
            # the state itself (C05's subject) must agree, otherwise the observations are not comparable
            if rec["T"] is not None:
                m = canon(r)
                t = rec["T"].tables()
                same = (m["nodes"] == t["nodes"] and m["edges"] == t["edges"] and m["mem"] == [[e, ms] for e, ms in t["mem"]]
                        and m["memb"] == [[n, es] for n, es in t["memb"]])
                if not same:
                    dead.add(hi)
                    dis.append((hi, oi, ["state"], {"nodes": m["nodes"], "edges": m["edges"], "mem": m["mem"]},
                                {"nodes": t["nodes"], "edges": t["edges"], "mem": t["mem"]}))
            continue
        ctx.traces += 1
        m = canon(r)
        im = rec["obs"].o
        explained = {f[3] for f in rec["obs"].fails}
        diff = [k for k in im if k not in explained and not agree(m.get(k), im[k])]
        missing = [k for k in m if k not in im and k != "out" and not (fam.directed and k in ())]
        if diff or missing:
            dead.add(hi)
            dis.append((hi, oi, diff + ["missing:" + k for k in missing], {k: m.get(k) for k in diff}, {k: im[k] for k in diff}))
    for hi, oi, diff, m, im in dis[:40]:
        ops = histories[hi][0][: oi + 1]
        ctx.stats[f"disagree:{fam.name}:" + ",".join(diff)[:60]] += 1
        ctx.extra.setdefault("disagreements", [])
        if len(ctx.extra["disagreements"]) < 4:
            ctx.extra["disagreements"].append({"class": fam.name, "ops": [fam.M.to_request(o) for o in ops], "params": histories[hi][1],
                                               "step": all_recs[hi][oi]["sp"], "fields": diff,
                                               "model": json.loads(json.dumps(m, default=repr))if m else m, "impl": im})
    ctx.extra["disagreements_total"] = ctx.extra.get("disagreements_total", 0) + len(dis)
    if dis:
        ctx.broken.append(f"correspondence C06 views/stats ~ {fam.name}: model and implementation differ on "
                          f"{sorted({d for _, _, diff, *_ in dis for d in diff})[:8]}")
    return dis


def run_family(ctx, fam, n_hist, model_ok, shrunk, hist_len=(1, 22), weights=None, extra=()):
    rng = ctx.rng
    t0 = time.time()
    histories = [(copy.deepcopy(h["ops"]), h["params"]) for h in extra if h.get("class") == fam.name]
    for _ in range(n_hist):
        histories.append((fam.M.gen_history(rng, hist_len[0], hist_len[1], weights), gen_params(rng)))
    all_recs = []
    for ops, P in histories:
        recs = run_history(fam, ops, P, rng=rng)
        all_recs.append(recs)
        kinds = set()
        for i, rec in enumerate(recs):
            ctx.stats[f"{fam.name}:op:" + rec["op"]["op"]] += 1
            kinds.add(rec["op"]["op"])
            if rec["obs"] is None:
                ctx.stats[f"{fam.name}:skipped_state"] += 1
                continue
            ctx.evaluations += 1
            T = rec["T"]
            if len(kinds) >= 2 and any(len(ms) >= 2 for ms in T.mem.values()):
                ctx.nontrivial.add(jhash([fam.name, T.tables()]))
            if rec["rebuilt"]:
                ctx.stats[f"{fam.name}:held_objects_recreated_after_copy"] += 1
            seen = set()
            for f in rec["obs"].fails:
                if (f[0], f[1]) in seen:
                    continue
                seen.add((f[0], f[1]))
                record_violation(ctx, fam, ops, i, P, rec["sp"], f, shrunk)
        if recs:
            last = next((r for r in reversed(recs) if r["obs"] is not None), None)
            if last is not None:
                ctx.sample({"class": fam.name, "ops": [fam.M.to_request(o) for o in ops[:5]], "params": P,
                            "nodes": last["obs"].o.get("nodes"), "degree": ((last["obs"].o.get("nstats") or {}).get("degree") or {}).get("asdict")
                            if isinstance((last["obs"].o.get("nstats") or {}).get("degree"), dict) else None}, cap=3)
    ctx.stats[f"{fam.name}:histories"] = len(histories)
    t1 = time.time()
    dis = compare_model(ctx, fam, histories, all_recs) if model_ok else []
    tm = ctx.extra.setdefault("timing_s", {})
    tm[f"{fam.name}:implementation+predicate"] = round(tm.get(f"{fam.name}:implementation+predicate", 0) + t1 - t0, 1)
    tm[f"{fam.name}:model"] = round(tm.get(f"{fam.name}:model", 0) + time.time() - t1, 1)
    return dis, histories, all_recs


def small_scope(n_nodes, max_edges):
    """every hypergraph over n_nodes labelled nodes (inserted in decreasing order, so view order differs from sorted
    order) with <= max_edges distinct edges among all subsets INCLUDING the empty edge, each also with its first edge
    repeated (a multi-edge); as histories `add_nodes_from` + one `add_edge` per edge, so the objects are held across
    the construction"""
    import itertools
    nodes = list(range(n_nodes))[::-1]
    subsets = [list(c) for r in range(0, n_nodes + 1) for c in itertools.combinations(nodes, r)]
    P = {"k": 1, "w": "w", "d": 2, "attr": "color", "missing": None}
    for k in range(max_edges + 1):
        for combo in itertools.combinations(subsets, k):
            for dup in ((False, True) if combo else (False,)):
                es = list(combo) + ([combo[0]] if dup else [])
                ops = [{"op": "add_nodes_from", "items": [{"n": n} for n in nodes], "attr": []}]
                ops += [{"op": "add_edge", "members_raw": list(ms), "idx": i, "attr": [["w", i]] if i % 2 else []} for i, ms in enumerate(es)]
                yield {"class": "Hypergraph", "ops": ops, "params": P}


def corpus_cases():
    out = []
    import glob
    from ..core import VERIF
    for f in sorted(glob.glob(os.path.join(VERIF, "corpus", "C06", "*.json"))):
        try:
            j = json.load(open(f))
            c = j.get("case", j)
            if "raw_ops" in c:
                out.append({"class": c["class"], "ops": c["raw_ops"], "params": c["params"]})
        except Exception:  # noqa
            pass
    return out


def run(ctx):
    ok = build_and_audit(ctx, "XgiModel.Props.C06", ["XgiModel.C06.Drive"])
    ctx.extra["timing_s"] = {"build+audit": round(time.time() - ctx.t0, 1)}
    ctx.rule = ("edit histories of 1-22 public mutator calls (generators of harness/hg.py, sc.py, dhg.py) on Hypergraph, "
                "SimplicialComplex and DiHypergraph; views, stat objects (degree with order/weight, average_neighbor_degree, "
                "attrs with missing, size/order with degree, in/out degree, head/tail size/order) and multi-stat objects are "
                "created once before the first call and read after every call, together with filtered views, filterby (7 modes, "
                "by name and by stat object), filterby_attr (7 modes), neighbors (s), lookup, duplicates, isolates, singletons, "
                "empty, maximal (strict); non-trivial = distinct state (incidence + attributes) with an edge of >= 2 members "
                "reached through >= 2 op kinds")
    shrunk = set()
    extra = corpus_cases()
    ctx.stats["corpus_histories"] = len(extra)
    plan = [("Hypergraph", ctx.n(70, 1400)), ("SimplicialComplex", ctx.n(22, 180)), ("DiHypergraph", ctx.n(36, 650))]
    results = {}
    for name, n in plan:
        fam = FAMILIES[name]
        # `clear()` / `clear_edges()` in the middle of a history are what held views are most exposed to
        boost = {"clear": 4, "clear_edges": 4} if name != "DiHypergraph" else {"clear": 4}
        results[name] = run_family(ctx, fam, n, ok and model_available(fam), shrunk, extra=extra, weights=boost)
    # exhaustive small scope of the correspondence (validation of the model, not the proof)
    nn, me = ctx.n(3, 4), ctx.n(2, 3)
    small = list(small_scope(nn, me))
    results["small-scope"] = run_family(ctx, FAMILIES["Hypergraph"], 0, ok, shrunk, extra=small)
    ctx.stats["small_scope_hypergraphs"] = len(small)
    ctx.exhaustive = True
    ctx.extra["exhaustive_space"] = (f"correspondence + predicate on every hypergraph with {nn} labelled nodes and <= {me} distinct edges "
                               f"among all {2 ** nn} subsets (empty edge included), each also with its first edge doubled: {len(small)} "
                               "hypergraphs, observed after every construction step with objects held from the empty network on")
    unexplained = any(r[0] for r in results.values())
    if (unexplained or not ok) and not any(v["kind"] == "concrete" for v in ctx.violations):
        # look harder on the implementation alone, biased to the op kinds of the disagreeing histories
        for name, n in plan:
            fam = FAMILIES[name]
            dis, histories, _ = results[name]
            kinds = {}
            for hi, oi, *_ in dis:
                for op in histories[hi][0][: oi + 1]:
                    kinds[op["op"]] = 30
            run_family(ctx, fam, ctx.n(150, 1500), False, shrunk, weights=kinds or None)
        if not any(v["kind"] == "concrete" for v in ctx.violations):
            ctx.violation("model-tie", "unproven", {"broken": ctx.broken, "example": ctx.extra.get("disagreements", [])[:1]},
                          detail="; ".join(ctx.broken)[:500], kind="unproven", broken=ctx.broken)
    elif unexplained:
        # disagreements next to concrete violations: if every concrete violation is a known finding, the
        # correspondence is still broken for another reason -> report it
        ctx.violation("model-tie", "unproven", {"broken": ctx.broken, "example": ctx.extra.get("disagreements", [])[:1]},
                      detail="; ".join(ctx.broken)[:500], kind="unproven", broken=ctx.broken)
    ctx.assumptions = [
        "IDs restricted to int/str/tuple-of-atoms; attribute values int/str/None/opaque JSON/sets (bool and float values outside the model)",
        "the predicate is evaluated on states that satisfy the two-way incidence invariant (C01/C02/C03's subject); other states are counted as skipped",
        "a held FILTERED view naming an ID removed later may raise — not counted (DESIGN §7); filtered views are created from the held full views at every step",
        "after `copy` / `cleanup(in_place=False)` of a DiHypergraph history the held objects are re-created on the returned network",
        "numpy/pandas are oracles: asnumpy/aspandas values are compared when the values are scalars of one type (np.array / pd.Series coerce mixed lists)",
        "the model describes the code with proposed_fixes/C06-*.diff applied (aspandas in view order, maximal with an empty edge, directed neighbors/lookup/duplicates over the member union)",
    ]
    return finish(ctx, trusted_base=TRUSTED_COMMON + [
        "harness/props/c06.py: brute-force definitions over freshly constructed views (NodeView(H), EdgeView(H), DiNodeView, DiEdgeView), "
        "float rule |x - p/q| <= 1e-9 max(1,|p/q|) for average_neighbor_degree",
        "liveness (Python object aliasing: views hold the network's dicts, stat values are recomputed) is not a theorem: it is exhibited "
        "only by reading objects held across the whole history and comparing them with fresh views and with the model after every call"])


def model_available(fam):
    if fam.mode != "dload":
        return True
    from ..core import LEAN
    return os.path.exists(os.path.join(LEAN, "XgiModel", "C06", "DiViews.lean"))


def replay(ctx, path):
    """./check C06 --replay <file>: re-run a stored history with held objects; report the first predicate failure"""
    j = json.load(open(path))
    case = j.get("case", j)
    fam = FAMILIES[case["class"]]
    r = first_failure(fam, case["raw_ops"], case["params"], case["step"])
    if r is None:
        print(f"C06 replay {path}: predicate holds after every call ({len(case['raw_ops'])} ops)")
        return 0
    i, f = r
    print(f"C06 replay {path}: VIOLATION after op {i} ({case['raw_ops'][i]['op']}) site={f[0]} class={f[1]}: {f[2]}")
    return 1
